import Lemmas.BitSetHist
import Lemmas.BitSetSearch
import Lemmas.BitSetBounds
import Lemmas.BitSetHeapLemmas
import Lemmas.BitSetMasks
/-! # C08 — BitSet is observationally a finite set of non-negative integers

Property theorems only.  The executable model is `Model/BitSet.lean` (`BS.*`, run against `xmath.BitSet` on every
check through `BS.applyOp` and the query functions); helper lemmas are in `Lemmas/BitSet*.lean`.

* abstraction: `BS.mem b i` — index `i` is a member of the set the words of `b` denote (absent words are empty);
* specification: a pair of predicates `Nat → Bool` (`BS.NSet`) subjected to the same calls (`BS.specOp`);
* `BS.Inv b` — the cached count `b.set` equals the number of one bits of the storage (`BS.card`), which is the number
  of members (`count_is_cardinality`).

Everything is proved outright.  Whatever speaks about `Count` after a range operation goes through the whole-word fast
path, which calls the repository's SWAR routine `countSetBits`; that this routine is the population count on every
64-bit word is `countSetBits_eq_popcount` below (kernel-only proof by byte lanes, `Lemmas/BitSetSwar.lean`: the 256
byte values are evaluated by the kernel, the lane algebra is linear arithmetic), and it is also compared with the real
`countSetBits` on every run (area `popcnt`). -/
namespace C08
open BS

/-- the constants the proofs are about are the constants of the source (regenerated on every run) -/
theorem consts : abpw = 6 ∧ dbpw = 64 ∧ bim = 63 := by decide

/-- `bitIndexForMask(wordMask(x)) = x & 63`: the `atexit.Exit(1)` branch of `bitIndexForMask` is unreachable -/
theorem bitIndexForMask_total (x : Nat) : bitIndexForMask (wordMask x) = x % 64 := bitIndexForMask_wordMask x

/-! ## State, Count -/

/-- **State(i)** is true exactly for the members -/
theorem state_spec (b : T) (i : Nat) : state b i = mem b i := state_eq_mem b i

/-- members lie below the capacity: the set is finite -/
theorem mem_finite (b : T) (x : Nat) (h : mem b x = true) : x < b.data.length * 64 := bit_lt _ _ h

/-- **Count** is the cardinality: under the invariant, the number of members below any bound covering the set -/
theorem count_is_cardinality (b : T) (hinv : Inv b) (N : Nat) (hN : ∀ x, mem b x = true → x < N) :
    count b = Int.ofNat ((List.range N).filter (mem b)).length := count_eq_members b hinv N hN

/-! ## single-index mutators (no assumption) -/

/-- **Set** -/
theorem set_spec (b : T) (i : Nat) :
    (∀ x, mem (setBit b i) x = (mem b x || decide (x = i))) ∧ (Inv b → Inv (setBit b i)) :=
  ⟨setBit_mem b i, setBit_inv b i⟩

/-- **Clear** (also beyond the capacity) -/
theorem clear_spec (b : T) (i : Nat) :
    (∀ x, mem (clearBit b i) x = (mem b x && !decide (x = i))) ∧ (Inv b → Inv (clearBit b i)) :=
  ⟨clearBit_mem b i, clearBit_inv b i⟩

/-- **Flip** -/
theorem flip_spec (b : T) (i : Nat) :
    (∀ x, mem (flipBit b i) x = (mem b x ^^ decide (x = i))) ∧ (Inv b → Inv (flipBit b i)) :=
  ⟨flipBit_mem b i, flipBit_inv b i⟩

/-! ## range mutators: reversed ranges, ranges inside a word, across words, beyond the capacity -/

/-- **SetRange**: members afterwards = members before ∪ [min, max] (no assumption) -/
theorem setRange_mem_spec (b : T) (s e x : Nat) :
    mem (setRange b s e) x = (mem b x || decide (min s e ≤ x ∧ x ≤ max s e)) := setRange_mem b s e x

/-- **ClearRange**: members afterwards = members before \ [min, max], also past the capacity (no assumption) -/
theorem clearRange_mem_spec (b : T) (s e x : Nat) :
    mem (clearRange b s e) x = (mem b x && !decide (min s e ≤ x ∧ x ≤ max s e)) := clearRange_mem b s e x

/-- **FlipRange**: members afterwards = members before Δ [min, max] (no assumption) -/
theorem flipRange_mem_spec (b : T) (s e x : Nat) :
    mem (flipRange b s e) x = (mem b x ^^ decide (min s e ≤ x ∧ x ≤ max s e)) := flipRange_mem b s e x

/-- the repository's SWAR routine `countSetBits` (x − ((x>>1) & 0x55…), 2-bit sums, nibble sums, mask 0x0f…, multiply by
    0x01…, >> 56) **is the population count, on every 64-bit word** -/
theorem countSetBits_eq_popcount (x : W) : countSetBits x = Int.ofNat (popcount x) := BS.countSetBits_eq_popcount x

/-- **SetRange / ClearRange / FlipRange** keep `Count` equal to the cardinality (whole-word fast path included) -/
theorem range_count (b : T) (s e : Nat) (h : Inv b) :
    Inv (setRange b s e) ∧ Inv (clearRange b s e) ∧ Inv (flipRange b s e) :=
  ⟨(setRange_spec b s e).2 h, (clearRange_spec b s e).2 h, (flipRange_spec b s e).2 h⟩

set_option maxRecDepth 200000 in
/-- a direct kernel evaluation of the routine on every byte pattern replicated into all eight byte lanes (kept as an
    independent cross-check of the transcription; the general theorem is `countSetBits_eq_popcount`) -/
theorem swar_bytes : ∀ n, n < 256 →
    countSetBits (BitVec.ofNat 64 (n * 0x0101010101010101))
      = Int.ofNat (popcount (BitVec.ofNat 64 (n * 0x0101010101010101))) := by decide

/-- the per-bit loops (first and last word of every range) keep the count exact — the
    change of `set` is the change of the word's population count -/
theorem bitLoop_count (w : W) (s : Int) (j n : Nat) (h : j + n ≤ 64) :
    (bitLoop bitSet w s j n).2 = s + popcount (bitLoop bitSet w s j n).1 - popcount w
    ∧ (bitLoop bitClear w s j n).2 = s + popcount (bitLoop bitClear w s j n).1 - popcount w
    ∧ (bitLoop bitFlip w s j n).2 = s + popcount (bitLoop bitFlip w s j n).1 - popcount w :=
  ⟨(bitLoop_spec bitSet_spec n w s j h).2, (bitLoop_spec bitClear_spec n w s j h).2,
   (bitLoop_spec bitFlip_spec n w s j h).2⟩

/-! ## histories -/

/-- **after any sequence of calls** on two bit sets (Set, Clear, Flip, the three range forms, Load, Copy, Clone, Trim,
    EnsureCapacity, Reset, Data, Load(Data())) the members of each are exactly those of a mathematical set subjected
    to the same operations (no assumption) -/
theorem run_refines (ops : List Op) (r : Reg) (x : Nat) : mem ((run ops).get r) x = (specRun ops).get r x :=
  run_mem ops r x

/-- **after any sequence of calls** `Count` equals the cardinality, for both bit sets of the history -/
theorem count_card (ops : List Op) (r : Reg) : Inv ((run ops).get r) := (run_rel ops r).1

/-- one step of any history keeps the invariant and the agreement with the specification -/
theorem step_spec (p : Pair) (sp : SPair) (h : Rel p sp) (op : Op) :
    Rel (applyOp p op) (specOp sp op) := step_refines p sp h op

/-- `Count` after a history without range operations is the cardinality — proved without going through
    `countSetBits` at all (independent of `countSetBits_eq_popcount`) -/
theorem count_card_norange (ops : List Op)
    (hno : ∀ op ∈ ops, match op with | .setRange .. | .clearRange .. | .flipRange .. => False | _ => True)
    (r : Reg) : Inv ((run ops).get r) := by
  have key : ∀ (l : List Op), (∀ op ∈ l, match op with | .setRange .. | .clearRange .. | .flipRange .. => False | _ => True) →
      ∀ p : Pair, (∀ r, Inv (p.get r)) → ∀ r, Inv ((l.foldl applyOp p).get r) := by
    intro l
    induction l with
    | nil => intro _ p hp; exact hp
    | cons op l ih =>
      intro hl p hp
      apply ih (fun o ho => hl o (List.mem_cons_of_mem _ ho))
      have hop := hl op (List.mem_cons_self ..)
      intro r'
      cases op with
      | setRange _ _ _ => exact absurd hop id
      | clearRange _ _ _ => exact absurd hop id
      | flipRange _ _ _ => exact absurd hop id
      | set q i => show Inv ((p.put q _).get r'); rw [get_put]; split; exact setBit_inv _ _ (hp q); exact hp r'
      | clear q i => show Inv ((p.put q _).get r'); rw [get_put]; split; exact clearBit_inv _ _ (hp q); exact hp r'
      | flip q i => show Inv ((p.put q _).get r'); rw [get_put]; split; exact flipBit_inv _ _ (hp q); exact hp r'
      | load q ws => show Inv ((p.put q _).get r'); rw [get_put]; split; exact load_inv _ _; exact hp r'
      | copy q q' => show Inv ((p.put q _).get r'); rw [get_put]; split; exact hp q'; exact hp r'
      | clone q q' => show Inv ((p.put q _).get r'); rw [get_put]; split; exact hp q'; exact hp r'
      | trim q => show Inv ((p.put q _).get r'); rw [get_put]; split; exact trim_inv _ (hp q); exact hp r'
      | ensure q n => show Inv ((p.put q _).get r'); rw [get_put]; split; exact ensure_inv _ _ (hp q); exact hp r'
      | reset q => show Inv ((p.put q _).get r'); rw [get_put]; split; exact reset_inv _; exact hp r'
      | data q => show Inv ((p.put q (trim (p.get q))).get r'); rw [get_put]; split; exact trim_inv _ (hp q); exact hp r'
      | loadData q q' =>
        show Inv (((p.put q' (trim (p.get q'))).put q _).get r')
        rw [get_put]; split
        · exact load_inv _ _
        · rw [get_put]; split; exact trim_inv _ (hp q'); exact hp r'
  exact key ops hno {} (fun r => by cases r <;> rfl) r

/-! ## the six searches: the extreme matching index or the documented sentinel -/

/-- **NextSet** -/
theorem nextSet_spec (b : T) (s : Nat) :
    (nextSet b s = -1 ∧ ∀ x, s ≤ x → mem b x = false)
    ∨ ∃ r : Nat, nextSet b s = Int.ofNat r ∧ s ≤ r ∧ mem b r = true ∧ ∀ x, s ≤ x → x < r → mem b x = false :=
  BS.nextSet_spec b s

/-- **PreviousSet** (start positions beyond the capacity included) -/
theorem previousSet_spec (b : T) (s : Nat) :
    (previousSet b s = -1 ∧ ∀ x, x ≤ s → mem b x = false)
    ∨ ∃ r : Nat, previousSet b s = Int.ofNat r ∧ r ≤ s ∧ mem b r = true ∧ ∀ x, r < x → x ≤ s → mem b x = false :=
  BS.previousSet_spec b s

/-- **FirstSet**: `-1` for the empty set, else the least member -/
theorem firstSet_spec (b : T) :
    (firstSet b = -1 ∧ ∀ x, mem b x = false)
    ∨ ∃ r : Nat, firstSet b = Int.ofNat r ∧ mem b r = true ∧ ∀ x, x < r → mem b x = false :=
  BS.firstSet_spec b

/-- **LastSet**: `-1` for the empty set, else the greatest member -/
theorem lastSet_spec (b : T) :
    (lastSet b = -1 ∧ ∀ x, mem b x = false)
    ∨ ∃ r : Nat, lastSet b = Int.ofNat r ∧ mem b r = true ∧ ∀ x, r < x → mem b x = false :=
  BS.lastSet_spec b

/-- **NextClear**: the least non-member at or after `start` (it always exists; beyond the capacity it is
    `max(capacity, start)`, which is what the formula of the source returns) -/
theorem nextClear_spec (b : T) (s : Nat) :
    ∃ r : Nat, nextClear b s = Int.ofNat r ∧ s ≤ r ∧ mem b r = false ∧ ∀ x, s ≤ x → x < r → mem b x = true :=
  BS.nextClear_spec b s

/-- **PreviousClear**: `-1` when every index up to `start` is a member, else the greatest non-member `≤ start` -/
theorem previousClear_spec (b : T) (s : Nat) :
    (previousClear b s = -1 ∧ ∀ x, x ≤ s → mem b x = true)
    ∨ ∃ r : Nat, previousClear b s = Int.ofNat r ∧ r ≤ s ∧ mem b r = false ∧ ∀ x, r < x → x ≤ s → mem b x = true :=
  BS.previousClear_spec b s

/-! ## Trim, Data, EnsureCapacity, Clone, Copy, Reset never change the set; Load -/

/-- **Trim** keeps members and count, and leaves the minimum storage (empty or ending in a non-zero word) -/
theorem trim_spec (b : T) :
    (∀ x, mem (trim b) x = mem b x) ∧ count (trim b) = count b ∧ (Inv b → Inv (trim b))
    ∧ ((trim b).data = [] ∨ getW (trim b).data ((trim b).data.length - 1) ≠ 0#64) :=
  ⟨trim_bit b, trim_set b, trim_inv b, trim_minimal b⟩

/-- **Data** returns the trimmed words — they denote exactly the members — and leaves the set unchanged -/
theorem data_spec (b : T) :
    (∀ x, bit (data b).2 x = mem b x) ∧ (∀ x, mem (data b).1 x = mem b x) ∧ count (data b).1 = count b
    ∧ ((data b).2 = [] ∨ getW (data b).2 ((data b).2.length - 1) ≠ 0#64) :=
  ⟨trim_bit b, trim_bit b, trim_set b, trim_minimal b⟩

/-- **EnsureCapacity** keeps members and count and provides the capacity -/
theorem ensureCapacity_spec (b : T) (n : Nat) :
    (∀ x, mem (ensureCapacity b n) x = mem b x) ∧ count (ensureCapacity b n) = count b
    ∧ n ≤ (ensureCapacity b n).data.length :=
  ⟨ensure_bit b n, ensure_set b n, ensure_length b n⟩

/-- **EnsureCapacity** with a zero, negative or any other Go `int` argument is `ensureCapacity` of the clamped value
    (the driver executes `applyOp (.ensure r words.toNat)`); in particular a request `≤ 0` changes nothing -/
theorem ensureCapacity_int (b : T) (words : Int) :
    ensureCapacityInt b words = ensureCapacity b words.toNat ∧ (words ≤ 0 → ensureCapacityInt b words = b) := by
  unfold ensureCapacityInt ensureCapacity
  refine ⟨?_, fun h => ?_⟩
  · simp only
    split
    · rfl
    · rename_i hn
      have : ¬ words.toNat > b.data.length := by simp only [Int.ofNat_eq_natCast] at hn; omega
      simp [this]
  · simp only
    have : ¬ words > Int.ofNat b.data.length := by simp only [Int.ofNat_eq_natCast]; omega
    rw [if_neg this]

/-- **Clone** / **Copy** produce the same set with the same count -/
theorem clone_copy_spec (b o : T) :
    (∀ x, mem (clone b) x = mem b x) ∧ count (clone b) = count b
    ∧ (∀ x, mem (copy b o) x = mem o x) ∧ count (copy b o) = count o :=
  ⟨fun _ => rfl, rfl, fun _ => rfl, rfl⟩

/-- **Copy** of a bit set onto itself (`b.Copy(b)`) is the identity — on the bit set and on a whole history state -/
theorem copy_self (b : T) (p : Pair) (r : Reg) : copy b b = b ∧ applyOp p (.copy r r) = p := by
  refine ⟨rfl, ?_⟩
  cases r <;> rfl

/-- **Reset** gives the empty set with count 0 -/
theorem reset_spec (b : T) : (∀ x, mem (reset b) x = false) ∧ count (reset b) = 0 :=
  ⟨reset_mem b, rfl⟩

/-- **Load** installs exactly the members denoted by the words and recomputes the count (whatever was there before) -/
theorem load_spec (b : T) (ws : List W) : (∀ x, mem (load b ws) x = bit ws x) ∧ Inv (load b ws) :=
  ⟨load_bit b ws, load_inv b ws⟩

/-- **Load(Data())** reproduces the set: same members, same count, equal in the sense of `Equal` -/
theorem load_data (b c : T) (hb : Inv b) :
    (∀ x, mem (load c (data b).2) x = mem b x) ∧ count (load c (data b).2) = count b
    ∧ equal (load c (data b).2) b = true := by
  have hm : ∀ x, mem (load c (data b).2) x = mem b x := fun x => by
    unfold mem; rw [load_bit]; exact trim_bit b x
  have hi := load_inv c (data b).2
  refine ⟨hm, ?_, (BS.equal_iff _ _ hi hb).mpr hm⟩
  unfold count; unfold BS.Inv at hi hb
  rw [hi, hb, card_congr _ _ hm]

/-! ## Equal -/

/-- **Equal** is true exactly when the two bit sets contain the same indexes — capacities play no role
    (for bit sets whose count is the cardinality, which every history guarantees) -/
theorem equal_iff (a b : T) (ha : Inv a) (hb : Inv b) : equal a b = true ↔ ∀ x, mem a x = mem b x :=
  BS.equal_iff a b ha hb

/-- `Equal` as written, with no invariant assumed: same cached count and same members -/
theorem equal_iff_raw (a b : T) : equal a b = true ↔ (a.set = b.set ∧ ∀ x, mem a x = mem b x) :=
  BS.equal_iff_raw a b

/-! ## no index-out-of-range panic: every word access of every operation is in bounds

`Model/BitSetChecked.lean` repeats the transcription with checked accesses: `b.data[i]` is `none` (Go: run-time panic
"index out of range") unless `i < len(b.data)`, a write likewise, a slice expression `s[n:]` unless `n ≤ len(s)`.  The
total model reads absent words as zero and ignores writes past the end; these theorems show that it never relies on that. -/

/-- **every mutating call, on EVERY state** (a fortiori every state reached from the empty set): the checked execution
    does not fail and computes what the total model computes -/
theorem all_accesses_in_bounds (p : Pair) (op : Op) : applyOpC p op = some (applyOp p op) := applyOpC_eq p op

/-- … hence every history from two zero-value bit sets runs without an out-of-range access -/
theorem all_accesses_in_bounds_run (ops : List Op) : runC ops = some (run ops) := runC_eq ops

/-- … and so do all queries, for every bit set and every non-negative argument -/
theorem all_accesses_in_bounds_queries (b o : T) (i : Nat) :
    stateC b i = some (state b i) ∧ nextSetC b i = some (nextSet b i) ∧ previousSetC b i = some (previousSet b i)
    ∧ nextClearC b i = some (nextClear b i) ∧ previousClearC b i = some (previousClear b i)
    ∧ firstSetC b = some (firstSet b) ∧ lastSetC b = some (lastSet b) ∧ equalC b o = some (equal b o) :=
  ⟨stateC_eq b i, nextSetC_eq b i, previousSetC_eq b i, nextClearC_eq b i, previousClearC_eq b i, firstSetC_eq b,
   lastSetC_eq b, equalC_eq b o⟩

/-- CONTRAST: the checked semantics does see a missing guard — `Set` without `EnsureCapacity`, `ClearRange` without the
    clamp to the last word, `PreviousSet` without the clamp, `Equal` without the swap to (shorter, longer) all index out
    of range on small inputs -/
theorem bounds_contrast :
    setBitNoEnsureC {} 70 = none
    ∧ clearRangeNoClampC (setBit {} 5) 0 200 = none
    ∧ previousSetNoClampC (setBit {} 5) 200 = none
    ∧ equalNoSwapC (ensureCapacity (setBit {} 5) 2) (setBit {} 5) = none := by decide

/-! ## no shared storage: the heap model

`Model/BitSetHeap.lean` models a bit set as a slice header into a heap of arrays: in-place statements write into the
array the receiver points to, `make` + `copy` allocates, the caller's slices (arguments of `Load`, results of `Data`)
live in the same heap and may be scribbled on.  The driver executes this model. -/

/-- **after every session** (calls of the API interleaved with the caller scribbling on slices it holds) the heap is
    separated — the two bit sets share no array and none with the caller — and it denotes exactly what the value model
    computes from the calls alone: the scribbles have no effect and no call leaks into another bit set -/
theorem heap_refines (evs : List Ev) : Sep (runH evs) ∧ (runH evs).denote = run (opsOf evs) :=
  foldl_heap evs {} sep_init

/-- **no aliasing**: on every state reached by a session, a call changes only the bit sets it is a call on (the receiver;
    for `r.Load(q.Data())` also `q`, which `Data` trims) — the other bit set keeps its words and its count — and every
    slice the caller holds keeps its content -/
theorem no_aliasing (evs : List Ev) (op : Op) :
    (∀ r', r' ∉ opWrites op → (applyOpH (runH evs) op).view r' = (runH evs).view r')
    ∧ (∀ a, a ∈ (runH evs).ext → arrAt (applyOpH (runH evs) op).mem a = arrAt (runH evs).mem a) := by
  obtain ⟨hs, _⟩ := heap_refines evs
  obtain ⟨d, _, e⟩ := applyOpH_spec (runH evs) hs op
  refine ⟨fun r' hr' => ?_, e.2⟩
  rw [← denote_get, d, applyOp_get_other _ _ _ hr', denote_get]

/-- one step, for any separated heap: refinement of the value model, separation kept, caller's slices kept -/
theorem heap_step (h : Heap) (hs : Sep h) (op : Op) :
    (applyOpH h op).denote = applyOp h.denote op ∧ Sep (applyOpH h op) ∧ ExtStable h (applyOpH h op) :=
  applyOpH_spec h hs op

/-- the caller scribbling on a slice it holds changes neither bit set -/
theorem scribble_harmless (evs : List Ev) (a : Nat) (ha : a ∈ (runH evs).ext) :
    (scribbleH (runH evs) a).denote = (runH evs).denote :=
  (scribbleH_spec _ (heap_refines evs).1 a ha).1

/-- CONTRAST: the heap model does see sharing.  `Clone` that shares the slice: a later `Set` on the original shows in
    the clone.  `Data` that returns the receiver's slice: the caller's scribble changes the bit set.  `Copy` as it
    was before the fix aa1f799: copying a bit set onto itself zeroes its words and keeps the count -/
theorem aliasing_contrast :
    (let h := cloneShareH (runH [.op (.set .A 3), .op (.set .A 70)]) .B .A
     ((applyOpH h (.set .A 4)).view .B).data ≠ (h.view .B).data)
    ∧ (let h := dataShareH (runH [.op (.set .A 3)]) .A
       ((scribbleH h h.lastExt).view .A).data ≠ (h.view .A).data)
    ∧ (let h := runH [.op (.set .A 5), .op (.set .A 70)]
       (copyOldH h .A .A).view .A = { data := [0#64, 0#64], set := 2 }
       ∧ (applyOpH h (.copy .A .A)).view .A = h.view .A) := by decide

/-! ## range masks: a word-at-a-time implementation computes what the per-bit loops compute

Groundwork and documentation (`Lemmas/BitSetMasks.lean`): the shape `MaxUint64 << startBit`, `MaxUint64 >> (63 - endBit)`
is the one of the silent control control-ind5-c08 and, with a defect, of ind4-c08-a / ind5-c08-a. -/

/-- the bit patterns of the two shifts and of their conjunction -/
theorem range_masks (s e k : Nat) (he : e < 64) (hk : k < 64) :
    (maskFrom s).getLsbD k = decide (s ≤ k) ∧ (maskTo e).getLsbD k = decide (k ≤ e)
    ∧ (rangeMask s e).getLsbD k = decide (s ≤ k ∧ k ≤ e) :=
  ⟨maskFrom_bit s k hk, maskTo_bit e k he hk, rangeMask_bit s e k he hk⟩

/-- one word: the per-bit loop over the bits `j … j+n−1` IS `w | m`, `w &^ m`, `w ^ m` with `m` the range mask, and it
    changes the count by the population count of the bits that really change -/
theorem bit_loops_are_masks (w : W) (s : Int) (j n : Nat) (hn : 0 < n) (h : j + n ≤ 64) :
    bitLoop bitSet w s j n = (w ||| rangeMask j (j + n - 1), s + popcount (rangeMask j (j + n - 1) &&& ~~~w))
    ∧ bitLoop bitClear w s j n = (w &&& ~~~rangeMask j (j + n - 1), s - popcount (w &&& rangeMask j (j + n - 1)))
    ∧ bitLoop bitFlip w s j n
        = (w ^^^ rangeMask j (j + n - 1), s + popcount (rangeMask j (j + n - 1)) - 2 * popcount (w &&& rangeMask j (j + n - 1))) :=
  ⟨bitLoop_maskSet w s j n hn h, bitLoop_maskClear w s j n hn h, bitLoop_maskFlip w s j n hn h⟩

/-- **any word-at-a-time range loop** whose body agrees with the whole-word fast path on the full mask and with the bit
    loop on a range mask equals the loop of the source, words and count; a single-word range takes BOTH bounds -/
theorem word_at_a_time_loop {whole : W → Int → W × Int} {act : W → Int → Nat → W × Int} {app : W → Int → W → W × Int}
    (hwhole : ∀ w s, whole w s = app w s (BitVec.allOnes 64))
    (hbits : ∀ w s j n, 0 < n → j + n ≤ 64 → bitLoop act w s j n = app w s (rangeMask j (j + n - 1)))
    (i1 i2 sb eb : Nat) (hsb : sb < 64) (heb : eb < 64) (h12 : i1 ≤ i2) (hse : i1 = i2 → sb ≤ eb) (d : List W) (s : Int) :
    rangeLoopW app i1 i2 sb eb d s i1 (i2 + 1 - i1) = rangeLoop whole act i1 i2 eb d s i1 sb (i2 + 1 - i1) := by
  have := rangeLoopW_eq hwhole hbits i1 i2 sb eb hsb heb h12 hse (i2 + 1 - i1) d s i1 (Nat.le_refl _) (by omega)
  simpa using this

/-- **SetRange / ClearRange / FlipRange written word at a time** (same swap, same `EnsureCapacity`, same clamp) are the
    operations of the source, for all arguments -/
theorem word_at_a_time_ops (b : T) (s e : Nat) :
    setRangeW b s e = setRange b s e ∧ clearRangeW b s e = clearRange b s e ∧ flipRangeW b s e = flipRange b s e :=
  ⟨setRangeW_eq b s e, clearRangeW_eq b s e, flipRangeW_eq b s e⟩

/-- CONTRAST: (1) a single-word range that uses only the start mask sets bits past `end`; (2) only the end mask sets bits
    before `start`; (3) a flip whose count is updated by the population count of the mask, ignoring the bits that were
    already set, drifts (the defect class of ind4-c08-a) -/
theorem mask_contrast :
    (0#64 ||| maskFrom 3) ≠ (bitLoop bitSet 0#64 0 3 3).1
    ∧ (0#64 ||| maskTo 5) ≠ (bitLoop bitSet 0#64 0 3 3).1
    ∧ (0#64 ||| rangeMask 3 5) = (bitLoop bitSet 0#64 0 3 3).1
    ∧ (5 : Int) + popcount (rangeMask 0 3) ≠ (bitLoop bitFlip 0x3#64 5 0 4).2
    ∧ (maskFlip 0x3#64 5 (rangeMask 0 3)).2 = (bitLoop bitFlip 0x3#64 5 0 4).2 := by decide

/-! non-vacuity: the invariant holds for the zero value and a concrete history; `countSetBits` evaluated at sample
    words; `equal` sees through different capacities -/
example : BS.Inv ({} : T) := rfl
example : countSetBits 0xdeadbeef12345678#64 = Int.ofNat (popcount 0xdeadbeef12345678#64) := by decide
example : countSetBits (BitVec.allOnes 64) = 64 := by decide
example : equal (ensureCapacity (setBit {} 5) 8) (setBit {} 5) = true := by decide
example : (run [.set .A 5, .copy .B .A, .ensure .B 8]).b.data.length = 8 := by decide

end C08
