import Model.RBTree
namespace C06
open RB

/-- placeholder while the harness is wired -/
theorem empty_count {K V : Type} : (Tree.empty : Tree K V).count = 0 := rfl

end C06
