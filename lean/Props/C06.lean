import Lemmas.RBChecked
import Lemmas.RBHeapRem
/-! # C06 — the red-black tree behaves as a stably ordered multimap and stays balanced

Property theorems only.  The executable model is `Model/RBTree.lean` (`RB.T` = node structure, `RB.Tree` = root +
count, every operation returning also its number of `compare` calls); it is the model the driver `drv_c06` runs against
`redblack.Tree[int,int]` on every check (results, compare counts, node shape and colours).  Helper lemmas are in
`Lemmas/RBInv.lean`, `RBOrder.lean`, `RBRun.lean`.

`cmp : K → K → Ordering` is the user's compare function; `RB.TotalPreorder cmp` is the explicit hypothesis that it is a
total preorder (distinguishable keys may compare equal).  The specification `RB.Spec` is a list of `(key, value)`
sorted by key with equal keys in insertion order: `Spec.insert` puts the entry after every entry whose key is ≤ the new
key, `Spec.remove` erases the first entry whose key compares equal, `Spec.visit f` feeds the entries to the visitor in
list order until it returns `false`. -/
/-! Domain of the traversal theorems: a visitor is a state-passing function of the entry it is shown; it may stop, keep
state, (in Go) panic or call read-only methods of the tree, but a Go visitor that calls `Insert`/`Remove` on the tree it
is being shown is outside these theorems and outside the correspondence run (the library does not define that case). -/
namespace C06
open RB

variable {K V σ : Type} {cmp : K → K → Ordering}

/-! ## balance -/

/-- **balance clause** — after any history of `Insert`/`Remove` from the empty tree (any compare function at all) the
    red-black invariants hold: equal black height on all paths, no red node has a red child, the root is black -/
theorem run_inv (cmp : K → K → Ordering) (ops : List (Op K V)) : T.Inv (Tree.run cmp ops).root := by
  suffices h : ∀ (t : Tree K V), T.Inv t.root → T.Inv (ops.foldl (Tree.apply cmp) t).root from
    h Tree.empty ⟨by simp [Tree.empty, T.balB], by simp [Tree.empty, T.noRR], rfl⟩
  induction ops with
  | nil => intro t h; exact h
  | cons op ops ih =>
    intro t h
    apply ih
    obtain ⟨hb, hn, hr⟩ := h
    cases op with
    | ins k v => exact T.insert_inv cmp t.root k v hb hn
    | rem k =>
      simp only [Tree.apply, Tree.remove]
      cases T.find cmp t.root k with
      | none => exact ⟨hb, hn, hr⟩
      | some e => exact T.remove_inv cmp t.root k hb hn

/-- **balance clause** — a tree satisfying the invariants has height at most `2·log2(n+1)` -/
theorem height_le (t : T K V) (h : T.Inv t) : T.height t ≤ 2 * Nat.log2 (T.size t + 1) :=
  T.height_log t h.1 h.2.1 h.2.2

/-- the height bound for every reachable tree, in terms of `Count()` -/
theorem height_run (hc : TotalPreorder cmp) (ops : List (Op K V)) :
    T.height (Tree.run cmp ops).root ≤ 2 * Nat.log2 ((Tree.run cmp ops).count + 1) := by
  have g := Tree.run_good hc ops
  have := height_le _ (run_inv cmp ops)
  rw [T.size_eq_length, g.inorder, ← g.count] at this
  exact this

/-- **the fix-ups never dereference nil** — `Tree.insertC` / `Tree.removeC` (`Model/RBTreeChecked.lean`) are the
    operations with every pointer access of the Go fix-up loops made partial: grandparent, parent and uncle and the
    rotation pivots in `Insert`; parent, **sibling**, the sibling after the red-sibling rotation, the nephews that are
    recoloured and the rotation pivots in `recolor`; the successor walk in `Remove` (`none` = the real code would
    dereference `nil`, or spin for ever on a missing sibling).  On every tree satisfying the red-black invariants they
    are defined and equal to the total operations, for every compare function. -/
theorem fixups_never_dereference_nil_step (cmp : K → K → Ordering) (t : Tree K V) (h : T.Inv t.root) (k : K) (v : V) :
    t.insertC cmp k v = some (t.insert cmp k v) ∧ t.removeC cmp k = some (t.remove cmp k) :=
  ⟨Tree.insertC_eq cmp t k v h, Tree.removeC_eq cmp t k h⟩

/-- … hence after every history from the empty tree, for every compare function: the partial run (what the driver
    executes, operation by operation) never yields `none` and is the total run all other theorems speak about -/
theorem fixups_never_dereference_nil (cmp : K → K → Ordering) (ops : List (Op K V)) (k : K) (v : V) :
    Tree.runC cmp ops = some (Tree.run cmp ops) ∧
    (Tree.run cmp ops).insertC cmp k v = some ((Tree.run cmp ops).insert cmp k v) ∧
    (Tree.run cmp ops).removeC cmp k = some ((Tree.run cmp ops).remove cmp k) := by
  have h0 : T.Inv (Tree.empty : Tree K V).root := ⟨by simp [Tree.empty, T.balB], by simp [Tree.empty, T.noRR], rfl⟩
  have h := Tree.foldlM_applyC cmp ops Tree.empty h0
  exact ⟨h.1, fixups_never_dereference_nil_step cmp _ h.2 k v⟩

/-! contrast: on a tree that violates black-height equality (a black leaf on the left, nothing on the right) the removal
    of the leaf finds no sibling — the partial operation is `none` (the Go loop would not terminate) -/
example : T.removeC (cmpOf false) (T.node .black (T.node .black .nil 1 (0 : Int) .nil) 2 0 .nil) 1 = none := by
  decide

/-! … and on a red-red chain `Insert`'s fix-up is still defined (its accesses are guarded by the loop condition), but a
    missing nephew in `recolor` is not: a red sibling without children -/
example : T.removeC (cmpOf false)
    (T.node .black (T.node .black .nil 1 (0 : Int) .nil) 2 0 (T.node .red .nil 3 0 .nil)) 1 = none := by
  decide

/-! ## single operations on a search tree -/

/-- **Insert is stable insertion** — the in-order sequence after `Insert(k, v)` is the old one with `(k, v)` placed
    after every entry whose key is ≤ `k` (so after all equal keys: insertion order among duplicates) -/
theorem insert_inorder (hc : TotalPreorder cmp) (t : Tree K V) (k : K) (v : V) (hs : T.Sorted cmp t.root) :
    T.inorder (t.insert cmp k v).1.root = Spec.insert cmp (T.inorder t.root) k v :=
  T.insert_inorder hc t.root k v hs

/-- **Remove erases exactly the first entry (in traversal order) whose key compares equal**, and nothing when there
    is none (removal of an absent key) -/
theorem remove_inorder (hc : TotalPreorder cmp) (t : Tree K V) (k : K) (hs : T.Sorted cmp t.root) :
    T.inorder (t.remove cmp k).1.root = Spec.remove cmp (T.inorder t.root) k := by
  simp only [Tree.remove]
  have hfind := T.find_eq hc t.root k hs
  cases hf : T.find cmp t.root k with
  | none =>
    rw [hf] at hfind
    exact (List.eraseP_of_forall_not (List.find?_eq_none.mp hfind.symm)).symm
  | some e => exact T.remove_inorder hc t.root k hs

/-- search-tree order is kept by both mutations -/
theorem sorted_step (hc : TotalPreorder cmp) (t : Tree K V) (op : Op K V) (hs : T.Sorted cmp t.root) :
    T.Sorted cmp (t.apply cmp op).root := by
  cases op with
  | ins k v => exact T.insert_sorted hc t.root k v hs
  | rem k =>
    simp only [Tree.apply, Tree.remove]
    cases T.find cmp t.root k with
    | none => exact hs
    | some e => exact T.remove_sorted hc t.root k hs

/-- **Get returns the value of the first entry in order whose key compares equal** (`none` = "does not exist") -/
theorem get_first (hc : TotalPreorder cmp) (t : Tree K V) (k : K) (hs : T.Sorted cmp t.root) :
    (t.get cmp k).1 = ((T.inorder t.root).find? (fun e => cmp k e.1 == .eq)).map (·.2) := by
  simp only [Tree.get, T.find_eq hc t.root k hs]

/-- **First / Last** are the values of the first and of the last entry of the in-order sequence -/
theorem first_last (t : Tree K V) :
    t.first = (T.inorder t.root).head?.map (·.2) ∧ t.last = (T.inorder t.root).getLast?.map (·.2) := by
  simp only [Tree.first, Tree.last, T.first_eq, T.last_eq, and_self]

/-- **Traverse** feeds the entries to the visitor in order and stops at the first `false` -/
theorem traverse_spec (t : Tree K V) (f : σ → K → V → σ × Bool) (s : σ) :
    t.traverse f s = (Spec.visit f (T.inorder t.root) s).1 := by
  simp only [Tree.traverse, T.traverse_eq]

/-- **ReverseTraverse** does the same on the reversed sequence -/
theorem reverseTraverse_spec (t : Tree K V) (f : σ → K → V → σ × Bool) (s : σ) :
    t.reverseTraverse f s = (Spec.visit f (T.inorder t.root).reverse s).1 := by
  simp only [Tree.reverseTraverse, T.reverseTraverse_eq]

/-- **TraverseStartingAt** starts at the first entry in order whose key is equal to or greater than `key` and visits
    exactly the entries from there on, stopping at the first `false` -/
theorem traverseFrom_spec (hc : TotalPreorder cmp) (t : Tree K V) (key : K) (f : σ → K → V → σ × Bool) (s : σ)
    (hs : T.Sorted cmp t.root) :
    (t.traverseStartingAt cmp key f s).1
      = (Spec.visit f ((T.inorder t.root).dropWhile (fun e => cmp key e.1 == .gt)) s).1 := by
  have := T.traverseGE_eq hc key f t.root s 0 hs
  simp only [Tree.traverseStartingAt]
  rw [← this]

/-- **ReverseTraverseStartingAt** starts at the last entry in order whose key is equal to or less than `key` and
    visits exactly the entries before it in reverse order, stopping at the first `false` -/
theorem reverseTraverseFrom_spec (hc : TotalPreorder cmp) (t : Tree K V) (key : K) (f : σ → K → V → σ × Bool) (s : σ)
    (hs : T.Sorted cmp t.root) :
    (t.reverseTraverseStartingAt cmp key f s).1
      = (Spec.visit f ((T.inorder t.root).reverse.dropWhile (fun e => cmp key e.1 == .lt)) s).1 := by
  have := T.traverseLE_eq hc key f t.root s 0 hs
  simp only [Tree.reverseTraverseStartingAt]
  rw [← this]

/-! ## arbitrary histories -/

/-- **refinement** — after any history from the empty tree the in-order sequence of the tree is the specification
    list: exactly the inserted-and-not-removed entries, in key order, equal keys in insertion order -/
theorem inorder_run (hc : TotalPreorder cmp) (ops : List (Op K V)) :
    T.inorder (Tree.run cmp ops).root = Spec.run cmp ops :=
  (Tree.run_good hc ops).inorder

/-- **Count** is the number of inserted-and-not-removed entries (and `Empty` says whether it is zero) -/
theorem count_run (hc : TotalPreorder cmp) (ops : List (Op K V)) :
    (Tree.run cmp ops).count = (Spec.run cmp ops).length ∧
    (Tree.run cmp ops).isEmpty = (Spec.run cmp ops).isEmpty := by
  have h := (Tree.run_good hc ops).count
  refine ⟨h, ?_⟩
  simp only [Tree.isEmpty, h]
  cases Spec.run cmp ops <;> simp

/-- every reachable tree is a search tree (so the single-operation theorems above apply to it), and the specification
    list is sorted by key -/
theorem sorted_run (hc : TotalPreorder cmp) (ops : List (Op K V)) :
    T.Sorted cmp (Tree.run cmp ops).root ∧ (Spec.run cmp ops).Pairwise (fun a b => cmp a.1 b.1 ≠ .gt) := by
  have g := Tree.run_good hc ops
  refine ⟨g.sorted, ?_⟩
  have := g.sorted
  unfold T.Sorted at this
  rw [g.inorder] at this
  exact this

/-- **queries after any history**, stated directly on the specification list `Spec.run cmp ops`: `Get` returns the
    first equal entry, `First`/`Last` the two ends, `Traverse`/`ReverseTraverse` visit the list (reversed) up to the
    first `false` -/
theorem queries_run (hc : TotalPreorder cmp) (ops : List (Op K V)) (k : K) (f : σ → K → V → σ × Bool) (s : σ) :
    ((Tree.run cmp ops).get cmp k).1 = ((Spec.run cmp ops).find? (fun e => cmp k e.1 == .eq)).map (·.2) ∧
    (Tree.run cmp ops).first = (Spec.run cmp ops).head?.map (·.2) ∧
    (Tree.run cmp ops).last = (Spec.run cmp ops).getLast?.map (·.2) ∧
    (Tree.run cmp ops).traverse f s = (Spec.visit f (Spec.run cmp ops) s).1 ∧
    (Tree.run cmp ops).reverseTraverse f s = (Spec.visit f (Spec.run cmp ops).reverse s).1 := by
  have hs := (sorted_run hc ops).1
  have hi := inorder_run hc ops
  refine ⟨?_, ?_, ?_, ?_, ?_⟩
  · rw [get_first hc _ k hs, hi]
  · rw [(first_last _).1, hi]
  · rw [(first_last _).2, hi]
  · rw [traverse_spec, hi]
  · rw [reverseTraverse_spec, hi]

/-- **bounded traversals after any history**: `TraverseStartingAt(key)` visits the specification list from its first
    entry with key ≥ `key`; `ReverseTraverseStartingAt(key)` visits the reversed list from its first entry (= the last
    in order) with key ≤ `key`; both stop at the first `false` -/
theorem traverseFrom_run (hc : TotalPreorder cmp) (ops : List (Op K V)) (key : K) (f : σ → K → V → σ × Bool) (s : σ) :
    ((Tree.run cmp ops).traverseStartingAt cmp key f s).1
      = (Spec.visit f ((Spec.run cmp ops).dropWhile (fun e => cmp key e.1 == .gt)) s).1 ∧
    ((Tree.run cmp ops).reverseTraverseStartingAt cmp key f s).1
      = (Spec.visit f ((Spec.run cmp ops).reverse.dropWhile (fun e => cmp key e.1 == .lt)) s).1 := by
  have hs := (sorted_run hc ops).1
  have hi := inorder_run hc ops
  exact ⟨by rw [traverseFrom_spec hc _ key f s hs, hi], by rw [reverseTraverseFrom_spec hc _ key f s hs, hi]⟩

/-! ## number of key comparisons -/

/-- **lookups** (`Get`) call `compare` once per node of one downward path: at most `height` times -/
theorem compares_find (t : Tree K V) (k : K) : (t.get cmp k).2 ≤ T.height t.root :=
  T.findCmps_le_height cmp t.root k

/-- **Insert** calls `compare` at most `height + 1` times -/
theorem compares_insert (t : Tree K V) (k : K) (v : V) : (t.insert cmp k v).2 ≤ T.height t.root + 1 :=
  T.insertCmps_le cmp t.root k

/-- **Remove** calls `compare` exactly as often as the lookup of the same key -/
theorem compares_remove (t : Tree K V) (k : K) : (t.remove cmp k).2 = (t.get cmp k).2 := rfl

/-- **Remove**, stated directly: at most `height` comparisons (all of them made by the lookup) -/
theorem compares_remove_le (t : Tree K V) (k : K) : (t.remove cmp k).2 ≤ T.height t.root :=
  T.findCmps_le_height cmp t.root k

/-- the bounded traversals call `compare` at most once per node (they are not lookups: their cost includes the visit) -/
theorem compares_traverseFrom (t : Tree K V) (key : K) (f : σ → K → V → σ × Bool) (s : σ) :
    (t.traverseStartingAt cmp key f s).2 ≤ T.size t.root ∧
    (t.reverseTraverseStartingAt cmp key f s).2 ≤ T.size t.root := by
  have h1 := (T.traverseGE_cmps cmp key f t.root s 0).2
  have h2 := (T.traverseLE_cmps cmp key f t.root s 0).2
  simp only [Tree.traverseStartingAt, Tree.reverseTraverseStartingAt]
  omega

/-- **O(log n) clause** — on every reachable tree with `n = Count()` entries a lookup or removal makes at most
    `2·log2(n+1)` comparisons and an insertion at most `2·log2(n+1) + 1` (the "plus the number of equal entries"
    allowance of the property is not needed by the repaired `find`) -/
theorem compares_run (hc : TotalPreorder cmp) (ops : List (Op K V)) (k : K) (v : V) :
    ((Tree.run cmp ops).get cmp k).2 ≤ 2 * Nat.log2 ((Tree.run cmp ops).count + 1) ∧
    ((Tree.run cmp ops).remove cmp k).2 ≤ 2 * Nat.log2 ((Tree.run cmp ops).count + 1) ∧
    ((Tree.run cmp ops).insert cmp k v).2 ≤ 2 * Nat.log2 ((Tree.run cmp ops).count + 1) + 1 := by
  have h := height_run hc ops
  have h1 := compares_find (cmp := cmp) (Tree.run cmp ops) k
  have h2 := compares_insert (cmp := cmp) (Tree.run cmp ops) k v
  refine ⟨by omega, ?_, by omega⟩
  rw [compares_remove]; omega

/-! ## the pointer-level model (`Model/RBHeap.lean`): parent links, `t.root`, `t.count`

`RB.PTree` transcribes the mutating half of `tree.go` statement for statement on a node store with `parent` / `left` /
`right` links; the driver runs it in lock-step with `RB.Tree` on every `ins` / `rem` line and prints the node dump that
is compared with the real Go nodes from it.  `PTree.Owns t par s`: the memory of `t` holds the nodes of the addressed
tree `s` at their addresses, linked as in `s`, EVERY parent link pointing to the node above (`par` above the root). -/

/-- **rotations maintain the parent links** (`tree.go:172-210`, mechanism 2 of the property) — `rotateLeft` /
    `rotateRight` at a node `a` whose subtree is owned with pairwise distinct addresses (and whose node above, if any,
    lies outside it): no nil dereference; the memory then owns the ROTATED subtree — the pivot under the old parent,
    `a` under the pivot, the inner grandchild (which changes sides) under `a` —; its functional content is `T.rotL` /
    `T.rotR` of the content before; the link from above is re-pointed (`relinkL`/`relinkR`: the side on which `a` hung,
    `t.root` when there is no node above); `count` and every cell outside the subtree other than the node above are
    untouched. -/
theorem rotations_keep_parent_links (t : PTree K V) (par : Ptr) (a b : Nat) (c bc : Color) (x y z : AT K V) (k bk : K)
    (v bv : V) :
    (PTree.Owns t par (.node a c x k v (.node b bc y bk bv z)) →
      (AT.node a c x k v (.node b bc y bk bv z)).addrs.Nodup →
      (∀ p, par = some p → p ∉ (AT.node a c x k v (.node b bc y bk bv z)).addrs ∧ (t.get (some p)).isSome) →
      ∃ t', t.rotateLeft (some a) = some t' ∧
        PTree.Owns t' par (.node b bc (.node a c x k v y) bk bv z) ∧
        (AT.node b bc (.node a c x k v y) bk bv z).erase = (AT.node a c x k v (.node b bc y bk bv z)).erase.rotL ∧
        t'.count = t.count ∧ t'.root = (if par.isSome then t.root else some b) ∧
        (∀ j, j ∉ (AT.node a c x k v (.node b bc y bk bv z)).addrs → par ≠ some j → t'.get (some j) = t.get (some j)) ∧
        (∀ p, par = some p → t'.get (some p) = (t.get (some p)).map (PTree.relinkL a b))) ∧
    (PTree.Owns t par (.node a c (.node b bc x bk bv y) k v z) →
      (AT.node a c (.node b bc x bk bv y) k v z).addrs.Nodup →
      (∀ p, par = some p → p ∉ (AT.node a c (.node b bc x bk bv y) k v z).addrs ∧ (t.get (some p)).isSome) →
      ∃ t', t.rotateRight (some a) = some t' ∧
        PTree.Owns t' par (.node b bc x bk bv (.node a c y k v z)) ∧
        (AT.node b bc x bk bv (.node a c y k v z)).erase = (AT.node a c (.node b bc x bk bv y) k v z).erase.rotR ∧
        t'.count = t.count ∧ t'.root = (if par.isSome then t.root else some b) ∧
        (∀ j, j ∉ (AT.node a c (.node b bc x bk bv y) k v z).addrs → par ≠ some j → t'.get (some j) = t.get (some j)) ∧
        (∀ p, par = some p → t'.get (some p) = (t.get (some p)).map (PTree.relinkR a b))) :=
  ⟨PTree.rotateLeft_owns t par a b c bc x y z k bk v bv, PTree.rotateRight_owns t par a b c bc x y z k bk v bv⟩

/-- **what the lock-step comparison of the driver means** — `PTree.abs` (evaluated after every mutation of the
    correspondence run and compared with the functional tree; also the source of every node dump compared with the
    real Go nodes) returns exactly the functional content of the tree the memory owns from `t.root`; the fuel
    `nodes.size + 1` always suffices (pigeonhole on the distinct addresses). -/
theorem heap_abs_of_owns (t : PTree K V) (s : AT K V) (h : PTree.Owns t none s) (hroot : t.root = s.ptr)
    (hnd : s.addrs.Nodup) : t.abs = some s.erase :=
  PTree.abs_of_owns t s h hroot hnd

/-- **pointer-level lookup** (`node.find`, `node.go:34-51`, as `Remove` calls it) on an owned tree: with the fuel
    `nodes.size + 2` it terminates without a nil dereference, and the node it returns (an address inside the tree) holds
    exactly the entry the functional `T.find` returns — by `get_first` the FIRST entry in order whose key compares
    equal; `none` iff there is none. -/
theorem heap_find_first (cmp : K → K → Ordering) (t : PTree K V) (s : AT K V) (key : K) (h : PTree.Owns t none s)
    (hnd : s.addrs.Nodup) :
    ∃ r, PTree.find cmp t key (t.nodes.size + 2) s.ptr = some r ∧
      (t.get r).map (fun x => (x.key, x.value)) = T.find cmp s.erase key ∧ (∀ j, r = some j → j ∈ s.addrs) :=
  PTree.find_of_owns cmp t key s none _ h (Nat.lt_succ_of_le (Nat.le_succ_of_le (h.height_le hnd)))

/-- **the pointer-level `Insert` refines the functional `Insert`** (`tree.go:96-170`: allocation, descent with
    `n.parent = cur`, linking below the parent or at `t.root`, the red-red repair loop with its three cases per side and
    both rotations, `t.root.black = true`, `t.count++`) — on every memory that represents a tree `s` (`Owns` from
    `t.root`, no parent above the root, pairwise distinct addresses), for every compare function: `PTree.insert`
    terminates within its fuel `nodes.size + 2`, never dereferences nil, and the memory afterwards represents a tree
    `s'` — so EVERY parent link is again the node above and `t.root` is the node without parent — whose functional
    content is exactly `T.insert` of the content before (the operation all the theorems above speak about); `count`
    is one more. -/
theorem heap_insert_refines (cmp : K → K → Ordering) (t : PTree K V) (s : AT K V) (h : PTree.Rep t s) (key : K)
    (val : V) :
    ∃ t' s', t.insert cmp key val = some t' ∧ PTree.Rep t' s' ∧ s'.erase = T.insert cmp s.erase key val ∧
      t'.abs = some (T.insert cmp s.erase key val) ∧ t'.count = t.count + 1 := by
  obtain ⟨t', s', e, ho, hr, hn, he, hc⟩ := PTree.insert_refines cmp t s h.owns h.root h.nodup key val
  exact ⟨t', s', e, ⟨ho, hr, hn⟩, he, he ▸ PTree.Rep.abs ⟨ho, hr, hn⟩, hc⟩

/-- … hence for every history of insertions from the empty tree (any compare function, duplicates allowed): the
    pointer-level run is defined, what `abs` reads off its links (every parent link checked) is the functional tree
    of `Tree.run`, and `count` is the functional `count` -/
theorem heap_insert_run (cmp : K → K → Ordering) (kvs : List (K × V)) :
    ∃ t', PTree.insertAll cmp PTree.empty kvs = some t' ∧
      t'.abs = some (Tree.run cmp (kvs.map fun e => Op.ins e.1 e.2)).root ∧
      t'.count = (Tree.run cmp (kvs.map fun e => Op.ins e.1 e.2)).count := by
  obtain ⟨t', s', e, hrep, he, hc⟩ := PTree.insertAll_refines cmp kvs PTree.empty .nil PTree.Rep.empty
  have key : ∀ (l : List (K × V)) (x : Tree K V),
      (l.map fun e => Op.ins e.1 e.2).foldl (Tree.apply cmp) x
        = ⟨l.foldl (fun y e => T.insert cmp y e.1 e.2) x.root, x.count + l.length⟩ := by
    intro l
    induction l with
    | nil => intro x; rfl
    | cons a l ih =>
      intro x
      simp only [List.map_cons, List.foldl_cons, List.length_cons]
      rw [ih]
      simp only [Tree.apply, Tree.insert]
      congr 1
      omega
  refine ⟨t', e, ?_, ?_⟩
  · rw [hrep.abs, he, Tree.run, key]; rfl
  · rw [hc, Tree.run, key]; rfl

/-! non-vacuity: the representation hypothesis holds for the empty memory, and three insertions (ascending keys: a
    rotation at the root) leave a memory whose links describe the balanced tree -/
example : PTree.Rep (PTree.empty : PTree Int Int) .nil := PTree.Rep.empty
example : ((PTree.insertAll (cmpOf false) PTree.empty [(1, 0), (2, 0), (3, 0)]).bind PTree.abs).map T.inorder
    = some [(1, 0), (2, 0), (3, 0)] := by decide

/-- **the pointer-level `Remove` refines the functional `Remove`** (`tree.go:214-339`: `node.find`, the successor walk,
    unlinking the splice node with `child.parent = splice.parent`, the trade of key and value, the re-linked splice node
    as sentinel when the child is nil, the whole `recolor` loop — red sibling, both nephews black, near/far nephew red,
    with every rotation — the final unlinking of the sentinel, `t.root.black = true`, `t.count--`) — on every memory
    that represents a tree `s` satisfying the red-black invariants, for every compare function: `PTree.remove`
    terminates within its fuel, never dereferences nil, and the memory afterwards represents a tree (all parent links
    and `t.root` consistent) whose functional content and `count` are those of the functional `Tree.remove`. -/
theorem heap_remove_refines (cmp : K → K → Ordering) (t : PTree K V) (s : AT K V) (h : PTree.Rep t s) (x : Tree K V)
    (hx : x.root = s.erase) (hc : x.count = t.count) (hinv : T.Inv x.root) (key : K) :
    ∃ t' s', t.remove cmp key = some t' ∧ PTree.Rep t' s' ∧ (x.remove cmp key).1.root = s'.erase ∧
      t'.abs = some (x.remove cmp key).1.root ∧ (x.remove cmp key).1.count = t'.count := by
  obtain ⟨t', s', e, hrep, h1, h2⟩ := PTree.applyOp_refines cmp t s h x hx hc hinv (.rem key)
  exact ⟨t', s', e, hrep, h1, by rw [hrep.abs]; exact congrArg some h1.symm, h2⟩

/-- **refinement of every history** — for every finite history of `Insert` and `Remove` from the empty tree and every
    compare function, the pointer-level run (what the driver executes in lock-step, and the source of every node dump
    compared with the real Go nodes) is defined — no nil dereference, every loop within its fuel —, its memory
    represents a tree: `t.root` is the node without parent, EVERY parent link is the node above, addresses are distinct;
    what `abs` reads off the links is exactly the functional tree of `Tree.run` (to which `run_inv`, `height_run`,
    `inorder_run`, `queries_run`, `traverseFrom_run` and the comparison bounds apply), and `t.count` is its `count`. -/
theorem heap_run_refines (cmp : K → K → Ordering) (ops : List (Op K V)) :
    ∃ t' s', PTree.run cmp ops = some t' ∧ PTree.Rep t' s' ∧ t'.abs = some (Tree.run cmp ops).root ∧
      t'.count = (Tree.run cmp ops).count := by
  obtain ⟨t', s', e, hrep, h1, h2⟩ := PTree.run_refines cmp ops
  exact ⟨t', s', e, hrep, by rw [hrep.abs]; exact congrArg some h1.symm, h2.symm⟩

/-- … so the pointer structure itself is a stably ordered multimap: the in-order sequence of the tree its links
    describe is the specification list, after any history -/
theorem heap_run_inorder (hc : TotalPreorder cmp) (ops : List (Op K V)) :
    ∃ t', PTree.run cmp ops = some t' ∧ (t'.abs.map T.inorder) = some (Spec.run cmp ops) ∧
      t'.count = (Spec.run cmp ops).length := by
  obtain ⟨t', s', e, _, h1, h2⟩ := heap_run_refines cmp ops
  exact ⟨t', e, by rw [h1, Option.map_some, inorder_run hc ops], by rw [h2, (count_run hc ops).1]⟩

/-! non-vacuity: a history with removals (two-children removal with successor splice, removal of the root, drain) -/
example : ((PTree.run (cmpOf false) [.ins 2 0, .ins 1 0, .ins 3 0, .ins 4 0, .rem 2, .rem 1]).bind PTree.abs).map
    T.inorder = some [(3, 0), (4, 0)] := by decide
example : ((PTree.run (cmpOf false) [.ins 2 0, .ins 1 0, .rem 2, .rem 1]).map (·.count)) = some 0 := by decide

/-! non-vacuity and contrast: a three-node memory (root 1, right child 3, its left child 2) is well linked, stays so
    under `rotateLeft` at the root, and does NOT under the variant of `rotateLeft` that omits
    `if right.left != nil { n.right.parent = n }` (the inner grandchild keeps its old parent link: `abs` rejects it) -/
example : PTree.Rep PTree.demoHeap
    (.node 0 .black .nil 1 0 (.node 1 .red (.node 2 .black .nil 2 0 .nil) 3 0 .nil)) :=
  ⟨⟨rfl, trivial, rfl, ⟨rfl, trivial, trivial⟩, trivial⟩, rfl, by decide⟩
example : PTree.demoHeap.abs.isSome = true := by decide
example : ((PTree.demoHeap.rotateLeft (some 0)).bind PTree.abs).isSome = true := by decide
example : ((PTree.demoHeap.rotateLeftNoRepair (some 0)).bind PTree.abs).isSome = false := by decide

/-! … and `Insert` without `n.parent = cur`: the third node of an ascending run hangs below the second but still names
    the root as its parent — `abs` rejects the memory, while the real `Insert` is accepted (`heap_insert_run`) -/
example : ((((PTree.empty : PTree Int Int).insertNoParentLink (cmpOf false) 1 0).bind
    (·.insertNoParentLink (cmpOf false) 2 0)).bind (·.insertNoParentLink (cmpOf false) 3 0)).bind PTree.abs = none := by
  decide

/-! ## the hypothesis is satisfiable: the compare functions of the correspondence run are total preorders -/

/-- a total preorder pulled back along any key projection is a total preorder -/
theorem totalPreorder_comap {J : Type} {c : J → J → Ordering} (hc : TotalPreorder c) (f : K → J) :
    TotalPreorder (fun a b => c (f a) (f b)) :=
  ⟨fun a b => hc.swap (f a) (f b), fun a b d => hc.trans (f a) (f b) (f d)⟩

/-- both compare modes of the driver (`plain`, `div10`) satisfy the hypothesis of the theorems above -/
theorem cmpOf_totalPreorder (div10 : Bool) : TotalPreorder (cmpOf div10) := by
  cases div10 with
  | false => exact int_totalPreorder
  | true => exact totalPreorder_comap int_totalPreorder (fun a : Int => a.tdiv 10)

/-! ## the specification list is the inserted-and-not-removed entries; Remove undoes a fresh Insert -/

/-- **the specification list really is "the inserted-and-not-removed entries"**: `Insert` adds exactly one entry (the
    result is a permutation of the new entry and the old list), `Remove` takes away at most one and never invents one -/
theorem spec_content (l : List (K × V)) (k : K) (v : V) :
    (Spec.insert cmp l k v).Perm ((k, v) :: l)
    ∧ (Spec.insert cmp l k v).length = l.length + 1
    ∧ (Spec.remove cmp l k).Sublist l
    ∧ ((∃ e ∈ l, cmp k e.1 = .eq) → (Spec.remove cmp l k).length + 1 = l.length)
    ∧ ((∀ e ∈ l, cmp k e.1 ≠ .eq) → Spec.remove cmp l k = l) := by
  have hp : (Spec.insert cmp l k v).Perm ((k, v) :: l) := by
    unfold Spec.insert
    refine List.perm_middle.trans ?_
    rw [List.takeWhile_append_dropWhile]
  refine ⟨hp, by simpa using hp.length_eq, List.eraseP_sublist, ?_, ?_⟩
  · rintro ⟨e, he, hk⟩
    unfold Spec.remove
    have := List.length_eraseP_of_mem (p := fun e => cmp k e.1 == .eq) he (by simp [hk])
    have hl : 0 < l.length := List.length_pos_of_mem he
    omega
  · intro h
    unfold Spec.remove
    exact List.eraseP_of_forall_not (fun e he => by simpa using h e he)

/-- **Remove undoes Insert of a key the tree did not hold**: on any search tree, `Insert(k, v)` followed by `Remove(k)`
    gives back the former in-order sequence (and with it every traversal and query answer) -/
theorem insert_remove_fresh (hc : TotalPreorder cmp) (t : Tree K V) (k : K) (v : V) (hs : T.Sorted cmp t.root)
    (hfresh : ∀ e ∈ T.inorder t.root, cmp k e.1 ≠ .eq) :
    T.inorder (((t.insert cmp k v).1.remove cmp k).1).root = T.inorder t.root := by
  have hs' : T.Sorted cmp (t.insert cmp k v).1.root := sorted_step hc t (.ins k v) hs
  rw [remove_inorder hc _ k hs', insert_inorder hc t k v hs]
  unfold Spec.remove Spec.insert
  have hkk : cmp k k = .eq := by
    have := hc.swap k k
    cases h : cmp k k <;> simp_all [Ordering.swap]
  rw [List.eraseP_append_right _ (by
        intro e he
        have := hfresh e ((List.takeWhile_sublist _).mem he)
        simpa using this)]
  rw [List.eraseP_cons_of_pos (by simp [hkk]), List.takeWhile_append_dropWhile]

/-! non-vacuity of the premises: a present key, and a fresh key on a reachable tree -/
example : ∃ e ∈ [((1 : Int), (0 : Int)), (2, 0)], cmpOf false 2 e.1 = .eq := by decide
example : ∀ e ∈ T.inorder (Tree.run (cmpOf false) [.ins 5 1, .ins 7 2]).root, cmpOf false 6 e.1 ≠ .eq := by decide

/-! non-vacuity: a concrete history with duplicates (5,5,5 then remove 5): the first duplicate goes -/
example : T.inorder (Tree.run (cmpOf false) [.ins 5 1, .ins 5 2, .ins 5 3, .rem 5]).root = [(5, 2), (5, 3)] := by
  decide

end C06
