import Lemmas.GenAttr
import Lemmas.GenTieLoop
import Lemmas.NatSortGo
import Generated.SSA_Txt
/-! # C20, translator tie — `txt.NaturalCmp` regenerated from the Go source IS the model

`Generated/SSA_Txt.lean` is written by `gossa/ssagen … txt` from the typed SSA form of package `txt` of the repository's
working tree.  `NaturalCmp` has six loops (the scan and five inner index loops) and a recursive call; each loop is a
function by structural recursion on `fuel` (gossa/loops.go), string indexing and slicing carry Go's bounds checks
(`none` = panic).  The theorems below prove, loop by loop, that the generated functions compute the hand-written
index-level transcription `NatSortGo.goCmp` (the one the C20 driver executes against the real code), hence
(`NatSortGo.goCmp_spec`) the chunk-level model `NatSort.naturalCmp` that the order theorems are about — for EVERY pair
of strings below 2^63 bytes and every fuel ≥ len s1 + len s2 + 4; in particular the Go function never indexes out of
range.  A change of the Go source that alters what a loop computes breaks the theorem of that loop. -/
set_option linter.unusedVariables false
set_option linter.unusedSimpArgs false
namespace C20Gen
open Gen NatSortGo GenTieLoop

when_translated Gen.NaturalCmp in
theorem loop2_eq (s : Str) (hn : s.length < 2^63) : ∀ fuel i, i ≤ s.length → s.length - i < fuel →
    NaturalCmp_loop2 s fuel (BitVec.ofNat 64 i) = some (BitVec.ofNat 64 (skipZeros s.length (bytes s) i)) := by
  intro fuel
  induction fuel with
  | zero => intro i _ h; omega
  | succ fuel ih =>
    intro i hi hf
    rw [NaturalCmp_loop2, skipZeros]
    simp only [lt_len s i hi hn]
    by_cases h : i < s.length
    · simp only [h, if_true, strIdx_ofNat s i h hn, Option.bind_some, true_and, bytes_eq s i h,
        byte_eq_iff _ 48 (by omega), ofNat_succ]
      by_cases h48 : s[i].toNat = 48
      · simp only [h48, if_true, dite_true]; exact ih (i + 1) (by omega) (by omega)
      · simp only [h48, if_false, dite_false]
    · simp [h]

when_translated Gen.NaturalCmp in
theorem loop3_eq (s : Str) (c : BitVec 64) (hn : s.length < 2^63) : ∀ fuel i, i ≤ s.length → s.length - i < fuel →
    NaturalCmp_loop3 s c fuel (BitVec.ofNat 64 i) = some (c, BitVec.ofNat 64 (skipZeros s.length (bytes s) i)) := by
  intro fuel
  induction fuel with
  | zero => intro i _ h; omega
  | succ fuel ih =>
    intro i hi hf
    rw [NaturalCmp_loop3, skipZeros]
    simp only [lt_len s i hi hn]
    by_cases h : i < s.length
    · simp only [h, if_true, strIdx_ofNat s i h hn, Option.bind_some, true_and, bytes_eq s i h,
        byte_eq_iff _ 48 (by omega), ofNat_succ]
      by_cases h48 : s[i].toNat = 48
      · simp only [h48, if_true, dite_true]; exact ih (i + 1) (by omega) (by omega)
      · simp only [h48, if_false, dite_false]
    · simp [h]

when_translated Gen.NaturalCmp in
theorem loop4_eq (s : Str) (hn : s.length < 2^63) : ∀ fuel i, i ≤ s.length → s.length - i < fuel →
    NaturalCmp_loop4 s fuel (BitVec.ofNat 64 i) = some (BitVec.ofNat 64 (skipZeros s.length (bytes s) i)) := by
  intro fuel
  induction fuel with
  | zero => intro i _ h; omega
  | succ fuel ih =>
    intro i hi hf
    rw [NaturalCmp_loop4, skipZeros]
    simp only [lt_len s i hi hn]
    by_cases h : i < s.length
    · simp only [h, if_true, strIdx_ofNat s i h hn, Option.bind_some, true_and, bytes_eq s i h,
        byte_eq_iff _ 48 (by omega), ofNat_succ]
      by_cases h48 : s[i].toNat = 48
      · simp only [h48, if_true, dite_true]; exact ih (i + 1) (by omega) (by omega)
      · simp only [h48, if_false, dite_false]
    · simp [h]

when_translated Gen.NaturalCmp in
theorem loop5_eq (s : Str) (c : BitVec 64) (hn : s.length < 2^63) : ∀ fuel i, i ≤ s.length → s.length - i < fuel →
    NaturalCmp_loop5 s c fuel (BitVec.ofNat 64 i) = some (c, BitVec.ofNat 64 (skipDigits s.length (bytes s) i)) := by
  intro fuel
  induction fuel with
  | zero => intro i _ h; omega
  | succ fuel ih =>
    intro i hi hf
    rw [NaturalCmp_loop5, skipDigits]
    simp only [lt_len s i hi hn]
    by_cases h : i < s.length
    · simp only [h, if_true, strIdx_ofNat s i h hn, Option.bind_some, true_and, bytes_eq s i h, ofNat_succ, ge_iff_le]
      by_cases h48 : 48 ≤ s[i].toNat
      · by_cases h57 : s[i].toNat ≤ 57
        · simp only [h48, h57, if_true, dite_true, and_self]; exact ih (i + 1) (by omega) (by omega)
        · simp only [h48, h57, if_true, if_false, dite_false, and_false]
      · simp only [h48, if_false, dite_false, false_and]
    · simp [h]

when_translated Gen.NaturalCmp in
theorem loop6_eq (s : Str) (hn : s.length < 2^63) : ∀ fuel i, i ≤ s.length → s.length - i < fuel →
    NaturalCmp_loop6 s fuel (BitVec.ofNat 64 i) = some (BitVec.ofNat 64 (skipDigits s.length (bytes s) i)) := by
  intro fuel
  induction fuel with
  | zero => intro i _ h; omega
  | succ fuel ih =>
    intro i hi hf
    rw [NaturalCmp_loop6, skipDigits]
    simp only [lt_len s i hi hn]
    by_cases h : i < s.length
    · simp only [h, if_true, strIdx_ofNat s i h hn, Option.bind_some, true_and, bytes_eq s i h, ofNat_succ, ge_iff_le]
      by_cases h48 : 48 ≤ s[i].toNat
      · by_cases h57 : s[i].toNat ≤ 57
        · simp only [h48, h57, if_true, dite_true, and_self]; exact ih (i + 1) (by omega) (by omega)
        · simp only [h48, h57, if_true, if_false, dite_false, and_false]
      · simp only [h48, if_false, dite_false, false_and]
    · simp [h]

when_translated Gen.NaturalCmp in
theorem loop1_eq (s1 s2 : Str) (ci : Bool) (h1 : s1.length < 2^63) (h2 : s2.length < 2^63) :
    ∀ fuel i1 i2, i1 ≤ s1.length → i2 ≤ s2.length → (s1.length - i1) + (s2.length - i2) + 2 ≤ fuel →
    NaturalCmp_loop1 s1 s2 ci fuel (BitVec.ofNat 64 i1) (BitVec.ofNat 64 i2) =
      some (enc (goLoop ci s1.length s2.length (bytes s1) (bytes s2) i1 i2)) := by
  intro fuel
  induction fuel with
  | zero => intro i1 i2 _ _ h; omega
  | succ fuel ih =>
    intro i1 i2 hi1 hi2 hf
    rw [NaturalCmp_loop1, goLoop]
    simp only [lt_len s1 i1 hi1 h1, lt_len s2 i2 hi2 h2]
    by_cases a1 : i1 < s1.length
    · by_cases a2 : i2 < s2.length
      · simp only [a1, a2, if_true, and_self, dite_true, strIdx_ofNat s1 i1 a1 h1, strIdx_ofNat s2 i2 a2 h2,
          Option.bind_some, digit_eq, bytes_eq s1 i1 a1, bytes_eq s2 i2 a2]
        by_cases hd : NatSort.isDigit s1[i1].toNat = NatSort.isDigit s2[i2].toNat
        · by_cases hd1 : NatSort.isDigit s1[i1].toNat = true
          · -- digits
            have hg1 : NatSort.isDigit (bytes s1 i1) = true := by rw [bytes_eq s1 i1 a1]; exact hd1
            have p := digit_progress s1.length (bytes s1) i1 a1 hg1
            have z1 := skipZeros_le s1.length (bytes s1) i1 hi1
            have z0g := skipZeros_ge s1.length (bytes s1) i1
            have z1' := skipZeros_le s1.length (bytes s1) _ z1
            have z1g := skipZeros_ge s1.length (bytes s1) (skipZeros s1.length (bytes s1) i1)
            have d1 := skipDigits_le s1.length (bytes s1) _ z1'
            have d1g := skipDigits_ge s1.length (bytes s1) (skipZeros s1.length (bytes s1) (skipZeros s1.length (bytes s1) i1))
            have z2 := skipZeros_le s2.length (bytes s2) i2 hi2
            have z2g := skipZeros_ge s2.length (bytes s2) i2
            have d2 := skipDigits_le s2.length (bytes s2) _ z2
            have d2g := skipDigits_ge s2.length (bytes s2) (skipZeros s2.length (bytes s2) i2)
            simp only [← hd, hd1, ne_eq, not_true_eq_false, if_false, Bool.not_true, Bool.false_eq_true, bne_self_eq_false,
              dite_false, reduceCtorEq,
              loop2_eq s1 h1 fuel i1 hi1 (by omega), Option.bind_some,
              loop3_eq s1 (BitVec.ofNat 64 i2) h1 fuel _ z1 (by omega),
              loop4_eq s2 h2 fuel i2 hi2 (by omega),
              loop5_eq s1 _ h1 fuel _ z1' (by omega),
              loop6_eq s2 h2 fuel _ z2 (by omega),
              ih _ _ d1 d2 (by omega), slice_bytes s1 _ _ d1, slice_bytes s2 _ _ d2]
            generalize skipDigits s1.length (bytes s1) (skipZeros s1.length (bytes s1) (skipZeros s1.length (bytes s1) i1)) = e1 at *
            generalize skipZeros s1.length (bytes s1) (skipZeros s1.length (bytes s1) i1) = nz1 at *
            generalize skipDigits s2.length (bytes s2) (skipZeros s2.length (bytes s2) i2) = e2 at *
            generalize skipZeros s2.length (bytes s2) i2 = nz2 at *
            generalize goLoop ci s1.length s2.length (bytes s1) (bytes s2) e1 e2 = Y
            simp only [ofNat_sub e1 nz1 d1g (by omega), ofNat_sub e2 nz2 d2g (by omega),
              ofNat_inj (e1 - nz1) (e2 - nz2) (by omega) (by omega), ofNat_inj nz1 nz2 (by omega) (by omega),
              lt_ofNat (e1 - nz1) (e2 - nz2) (by omega) (by omega), lt_ofNat nz1 nz2 (by omega) (by omega),
              strSlice_ofNat s1 nz1 e1 d1g d1 h1, strSlice_ofNat s2 nz2 e2 d2g d2 h2, Option.bind_some,
              map_toNat_inj, map_toNat_lt, bne_iff_ne, ne_eq, enc_ite, some_ite, enc_m1, enc_p1]
          · -- no digits: case folding, byte comparison
            have hd1' : NatSort.isDigit s1[i1].toNat = false := by simpa using hd1
            simp only [← hd, hd1', ne_eq, not_true_eq_false, if_false, Bool.not_false, if_true, bne_self_eq_false,
              Bool.false_eq_true, dite_true, ofNat_succ, ih (i1 + 1) (i2 + 1) (by omega) (by omega) (by omega)]
            generalize goLoop ci s1.length s2.length (bytes s1) (bytes s2) (i1 + 1) (i2 + 1) = Y
            generalize s1[i1] = c1
            generalize s2[i2] = c2
            cases ci <;> by_cases A1 : 97 ≤ c1.toNat <;> by_cases B1 : c1.toNat ≤ 122 <;> by_cases A2 : 97 ≤ c2.toNat <;>
              by_cases B2 : c2.toNat ≤ 122 <;>
              simp only [A1, B1, A2, B2, ge_iff_le, if_true, if_false, and_self, and_true, and_false, false_and, ne_eq,
                ← BitVec.toNat_inj, sub32, bne_iff_ne, enc_ite, some_ite, Bool.false_eq_true, enc_m1, enc_p1]
        · -- a digit against a non-digit
          simp only [ne_eq, hd, not_false_eq_true, if_true, bne_iff_ne, enc_ite, some_ite, enc_m1, enc_p1]
      · simp [a1, a2, enc]
    · simp [a1, enc]

when_translated Gen.NaturalCmp in
theorem NaturalCmp_cs (s1 s2 : Str) (h1 : s1.length < 2^63) (h2 : s2.length < 2^63) (fuel : Nat)
    (hf : s1.length + s2.length + 3 ≤ fuel) :
    Gen.NaturalCmp s1 s2 false fuel =
      some (BitVec.ofInt 64 (goCmp false s1.length s2.length (bytes s1) (bytes s2))) := by
  obtain ⟨f, rfl⟩ : ∃ f, fuel = f + 1 := ⟨fuel - 1, by omega⟩
  rw [Gen.NaturalCmp, loop1_eq s1 s2 false h1 h2 f 0 0 (by omega) (by omega) (by omega), goCmp]
  cases goLoop false s1.length s2.length (bytes s1) (bytes s2) 0 0 with
  | some r => simp only [enc, loopBind_inl]
  | none =>
    simp only [enc, loopBind_inr, strLen_eq_iff s1 s2 h1 h2, strLen_lt_iff s1 s2 h1 h2, Bool.false_eq_true, if_false]
    split
    · rfl
    · split <;> rfl

when_translated Gen.NaturalCmp in
theorem NaturalCmp_eq (s1 s2 : Str) (ci : Bool) (h1 : s1.length < 2^63) (h2 : s2.length < 2^63) (fuel : Nat)
    (hf : s1.length + s2.length + 4 ≤ fuel) :
    Gen.NaturalCmp s1 s2 ci fuel =
      some (BitVec.ofInt 64 (goCmp ci s1.length s2.length (bytes s1) (bytes s2))) := by
  cases ci with
  | false => exact NaturalCmp_cs s1 s2 h1 h2 fuel (by omega)
  | true =>
    obtain ⟨f, rfl⟩ : ∃ f, fuel = f + 1 := ⟨fuel - 1, by omega⟩
    rw [Gen.NaturalCmp, loop1_eq s1 s2 true h1 h2 f 0 0 (by omega) (by omega) (by omega), goCmp]
    cases goLoop true s1.length s2.length (bytes s1) (bytes s2) 0 0 with
    | some r => simp only [enc, loopBind_inl]
    | none =>
      have hcs := NaturalCmp_cs s1 s2 h1 h2 f (by omega)
      rw [goCmp] at hcs
      simp only [enc, loopBind_inr, strLen_eq_iff s1 s2 h1 h2, strLen_lt_iff s1 s2 h1 h2, if_true, hcs, Option.bind_some]
      split
      · rename_i hn
        simp only [hn, if_true, Bool.false_eq_true, if_false]
      · split <;> rfl

when_translated Gen.NaturalCmp in
theorem reads_bytes (s : Str) : Reads (bytes s) (s.map BitVec.toNat) := by
  intro i h
  have h' : i < s.length := by simpa using h
  simp [bytes, h']

when_translated Gen.NaturalCmp in
/-- THE TIE: the definition regenerated from the Go source of `txt.NaturalCmp` computes, for every pair of strings
    (shorter than 2^63 bytes, as every Go string is) and every sufficient fuel, the chunk-level model
    `NatSort.naturalCmp` that the order theorems of `Props/C20.lean` are about — without a run-time panic. -/
theorem NaturalCmp_model (s1 s2 : Str) (ci : Bool) (h1 : s1.length < 2^63) (h2 : s2.length < 2^63) (fuel : Nat)
    (hf : s1.length + s2.length + 4 ≤ fuel) :
    Gen.NaturalCmp s1 s2 ci fuel =
      some (BitVec.ofInt 64 (NatSort.naturalCmp (s1.map BitVec.toNat) (s2.map BitVec.toNat) ci)) := by
  rw [NaturalCmp_eq s1 s2 ci h1 h2 fuel hf]
  have := goCmp_spec ci (s1.map BitVec.toNat) (s2.map BitVec.toNat) (bytes s1) (bytes s2) (reads_bytes s1) (reads_bytes s2)
  simp only [List.length_map] at this
  rw [this]

when_translated Gen.NaturalLess in
theorem NaturalLess_model (s1 s2 : Str) (ci : Bool) (h1 : s1.length < 2^63) (h2 : s2.length < 2^63) (fuel : Nat)
    (hf : s1.length + s2.length + 4 ≤ fuel) :
    Gen.NaturalLess s1 s2 ci fuel = some (NatSort.naturalLess (s1.map BitVec.toNat) (s2.map BitVec.toNat) ci) := by
  rw [Gen.NaturalLess, NaturalCmp_model s1 s2 ci h1 h2 fuel hf]
  simp only [Option.bind_some, NatSort.naturalLess, NatSort.naturalCmp]
  have key : ∀ o : Ordering,
      decide ((BitVec.ofInt 64 (NatSort.ordInt o)).toInt < 0) = decide (NatSort.ordInt o < 0) := by
    intro o; cases o <;> decide
  exact congrArg some (key _)

end C20Gen
