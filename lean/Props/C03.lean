import Model.Fixed
namespace C03
end C03
