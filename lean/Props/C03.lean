import Lemmas.FixedConv
import Lemmas.FixedRat
import Lemmas.FixedFloatConv
import Lemmas.FixedFloat32From
import Lemmas.FixedContrast
import Lemmas.FixedFloatTwin
/-! # C03 — fixed-point arithmetic equals exact decimal arithmetic truncated toward zero

Property theorems only.  The executable model is `Model/Fixed.lean` (`Fixed.F64.*` = `f64.Int[T]` on wrapping `int64`
semantics, `Fixed.F128.*` = `f128.Int[T]` on `num.Int128` semantics); the very same definitions are run against the Go
code by `Driver/C03.lean` on every check.  A fixed-point value is `raw / m` with `m = 10^D` the multiplier of the
configuration, so every clause is stated on the raw scaled integers:
  * `Mul`: raw = `(a·b) tdiv m`  — the exact product `(a/m)(b/m)` truncated toward zero to D places,
  * `Div`: raw = `(a·m) tdiv b`  — the exact quotient `(a/m)/(b/m)` truncated toward zero to D places,
  * `Mod`: raw = `a − b·(a tdiv b)` — `a − b·trunc(a/b)`,
  * `Trunc/Ceil/Round`: multiples of `m` (whole numbers) toward zero / toward +∞ / nearest, halves away from zero.
`Mult m` says that `m` is a multiplier of the regenerated configuration table `Facts.fixedConfigs` (from which the
driver takes it, `driver_multiplier_from_table`).  `fits64` / `fits128` are the explicit representability hypotheses of
the property (exact result and, for Mul/Div/Mod, the intermediate product). -/
namespace C03
open Fixed Fixed.Spec Fixed.Rat Fixed.FloatLemmas Fixed.Contrast

/-! ## configurations -/

/-- regenerated tie for `config.go`: every `(places, multiplier)` pair satisfies `multiplier = 10^places` -/
theorem multiplier_table : ∀ p ∈ Facts.fixedConfigs, p.2 = 10 ^ p.1 := by decide

/-- there are exactly the 16 configurations D1..D16, with 1..16 places, in this order -/
theorem config_places : Facts.fixedConfigs.map (·.1) = [1, 2, 3, 4, 5, 6, 7, 8, 9, 10, 11, 12, 13, 14, 15, 16] := by
  decide

theorem config_count : Facts.fixedConfigs.length = 16 := by decide

/-- the multiplier the driver (and `Multiplier[T]()` / `MaxDecimalDigits[T]()` in the comparison) uses for `Dk` is
    the k-th row of that table -/
theorem driver_multiplier_from_table (k : Nat) (m : Int) (h : mult? k = some m) : Mult m ∧ places? k = some k := by
  refine ⟨mult?_Mult h, ?_⟩
  unfold mult? at h
  unfold places?
  split at h
  · cases h
  · rename_i hk
    rw [if_neg hk]
    have hlen : k - 1 < 16 := by
      cases hq : Facts.fixedConfigs[k - 1]? with
      | none => rw [hq] at h; cases h
      | some p =>
        have := (List.getElem?_eq_some_iff.mp hq).1
        simpa [config_count] using this
    have : ∀ j : Fin 16, (Facts.fixedConfigs[j.val]?).map (·.1) = some (j.val + 1) := by decide
    have h2 := this ⟨k - 1, hlen⟩
    simp only at h2
    rw [h2]; congr 1; omega

/-! ## Add / Sub are exact -/

/-- f64 `Add` is exact when the sum is representable -/
theorem f64_add_exact (a b : Int) (h : fits64 (a + b)) : F64.add a b = a + b := F64.add_exact h
/-- f64 `Sub` is exact when the difference is representable -/
theorem f64_sub_exact (a b : Int) (h : fits64 (a - b)) : F64.sub a b = a - b := F64.sub_exact h
/-- f128 `Add` is exact when the sum is representable -/
theorem f128_add_exact (a b : Int) (h : fits128 (a + b)) : F128.add a b = a + b := F128.add_exact h
/-- f128 `Sub` is exact when the difference is representable -/
theorem f128_sub_exact (a b : Int) (h : fits128 (a - b)) : F128.sub a b = a - b := F128.sub_exact h

/-! ## Mul / Div / Mod -/

/-- f64 `Mul` = exact product truncated toward zero to D places (intermediate product representable) -/
theorem f64_mul_spec (m a b : Int) (hm : Mult m) (hp : fits64 (a * b)) : F64.mul m a b = (a * b).tdiv m :=
  F64.mul_eq hm hp
/-- f128 `Mul` -/
theorem f128_mul_spec (m a b : Int) (hm : Mult m) (hp : fits128 (a * b)) : F128.mul m a b = (a * b).tdiv m :=
  F128.mul_eq hm hp

/-- f64 `Div` = exact quotient truncated toward zero to D places (`b ≠ 0`; intermediate `a·m` and the quotient
    representable — the latter only excludes `Min / -1`-like cases) -/
theorem f64_div_spec (m a b : Int) (hb : b ≠ 0) (hp : fits64 (a * m)) (hq : fits64 ((a * m).tdiv b)) :
    F64.div m a b = some ((a * m).tdiv b) := F64.div_eq hb hp hq
/-- f128 `Div` -/
theorem f128_div_spec (m a b : Int) (hbf : fits128 b) (hb : b ≠ 0) (hp : fits128 (a * m))
    (hq : fits128 ((a * m).tdiv b)) : F128.div m a b = some ((a * m).tdiv b) := F128.div_eq hbf hb hp hq

/-- division by zero is a Go panic (`none`) in both implementations — never a wrong number.  (Near-definitional on the
    model: the guard is written in `F64.div` / `F64.mod` …; its weight comes from the differential run, where the Go
    code must panic on exactly these lines, and from the translator ties of Props/C03Gen*.lean.) -/
theorem div_zero_panics (m a : Int) : F64.div m a 0 = none ∧ F128.div m a 0 = none ∧
    F64.mod m a 0 = none ∧ F128.mod m a 0 = none := by
  simp [F64.div, F128.div, F64.mod, F128.mod]

/-- f64 `Mod` = `a − b·trunc(a/b)` (the truncated remainder, sign of the dividend) for EVERY dividend and every
    non-zero divisor: the property grants the intermediate-product hypothesis to Mul and Div only, the exact result of
    Mod always fits, and since the fix "Mod computes the remainder directly" (`f % value`) no hypothesis beyond `b ≠ 0`
    is needed (`fits64 a` only says that `a` is a raw value of the type) -/
theorem f64_mod_spec (m a b : Int) (ha : fits64 a) (hb : b ≠ 0) : F64.mod m a b = some (a - b * a.tdiv b) := by
  rw [F64.mod_tmod ha hb]
  have := Int.tmod_add_tdiv_mul a b
  have e : a.tdiv b * b = b * a.tdiv b := Int.mul_comm _ _
  congr 1; omega
/-- f128 `Mod` (`Int128.Mod` of the raw values): the same, for every pair of raw values with `b ≠ 0` -/
theorem f128_mod_spec (m a b : Int) (ha : fits128 a) (hbf : fits128 b) (hb : b ≠ 0) :
    F128.mod m a b = some (a - b * a.tdiv b) := by
  rw [F128.mod_tmod ha hbf hb]
  have := Int.tmod_add_tdiv_mul a b
  have e : a.tdiv b * b = b * a.tdiv b := Int.mul_comm _ _
  congr 1; omega

/-- the result of `Mod` is always representable (no hypothesis needed): it lies between 0 and the dividend -/
theorem mod_result_fits (a b : Int) :
    (fits64 a → fits64 (a - b * a.tdiv b)) ∧ (fits128 a → fits128 (a - b * a.tdiv b)) ∧
    (0 ≤ a → 0 ≤ a - b * a.tdiv b ∧ a - b * a.tdiv b ≤ a) ∧ (a ≤ 0 → a ≤ a - b * a.tdiv b ∧ a - b * a.tdiv b ≤ 0) := by
  have h := Int.tmod_add_tdiv_mul a b
  have e : a.tdiv b * b = b * a.tdiv b := Int.mul_comm _ _
  have e2 : a - b * a.tdiv b = a.tmod b := by omega
  rw [e2]
  exact ⟨fits64_tmod, fits128_tmod, (tmod_between a b).1, (tmod_between a b).2⟩

/-- the corner Go defines specially: `MinInt64 % -1 = 0` (no overflow panic), and the same for the 128-bit minimum -/
theorem mod_min_by_minus_one (m : Int) :
    F64.mod m F64.minRaw (-1) = some 0 ∧ F128.mod m F128.minRaw (-1) = some 0 := by
  constructor <;> (simp only [F64.mod, F128.mod]; decide)

/-! ## Trunc / Ceil / Round -/

/-- f64 `Trunc`: a whole number (multiple of `m`), less than one unit from `a`, between 0 and `a` (toward zero) -/
theorem f64_trunc_spec (m a : Int) (hm : Mult m) (ha : fits64 a) :
    (∃ k : Int, F64.trunc m a = k * m) ∧ |a - F64.trunc m a| < m ∧
    (0 ≤ a → 0 ≤ F64.trunc m a ∧ F64.trunc m a ≤ a) ∧ (a ≤ 0 → a ≤ F64.trunc m a ∧ F64.trunc m a ≤ 0) := by
  rw [F64.trunc_eq hm ha]; exact trunc_spec m a hm.pos
/-- f128 `Trunc` -/
theorem f128_trunc_spec (m a : Int) (hm : Mult m) (ha : fits128 a) :
    (∃ k : Int, F128.trunc m a = k * m) ∧ |a - F128.trunc m a| < m ∧
    (0 ≤ a → 0 ≤ F128.trunc m a ∧ F128.trunc m a ≤ a) ∧ (a ≤ 0 → a ≤ F128.trunc m a ∧ F128.trunc m a ≤ 0) := by
  rw [F128.trunc_eq hm ha]; exact trunc_spec m a hm.pos

/-- f64 `Ceil`: the least whole number ≥ `a` (toward +∞), when that number is representable -/
theorem f64_ceil_spec (m a : Int) (hm : Mult m) (ha : fits64 a) (hr : fits64 (fxCeil m a)) :
    (∃ k : Int, F64.ceil m a = k * m) ∧ a ≤ F64.ceil m a ∧ F64.ceil m a < a + m := by
  rw [F64.ceil_eq hm ha hr]; exact ceil_spec m a hm.pos
/-- f128 `Ceil` -/
theorem f128_ceil_spec (m a : Int) (hm : Mult m) (ha : fits128 a) (hr : fits128 (fxCeil m a)) :
    (∃ k : Int, F128.ceil m a = k * m) ∧ a ≤ F128.ceil m a ∧ F128.ceil m a < a + m := by
  rw [F128.ceil_eq hm ha hr]; exact ceil_spec m a hm.pos

/-- f64 `Round`: a whole number at distance ≤ 1/2, and on an exact half the one of larger magnitude (halves away
    from zero, both signs), when that number is representable -/
theorem f64_round_spec (m a : Int) (hm : Mult m) (ha : fits64 a) (hr : fits64 (fxRound m a)) :
    (∃ k : Int, F64.round m a = k * m) ∧ 2 * |a - F64.round m a| ≤ m ∧
    (2 * |a - F64.round m a| = m → |a| < |F64.round m a|) := by
  rw [F64.round_eq hm ha hr]; exact round_spec m a hm.pos hm.even
/-- f128 `Round` -/
theorem f128_round_spec (m a : Int) (hm : Mult m) (ha : fits128 a) (hr : fits128 (fxRound m a)) :
    (∃ k : Int, F128.round m a = k * m) ∧ 2 * |a - F128.round m a| ≤ m ∧
    (2 * |a - F128.round m a| = m → |a| < |F128.round m a|) := by
  rw [F128.round_eq hm ha hr]; exact round_spec m a hm.pos hm.even

/-- the representability hypothesis of Ceil / Round holds whenever `a ± m` is representable (so it only excludes
    values within one unit of the ends of the range) -/
theorem ceil_round_fit_of_margin (m a : Int) (hm : Mult m) :
    (fits64 (a - m) → fits64 (a + m) → fits64 (fxCeil m a) ∧ fits64 (fxRound m a)) ∧
    (fits128 (a - m) → fits128 (a + m) → fits128 (fxCeil m a) ∧ fits128 (fxRound m a)) := by
  have hc := ceil_spec m a hm.pos
  have hr := (round_spec m a hm.pos hm.even).2.1
  have hm0 := hm.pos
  have := abs_le.mp (show |a - fxRound m a| ≤ m by linarith [abs_nonneg (a - fxRound m a)])
  constructor <;> intro h1 h2
  · unfold fits64 at *; omega
  · unfold fits128 at *; omega

/-- **no margin anywhere**: for EVERY raw value of the type, `Trunc` returns the exact result (always representable), and
    `Ceil` / `Round` return the exact result whenever that result is representable — the only hypothesis; in particular
    for operands within half a unit of `MaxInt64` / `MinInt64` / `±2^127`, where a sum `a ± half` would wrap (the code
    compares the remainder `a − Trunc(a)` instead, which never leaves the range) -/
theorem rounding_exact_whenever_representable (m a : Int) (hm : Mult m) :
    (fits64 a → F64.trunc m a = fxTrunc m a ∧ fits64 (fxTrunc m a)) ∧
    (fits64 a → fits64 (fxCeil m a) → F64.ceil m a = fxCeil m a) ∧
    (fits64 a → fits64 (fxRound m a) → F64.round m a = fxRound m a) ∧
    (fits128 a → F128.trunc m a = fxTrunc m a ∧ fits128 (fxTrunc m a)) ∧
    (fits128 a → fits128 (fxCeil m a) → F128.ceil m a = fxCeil m a) ∧
    (fits128 a → fits128 (fxRound m a) → F128.round m a = fxRound m a) :=
  ⟨fun ha => ⟨F64.trunc_eq hm ha, fits64_tdiv_mul ha⟩, fun ha hr => F64.ceil_eq hm ha hr,
   fun ha hr => F64.round_eq hm ha hr,
   fun ha => ⟨F128.trunc_eq hm ha, fits128_tdiv_mul ha⟩, fun ha hr => F128.ceil_eq hm ha hr,
   fun ha hr => F128.round_eq hm ha hr⟩

/-- when the value is less than half a unit from its truncation, `Round` is that truncation with NO representability
    hypothesis at all — e.g. `Round(Max)` at D2 (`…807 → …800`), one step from the limit -/
theorem round_toward_zero_needs_no_margin (m a : Int) (hm : Mult m) (hlt : 2 * |a - fxTrunc m a| < m) :
    fxRound m a = fxTrunc m a ∧ (fits64 a → F64.round m a = fxTrunc m a) ∧ (fits128 a → F128.round m a = fxTrunc m a) := by
  have hev := hm.even
  have hr : fxRound m a = fxTrunc m a := by
    obtain ⟨h1, h2⟩ := abs_lt.mp (show |a - fxTrunc m a| < m.tdiv 2 by omega)
    unfold fxRound
    rw [if_neg (by omega), if_neg (by omega)]
  refine ⟨hr, fun ha => ?_, fun ha => ?_⟩
  · rw [← hr]; exact F64.round_eq hm ha (by rw [hr]; exact fits64_tdiv_mul ha)
  · rw [← hr]; exact F128.round_eq hm ha (by rw [hr]; exact fits128_tdiv_mul ha)

/-- at and next to the limits (D2): `Max` and `Min` round toward zero, `Max − 0.57` rounds up to `…800` -/
example : F64.round 100 F64.maxRaw = 9223372036854775800 ∧ F64.round 100 F64.minRaw = -9223372036854775800 ∧
    F128.round 100 F128.maxRaw = F128.maxRaw - 27 ∧ F64.round 100 (F64.maxRaw - 57) = 9223372036854775800 := by decide

/-! ## Abs, Neg, Min, Max, Inc, Dec, comparisons -/

/-- f64 `Abs` (there is no f64 `Neg` method) -/
theorem f64_abs_spec (a : Int) (h : fits64 (-a)) : F64.abs a = |a| := F64.abs_eq h
/-- f128 `Abs` -/
theorem f128_abs_spec (a : Int) (h : fits128 (-a)) : F128.abs a = |a| := F128.abs_eq h
/-- f128 `Neg` -/
theorem f128_neg_spec (a : Int) (ha : fits128 a) (h : fits128 (-a)) : F128.neg a = -a := F128.neg_eq h ha

/-- `Min` / `Max` are the minimum / maximum of the raw values (hence of the values, `m > 0`).  (Near-definitional on the
    Int-level model, which writes the same `if`; the content is carried by the differential run against the Go code —
    operands across the extremes included — and, for f128, by the translator tie Props/C03Gen128.lean down to the
    word-level comparisons proved in C01.) -/
theorem min_max_spec (a b : Int) :
    F64.min a b = min a b ∧ F64.max a b = max a b ∧ F128.min a b = min a b ∧ F128.max a b = max a b :=
  ⟨F64.min_eq a b, F64.max_eq a b, F128.min_eq a b, F128.max_eq a b⟩

/-- `Inc` / `Dec` add / subtract exactly one (raw `m`) -/
theorem inc_dec_spec (m a : Int) :
    (fits64 (a + m) → F64.inc m a = a + m) ∧ (fits64 (a - m) → F64.dec m a = a - m) ∧
    (fits128 (a + m) → F128.inc m a = a + m) ∧ (fits128 (a - m) → F128.dec m a = a - m) :=
  ⟨F64.inc_eq, F64.dec_eq, F128.inc_eq, F128.dec_eq⟩

/-- f128 comparisons agree with the order of the raw values (f64 comparisons are Go's built-in operators).
    (Near-definitional here: the model states `Int128.Cmp/LessThan/…` by their contract on mathematical integers; that
    the word-level code meets the contract is `F128_Int_Cmp_eq` … of Props/C03Gen128.lean together with C01.icmp_spec,
    and the differential run.) -/
theorem f128_cmp_spec (a b : Int) :
    (F128.cmp a b = -1 ↔ a < b) ∧ (F128.cmp a b = 0 ↔ a = b) ∧ (F128.cmp a b = 1 ↔ a > b) ∧
    (F128.lt a b = true ↔ a < b) ∧ (F128.le a b = true ↔ a ≤ b) ∧ (F128.gt a b = true ↔ a > b) ∧
    (F128.ge a b = true ↔ a ≥ b) ∧ (F128.eq a b = true ↔ a = b) := by
  unfold F128.cmp F128.lt F128.le F128.gt F128.ge F128.eq
  refine ⟨?_, ?_, ?_, by simp, by simp, by simp, by simp, by simp⟩ <;> split <;> (try split) <;> omega

/-! ## f64 and f128 agree -/

/-- binary operations: whenever operands, intermediate and result fit 64 bits, both implementations return the
    exact result — hence the same raw value -/
theorem f64_f128_agree (m : Int) (hm : Mult m) (op : BinOp) (a b : Int) (h : AllFit64Bin m op a b) :
    F64.runBin m op a b = F128.runBin m op a b ∧ F64.runBin m op a b = some (specBin m op a b) := by
  rw [F64.runBin_eq hm op a b h, F128.runBin_eq hm op a b h]; exact ⟨rfl, rfl⟩

/-- unary operations likewise -/
theorem f64_f128_agree_unary (m : Int) (hm : Mult m) (op : UnOp) (a : Int) (h : AllFit64Un m op a) :
    F64.runUn m op a = F128.runUn m op a ∧ F64.runUn m op a = specUn m op a := by
  rw [F64.runUn_eq hm op a h, F128.runUn_eq hm op a h]; exact ⟨rfl, rfl⟩

/-! ## From / As for machine integers -/

/-- f64 `From` of an integer value `v` (any source kind; `v` within int64) is exactly `v` (raw `v·m`) when
    representable; the product is formed in `int64`, not in the source type -/
theorem f64_from_int_exact (m v : Int) (hv : fits64 v) (hp : fits64 (v * m)) : F64.fromInt m v = v * m :=
  F64.fromInt_eq hv hp
/-- f128 `From` of every value of every integer kind (signed and unsigned, up to `MaxUint64`) is exact — the
    product always fits 128 bits -/
theorem f128_from_int_exact (m v : Int) (hm : Mult m) (k : Kind) (hk : k ∈ kinds) (hv : fitsKind k v) :
    F128.fromInt k m v = v * m := F128.fromInt_eq hk hm hv
/-- the kinds named by the harness are among `kinds` -/
theorem kind_names_covered (s : String) (k : Kind) (h : kind? s = some k) : k ∈ kinds := by
  unfold kind? at h
  split at h <;> first | (cases h; simp [kinds]) | cases h

/-- f64 `As` to an integer kind returns the integer part (toward zero) whenever it fits the target kind -/
theorem f64_as_int_exact (m a : Int) (hm : Mult m) (k : Kind) (hk : k ∈ kinds) (ha : fits64 a)
    (hq : fitsKind k (a.tdiv m)) : F64.asInt k m a = a.tdiv m := F64.asInt_eq hk hm ha hq
/-- f128 `As` -/
theorem f128_as_int_exact (m a : Int) (hm : Mult m) (k : Kind) (hk : k ∈ kinds) (ha : fits128 a)
    (hq : fitsKind k (a.tdiv m)) : F128.asInt k m a = a.tdiv m := F128.asInt_eq hk hm ha hq

/-- `From` then `As` is the identity on integers (round trip) -/
theorem f64_from_as_roundtrip (m v : Int) (hm : Mult m) (k : Kind) (hk : k ∈ kinds) (hv : fits64 v)
    (hkv : fitsKind k v) (hp : fits64 (v * m)) : F64.asInt k m (F64.fromInt m v) = v := by
  have e : (v * m).tdiv m = v := Int.mul_tdiv_cancel _ (by have := hm.pos; omega)
  rw [F64.fromInt_eq hv hp, F64.asInt_eq hk hm hp (by rw [e]; exact hkv), e]

/-! ## Fraction -/

/-- f64 `Fraction.Normalize`: a zero denominator gives 0/1, a negative one flips both signs -/
theorem f64_fraction_normalize (m n d : Int) (hm : Mult m) (hn : fits64 (-(n * m))) (hd : fits64 (-(d * m))) :
    F64.fracNormalize m n d = if d = 0 then (0, m) else if d < 0 then (-n, -d) else (n, d) :=
  F64.fracNormalize_eq hm hn hd
/-- f128 `Fraction.Normalize` -/
theorem f128_fraction_normalize (m n d : Int) (hm : Mult m) (hn : fits128 (-(n * m))) (hd : fits128 (-(d * m))) :
    F128.fracNormalize m n d = if d = 0 then (0, m) else if d < 0 then (-n, -d) else (n, d) :=
  F128.fracNormalize_eq hm hn hd

/-- f64 `Fraction.Value` = numerator / denominator truncated toward zero to D places; 0 for a zero denominator -/
theorem f64_fraction_value (m n d : Int) (hm : Mult m) (hn : fits64 (-(n * m))) (hd : fits64 (-(d * m)))
    (hp : fits64 (n * m)) (hq : fits64 ((n * m).tdiv d)) :
    F64.fracValue m n d = some (if d = 0 then 0 else (n * m).tdiv d) := by
  have hm0 := hm.pos
  unfold F64.fracValue
  rw [F64.fracNormalize_eq hm hn hd]
  by_cases h0 : d = 0
  · simp only [h0, if_true]
    rw [F64.div_eq (by omega) (by simp [fits64]) (by simp [fits64])]; simp [fxDiv]
  · simp only [h0, if_false]
    by_cases hneg : d < 0
    · simp only [hneg, if_true]
      have e : (-n * m).tdiv (-d) = (n * m).tdiv d := by rw [Int.neg_mul, Int.neg_tdiv_neg]
      rw [F64.div_eq (by omega) (by rw [Int.neg_mul]; exact hn) (by rw [e]; exact hq)]
      simp only [fxDiv, e]
    · simp only [hneg, if_false]
      rw [F64.div_eq h0 hp hq]; rfl

/-- f128 `Fraction.Value` = numerator / denominator truncated toward zero to D places; 0 for a zero denominator
    (`Uint128.Div` taken by its contract, as everywhere in the f128 model: the denominator and its negation must be
    representable) -/
theorem f128_fraction_value (m n d : Int) (hm : Mult m) (hn : fits128 (-(n * m))) (hd : fits128 (-(d * m)))
    (hdf : fits128 d) (hdn : fits128 (-d)) (hp : fits128 (n * m)) (hq : fits128 ((n * m).tdiv d)) :
    F128.fracValue m n d = some (if d = 0 then 0 else (n * m).tdiv d) := by
  have hm0 := hm.pos
  unfold F128.fracValue
  rw [F128.fracNormalize_eq hm hn hd]
  by_cases h0 : d = 0
  · simp only [h0, if_true]
    rw [F128.div_eq (fits128_of_fits64 hm.fits64) (by omega) (by simp [fits128]) (by simp [fits128])]; simp [fxDiv]
  · simp only [h0, if_false]
    by_cases hneg : d < 0
    · simp only [hneg, if_true]
      have e : (-n * m).tdiv (-d) = (n * m).tdiv d := by rw [Int.neg_mul, Int.neg_tdiv_neg]
      rw [F128.div_eq hdn (by omega) (by rw [Int.neg_mul]; exact hn) (by rw [e]; exact hq)]
      simp only [fxDiv, e]
    · simp only [hneg, if_false]
      rw [F128.div_eq hdf h0 hp hq]; rfl

/-! ## Fraction text (`NewFraction`, `String`, `StringWithSign`; run by the driver as ops `fnew`, `fstr`, `fjson`) -/

/-- the text of a whole number (`Int.String()` on raw `v·m`, as used by `Fraction.String`) is the integer without a
    fraction part; `StringWithSign` prefixes `+` exactly for the non-negative ones -/
theorem render_whole (m v : Int) (hm : 0 < m) : render m (v * m) = toString v ∧
    renderSign m (v * m) = if 0 ≤ v then "+" ++ toString v else toString v := by
  have e1 : (v * m).tdiv m = v := Int.mul_tdiv_cancel _ (by omega)
  have e2 : (v * m).tmod m = 0 := Int.mul_tmod_left _ _
  have r : render m (v * m) = toString v := by
    unfold render
    simp only [e1, e2]
    simp
  refine ⟨r, ?_⟩
  unfold renderSign
  rw [r]
  have : (v * m ≥ 0) ↔ 0 ≤ v := by
    constructor
    · intro h; by_contra hn; have : v * m < 0 := Int.mul_neg_of_neg_of_pos (by omega) hm; omega
    · intro h; exact Int.mul_nonneg h (by omega)
  simp only [this]

/-- `Fraction.String` / `StringWithSign` (both types): the text of the numerator of the NORMALISED fraction, then `/` and
    the text of its denominator unless that is 1 — in particular a zero denominator prints as the numerator 0 alone and
    a negative one moves its sign to the numerator (the digit-level text of a single value is the subject of C04) -/
theorem fraction_string_spec (m n d : Int) (hm : Mult m) (sign : Bool) :
    (fits64 (-(n * m)) → fits64 (-(d * m)) →
      F64.fracString sign m n d =
        let p : Int × Int := if d = 0 then (0, m) else if d < 0 then (-n, -d) else (n, d)
        (if sign then renderSign m p.1 else render m p.1) ++ (if p.2 = m then "" else "/" ++ render m p.2)) ∧
    (fits128 (-(n * m)) → fits128 (-(d * m)) →
      F128.fracString sign m n d =
        let p : Int × Int := if d = 0 then (0, m) else if d < 0 then (-n, -d) else (n, d)
        (if sign then renderSign m p.1 else render m p.1) ++ (if p.2 = m then "" else "/" ++ render m p.2)) := by
  constructor
  · intro hn hd
    unfold F64.fracString
    rw [F64.fracNormalize_eq hm hn hd, F64.fromInt_one hm]
    simp only []
    generalize (if d = 0 then ((0 : Int), m) else if d < 0 then (-n, -d) else (n, d)) = p
    by_cases h : p.2 = m
    · simp [h]
    · simp [h, String.append_assoc]
  · intro hn hd
    unfold F128.fracString
    rw [F128.fracNormalize_eq hm hn hd, F128.fromInt_one hm]
    simp only []
    generalize (if d = 0 then ((0 : Int), m) else if d < 0 then (-n, -d) else (n, d)) = p
    by_cases h : p.2 = m
    · simp [h]
    · simp [h, String.append_assoc]

/-- `NewFraction`: without a slash the denominator is 1 (raw `m`); with one, the two parsed values are kept as given
    (normalisation happens in `Normalize` / `Value` / `String`, not here) -/
theorem fraction_new_spec (m n : Int) (hm : Mult m) :
    F64.fracNew m n none = (n, m) ∧ F128.fracNew m n none = (n, m) ∧
    (∀ d, F64.fracNew m n (some d) = (n, d) ∧ F128.fracNew m n (some d) = (n, d)) := by
  refine ⟨?_, ?_, fun d => ⟨rfl, rfl⟩⟩
  · unfold F64.fracNew; simp only [F64.fromInt_one hm]
  · unfold F128.fracNew; simp only [F128.fromInt_one hm]

/-! ## f64 and f128 agree, continued: integer From / As, Fraction -/

/-- integer `From`: both implementations return the exact raw value `v·m`, hence the same one, for every source kind
    whenever the result fits 64 bits -/
theorem f64_f128_agree_from_int (m v : Int) (hm : Mult m) (k : Kind) (hk : k ∈ kinds) (hv : fits64 v)
    (hkv : fitsKind k v) (hp : fits64 (v * m)) :
    F64.fromInt m v = F128.fromInt k m v ∧ F64.fromInt m v = v * m := by
  rw [F64.fromInt_eq hv hp, F128.fromInt_eq hk hm hkv]; exact ⟨rfl, rfl⟩

/-- integer `As`: the same answer for EVERY common raw value and every target kind — also when the integer part does
    not fit the target kind and Go's conversion wraps (no `fitsKind` hypothesis).  The wrapping part is carried by the
    correspondence run as well: every integer-target `as` line is judged in area `fx` and is in the twin comparison (Go's
    integer conversion is truncation to the target width, fully defined) -/
theorem f64_f128_agree_as_int (m a : Int) (hm : Mult m) (k : Kind) (ha : fits64 a) :
    F64.asInt k m a = F128.asInt k m a := by
  unfold F64.asInt F128.asInt F64.quo
  rw [F128.quo_mult hm (fits128_of_fits64 ha), wrap64_of_fits (fits64_tdiv ha hm.pos),
    F128.asInt64_of_fits (fits64_tdiv ha hm.pos)]

/-- `Fraction.Normalize` / `Fraction.Value`: the same pair and the same value from both implementations when
    numerator, denominator, their negations scaled, the intermediate and the result fit 64 bits -/
theorem f64_f128_agree_fraction (m n d : Int) (hm : Mult m) (hn : fits64 (-(n * m))) (hd : fits64 (-(d * m)))
    (hdf : fits64 d) (hp : fits64 (n * m)) (hq : fits64 ((n * m).tdiv d)) :
    F64.fracNormalize m n d = F128.fracNormalize m n d ∧ F64.fracValue m n d = F128.fracValue m n d := by
  have hm0 := hm.pos
  have hdn : fits64 (-d) := by unfold fits64 at *; constructor <;> nlinarith
  rw [f64_fraction_value m n d hm hn hd hp hq,
    f128_fraction_value m n d hm (fits128_of_fits64 hn) (fits128_of_fits64 hd) (fits128_of_fits64 hdf)
      (fits128_of_fits64 hdn) (fits128_of_fits64 hp) (fits128_of_fits64 hq),
    F64.fracNormalize_eq hm hn hd, F128.fracNormalize_eq hm (fits128_of_fits64 hn) (fits128_of_fits64 hd)]
  exact ⟨rfl, rfl⟩

/-! ## From / As for floats (float64 kinds)

The float paths are modelled in `Model/FixedFloat.lean` on the binary64 model `GoSem.F64` (every operation = the exact
rational result rounded once to nearest-even; validated bit for bit against the hardware by C02) and run against the Go
code by the area `fxfloatm` of the check.  `fval x` is the rational value of a finite float, `value m r = r / m` the
value of a raw scaled integer.  Trusted parameters (contracts of the standard library, stated in the model):
`strconv.ParseFloat` returns the nearest float, ties to even; `big.Float.Quo` / `Float64` round to nearest even;
`big.Float.Text('f', n)` is the exact expansion rounded to nearest even at `n` digits. -/

/-- f64 `From` of a float, sharp form.  Hypothesis = domain: Go defines the float → int64 conversion of the rounded
    product only when it truncates into int64 (`.ok r`; NaN, ±Inf and out-of-range products are `implDefined`, on which
    nothing is claimed).  The product `x · mult` is rounded once, then truncated toward zero: the raw result is less
    than one raw unit from `x · mult`, or (when the rounded product is an integer ≥ 2^52, so nothing is truncated) within
    `2^-53` of it relatively. -/
theorem f64_from_float_sharp (m : Int) (hm : Mult m) (x : Flt) (r : Int) (h : F64.fromFloat m x = .ok r) :
    |(r : ℚ) - fval x * m| < 1 ∨ |(r : ℚ) - fval x * m| ≤ |fval x * m| / 2 ^ 53 :=
  f64_from_val m hm x r h

/-- f64 `From` of a float: off by at most one unit of the last decimal place or one part in 2^53 of the value,
    whichever is larger (the property allows 2^52) -/
theorem f64_from_float_bound (m : Int) (hm : Mult m) (x : Flt) (r : Int) (h : F64.fromFloat m x = .ok r) :
    |value m r - fval x| ≤ max (1 / (m : ℚ)) (|fval x| / 2 ^ 53) := by
  have hmq : (0 : ℚ) < (m : ℚ) := by exact_mod_cast hm.pos
  have e : value m r - fval x = ((r : ℚ) - fval x * m) / m := by unfold value; field_simp
  rw [e, abs_div, abs_of_pos hmq]
  rcases f64_from_val m hm x r h with h1 | h1
  · exact le_trans (div_le_div_of_nonneg_right (le_of_lt h1) (le_of_lt hmq)) (le_max_left _ _)
  · refine le_trans (div_le_div_of_nonneg_right h1 (le_of_lt hmq)) (le_trans (le_of_eq ?_) (le_max_right _ _))
    rw [abs_mul, abs_of_pos hmq]; field_simp

/-- the domain hypothesis of `f64_from_float_sharp` is not vacuous in general: every finite float with
    `|x|·mult ≤ 2^62` is inside it (the exact domain is: the rounded product truncates into int64) -/
theorem f64_from_float_defined (m : Int) (hm : Mult m) (s : Bool) (mx : Nat) (ex : Int)
    (hb : |fval (.fin s mx ex)| * m ≤ 2 ^ 62) : ∃ r, F64.fromFloat m (.fin s mx ex) = .ok r := by
  apply f64_from_defined m hm s mx ex
  have h0 : (0 : ℚ) ≤ (mx : ℚ) * (2 : ℚ) ^ ex := mul_nonneg (Nat.cast_nonneg _) (le_of_lt (zp_pos ex))
  have e : |fval (.fin s mx ex)| = (mx : ℚ) * (2 : ℚ) ^ ex := by
    unfold fval; rw [abs_sgn_mul, abs_of_nonneg h0]
  rw [e] at hb; exact hb

/-- the floating-point product inside f64 `From` is a single rounding: for a finite non-zero `x` it overflows only when
    `|x|·mult ≥ 2^1023`, and otherwise is a float of the sign of `x` within half a unit of its last place of the exact
    product, and within `2^-53` of it relatively in the normal range (`float64(mult)` itself is exact) -/
theorem f64_from_float_product (m : Int) (hm : Mult m) (s : Bool) (mx : Nat) (ex : Int) (hmx : mx ≠ 0) :
    (GoSem.F64.mul (.fin s mx ex) (F64.multF m) = .inf s ∧ (2 : ℚ) ^ (1023 : ℤ) ≤ (mx : ℚ) * (2 : ℚ) ^ ex * m) ∨
     ∃ m' e', GoSem.F64.mul (.fin s mx ex) (F64.multF m) = .fin s m' e' ∧
      |(m' : ℚ) * (2 : ℚ) ^ e' - (mx : ℚ) * (2 : ℚ) ^ ex * m| ≤ (2 : ℚ) ^ e' / 2 ∧
      ((2 : ℚ) ^ (-1022 : ℤ) ≤ (mx : ℚ) * (2 : ℚ) ^ ex * m →
        |(m' : ℚ) * (2 : ℚ) ^ e' - (mx : ℚ) * (2 : ℚ) ^ ex * m| ≤ (mx : ℚ) * (2 : ℚ) ^ ex * m / 2 ^ 53) := by
  rcases (mul_multF_val m hm s mx ex hmx).2 with h | ⟨m', e', h1, _, h3, h4⟩
  · exact Or.inl h
  · exact Or.inr ⟨m', e', h1, h3, h4⟩

/-- f64 `As` to float64 is *by definition of the model* the float64 nearest (ties to even) to `raw / mult` — the
    documented contract of `strconv.ParseFloat` applied to the exact decimal text of `String()` (C04) -/
theorem f64_as_float_nearest (m a : Int) :
    F64.asFloat m a = if a = 0 then GoSem.F64.zero
      else GoSem.F64.decode (GoSem.F64.roundRatN (decide (a < 0)) a.natAbs m.toNat) := by
  unfold F64.asFloat GoSem.F64.ofSigned GoSem.F64.ofRat GoSem.F64.zero
  by_cases h : a = 0 <;> simp [h]

/-- f64 `As` to float64: finite for every raw value, and within one part in 2^53 of the value (half a unit in the
    last place of the float; the property allows 2^52 or one decimal unit) -/
theorem f64_as_float_bound (m a : Int) (hm : Mult m) (ha : fits64 a) :
    (∃ s mm e, F64.asFloat m a = .fin s mm e) ∧
      |fval (F64.asFloat m a) - value m a| ≤ |value m a| / 2 ^ 53 := by
  obtain ⟨s, mm, e, h1, h2⟩ := f64_as_val m a hm ha
  exact ⟨⟨s, mm, e, h1⟩, h2⟩

/-- f128 `From` of a float is defined everywhere: NaN panics (`big.ErrNaN`, `none`), ±Inf give 0 (`FromString`
    rejects the text) -/
theorem f128_from_float_special (m : Int) (places : Nat) :
    F128.fromFloat m places .nan = none ∧ ∀ s, F128.fromFloat m places (.inf s) = some 0 :=
  ⟨rfl, fun _ => rfl⟩

/-- f128 `From` of a finite float whose result is not saturated (strictly inside the 128-bit range): the exact decimal
    expansion rounded at D+1 digits and cut to D digits is less than one unit of the last place from the value (at most
    19/20 of a unit).  `p` is the row (places, multiplier) of the configuration, as the driver passes it. -/
theorem f128_from_float_bound (p : Nat × Int) (hp : p ∈ Facts.fixedConfigs) (x : Flt) (r : Int)
    (h : F128.fromFloat p.2 p.1 x = some r) (h1 : F128.minRaw < r) (h2 : r < F128.maxRaw) :
    |value p.2 r - fval x| ≤ 19 / 20 / (p.2 : ℚ) ∧ |value p.2 r - fval x| < 1 / (p.2 : ℚ) := by
  have hb := f128_from_val p hp x r h h1 h2
  have hm : Mult p.2 := ⟨p, hp, rfl⟩
  have hmq : (0 : ℚ) < (p.2 : ℚ) := by exact_mod_cast hm.pos
  refine ⟨hb, lt_of_le_of_lt hb ?_⟩
  exact div_lt_div_of_pos_right (by norm_num) hmq

/-- the domain of `f128_from_float_bound` / `f128_from_float32_bound` stated on the INPUT: every finite float (float32
    arguments included, `x = decode32 n`) whose scaled magnitude `|x|·mult` stays two raw units below `2^127` converts,
    and not to a saturated value — so the hypotheses `minRaw < r < maxRaw` of those theorems hold for it -/
theorem f128_from_float_defined (p : Nat × Int) (hp : p ∈ Facts.fixedConfigs) (s : Bool) (mx : Nat) (ex : Int)
    (hb : |fval (.fin s mx ex)| * p.2 + 2 ≤ 2 ^ 127) :
    ∃ r, F128.fromFloat p.2 p.1 (.fin s mx ex) = some r ∧ F128.minRaw < r ∧ r < F128.maxRaw := by
  apply f128_from_defined p hp s mx ex
  have h0 : (0 : ℚ) ≤ (mx : ℚ) * (2 : ℚ) ^ ex := mul_nonneg (Nat.cast_nonneg _) (le_of_lt (zp_pos ex))
  have e : |fval (.fin s mx ex)| = (mx : ℚ) * (2 : ℚ) ^ ex := by
    unfold fval; rw [abs_sgn_mul, abs_of_nonneg h0]
  rw [e] at hb; exact hb

/-- f128 `As` to float64 (quotient rounded to 128 bits, then to 53): finite for every raw value, and within one part
    in 2^52 of the value — sharper: `2^-53·(1 + 2^-128) + 2^-128` -/
theorem f128_as_float_bound (m a : Int) (hm : Mult m) (ha : fits128 a) :
    (∃ s mm e, F128.asFloat m a = .fin s mm e) ∧
      |fval (F128.asFloat m a) - value m a| ≤ |value m a| * (1 / 2 ^ 53 + 1 / 2 ^ 181 + 1 / 2 ^ 128) ∧
      |fval (F128.asFloat m a) - value m a| ≤ |value m a| / 2 ^ 52 := by
  obtain ⟨s, mm, e, h1, h2⟩ := f128_as_val m a hm ha
  refine ⟨⟨s, mm, e, h1⟩, h2, le_trans h2 ?_⟩
  have h0 : (0 : ℚ) ≤ |value m a| := abs_nonneg _
  have k1 : (1 : ℚ) / 2 ^ 181 ≤ 1 / 2 ^ 55 :=
    one_div_le_one_div_of_le (by positivity) (pow_le_pow_right₀ (by norm_num) (by norm_num))
  have k2 : (1 : ℚ) / 2 ^ 128 ≤ 1 / 2 ^ 55 :=
    one_div_le_one_div_of_le (by positivity) (pow_le_pow_right₀ (by norm_num) (by norm_num))
  have k3 : (1 : ℚ) / 2 ^ 53 + 1 / 2 ^ 55 + 1 / 2 ^ 55 ≤ 1 / 2 ^ 52 := by norm_num
  have key : (1 : ℚ) / 2 ^ 53 + 1 / 2 ^ 181 + 1 / 2 ^ 128 ≤ 1 / 2 ^ 52 := by linarith
  calc |value m a| * (1 / 2 ^ 53 + 1 / 2 ^ 181 + 1 / 2 ^ 128) ≤ |value m a| * (1 / 2 ^ 52) :=
        mul_le_mul_of_nonneg_left key h0
    _ = |value m a| / 2 ^ 52 := by ring

/-- the literal bound of the property for every float64 conversion: max(one unit of the last place, 2^-52 relative) -/
theorem float_conversions_within_property_bound (m : Int) (hm : Mult m) :
    (∀ x r, F64.fromFloat m x = .ok r → |value m r - fval x| ≤ max (1 / (m : ℚ)) (|fval x| / 2 ^ 52)) ∧
    (∀ a, fits64 a → |fval (F64.asFloat m a) - value m a| ≤ max (1 / (m : ℚ)) (|value m a| / 2 ^ 52)) ∧
    (∀ a, fits128 a → |fval (F128.asFloat m a) - value m a| ≤ max (1 / (m : ℚ)) (|value m a| / 2 ^ 52)) := by
  have mono : ∀ v : ℚ, |v| / 2 ^ 53 ≤ |v| / 2 ^ 52 := fun v =>
    div_le_div_of_nonneg_left (abs_nonneg v) (by norm_num) (by norm_num)
  refine ⟨fun x r h => ?_, fun a ha => ?_, fun a ha => ?_⟩
  · exact le_trans (f64_from_float_bound m hm x r h) (max_le_max (le_refl _) (mono _))
  · exact le_trans (f64_as_float_bound m a hm ha).2 (le_trans (mono _) (le_max_right _ _))
  · exact le_trans (f128_as_float_bound m a hm ha).2.2 (le_max_right _ _)

/-! ## From / As for floats (float32 kinds)

A float32 is carried in the binary64 model as the datum of the same value (`Fixed.round32`, `Fixed.decode32`); the area
`fxfloatm` compares these paths bit for bit as well.  `IsF32 x`: `x` is a value of the float32 grid. -/

/-- f64 `As` to float32 (`ParseFloat(f.String(), 32)`): finite for every raw value, a float32 value, and within one
    part in 2^24 of the value (half a unit in the last place of a float32) -/
theorem f64_as_float32_bound (m a : Int) (hm : Mult m) (ha : fits64 a) :
    (∃ s mm e, F64.asFloat32 m a = .fin s mm e) ∧ IsF32 |fval (F64.asFloat32 m a)| ∧
      |fval (F64.asFloat32 m a) - value m a| ≤ |value m a| / 2 ^ 24 := by
  obtain ⟨s, mm, e, h1, h2, h3⟩ := f64_as32_val m a hm ha
  exact ⟨⟨s, mm, e, h1⟩, h2, h3⟩

/-- f128 `As` to float32 (`float32(f64)` of the float64 result: three roundings): finite for every raw value, a float32
    value, and within `2^-24 + 2^-52` (relative) of the value, hence within one part in 2^23 (one unit in the last place
    of a float32, the reading of the property's relative bound for the float32 kinds) -/
theorem f128_as_float32_bound (m a : Int) (hm : Mult m) (ha : fits128 a) :
    (∃ s mm e, F128.asFloat32 m a = .fin s mm e) ∧ IsF32 |fval (F128.asFloat32 m a)| ∧
      |fval (F128.asFloat32 m a) - value m a| ≤ |value m a| * (1 / 2 ^ 24 + 1 / 2 ^ 52) ∧
      |fval (F128.asFloat32 m a) - value m a| ≤ |value m a| / 2 ^ 23 := by
  obtain ⟨s, mm, e, h1, h2, h3⟩ := f128_as32_val m a hm ha
  refine ⟨⟨s, mm, e, h1⟩, h2, h3, le_trans h3 ?_⟩
  have h0 : (0 : ℚ) ≤ |value m a| := abs_nonneg _
  calc |value m a| * (1 / 2 ^ 24 + 1 / 2 ^ 52) ≤ |value m a| * (1 / 2 ^ 23) :=
        mul_le_mul_of_nonneg_left (by norm_num) h0
    _ = |value m a| / 2 ^ 23 := by ring

/-- f128 `From` of a float32 (the argument is converted exactly to float64 first, so the float64 bound applies to the
    decoded float32): less than one unit of the last place from the value, when not saturated -/
theorem f128_from_float32_bound (p : Nat × Int) (hp : p ∈ Facts.fixedConfigs) (n : Nat) (r : Int)
    (h : F128.fromFloat p.2 p.1 (decode32 n) = some r) (h1 : F128.minRaw < r) (h2 : r < F128.maxRaw) :
    |value p.2 r - fval (decode32 n)| < 1 / (p.2 : ℚ) :=
  (f128_from_float_bound p hp (decode32 n) r h h1 h2).2

/-- `float32(Multiplier[T]())`, the second factor of the float32 `From`: a positive finite float within
    `15/16 · 2^-25` (relative) of the multiplier in every configuration — exact up to D10, inexact from D11 on, where
    `10^D` has more than 24 significant bits (checked on the regenerated table) -/
theorem float32_multiplier (m : Int) (hm : Mult m) :
    ∃ mm me, round32 (decide (m < 0)) m.natAbs 1 = .fin false mm me ∧ mm ≠ 0 ∧
      |(mm : ℚ) * (2 : ℚ) ^ me - (m : ℚ)| ≤ (m : ℚ) * (15 / 2 ^ 29) := mult32_val m hm

/-- f64 `From` of a float32 (`Int[T](value * float32(Multiplier[T]()))`, the product formed in float32), sharp form.
    Hypothesis = domain, as for float64 (`.ok r`: the rounded product truncates into int64).  Two roundings to 24 bits
    (of the multiplier, then of the product) and a truncation: the raw result is less than one raw unit from `x · mult`,
    or — when the product is an integer of the float32 grid, so nothing is truncated — within one part in 2^23 of it.
    (The first alternative needs that the grid of the float32 product contains the integers and that the error of
    `float32(mult)` stays below half a grid unit: `float32_multiplier`.) -/
theorem f64_from_float32_sharp (m : Int) (hm : Mult m) (x : Flt) (r : Int) (h : F64.fromFloat32 m x = .ok r) :
    |(r : ℚ) - fval x * m| < 1 ∨ |(r : ℚ) - fval x * m| ≤ |fval x * m| / 2 ^ 23 :=
  f64_from32_val m hm x r h

/-- f64 `From` of a float32: off by at most one unit of the last decimal place or one part in 2^23 of the value (one
    unit in the last place of a float32), whichever is larger -/
theorem f64_from_float32_bound (m : Int) (hm : Mult m) (x : Flt) (r : Int) (h : F64.fromFloat32 m x = .ok r) :
    |value m r - fval x| ≤ max (1 / (m : ℚ)) (|fval x| / 2 ^ 23) := by
  have hmq : (0 : ℚ) < (m : ℚ) := by exact_mod_cast hm.pos
  have e : value m r - fval x = ((r : ℚ) - fval x * m) / m := by unfold value; field_simp
  rw [e, abs_div, abs_of_pos hmq]
  rcases f64_from32_val m hm x r h with h1 | h1
  · exact le_trans (div_le_div_of_nonneg_right (le_of_lt h1) (le_of_lt hmq)) (le_max_left _ _)
  · refine le_trans (div_le_div_of_nonneg_right h1 (le_of_lt hmq)) (le_trans (le_of_eq ?_) (le_max_right _ _))
    rw [abs_mul, abs_of_pos hmq]; field_simp

/-- the domain hypothesis of `f64_from_float32_sharp` is not vacuous in general: every finite float with
    `|x|·mult ≤ 2^62` is inside it -/
theorem f64_from_float32_defined (m : Int) (hm : Mult m) (s : Bool) (mx : Nat) (ex : Int)
    (hb : |fval (.fin s mx ex)| * m ≤ 2 ^ 62) : ∃ r, F64.fromFloat32 m (.fin s mx ex) = .ok r := by
  apply f64_from32_defined m hm s mx ex
  have h0 : (0 : ℚ) ≤ (mx : ℚ) * (2 : ℚ) ^ ex := mul_nonneg (Nat.cast_nonneg _) (le_of_lt (zp_pos ex))
  have e : |fval (.fin s mx ex)| = (mx : ℚ) * (2 : ℚ) ^ ex := by
    unfold fval; rw [abs_sgn_mul, abs_of_nonneg h0]
  rw [e] at hb; exact hb

/-- the bound of the property for every float32 conversion of both types, with the relative part read as 2^-23 (a
    float32 has 24 significant bits): max(one unit of the last place, one part in 2^23); f128 `From` of a float32 is
    `f128_from_float32_bound` (less than one unit) -/
theorem float32_conversions_within_property_bound (m : Int) (hm : Mult m) :
    (∀ x r, F64.fromFloat32 m x = .ok r → |value m r - fval x| ≤ max (1 / (m : ℚ)) (|fval x| / 2 ^ 23)) ∧
    (∀ a, fits64 a → |fval (F64.asFloat32 m a) - value m a| ≤ max (1 / (m : ℚ)) (|value m a| / 2 ^ 23)) ∧
    (∀ a, fits128 a → |fval (F128.asFloat32 m a) - value m a| ≤ max (1 / (m : ℚ)) (|value m a| / 2 ^ 23)) := by
  have mono : ∀ v : ℚ, |v| / 2 ^ 24 ≤ |v| / 2 ^ 23 := fun v =>
    div_le_div_of_nonneg_left (abs_nonneg v) (by norm_num) (by norm_num)
  refine ⟨fun x r h => f64_from_float32_bound m hm x r h, fun a ha => ?_, fun a ha => ?_⟩
  · exact le_trans (f64_as_float32_bound m a hm ha).2.2 (le_trans (mono _) (le_max_right _ _))
  · exact le_trans (f128_as_float32_bound m a hm ha).2.2.2 (le_max_right _ _)

/-! ## f64 and f128 agree on `As[float64]` (partial)

f64 rounds `raw/mult` once to 53 bits; f128 rounds it to 128 bits and then to 53.  The full statement is
`f64_f128_as_float_agree_Statement`; the check compares the two implementations bit for bit on common raw values on
every run (twin agreement, model-free).  Proved: the results are the same float or neighbours, and the cause a second
rounding could change the result is excluded — the 128-bit quotient is strictly on the same side as `raw/mult` of every
rounding boundary.  Not proved: the step from there to equal bits inside `GoSem.F64.roundRatN` (that its exponent search
and its half-way test only depend on the side of the boundaries, i.e. monotonicity of the rounding function). -/

/-- the full clause for `As[float64]`: the same float from both types on every common raw value (NOT proved; see above) -/
def f64_f128_as_float_agree_Statement : Prop :=
  ∀ m a : Int, Mult m → fits64 a → F64.asFloat m a = F128.asFloat m a

/-- partial, quantitative: the two results differ by at most `2^-52 + 2^-127` of the value — the same float or two
    neighbouring ones -/
theorem f64_f128_as_float_close (m a : Int) (hm : Mult m) (ha : fits64 a) :
    |fval (F64.asFloat m a) - fval (F128.asFloat m a)| ≤ |value m a| * (1 / 2 ^ 52 + 1 / 2 ^ 127) :=
  as_float_twin_close m a hm ha

/-- partial, the arithmetic core: a non-zero distance of `A/mult` from a point `M·2^t` of a binary grid is at least
    `min(1, 2^t)/mult` — decimal fractions with at most 16 places cannot come closer than that to a binary rounding
    boundary without being on it -/
theorem as_float_grid_gap (A M : Nat) (m : Int) (hm : Mult m) (t : Int)
    (hne : (A : ℚ) / m ≠ (M : ℚ) * (2 : ℚ) ^ t) :
    min 1 ((2 : ℚ) ^ t) / m ≤ |(A : ℚ) / m - (M : ℚ) * (2 : ℚ) ^ t| := grid_gap A M m hm.pos t hne

/-- partial, no double rounding: the 128-bit quotient that the model of `f128.As` forms (`F128.quo128`) lies strictly on
    the same side as `|raw|/mult` of every grid point `M·2^t` with `|raw|/mult < 2^(t+54)` (the 53-bit rounding
    boundaries of the binade of the value are such points) unless `|raw|/mult` IS that point — in which case the
    quotient is exact.  Hypothesis named: `fits64 a` (both types represent the raw value); the gap `2^t/10^16` exceeds the
    error `2^(t+54)/2^128` of the 128-bit rounding -/
theorem f128_as_quotient_keeps_side (m a : Int) (hm : Mult m) (ha : fits64 a) (h0 : a ≠ 0) (M : Nat) (t : Int)
    (hr : |value m a| < (2 : ℚ) ^ (t + 54)) (hne : |value m a| ≠ (M : ℚ) * (2 : ℚ) ^ t) :
    (((F128.quo128 a.natAbs m.toNat).1 : ℚ) / ((F128.quo128 a.natAbs m.toNat).2 : ℚ) < (M : ℚ) * (2 : ℚ) ^ t
      ↔ |value m a| < (M : ℚ) * (2 : ℚ) ^ t) ∧
    ((F128.quo128 a.natAbs m.toNat).1 : ℚ) / ((F128.quo128 a.natAbs m.toNat).2 : ℚ) ≠ (M : ℚ) * (2 : ℚ) ^ t :=
  quo128_same_side m a hm ha h0 M t hr hne

/-- instances of the unproved statement, decided: small, beyond 2^53, at the limits, next to a rounding midpoint -/
example : ∀ a ∈ [29, -29, 9007199254740993, 9223372036854775807, -9223372036854775808, 4503599627370497],
    ∀ m ∈ [10, 100, 10 ^ 16], (F64.asFloat m a).toBits = (F128.asFloat m a).toBits := by decide

/-! ## MaxSafeMultiply -/

/-- f64 `MaxSafeMultiply` is `Max / mult`, and every value up to it (in magnitude) can be scaled by the multiplier
    without overflow -/
theorem f64_maxSafeMultiply_spec (m : Int) (hm : Mult m) :
    F64.maxSafeMultiply m = F64.maxRaw.tdiv m ∧
    ∀ a : Int, |a| ≤ F64.maxSafeMultiply m → fits64 (a * m) := by
  have hm0 := hm.pos
  have hfit : fits64 F64.maxRaw := by simp [fits64, F64.maxRaw]
  have e : F64.maxSafeMultiply m = F64.maxRaw.tdiv m := by
    unfold F64.maxSafeMultiply F64.quo; exact wrap64_of_fits (fits64_tdiv hfit hm0)
  refine ⟨e, ?_⟩
  intro a ha
  rw [e] at ha
  have hb := (tdiv_mul_between F64.maxRaw m).1 (by simp [F64.maxRaw])
  have hq := (tdiv_between F64.maxRaw m hm0).1 (by simp [F64.maxRaw])
  obtain ⟨h1, h2⟩ := abs_le.mp ha
  have u1 : a * m ≤ F64.maxRaw.tdiv m * m := by nlinarith
  have u2 : -(F64.maxRaw.tdiv m * m) ≤ a * m := by nlinarith
  simp only [F64.maxRaw] at *
  unfold fits64; omega

/-- FINDING (not a clause of C03, recorded because the model reproduces it): `f128.MaxSafeMultiply` is computed with
    the *fixed-point* `Div`, whose intermediate `Max·mult` wraps, and is raw −1 in every configuration -/
example : ∀ p ∈ Facts.fixedConfigs, F128.maxSafeMultiply p.2 = some (-1) := by decide

/-! ## restatement on the rational values (`value m r = r / m`, Mathlib's ℚ)

`truncTo m x` = `x` truncated toward zero to D places (as a raw integer), `truncQ` = integer part toward zero,
`roundQ` = nearest integer with halves away from zero. -/

/-- `Mul` returns the exact rational product truncated toward zero to D places (both implementations) -/
theorem mul_rational (m a b : Int) (hm : Mult m) :
    (fits64 (a * b) → F64.mul m a b = truncTo m (value m a * value m b)) ∧
    (fits128 (a * b) → F128.mul m a b = truncTo m (value m a * value m b)) := by
  constructor <;> intro hp
  · rw [F64.mul_eq hm hp]; exact mul_value m a b hm.pos
  · rw [F128.mul_eq hm hp]; exact mul_value m a b hm.pos

/-- `Div` returns the exact rational quotient truncated toward zero to D places (both implementations) -/
theorem div_rational (m a b : Int) (hm : Mult m) (hb : b ≠ 0) :
    (fits64 (a * m) → fits64 ((a * m).tdiv b) → F64.div m a b = some (truncTo m (value m a / value m b))) ∧
    (fits128 b → fits128 (a * m) → fits128 ((a * m).tdiv b) →
      F128.div m a b = some (truncTo m (value m a / value m b))) := by
  constructor
  · intro hp hq; rw [F64.div_eq hb hp hq, div_value m a b hm.pos hb]
  · intro hbf hp hq; rw [F128.div_eq hbf hb hp hq, div_value m a b hm.pos hb]

/-- `Mod` returns `x − y·trunc(x/y)` on the rational values for ALL operands with a non-zero divisor (both
    implementations) -/
theorem mod_rational (m a b : Int) (hm : Mult m) (hb : b ≠ 0) :
    (fits64 a →
      ∃ r, F64.mod m a b = some r ∧ value m r = value m a - value m b * truncQ (value m a / value m b)) ∧
    (fits128 a → fits128 b →
      ∃ r, F128.mod m a b = some r ∧ value m r = value m a - value m b * truncQ (value m a / value m b)) := by
  constructor
  · intro ha; exact ⟨_, F64.mod_tmod ha hb, mod_value m a b hm.pos hb⟩
  · intro ha hbf; exact ⟨_, F128.mod_tmod ha hbf hb, mod_value m a b hm.pos hb⟩

/-- `Trunc`, `Ceil`, `Round` return the whole number toward zero, toward +∞, and nearest with halves away from
    zero of the rational value (f64) -/
theorem f64_rounding_rational (m a : Int) (hm : Mult m) (ha : fits64 a) :
    value m (F64.trunc m a) = truncQ (value m a) ∧
    (fits64 (fxCeil m a) → value m (F64.ceil m a) = ⌈value m a⌉) ∧
    (fits64 (fxRound m a) → value m (F64.round m a) = roundQ (value m a)) := by
  refine ⟨?_, ?_, ?_⟩
  · rw [F64.trunc_eq hm ha]; exact trunc_value m a hm.pos
  · intro hr; rw [F64.ceil_eq hm ha hr]; exact ceil_value m a hm.pos
  · intro hr; rw [F64.round_eq hm ha hr]; exact round_value m a hm.pos hm.even

/-- the same for f128 -/
theorem f128_rounding_rational (m a : Int) (hm : Mult m) (ha : fits128 a) :
    value m (F128.trunc m a) = truncQ (value m a) ∧
    (fits128 (fxCeil m a) → value m (F128.ceil m a) = ⌈value m a⌉) ∧
    (fits128 (fxRound m a) → value m (F128.round m a) = roundQ (value m a)) := by
  refine ⟨?_, ?_, ?_⟩
  · rw [F128.trunc_eq hm ha]; exact trunc_value m a hm.pos
  · intro hr; rw [F128.ceil_eq hm ha hr]; exact ceil_value m a hm.pos
  · intro hr; rw [F128.round_eq hm ha hr]; exact round_value m a hm.pos hm.even

/-- comparisons of raw integers are comparisons of the rational values -/
theorem order_rational (m a b : Int) (hm : Mult m) :
    (value m a < value m b ↔ a < b) ∧ (value m a = value m b ↔ a = b) :=
  ⟨value_lt_iff m a b hm.pos, value_eq_iff m a b hm.pos⟩

/-- integer `From` is exact on the values: the value of `From(v)` is `v` -/
theorem from_int_rational (m v : Int) (hm : Mult m) :
    (fits64 v → fits64 (v * m) → value m (F64.fromInt m v) = v) ∧
    (∀ k ∈ kinds, fitsKind k v → value m (F128.fromInt k m v) = v) := by
  have hmq : (m : ℚ) ≠ 0 := by exact_mod_cast (ne_of_gt hm.pos)
  constructor
  · intro hv hp; rw [F64.fromInt_eq hv hp]; unfold value; push_cast; field_simp
  · intro k hk hv; rw [F128.fromInt_eq hk hm hv]; unfold value; push_cast; field_simp

/-! ## CONTRAST: the hypotheses are needed, and the code without the mechanism violates the clause

`Fixed.Contrast.*` (Lemmas/FixedContrast.lean) transcribes, on the same machine-integer semantics, the bodies the
functions had before the `fix:` commits of `/repo` (the reverse patches `seeded/revert-c03-*`) and one-token variants
of the present bodies.  Each theorem exhibits operands inside the hypotheses of the property on which the variant
breaks the clause while the function the driver runs meets it. -/

/-- the intermediate-product hypothesis of `Mul` cannot be dropped for f64: operands and exact result fit 64 bits, the
    product does not, and f64 returns a wrong number where f128 (whose 128-bit product fits) returns the exact one -/
theorem mul_intermediate_hypothesis_needed :
    ∃ m a b, Mult m ∧ fits64 a ∧ fits64 b ∧ fits64 ((a * b).tdiv m) ∧ ¬ fits64 (a * b) ∧
      F64.mul m a b ≠ (a * b).tdiv m ∧ F128.mul m a b = (a * b).tdiv m :=
  ⟨100, 10 ^ 12, 10 ^ 8, ⟨(2, 100), by decide, rfl⟩, by decide, by decide, by decide, by decide, by decide, by decide⟩

/-- `Round` with the negative half tested strictly (the code before "Round: halves away from zero for negative values")
    sends −1.5 to −1: at distance exactly one half, toward zero — against `f64_round_spec`; both real `Round`s send it
    to −2 -/
theorem contrast_round_strict_half :
    ∃ m a, Mult m ∧ fits64 a ∧ fits64 (fxRound m a) ∧ roundStrict128 m a = roundStrict64 m a ∧
      2 * |a - roundStrict64 m a| = m ∧ ¬ |a| < |roundStrict64 m a| ∧
      |a| < |F64.round m a| ∧ |a| < |F128.round m a| :=
  ⟨100, -150, ⟨(2, 100), by decide, rfl⟩, by decide, by decide, by decide, by decide, by decide, by decide, by decide⟩

/-- `Ceil` without the sign test sends −1.5 to 0 — not below `a + 1`, against `f64_ceil_spec` -/
theorem contrast_ceil_without_sign_test :
    ∃ m a, Mult m ∧ fits64 a ∧ fits64 (fxCeil m a) ∧ ¬ ceilNoSign64 m a < a + m ∧ F64.ceil m a < a + m :=
  ⟨100, -150, ⟨(2, 100), by decide, rfl⟩, by decide, by decide, by decide, by decide⟩

/-- f64 `From` with the product formed in the source type (the code before "From multiplies in int64"): `From(int8(2))`
    at D2 is raw −56 instead of 200 — against `f64_from_int_exact` -/
theorem contrast_from_in_source_type :
    ∃ k ∈ kinds, ∃ m v, Mult m ∧ fits64 v ∧ fitsKind k v ∧ fits64 (v * m) ∧
      fromIntInSource64 k m v ≠ v * m ∧ F64.fromInt m v = v * m :=
  ⟨⟨8, true⟩, by decide, 100, 2, ⟨(2, 100), by decide, rfl⟩, by decide, by simp [fitsKind], by decide, by decide,
    by decide⟩

/-- f128 `From` without the unsigned case (every integer through `int64`): `From(uint64(2^63))` is negative — against
    `f128_from_int_exact` -/
theorem contrast_f128_from_without_unsigned_case :
    ∃ k ∈ kinds, ∃ m v, Mult m ∧ fitsKind k v ∧ fromIntSignedOnly128 m v ≠ v * m ∧ F128.fromInt k m v = v * m :=
  ⟨⟨64, false⟩, by decide, 100, 2 ^ 63, ⟨(2, 100), by decide, rfl⟩, by simp [fitsKind], by decide, by decide⟩

/-- `Mod` through `Mul`, `Div` and `Trunc` (the code before "Mod computes the remainder directly") is wrong as soon as
    `a·10^D` does not fit, although operands and result do: `10^16 mod 3` (D2, f64) and `10^36 mod 7` (D2, f128) —
    against `f64_mod_spec` / `f128_mod_spec` -/
theorem contrast_mod_via_div :
    (∃ m a b, Mult m ∧ fits64 a ∧ fits64 b ∧ b ≠ 0 ∧ modViaDiv64 m a b ≠ some (a - b * a.tdiv b) ∧
      F64.mod m a b = some (a - b * a.tdiv b)) ∧
    (∃ m a b, Mult m ∧ fits128 a ∧ fits128 b ∧ b ≠ 0 ∧ modViaDiv128 m a b ≠ some (a - b * a.tdiv b) ∧
      F128.mod m a b = some (a - b * a.tdiv b)) :=
  ⟨⟨100, 10 ^ 18, 300, ⟨(2, 100), by decide, rfl⟩, by decide, by decide, by decide, by decide, by decide⟩,
   ⟨100, 10 ^ 38, 700, ⟨(2, 100), by decide, rfl⟩, by decide, by decide, by decide, by decide, by decide⟩⟩

/-- `Mul` that scales down before multiplying (`f / mult * value`, no intermediate overflow) loses the fraction digits of
    the first factor: 1.5 · 2 = 2 — against `f64_mul_spec` -/
theorem contrast_mul_scale_first :
    ∃ m a b, Mult m ∧ fits64 (a * b) ∧ mulScaleFirst64 m a b ≠ (a * b).tdiv m ∧ F64.mul m a b = (a * b).tdiv m :=
  ⟨100, 150, 200, ⟨(2, 100), by decide, rfl⟩, by decide, by decide, by decide⟩

/-- `Round` written as "add half a unit away from zero, then `Trunc`" (seeded change `ind7-c03-b`) wraps for operands
    within half a unit of the limits although the exact result is representable: `Round(Max)` at D2 in f64 and
    `Round(Min)` in f128 — against `rounding_exact_whenever_representable`, which the running code meets there -/
theorem contrast_round_add_half_then_trunc :
    (∃ m a, Mult m ∧ fits64 a ∧ fits64 (fxRound m a) ∧ roundAddHalf64 m a ≠ fxRound m a ∧ F64.round m a = fxRound m a) ∧
    (∃ m a, Mult m ∧ fits128 a ∧ fits128 (fxRound m a) ∧ roundAddHalf128 m a ≠ fxRound m a ∧
      F128.round m a = fxRound m a) :=
  ⟨⟨100, F64.maxRaw, ⟨(2, 100), by decide, rfl⟩, by decide, by decide, by decide, by decide⟩,
   ⟨100, F128.minRaw, ⟨(2, 100), by decide, rfl⟩, by decide, by decide, by decide, by decide⟩⟩
/-! ## the hypotheses are satisfiable (non-vacuity) -/

example : Mult 100 := ⟨(2, 100), by decide, rfl⟩
example : AllFit64Bin 100 .mod (-700) 300 := by simp [AllFit64Bin, fits64]
example : F64.round 100 (-150) = -200 ∧ F128.round 100 (-150) = -200 ∧ F64.round 100 (-50) = -100 := by decide
example : F64.mod 100 (-700) 300 = some (-100) ∧ F128.mod 100 (-700) 300 = some (-100) := by decide
/-- the inputs of the repaired defect: D2, `From(10^16).Mod(From(3))` = 1 and `10^36 mod 7` = 1 (raw 100), where
    `a·10^D` does not fit -/
example : F64.mod 100 (10 ^ 18) 300 = some 100 ∧ F128.mod 100 (10 ^ 38) 700 = some 100 := by decide
/-- the float hypotheses are satisfiable: 0.29 (bits 3fd28f5c28f5c28f) at D2 is raw 28 in f64 (the rounded product is
    28.999999999999996) and raw 29 in f128 (the expansion 0.28999…98 rounded at three digits is 0.290) -/
example : F64.fromFloat 100 (GoSem.F64.decode 0x3fd28f5c28f5c28f) = .ok 28 ∧
    F128.fromFloat 100 2 (GoSem.F64.decode 0x3fd28f5c28f5c28f) = some 29 := by decide
example : (F64.asFloat 100 29).toBits = 0x3fd28f5c28f5c28f ∧ (F128.asFloat 100 29).toBits = 0x3fd28f5c28f5c28f := by
  decide

/-- the float32 paths on the same value: 0.29 as a float32 is 3e947ae1 from both types, and converts back to raw 29 -/
example : encode32 (F64.asFloat32 100 29) = 0x3e947ae1 ∧ encode32 (F128.asFloat32 100 29) = 0x3e947ae1 ∧
    F128.fromFloat 100 2 (decode32 0x3e947ae1) = some 29 := by decide

/-- f64 `From` of a float32 where `float32(mult)` is inexact: at D11 the second factor is 99999997952, and 0.29f (bits
    3e947ae1) becomes raw 28999999488 (the exact product is 28999999165.53…; the difference 322.47 is below the
    relative bound 28999999165.53 / 2^23 = 3457.07) -/
example : GoSem.F64.truncInt (round32 false (10 ^ 11) 1) = 99999997952 ∧
    F64.fromFloat32 (10 ^ 11) (decode32 0x3e947ae1) = .ok 28999999488 ∧
    F64.fromFloat32 100 (decode32 0x3e947ae1) = .ok 29 := by decide

/-- Fraction text on concrete values: −4 in the denominator moves its sign, a zero denominator prints 0 -/
example : F64.fracString false 100 150 (-400) = "-1.5/4" ∧ F128.fracString true 100 150 0 = "+0" ∧
    F64.fracString true 100 300 100 = "+3" ∧ render 100 (-50) = "-0.5" := by decide

end C03
