import Lemmas.EvalFull
import Generated.Facts
/-! # C09 — expression evaluation follows operator precedence and never crashes

Property theorems only.  The executable model is `Model/Eval.lean` (`Eval.parseLoop`, `processOperator`, `parseTop`,
`evalNode`, `evaluate` … — the definitions the driver `drv_c09` runs against `eval.Evaluator` on every check); helper
lemmas are in `Lemmas/EvalTotal.lean` (totality), `Lemmas/EvalTok.lean` (token machine, spine invariant),
`Lemmas/EvalLex.lean` (lexing bridge) and `Lemmas/EvalRender.lean`.  The operator tables are
`Facts.fixedOperators` / `Facts.floatOperators`, regenerated from the Go source on every run. -/
namespace C09
open Eval

/-- the operator table the evaluators are built with (regenerated from the source on every check) -/
def stdOps : List Op := opsOf Facts.fixedOperators
def floatOps : List Op := opsOf Facts.floatOperators

/-- the parenthesis entries of the table -/
def lpOp : Op := (stdOps.find? (fun o => o.sym == LP)).getD ⟨LP, 0, false, false⟩
def rpOp : Op := (stdOps.find? (fun o => o.sym == RP)).getD ⟨RP, 0, false, false⟩

/-- precedence of the first table entry with this symbol -/
def precOf (ops : List Op) (s : String) : Option Nat := (ops.find? (fun o => o.sym == symBytes s)).map (·.prec)

/-- clause "conventional precedence": `||` below `&&` below `==,!=` below `<,<=,>,>=` below `+,-` below `*,/,%`
    below `^`, on the regenerated fixed and float tables -/
theorem precedence_table :
    ∀ ops ∈ [opsOf Facts.fixedOperators, opsOf Facts.floatOperators],
      (∃ p1 p2 p3 p4 p5 p6 p7 : Nat,
        0 < p1 ∧ p1 < p2 ∧ p2 < p3 ∧ p3 < p4 ∧ p4 < p5 ∧ p5 < p6 ∧ p6 < p7 ∧
        precOf ops "||" = some p1 ∧ precOf ops "&&" = some p2 ∧
        precOf ops "==" = some p3 ∧ precOf ops "!=" = some p3 ∧
        precOf ops "<" = some p4 ∧ precOf ops "<=" = some p4 ∧ precOf ops ">" = some p4 ∧ precOf ops ">=" = some p4 ∧
        precOf ops "+" = some p5 ∧ precOf ops "-" = some p5 ∧
        precOf ops "*" = some p6 ∧ precOf ops "/" = some p6 ∧ precOf ops "%" = some p6 ∧
        precOf ops "^" = some p7) := by
  intro ops h
  simp only [List.mem_cons, List.not_mem_nil, or_false] at h
  rcases h with rfl | rfl
  · exact ⟨(precOf (opsOf Facts.fixedOperators) "||").getD 0, (precOf (opsOf Facts.fixedOperators) "&&").getD 0,
      (precOf (opsOf Facts.fixedOperators) "==").getD 0, (precOf (opsOf Facts.fixedOperators) "<").getD 0,
      (precOf (opsOf Facts.fixedOperators) "+").getD 0, (precOf (opsOf Facts.fixedOperators) "*").getD 0,
      (precOf (opsOf Facts.fixedOperators) "^").getD 0, by decide⟩
  · exact ⟨(precOf (opsOf Facts.floatOperators) "||").getD 0, (precOf (opsOf Facts.floatOperators) "&&").getD 0,
      (precOf (opsOf Facts.floatOperators) "==").getD 0, (precOf (opsOf Facts.floatOperators) "<").getD 0,
      (precOf (opsOf Facts.floatOperators) "+").getD 0, (precOf (opsOf Facts.floatOperators) "*").getD 0,
      (precOf (opsOf Facts.floatOperators) "^").getD 0, by decide⟩

/-- the fixed-point and floating-point evaluators use the same symbols, precedences and unary/binary capabilities, in
    the same order (so every theorem about `stdOps` is a theorem about both) -/
theorem float_table_eq : floatOps = stdOps := by decide

/-- the symbol lookup on the regenerated table: at the first byte of an operator symbol `nextOperator` finds that
    operator (the table order puts `!=` before `!`, `>=` before `>`, `<=` before `<`), unless the symbol is one of
    `! < >` and the next byte is `=` -/
theorem table_lookup (o : Op) (ho : o ∈ stdOps) (pre rest : Bytes) (hpre : NoE pre)
    (hnb : o.sym = RP ∨ rest.head? ≠ some 61) : firstMatch stdOps pre (o.sym ++ rest) = some o := by
  have hh := noE_hack pre hpre
  simp only [stdOps, opsOf, Facts.fixedOperators, List.map, symBytes] at ho
  simp [String.utf8EncodeChar] at ho
  rcases ho with rfl | rfl | rfl | rfl | rfl | rfl | rfl | rfl | rfl | rfl | rfl | rfl | rfl | rfl | rfl | rfl | rfl <;>
  · cases rest with
    | nil =>
      simp [firstMatch, stdOps, opsOf, Facts.fixedOperators, symBytes, String.utf8EncodeChar, Op.matchAt, MINUS, hh,
        List.find?, List.isPrefixOf]
    | cons c r =>
      simp [RP] at hnb
      simp [firstMatch, stdOps, opsOf, Facts.fixedOperators, symBytes, String.utf8EncodeChar, Op.matchAt, MINUS, hh,
        List.find?, List.isPrefixOf]
      try (have h61 : (61 == c) = false := by (simp; omega)
           simp [h61])

/-- the side conditions of the lexing layer hold for the regenerated table: no empty symbol, no symbol starts with a
    blank, `=` starts a symbol, no unary operator starts with `=`, no symbol ends in `e` -/
theorem table_lexable : LexTable stdOps where
  ne := symsNonempty_of_all _ (by decide)
  blank := by
    intro c hc
    simp [isScanSpace] at hc
    rcases hc with ((h | h) | h) | h <;> subst h <;> decide
  fm := table_lookup
  eq61 := by decide
  un61 := by decide
  lastE := by decide

theorem lpOp_eq : lpOp = ⟨LP, 0, false, false⟩ := by decide
theorem rpOp_eq : rpOp = ⟨RP, 0, false, false⟩ := by decide

/-- the side conditions of the call layer hold for the regenerated table: `(` and `)` are found at every `(` / `)`
    byte (they are the first two entries), and no other operator symbol contains `(`, `)`, `,` or `$` -/
theorem table_full : FullTable stdOps lpOp rpOp where
  toLexTable := table_lexable
  lpS := by decide
  rpS := by decide
  lpU := by decide
  lp40 := by
    intro pre t
    rw [lpOp_eq]
    simp [firstMatch, stdOps, opsOf, Facts.fixedOperators, symBytes, String.utf8EncodeChar, Op.matchAt, MINUS, LP,
      List.find?, List.isPrefixOf]
  rp41 := by
    intro pre t
    rw [rpOp_eq]
    simp [firstMatch, stdOps, opsOf, Facts.fixedOperators, symBytes, String.utf8EncodeChar, Op.matchAt, MINUS, RP,
      List.find?, List.isPrefixOf]
  lpM := by decide
  rpM := by decide
  symPlain := by
    intro o ho h1 h2
    apply plain_of_all
    have : stdOps.all (fun o => o.sym == LP || o.sym == RP ||
        o.sym.all (fun c => c != 40 && c != 41 && c != 44 && c != 36)) = true := by decide
    have := List.all_eq_true.mp this o ho
    simpa [h1, h2] using this
  unPlain := by
    intro o ho hu
    apply plain_of_all
    have : stdOps.all (fun o => !o.un || o.sym.all (fun c => c != 40 && c != 41 && c != 44 && c != 36)) = true := by
      decide
    have := List.all_eq_true.mp this o ho
    simpa [hu] using this

/-- **parse ∘ render = tree** (clauses "conventional precedence", "left-to-right associativity", "whitespace never
    changes the result", structure part), character level, for every expression built from atoms (non-empty runs of
    printable ASCII bytes that start no operator and do not end in `e`), the binary operators of the table, signs/
    negations before atoms and before parentheses, and parentheses, rendered with parentheses wherever precedence and
    left associativity require them (`WF`) and with ANY runs of blank/tab/newline/return between tokens: the model
    parser returns exactly the expression tree.  Restricted (hence `_partial`): no function calls, no exponent
    literals `1e-2`, no variables containing operator bytes. -/
theorem parse_render_partial (fns : List Bytes) (e : E) (hw : e.WF lpOp.prec) (hin : e.In stdOps fns)
    (ws : Nat → Bytes) (hws : ∀ k, Blank (ws k)) :
    parseTop stdOps fns (render ws 0 (e.toks lpOp rpOp)) = .ok (some e.toTree) :=
  parseTop_render stdOps fns table_lexable lpOp rpOp (by decide) (by decide) table_full.toParenTable
    e hw hin ws hws

/-- the same for the table of the floating-point evaluator -/
theorem parse_render_float_partial (fns : List Bytes) (e : E) (hw : e.WF lpOp.prec) (hin : e.In stdOps fns)
    (ws : Nat → Bytes) (hws : ∀ k, Blank (ws k)) :
    parseTop floatOps fns (render ws 0 (e.toks lpOp rpOp)) = .ok (some e.toTree) := by
  rw [float_table_eq]; exact parse_render_partial fns e hw hin ws hws

/-- the part of the full statement still open — function calls: for a function name `f` of the table and well-formed
    argument expressions in any layout, `f ( a₁ , … , aₙ )` parses to the call node holding the raw argument text
    (captured by parenthesis counting), and `NextArg` splits that text back into the renderings of the arguments
    (which a fresh evaluator then parses by `parse_render_partial`).  Exponent literals such as `1e-2` as atoms are
    the other missing piece.  Both are exercised on every run by the `wf` oracle and the `struct` differential
    stream (nested calls, three layouts), not proved. -/
def parse_render_Statement : Prop :=
  ∀ (fns : List Bytes) (f : Bytes) (args : List E) (ws : Nat → Bytes),
    f ∈ fns → AtomOK stdOps f → (∀ k, Blank (ws k)) →
    (∀ a ∈ args, a.WF lpOp.prec ∧ a.In stdOps ∧ (44 : Nat) ∉ render ws 0 (a.toks lpOp rpOp)) →
    let texts := args.map (fun a => render ws 0 (a.toks lpOp rpOp))
    parseTop stdOps fns (f ++ LP ++ joinComma texts ++ RP) = .ok (some (.func none f (joinComma texts))) ∧
    (args ≠ [] → splitArgs ((joinComma texts).length + 1) (joinComma texts) = texts)

/-- token level, any operator table: the two-stack machine (the model's own `pushOperand`, `pushEntry`, `closeParen`,
    `pushBinary`, `finish`) run on the tokens of a well-formed expression ends with exactly its tree -/
theorem parse_toks (lp rp : Op) (hlp : lp.sym = LP) (hlu : lp.un = false) (hrp : rp.sym = RP)
    (e : E) (hw : e.WF lp.prec) : parseToks (e.toks lp rp) = .ok (some e.toTree) :=
  Eval.parse_toks lp rp hlp hlu hrp e hw

/-- clause "a sign or negation written before an operand applies to that operand only": `a o u b` parses to
    `a o (u b)` and `u a o b` to `(u a) o b`, for atoms `a`, `b`, a binary operator `o` and a unary operator `u` of
    the table, in every blank layout -/
theorem unary_applies_to_operand_only (fns : List Bytes) (a b : Bytes) (o u : Op) (ha : AtomOK stdOps a)
    (hb : AtomOK stdOps b) (ho : o ∈ stdOps) (hu : u ∈ stdOps) (huu : u.un = true) (hoL : o.sym ≠ LP)
    (hoR : o.sym ≠ RP) (hp : lpOp.prec < o.prec) (ws : Nat → Bytes) (hws : ∀ k, Blank (ws k)) :
    parseTop stdOps fns (render ws 0 [.opd a, .sym o, .sym u, .opd b]) =
        .ok (some (.tree (.operand none a) (.operand (some u) b) (some o) none)) ∧
    parseTop stdOps fns (render ws 0 [.sym u, .opd a, .sym o, .opd b]) =
        .ok (some (.tree (.operand (some u) a) (.operand none b) (some o) none)) := by
  constructor
  · exact parse_render_partial fns (.bin o (.atom none a) (.atom (some u) b))
      ⟨hoL, hoR, hp, trivial, huu, trivial, trivial⟩
      ⟨ho, ⟨(by intro v hv; cases hv), ha⟩, ⟨(by intro v hv; cases hv; exact ⟨hu, huu⟩), hb⟩⟩ ws hws
  · exact parse_render_partial fns (.bin o (.atom (some u) a) (.atom none b))
      ⟨hoL, hoR, hp, huu, trivial, trivial, trivial⟩
      ⟨ho, ⟨(by intro v hv; cases hv; exact ⟨hu, huu⟩), ha⟩, ⟨(by intro v hv; cases hv), hb⟩⟩ ws hws

/-- clause "for every input string whatsoever … without panicking" (parser part): for EVERY byte list the model of
    `parse`, of the final reduction loop and of the stack accesses never reaches a Go index-out-of-range and never
    fails to advance; any table without an empty symbol -/
theorem parse_no_panic (ops : List Op) (fns : List Bytes) (h : SymsNonempty ops) (s : Bytes) :
    parse ops fns s ≠ .panic ∧ parseTop ops fns s ≠ .panic :=
  ⟨Eval.parse_no_panic ops fns h s, parseTop_no_panic ops fns h s⟩

/-- … in particular for the regenerated fixed and float tables -/
theorem parse_no_panic_std (fns : List Bytes) (s : Bytes) :
    parseTop stdOps fns s ≠ .panic ∧ parseTop floatOps fns s ≠ .panic := by
  have h1 : SymsNonempty stdOps := symsNonempty_of_all _ (by decide)
  refine ⟨parseTop_no_panic _ _ h1 s, ?_⟩
  rw [float_table_eq]; exact parseTop_no_panic _ _ h1 s

/-- clause "returns a value or an error": parsing every byte list yields a tree (or the empty stack) or an error -/
theorem parse_total (fns : List Bytes) (s : Bytes) :
    (∃ t, parseTop stdOps fns s = .ok t) ∨ parseTop stdOps fns s = .err := by
  have := (parse_no_panic_std fns s).1
  cases h : parseTop stdOps fns s with
  | ok t => exact Or.inl ⟨t, rfl⟩
  | err => exact Or.inr rfl
  | panic => exact absurd h this

/-- clause "in bounded time" (scan loop): every iteration of the loop of `parse` that continues does so with a
    strictly shorter rest of the input, so the loop makes at most `len(expression)` iterations; the inner reduction
    loops are bounded by the height of the operator stack (`reduceWhile_no_panic`, `finish_no_panic`: fuel = height
    + 1 is never exhausted) and the argument capture by the rest of the input (`captureArgs_no_panic`) -/
theorem scan_index_increases (ops : List Op) (fns : List Bytes) (hops : SymsNonempty ops) (pre : Bytes) (c : Nat)
    (t : Bytes) (st : St) (hv : Bool) (un : Option Op) (p r : Bytes) (st' : St) (hv' : Bool) (un' : Option Op)
    (h : scanStep ops fns pre c t st hv un = .cont p r st' hv' un') : r.length < (c :: t).length :=
  scanStep_progress ops fns hops pre c t st hv un p r st' hv' un' h

/-- the fuel of the inner loops (operator-stack height + 1, rest of the input + 1) is never exhausted -/
theorem inner_loops_bounded (ops : List Op) (p : OpEntry → Bool) (st : St) (parens : Nat) (pre rest acc : Bytes) :
    reduceWhile p (st.ops.length + 1) st ≠ .panic ∧ finish (st.ops.length + 1) st ≠ .panic ∧
    captureArgs ops (rest.length + 1) parens pre rest acc ≠ .panic :=
  ⟨reduceWhile_no_panic p _ st (Nat.lt_succ_self _), finish_no_panic _ st (Nat.lt_succ_self _),
   captureArgs_no_panic ops _ parens pre rest acc (Nat.lt_succ_self _)⟩

/-- evaluation of a parsed tree never dereferences a nil operator: every tree the parser returns is well-shaped, and
    `evaluateOperand` (with symbolic operators) on a well-shaped tree does not panic as long as the evaluation of
    function arguments (`ev`, a nested `Evaluate`) and variable substitution (`rv`) do not -/
theorem eval_no_panic_partial (ops : List Op) (fns : List Bytes) (s : Bytes) (n : Node)
    (h : parseTop ops fns s = .ok (some n)) (ev rv : Bytes → R Bytes) (hev : ∀ s, ev s ≠ .panic)
    (hrv : ∀ s, rv s ≠ .panic) : evalNode ev rv n ≠ .panic :=
  evalNode_no_panic ev rv hev hrv n (parseTop_ok_node ops fns s n h)

/-- the full robustness statement for `Evaluate` with symbolic operators, still open: it needs that resolvers return
    text without `$` (otherwise the Go loop in `replaceVariables` does not terminate either) and a bound relating the
    nesting of `EvaluateNew` through function arguments to the input length -/
def evaluate_no_panic_Statement : Prop :=
  ∀ (fns : List Bytes) (resolve : Bytes → Bytes) (s : Bytes), (∀ n, (36 : Nat) ∉ resolve n) →
    (∀ n, (resolve n).length ≤ n.length + 1) → evaluate stdOps fns (some resolve) (s.length + 1) s ≠ .panic

/-- clause "evaluating the expression tree": evaluation of the tree of an expression applies each binary operator once
    to the values of its two operands (left first) and each sign to the value of its operand — with operators that
    bracket their arguments the value is the fully bracketed expression -/
theorem eval_tree (ev : Bytes → R Bytes) (resolve : Option (Bytes → Bytes)) (e : E) (he : e.Evaluable) :
    evalNode ev (replaceVariables resolve) e.toTree = .ok (some e.str) :=
  Eval.eval_tree ev resolve e he

/-- end to end, about the function the driver runs for the structure pass: `Evaluate` with symbolic operators on ANY
    blank layout of a well-formed expression returns its fully bracketed form (so the value is determined by the
    expression tree, not by the layout) -/
theorem evaluate_render_partial (fns : List Bytes) (resolve : Option (Bytes → Bytes)) (e : E) (hw : e.WF lpOp.prec)
    (hin : e.In stdOps fns) (he : e.Evaluable) (ws : Nat → Bytes) (hws : ∀ k, Blank (ws k)) (depth : Nat) :
    evaluate stdOps fns resolve (depth + 1) (render ws 0 (e.toks lpOp rpOp)) = .ok e.str :=
  evaluate_render stdOps fns resolve table_lexable lpOp rpOp (by decide) (by decide) table_full.toParenTable
    e hw hin he ws hws depth

/-- clause "whitespace never changes the result" (structure part): two layouts of the same expression evaluate alike -/
theorem whitespace_irrelevant_partial (fns : List Bytes) (resolve : Option (Bytes → Bytes)) (e : E)
    (hw : e.WF lpOp.prec) (hin : e.In stdOps fns) (he : e.Evaluable) (ws₁ ws₂ : Nat → Bytes) (h₁ : ∀ k, Blank (ws₁ k))
    (h₂ : ∀ k, Blank (ws₂ k)) (d₁ d₂ : Nat) :
    evaluate stdOps fns resolve (d₁ + 1) (render ws₁ 0 (e.toks lpOp rpOp)) =
      evaluate stdOps fns resolve (d₂ + 1) (render ws₂ 0 (e.toks lpOp rpOp)) := by
  rw [evaluate_render_partial fns resolve e hw hin he ws₁ h₁ d₁, evaluate_render_partial fns resolve e hw hin he ws₂ h₂ d₂]

/-- `NextArg` splits at the first comma of an argument text whose first argument has no parentheses or commas (the
    general statement — split at the first comma outside parentheses — is part of `parse_render_Statement`) -/
theorem nextArg_split_partial (a b : Bytes) (ha : ∀ c ∈ a, c ≠ 40 ∧ c ≠ 41 ∧ c ≠ 44) :
    nextArg (a ++ 44 :: b) = (a, b) := by
  simp [nextArg, nextArgGo_flat a b ha]

/-- clause "a reused Evaluator gives the same answers as a fresh one": `parse` resets both stacks, so the result of
    `Evaluate` does not depend on what the evaluator held before -/
theorem reuse_eq_fresh (ops : List Op) (fns : List Bytes) (resolve : Option (Bytes → Bytes)) (old : St) (s : Bytes) :
    (evaluateReuse ops fns resolve old s).2 = (evaluateReuse ops fns resolve {} s).2 := rfl

/-! non-vacuity: the hypotheses of `parse_render_partial` are met by `1 - -2 * (3 + 4)` -/
example : ∃ e : E, e.WF lpOp.prec ∧ e.In stdOps [] ∧ e.toTree ≠ .nil := by
  have hm : ⟨symBytes "-", 50, true, true⟩ ∈ stdOps := by decide
  have ht : ⟨symBytes "*", 60, true, false⟩ ∈ stdOps := by decide
  have hpl : ⟨symBytes "+", 50, true, true⟩ ∈ stdOps := by decide
  have a1 : AtomOK stdOps [49] := ⟨by decide, by decide, by decide⟩
  have a2 : AtomOK stdOps [50] := ⟨by decide, by decide, by decide⟩
  have a3 : AtomOK stdOps [51] := ⟨by decide, by decide, by decide⟩
  have a4 : AtomOK stdOps [52] := ⟨by decide, by decide, by decide⟩
  refine ⟨.bin ⟨symBytes "-", 50, true, true⟩ (.atom none [49])
      (.bin ⟨symBytes "*", 60, true, false⟩ (.atom (some ⟨symBytes "-", 50, true, true⟩) [50])
        (.paren none (.bin ⟨symBytes "+", 50, true, true⟩ (.atom none [51]) (.atom none [52])))), ?_, ?_, ?_⟩
  · simp only [E.WF, E.minPrec, geP, gtP, unOK]; decide
  · refine ⟨hm, ⟨(by intro v hv; cases hv), a1⟩, ht, ⟨?_, a2⟩, ⟨(by intro v hv; cases hv), ?_⟩⟩
    · intro v hv; cases hv; exact ⟨hm, rfl⟩
    · exact ⟨hpl, ⟨(by intro v hv; cases hv), a3⟩, ⟨(by intro v hv; cases hv), a4⟩⟩
  · simp [E.toTree]

end C09
