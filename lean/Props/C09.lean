import Lemmas.EvalFull
import Lemmas.EvalBound
import Lemmas.EvalVars
import Lemmas.EvalFixedTree
import Lemmas.EvalFixedBound
import Lemmas.EvalFloatTree
import Lemmas.EvalFloatBound
import Lemmas.EvalSoftFloat
import Lemmas.EvalState
import Lemmas.EvalLeftover
import Lemmas.Fixed64
import Generated.Facts
/-! # C09 — expression evaluation follows operator precedence and never crashes

Property theorems only.  The executable model is `Model/Eval.lean` (`Eval.parseLoop`, `processOperator`, `parseTop`,
`evalNode`, `evaluate` … — the definitions the driver `drv_c09` runs against `eval.Evaluator` on every check); helper
lemmas are in `Lemmas/EvalTotal.lean` (totality), `Lemmas/EvalTok.lean` (token machine, spine invariant),
`Lemmas/EvalLex.lean` (lexing bridge), `Lemmas/EvalCall.lean` (call capture, `NextArg`), `Lemmas/EvalRender.lean`,
`Lemmas/EvalFull.lean` (the full language `X`), `Lemmas/EvalVars.lean` (variables), `Lemmas/EvalBound.lean`
(no panic for `Evaluate`), `Lemmas/EvalFixedTree.lean` / `Lemmas/EvalFixedBound.lean` (values of the fixed evaluator,
`Model/EvalFixed.lean`), `Lemmas/EvalFloatTree.lean` / `Lemmas/EvalFloatBound.lean` (values of the float evaluators,
`Model/EvalFloat.lean`) and `Lemmas/EvalSoftFloat.lean` (the IEEE-754 arithmetic `Model/EvalSoftFloat.lean`).  The
operator tables are
`Facts.fixedOperators` / `Facts.floatOperators`, regenerated from the Go source on every run. -/
namespace C09
open Eval

/-- the operator table the evaluators are built with (regenerated from the source on every check) -/
def stdOps : List Op := opsOf Facts.fixedOperators
def floatOps : List Op := opsOf Facts.floatOperators

/-- the parenthesis entries of the table -/
def lpOp : Op := (stdOps.find? (fun o => o.sym == LP)).getD ⟨LP, 0, false, false⟩
def rpOp : Op := (stdOps.find? (fun o => o.sym == RP)).getD ⟨RP, 0, false, false⟩

/-- the first table entry with this symbol: examples and contrasts below speak about the entries of the REGENERATED
    table, whatever numbers it carries (a retuning of the precedence levels that keeps their order changes nothing) -/
def opOf (s : String) : Op := (stdOps.find? (fun o => o.sym == symBytes s)).getD ⟨symBytes s, 0, false, false⟩

/-- precedence of the first table entry with this symbol -/
def precOf (ops : List Op) (s : String) : Option Nat := (ops.find? (fun o => o.sym == symBytes s)).map (·.prec)

/-- clause "conventional precedence": `||` below `&&` below `==,!=` below `<,<=,>,>=` below `+,-` below `*,/,%`
    below `^`, on the regenerated fixed and float tables -/
theorem precedence_table :
    ∀ ops ∈ [opsOf Facts.fixedOperators, opsOf Facts.floatOperators],
      (∃ p1 p2 p3 p4 p5 p6 p7 : Nat,
        0 < p1 ∧ p1 < p2 ∧ p2 < p3 ∧ p3 < p4 ∧ p4 < p5 ∧ p5 < p6 ∧ p6 < p7 ∧
        precOf ops "||" = some p1 ∧ precOf ops "&&" = some p2 ∧
        precOf ops "==" = some p3 ∧ precOf ops "!=" = some p3 ∧
        precOf ops "<" = some p4 ∧ precOf ops "<=" = some p4 ∧ precOf ops ">" = some p4 ∧ precOf ops ">=" = some p4 ∧
        precOf ops "+" = some p5 ∧ precOf ops "-" = some p5 ∧
        precOf ops "*" = some p6 ∧ precOf ops "/" = some p6 ∧ precOf ops "%" = some p6 ∧
        precOf ops "^" = some p7) := by
  intro ops h
  simp only [List.mem_cons, List.not_mem_nil, or_false] at h
  rcases h with rfl | rfl
  · exact ⟨(precOf (opsOf Facts.fixedOperators) "||").getD 0, (precOf (opsOf Facts.fixedOperators) "&&").getD 0,
      (precOf (opsOf Facts.fixedOperators) "==").getD 0, (precOf (opsOf Facts.fixedOperators) "<").getD 0,
      (precOf (opsOf Facts.fixedOperators) "+").getD 0, (precOf (opsOf Facts.fixedOperators) "*").getD 0,
      (precOf (opsOf Facts.fixedOperators) "^").getD 0, by decide⟩
  · exact ⟨(precOf (opsOf Facts.floatOperators) "||").getD 0, (precOf (opsOf Facts.floatOperators) "&&").getD 0,
      (precOf (opsOf Facts.floatOperators) "==").getD 0, (precOf (opsOf Facts.floatOperators) "<").getD 0,
      (precOf (opsOf Facts.floatOperators) "+").getD 0, (precOf (opsOf Facts.floatOperators) "*").getD 0,
      (precOf (opsOf Facts.floatOperators) "^").getD 0, by decide⟩

/-- what the reduction loop of `processOperator` relies on (and ind7-c09-a broke by numbering the levels from 0): every
    binary operator of the regenerated tables binds strictly tighter than the parenthesis entries, whose precedence is
    the sentinel a reduction never passes.  Like `precedence_table` this is about the ORDER of the regenerated numbers,
    not about the numbers: a retuning `10..70 → 1..7` satisfies both (control-c09-4), `0..6` violates this one -/
theorem binary_above_paren_sentinel :
    ∀ ops ∈ [opsOf Facts.fixedOperators, opsOf Facts.floatOperators], ∀ o ∈ ops, o.bin = true →
      ∀ p ∈ ops, (p.sym = LP ∨ p.sym = RP) → p.prec < o.prec := by decide

/-- the fixed-point and floating-point evaluators use the same symbols, precedences and unary/binary capabilities, in
    the same order (so every theorem about `stdOps` is a theorem about both) -/
theorem float_table_eq : floatOps = stdOps := by decide

/-- the symbol lookup on the regenerated table: at the first byte of an operator symbol `nextOperator` finds that
    operator (the table order puts `!=` before `!`, `>=` before `>`, `<=` before `<`), unless the symbol is one of
    `! < >` and the next byte is `=` -/
theorem table_lookup (o : Op) (ho : o ∈ stdOps) (pre rest : Bytes) (hpre : expHack pre = false)
    (hnb : o.sym = RP ∨ rest.head? ≠ some 61) : firstMatch stdOps pre (o.sym ++ rest) = some o := by
  have hh := hpre
  simp only [stdOps, opsOf, Facts.fixedOperators, List.map, symBytes] at ho
  simp [String.utf8EncodeChar] at ho
  rcases ho with rfl | rfl | rfl | rfl | rfl | rfl | rfl | rfl | rfl | rfl | rfl | rfl | rfl | rfl | rfl | rfl | rfl <;>
  · cases rest with
    | nil =>
      simp [firstMatch, stdOps, opsOf, Facts.fixedOperators, symBytes, String.utf8EncodeChar, Op.matchAt, MINUS, PLUS, hh,
        List.find?, List.isPrefixOf]
    | cons c r =>
      simp [RP] at hnb
      simp [firstMatch, stdOps, opsOf, Facts.fixedOperators, symBytes, String.utf8EncodeChar, Op.matchAt, MINUS, PLUS, hh,
        List.find?, List.isPrefixOf]
      try (have h61 : (61 == c) = false := by (simp; omega)
           simp [h61])

/-- the side conditions of the lexing layer hold for the regenerated table: no empty symbol, no symbol starts with a
    blank, `=` starts a symbol, no unary operator starts with `=`, no symbol ends in `e`, `-` is the only symbol starting with `-` -/
theorem table_lexable : LexTable stdOps where
  ne := symsNonempty_of_all _ (by decide)
  blank := by
    intro c hc
    simp [isScanSpace] at hc
    rcases hc with ((h | h) | h) | h <;> subst h <;> decide
  minus := by decide
  plus := by decide
  fm := table_lookup
  eq61 := by decide
  un61 := by decide
  lastStop := by decide

/-- the side conditions of the call layer hold for the regenerated table: `(` and `)` are found at every `(` / `)`
    byte (they are the first two entries), and no other operator symbol contains `(`, `)`, `,` or `$` -/
theorem table_full : FullTable stdOps lpOp rpOp where
  toLexTable := table_lexable
  lpS := by decide
  rpS := by decide
  lpU := by decide
  lp40 := by
    intro pre t
    rw [show lpOp = ⟨LP, 0, false, false⟩ by decide]
    simp [firstMatch, stdOps, opsOf, Facts.fixedOperators, symBytes, String.utf8EncodeChar, Op.matchAt, MINUS, PLUS, LP,
      List.find?, List.isPrefixOf]
  rp41 := by
    intro pre t
    rw [show rpOp = ⟨RP, 0, false, false⟩ by decide]
    simp [firstMatch, stdOps, opsOf, Facts.fixedOperators, symBytes, String.utf8EncodeChar, Op.matchAt, MINUS, PLUS, RP,
      List.find?, List.isPrefixOf]
  lpM := by decide
  rpM := by decide
  symPlain := by
    intro o ho h1 h2
    apply plain_of_all
    have : stdOps.all (fun o => o.sym == LP || o.sym == RP ||
        o.sym.all (fun c => c != 40 && c != 41 && c != 44 && c != 36)) = true := by decide
    have := List.all_eq_true.mp this o ho
    simpa [h1, h2] using this
  unPlain := by
    intro o ho hu
    apply plain_of_all
    have : stdOps.all (fun o => !o.un || o.sym.all (fun c => c != 40 && c != 41 && c != 44 && c != 36)) = true := by
      decide
    have := List.all_eq_true.mp this o ho
    simpa [hu] using this

/-- **parse ∘ render = tree** (clauses "conventional precedence", "left-to-right associativity", "whitespace never
    changes the result", structure part), character level, for every expression built from atoms (non-empty runs of
    printable ASCII bytes that start no operator and do not end in an unfinished exponent literal such as `2e`), the binary operators of the table, signs/
    negations before atoms and before parentheses, and parentheses, rendered with parentheses wherever precedence and
    left associativity require them (`WF`) and with ANY runs of blank/tab/newline/return between tokens: the model
    parser returns exactly the expression tree.  Token-level form of `parse_render` below (`_partial`: a call is
    one token `f b ( text )` whose argument text is only required to be balanced, `E.In`). -/
theorem parse_render_partial (fns : List Bytes) (e : E) (hw : e.WF lpOp.prec) (hin : e.In stdOps fns)
    (ws : Nat → Bytes) (hws : ∀ k, Blank (ws k)) :
    parseTop stdOps fns (render ws 0 (e.toks lpOp rpOp)) = .ok (some e.toTree) :=
  parseTop_render stdOps fns table_lexable lpOp rpOp (by decide) (by decide) table_full.toParenTable
    e hw hin ws hws

/-- the same for the table of the floating-point evaluator -/
theorem parse_render_float_partial (fns : List Bytes) (e : E) (hw : e.WF lpOp.prec) (hin : e.In stdOps fns)
    (ws : Nat → Bytes) (hws : ∀ k, Blank (ws k)) :
    parseTop floatOps fns (render ws 0 (e.toks lpOp rpOp)) = .ok (some e.toTree) := by
  rw [float_table_eq]; exact parse_render_partial fns e hw hin ws hws

/-- **parse ∘ render = tree for the full expression language** (clauses "conventional precedence", "left-to-right
    associativity", "whitespace never changes the result", structure part): for every expression `e : X` built from
    atoms (numeric literals incl. exponent literals `1.2e-2`, variables `$x`: non-empty runs of printable ASCII that
    start no operator except an exponent `-`, not ending in an unfinished exponent literal such as `2e`; names like `$e`,
    `$rate`, `$a1e` are atoms), function calls `f ( a₁ , … , aₙ )` with `f` a
    defined function name and arbitrarily nested arguments, the binary operators of the table, signs/negations before
    atoms, calls and parentheses, and parentheses — written with parentheses wherever precedence and left
    associativity require them (`X.WF`) and with ANY runs of blank/tab/newline/return between ANY two tokens (top
    level: `ws`; between a function name and `(`, around commas and inside arguments: stored in the call node) —
    the model parser returns exactly the expression tree; a call node holds the name and the raw argument text. -/
theorem parse_render (fns : List Bytes) (e : X) (hw : e.WF stdOps fns lpOp.prec) (ws : Nat → Bytes)
    (hws : ∀ k, Blank (ws k)) :
    parseTop stdOps fns (e.render lpOp rpOp ws) = .ok (some (e.tree lpOp rpOp)) :=
  X.parse_render stdOps fns lpOp rpOp table_full e hw ws hws

/-- the same for the table of the floating-point evaluator -/
theorem parse_render_float (fns : List Bytes) (e : X) (hw : e.WF stdOps fns lpOp.prec) (ws : Nat → Bytes)
    (hws : ∀ k, Blank (ws k)) :
    parseTop floatOps fns (e.render lpOp rpOp ws) = .ok (some (e.tree lpOp rpOp)) := by
  rw [float_table_eq]; exact parse_render fns e hw ws hws

/-- mechanism "function call capture by parenthesis matching", for EVERY text: the loop of `processFunction` stops
    exactly at the first `)` byte that brings the count of `(` / `)` bytes to zero — all other operators found on the
    way are ignored (`parenSplit` is that byte count) -/
theorem call_capture (fuel d : Nat) (pre rest acc : Bytes) (hd : 1 ≤ d) (hf : rest.length < fuel) :
    captureArgs stdOps fuel d pre rest acc =
      (match parenSplit d rest with
       | some (a, r) => .ok (acc ++ a, rpOp, a.reverse ++ pre, 41 :: r)
       | none => .err) :=
  captureArgs_parenSplit stdOps table_lexable.ne lpOp rpOp table_full.toParenTable fuel d pre rest acc hd hf

/-- … and on a rendered argument list it returns exactly that list: rendered arguments are balanced -/
theorem call_capture_rendered (fns : List Bytes) (args : XL) (hw : args.WF stdOps fns lpOp.prec) (pre rest : Bytes) :
    captureArgs stdOps ((joinComma (args.texts lpOp rpOp) ++ 41 :: rest).length + 1) 1 pre
        (joinComma (args.texts lpOp rpOp) ++ 41 :: rest) [] =
      .ok (joinComma (args.texts lpOp rpOp), rpOp, (joinComma (args.texts lpOp rpOp)).reverse ++ pre, 41 :: rest) := by
  rw [call_capture _ 1 _ _ _ (Nat.le_refl 1) (Nat.lt_succ_self _),
    bal_close _ (XL.texts_bal stdOps fns lpOp rpOp table_full args hw) rest]
  simp

/-- mechanism "argument splitting for functions": `NextArg`, iterated the way the functions do, splits the argument
    text of a rendered call at exactly the commas that separate its arguments (commas inside nested calls and
    parentheses do not split) -/
theorem nextArg_split (fns : List Bytes) (args : XL) (hw : args.WF stdOps fns lpOp.prec) (he : args.Ev) :
    splitArgs ((joinComma (args.texts lpOp rpOp)).length + 1) (joinComma (args.texts lpOp rpOp)) =
      args.texts lpOp rpOp :=
  XL.splitArgs_texts stdOps fns lpOp rpOp table_full args hw he _ (Nat.lt_succ_self _)

/-- token level, any operator table: the two-stack machine (the model's own `pushOperand`, `pushEntry`, `closeParen`,
    `pushBinary`, `finish`) run on the tokens of a well-formed expression ends with exactly its tree -/
theorem parse_toks (lp rp : Op) (hlp : lp.sym = LP) (hlu : lp.un = false) (hrp : rp.sym = RP)
    (e : E) (hw : e.WF lp.prec) : parseToks (e.toks lp rp) = .ok (some e.toTree) :=
  Eval.parse_toks lp rp hlp hlu hrp e hw

/-- clause "a sign or negation written before an operand applies to that operand only": `a o u b` parses to
    `a o (u b)` and `u a o b` to `(u a) o b`, for atoms `a`, `b`, a binary operator `o` and a unary operator `u` of
    the table, in every blank layout -/
theorem unary_applies_to_operand_only (fns : List Bytes) (a b : Bytes) (o u : Op) (ha : AtomOK stdOps a)
    (hb : AtomOK stdOps b) (ho : o ∈ stdOps) (hu : u ∈ stdOps) (huu : u.un = true) (hoL : o.sym ≠ LP)
    (hoR : o.sym ≠ RP) (hp : lpOp.prec < o.prec) (ws : Nat → Bytes) (hws : ∀ k, Blank (ws k)) :
    parseTop stdOps fns (render ws 0 [.opd a, .sym o, .sym u, .opd b]) =
        .ok (some (.tree (.operand none a) (.operand (some u) b) (some o) none)) ∧
    parseTop stdOps fns (render ws 0 [.sym u, .opd a, .sym o, .opd b]) =
        .ok (some (.tree (.operand (some u) a) (.operand none b) (some o) none)) := by
  constructor
  · exact parse_render_partial fns (.bin o (.atom none a) (.atom (some u) b))
      ⟨hoL, hoR, hp, trivial, huu, trivial, trivial⟩
      ⟨ho, ⟨(by intro v hv; cases hv), ha⟩, ⟨(by intro v hv; cases hv; exact ⟨hu, huu⟩), hb⟩⟩ ws hws
  · exact parse_render_partial fns (.bin o (.atom (some u) a) (.atom none b))
      ⟨hoL, hoR, hp, huu, trivial, trivial, trivial⟩
      ⟨ho, ⟨(by intro v hv; cases hv; exact ⟨hu, huu⟩), ha⟩, ⟨(by intro v hv; cases hv), hb⟩⟩ ws hws

/-- clause "for every input string whatsoever … without panicking" (parser part): for EVERY byte list the model of
    `parse`, of the final reduction loop and of the stack accesses never reaches a Go index-out-of-range and never
    fails to advance; any table without an empty symbol -/
theorem parse_no_panic (ops : List Op) (fns : List Bytes) (h : SymsNonempty ops) (s : Bytes) :
    parse ops fns s ≠ .panic ∧ parseTop ops fns s ≠ .panic :=
  ⟨Eval.parse_no_panic ops fns h s, parseTop_no_panic ops fns h s⟩

/-- … in particular for the regenerated fixed and float tables -/
theorem parse_no_panic_std (fns : List Bytes) (s : Bytes) :
    parseTop stdOps fns s ≠ .panic ∧ parseTop floatOps fns s ≠ .panic := by
  have h1 : SymsNonempty stdOps := symsNonempty_of_all _ (by decide)
  refine ⟨parseTop_no_panic _ _ h1 s, ?_⟩
  rw [float_table_eq]; exact parseTop_no_panic _ _ h1 s

/-- clause "returns a value or an error": parsing every byte list yields a tree (or the empty stack) or an error -/
theorem parse_total (fns : List Bytes) (s : Bytes) :
    (∃ t, parseTop stdOps fns s = .ok t) ∨ parseTop stdOps fns s = .err := by
  have := (parse_no_panic_std fns s).1
  cases h : parseTop stdOps fns s with
  | ok t => exact Or.inl ⟨t, rfl⟩
  | err => exact Or.inr rfl
  | panic => exact absurd h this

/-- clause "in bounded time" (scan loop): every iteration of the loop of `parse` that continues does so with a
    strictly shorter rest of the input, so the loop makes at most `len(expression)` iterations; the inner reduction
    loops are bounded by the height of the operator stack (`reduceWhile_no_panic`, `finish_no_panic`: fuel = height
    + 1 is never exhausted) and the argument capture by the rest of the input (`captureArgs_no_panic`) -/
theorem scan_index_increases (ops : List Op) (fns : List Bytes) (hops : SymsNonempty ops) (pre : Bytes) (c : Nat)
    (t : Bytes) (st : St) (hv : Bool) (un : Option Op) (p r : Bytes) (st' : St) (hv' : Bool) (un' : Option Op)
    (h : scanStep ops fns pre c t st hv un = .cont p r st' hv' un') : r.length < (c :: t).length :=
  scanStep_progress ops fns hops pre c t st hv un p r st' hv' un' h

/-- the fuel of the inner loops (operator-stack height + 1, rest of the input + 1) is never exhausted -/
theorem inner_loops_bounded (ops : List Op) (p : OpEntry → Bool) (st : St) (parens : Nat) (pre rest acc : Bytes) :
    reduceWhile p (st.ops.length + 1) st ≠ .panic ∧ finish (st.ops.length + 1) st ≠ .panic ∧
    captureArgs ops (rest.length + 1) parens pre rest acc ≠ .panic :=
  ⟨reduceWhile_no_panic p _ st (Nat.lt_succ_self _), finish_no_panic _ st (Nat.lt_succ_self _),
   captureArgs_no_panic ops _ parens pre rest acc (Nat.lt_succ_self _)⟩

/-- evaluation of a parsed tree never dereferences a nil operator: every tree the parser returns is well-shaped, and
    `evaluateOperand` (with symbolic operators) on a well-shaped tree does not panic as long as the evaluation of
    function arguments (`ev`, a nested `Evaluate`) and variable substitution (`rv`) do not -/
theorem eval_no_panic_partial (ops : List Op) (fns : List Bytes) (s : Bytes) (n : Node)
    (h : parseTop ops fns s = .ok (some n)) (ev rv : Bytes → R Bytes) (hev : ∀ s, ev s ≠ .panic)
    (hrv : ∀ s, rv s ≠ .panic) : evalNode ev rv n ≠ .panic :=
  evalNode_no_panic ev rv hev hrv n (parseTop_ok_node ops fns s n h)

/-- clause "for every input string whatsoever, Evaluate returns a value or an error in bounded time without
    panicking" for the whole of `Evaluate` with symbolic operators — parse, final reduction, tree walk,
    `replaceVariables`, the argument loop of the functions and the nested `EvaluateNew`: for EVERY byte list, every
    function table and EVERY resolver whose answers contain no `$` (the one boundary: the Go loop in
    `replaceVariables` re-scans its own output, so `$x ↦ "$x"` never returns) the model never reaches a Go panic, and
    its nesting budget — which the Go code does not have; `.panic` also stands for exhausting it — is not exhausted
    once it exceeds a finite bound `D`.  The measure: operand and argument texts of a parsed tree are infixes of the
    input (`parseTop_infix`), strictly shorter (`parseTop_argsLt`); one substitution round per `$` lengthens an argument
    text by a bounded amount and leaves no `$`; from then on every nested evaluation is on a strictly shorter,
    `$`-free text. -/
theorem evaluate_no_panic (fns : List Bytes) (resolve : Bytes → Bytes) (s : Bytes) (h36 : ∀ n, (36 : Nat) ∉ resolve n) :
    ∃ D, ∀ d, D ≤ d → evaluate stdOps fns (some resolve) d s ≠ .panic :=
  Eval.evaluate_terminates stdOps fns table_lexable.ne (some resolve)
    (by intro f hf; injection hf with hf; subst hf; exact h36) s

/-- … with an explicit budget: when the answers for the names occurring in `s` are at most `K` bytes longer than
    `$name`, every budget above `len(s)·(K+1) + 1` suffices; texts without `$` need no resolver hypothesis at all -/
theorem evaluate_no_panic_budget (ops : List Op) (fns : List Bytes) (hne : SymsNonempty ops)
    (resolve : Option (Bytes → Bytes)) (K : Nat) (s : Bytes)
    (hres : ∀ f, resolve = some f → (∀ n, (36 : Nat) ∉ f n) ∧ (∀ n, n <:+: s → (f n).length ≤ n.length + 1 + K)) :
    (∀ d, s.length * (K + 1) + 1 < d → evaluate ops fns resolve d s ≠ .panic) ∧
    ((36 : Nat) ∉ s → ∀ d, s.length < d → evaluate ops fns resolve d s ≠ .panic) :=
  ⟨Eval.evaluate_no_panic_growth ops fns hne resolve K s hres,
   fun h d hd => Eval.evaluate_no_panic_closed ops fns hne resolve d s h hd⟩

/-- … in particular what the driver runs on every line (`evaluateReuse`: any previous evaluator state, budget
    `driverBudget`), for every resolver whose answers are `$`-free and at most 32 bytes longer than `$name` — the
    structure-pass resolver of the harness (`@name`) and the `$`-free entries of its literal table are of this kind
    (the two chain entries `ch`, `ch2` answer with `$…` and are outside) — and for no resolver -/
theorem evaluate_no_panic_driver (ops : List Op) (fns : List Bytes) (hne : SymsNonempty ops)
    (resolve : Option (Bytes → Bytes))
    (hres : ∀ f, resolve = some f → (∀ n, (36 : Nat) ∉ f n) ∧ (∀ n, (f n).length ≤ n.length + 33)) (s : Bytes) (old : St) :
    (evaluateReuse ops fns resolve old s).2 ≠ .panic := by
  rw [evaluateReuse_snd]
  refine Eval.evaluate_no_panic_growth ops fns hne resolve 32 s ?_ _ ?_
  · intro f hf
    exact ⟨(hres f hf).1, fun n _ => by have := (hres f hf).2 n; omega⟩
  · unfold driverBudget; omega

/-- the same for any operator table without an empty symbol, with or without a resolver: termination for every
    `$`-free resolver -/
theorem evaluate_no_panic_any (ops : List Op) (fns : List Bytes) (hne : SymsNonempty ops)
    (resolve : Option (Bytes → Bytes)) (h36 : ∀ f, resolve = some f → ∀ n, (36 : Nat) ∉ f n) (s : Bytes) :
    ∃ D, ∀ d, D ≤ d → evaluate ops fns resolve d s ≠ .panic :=
  Eval.evaluate_terminates ops fns hne resolve h36 s

/-- clause "returns a value or an error": `Evaluate` of every byte list yields a value or an error, for every
    resolver whose answers contain no `$` (with any sufficient budget) -/
theorem evaluate_total (fns : List Bytes) (resolve : Bytes → Bytes) (s : Bytes) (h36 : ∀ n, (36 : Nat) ∉ resolve n) :
    ∃ D, ∀ d, D ≤ d → (∃ v, evaluate stdOps fns (some resolve) d s = .ok v) ∨
      evaluate stdOps fns (some resolve) d s = .err := by
  obtain ⟨D, hD⟩ := evaluate_no_panic fns resolve s h36
  refine ⟨D, fun d hd => ?_⟩
  have := hD d hd
  cases h : evaluate stdOps fns (some resolve) d s with
  | ok v => exact Or.inl ⟨v, rfl⟩
  | err => exact Or.inr rfl
  | panic => exact absurd h this

/-- clause "evaluating the expression tree": evaluation of the tree of an expression applies each binary operator once
    to the values of its two operands (left first), each sign to the value of its operand only, and each function to
    the values of its arguments, each evaluated by a nested `Evaluate` of its text — with operators that bracket
    their arguments and functions that list theirs the value is the fully bracketed expression `X.str` -/
theorem eval_tree (fns : List Bytes) (resolve : Option (Bytes → Bytes)) (e : X) (hw : e.WF stdOps fns lpOp.prec)
    (he : e.Ev) (depth : Nat) (hd : e.cd ≤ depth) :
    evalNode (evaluate stdOps fns resolve depth) (replaceVariables resolve) (e.tree lpOp rpOp) = .ok (some e.str) :=
  X.eval_tree stdOps fns resolve lpOp rpOp table_full e hw he depth hd

/-- no operator symbol of the regenerated table starts with a character that may continue a variable name (so a
    variable reference ends where the next token starts) -/
theorem table_var_stop : ∀ o ∈ stdOps, ∀ c t, o.sym = c :: t → Stopper c :=
  opStop_of_all stdOps (by decide)

/-- **Evaluate ∘ render = bracketed form** (main clause, structure part), end to end, about the function the driver
    runs for the structure pass: for every well-formed expression of the full language — atoms (numeric literals incl.
    exponent literals, variables `$name`), nested function calls, binary operators, signs, parentheses — in ANY blank
    layout, and every resolver that answers the variables of the expression with literals (lexable atoms without `,`
    and `$`), `Evaluate` with symbolic operators and functions returns the fully bracketed form of the expression with
    the variables replaced: the value is determined by the expression tree (conventional precedence, left-to-right
    associativity, a sign applies to its operand only, each argument of a call evaluated by a nested `Evaluate` of
    its text after `replaceVariables` ran over the raw argument text), not by the layout. -/
theorem evaluate_render (fns : List Bytes) (f : Bytes → Bytes) (e : X) (hw : e.WF stdOps fns lpOp.prec)
    (he : e.EvAll stdOps f) (ws : Nat → Bytes) (hws : ∀ k, Blank (ws k)) (depth : Nat) (hd : e.cd ≤ depth) :
    evaluate stdOps fns (some f) (depth + 1) (e.render lpOp rpOp ws) = .ok (e.substAll f).str :=
  X.evaluate_render_all stdOps fns f lpOp rpOp table_full table_var_stop e hw he ws hws depth hd

/-- … in particular with the budget the driver uses (`evaluateReuse`: `driverBudget`), whatever the evaluator held
    before: the nesting depth of calls never exceeds the length of the text -/
theorem evaluate_reuse_render (fns : List Bytes) (f : Bytes → Bytes) (e : X) (hw : e.WF stdOps fns lpOp.prec)
    (he : e.EvAll stdOps f) (ws : Nat → Bytes) (hws : ∀ k, Blank (ws k)) (old : St) :
    (evaluateReuse stdOps fns (some f) old (e.render lpOp rpOp ws)).2 = .ok (e.substAll f).str := by
  rw [evaluateReuse_snd]
  exact evaluate_render fns f e hw he ws hws _ (by
    have := X.cd_le_render lpOp rpOp e ws
    unfold driverBudget; omega)

/-- mechanism "variable substitution" inside calls: `replaceVariables` run over the raw argument text of a rendered
    call yields the argument text of the call with the variables replaced (which `nextArg_split` then splits and a
    nested `Evaluate` parses by `parse_render`) -/
theorem replaceVariables_args (fns : List Bytes) (f : Bytes → Bytes) (args : XL) (hw : args.WF stdOps fns lpOp.prec)
    (he : args.EvAll stdOps f) :
    replaceVariables (some f) (joinComma (args.texts lpOp rpOp)) =
      .ok (joinComma ((args.substAll f).texts lpOp rpOp)) :=
  XL.replaceVariables_texts stdOps fns f lpOp rpOp table_full table_var_stop args hw he

/-- the same for expressions without variables (`X.Ev`: no `$` in atoms), with any resolver or none -/
theorem evaluate_render_closed (fns : List Bytes) (resolve : Option (Bytes → Bytes)) (e : X)
    (hw : e.WF stdOps fns lpOp.prec) (he : e.Ev) (ws : Nat → Bytes) (hws : ∀ k, Blank (ws k)) (depth : Nat)
    (hd : e.cd ≤ depth) :
    evaluate stdOps fns resolve (depth + 1) (e.render lpOp rpOp ws) = .ok e.str :=
  X.evaluate_render stdOps fns resolve lpOp rpOp table_full e hw he ws hws depth hd

/-- variables outside call arguments may be answered with ANY non-blank text without `$` (not only with literals;
    e.g. ` 6 `): the value of such an atom is the answer as it is.  `_partial`: no variables inside call arguments
    here (`X.EvV`); `evaluate_render` has them, for literal answers. -/
theorem evaluate_render_vars_partial (fns : List Bytes) (f : Bytes → Bytes) (e : X) (hw : e.WF stdOps fns lpOp.prec)
    (he : e.EvV f) (ws : Nat → Bytes) (hws : ∀ k, Blank (ws k)) (depth : Nat) (hd : e.cd ≤ depth) :
    evaluate stdOps fns (some f) (depth + 1) (e.render lpOp rpOp ws) = .ok (e.subst f).str :=
  X.evaluate_render_vars stdOps fns f lpOp rpOp table_full e hw he ws hws depth hd

/-- clause "whitespace never changes the result" (structure part): two expressions that differ only in their blank
    runs — at top level (`ws₁`, `ws₂`), between a function name and `(`, or anywhere inside call arguments
    (`X.strip` removes those) — evaluate alike, on a fresh or a used evaluator -/
theorem whitespace_irrelevant (fns : List Bytes) (f : Bytes → Bytes) (e₁ e₂ : X)
    (hs : e₁.strip = e₂.strip) (hw₁ : e₁.WF stdOps fns lpOp.prec) (hw₂ : e₂.WF stdOps fns lpOp.prec)
    (he₁ : e₁.EvAll stdOps f) (he₂ : e₂.EvAll stdOps f) (ws₁ ws₂ : Nat → Bytes) (h₁ : ∀ k, Blank (ws₁ k))
    (h₂ : ∀ k, Blank (ws₂ k)) (old₁ old₂ : St) :
    (evaluateReuse stdOps fns (some f) old₁ (e₁.render lpOp rpOp ws₁)).2 =
      (evaluateReuse stdOps fns (some f) old₂ (e₂.render lpOp rpOp ws₂)).2 := by
  rw [evaluate_reuse_render fns f e₁ hw₁ he₁ ws₁ h₁, evaluate_reuse_render fns f e₂ hw₂ he₂ ws₂ h₂,
    X.str_substAll_of_strip f e₁ e₂ hs]

/-- `NextArg` splits at the first comma that is outside parentheses: for a first argument that both counters pass
    over (`NA 0`: balanced, no comma at depth 0 — every rendered expression, `nextArg_split`) -/
theorem nextArg_first_comma (a b : Bytes) (ha : NA 0 a) : nextArg (a ++ 44 :: b) = (a, b) :=
  nextArg_comma a b ha

/-- the evaluator after a history of earlier calls (accepted and rejected expressions alike), starting fresh -/
def afterHistory (ops : List Op) (fns : List Bytes) (resolve : Option (Bytes → Bytes)) : St → List Bytes → St
  | st, [] => st
  | st, h :: t => afterHistory ops fns resolve (evaluateReuse ops fns resolve st h).1 t

/-- clause "a reused Evaluator gives the same answers as a fresh one": the model's `Evaluate` takes the stacks the
    previous call left behind (`evaluateWith`; the driver threads them from line to line) and `parse` begins with the
    two reset statements (`St.reset`); for EVERY old state — in particular every state reachable by a history of
    earlier evaluations, failed ones included — the result is that of a fresh evaluator.  The reset makes the old
    state unobservable by construction (that is the content of the clause); the dependence on it is shown by
    `reset_is_needed`, and because the driver passes the threaded state into `parseOn`, a model without the reset
    would disagree with the code on the `struct` stream -/
theorem reuse_eq_fresh (ops : List Op) (fns : List Bytes) (resolve : Option (Bytes → Bytes)) (old : St) (s : Bytes) :
    (evaluateReuse ops fns resolve old s).2 = (evaluateReuse ops fns resolve {} s).2 := by
  rw [evaluateReuse_snd, evaluateReuse_snd]

theorem reuse_after_any_history (ops : List Op) (fns : List Bytes) (resolve : Option (Bytes → Bytes))
    (hist : List Bytes) (s : Bytes) :
    (evaluateReuse ops fns resolve (afterHistory ops fns resolve {} hist) s).2 =
      (evaluateReuse ops fns resolve {} s).2 :=
  reuse_eq_fresh ops fns resolve _ s

/-- the theorem depends on the reset: WITHOUT the two statements (`evaluateNoReset`), the operand a successful
    `Evaluate("1")` leaves on the stack is spliced into the next expression — `*2` then yields `(1 * 2)` where a fresh
    evaluator yields `2` -/
theorem reset_is_needed :
    ∃ (old : St) (s : Bytes), old = (evaluateReuse stdOps [] none {} (symBytes "1")).1 ∧
      (evaluateNoReset stdOps [] none old s).2 = .ok (symBytes "(1 * 2)") ∧
      (evaluateReuse stdOps [] none old s).2 = .ok (symBytes "2") := by
  have a1 : AtomOK stdOps (symBytes "1") := ⟨by decide, by decide, by decide, by decide⟩
  have a2 : AtomOK stdOps (symBytes "2") := ⟨by decide, by decide, by decide, by decide⟩
  have ht : ((opOf "*") : Op) ∈ stdOps := by decide
  have b0 : ∀ k : Nat, Blank ((fun _ => ([] : Bytes)) k) := by intro k c hc; cases hc
  -- the scan loop on "1" and on "*2", from any start state, through the bridge
  have p1 : parseLoop stdOps [] [] (symBytes "1") {} false none = .ok ⟨[.operand none (symBytes "1")], []⟩ := by
    have := parseLoop_render stdOps [] table_lexable lpOp rpOp table_full.toParenTable (fun _ => []) b0
      [.opd (symBytes "1")] 0 ⟨{}, false, none⟩ ⟨⟨[.operand none (symBytes "1")], []⟩, true, none⟩ [] rfl
      (fun _ => stopPre_nil) ⟨a1, Or.inl rfl, trivial⟩ rfl
    simpa [render, Tok.bytes] using this
  have p2 : ∀ (st : St) (m' : MSt),
      runToks ⟨st, false, none⟩ [.sym (opOf "*"), .opd (symBytes "2")] = .ok m' →
      parseLoop stdOps [] [] (symBytes "*2") st false none = .ok m'.st := by
    intro st m' h
    have := parseLoop_render stdOps [] table_lexable lpOp rpOp table_full.toParenTable (fun _ => []) b0
      [.sym (opOf "*"), .opd (symBytes "2")] 0 ⟨st, false, none⟩ m' [] rfl
      (fun h => absurd h (by simp [NeedStop])) ⟨ht, Or.inr ⟨by decide, by decide⟩, a2, Or.inl rfl, trivial⟩ h
    have e : (opOf "*").sym ++ symBytes "2" = symBytes "*2" := by decide
    simpa [render, Tok.bytes, e] using this
  have hold : (evaluateReuse stdOps [] none {} (symBytes "1")).1 = ⟨[.operand none (symBytes "1")], []⟩ := by
    simp only [evaluateReuse, evaluateWith, parseOn, St.reset, p1]
    rfl
  refine ⟨_, symBytes "*2", rfl, ?_, ?_⟩
  · rw [hold]
    simp only [evaluateNoReset, evaluateWith, parseOnNoReset,
      p2 ⟨[.operand none (symBytes "1")], []⟩
        ⟨⟨[.operand none (symBytes "2"), .operand none (symBytes "1")], [⟨(opOf "*"), none⟩]⟩, true, none⟩
        rfl]
    rfl
  · rw [hold]
    simp only [evaluateReuse, evaluateWith, parseOn, St.reset,
      p2 ⟨[], []⟩ ⟨⟨[.operand none (symBytes "2")], [⟨(opOf "*"), none⟩]⟩, true, none⟩ rfl]
    rfl

/-! the exponent hack concerns numeric literals only, in all four spellings of a signed exponent: `$e`, `$rate`, `$a1e`,
    `$A1E`, `1.2e-2`, `1e+2`, `2.5E-1`, `2.5E+1` are atoms; an unfinished exponent
    literal `2e` is not (a following `-` would be taken for its sign) -/
example : AtomOK stdOps (symBytes "$e") ∧ AtomOK stdOps (symBytes "$rate") ∧ AtomOK stdOps (symBytes "$a1e") ∧
    AtomOK stdOps (symBytes "1.2e-2") ∧ AtomOK stdOps (symBytes "1e+2") ∧ AtomOK stdOps (symBytes "2.5E-1") ∧
    AtomOK stdOps (symBytes "2.5E+1") ∧ AtomOK stdOps (symBytes "$A1E") ∧ ¬ AtomOK stdOps (symBytes "2e") ∧
    expHack (symBytes "$a1e").reverse = false ∧ expHack (symBytes "(3e").reverse = true :=
  ⟨⟨by decide, by decide, by decide, by decide⟩, ⟨by decide, by decide, by decide, by decide⟩,
   ⟨by decide, by decide, by decide, by decide⟩, ⟨by decide, by decide, by decide, by decide⟩,
   ⟨by decide, by decide, by decide, by decide⟩, ⟨by decide, by decide, by decide, by decide⟩,
   ⟨by decide, by decide, by decide, by decide⟩, ⟨by decide, by decide, by decide, by decide⟩,
   fun h => absurd h.2.2.2 (by decide), by decide, by decide⟩

/-! non-vacuity: the hypotheses of `parse_render_partial` are met by `1 - -2 * (3 + 4)` -/
example : ∃ e : E, e.WF lpOp.prec ∧ e.In stdOps [] ∧ e.toTree ≠ .nil := by
  have hm : (opOf "-") ∈ stdOps := by decide
  have ht : (opOf "*") ∈ stdOps := by decide
  have hpl : (opOf "+") ∈ stdOps := by decide
  have a1 : AtomOK stdOps [49] := ⟨by decide, by decide, by decide, by decide⟩
  have a2 : AtomOK stdOps [50] := ⟨by decide, by decide, by decide, by decide⟩
  have a3 : AtomOK stdOps [51] := ⟨by decide, by decide, by decide, by decide⟩
  have a4 : AtomOK stdOps [52] := ⟨by decide, by decide, by decide, by decide⟩
  refine ⟨.bin (opOf "-") (.atom none [49])
      (.bin (opOf "*") (.atom (some (opOf "-")) [50])
        (.paren none (.bin (opOf "+") (.atom none [51]) (.atom none [52])))), ?_, ?_, ?_⟩
  · simp only [E.WF, E.minPrec, geP, gtP, unOK]; decide
  · refine ⟨hm, ⟨(by intro v hv; cases hv), a1⟩, ht, ⟨?_, a2⟩, ⟨(by intro v hv; cases hv), ?_⟩⟩
    · intro v hv; cases hv; exact ⟨hm, rfl⟩
    · exact ⟨hpl, ⟨(by intro v hv; cases hv), a3⟩, ⟨(by intro v hv; cases hv), a4⟩⟩
  · simp [E.toTree]

/-! non-vacuity of `parse_render` / `evaluate_render_closed`: `max(1 , abs (-2)) * 1.5e-3` — a nested call, a sign
    inside an argument, an exponent literal; all function names of the regenerated table are lexable atoms -/
example : ∃ e : X, e.WF stdOps (Facts.fixedFunctions.map symBytes) lpOp.prec ∧ e.Ev ∧ e.cd = 2 := by
  have hm : ((opOf "-") : Op) ∈ stdOps := by decide
  have ht : ((opOf "*") : Op) ∈ stdOps := by decide
  have a1 : AtomOK stdOps (symBytes "1") := ⟨by decide, by decide, by decide, by decide⟩
  have a2 : AtomOK stdOps (symBytes "2") := ⟨by decide, by decide, by decide, by decide⟩
  have a3 : AtomOK stdOps (symBytes "1.5e-3") := ⟨by decide, by decide, by decide, by decide⟩
  have f1 : AtomOK stdOps (symBytes "max") := ⟨by decide, by decide, by decide, by decide⟩
  have f2 : AtomOK stdOps (symBytes "abs") := ⟨by decide, by decide, by decide, by decide⟩
  have m1 : symBytes "max" ∈ Facts.fixedFunctions.map symBytes := by decide
  have m2 : symBytes "abs" ∈ Facts.fixedFunctions.map symBytes := by decide
  have hn : optIn stdOps none := by intro v hv; cases hv
  have hs : optIn stdOps (some (opOf "-")) := by intro v hv; cases hv; exact ⟨hm, rfl⟩
  have b0 : ∀ k : Nat, Blank ((fun _ => []) k) := by intro k c hc; cases hc
  have b1 : ∀ k : Nat, Blank ((fun _ => [32]) k) := by intro k c hc; simp at hc; subst hc; decide
  refine ⟨.bin (opOf "*")
      (.call none (symBytes "max") [] (.cons (.atom none (symBytes "1")) (fun _ => [32])
        (.cons (.call none (symBytes "abs") [32]
          (.cons (.atom (some (opOf "-")) (symBytes "2")) (fun _ => []) .nil)) (fun _ => []) .nil)))
      (.atom none (symBytes "1.5e-3")), ?_, ?_, ?_⟩
  · simp only [X.WF, XL.WF, X.minPrec, geP, gtP]
    exact ⟨ht, by decide, by decide, by decide,
      ⟨hn, f1, m1, b0 0, ⟨hn, a1⟩, b1,
        ⟨hn, f2, m2, b1 0, ⟨hs, a2⟩, b0, trivial⟩, b0, trivial⟩,
      ⟨hn, a3⟩, trivial, trivial⟩
  · simp only [X.Ev, XL.Ev]; decide
  · simp [X.cd, XL.cd]

/-! all function names of the regenerated fixed and float tables are lexable atoms without `,` and `$` (so every
    standard function can head a call node of `X`) -/
example : ∀ f ∈ Facts.fixedFunctions.map symBytes ++ Facts.floatFunctions.map symBytes,
    (f ≠ [] ∧ (∀ c ∈ f, 32 < c ∧ c < 128) ∧ atomScan stdOps [] f = true ∧ expHack f.reverse = false) ∧
      (44 : Nat) ∉ f ∧ (36 : Nat) ∉ f := by decide

/-! non-vacuity of `evaluate_render`: `max($x,1)` with `$x ↦ 2` satisfies the hypotheses and evaluates to `max[2;1]` -/
example : ∃ (e : X) (f : Bytes → Bytes), e.WF stdOps (Facts.fixedFunctions.map symBytes) lpOp.prec ∧
    e.EvAll stdOps f ∧ (e.substAll f).str = symBytes "max[2;1]" := by
  have a1 : AtomOK stdOps (symBytes "1") := ⟨by decide, by decide, by decide, by decide⟩
  have a2 : AtomOK stdOps (symBytes "2") := ⟨by decide, by decide, by decide, by decide⟩
  have ax : AtomOK stdOps (symBytes "$x") := ⟨by decide, by decide, by decide, by decide⟩
  have f1 : AtomOK stdOps (symBytes "max") := ⟨by decide, by decide, by decide, by decide⟩
  have m1 : symBytes "max" ∈ Facts.fixedFunctions.map symBytes := by decide
  have hn : optIn stdOps none := by intro v hv; cases hv
  have b0 : ∀ k : Nat, Blank ((fun _ => []) k) := by intro k c hc; cases hc
  refine ⟨.call none (symBytes "max") [] (.cons (.atom none (symBytes "$x")) (fun _ => [])
      (.cons (.atom none (symBytes "1")) (fun _ => []) .nil)), fun _ => symBytes "2", ?_, ?_, ?_⟩
  · simp only [X.WF, XL.WF]
    exact ⟨hn, f1, m1, b0 0, ⟨hn, ax⟩, b0, ⟨hn, a1⟩, b0, trivial⟩
  · simp only [X.EvAll, XL.EvAll]
    refine ⟨by decide, by decide, Or.inr ⟨symBytes "x", by decide, by decide, by decide, a2, by decide, by decide⟩,
      Or.inl (by decide), trivial⟩
  · decide

/-! ## values of the fixed-point evaluator (`Model/EvalFixed.lean`: `eval/fixed_operators.go` and the integer part of
    `eval/fixed_function.go` over the arithmetic of `Model/Fixed.lean` (C03) and the text forms of
    `Model/FixedText.lean` (C04)); the driver computes these values and the `fxval` stream compares them with
    `NewFixedEvaluator[Dk](…).Evaluate` directly.  Outside the model (`VR.outside`, taken from the implementation):
    literals with an exponent, `^`, sqrt, cbrt, exp, exp2, log, log10, log1p. -/
section FixedValues
open EvalFixed

/-- in every configuration `fixed.D1 … D16` of the regenerated table the value 1 is not 0 (`Inc` of 0, which `if`
    uses for a non-numeric true condition) -/
theorem fixed_cfg_one_ne_zero (k : Nat) (z : Bool) (c : Cfg) (h : cfg? k z = some c) : Fixed.F64.inc c.mult 0 ≠ 0 := by
  have hall : (List.range 17).all (fun k => match Fixed.mult? k with
      | some m => decide (Fixed.F64.inc m 0 ≠ 0) | none => true) = true := by decide
  unfold cfg? at h
  cases hp : Fixed.places? k with
  | none => simp [hp] at h
  | some p =>
    cases hm : Fixed.mult? k with
    | none => simp [hp, hm] at h
    | some m =>
      simp only [hp, hm, Option.some.injEq] at h
      subst h
      by_cases hk : k < 17
      · have := (List.all_eq_true.mp hall) k (by simp [hk])
        simpa [hm] using this
      · exfalso
        unfold Fixed.mult? at hm
        have hlen : Facts.fixedConfigs.length = 16 := by decide
        have : Facts.fixedConfigs[k - 1]? = none := List.getElem?_eq_none (by omega)
        simp [this] at hm

/-- **main clause, values** ("the fixed-point … evaluators return the value obtained by evaluating the expression tree
    with conventional precedence, left-to-right associativity, and each operator applied with the library's own fixed
    … arithmetic; whitespace never changes the result"): for every configuration `fixed.Dk`, both division-by-zero
    settings, every well-formed expression of the full language without variables (atoms, nested calls with the
    arity of their function, binary operators, signs, parentheses) in ANY blank layout, `Evaluate` of the fixed
    evaluator — the function the driver runs for the `fxval` stream — returns the value of the expression TREE
    `X.val`: an atom is its text, a sign applies to its operand only, a binary node applies `EvalFixed.binary`
    (operand conversion `FixedFrom` = C04's `FromString`, then `F64.add/sub/mul/div/mod` of C03, comparisons on the
    raw values, the string fall-backs) to the values of its operands, left first, a call applies the function
    (`F64.abs/ceil/round/min/max`, floor, `if`) to the values of its arguments.  Where float64 arithmetic decides
    (exponent literals, `^`, sqrt …) both sides are `outside`. -/
theorem fixed_value_render (k : Nat) (z : Bool) (c : Cfg) (hk : cfg? k z = some c) (fns : List Bytes)
    (resolve : Option (Bytes → Bytes)) (e : X) (hw : e.WF stdOps fns lpOp.prec) (he : e.Ev) (har : e.Ar)
    (ws : Nat → Bytes) (hws : ∀ k, Blank (ws k)) (depth : Nat) (hd : e.cd ≤ depth) :
    EvalFixed.evaluate c stdOps fns resolve (depth + 1) (e.render lpOp rpOp ws) = e.val c :=
  X.fx_evaluate_render c (fixed_cfg_one_ne_zero k z c hk) stdOps fns resolve lpOp rpOp table_full e hw he har ws hws depth hd

/-- … in particular with the budget the driver uses (`driverBudget`) -/
theorem fixed_value_render_driver (k : Nat) (z : Bool) (c : Cfg) (hk : cfg? k z = some c) (fns : List Bytes)
    (resolve : Option (Bytes → Bytes)) (e : X) (hw : e.WF stdOps fns lpOp.prec) (he : e.Ev) (har : e.Ar)
    (ws : Nat → Bytes) (hws : ∀ k, Blank (ws k)) :
    EvalFixed.evaluate c stdOps fns resolve (driverBudget (e.render lpOp rpOp ws) + 1) (e.render lpOp rpOp ws) = e.val c :=
  fixed_value_render k z c hk fns resolve e hw he har ws hws _ (by
    have := X.cd_le_render lpOp rpOp e ws
    unfold driverBudget; omega)

/-- clause "whitespace never changes the result", values: two layouts of one expression have the same value -/
theorem fixed_value_whitespace (k : Nat) (z : Bool) (c : Cfg) (hk : cfg? k z = some c) (fns : List Bytes)
    (resolve : Option (Bytes → Bytes)) (e : X) (hw : e.WF stdOps fns lpOp.prec) (he : e.Ev) (har : e.Ar)
    (ws₁ ws₂ : Nat → Bytes) (h₁ : ∀ k, Blank (ws₁ k)) (h₂ : ∀ k, Blank (ws₂ k)) :
    EvalFixed.evaluate c stdOps fns resolve (driverBudget (e.render lpOp rpOp ws₁) + 1) (e.render lpOp rpOp ws₁) =
      EvalFixed.evaluate c stdOps fns resolve (driverBudget (e.render lpOp rpOp ws₂) + 1) (e.render lpOp rpOp ws₂) := by
  rw [fixed_value_render_driver k z c hk fns resolve e hw he har ws₁ h₁,
    fixed_value_render_driver k z c hk fns resolve e hw he har ws₂ h₂]

/-- operands: a literal text is converted by `f64.FromString` (the C04 model `FixedText.fromStr64`), a comparison
    result counts as the NUMBER one / zero of the configuration (`f64.From[T,int](1)`, not the raw 1), a number is
    itself -/
theorem fixed_operand_conversion (c : Cfg) (x : Bytes) (raw : Int) (b : Bool) :
    (FixedText.fromStr64 c.places c.mult x = .ok raw → fixedFrom c (.str x) = .ok raw) ∧
    (FixedText.fromStr64 c.places c.mult x = .err → fixedFrom c (.str x) = .err) ∧
    fixedFrom c (.bool b) = .ok (if b then Fixed.F64.fromInt c.mult 1 else 0) ∧
    fixedFrom c (.num raw) = .ok raw := by
  refine ⟨?_, ?_, rfl, rfl⟩ <;> intro h <;> simp [fixedFrom, FixedText.fromStrX64, h]

/-- "each operator applied with the library's own fixed arithmetic": on numbers the operators of the table ARE the
    operations of `Model/Fixed.lean` (C03) — `+ - *` with `int64` wrap-around, `/` and `%` (non-zero divisor) the
    fixed-point division and remainder, the comparisons on the raw values -/
theorem fixed_operators_are_f64 (c : Cfg) (a b : Int) :
    binary c (symBytes "+") (.num a) (.num b) = .ok (.num (Fixed.F64.add a b)) ∧
    binary c (symBytes "-") (.num a) (.num b) = .ok (.num (Fixed.F64.sub a b)) ∧
    binary c (symBytes "*") (.num a) (.num b) = .ok (.num (Fixed.F64.mul c.mult a b)) ∧
    (b ≠ 0 → binary c (symBytes "/") (.num a) (.num b) = (match Fixed.F64.div c.mult a b with
        | some q => .ok (.num q) | none => .panic) ∧ Fixed.F64.div c.mult a b ≠ none) ∧
    (b ≠ 0 → binary c (symBytes "%") (.num a) (.num b) = (match Fixed.F64.mod c.mult a b with
        | some q => .ok (.num q) | none => .panic) ∧ Fixed.F64.mod c.mult a b ≠ none) ∧
    binary c (symBytes "<") (.num a) (.num b) = .ok (.bool (decide (a < b))) ∧
    binary c (symBytes "<=") (.num a) (.num b) = .ok (.bool (decide (a ≤ b))) ∧
    binary c (symBytes ">") (.num a) (.num b) = .ok (.bool (decide (a > b))) ∧
    binary c (symBytes ">=") (.num a) (.num b) = .ok (.bool (decide (a ≥ b))) ∧
    binary c (symBytes "==") (.num a) (.num b) = .ok (.bool (a == b)) ∧
    binary c (symBytes "!=") (.num a) (.num b) = .ok (.bool (a != b)) := by
  refine ⟨?_, ?_, ?_, ?_, ?_, ?_, ?_, ?_, ?_, ?_, ?_⟩
  · simp [binary, symBytes, String.utf8EncodeChar, opAdd, withFallback, fixedFrom]
  · simp [binary, symBytes, String.utf8EncodeChar, opSub, bothNum, fixedFrom]
  · simp [binary, symBytes, String.utf8EncodeChar, opMul, bothNum, fixedFrom]
  · intro hb
    simp [binary, symBytes, String.utf8EncodeChar, opDiv, bothNum, fixedFrom, hb, Fixed.F64.div]
  · intro hb
    simp [binary, symBytes, String.utf8EncodeChar, opMod, bothNum, fixedFrom, hb, Fixed.F64.mod, Fixed.F64.div]
  · simp [binary, symBytes, String.utf8EncodeChar, opLt, withFallback, fixedFrom]
  · simp [binary, symBytes, String.utf8EncodeChar, opLe, withFallback, fixedFrom]
  · simp [binary, symBytes, String.utf8EncodeChar, opGt, withFallback, fixedFrom]
  · simp [binary, symBytes, String.utf8EncodeChar, opGe, withFallback, fixedFrom]
  · simp [binary, symBytes, String.utf8EncodeChar, opEq, withFallback, fixedFrom]
  · simp [binary, symBytes, String.utf8EncodeChar, opNe, withFallback, fixedFrom]

/-- clause "division by zero yields zero or an error as configured", as a theorem about the concrete `/` and `%` of
    the table: whenever the right operand converts to the number zero (a literal `0`, `0.0`, `-0`, a false comparison,
    a computed zero …) and the left operand is a number, the result is the number zero in the configuration
    `divideByZeroReturnsZero = true` and an error otherwise — never a panic, never a quotient -/
theorem div_by_zero_configured (c : Cfg) (l r : Val) (x : Int) (hl : fixedFrom c l = .ok x) (hr : fixedFrom c r = .ok 0) :
    binary c (symBytes "/") l r = (if c.zero then .ok (.num 0) else .err) ∧
    binary c (symBytes "%") l r = (if c.zero then .ok (.num 0) else .err) := by
  constructor
  · simp [binary, symBytes, String.utf8EncodeChar, opDiv, bothNum, hl, hr]
  · simp [binary, symBytes, String.utf8EncodeChar, opMod, bothNum, hl, hr]

/-- … and end to end: `Evaluate` of `l / r` (or `l % r`), for well-formed operand expressions in any layout whose
    values are a number and a zero, is zero or an error as configured -/
theorem div_by_zero_render (k : Nat) (z : Bool) (c : Cfg) (hk : cfg? k z = some c) (fns : List Bytes)
    (resolve : Option (Bytes → Bytes)) (o : Op) (l r : X) (ho : o.sym = symBytes "/" ∨ o.sym = symBytes "%")
    (hw : (X.bin o l r).WF stdOps fns lpOp.prec) (he : (X.bin o l r).Ev) (har : (X.bin o l r).Ar)
    (lv rv : Val) (x : Int) (hlv : l.val c = .ok lv) (hrv : r.val c = .ok rv) (hl : fixedFrom c lv = .ok x)
    (hr : fixedFrom c rv = .ok 0) (ws : Nat → Bytes) (hws : ∀ k, Blank (ws k)) :
    EvalFixed.evaluate c stdOps fns resolve (driverBudget ((X.bin o l r).render lpOp rpOp ws) + 1)
      ((X.bin o l r).render lpOp rpOp ws) = (if z then .ok (.num 0) else .err) := by
  rw [fixed_value_render_driver k z c hk fns resolve _ hw he har ws hws]
  have hz : c.zero = z := by
    unfold cfg? at hk
    cases hp : Fixed.places? k <;> cases hm : Fixed.mult? k <;> simp [hp, hm] at hk
    subst hk; rfl
  have h := div_by_zero_configured c lv rv x hl hr
  simp only [X.val, hlv, hrv, VR.bind]
  rcases ho with ho | ho <;> rw [ho]
  · rw [h.1, hz]
  · rw [h.2, hz]

/-- clause "a sign or negation written before an operand applies to that operand only", values: on a literal that
    `FromString` reads as `raw`, `-` yields the `int64` negation, `+` the number itself, `!` whether it is zero; on
    a text that is not a number they are errors -/
theorem sign_on_literal (c : Cfg) (x : Bytes) (raw : Int) (h : FixedText.fromStr64 c.places c.mult x = .ok raw) :
    unary c (symBytes "-") (.str x) = .ok (.num (Fixed.F64.negI raw)) ∧
    unary c (symBytes "+") (.str x) = .ok (.num raw) ∧
    unary c (symBytes "!") (.str x) = .ok (.bool (raw == 0)) := by
  refine ⟨?_, ?_, ?_⟩
  · simp [unary, symBytes, String.utf8EncodeChar, opNeg, fixedFrom, FixedText.fromStrX64, h]
  · simp [unary, symBytes, String.utf8EncodeChar, opPlus, fixedFrom, FixedText.fromStrX64, h]
  · simp [unary, symBytes, String.utf8EncodeChar, opNot, fixedFrom, FixedText.fromStrX64, h]

/-- … end to end: `a o u b` for literals `a`, `b`, a binary operator `o` and a sign `u` of the table evaluates to
    `o` applied to the value of `a` and the SIGNED value of `b` (the sign does not reach `a`), and `u a o b` to `o`
    applied to the signed value of `a` and the value of `b`, in every layout -/
theorem sign_applies_to_operand_value (k : Nat) (z : Bool) (c : Cfg) (hk : cfg? k z = some c) (fns : List Bytes)
    (resolve : Option (Bytes → Bytes)) (a b : Bytes) (o u : Op)
    (hw1 : (X.bin o (.atom none a) (.atom (some u) b)).WF stdOps fns lpOp.prec)
    (hw2 : (X.bin o (.atom (some u) a) (.atom none b)).WF stdOps fns lpOp.prec)
    (hea : (44 : Nat) ∉ a ∧ (36 : Nat) ∉ a) (heb : (44 : Nat) ∉ b ∧ (36 : Nat) ∉ b) (hob : o.bin = true)
    (ws : Nat → Bytes) (hws : ∀ k, Blank (ws k)) :
    EvalFixed.evaluate c stdOps fns resolve (driverBudget ((X.bin o (.atom none a) (.atom (some u) b)).render lpOp rpOp ws) + 1)
        ((X.bin o (.atom none a) (.atom (some u) b)).render lpOp rpOp ws) =
      (unary c u.sym (.str b)).bind (fun vb => binary c o.sym (.str a) vb) ∧
    EvalFixed.evaluate c stdOps fns resolve (driverBudget ((X.bin o (.atom (some u) a) (.atom none b)).render lpOp rpOp ws) + 1)
        ((X.bin o (.atom (some u) a) (.atom none b)).render lpOp rpOp ws) =
      (unary c u.sym (.str a)).bind (fun va => binary c o.sym va (.str b)) := by
  have hu : u.un = true := by
    simp only [X.WF] at hw1
    exact (hw1.2.2.2.2.2.1.1 u rfl).2
  constructor
  · rw [fixed_value_render_driver k z c hk fns resolve _ hw1 ⟨hob, hea, heb⟩ ⟨trivial, trivial⟩ ws hws]
    simp [X.val, EvalFixed.applyUn, hu, VR.bind]
  · rw [fixed_value_render_driver k z c hk fns resolve _ hw2 ⟨hob, hea, heb⟩ ⟨trivial, trivial⟩ ws hws]
    simp [X.val, EvalFixed.applyUn, hu, VR.bind]

/-- a comparison or logical result used as a number is the NUMBER one of the configuration (`10^places` raw), e.g.
    `(a < b) + x` adds one whole unit -/
theorem bool_counts_as_one (c : Cfg) (b : Bool) (x : Int) :
    binary c (symBytes "+") (.bool b) (.num x) = .ok (.num (Fixed.F64.add (if b then Fixed.F64.fromInt c.mult 1 else 0) x)) ∧
    binary c (symBytes "*") (.bool b) (.num x) =
      .ok (.num (Fixed.F64.mul c.mult (if b then Fixed.F64.fromInt c.mult 1 else 0) x)) := by
  constructor
  · simp [binary, symBytes, String.utf8EncodeChar, opAdd, withFallback, fixedFrom]
  · simp [binary, symBytes, String.utf8EncodeChar, opMul, bothNum, fixedFrom]

/-- the string fall-backs: when an operand is not a number, `+` concatenates the `%v` texts and the comparisons
    compare them byte-wise (`- * / %` are errors) -/
theorem string_fallbacks (c : Cfg) (a : Bytes) (r : Val) (ha : FixedText.fromStr64 c.places c.mult a = .err) :
    binary c (symBytes "+") (.str a) r = .ok (.str (a ++ fmtV c r)) ∧
    binary c (symBytes "==") (.str a) r = .ok (.bool (a == fmtV c r)) ∧
    binary c (symBytes "<") (.str a) r = .ok (.bool (strLt a (fmtV c r))) ∧
    binary c (symBytes "-") (.str a) r = .err ∧ binary c (symBytes "*") (.str a) r = .err ∧
    binary c (symBytes "/") (.str a) r = .err ∧ binary c (symBytes "%") (.str a) r = .err := by
  refine ⟨?_, ?_, ?_, ?_, ?_, ?_, ?_⟩ <;>
    simp [binary, symBytes, String.utf8EncodeChar, opAdd, opEq, opLt, opSub, opMul, opDiv, opMod, withFallback, bothNum,
      fixedFrom, FixedText.fromStrX64, ha, fmtV]

/-- the standard functions whose value is exact fixed-point arithmetic ARE the `f64` methods of `Model/Fixed.lean`
    (C03) on the converted argument values: abs, ceil, round; floor = trunc, one unit lower when trunc is above the
    value; max / min fold `Max` / `Min` from the smallest / largest raw value; `if` takes its second argument for a
    non-zero condition and the third for zero -/
theorem fixed_functions_are_f64 (c : Cfg) (x y : Int) (a b : VR Val) :
    callV c (symBytes "abs") [.ok (.num x)] = .ok (.num (Fixed.F64.abs x)) ∧
    callV c (symBytes "ceil") [.ok (.num x)] = .ok (.num (Fixed.F64.ceil c.mult x)) ∧
    callV c (symBytes "round") [.ok (.num x)] = .ok (.num (Fixed.F64.round c.mult x)) ∧
    callV c (symBytes "floor") [.ok (.num x)] = .ok (.num (if Fixed.F64.trunc c.mult x > x
        then Fixed.F64.sub (Fixed.F64.trunc c.mult x) (Fixed.F64.fromInt c.mult 1) else Fixed.F64.trunc c.mult x)) ∧
    callV c (symBytes "max") [.ok (.num x), .ok (.num y)] =
      .ok (.num (Fixed.F64.max (Fixed.F64.max Fixed.F64.minRaw x) y)) ∧
    callV c (symBytes "min") [.ok (.num x), .ok (.num y)] =
      .ok (.num (Fixed.F64.min (Fixed.F64.min Fixed.F64.maxRaw x) y)) ∧
    callV c (symBytes "if") [.ok (.num x), a, b] = (if x = 0 then b else a) := by
  refine ⟨?_, ?_, ?_, ?_, ?_, ?_, ?_⟩ <;>
    simp [callV, symBytes, String.utf8EncodeChar, one, foldV, ifV, VR.bind, fixedFrom, floorV]

/-- `floor` is the mathematical floor (composition with C03's `trunc_eq`): for a representable value that is at
    least one unit above the smallest one, the result is `mult · ⌊x / mult⌋`, the largest whole number not above it -/
theorem fixed_floor_spec (c : Cfg) (hm : Fixed.Mult c.mult) (x : Int) (hx : Fixed.fits64 x)
    (hlow : -9223372036854775808 + c.mult ≤ x) : floorV c x = c.mult * (x / c.mult) := by
  have hpos := hm.pos
  obtain ⟨p, hp, hpm⟩ := hm
  have hb := Fixed.cfg_facts p hp
  rw [hpm] at hb
  have hone : Fixed.F64.fromInt c.mult 1 = c.mult := by
    unfold Fixed.F64.fromInt Fixed.F64.mulI
    have h1 : Fixed.wrap64 1 = 1 := by decide
    rw [h1, Int.one_mul]
    exact Fixed.wrap64_of_fits (by unfold Fixed.fits64; omega)
  unfold floorV
  simp only [hone]
  rw [Fixed.F64.trunc_eq ⟨p, hp, hpm⟩ hx]
  unfold Fixed.Spec.fxTrunc
  have h1 : x / c.mult * c.mult ≤ x := Int.ediv_mul_le x (by omega)
  have h2 : x < (x / c.mult + 1) * c.mult := Int.lt_ediv_add_one_mul_self x hpos
  rw [Int.tdiv_eq_ediv]
  by_cases hcase : 0 ≤ x ∨ c.mult ∣ x
  · simp only [hcase, if_true, Int.add_zero]
    have : ¬ (x / c.mult * c.mult > x) := by omega
    simp only [this, if_false]
    exact Int.mul_comm _ _
  · have hs : c.mult.sign = 1 := Int.sign_eq_one_of_pos hpos
    simp only [hcase, if_false, hs]
    have : (x / c.mult + 1) * c.mult > x := h2
    simp only [this, if_true]
    unfold Fixed.F64.sub
    have e : (x / c.mult + 1) * c.mult - c.mult = c.mult * (x / c.mult) := by ring
    rw [e]
    apply Fixed.wrap64_of_fits
    unfold Fixed.fits64 at hx ⊢
    have e2 : c.mult * (x / c.mult) = x / c.mult * c.mult := Int.mul_comm _ _
    have h3 : (x / c.mult + 1) * c.mult = x / c.mult * c.mult + c.mult := by ring
    omega

/-- the value of a well-formed expression is a value, an error, or outside the model — never a Go panic (no stack
    index out of range, no integer division by zero: `/` and `%` test their divisor first) -/
theorem fixed_value_no_panic (k : Nat) (z : Bool) (c : Cfg) (hk : cfg? k z = some c) (fns : List Bytes)
    (resolve : Option (Bytes → Bytes)) (e : X) (hw : e.WF stdOps fns lpOp.prec) (he : e.Ev) (har : e.Ar)
    (ws : Nat → Bytes) (hws : ∀ k, Blank (ws k)) :
    EvalFixed.evaluate c stdOps fns resolve (driverBudget (e.render lpOp rpOp ws) + 1) (e.render lpOp rpOp ws) ≠ .panic := by
  rw [fixed_value_render_driver k z c hk fns resolve e hw he har ws hws]
  exact X.val_ne_panic c e

/-- **values with variables**: for every resolver that answers the variables of the expression with literals
    (lexable atoms without `,` and `$`), `Evaluate` of the fixed evaluator on any layout of a well-formed expression
    returns the value of the tree of the SUBSTITUTED expression — a variable leaf has the value of its answer,
    whether it stands at top level or inside call arguments (where `replaceVariables` runs over the raw argument text
    before that is parsed again) -/
theorem fixed_value_render_vars (k : Nat) (z : Bool) (c : Cfg) (hk : cfg? k z = some c) (fns : List Bytes)
    (f : Bytes → Bytes) (e : X) (hw : e.WF stdOps fns lpOp.prec) (he : e.EvAll stdOps f) (har : e.Ar)
    (ws : Nat → Bytes) (hws : ∀ k, Blank (ws k)) (depth : Nat) (hd : e.cd ≤ depth) :
    EvalFixed.evaluate c stdOps fns (some f) (depth + 1) (e.render lpOp rpOp ws) = (e.substAll f).val c :=
  X.fx_evaluate_render_all c (fixed_cfg_one_ne_zero k z c hk) stdOps fns f lpOp rpOp table_full table_var_stop e hw he har
    ws hws depth hd

/-- robustness of the VALUE model: for EVERY byte list, every configuration and every resolver whose answers contain
    no `$`, `Evaluate` of the fixed evaluator never reaches a Go panic (no stack index out of range, no nil operator,
    no integer division by zero) and, beyond a finite budget, never exhausts the model's nesting budget -/
theorem fixed_evaluate_no_panic (k : Nat) (z : Bool) (c : Cfg) (_hk : cfg? k z = some c) (fns : List Bytes)
    (f : Bytes → Bytes) (s : Bytes) (h36 : ∀ n, (36 : Nat) ∉ f n) :
    ∃ D, ∀ d, D ≤ d → EvalFixed.evaluate c stdOps fns (some f) d s ≠ .panic :=
  EvalFixed.evaluate_terminates c stdOps fns table_lexable.ne (some f)
    (by intro g hg; injection hg with hg; subst hg; exact h36) s

/-- … with the budget the driver uses, for answers at most 32 bytes longer than `$name` -/
theorem fixed_evaluate_no_panic_driver (c : Cfg) (fns : List Bytes) (resolve : Option (Bytes → Bytes))
    (hres : ∀ f, resolve = some f → (∀ n, (36 : Nat) ∉ f n) ∧ (∀ n, (f n).length ≤ n.length + 33)) (s : Bytes) :
    EvalFixed.evaluate c stdOps fns resolve (driverBudget s + 1) s ≠ .panic := by
  refine EvalFixed.evaluate_no_panic_growth c stdOps fns table_lexable.ne resolve 32 s ?_ _ ?_
  · intro f hf
    exact ⟨(hres f hf).1, fun n _ => by have := (hres f hf).2 n; omega⟩
  · unfold driverBudget; omega

/-- composition with C03 (`Lemmas/Fixed64.lean`): whenever the exact intermediate results are representable, the
    operators on numbers yield the EXACT fixed-point results — sum, difference, product `⌊a·b / mult⌋` (toward zero),
    quotient `⌊a·mult / b⌋` (toward zero); the remainder is `a tmod b` for every representable `a` and non-zero `b` -/
theorem fixed_operators_exact (c : Cfg) (hm : Fixed.Mult c.mult) (a b : Int) :
    (Fixed.fits64 (a + b) → binary c (symBytes "+") (.num a) (.num b) = .ok (.num (a + b))) ∧
    (Fixed.fits64 (a - b) → binary c (symBytes "-") (.num a) (.num b) = .ok (.num (a - b))) ∧
    (Fixed.fits64 (a * b) → binary c (symBytes "*") (.num a) (.num b) = .ok (.num ((a * b).tdiv c.mult))) ∧
    (b ≠ 0 → Fixed.fits64 (a * c.mult) → Fixed.fits64 ((a * c.mult).tdiv b) →
      binary c (symBytes "/") (.num a) (.num b) = .ok (.num ((a * c.mult).tdiv b))) ∧
    (b ≠ 0 → Fixed.fits64 a → binary c (symBytes "%") (.num a) (.num b) = .ok (.num (a.tmod b))) := by
  obtain ⟨h1, h2, h3, h4, h5, _⟩ := fixed_operators_are_f64 c a b
  refine ⟨?_, ?_, ?_, ?_, ?_⟩
  · intro h; rw [h1, Fixed.F64.add_exact h]
  · intro h; rw [h2, Fixed.F64.sub_exact h]
  · intro h; rw [h3, Fixed.F64.mul_eq hm h]; rfl
  · intro hb hp hq; rw [(h4 hb).1, Fixed.F64.div_eq hb hp hq]; rfl
  · intro hb ha; rw [(h5 hb).1, Fixed.F64.mod_tmod ha hb]

/-! non-vacuity of `fixed_value_render`: `7 - -2 * (3 + abs(-4))` is well-formed and its tree value in `fixed.D4` is
    21 (raw 210000): the product binds tighter than the difference, the signs apply to `2` and `4` only -/
example : ∃ (e : X) (c : Cfg), cfg? 4 true = some c ∧ e.WF stdOps (Facts.fixedFunctions.map symBytes) lpOp.prec ∧
    e.Ev ∧ e.Ar ∧ e.val c = .ok (.num 210000) := by
  have hm : ((opOf "-") : Op) ∈ stdOps := by decide
  have ht : ((opOf "*") : Op) ∈ stdOps := by decide
  have hpl : ((opOf "+") : Op) ∈ stdOps := by decide
  have a7 : AtomOK stdOps (symBytes "7") := ⟨by decide, by decide, by decide, by decide⟩
  have a2 : AtomOK stdOps (symBytes "2") := ⟨by decide, by decide, by decide, by decide⟩
  have a3 : AtomOK stdOps (symBytes "3") := ⟨by decide, by decide, by decide, by decide⟩
  have a4 : AtomOK stdOps (symBytes "4") := ⟨by decide, by decide, by decide, by decide⟩
  have fa : AtomOK stdOps (symBytes "abs") := ⟨by decide, by decide, by decide, by decide⟩
  have ma : symBytes "abs" ∈ Facts.fixedFunctions.map symBytes := by decide
  have hn : optIn stdOps none := by intro v hv; cases hv
  have hs : optIn stdOps (some (opOf "-")) := by intro v hv; cases hv; exact ⟨hm, rfl⟩
  have b0 : ∀ k : Nat, Blank ((fun _ => []) k) := by intro k c hc; cases hc
  refine ⟨.bin (opOf "-") (.atom none (symBytes "7"))
      (.bin (opOf "*") (.atom (some (opOf "-")) (symBytes "2"))
        (.paren none (.bin (opOf "+") (.atom none (symBytes "3"))
          (.call none (symBytes "abs") [] (.cons (.atom (some (opOf "-")) (symBytes "4")) (fun _ => []) .nil))))),
    ⟨4, 10000, true⟩, by decide, ?_, ?_, ?_, by decide⟩
  · simp only [X.WF, XL.WF, X.minPrec, geP, gtP]
    exact ⟨hm, by decide, by decide, by decide, ⟨hn, a7⟩, ⟨ht, by decide, by decide, by decide, ⟨hs, a2⟩,
      ⟨hn, hpl, by decide, by decide, by decide, ⟨hn, a3⟩, ⟨hn, fa, ma, b0 0, ⟨hs, a4⟩, b0, trivial⟩, trivial, trivial⟩,
      trivial, trivial⟩, trivial, by decide⟩
  · simp only [X.Ev, XL.Ev]; decide
  · simp only [X.Ar, XL.Ar, XL.length]; decide

/-! non-vacuity of `div_by_zero_render` / `div_by_zero_configured`: the operands `7` and `0` of `7 / 0` have the
    values required (a number, a zero), in `fixed.D4`; so `7 / 0` is 0 with divideByZeroReturnsZero and an error without -/
example : fixedFrom ⟨4, 10000, true⟩ (.str (symBytes "7")) = .ok 70000 ∧
    fixedFrom ⟨4, 10000, true⟩ (.str (symBytes "0")) = .ok 0 ∧
    binary ⟨4, 10000, true⟩ (symBytes "/") (.str (symBytes "7")) (.str (symBytes "0")) = .ok (.num 0) ∧
    binary ⟨4, 10000, false⟩ (symBytes "%") (.str (symBytes "7")) (.str (symBytes "0")) = .err := by decide

/-! non-vacuity of `sign_on_literal`, `string_fallbacks`, `fixed_floor_spec`, `bool_counts_as_one`: `2.5` reads as raw
    25000 in D4; `foo` is not a number; floor(-2.5) = -3; (1 < 2) + 1 = 2 -/
example : FixedText.fromStr64 4 10000 (symBytes "2.5") = .ok 25000 ∧
    FixedText.fromStr64 4 10000 (symBytes "foo") = .err ∧
    floorV ⟨4, 10000, true⟩ (-25000) = -30000 ∧ Fixed.Mult 10000 ∧ Fixed.fits64 (-25000) ∧
    binary ⟨4, 10000, true⟩ (symBytes "+") (.bool true) (.num 10000) = .ok (.num 20000) := by
  refine ⟨by decide, by decide, by decide, ⟨(4, 10000), by decide, rfl⟩, by decide, by decide⟩

/-! non-vacuity of `fixed_value_render_vars`: `max($x,1)` with `$x ↦ 2` satisfies the hypotheses; its value in `fixed.D4`
    is 2 (raw 20000) -/
example : ∃ (e : X) (f : Bytes → Bytes), e.WF stdOps (Facts.fixedFunctions.map symBytes) lpOp.prec ∧
    e.EvAll stdOps f ∧ e.Ar ∧ (e.substAll f).val ⟨4, 10000, true⟩ = .ok (.num 20000) := by
  have a1 : AtomOK stdOps (symBytes "1") := ⟨by decide, by decide, by decide, by decide⟩
  have a2 : AtomOK stdOps (symBytes "2") := ⟨by decide, by decide, by decide, by decide⟩
  have ax : AtomOK stdOps (symBytes "$x") := ⟨by decide, by decide, by decide, by decide⟩
  have f1 : AtomOK stdOps (symBytes "max") := ⟨by decide, by decide, by decide, by decide⟩
  have m1 : symBytes "max" ∈ Facts.fixedFunctions.map symBytes := by decide
  have hn : optIn stdOps none := by intro v hv; cases hv
  have b0 : ∀ k : Nat, Blank ((fun _ => []) k) := by intro k c hc; cases hc
  refine ⟨.call none (symBytes "max") [] (.cons (.atom none (symBytes "$x")) (fun _ => [])
      (.cons (.atom none (symBytes "1")) (fun _ => []) .nil)), fun _ => symBytes "2", ?_, ?_, ?_, by decide⟩
  · simp only [X.WF, XL.WF]
    exact ⟨hn, f1, m1, b0 0, ⟨hn, ax⟩, b0, ⟨hn, a1⟩, b0, trivial⟩
  · simp only [X.EvAll, XL.EvAll]
    refine ⟨by decide, by decide, Or.inr ⟨symBytes "x", by decide, by decide, by decide, a2, by decide, by decide⟩,
      Or.inl (by decide), trivial⟩
  · simp only [X.Ar, XL.Ar, XL.length]; decide

end FixedValues


/-! ## values of the floating-point evaluators (`Model/EvalFloat.lean`: `eval/float_operators.go`, `eval/float_function.go`
    over the IEEE-754 arithmetic on BIT PATTERNS of `Model/EvalSoftFloat.lean` — exact rationals, round to nearest even,
    `strconv.ParseFloat` on decimal literals); the driver computes these values and the `flval` stream compares them
    with `NewFloatEvaluator[float64|float32](…).Evaluate` directly, bit for bit.  Outside the model: `^`, sqrt, cbrt,
    exp, exp2, log, log10, log1p, hexadecimal / `_` literals, the `%v` text of a number. -/
section FloatValues
open EvalFloat

/-- the two formats of `NewFloatEvaluator`: `float64` and `float32` -/
def FloatCfg (c : Cfg) : Prop := c.fmt = SoftFloat.f64 ∨ c.fmt = SoftFloat.f32

/-- in both formats the value 1 (which `if` uses for a non-numeric true condition, and a true comparison counts as) is
    not zero -/
theorem float_one_ne_zero (c : Cfg) (h : FloatCfg c) : SoftFloat.isZero c.fmt c.fmt.oneBits = false := by
  rcases h with h | h <;> rw [h] <;> decide

/-- **main clause, values, floating-point evaluators** ("the fixed-point and floating-point evaluators return the value
    obtained by evaluating the expression tree with conventional precedence, left-to-right associativity, and each
    operator applied with the library's own … float arithmetic; whitespace never changes the result"): for
    `NewFloatEvaluator[float64]` and `[float32]`, both division-by-zero settings, every well-formed expression of the
    full language without variables in ANY blank layout, `Evaluate` of the float evaluator — `EvalFloat.evaluate`, the
    function the driver runs for the `flval` stream — returns the value of the expression TREE `X.fval`: an atom is
    its text, a sign applies to its operand only, a binary node applies `EvalFloat.binary` (operand conversion
    `floatFrom` = `strconv.ParseFloat` at the evaluator's bit size, then the IEEE-754 operation on bit patterns of
    `Model/EvalSoftFloat.lean`, the comparisons, the string fall-backs) to the values of its operands, left first, a
    call applies the function (abs ceil floor round max min if) to the values of its arguments.  `^`, sqrt, cbrt,
    exp, exp2, log, log10, log1p are `outside` on both sides. -/
theorem float_value_render (c : Cfg) (hc : FloatCfg c) (fns : List Bytes)
    (resolve : Option (Bytes → Bytes)) (e : X) (hw : e.WF stdOps fns lpOp.prec) (he : e.Ev) (har : e.Ar)
    (ws : Nat → Bytes) (hws : ∀ k, Blank (ws k)) (depth : Nat) (hd : e.cd ≤ depth) :
    EvalFloat.evaluate c floatOps fns resolve (depth + 1) (e.render lpOp rpOp ws) = e.fval c := by
  rw [float_table_eq]
  exact X.fl_evaluate_render c (float_one_ne_zero c hc) stdOps fns resolve lpOp rpOp table_full e hw he har ws hws depth hd

/-- … in particular with the budget the driver uses (`driverBudget`) -/
theorem float_value_render_driver (c : Cfg) (hc : FloatCfg c) (fns : List Bytes)
    (resolve : Option (Bytes → Bytes)) (e : X) (hw : e.WF stdOps fns lpOp.prec) (he : e.Ev) (har : e.Ar)
    (ws : Nat → Bytes) (hws : ∀ k, Blank (ws k)) :
    EvalFloat.evaluate c floatOps fns resolve (driverBudget (e.render lpOp rpOp ws) + 1) (e.render lpOp rpOp ws) = e.fval c :=
  float_value_render c hc fns resolve e hw he har ws hws _ (by
    have := X.cd_le_render lpOp rpOp e ws
    unfold driverBudget; omega)

/-- clause "whitespace never changes the result", float values: two layouts of one expression have the same value -/
theorem float_value_whitespace (c : Cfg) (hc : FloatCfg c) (fns : List Bytes)
    (resolve : Option (Bytes → Bytes)) (e : X) (hw : e.WF stdOps fns lpOp.prec) (he : e.Ev) (har : e.Ar)
    (ws₁ ws₂ : Nat → Bytes) (h₁ : ∀ k, Blank (ws₁ k)) (h₂ : ∀ k, Blank (ws₂ k)) :
    EvalFloat.evaluate c floatOps fns resolve (driverBudget (e.render lpOp rpOp ws₁) + 1) (e.render lpOp rpOp ws₁) =
      EvalFloat.evaluate c floatOps fns resolve (driverBudget (e.render lpOp rpOp ws₂) + 1) (e.render lpOp rpOp ws₂) := by
  rw [float_value_render_driver c hc fns resolve e hw he har ws₁ h₁,
    float_value_render_driver c hc fns resolve e hw he har ws₂ h₂]

/-- **float values with variables**: for every resolver that answers the variables of the expression with literals,
    `Evaluate` of the float evaluator on any layout returns the value of the tree of the SUBSTITUTED expression, at
    top level and inside call arguments -/
theorem float_value_render_vars (c : Cfg) (hc : FloatCfg c) (fns : List Bytes)
    (f : Bytes → Bytes) (e : X) (hw : e.WF stdOps fns lpOp.prec) (he : e.EvAll stdOps f) (har : e.Ar)
    (ws : Nat → Bytes) (hws : ∀ k, Blank (ws k)) (depth : Nat) (hd : e.cd ≤ depth) :
    EvalFloat.evaluate c floatOps fns (some f) (depth + 1) (e.render lpOp rpOp ws) = (e.substAll f).fval c := by
  rw [float_table_eq]
  exact X.fl_evaluate_render_all c (float_one_ne_zero c hc) stdOps fns f lpOp rpOp table_full table_var_stop e hw he har
    ws hws depth hd

/-- the float value of a well-formed expression is a value, an error, or outside the model — never a Go panic -/
theorem float_value_no_panic (c : Cfg) (hc : FloatCfg c) (fns : List Bytes)
    (resolve : Option (Bytes → Bytes)) (e : X) (hw : e.WF stdOps fns lpOp.prec) (he : e.Ev) (har : e.Ar)
    (ws : Nat → Bytes) (hws : ∀ k, Blank (ws k)) :
    EvalFloat.evaluate c floatOps fns resolve (driverBudget (e.render lpOp rpOp ws) + 1) (e.render lpOp rpOp ws) ≠ .panic := by
  rw [float_value_render_driver c hc fns resolve e hw he har ws hws]
  exact X.fval_ne_panic c e

/-- robustness of the float VALUE model (clause "for every input string whatsoever … without panicking"): for EVERY
    byte list, every format / division setting and every resolver whose answers contain no `$`, `Evaluate` of the
    float evaluator never reaches a Go panic and, beyond a finite budget, never exhausts the model's nesting budget -/
theorem float_evaluate_no_panic (c : Cfg) (fns : List Bytes)
    (f : Bytes → Bytes) (s : Bytes) (h36 : ∀ n, (36 : Nat) ∉ f n) :
    ∃ D, ∀ d, D ≤ d → EvalFloat.evaluate c floatOps fns (some f) d s ≠ .panic := by
  rw [float_table_eq]
  exact EvalFloat.evaluate_terminates c stdOps fns table_lexable.ne (some f)
    (by intro g hg; injection hg with hg; subst hg; exact h36) s

/-- … with the budget the driver uses, for answers at most 32 bytes longer than `$name` -/
theorem float_evaluate_no_panic_driver (c : Cfg) (fns : List Bytes) (resolve : Option (Bytes → Bytes))
    (hres : ∀ f, resolve = some f → (∀ n, (36 : Nat) ∉ f n) ∧ (∀ n, (f n).length ≤ n.length + 33)) (s : Bytes) :
    EvalFloat.evaluate c floatOps fns resolve (driverBudget s + 1) s ≠ .panic := by
  rw [float_table_eq]
  refine EvalFloat.evaluate_no_panic_growth c stdOps fns table_lexable.ne resolve 32 s ?_ _ ?_
  · intro f hf
    exact ⟨(hres f hf).1, fun n _ => by have := (hres f hf).2 n; omega⟩
  · unfold driverBudget; omega

/-- operands of the float evaluators: a literal text is converted by `strconv.ParseFloat(a, bits)` (the model
    `SoftFloat.parse` at the evaluator's own format — NOT parsed at 64 bits and narrowed), a comparison result counts
    as 1.0 / 0, a number is itself -/
theorem float_operand_conversion (c : Cfg) (x : Bytes) (bits : Nat) (b : Bool) :
    (SoftFloat.parse c.fmt x = .ok bits → floatFrom c (.str x) = .ok bits) ∧
    (SoftFloat.parse c.fmt x = .err → floatFrom c (.str x) = .err) ∧
    floatFrom c (.bool b) = .ok (if b then c.fmt.oneBits else 0) ∧
    floatFrom c (.num bits) = .ok bits := by
  refine ⟨?_, ?_, rfl, rfl⟩ <;> intro h <;> simp [floatFrom, h]

/-- "each operator applied with the library's own float arithmetic": on numbers the operators of the table ARE the
    IEEE-754 operations of `Model/EvalSoftFloat.lean` on the bit patterns — `+ - *` correctly rounded, `/` and `%`
    (`math.Mod`) for a non-zero divisor, the comparisons (false on NaN), `&& ||` on "is not ±0" -/
theorem float_operators_are_ieee (c : Cfg) (a b : Nat) :
    binary c (symBytes "+") (.num a) (.num b) = .ok (.num (SoftFloat.add c.fmt a b)) ∧
    binary c (symBytes "-") (.num a) (.num b) = .ok (.num (SoftFloat.sub c.fmt a b)) ∧
    binary c (symBytes "*") (.num a) (.num b) = .ok (.num (SoftFloat.mul c.fmt a b)) ∧
    (SoftFloat.isZero c.fmt b = false →
      binary c (symBytes "/") (.num a) (.num b) = .ok (.num (SoftFloat.div c.fmt a b)) ∧
      binary c (symBytes "%") (.num a) (.num b) = .ok (.num (SoftFloat.fmod c.fmt a b))) ∧
    binary c (symBytes "<") (.num a) (.num b) = .ok (.bool (SoftFloat.lt c.fmt a b)) ∧
    binary c (symBytes "<=") (.num a) (.num b) = .ok (.bool (SoftFloat.le c.fmt a b)) ∧
    binary c (symBytes ">") (.num a) (.num b) = .ok (.bool (SoftFloat.lt c.fmt b a)) ∧
    binary c (symBytes ">=") (.num a) (.num b) = .ok (.bool (SoftFloat.le c.fmt b a)) ∧
    binary c (symBytes "==") (.num a) (.num b) = .ok (.bool (SoftFloat.eq c.fmt a b)) ∧
    binary c (symBytes "!=") (.num a) (.num b) = .ok (.bool (!SoftFloat.eq c.fmt a b)) ∧
    binary c (symBytes "&&") (.num a) (.num b) = .ok (.bool (!SoftFloat.isZero c.fmt a && !SoftFloat.isZero c.fmt b)) ∧
    binary c (symBytes "||") (.num a) (.num b) = .ok (.bool (!SoftFloat.isZero c.fmt a || !SoftFloat.isZero c.fmt b)) := by
  refine ⟨?_, ?_, ?_, ?_, ?_, ?_, ?_, ?_, ?_, ?_, ?_, ?_⟩
  · simp [binary, symBytes, String.utf8EncodeChar, opAdd, withFallback, floatFrom]
  · simp [binary, symBytes, String.utf8EncodeChar, opSub, bothNum, floatFrom]
  · simp [binary, symBytes, String.utf8EncodeChar, opMul, bothNum, floatFrom]
  · intro hb
    constructor
    · simp [binary, symBytes, String.utf8EncodeChar, opDiv, bothNum, floatFrom, hb]
    · simp [binary, symBytes, String.utf8EncodeChar, opMod, bothNum, floatFrom, hb]
  · simp [binary, symBytes, String.utf8EncodeChar, opLt, withFallback, floatFrom]
  · simp [binary, symBytes, String.utf8EncodeChar, opLe, withFallback, floatFrom]
  · simp [binary, symBytes, String.utf8EncodeChar, opGt, withFallback, floatFrom]
  · simp [binary, symBytes, String.utf8EncodeChar, opGe, withFallback, floatFrom]
  · simp [binary, symBytes, String.utf8EncodeChar, opEq, withFallback, floatFrom]
  · simp [binary, symBytes, String.utf8EncodeChar, opNe, withFallback, floatFrom]
  · simp [binary, symBytes, String.utf8EncodeChar, opAnd, floatFrom, nonZero]
    cases SoftFloat.isZero c.fmt a <;> simp
  · simp [binary, symBytes, String.utf8EncodeChar, opOr, floatFrom, nonZero]
    cases SoftFloat.isZero c.fmt a <;> simp

/-- clause "division by zero yields zero or an error as configured", float evaluators: whenever the right operand
    converts to a zero (`0`, `-0`, `0.0`, `1e-400`, a false comparison, a computed zero …) and the left operand is a
    number, `/` and `%` return THAT zero (Go: `return r, nil` — the sign of the divisor is kept) with
    `divideByZeroReturnsZero` and an error without — never ±Inf or NaN -/
theorem float_div_by_zero_configured (c : Cfg) (l r : Val) (x y : Nat) (hl : floatFrom c l = .ok x)
    (hr : floatFrom c r = .ok y) (hy : SoftFloat.isZero c.fmt y = true) :
    binary c (symBytes "/") l r = (if c.zero then .ok (.num y) else .err) ∧
    binary c (symBytes "%") l r = (if c.zero then .ok (.num y) else .err) := by
  constructor
  · simp [binary, symBytes, String.utf8EncodeChar, opDiv, bothNum, hl, hr, hy]
  · simp [binary, symBytes, String.utf8EncodeChar, opMod, bothNum, hl, hr, hy]

/-- … and end to end: `Evaluate` of `l / r` (or `l % r`) in any layout, for operands whose values are a number and a zero -/
theorem float_div_by_zero_render (c : Cfg) (hc : FloatCfg c) (fns : List Bytes)
    (resolve : Option (Bytes → Bytes)) (o : Op) (l r : X) (ho : o.sym = symBytes "/" ∨ o.sym = symBytes "%")
    (hw : (X.bin o l r).WF stdOps fns lpOp.prec) (he : (X.bin o l r).Ev) (har : (X.bin o l r).Ar)
    (lv rv : Val) (x y : Nat) (hlv : l.fval c = .ok lv) (hrv : r.fval c = .ok rv) (hl : floatFrom c lv = .ok x)
    (hr : floatFrom c rv = .ok y) (hy : SoftFloat.isZero c.fmt y = true) (ws : Nat → Bytes) (hws : ∀ k, Blank (ws k)) :
    EvalFloat.evaluate c floatOps fns resolve (driverBudget ((X.bin o l r).render lpOp rpOp ws) + 1)
      ((X.bin o l r).render lpOp rpOp ws) = (if c.zero then .ok (.num y) else .err) := by
  rw [float_value_render_driver c hc fns resolve _ hw he har ws hws]
  have h := float_div_by_zero_configured c lv rv x y hl hr hy
  simp only [X.fval, hlv, hrv, VR.bind]
  rcases ho with ho | ho <;> rw [ho]
  · rw [h.1]
  · rw [h.2]

/-- CONTRAST (the statement depends on the `r == 0` test of floatDivide / floatModulo): plain IEEE-754 division of 1 by
    0 is +Inf and `math.Mod(1, 0)` is NaN — neither "zero" nor "an error"; the operators of the table return 0 resp. an
    error as configured -/
theorem float_zero_test_is_needed :
    SoftFloat.div SoftFloat.f64 SoftFloat.f64.oneBits 0 = SoftFloat.f64.infBits ∧
    SoftFloat.isNaN SoftFloat.f64 (SoftFloat.fmod SoftFloat.f64 SoftFloat.f64.oneBits 0) = true ∧
    binary ⟨SoftFloat.f64, true⟩ (symBytes "/") (.num SoftFloat.f64.oneBits) (.num 0) = .ok (.num 0) ∧
    binary ⟨SoftFloat.f64, false⟩ (symBytes "/") (.num SoftFloat.f64.oneBits) (.num 0) = .err ∧
    binary ⟨SoftFloat.f64, true⟩ (symBytes "%") (.num SoftFloat.f64.oneBits) (.num 0) = .ok (.num 0) ∧
    binary ⟨SoftFloat.f64, false⟩ (symBytes "%") (.num SoftFloat.f64.oneBits) (.num 0) = .err := by decide

/-- clause "a sign or negation written before an operand applies to that operand only", float values: on a literal
    that `ParseFloat` reads as `bits`, `-` flips the sign bit, `+` is the number itself, `!` is whether it is ±0 -/
theorem float_sign_on_literal (c : Cfg) (x : Bytes) (bits : Nat) (h : SoftFloat.parse c.fmt x = .ok bits) :
    unary c (symBytes "-") (.str x) = .ok (.num (SoftFloat.neg c.fmt bits)) ∧
    unary c (symBytes "+") (.str x) = .ok (.num bits) ∧
    unary c (symBytes "!") (.str x) = .ok (.bool (SoftFloat.isZero c.fmt bits)) := by
  refine ⟨?_, ?_, ?_⟩
  · simp [unary, symBytes, String.utf8EncodeChar, opNeg, floatFrom, h]
  · simp [unary, symBytes, String.utf8EncodeChar, opPlus, floatFrom, h]
  · simp [unary, symBytes, String.utf8EncodeChar, opNot, floatFrom, h]

/-- … end to end: `a o u b` evaluates to `o` applied to the value of `a` and the SIGNED value of `b` (the sign does not
    reach `a`), and `u a o b` to `o` applied to the signed value of `a` and the value of `b`, in every layout -/
theorem float_sign_applies_to_operand_value (c : Cfg) (hc : FloatCfg c) (fns : List Bytes)
    (resolve : Option (Bytes → Bytes)) (a b : Bytes) (o u : Op)
    (hw1 : (X.bin o (.atom none a) (.atom (some u) b)).WF stdOps fns lpOp.prec)
    (hw2 : (X.bin o (.atom (some u) a) (.atom none b)).WF stdOps fns lpOp.prec)
    (hea : (44 : Nat) ∉ a ∧ (36 : Nat) ∉ a) (heb : (44 : Nat) ∉ b ∧ (36 : Nat) ∉ b) (hob : o.bin = true)
    (ws : Nat → Bytes) (hws : ∀ k, Blank (ws k)) :
    EvalFloat.evaluate c floatOps fns resolve (driverBudget ((X.bin o (.atom none a) (.atom (some u) b)).render lpOp rpOp ws) + 1)
        ((X.bin o (.atom none a) (.atom (some u) b)).render lpOp rpOp ws) =
      (unary c u.sym (.str b)).bind (fun vb => binary c o.sym (.str a) vb) ∧
    EvalFloat.evaluate c floatOps fns resolve (driverBudget ((X.bin o (.atom (some u) a) (.atom none b)).render lpOp rpOp ws) + 1)
        ((X.bin o (.atom (some u) a) (.atom none b)).render lpOp rpOp ws) =
      (unary c u.sym (.str a)).bind (fun va => binary c o.sym va (.str b)) := by
  have hu : u.un = true := by
    simp only [X.WF] at hw1
    exact (hw1.2.2.2.2.2.1.1 u rfl).2
  constructor
  · rw [float_value_render_driver c hc fns resolve _ hw1 ⟨hob, hea, heb⟩ ⟨trivial, trivial⟩ ws hws]
    simp [X.fval, EvalFloat.applyUn, hu, VR.bind]
  · rw [float_value_render_driver c hc fns resolve _ hw2 ⟨hob, hea, heb⟩ ⟨trivial, trivial⟩ ws hws]
    simp [X.fval, EvalFloat.applyUn, hu, VR.bind]

/-- the standard functions of the float evaluators on converted argument values: abs clears the sign bit, ceil /
    floor / round (halves away from zero) are the exact integral roundings, max / min fold the built-in `max` / `min`
    (`max(value, maxValue)` starting from −MaxFloat resp. +MaxFloat; NaN if any is NaN; +0 above −0), `if` takes its
    second argument for a condition that is not ±0 and the third otherwise -/
theorem float_functions_are_ieee (c : Cfg) (x y : Nat) (a b : VR Val) :
    callV c (symBytes "abs") [.ok (.num x)] = .ok (.num (SoftFloat.abs c.fmt x)) ∧
    callV c (symBytes "ceil") [.ok (.num x)] = .ok (.num (SoftFloat.ceil c.fmt x)) ∧
    callV c (symBytes "floor") [.ok (.num x)] = .ok (.num (SoftFloat.floor c.fmt x)) ∧
    callV c (symBytes "round") [.ok (.num x)] = .ok (.num (SoftFloat.round c.fmt x)) ∧
    callV c (symBytes "max") [.ok (.num x), .ok (.num y)] =
      .ok (.num (SoftFloat.fmax c.fmt y (SoftFloat.fmax c.fmt x (SoftFloat.withSign c.fmt true c.fmt.maxBits)))) ∧
    callV c (symBytes "min") [.ok (.num x), .ok (.num y)] =
      .ok (.num (SoftFloat.fmin c.fmt y (SoftFloat.fmin c.fmt x c.fmt.maxBits))) ∧
    callV c (symBytes "if") [.ok (.num x), a, b] = (if SoftFloat.isZero c.fmt x then b else a) := by
  refine ⟨?_, ?_, ?_, ?_, ?_, ?_, ?_⟩ <;>
    simp [callV, symBytes, String.utf8EncodeChar, one, foldV, ifV, VR.bind, floatFrom]

/-- a comparison or logical result used as a number is 1.0 of the evaluator's format -/
theorem float_bool_counts_as_one (c : Cfg) (b : Bool) (x : Nat) :
    binary c (symBytes "+") (.bool b) (.num x) = .ok (.num (SoftFloat.add c.fmt (if b then c.fmt.oneBits else 0) x)) ∧
    binary c (symBytes "*") (.bool b) (.num x) = .ok (.num (SoftFloat.mul c.fmt (if b then c.fmt.oneBits else 0) x)) := by
  constructor
  · simp [binary, symBytes, String.utf8EncodeChar, opAdd, withFallback, floatFrom]
  · simp [binary, symBytes, String.utf8EncodeChar, opMul, bothNum, floatFrom]

/-- the string fall-backs of the float operators: when the left operand is not a number, `+` concatenates the texts
    and the comparisons compare them byte-wise (`- * / %` are errors) -/
theorem float_string_fallbacks (c : Cfg) (a b : Bytes) (ha : SoftFloat.parse c.fmt a = .err) :
    binary c (symBytes "+") (.str a) (.str b) = .ok (.str (a ++ b)) ∧
    binary c (symBytes "==") (.str a) (.str b) = .ok (.bool (a == b)) ∧
    binary c (symBytes "<") (.str a) (.str b) = .ok (.bool (strLt a b)) ∧
    binary c (symBytes "-") (.str a) (.str b) = .err ∧ binary c (symBytes "*") (.str a) (.str b) = .err ∧
    binary c (symBytes "/") (.str a) (.str b) = .err ∧ binary c (symBytes "%") (.str a) (.str b) = .err := by
  refine ⟨?_, ?_, ?_, ?_, ?_, ?_, ?_⟩ <;>
    simp [binary, symBytes, String.utf8EncodeChar, opAdd, opEq, opLt, opSub, opMul, opDiv, opMod, withFallback, bothNum,
      floatFrom, ha, fmtV, onTexts]


/-- `!=` on Go bools (the sign of a product) is symmetric -/
theorem bne_symm (s t : Bool) : (s != t) = (t != s) := by cases s <;> cases t <;> rfl

/-- sanity of the IEEE model: multiplication of non-NaN values is commutative bit for bit (signs, infinities, zeros included) -/
theorem float_mul_comm (f : SoftFloat.Fmt) (a b : Nat) (ha : SoftFloat.isNaN f a = false) (hb : SoftFloat.isNaN f b = false)
    (hda : SoftFloat.decode f a ≠ .nan) (hdb : SoftFloat.decode f b ≠ .nan) :
    SoftFloat.mul f a b = SoftFloat.mul f b a := by
  unfold SoftFloat.mul
  cases h1 : SoftFloat.decode f a <;> cases h2 : SoftFloat.decode f b <;> simp_all [bne_symm, Nat.mul_comm, Int.add_comm]

/-- sanity of the IEEE model: on non-NaN values exactly the usual order — trichotomy, `<=` is `<` or `==`, `<` is
    asymmetric and irreflexive (−0 and +0 differ in bits but `key` orders them adjacent: see the examples) -/
theorem float_order_total (f : SoftFloat.Fmt) (a b : Nat) (ha : SoftFloat.isNaN f a = false) (hb : SoftFloat.isNaN f b = false) :
    (SoftFloat.lt f a b = true ∨ SoftFloat.eq f a b = true ∨ SoftFloat.lt f b a = true) ∧
    (SoftFloat.le f a b = (SoftFloat.lt f a b || SoftFloat.eq f a b)) ∧
    (SoftFloat.lt f a b = true → SoftFloat.lt f b a = false) ∧ SoftFloat.lt f a a = false := by
  simp only [SoftFloat.lt, SoftFloat.le, SoftFloat.eq, ha, hb, Bool.not_false, Bool.true_and, decide_eq_true_eq,
    decide_eq_false_iff_not, Bool.or_eq_true]
  refine ⟨by omega, ?_, by omega, by omega⟩
  by_cases h1 : SoftFloat.key f a < SoftFloat.key f b <;> by_cases h2 : SoftFloat.key f a = SoftFloat.key f b <;>
    simp [h1, h2] <;> omega

/-- … and every comparison with a NaN is false, `NaN == NaN` included (so `!=` is true) -/
theorem float_nan_unordered (f : SoftFloat.Fmt) (a b : Nat) (ha : SoftFloat.isNaN f a = true) :
    SoftFloat.lt f a b = false ∧ SoftFloat.lt f b a = false ∧ SoftFloat.le f a b = false ∧ SoftFloat.le f b a = false ∧
    SoftFloat.eq f a b = false ∧ SoftFloat.eq f a a = false := by
  simp [SoftFloat.lt, SoftFloat.le, SoftFloat.eq, ha]

/-! IEEE-754 ground truth on concrete literals -/
set_option maxRecDepth 8000 in
example : SoftFloat.parse SoftFloat.f64 (symBytes "0.1") = .ok 0x3FB999999999999A := by decide
set_option maxRecDepth 8000 in
example : SoftFloat.parse SoftFloat.f64 (symBytes "0.2") = .ok 0x3FC999999999999A := by decide
set_option maxRecDepth 8000 in
example : SoftFloat.add SoftFloat.f64 0x3FB999999999999A 0x3FC999999999999A = 0x3FD3333333333334 := by decide
set_option maxRecDepth 8000 in
example : SoftFloat.parse SoftFloat.f64 (symBytes "0.3") = .ok 0x3FD3333333333333 := by decide
set_option maxRecDepth 8000 in
example : SoftFloat.parse SoftFloat.f32 (symBytes "16777217") = .ok 0x4B800000 := by decide
set_option maxRecDepth 8000 in
example : SoftFloat.parse SoftFloat.f32 (symBytes "16777219") = .ok 0x4B800002 := by decide
set_option maxRecDepth 8000 in
example : SoftFloat.parse SoftFloat.f64 (symBytes "9007199254740993") = .ok 0x4340000000000000 := by decide
set_option maxRecDepth 8000 in
example : SoftFloat.parse SoftFloat.f64 (symBytes "5e-324") = .ok 1 := by decide
set_option maxRecDepth 8000 in
example : SoftFloat.parse SoftFloat.f64 (symBytes "2.4e-324") = .ok 0 := by decide
set_option maxRecDepth 8000 in
example : SoftFloat.parse SoftFloat.f64 (symBytes "1.7976931348623157e308") = .ok 0x7FEFFFFFFFFFFFFF := by decide
set_option maxRecDepth 8000 in
example : SoftFloat.parse SoftFloat.f64 (symBytes "1.8e308") = .err := by decide
set_option maxRecDepth 8000 in
example : SoftFloat.parse SoftFloat.f32 (symBytes "3.4028235e38") = .ok 0x7F7FFFFF := by decide
set_option maxRecDepth 8000 in
example : SoftFloat.parse SoftFloat.f32 (symBytes "3.4028236e38") = .err := by decide
set_option maxRecDepth 8000 in
example : SoftFloat.parse SoftFloat.f64 (symBytes "-Inf") = .ok 0xFFF0000000000000 := by decide
set_option maxRecDepth 8000 in
example : SoftFloat.div SoftFloat.f64 0x3FF0000000000000 0x4008000000000000 = 0x3FD5555555555555 := by decide
set_option maxRecDepth 8000 in
example : SoftFloat.fmod SoftFloat.f64 0xC014000000000000 0x4008000000000000 = 0xC000000000000000 := by decide
set_option maxRecDepth 8000 in
example : SoftFloat.round SoftFloat.f64 0x4004000000000000 = 0x4008000000000000 := by decide
set_option maxRecDepth 8000 in
example : SoftFloat.round SoftFloat.f64 0x3FDFFFFFFFFFFFFF = 0 := by decide
set_option maxRecDepth 8000 in
example : SoftFloat.floor SoftFloat.f64 0xBFE0000000000000 = 0xBFF0000000000000 := by decide
set_option maxRecDepth 8000 in
example : SoftFloat.ceil SoftFloat.f64 0xBFE0000000000000 = 0x8000000000000000 := by decide
set_option maxRecDepth 8000 in
example : SoftFloat.fmax SoftFloat.f64 0x8000000000000000 0 = 0 := by decide
set_option maxRecDepth 8000 in
example : SoftFloat.fmin SoftFloat.f64 0 0x8000000000000000 = 0x8000000000000000 := by decide


/-! non-vacuity of `float_value_render`: `7 - -2 * (3 + abs(-4))` is well-formed; its tree value in float64 is 21.0 and
    in float32 21.0 as well (bit patterns 0x4035000000000000, 0x41A80000) -/
example : ∃ e : X, e.WF stdOps (Facts.floatFunctions.map symBytes) lpOp.prec ∧ e.Ev ∧ e.Ar ∧
    FloatCfg ⟨SoftFloat.f64, false⟩ ∧ FloatCfg ⟨SoftFloat.f32, true⟩ ∧
    e.fval ⟨SoftFloat.f64, false⟩ = .ok (.num 0x4035000000000000) ∧ e.fval ⟨SoftFloat.f32, true⟩ = .ok (.num 0x41A80000) := by
  have hm : ((opOf "-") : Op) ∈ stdOps := by decide
  have ht : ((opOf "*") : Op) ∈ stdOps := by decide
  have hpl : ((opOf "+") : Op) ∈ stdOps := by decide
  have a7 : AtomOK stdOps (symBytes "7") := ⟨by decide, by decide, by decide, by decide⟩
  have a2 : AtomOK stdOps (symBytes "2") := ⟨by decide, by decide, by decide, by decide⟩
  have a3 : AtomOK stdOps (symBytes "3") := ⟨by decide, by decide, by decide, by decide⟩
  have a4 : AtomOK stdOps (symBytes "4") := ⟨by decide, by decide, by decide, by decide⟩
  have fa : AtomOK stdOps (symBytes "abs") := ⟨by decide, by decide, by decide, by decide⟩
  have ma : symBytes "abs" ∈ Facts.floatFunctions.map symBytes := by decide
  have hn : optIn stdOps none := by intro v hv; cases hv
  have hs : optIn stdOps (some (opOf "-")) := by intro v hv; cases hv; exact ⟨hm, rfl⟩
  have b0 : ∀ k : Nat, Blank ((fun _ => []) k) := by intro k c hc; cases hc
  refine ⟨.bin (opOf "-") (.atom none (symBytes "7"))
      (.bin (opOf "*") (.atom (some (opOf "-")) (symBytes "2"))
        (.paren none (.bin (opOf "+") (.atom none (symBytes "3"))
          (.call none (symBytes "abs") [] (.cons (.atom (some (opOf "-")) (symBytes "4")) (fun _ => []) .nil))))),
    ?_, ?_, ?_, Or.inl rfl, Or.inr rfl, by decide, by decide⟩
  · simp only [X.WF, XL.WF, X.minPrec, geP, gtP]
    exact ⟨hm, by decide, by decide, by decide, ⟨hn, a7⟩, ⟨ht, by decide, by decide, by decide, ⟨hs, a2⟩,
      ⟨hn, hpl, by decide, by decide, by decide, ⟨hn, a3⟩, ⟨hn, fa, ma, b0 0, ⟨hs, a4⟩, b0, trivial⟩, trivial, trivial⟩,
      trivial, trivial⟩, trivial, by decide⟩
  · simp only [X.Ev, XL.Ev]; decide
  · simp only [X.Ar, XL.Ar, XL.length]; decide

/-! non-vacuity of `float_div_by_zero_configured` / `float_div_by_zero_render`: in `7 / -0` the operands convert to a
    number and to the zero −0; the result is −0 with divideByZeroReturnsZero and an error without -/
example : floatFrom ⟨SoftFloat.f64, true⟩ (.str (symBytes "7")) = .ok 0x401C000000000000 ∧
    floatFrom ⟨SoftFloat.f64, true⟩ (.str (symBytes "-0")) = .ok 0x8000000000000000 ∧
    SoftFloat.isZero SoftFloat.f64 0x8000000000000000 = true ∧
    binary ⟨SoftFloat.f64, true⟩ (symBytes "/") (.str (symBytes "7")) (.str (symBytes "-0")) = .ok (.num 0x8000000000000000) ∧
    binary ⟨SoftFloat.f64, false⟩ (symBytes "%") (.str (symBytes "7")) (.str (symBytes "-0")) = .err := by decide

end FloatValues


/-! ## the IEEE-754 arithmetic itself (`Model/EvalSoftFloat.lean`, lemmas in `Lemmas/EvalSoftFloat.lean`) -/
section FloatRounding
open SoftFloat

/-- "each operator applied with the library's own float arithmetic" — what the model's arithmetic IS: the magnitude
    `roundMag f n d` every `+ - * /`, `math.Mod` result and every literal goes through is IEEE-754 round-to-nearest-even
    of the exact rational `n/d`, completely: it returns the encoding `k·2^mb + q` where, with `e = k + emin` the
    exponent of the last place, `q` is an integer within HALF a unit of `n/d / 2^e` (both directions), EVEN when the
    quotient lies exactly half-way, the quotient itself when that is an integer — and `e` is the NORMALISING exponent:
    `q ≤ 2^(mb+1)` and, above the subnormal range (`k ≠ 0`), `2^mb ≤ q` (exactly `mb+1` significant bits, or the carry
    `q = 2^(mb+1)` whose encoding is the first value of the next binade) -/
theorem float_rounding_nearest_even (f : Fmt) (n d : Nat) (hn : n ≠ 0) (hd : 0 < d) :
    ∃ (k q : Nat), roundMag f n d = k * 2 ^ f.mb + q ∧
      2 * ((q : Int) * (scaled n d (k + f.emin)).2 - (scaled n d (k + f.emin)).1) ≤ (scaled n d (k + f.emin)).2 ∧
      2 * (((scaled n d (k + f.emin)).1 : Int) - q * (scaled n d (k + f.emin)).2) ≤ (scaled n d (k + f.emin)).2 ∧
      (2 * ((scaled n d (k + f.emin)).1 % (scaled n d (k + f.emin)).2) = (scaled n d (k + f.emin)).2 → q % 2 = 0) ∧
      (∀ j, (scaled n d (k + f.emin)).1 = j * (scaled n d (k + f.emin)).2 → q = j) ∧
      q ≤ 2 ^ (f.mb + 1) ∧ (k ≠ 0 → 2 ^ f.mb ≤ q) := by
  obtain ⟨k, q, h1, h2, h3, h4⟩ := roundMag_correct f n d hn (by omega)
  refine ⟨k, q, h1, ?_, ?_, ?_, ?_, h3, h4⟩
  · rw [h2]; exact (rne_nearest _ _ (scaled_den_pos n d _ hd)).1
  · rw [h2]; exact (rne_nearest _ _ (scaled_den_pos n d _ hd)).2
  · rw [h2]; exact rne_tie_even _ _
  · intro j hj
    rw [h2, hj]
    exact rne_exact j _ (scaled_den_pos n d _ hd)

/-- … and the encoding means what `decode` says: the bit pattern `k·2^mb + q` of a normal magnitude
    (`2^mb ≤ q < 2^(mb+1)`, exponent index below the all-ones field) decodes to `+ q · 2^(k + emin)`, that of a
    subnormal one (`q < 2^mb`) to `+ q · 2^emin` — so the result of the rounding is the float `q · 2^e` -/
theorem float_encoding_decodes (f : Fmt) (k q : Nat) (heb : 1 ≤ f.eb) :
    (2 ^ f.mb ≤ q → q < 2 * 2 ^ f.mb → k + 1 < f.emaxField →
      decode f (k * 2 ^ f.mb + q) = .fin false q ((k : Int) + f.emin)) ∧
    (q < 2 ^ f.mb → decode f q = .fin false q f.emin) :=
  ⟨fun h1 h2 h3 => decode_encode_normal f k q h1 h2 h3, fun h => decode_encode_subnormal f q h heb⟩

/-- **the result of every arithmetic operation, as a VALUE**: `ofRat f neg n d` — what `+ - * /` hand their exact
    result to — decodes to ±Inf when the round-to-nearest-even magnitude reaches the all-ones exponent (overflow), and
    otherwise to the float `± q · 2^(k + emin)` where `q` is the nearest-even integer of `float_rounding_nearest_even`
    (`2^mb · 2^(k+1+emin)` when the rounding carried into the next binade) -/
theorem float_ofRat_value (f : Fmt) (heb : 1 ≤ f.eb) (neg : Bool) (n d : Nat) (hn : n ≠ 0) (hd : d ≠ 0) :
    ∃ (k q : Nat), roundMag f n d = k * 2 ^ f.mb + q ∧
      q = rne (scaled n d ((k : Int) + f.emin)).1 (scaled n d ((k : Int) + f.emin)).2 ∧
      ((f.infBits ≤ k * 2 ^ f.mb + q ∧ decode f (ofRat f neg n d) = .inf neg) ∨
       (k * 2 ^ f.mb + q < f.infBits ∧ q < 2 * 2 ^ f.mb ∧ (k ≠ 0 → 2 ^ f.mb ≤ q) ∧
          decode f (ofRat f neg n d) = .fin neg q ((k : Int) + f.emin)) ∨
       (k * 2 ^ f.mb + q < f.infBits ∧ q = 2 * 2 ^ f.mb ∧
          decode f (ofRat f neg n d) = .fin neg (2 ^ f.mb) ((k : Int) + 1 + f.emin))) :=
  ofRat_value f heb neg n d hn hd

/-- **`*` is IEEE-754 multiplication as a statement about values**: for finite operands `± m·2^e`, `± k·2^g` (any bit
    patterns that decode so) the product is the zero of sign `s ≠ t` when a factor is zero, and otherwise
    `ofRat (s ≠ t) N D` for the EXACT product `N/D = m·k·2^(e+g)` — with `float_ofRat_value`: the correctly rounded
    product, ±Inf on overflow -/
theorem float_mul_correctly_rounded (f : Fmt) (a b : Nat) (s t : Bool) (m k : Nat) (e g : Int)
    (ha : decode f a = .fin s m e) (hb : decode f b = .fin t k g) :
    (m * k = 0 → SoftFloat.mul f a b = withSign f (s != t) 0) ∧
    (m * k ≠ 0 → ∃ N D : Nat, D ≠ 0 ∧ N ≠ 0 ∧ SoftFloat.mul f a b = ofRat f (s != t) N D ∧
      N * 2 ^ (-(e + g)).toNat = m * k * 2 ^ (e + g).toNat * D) :=
  mul_exact_then_round f a b s t m k e g ha hb

/-- **`+` is IEEE-754 addition as a statement about values** (and `-`, which is `+` of the negated right operand): the
    operands are aligned EXACTLY at `x = min e g`, summed as integers `S`; an exact zero sum is `+0` unless both
    operands are negative (zeros) — the round-to-nearest rule for the sign of a zero sum —, any other sum is
    `ofRat (S < 0) N D` for the exact `N/D = |S|·2^x` -/
theorem float_add_correctly_rounded (f : Fmt) (a b : Nat) (s t : Bool) (m k : Nat) (e g : Int)
    (ha : decode f a = .fin s m e) (hb : decode f b = .fin t k g) :
    ∃ (x : Int) (S : Int), x ≤ e ∧ x ≤ g ∧ (x = e ∨ x = g) ∧
      S = sgn s (m * 2 ^ (e - x).toNat) + sgn t (k * 2 ^ (g - x).toNat) ∧
      (S = 0 → SoftFloat.add f a b = withSign f (s && t) 0) ∧
      (S ≠ 0 → ∃ N D : Nat, D ≠ 0 ∧ N ≠ 0 ∧ SoftFloat.add f a b = ofRat f (decide (S < 0)) N D ∧
        N * 2 ^ (-x).toNat = S.natAbs * 2 ^ x.toNat * D) :=
  add_exact_then_round f a b s t m k e g ha hb

/-- **`/` likewise**: for a finite non-zero dividend and divisor the quotient is `ofRat (s ≠ t) N D` for the EXACT
    `N/D = (m·2^e) / (k·2^g)`.  (`math.Mod`: `fmod` computes the exact remainder, which needs no rounding — read off
    the definition, no theorem.) -/
theorem float_div_correctly_rounded (f : Fmt) (a b : Nat) (s t : Bool) (m k : Nat) (e g : Int)
    (ha : decode f a = .fin s m e) (hb : decode f b = .fin t k g) (hk : k ≠ 0) (hm : m ≠ 0) :
    ∃ N D : Nat, D ≠ 0 ∧ N ≠ 0 ∧ SoftFloat.div f a b = ofRat f (s != t) N D ∧
      N * k * 2 ^ (g - e).toNat = m * 2 ^ (e - g).toNat * D :=
  div_exact_then_round f a b s t m k e g ha hb hk hm

/-! these can fail, and the hypotheses are met: MaxFloat64 · 2 overflows to +Inf and MaxFloat64 + MaxFloat64 too;
    1 + (−1) is +0 and (−0) + (−0) is −0; 2^-1074 / 2 rounds (tie to even) to 0; the operands decode as finite -/
set_option maxRecDepth 8000 in
example : SoftFloat.mul f64 0x7FEFFFFFFFFFFFFF 0x4000000000000000 = 0x7FF0000000000000 ∧
    SoftFloat.add f64 0x7FEFFFFFFFFFFFFF 0x7FEFFFFFFFFFFFFF = 0x7FF0000000000000 ∧
    SoftFloat.add f64 0x3FF0000000000000 0xBFF0000000000000 = 0 ∧
    SoftFloat.add f64 0x8000000000000000 0x8000000000000000 = 0x8000000000000000 ∧
    SoftFloat.div f64 1 0x4000000000000000 = 0 ∧
    decode f64 0x7FEFFFFFFFFFFFFF = .fin false (2 ^ 53 - 1) 971 ∧ decode f64 0x4000000000000000 = .fin false (2 ^ 52) (-51) := by
  decide

/-- **`-` is correctly rounded too**: for every right operand that is not a NaN, `a - b` IS `a + (−b)`, and `−b` only
    flips the decoded sign (`float_add_correctly_rounded` applies with `t` negated); in particular `x − x = +0` for
    every finite `x` — the round-to-nearest sign of an exact zero difference -/
theorem float_sub_correctly_rounded (f : Fmt) (a b : Nat) :
    (decode f b ≠ .nan → SoftFloat.sub f a b = SoftFloat.add f a (SoftFloat.neg f b)) ∧
    (decode f b = .nan → SoftFloat.sub f a b = f.nanBits) ∧
    decode f (SoftFloat.neg f b) = (match decode f b with
      | .nan => .nan | .inf s => .inf (!s) | .fin s m e => .fin (!s) m e) ∧
    (∀ s m e, decode f a = .fin s m e → SoftFloat.sub f a a = 0) := by
  refine ⟨sub_eq_add_neg f a b, ?_, decode_neg f b, fun s m e h => sub_self f a s m e h⟩
  intro h
  unfold SoftFloat.sub
  by_cases hn : isNaN f b = true
  · simp [hn]
  · have hn' : isNaN f b = false := by simpa using hn
    have h2 : decode f (SoftFloat.neg f b) = .nan := by rw [decode_neg, h]
    simp [hn', SoftFloat.add, h2]
    cases decode f a <;> rfl

/-- **the special values of `+ * /`** by decoded class, one finite case split: NaN propagates; `Inf + Inf` is that
    infinity for equal signs and NaN for opposite ones (so `Inf − Inf = NaN` through `float_sub_correctly_rounded`);
    `Inf ± finite` is the infinity; `Inf · Inf`, `Inf · finite≠0` are infinities of the product sign, `0 · Inf` is NaN;
    `Inf / Inf` is NaN, `Inf / finite` an infinity, `finite / Inf` a zero of the quotient sign; plain IEEE
    `finite≠0 / 0 = ±Inf`, `0 / 0 = NaN` — which the evaluator never reaches: its own `r == 0` test answers first
    (`float_div_by_zero_configured`, contrast `float_zero_test_is_needed`) -/
theorem float_special_values (f : Fmt) (a b : Nat) :
    (decode f a = .nan → SoftFloat.add f a b = f.nanBits ∧ SoftFloat.mul f a b = f.nanBits ∧ SoftFloat.div f a b = f.nanBits) ∧
    (decode f b = .nan → SoftFloat.add f a b = f.nanBits ∧ SoftFloat.mul f a b = f.nanBits ∧ SoftFloat.div f a b = f.nanBits) ∧
    (∀ s t, decode f a = .inf s → decode f b = .inf t →
      SoftFloat.add f a b = (if s == t then a else f.nanBits) ∧ SoftFloat.mul f a b = withSign f (s != t) f.infBits ∧
      SoftFloat.div f a b = f.nanBits) ∧
    (∀ s t k g, decode f a = .inf s → decode f b = .fin t k g →
      SoftFloat.add f a b = a ∧ SoftFloat.mul f a b = (if k = 0 then f.nanBits else withSign f (s != t) f.infBits) ∧
      SoftFloat.div f a b = withSign f (s != t) f.infBits) ∧
    (∀ s t m e, decode f a = .fin s m e → decode f b = .inf t →
      SoftFloat.add f a b = b ∧ SoftFloat.mul f a b = (if m = 0 then f.nanBits else withSign f (s != t) f.infBits) ∧
      SoftFloat.div f a b = withSign f (s != t) 0) ∧
    (∀ s t m e g, decode f a = .fin s m e → decode f b = .fin t 0 g →
      SoftFloat.div f a b = (if m = 0 then f.nanBits else withSign f (s != t) f.infBits)) :=
  special_values f a b

/-- **`floor` / `ceil` / `round` of the evaluators** (`math.Floor/Ceil/Round`) on a finite value `± m·2^e`: an integral
    value or a zero is returned unchanged; otherwise (`|x| = m / 2^(-e)`, not integral in general) the result is the
    float of the INTEGER the mathematical function gives — `ofRat s N 1`, the signed zero when `N = 0` — with
    floor: `N ≤ |x| < N+1` for `x > 0`, `N−1 < |x| ≤ N` for `x < 0`; ceil the other way round; round:
    `N ≤ |x| + 1/2 < N + 1` for BOTH signs, i.e. halves go away from zero (own-c09-38, round-half-even, is the
    contrast the streams catch) -/
theorem float_integral_functions (f : Fmt) (b : Nat) (s : Bool) (m : Nat) (e : Int) (hb : decode f b = .fin s m e) :
    ((0 ≤ e ∨ m = 0) → SoftFloat.floor f b = b ∧ SoftFloat.ceil f b = b ∧ SoftFloat.round f b = b) ∧
    (¬ (0 ≤ e ∨ m = 0) →
      ∃ Nf Nc Nr : Nat,
        SoftFloat.floor f b = (if Nf = 0 then withSign f s 0 else ofRat f s Nf 1) ∧
        SoftFloat.ceil f b = (if Nc = 0 then withSign f s 0 else ofRat f s Nc 1) ∧
        SoftFloat.round f b = (if Nr = 0 then withSign f s 0 else ofRat f s Nr 1) ∧
        (s = false → Nf * 2 ^ (-e).toNat ≤ m ∧ m < (Nf + 1) * 2 ^ (-e).toNat) ∧
        (s = true → m ≤ Nf * 2 ^ (-e).toNat ∧ Nf * 2 ^ (-e).toNat < m + 2 ^ (-e).toNat) ∧
        (s = true → Nc * 2 ^ (-e).toNat ≤ m ∧ m < (Nc + 1) * 2 ^ (-e).toNat) ∧
        (s = false → m ≤ Nc * 2 ^ (-e).toNat ∧ Nc * 2 ^ (-e).toNat < m + 2 ^ (-e).toNat) ∧
        (2 * Nr * 2 ^ (-e).toNat ≤ 2 * m + 2 ^ (-e).toNat ∧ 2 * m + 2 ^ (-e).toNat < (2 * Nr + 2) * 2 ^ (-e).toNat) ∧
        (Nf ≤ m / 2 ^ (-e).toNat + 1 ∧ Nc ≤ m / 2 ^ (-e).toNat + 1 ∧ Nr ≤ m / 2 ^ (-e).toNat + 1)) :=
  integral_functions f b s m e hb

/-- … and those results are EXACTLY the integers: an integer `N` chosen for a non-integral finite value of the format
    (`N ≤ ⌊|x|⌋ + 1`, the last conjunct above) is below `2^(mb+1)`, and the float `ofRat neg N 1` of such an integer
    decodes to `± q·2^E` with `E ≤ 0`, `q = N·2^(-E)` — the value `± N`, no rounding and no overflow — in every format
    whose exponent range holds its integers (binary64 and binary32: the `example` below) -/
theorem float_integer_results_exact (f : Fmt) (heb : 1 ≤ f.eb) (hemin : f.emin ≤ 0)
    (hfmt : f.bias + f.mb + 1 < f.emaxField) (b : Nat) (s : Bool) (m : Nat) (e : Int)
    (hb : decode f b = .fin s m e) (he : e < 0) (neg : Bool) (N : Nat) (hN0 : N ≠ 0)
    (hN : N ≤ m / 2 ^ (-e).toNat + 1) :
    ∃ (q : Nat) (E : Int), decode f (ofRat f neg N 1) = .fin neg q E ∧ E ≤ 0 ∧ q = N * 2 ^ (-E).toNat :=
  ofRat_int_exact f heb neg N hN0 (integral_pick_small f b s m e hb he N hN) hemin hfmt

example : (1 ≤ f64.eb ∧ f64.emin ≤ 0 ∧ f64.bias + f64.mb + 1 < f64.emaxField) ∧
    (1 ≤ f32.eb ∧ f32.emin ≤ 0 ∧ f32.bias + f32.mb + 1 < f32.emaxField) := by decide

/-- NOT proved — `math.Mod`: for finite `a = ± m·2^e` and non-zero finite `b = ± k·2^g`, `fmod` returns the float whose
    value is EXACTLY the remainder of the truncated division of the decoded values, with the sign of `a` (no rounding
    is involved: the remainder is a multiple of `2^min(e,g)` below `|b|`).  What is missing: that `ofScaled s R x` of
    `R < k·2^(g-x)` is exact, i.e. that the remainder fits the mantissa at the exponent `roundMag` chooses (a bound on
    `R.log2` against `k`'s, then `rne_exact`); the definition is `SoftFloat.fmod`, tied by the flval stream -/
def float_fmod_Statement : Prop :=
  ∀ (f : Fmt) (a b : Nat) (s t : Bool) (m k : Nat) (e g : Int), decode f a = .fin s m e → decode f b = .fin t k g →
    k ≠ 0 → ∃ (x : Int) (R : Nat), (x = e ∨ x = g) ∧ x ≤ e ∧ x ≤ g ∧
      R = (m * 2 ^ (e - x).toNat) % (k * 2 ^ (g - x).toNat) ∧
      (R = 0 → SoftFloat.fmod f a b = withSign f s 0) ∧
      (R ≠ 0 → ∃ q E, decode f (SoftFloat.fmod f a b) = .fin s q E ∧ (q : Int) * 2 ^ (E - x).toNat = R * 2 ^ (x - E).toNat)

/-! the theorems above can fail and their hypotheses are met: round(2.5) = 3, round(−2.5) = −3 (away from zero),
    floor(−0.5) = −1, ceil(−0.5) = −0, Inf − Inf = NaN, 0 · Inf = NaN, 1.5 − 1.5 = +0 -/
set_option maxRecDepth 8000 in
example : SoftFloat.round f64 0x4004000000000000 = 0x4008000000000000 ∧
    SoftFloat.round f64 0xC004000000000000 = 0xC008000000000000 ∧
    SoftFloat.floor f64 0xBFE0000000000000 = 0xBFF0000000000000 ∧
    SoftFloat.ceil f64 0xBFE0000000000000 = 0x8000000000000000 ∧
    SoftFloat.sub f64 0x7FF0000000000000 0x7FF0000000000000 = f64.nanBits ∧
    SoftFloat.mul f64 0 0x7FF0000000000000 = f64.nanBits ∧
    SoftFloat.sub f64 0x3FF8000000000000 0x3FF8000000000000 = 0 ∧
    decode f64 0x4004000000000000 = .fin false 0x14000000000000 (-51) := by decide

end FloatRounding

/-! ## literals with an exponent inside the FIXED evaluator (`FixedFrom` → `f64.FromString` → `strconv.ParseFloat`, then
    `From[T](float64)`), computed with the IEEE-754 model -/
section FixedExponent
open EvalFixed

/-- operands written with an exponent (`1e2`, `2.5E-1`, also `1_0e1`, `0x1.8p1e`-style hexadecimal floats; "technically
    not valid input, but we'll try to convert it anyway"): `FixedFrom` = `f64.FromString` takes them through
    `strconv.ParseFloat(str, 64)` and `From[T](f) = Int[T](f * float64(Multiplier))` — the C04 model
    `FixedText.expBranch64` (every grammar of ParseFloat; ONE float64 product, truncated toward zero); only a value
    beyond `int64` is left to the implementation (`outside`) -/
theorem fixed_exponent_literal (c : Cfg) (s : Bytes) (he : FixedText.fromStr64 c.places c.mult s = .exp) :
    fixedFrom c (.str s) = (match FixedText.expBranch64 c.mult (FixedText.stripCommas s) with
      | .ok v => .ok v | .err => .err | .implDefined => .outside | .panic => .outside) := by
  simp only [fixedFrom, FixedText.fromStrX64, he]
  cases FixedText.expBranch64 c.mult (FixedText.stripCommas s) <;> rfl

/-! non-vacuity and ground truth: `1e2` is 100 in D4; `1.15e0` is 1.14 in D2 (the float64 product 1.15 · 100 =
    114.99999999999999 is truncated — the library's own arithmetic; `1.15` without exponent is 1.15); an underscore
    literal and a hexadecimal float are read as Go reads them; `1e400` is an error (ErrRange); `1e19` leaves int64 -/
set_option maxRecDepth 8000 in
example : fixedFrom ⟨4, 10000, true⟩ (.str (symBytes "1e2")) = .ok 1000000 ∧
    fixedFrom ⟨2, 100, true⟩ (.str (symBytes "1.15e0")) = .ok 114 ∧
    fixedFrom ⟨2, 100, true⟩ (.str (symBytes "1.15")) = .ok 115 ∧
    fixedFrom ⟨2, 100, true⟩ (.str (symBytes "-2.5E-1")) = .ok (-25) ∧
    fixedFrom ⟨2, 100, true⟩ (.str (symBytes "1_0e1")) = .ok 10000 ∧
    fixedFrom ⟨2, 100, true⟩ (.str (symBytes "0x1ep0")) = .ok 3000 ∧
    fixedFrom ⟨4, 10000, true⟩ (.str (symBytes "1e400")) = .err ∧
    fixedFrom ⟨4, 10000, true⟩ (.str (symBytes "true")) = .err ∧
    fixedFrom ⟨4, 10000, true⟩ (.str (symBytes "1e19")) = .outside := by decide

end FixedExponent

/-! ## the `%v` text of a float number in the string fall-backs (`fmt.Sprintf("%v", left)` of float_operators.go) -/
section FloatText
open EvalFloat

/-- the string fall-backs when a NUMBER meets a text that is not a number (`(1 + 2) + foo`): the number contributes
    its `%v` text — Go's shortest `%g`, `SoftFloat.fmtG` — which `+` concatenates and the comparisons compare
    byte-wise, on either side -/
theorem float_number_meets_text (c : Cfg) (x : Nat) (a t : Bytes) (ha : SoftFloat.parse c.fmt a = .err)
    (ht : SoftFloat.fmtG c.fmt x = some t) :
    binary c (symBytes "+") (.num x) (.str a) = .ok (.str (t ++ a)) ∧
    binary c (symBytes "+") (.str a) (.num x) = .ok (.str (a ++ t)) ∧
    binary c (symBytes "==") (.num x) (.str a) = .ok (.bool (t == a)) ∧
    binary c (symBytes "<") (.num x) (.str a) = .ok (.bool (strLt t a)) ∧
    binary c (symBytes ">=") (.str a) (.num x) = .ok (.bool (!strLt a t)) := by
  refine ⟨?_, ?_, ?_, ?_, ?_⟩ <;>
    simp [binary, symBytes, String.utf8EncodeChar, opAdd, opEq, opLt, opGe, withFallback, floatFrom, ha, fmtV, onTexts, ht]

/-! ground truth of the `%v` text (shortest digits that read back as the same float; `%e` form from exponent 6 and
    below -4; at the evaluator's own precision): 0.1 + 0.2 prints 0.30000000000000004, a million 1e+06, the float32
    nearest to 0.1 prints 0.1 and 16777216 prints 1.6777216e+07, the smallest subnormal 5e-324, and every text reads
    back as the same bit pattern -/
set_option maxRecDepth 8000 in
example : SoftFloat.fmtG SoftFloat.f64 0x3FD3333333333334 = some (symBytes "0.30000000000000004") ∧
    SoftFloat.parse SoftFloat.f64 (symBytes "0.30000000000000004") = .ok 0x3FD3333333333334 := by decide
set_option maxRecDepth 8000 in
example : SoftFloat.fmtG SoftFloat.f64 0x412E848000000000 = some (symBytes "1e+06") ∧
    SoftFloat.fmtG SoftFloat.f64 0x40FE240000000000 = some (symBytes "123456") ∧
    SoftFloat.fmtG SoftFloat.f64 0x3F1A36E2EB1C432D = some (symBytes "0.0001") ∧
    SoftFloat.fmtG SoftFloat.f64 0x3EE4F8B588E368F1 = some (symBytes "1e-05") := by decide
set_option maxRecDepth 8000 in
example : SoftFloat.fmtG SoftFloat.f32 0x3DCCCCCD = some (symBytes "0.1") ∧
    SoftFloat.fmtG SoftFloat.f32 0x4B800000 = some (symBytes "1.6777216e+07") ∧
    SoftFloat.fmtG SoftFloat.f64 1 = some (symBytes "5e-324") ∧
    SoftFloat.fmtG SoftFloat.f64 0x8000000000000000 = some (symBytes "-0") ∧
    SoftFloat.fmtG SoftFloat.f64 0x7FF0000000000000 = some (symBytes "+Inf") ∧
    SoftFloat.fmtG SoftFloat.f64 0x7FF8000000000000 = some (symBytes "NaN") := by decide

end FloatText

/-! ## the evaluator state after ANY call (accepted, rejected by `parse` at any position, failed at evaluation time) -/
section StateAfterAnyCall

/-- clause "a reused Evaluator gives the same answers as a fresh one", for the state ANY earlier call leaves: whether
    the earlier `Evaluate(t)` was accepted, rejected by `parse` at any position (the model's `leftoverOn` keeps the
    stacks of every error exit of `parse` / `processOperator` / `processFunction`, with the mutations made by then) or
    failed while evaluating the tree, the next `Evaluate(s)` on the same evaluator returns what a fresh one returns -/
theorem reuse_after_any_call (ops : List Op) (fns : List Bytes) (resolve : Option (Bytes → Bytes)) (old : St)
    (t s : Bytes) :
    (evaluateReuse ops fns resolve (evaluateReuse ops fns resolve old t).1 s).2 =
      (evaluateReuse ops fns resolve {} s).2 :=
  reuse_eq_fresh ops fns resolve _ s

/-- what the evaluator holds after a call, by outcome: the true leftover stacks after a rejected parse, the reduced
    stacks otherwise; an accepted parse leaves exactly the state `parse` returned to the final reduction -/
theorem state_after_call (ops : List Op) (fns : List Bytes) (resolve : Option (Bytes → Bytes)) (old : St) (t : Bytes) :
    (parseOn ops fns old t = .err → (evaluateReuse ops fns resolve old t).1 = leftoverOn ops fns old t) ∧
    (∀ st, parseOn ops fns old t = .ok st → leftoverOn ops fns old t = st) := by
  constructor
  · intro h; simp [evaluateReuse, evaluateWith, h]
  · intro st h
    exact parseLoopL_ok ops fns (t.length + 1) _ _ _ _ _ _ (Nat.lt_succ_self _) h

/-- CONTRAST, the shape of ind7-c09-b: `4 / - - 2` is rejected by `parse` (consecutive unary operators) while `/` is
    still pending — the evaluator keeps the operand `4` and the operator `/` — and WITHOUT the reset the next
    `Evaluate("1")` folds them in: `(4 / 1)` where the code (and a fresh evaluator) answers `1` -/
theorem reset_is_needed_after_rejection :
    (evaluateReuse stdOps [] none {} (symBytes "4 / - - 2")).2 = .err ∧
    (evaluateReuse stdOps [] none {} (symBytes "4 / - - 2")).1 = ⟨[.operand none (symBytes "4")], [⟨opOf "/", none⟩]⟩ ∧
    (evaluateNoReset stdOps [] none ⟨[.operand none (symBytes "4")], [⟨opOf "/", none⟩]⟩ (symBytes "1")).2 =
      .ok (symBytes "(4 / 1)") ∧
    (evaluateReuse stdOps [] none ⟨[.operand none (symBytes "4")], [⟨opOf "/", none⟩]⟩ (symBytes "1")).2 =
      .ok (symBytes "1") := by
  have e1 : parseLoop stdOps [] [] (symBytes "4 / - - 2") {} false none = .err := by
    rw [← parseLoopF_eq stdOps [] 12 _ _ _ _ _ (by decide)]; rfl
  have l1 : parseLoopL stdOps [] [] (symBytes "4 / - - 2") {} false none =
      ⟨[.operand none (symBytes "4")], [⟨opOf "/", none⟩]⟩ := by
    rw [← parseLoopLF_eq stdOps [] 12 _ _ _ _ _ (by decide)]; rfl
  have e2 : parseLoop stdOps [] [] (symBytes "1") ⟨[.operand none (symBytes "4")], [⟨opOf "/", none⟩]⟩ false none =
      .ok ⟨[.operand none (symBytes "1"), .operand none (symBytes "4")], [⟨opOf "/", none⟩]⟩ := by
    rw [← parseLoopF_eq stdOps [] 3 _ _ _ _ _ (by decide)]; rfl
  have e3 : parseLoop stdOps [] [] (symBytes "1") {} false none = .ok ⟨[.operand none (symBytes "1")], []⟩ := by
    rw [← parseLoopF_eq stdOps [] 3 _ _ _ _ _ (by decide)]; rfl
  refine ⟨?_, ?_, ?_, ?_⟩
  · simp only [evaluateReuse, evaluateWith, parseOn, St.reset, e1]
  · simp only [evaluateReuse, evaluateWith, parseOn, leftoverOn, St.reset, e1, l1]
  · simp only [evaluateNoReset, evaluateWith, parseOnNoReset, e2]
    rfl
  · simp only [evaluateReuse, evaluateWith, parseOn, St.reset, e3]
    rfl

end StateAfterAnyCall

end C09
