import Model.Eval
import Generated.Facts
/-! # C09 — expression evaluation follows operator precedence and never crashes -/
namespace C09
open Eval

/-- the operator table the evaluator is run with (regenerated from the source on every check) -/
def stdOps : List Op := opsOf Facts.fixedOperators

/-- precedence of the first table entry with this symbol -/
def precOf (ops : List Op) (s : String) : Option Nat := (ops.find? (fun o => o.sym == symBytes s)).map (·.prec)

/-- clause "conventional precedence": `||` below `&&` below `==,!=` below `<,<=,>,>=` below `+,-` below `*,/,%`
    below `^`, on the regenerated fixed and float tables; every one of them is a binary operator -/
theorem precedence_table :
    ∀ ops ∈ [opsOf Facts.fixedOperators, opsOf Facts.floatOperators],
      (∃ p1 p2 p3 p4 p5 p6 p7 : Nat,
        0 < p1 ∧ p1 < p2 ∧ p2 < p3 ∧ p3 < p4 ∧ p4 < p5 ∧ p5 < p6 ∧ p6 < p7 ∧
        precOf ops "||" = some p1 ∧ precOf ops "&&" = some p2 ∧
        precOf ops "==" = some p3 ∧ precOf ops "!=" = some p3 ∧
        precOf ops "<" = some p4 ∧ precOf ops "<=" = some p4 ∧ precOf ops ">" = some p4 ∧ precOf ops ">=" = some p4 ∧
        precOf ops "+" = some p5 ∧ precOf ops "-" = some p5 ∧
        precOf ops "*" = some p6 ∧ precOf ops "/" = some p6 ∧ precOf ops "%" = some p6 ∧
        precOf ops "^" = some p7) := by
  intro ops h
  simp only [List.mem_cons, List.not_mem_nil, or_false] at h
  rcases h with rfl | rfl
  · exact ⟨(precOf (opsOf Facts.fixedOperators) "||").getD 0, (precOf (opsOf Facts.fixedOperators) "&&").getD 0,
      (precOf (opsOf Facts.fixedOperators) "==").getD 0, (precOf (opsOf Facts.fixedOperators) "<").getD 0,
      (precOf (opsOf Facts.fixedOperators) "+").getD 0, (precOf (opsOf Facts.fixedOperators) "*").getD 0,
      (precOf (opsOf Facts.fixedOperators) "^").getD 0, by decide⟩
  · exact ⟨(precOf (opsOf Facts.floatOperators) "||").getD 0, (precOf (opsOf Facts.floatOperators) "&&").getD 0,
      (precOf (opsOf Facts.floatOperators) "==").getD 0, (precOf (opsOf Facts.floatOperators) "<").getD 0,
      (precOf (opsOf Facts.floatOperators) "+").getD 0, (precOf (opsOf Facts.floatOperators) "*").getD 0,
      (precOf (opsOf Facts.floatOperators) "^").getD 0, by decide⟩

end C09
