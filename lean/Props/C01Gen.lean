import Generated.SSA_Num
import Lemmas.GenTie
import Lemmas.GenTieCompose
import Lemmas.GenTieSpec
import Lemmas.GenTieShift
import Props.C01
/-! # C01, second tie — the definitions regenerated from the Go source are the verified model

`Generated/SSA_Num.lean` (namespace `Gen`) is written by `gossa/ssagen` from the typed SSA form of package `xmath/num`
of the repository's working tree on every run of `./check C01`: one Lean definition per loop-free, panic-free function
or method of the package (80 of them at the time of writing; the header of the generated file lists the translated functions and, with
the reason, the ones outside the fragment).  Each theorem `X_eq` below states that the regenerated definition of the
Go function `X` is the function of the hand-written model (`Model/U128.lean`, `Model/I128.lean`) that the theorems of
`Props/C01.lean` are about, so every specification proved there holds for *what the code says now*; the corollaries at
the end of the file spell that out for a few of them.

Encoding.  `Gen` keeps every Go integer as its 64-bit pattern (`BitVec 64`: `uint64`, `int64`, `int`, `uint`), the
model states `int` results / arguments as `Int` and `uint` ones as `Nat`; a theorem about such a function therefore
reads `(Gen.f x).toInt = model x`, `(Gen.f x).toNat = model x` or `Gen.f x n = model x n.toNat`.

The proofs use one script (`gen_tie [model definitions] [model constants]`, `Lemmas/GenTie.lean`) that does not depend
on the shape of the generated term and does not name the generated definitions (they carry the simp attributes
`gen_def` / `gen_const`): unfold, turn sign / zero tests into arithmetic, split every `if`, close by `rfl` or `omega`.
A behaviour-preserving rewrite of the Go code (switch ↔ if-chain, merged branches, swapped or commuted operands, a sign
test written as `int64(hi) < 0` or `hi>>63`, a new helper function …) is still proved; a change of behaviour makes the
corresponding theorem fail, which `./check C01` reports as a proof that no longer checks (and the differential run
looks for the concrete input).

Portfolio.  Where one script is not enough a theorem tries several, cheapest first: `gen_tie` (structural);
`tie_spec` (`Lemmas/GenTieCompose.lean`: the calls of already tied functions — simp set `gen_eq`, the theorems below in
the order they are proved — are rewritten into the model BEFORE anything is unfolded, borrow / carry chains are folded
into the model's 128-bit operations, every model function is replaced by its specification from `Props/C01.lean`, and
the statement about `toInt` / `toNat` is decided by `omega`); the shape-independent specification fallbacks of
`Lemmas/GenTieSpec.lean` (`…_of_spec` + `gen_spec`: the contracts `add64` / `sub64` unfolded into arithmetic).  So
`Neg` as `0 − i` through `bits.Sub64`, `Abs` through `Neg`, the ordering predicates through one `LessThan` and
`Int128From64`, `Mul64` through `bits.Mul64`, `Add64` through `Add`, `Dec` without `bits.Sub64` are all proved with
this one file, as is the unchanged tree.  Limits: the bit-level functions (`And … Xor64`, shifts, `Bit`, `SetBit`) and
`Mul` are compared structurally only. -/
namespace C01Gen
open U128 (W)

/-! ## Uint128: constructors, predicates, conversions -/

@[gen_eq] theorem Uint128From64_eq : Gen.Uint128From64 = U128.from64 := by
  funext v; gen_tie [U128.from64]
@[gen_eq] theorem Uint128FromComponents_eq (high low : W) : Gen.Uint128FromComponents high low = ⟨high, low⟩ := by
  gen_tie []
@[gen_eq] theorem Uint128_Components_eq (u : U128) : Gen.Uint128_Components u = (u.hi, u.lo) := by
  gen_tie []
@[gen_eq] theorem Uint128_IsZero_eq : Gen.Uint128_IsZero = U128.isZero := by
  funext u; gen_tie [U128.isZero]
@[gen_eq] theorem Uint128_IsInt128_eq : Gen.Uint128_IsInt128 = U128.isInt128 := by
  funext u; gen_tie [U128.isInt128] [U128.signBit]
@[gen_eq] theorem Uint128_AsInt128_eq : Gen.Uint128_AsInt128 = I128.ofU := by
  funext u; gen_tie [I128.ofU]
@[gen_eq] theorem Uint128_IsUint64_eq : Gen.Uint128_IsUint64 = U128.isUint64 := by
  funext u; gen_tie [U128.isUint64]
@[gen_eq] theorem Uint128_AsUint64_eq : Gen.Uint128_AsUint64 = U128.asUint64 := by
  funext u; gen_tie [U128.asUint64]

/-! ## Uint128: add, subtract, multiply -/

@[gen_eq] theorem Uint128_Add_eq : Gen.Uint128_Add = U128.add := by
  funext u n
  first
  | gen_tie [U128.add]
  | (apply GenTieSpec.add_of_spec; gen_spec)
@[gen_eq] theorem Uint128_Add64_eq : Gen.Uint128_Add64 = U128.addW := by
  funext u n
  first
  | gen_tie [U128.addW]
  | (apply GenTieSpec.addW_of_spec; gen_spec)
@[gen_eq] theorem Uint128_Sub_eq : Gen.Uint128_Sub = U128.sub := by
  funext u n
  first
  | gen_tie [U128.sub]
  | (apply GenTieSpec.sub_of_spec; gen_spec)
@[gen_eq] theorem Uint128_Sub64_eq : Gen.Uint128_Sub64 = U128.subW := by
  funext u n
  first
  | gen_tie [U128.subW]
  | (apply GenTieSpec.subW_of_spec; gen_spec)
@[gen_eq] theorem Uint128_Inc_eq : Gen.Uint128_Inc = U128.inc := by
  funext u
  first
  | gen_tie [U128.inc]
  | (apply GenTieSpec.inc_of_spec; gen_spec)
@[gen_eq] theorem Uint128_Dec_eq : Gen.Uint128_Dec = U128.dec := by
  funext u
  first
  | gen_tie [U128.dec]
  | (apply GenTieSpec.dec_of_spec; gen_spec)
@[gen_eq] theorem Uint128_Mul_eq : Gen.Uint128_Mul = U128.mul := by
  funext u n; gen_tie [U128.mul]
@[gen_eq] theorem Uint128_Mul64_eq : Gen.Uint128_Mul64 = U128.mulW := by
  funext u n
  first
  | gen_tie [U128.mulW] [U128.mask32]
  | (apply U128.toNat_inj; simp only [Gen.Uint128_Mul64, GenTieCompose.mul64_chain, C01.mul64_spec])
  | (gen_tie [GenTieSpec.mulW_eq_mul64])

/-! ## Uint128: ordering -/

@[gen_eq] theorem Uint128_Cmp_eq (u n : U128) : (Gen.Uint128_Cmp u n).toInt = U128.cmp u n := by
  gen_tie [U128.cmp]
@[gen_eq] theorem Uint128_Cmp64_eq (u : U128) (n : W) : (Gen.Uint128_Cmp64 u n).toInt = U128.cmpW u n := by
  gen_tie [U128.cmpW]
@[gen_eq] theorem Uint128_GreaterThan_eq : Gen.Uint128_GreaterThan = U128.greaterThan := by
  funext u n; gen_tie [U128.greaterThan]
@[gen_eq] theorem Uint128_GreaterThan64_eq : Gen.Uint128_GreaterThan64 = U128.greaterThanW := by
  funext u n; gen_tie [U128.greaterThanW]
@[gen_eq] theorem Uint128_GreaterThanOrEqual_eq : Gen.Uint128_GreaterThanOrEqual = U128.greaterThanOrEqual := by
  funext u n; gen_tie [U128.greaterThanOrEqual]
@[gen_eq] theorem Uint128_GreaterThanOrEqual64_eq : Gen.Uint128_GreaterThanOrEqual64 = U128.greaterThanOrEqualW := by
  funext u n; gen_tie [U128.greaterThanOrEqualW]
@[gen_eq] theorem Uint128_Equal_eq : Gen.Uint128_Equal = U128.equal := by
  funext u n; gen_tie [U128.equal]
@[gen_eq] theorem Uint128_Equal64_eq : Gen.Uint128_Equal64 = U128.equalW := by
  funext u n; gen_tie [U128.equalW]
@[gen_eq] theorem Uint128_LessThan_eq : Gen.Uint128_LessThan = U128.lessThan := by
  funext u n; gen_tie [U128.lessThan]
@[gen_eq] theorem Uint128_LessThan64_eq : Gen.Uint128_LessThan64 = U128.lessThanW := by
  funext u n; gen_tie [U128.lessThanW]
@[gen_eq] theorem Uint128_LessThanOrEqual_eq : Gen.Uint128_LessThanOrEqual = U128.lessThanOrEqual := by
  funext u n; gen_tie [U128.lessThanOrEqual]
@[gen_eq] theorem Uint128_LessThanOrEqual64_eq : Gen.Uint128_LessThanOrEqual64 = U128.lessThanOrEqualW := by
  funext u n; gen_tie [U128.lessThanOrEqualW]

/-! ## Uint128: bit queries (Go `int` / `uint` results as numbers) -/

@[gen_eq] theorem Uint128_BitLen_eq (u : U128) : (Gen.Uint128_BitLen u).toNat = U128.bitLen u := by
  gen_tie [U128.bitLen]
@[gen_eq] theorem Uint128_OnesCount_eq (u : U128) : (Gen.Uint128_OnesCount u).toNat = U128.onesCount u := by
  gen_tie [U128.onesCount]
@[gen_eq] theorem Uint128_LeadingZeros_eq (u : U128) : (Gen.Uint128_LeadingZeros u).toNat = U128.leadingZeros u := by
  gen_tie [U128.leadingZeros]
@[gen_eq] theorem Uint128_TrailingZeros_eq (u : U128) : (Gen.Uint128_TrailingZeros u).toNat = U128.trailingZeros u := by
  gen_tie [U128.trailingZeros]
@[gen_eq] theorem Uint128_Bit_eq (u : U128) (i : W) : (Gen.Uint128_Bit u i).toNat = U128.bit u i.toInt := by
  gen_tie [GenTie.bit_w]
@[gen_eq] theorem Uint128_SetBit_eq (u : U128) (i b : W) : Gen.Uint128_SetBit u i b = U128.setBit u i.toInt b.toNat := by
  gen_tie [GenTie.setBit_w]

/-! ## Uint128: bitwise operations and shifts -/

@[gen_eq] theorem Uint128_Not_eq : Gen.Uint128_Not = U128.not := by
  funext u; gen_tie [U128.not]
@[gen_eq] theorem Uint128_And_eq : Gen.Uint128_And = U128.and := by
  funext u n; gen_tie [U128.and]
@[gen_eq] theorem Uint128_And64_eq : Gen.Uint128_And64 = U128.andW := by
  funext u n; gen_tie [U128.andW]
@[gen_eq] theorem Uint128_AndNot_eq : Gen.Uint128_AndNot = U128.andNot := by
  funext u n; gen_tie [U128.andNot]
@[gen_eq] theorem Uint128_AndNot64_eq : Gen.Uint128_AndNot64 = U128.andNot64 := by
  funext u n; gen_tie [U128.andNot64]
@[gen_eq] theorem Uint128_Or_eq : Gen.Uint128_Or = U128.or := by
  funext u n; gen_tie [U128.or]
@[gen_eq] theorem Uint128_Or64_eq : Gen.Uint128_Or64 = U128.orW := by
  funext u n; gen_tie [U128.orW]
@[gen_eq] theorem Uint128_Xor_eq : Gen.Uint128_Xor = U128.xor := by
  funext u n; gen_tie [U128.xor]
@[gen_eq] theorem Uint128_Xor64_eq : Gen.Uint128_Xor64 = U128.xorW := by
  funext u n; gen_tie [U128.xorW]
@[gen_eq] theorem Uint128_LeftShift_eq (u : U128) (n : W) : Gen.Uint128_LeftShift u n = U128.leftShift u n.toNat := by
  first
  | gen_tie [U128.leftShift, U128.shl_eq]
  | shift_tie [Gen.Uint128_LeftShift, U128.leftShift] on n
@[gen_eq] theorem Uint128_RightShift_eq (u : U128) (n : W) : Gen.Uint128_RightShift u n = U128.rightShift u n.toNat := by
  first
  | gen_tie [U128.rightShift, U128.shr_eq]
  | shift_tie [Gen.Uint128_RightShift, U128.rightShift] on n

/-! ## Int128: constructors, predicates, conversions -/

@[gen_eq] theorem Int128From64_eq : Gen.Int128From64 = I128.from64 := by
  funext v
  first
  | gen_tie [I128.from64, I128.ext64, I128.neg64] [I128.maxU64]
  | (apply I128.toInt_inj; rw [I128.from64_toInt]; gen_spec)
@[gen_eq] theorem Int128FromUint64_eq : Gen.Int128FromUint64 = I128.fromUint64 := by
  funext v; gen_tie [I128.fromUint64]
@[gen_eq] theorem Int128FromComponents_eq (high low : W) : Gen.Int128FromComponents high low = ⟨high, low⟩ := by
  gen_tie []
@[gen_eq] theorem Int128_Components_eq (i : I128) : Gen.Int128_Components i = (i.hi, i.lo) := by
  gen_tie []
@[gen_eq] theorem Int128_IsZero_eq : Gen.Int128_IsZero = I128.isZero := by
  funext i; gen_tie [I128.isZero]
@[gen_eq] theorem Int128_IsUint128_eq : Gen.Int128_IsUint128 = I128.isUint128 := by
  funext i; gen_tie [I128.isUint128] [U128.signBit]
@[gen_eq] theorem Int128_AsUint128_eq : Gen.Int128_AsUint128 = I128.toU := by
  funext i; gen_tie [I128.toU]
@[gen_eq] theorem Int128_IsInt64_eq : Gen.Int128_IsInt64 = I128.isInt64 := by
  funext i; gen_tie [I128.isInt64] [I128.maxU64, I128.maxI64, U128.signBit]
@[gen_eq] theorem Int128_AsInt64_eq : Gen.Int128_AsInt64 = I128.asInt64 := by
  funext i; gen_tie [I128.asInt64] [U128.signBit]
@[gen_eq] theorem Int128_IsUint64_eq : Gen.Int128_IsUint64 = I128.isUint64 := by
  funext i; gen_tie [I128.isUint64]
@[gen_eq] theorem Int128_AsUint64_eq : Gen.Int128_AsUint64 = I128.asUint64 := by
  funext i; gen_tie [I128.asUint64]

/-! ## Int128: add, subtract, multiply, negate -/

@[gen_eq] theorem Int128_Add_eq : Gen.Int128_Add = I128.add := by
  funext i n
  first
  | gen_tie [I128.add]
  | (apply GenTieSpec.iadd_of_spec; gen_spec)
@[gen_eq] theorem Int128_Add64_eq : Gen.Int128_Add64 = I128.addW := by
  funext i n; gen_tie [I128.addW, I128.neg64] [I128.maxU64]
@[gen_eq] theorem Int128_Sub_eq : Gen.Int128_Sub = I128.sub := by
  funext i n
  first
  | gen_tie [I128.sub]
  | (apply GenTieSpec.isub_of_spec; gen_spec)
@[gen_eq] theorem Int128_Sub64_eq : Gen.Int128_Sub64 = I128.subW := by
  funext i n; gen_tie [I128.subW, I128.neg64] [I128.maxU64]
@[gen_eq] theorem Int128_Inc_eq : Gen.Int128_Inc = I128.inc := by
  funext i
  first
  | gen_tie [I128.inc, U128.inc, I128.ofU, I128.toU]
  | (simp only [Gen.Int128_Inc, gen_eq]; rfl)
@[gen_eq] theorem Int128_Dec_eq : Gen.Int128_Dec = I128.dec := by
  funext i
  first
  | gen_tie [I128.dec, U128.dec, I128.ofU, I128.toU]
  | (simp only [Gen.Int128_Dec, gen_eq]; rfl)
@[gen_eq] theorem Int128_Mul_eq : Gen.Int128_Mul = I128.mul := by
  funext i n
  first
  | -- the same sum of products, possibly regrouped (`omega` proves a regrouping too, but with a proof term that the
    -- kernel needs minutes to check)
    (simp only [gen_def, I128.mul, eq_self_iff_true]; first | done | with_reducible rfl | ac_rfl)
  | gen_tie [I128.mul]
@[gen_eq] theorem Int128_Mul64_eq : Gen.Int128_Mul64 = I128.mulW := by
  funext i n
  first
  | gen_tie [I128.mulW, I128.mul, I128.from64, I128.ext64, I128.neg64] [I128.maxU64]
  | (simp only [Gen.Int128_Mul64, gen_eq]; rfl)
@[gen_eq] theorem Int128_Sign_eq (i : I128) : (Gen.Int128_Sign i).toInt = I128.sign i := by
  gen_tie [I128.sign] [U128.signBit]
@[gen_eq] theorem Int128_Neg_eq : Gen.Int128_Neg = I128.neg := by
  funext i
  first
  | gen_tie [I128.neg] [I128.minI128, U128.signBit]
  | (apply I128.toInt_inj; have := GenTieCompose.toInt_bounds i; tie_spec [Gen.Int128_Neg])
  | (apply GenTieSpec.neg_of_spec; gen_spec)
@[gen_eq] theorem Int128_Abs_eq : Gen.Int128_Abs = I128.abs := by
  funext i
  first
  | gen_tie [I128.abs] [U128.signBit]
  | (apply I128.toInt_inj; have := GenTieCompose.toInt_bounds i; tie_spec [Gen.Int128_Abs])
  | (apply GenTieSpec.abs_of_spec <;> intro h <;> gen_spec)
@[gen_eq] theorem Int128_AbsUint128_eq : Gen.Int128_AbsUint128 = I128.absUint128 := by
  funext i
  first
  | gen_tie [I128.absUint128, I128.toU] [I128.minI128, U128.signBit]
  | (apply U128.toNat_inj; refine Int.natCast_inj.mp ?_; have := GenTieCompose.toInt_bounds i; tie_spec [Gen.Int128_AbsUint128])
  | (apply GenTieSpec.absUint128_of_spec <;> intro h <;> gen_spec)

/-! ## Int128: ordering -/

@[gen_eq] theorem Int128_LessThan_eq : Gen.Int128_LessThan = I128.lessThan := by
  funext i n
  first
  | gen_tie [I128.lessThan, I128.ltHL] [U128.signBit]
  | (rw [C01.ilt_spec]; gen_spec)
@[gen_eq] theorem Int128_Cmp_eq (i n : I128) : (Gen.Int128_Cmp i n).toInt = I128.cmp i n := by
  first
  | gen_tie [I128.cmp, I128.cmpHL] [U128.signBit]
  | (tie_spec [Gen.Int128_Cmp])
  | (rw [C01.icmp_spec]; apply GenTieSpec.cmp_of_spec <;> intro h <;> gen_spec)
@[gen_eq] theorem Int128_Cmp64_eq (i : I128) (n : W) : (Gen.Int128_Cmp64 i n).toInt = I128.cmpW i n := by
  first
  | (tie_spec [Gen.Int128_Cmp64])
  | gen_tie [I128.cmpW, I128.cmpHL, I128.ext64, I128.neg64] [I128.maxU64, U128.signBit]
@[gen_eq] theorem Int128_GreaterThan_eq : Gen.Int128_GreaterThan = I128.greaterThan := by
  funext i n
  first
  | gen_tie [I128.greaterThan, I128.gtHL] [U128.signBit]
  | (tie_spec [Gen.Int128_GreaterThan])
  | (rw [C01.igt_spec]; gen_spec)
@[gen_eq] theorem Int128_GreaterThan64_eq : Gen.Int128_GreaterThan64 = I128.greaterThanW := by
  funext i n
  first
  | gen_tie [I128.greaterThanW, I128.gtHL, I128.ext64, I128.neg64] [I128.maxU64, U128.signBit]
  | (tie_spec [Gen.Int128_GreaterThan64])
  | (rw [C01.igt64_spec]; gen_spec)
@[gen_eq] theorem Int128_GreaterThanOrEqual_eq : Gen.Int128_GreaterThanOrEqual = I128.greaterThanOrEqual := by
  funext i n
  first
  | gen_tie [I128.greaterThanOrEqual, I128.geHL] [U128.signBit]
  | (tie_spec [Gen.Int128_GreaterThanOrEqual])
  | (rw [C01.ige_spec]; gen_spec)
@[gen_eq] theorem Int128_GreaterThanOrEqual64_eq : Gen.Int128_GreaterThanOrEqual64 = I128.greaterThanOrEqualW := by
  funext i n
  first
  | gen_tie [I128.greaterThanOrEqualW, I128.geHL, I128.ext64, I128.neg64] [I128.maxU64, U128.signBit]
  | (tie_spec [Gen.Int128_GreaterThanOrEqual64])
  | (rw [C01.ige64_spec]; gen_spec)
@[gen_eq] theorem Int128_Equal_eq : Gen.Int128_Equal = I128.equal := by
  funext i n
  first
  | gen_tie [I128.equal]
  | (rw [C01.ieq_spec]; gen_spec)
@[gen_eq] theorem Int128_Equal64_eq : Gen.Int128_Equal64 = I128.equalW := by
  funext i n
  first
  | gen_tie [I128.equalW, I128.ext64, I128.neg64] [I128.maxU64]
  | (tie_spec [Gen.Int128_Equal64])
  | (rw [C01.ieq64_spec]; gen_spec)
@[gen_eq] theorem Int128_LessThan64_eq : Gen.Int128_LessThan64 = I128.lessThanW := by
  funext i n
  first
  | gen_tie [I128.lessThanW, I128.ltHL, I128.ext64, I128.neg64] [I128.maxU64, U128.signBit]
  | (tie_spec [Gen.Int128_LessThan64])
  | (rw [C01.ilt64_spec]; gen_spec)
@[gen_eq] theorem Int128_LessThanOrEqual_eq : Gen.Int128_LessThanOrEqual = I128.lessThanOrEqual := by
  funext i n
  first
  | gen_tie [I128.lessThanOrEqual, I128.leHL] [U128.signBit]
  | (tie_spec [Gen.Int128_LessThanOrEqual])
  | (rw [C01.ile_spec]; gen_spec)
@[gen_eq] theorem Int128_LessThanOrEqual64_eq : Gen.Int128_LessThanOrEqual64 = I128.lessThanOrEqualW := by
  funext i n
  first
  | gen_tie [I128.lessThanOrEqualW, I128.leHL, I128.ext64, I128.neg64] [I128.maxU64, U128.signBit]
  | (tie_spec [Gen.Int128_LessThanOrEqual64])
  | (rw [C01.ile64_spec]; gen_spec)

/-! ## transported specifications

Because `X_eq` identifies the regenerated definition with the model function, every theorem of `Props/C01.lean` about
that function is a theorem about the code as it is now.  A few of them, spelled out. -/

/-- `Uint128.Add`, as read from the source, is addition mod 2^128 (`C01.add_spec`) -/
theorem gen_add_spec (a b : U128) : (Gen.Uint128_Add a b).toNat = (a.toNat + b.toNat) % 2^128 := by
  rw [Uint128_Add_eq]; exact C01.add_spec a b
/-- `Uint128.Sub` is subtraction mod 2^128 (`C01.sub_spec`) -/
theorem gen_sub_spec (a b : U128) : (Gen.Uint128_Sub a b).toNat = (a.toNat + 2^128 - b.toNat) % 2^128 := by
  rw [Uint128_Sub_eq]; exact C01.sub_spec a b
/-- `Uint128.Mul` is multiplication mod 2^128 (`C01.mul_spec`) -/
theorem gen_mul_spec (a b : U128) : (Gen.Uint128_Mul a b).toNat = (a.toNat * b.toNat) % 2^128 := by
  rw [Uint128_Mul_eq]; exact C01.mul_spec a b
/-- `Uint128.Mul64` is multiplication by the word mod 2^128 (`C01.mul64_spec`) -/
theorem gen_mul64_spec (a : U128) (n : W) : (Gen.Uint128_Mul64 a n).toNat = (a.toNat * n.toNat) % 2^128 := by
  rw [Uint128_Mul64_eq]; exact C01.mul64_spec a n
/-- `Uint128.Cmp` returns the Go `int` −1 / 0 / 1 according to the order of the values (`C01.cmp_spec`) -/
theorem gen_cmp_spec (a b : U128) :
    (Gen.Uint128_Cmp a b).toInt = if a.toNat < b.toNat then -1 else if a.toNat = b.toNat then 0 else 1 := by
  rw [Uint128_Cmp_eq]; exact C01.cmp_spec a b
/-- `Uint128.LessThan` is `<` on the values (`C01.lessThan_spec`) -/
theorem gen_lessThan_spec (a b : U128) : Gen.Uint128_LessThan a b = decide (a.toNat < b.toNat) := by
  rw [Uint128_LessThan_eq]; exact C01.lessThan_spec a b
/-- `Uint128.RightShift` by any Go `uint` count is division by 2^n (`C01.shr_spec`) -/
theorem gen_rightShift_spec (a : U128) (n : W) : (Gen.Uint128_RightShift a n).toNat = a.toNat / 2^n.toNat := by
  rw [Uint128_RightShift_eq]; exact C01.shr_spec a n.toNat
/-- `Uint128.LeftShift` by any Go `uint` count is multiplication by 2^n mod 2^128 (`C01.shl_spec`) -/
theorem gen_leftShift_spec (a : U128) (n : W) :
    (Gen.Uint128_LeftShift a n).toNat = (a.toNat * 2^n.toNat) % 2^128 := by
  rw [Uint128_LeftShift_eq]; exact C01.shl_spec a n.toNat
/-- `Uint128.OnesCount` counts the set bits of the 128-bit value (`C01.onesCount_spec`, the statement the fixed defect
    violated) -/
theorem gen_onesCount_spec (a : U128) :
    (Gen.Uint128_OnesCount a).toNat = (List.range 128).countP (fun i => a.toNat.testBit i) := by
  rw [Uint128_OnesCount_eq]; exact C01.onesCount_spec a
/-- `Uint128.Bit(i)` for every Go `int` index (`C01.bit_spec`) -/
theorem gen_bit_spec (a : U128) (i : W) :
    (Gen.Uint128_Bit a i).toNat = if 0 ≤ i.toInt ∧ i.toInt < 128 ∧ a.toNat.testBit i.toInt.toNat then 1 else 0 := by
  rw [Uint128_Bit_eq]; exact C01.bit_spec a i.toInt
/-- `Int128.Neg` is negation in two's complement (`C01.neg_spec`) -/
theorem gen_neg_spec (a : I128) : (Gen.Int128_Neg a).toInt = I128.wrap128 (- a.toInt) := by
  rw [Int128_Neg_eq]; exact C01.neg_spec a
/-- `Int128.Sub64` subtracts the `int64` (`C01.isub64_spec`) -/
theorem gen_isub64_spec (a : I128) (n : W) :
    (Gen.Int128_Sub64 a n).toInt = I128.wrap128 (a.toInt - I128.int64Val n) := by
  rw [Int128_Sub64_eq]; exact C01.isub64_spec a n
/-- `Int128.Cmp64` agrees with the order of ℤ (`C01.icmp64_spec`) -/
theorem gen_icmp64_spec (a : I128) (n : W) :
    (Gen.Int128_Cmp64 a n).toInt =
      if a.toInt < I128.int64Val n then -1 else if a.toInt = I128.int64Val n then 0 else 1 := by
  rw [Int128_Cmp64_eq]; exact C01.icmp64_spec a n
/-- `Int128.LessThan` is `<` on ℤ (`C01.ilt_spec`) -/
theorem gen_ilt_spec (a b : I128) : Gen.Int128_LessThan a b = decide (a.toInt < b.toInt) := by
  rw [Int128_LessThan_eq]; exact C01.ilt_spec a b

end C01Gen
