import Generated.SSA_F64
import Lemmas.GenTieFixed
import Props.C03
/-! # C03, second tie — the f64 definitions regenerated from the Go source are the verified model

`Generated/SSA_F64.lean` (namespace `Gen`) is written by `gossa/ssagen … f64` from the typed SSA form of the packages
`xmath/fixed` and `xmath/fixed/f64` of the repository's working tree on every run of `./check C03`.  The methods of
`f64.Int[T]` are generic over `T fixed.Dx`; their generic body is translated ONCE, the type parameter becoming the
dictionary `(T_Multiplier T_Places : BitVec 64)` = the values of `T.Multiplier()` / `T.Places()` on the zero value of
`T`.  The configurations `fixed.D1 … D16` are translated as they are; `Fixed_Dk_row` ties each of them to row `k` of the
regenerated table `Facts.fixedConfigs` (which the hand-written model and the driver read), so `f64.Int[Dk]` is the
generic definition at the dictionary `(Gen.Fixed_Dk_Multiplier 0, Gen.Fixed_Dk_Places 0)` and `Fixed_Dk_Mult` supplies
the hypothesis `Mult M.toInt` of the theorems below.

A theorem `X_eq` says: `toInt` of the regenerated definition is the model function (`Model/Fixed.lean`: raw `Int`s
reduced by `wrap64` after every machine operation) at the `toInt`s of the arguments — for every argument, wrap-around
included.  `Mul` is stated by its specification under the hypotheses of the property instead (`F64_Int_Mul_spec`), so
that an implementation with a wider intermediate product satisfies it too.  `Div` and `Mod` panic in Go when the divisor
is zero; the regenerated definitions are total (`BitVec.sdiv x 0 = 0`), the theorems exclude the zero divisor, where the
model says `none`.

Every theorem is wrapped in `when_translated Gen.X in`: when a change of the Go code moves `X` outside the translated
fragment there is nothing to state; `./check C03` then reports reduced coverage, not a broken proof.  The proofs push
`toInt` through the word operations (`Lemmas/GenTieFixed.lean`) and compare with the unfolded model: by `rfl` for the
shape the model was transcribed from, otherwise by `omega` over the facts of truncated division by a multiplier of the
table (`divpack`) — `Trunc` as `f - f%mult`, `Ceil` testing `f > whole`, a hoisted `half` in `Round` are still proved;
a changed result is not. -/
set_option linter.unusedVariables false
namespace C03Gen
open Fixed
abbrev W := BitVec 64

/-! ## the configurations: `fixed.Dk.Places()` / `Multiplier()` are row k of the regenerated table -/

when_translated Gen.Fixed_D1_Multiplier in
theorem Fixed_D1_row (d : W) :
    Facts.fixedConfigs[0]? = some ((Gen.Fixed_D1_Places d).toNat, (Gen.Fixed_D1_Multiplier d).toInt) := by
  simp only [Gen.Fixed_D1_Places, Gen.Fixed_D1_Multiplier]; decide
when_translated Gen.Fixed_D1_Multiplier in
theorem Fixed_D1_Mult (d : W) : Mult (Gen.Fixed_D1_Multiplier d).toInt :=
  ⟨_, List.mem_of_getElem? (Fixed_D1_row d), rfl⟩
when_translated Gen.Fixed_D2_Multiplier in
theorem Fixed_D2_row (d : W) :
    Facts.fixedConfigs[1]? = some ((Gen.Fixed_D2_Places d).toNat, (Gen.Fixed_D2_Multiplier d).toInt) := by
  simp only [Gen.Fixed_D2_Places, Gen.Fixed_D2_Multiplier]; decide
when_translated Gen.Fixed_D2_Multiplier in
theorem Fixed_D2_Mult (d : W) : Mult (Gen.Fixed_D2_Multiplier d).toInt :=
  ⟨_, List.mem_of_getElem? (Fixed_D2_row d), rfl⟩
when_translated Gen.Fixed_D3_Multiplier in
theorem Fixed_D3_row (d : W) :
    Facts.fixedConfigs[2]? = some ((Gen.Fixed_D3_Places d).toNat, (Gen.Fixed_D3_Multiplier d).toInt) := by
  simp only [Gen.Fixed_D3_Places, Gen.Fixed_D3_Multiplier]; decide
when_translated Gen.Fixed_D3_Multiplier in
theorem Fixed_D3_Mult (d : W) : Mult (Gen.Fixed_D3_Multiplier d).toInt :=
  ⟨_, List.mem_of_getElem? (Fixed_D3_row d), rfl⟩
when_translated Gen.Fixed_D4_Multiplier in
theorem Fixed_D4_row (d : W) :
    Facts.fixedConfigs[3]? = some ((Gen.Fixed_D4_Places d).toNat, (Gen.Fixed_D4_Multiplier d).toInt) := by
  simp only [Gen.Fixed_D4_Places, Gen.Fixed_D4_Multiplier]; decide
when_translated Gen.Fixed_D4_Multiplier in
theorem Fixed_D4_Mult (d : W) : Mult (Gen.Fixed_D4_Multiplier d).toInt :=
  ⟨_, List.mem_of_getElem? (Fixed_D4_row d), rfl⟩
when_translated Gen.Fixed_D5_Multiplier in
theorem Fixed_D5_row (d : W) :
    Facts.fixedConfigs[4]? = some ((Gen.Fixed_D5_Places d).toNat, (Gen.Fixed_D5_Multiplier d).toInt) := by
  simp only [Gen.Fixed_D5_Places, Gen.Fixed_D5_Multiplier]; decide
when_translated Gen.Fixed_D5_Multiplier in
theorem Fixed_D5_Mult (d : W) : Mult (Gen.Fixed_D5_Multiplier d).toInt :=
  ⟨_, List.mem_of_getElem? (Fixed_D5_row d), rfl⟩
when_translated Gen.Fixed_D6_Multiplier in
theorem Fixed_D6_row (d : W) :
    Facts.fixedConfigs[5]? = some ((Gen.Fixed_D6_Places d).toNat, (Gen.Fixed_D6_Multiplier d).toInt) := by
  simp only [Gen.Fixed_D6_Places, Gen.Fixed_D6_Multiplier]; decide
when_translated Gen.Fixed_D6_Multiplier in
theorem Fixed_D6_Mult (d : W) : Mult (Gen.Fixed_D6_Multiplier d).toInt :=
  ⟨_, List.mem_of_getElem? (Fixed_D6_row d), rfl⟩
when_translated Gen.Fixed_D7_Multiplier in
theorem Fixed_D7_row (d : W) :
    Facts.fixedConfigs[6]? = some ((Gen.Fixed_D7_Places d).toNat, (Gen.Fixed_D7_Multiplier d).toInt) := by
  simp only [Gen.Fixed_D7_Places, Gen.Fixed_D7_Multiplier]; decide
when_translated Gen.Fixed_D7_Multiplier in
theorem Fixed_D7_Mult (d : W) : Mult (Gen.Fixed_D7_Multiplier d).toInt :=
  ⟨_, List.mem_of_getElem? (Fixed_D7_row d), rfl⟩
when_translated Gen.Fixed_D8_Multiplier in
theorem Fixed_D8_row (d : W) :
    Facts.fixedConfigs[7]? = some ((Gen.Fixed_D8_Places d).toNat, (Gen.Fixed_D8_Multiplier d).toInt) := by
  simp only [Gen.Fixed_D8_Places, Gen.Fixed_D8_Multiplier]; decide
when_translated Gen.Fixed_D8_Multiplier in
theorem Fixed_D8_Mult (d : W) : Mult (Gen.Fixed_D8_Multiplier d).toInt :=
  ⟨_, List.mem_of_getElem? (Fixed_D8_row d), rfl⟩
when_translated Gen.Fixed_D9_Multiplier in
theorem Fixed_D9_row (d : W) :
    Facts.fixedConfigs[8]? = some ((Gen.Fixed_D9_Places d).toNat, (Gen.Fixed_D9_Multiplier d).toInt) := by
  simp only [Gen.Fixed_D9_Places, Gen.Fixed_D9_Multiplier]; decide
when_translated Gen.Fixed_D9_Multiplier in
theorem Fixed_D9_Mult (d : W) : Mult (Gen.Fixed_D9_Multiplier d).toInt :=
  ⟨_, List.mem_of_getElem? (Fixed_D9_row d), rfl⟩
when_translated Gen.Fixed_D10_Multiplier in
theorem Fixed_D10_row (d : W) :
    Facts.fixedConfigs[9]? = some ((Gen.Fixed_D10_Places d).toNat, (Gen.Fixed_D10_Multiplier d).toInt) := by
  simp only [Gen.Fixed_D10_Places, Gen.Fixed_D10_Multiplier]; decide
when_translated Gen.Fixed_D10_Multiplier in
theorem Fixed_D10_Mult (d : W) : Mult (Gen.Fixed_D10_Multiplier d).toInt :=
  ⟨_, List.mem_of_getElem? (Fixed_D10_row d), rfl⟩
when_translated Gen.Fixed_D11_Multiplier in
theorem Fixed_D11_row (d : W) :
    Facts.fixedConfigs[10]? = some ((Gen.Fixed_D11_Places d).toNat, (Gen.Fixed_D11_Multiplier d).toInt) := by
  simp only [Gen.Fixed_D11_Places, Gen.Fixed_D11_Multiplier]; decide
when_translated Gen.Fixed_D11_Multiplier in
theorem Fixed_D11_Mult (d : W) : Mult (Gen.Fixed_D11_Multiplier d).toInt :=
  ⟨_, List.mem_of_getElem? (Fixed_D11_row d), rfl⟩
when_translated Gen.Fixed_D12_Multiplier in
theorem Fixed_D12_row (d : W) :
    Facts.fixedConfigs[11]? = some ((Gen.Fixed_D12_Places d).toNat, (Gen.Fixed_D12_Multiplier d).toInt) := by
  simp only [Gen.Fixed_D12_Places, Gen.Fixed_D12_Multiplier]; decide
when_translated Gen.Fixed_D12_Multiplier in
theorem Fixed_D12_Mult (d : W) : Mult (Gen.Fixed_D12_Multiplier d).toInt :=
  ⟨_, List.mem_of_getElem? (Fixed_D12_row d), rfl⟩
when_translated Gen.Fixed_D13_Multiplier in
theorem Fixed_D13_row (d : W) :
    Facts.fixedConfigs[12]? = some ((Gen.Fixed_D13_Places d).toNat, (Gen.Fixed_D13_Multiplier d).toInt) := by
  simp only [Gen.Fixed_D13_Places, Gen.Fixed_D13_Multiplier]; decide
when_translated Gen.Fixed_D13_Multiplier in
theorem Fixed_D13_Mult (d : W) : Mult (Gen.Fixed_D13_Multiplier d).toInt :=
  ⟨_, List.mem_of_getElem? (Fixed_D13_row d), rfl⟩
when_translated Gen.Fixed_D14_Multiplier in
theorem Fixed_D14_row (d : W) :
    Facts.fixedConfigs[13]? = some ((Gen.Fixed_D14_Places d).toNat, (Gen.Fixed_D14_Multiplier d).toInt) := by
  simp only [Gen.Fixed_D14_Places, Gen.Fixed_D14_Multiplier]; decide
when_translated Gen.Fixed_D14_Multiplier in
theorem Fixed_D14_Mult (d : W) : Mult (Gen.Fixed_D14_Multiplier d).toInt :=
  ⟨_, List.mem_of_getElem? (Fixed_D14_row d), rfl⟩
when_translated Gen.Fixed_D15_Multiplier in
theorem Fixed_D15_row (d : W) :
    Facts.fixedConfigs[14]? = some ((Gen.Fixed_D15_Places d).toNat, (Gen.Fixed_D15_Multiplier d).toInt) := by
  simp only [Gen.Fixed_D15_Places, Gen.Fixed_D15_Multiplier]; decide
when_translated Gen.Fixed_D15_Multiplier in
theorem Fixed_D15_Mult (d : W) : Mult (Gen.Fixed_D15_Multiplier d).toInt :=
  ⟨_, List.mem_of_getElem? (Fixed_D15_row d), rfl⟩
when_translated Gen.Fixed_D16_Multiplier in
theorem Fixed_D16_row (d : W) :
    Facts.fixedConfigs[15]? = some ((Gen.Fixed_D16_Places d).toNat, (Gen.Fixed_D16_Multiplier d).toInt) := by
  simp only [Gen.Fixed_D16_Places, Gen.Fixed_D16_Multiplier]; decide
when_translated Gen.Fixed_D16_Multiplier in
theorem Fixed_D16_Mult (d : W) : Mult (Gen.Fixed_D16_Multiplier d).toInt :=
  ⟨_, List.mem_of_getElem? (Fixed_D16_row d), rfl⟩

/-! ## f64: dictionary accessors -/

when_translated Gen.F64_Multiplier in
theorem F64_Multiplier_eq (M P : W) : Gen.F64_Multiplier M P = M := by
  simp only [gen_def]
when_translated Gen.F64_MaxDecimalDigits in
theorem F64_MaxDecimalDigits_eq (M P : W) : Gen.F64_MaxDecimalDigits M P = P := by
  simp only [gen_def]
when_translated Gen.F64_MaxSafeMultiply in
theorem F64_MaxSafeMultiply_eq (M P : W) : (Gen.F64_MaxSafeMultiply M P).toInt = F64.maxSafeMultiply M.toInt := by
  fx_tie [F64.maxSafeMultiply, F64.maxRaw]

/-! ## f64: add, subtract, absolute value, minimum, maximum, one more / one less -/

when_translated Gen.F64_Int_Add in
theorem F64_Int_Add_eq (M P a b : W) : (Gen.F64_Int_Add M P a b).toInt = F64.add a.toInt b.toInt := by
  fx_tie []
when_translated Gen.F64_Int_Sub in
theorem F64_Int_Sub_eq (M P a b : W) : (Gen.F64_Int_Sub M P a b).toInt = F64.sub a.toInt b.toInt := by
  fx_tie []
when_translated Gen.F64_Int_Abs in
theorem F64_Int_Abs_eq (M P a : W) : (Gen.F64_Int_Abs M P a).toInt = F64.abs a.toInt := by
  fx_tie [F64.abs]
when_translated Gen.F64_Int_Min in
theorem F64_Int_Min_eq (M P a b : W) : (Gen.F64_Int_Min M P a b).toInt = F64.min a.toInt b.toInt := by
  fx_tie [F64.min]
when_translated Gen.F64_Int_Max in
theorem F64_Int_Max_eq (M P a b : W) : (Gen.F64_Int_Max M P a b).toInt = F64.max a.toInt b.toInt := by
  fx_tie [F64.max]
when_translated Gen.F64_Int_Inc in
theorem F64_Int_Inc_eq (M P a : W) : (Gen.F64_Int_Inc M P a).toInt = F64.inc M.toInt a.toInt := by
  fx_tie [F64.inc]
when_translated Gen.F64_Int_Dec in
theorem F64_Int_Dec_eq (M P a : W) : (Gen.F64_Int_Dec M P a).toInt = F64.dec M.toInt a.toInt := by
  fx_tie [F64.dec]

/-! ## f64: multiply, divide, remainder -/

when_translated Gen.F64_Int_Mul in
/-- `Mul` = the exact product truncated toward zero to D places whenever the product is representable (the statement of
    `C03.f64_mul_spec`, proved for what the code says now) -/
theorem F64_Int_Mul_spec (M P a b : W) (hM : Mult M.toInt) (hp : fits64 (a.toInt * b.toInt)) :
    (Gen.F64_Int_Mul M P a b).toInt = (a.toInt * b.toInt).tdiv M.toInt := by
  have h2 := fits64_tdiv hp hM.pos
  simp only [fits64] at hp h2
  fx_tie []
when_translated Gen.F64_Int_Div in
theorem F64_Int_Div_eq (M P a b : W) (hb : b.toInt ≠ 0) :
    F64.div M.toInt a.toInt b.toInt = some (Gen.F64_Int_Div M P a b).toInt := by
  fx_tie [F64.div, if_neg hb]
when_translated Gen.F64_Int_Mod in
/-- `Mod` (now `f % value`) is the truncated remainder `a − b·trunc(a/b)` of the raw values for every non-zero divisor,
    with no hypothesis on an intermediate product — stated as the specification -/
theorem F64_Int_Mod_spec (M P a b : W) (hb : b.toInt ≠ 0) :
    (Gen.F64_Int_Mod M P a b).toInt = a.toInt.tmod b.toInt := by
  fx_tie []

when_translated Gen.F64_Int_Mod in
/-- … and it is the model function `F64.mod` (`Model/Fixed.lean`, the same definition the driver runs) -/
theorem F64_Int_Mod_eq (M P a b : W) (hb : b.toInt ≠ 0) :
    F64.mod M.toInt a.toInt b.toInt = some (Gen.F64_Int_Mod M P a b).toInt := by
  rw [F64_Int_Mod_spec M P a b hb]
  unfold F64.mod F64.rem
  rw [if_neg hb, wrap64_of_fits (fits64_tmod (GenTieFixed.fits_toInt a))]

/-! ## f64: Trunc, Ceil, Round -/

when_translated Gen.F64_Int_Trunc in
theorem F64_Int_Trunc_eq (M P a : W) (hM : Mult M.toInt) :
    (Gen.F64_Int_Trunc M P a).toInt = F64.trunc M.toInt a.toInt := by
  fx_tie [F64.trunc] using hM a
when_translated Gen.F64_Int_Ceil in
theorem F64_Int_Ceil_eq (M P a : W) (hM : Mult M.toInt) :
    (Gen.F64_Int_Ceil M P a).toInt = F64.ceil M.toInt a.toInt := by
  fx_tie [F64.ceil, F64.trunc] using hM a
when_translated Gen.F64_Int_Round in
theorem F64_Int_Round_eq (M P a : W) (hM : Mult M.toInt) :
    (Gen.F64_Int_Round M P a).toInt = F64.round M.toInt a.toInt := by
  fx_tie [F64.round, F64.trunc] using hM a

/-! ## transported specifications and instantiation at a configuration

`X_eq` moves every theorem of `Props/C03.lean` about the model function to what the code says now. -/

when_translated Gen.F64_Int_Trunc in
/-- `Trunc` returns a whole number, less than one unit from `a`, between 0 and `a` (`C03.f64_trunc_spec`) -/
theorem gen_trunc_spec (M P a : W) (hM : Mult M.toInt) :
    (∃ k : Int, (Gen.F64_Int_Trunc M P a).toInt = k * M.toInt) ∧
      |a.toInt - (Gen.F64_Int_Trunc M P a).toInt| < M.toInt := by
  rw [F64_Int_Trunc_eq M P a hM]
  exact ⟨(C03.f64_trunc_spec _ _ hM (GenTieFixed.fits_toInt a)).1, (C03.f64_trunc_spec _ _ hM (GenTieFixed.fits_toInt a)).2.1⟩
when_translated Gen.F64_Int_Ceil in
/-- `Ceil` is the least whole number ≥ `a` whenever that number is representable (`C03.f64_ceil_spec`) -/
theorem gen_ceil_spec (M P a : W) (hM : Mult M.toInt) (hr : fits64 (Spec.fxCeil M.toInt a.toInt)) :
    (∃ k : Int, (Gen.F64_Int_Ceil M P a).toInt = k * M.toInt) ∧ a.toInt ≤ (Gen.F64_Int_Ceil M P a).toInt ∧
      (Gen.F64_Int_Ceil M P a).toInt < a.toInt + M.toInt := by
  rw [F64_Int_Ceil_eq M P a hM]; exact C03.f64_ceil_spec _ _ hM (GenTieFixed.fits_toInt a) hr
when_translated Gen.F64_Int_Round in
/-- `Round` is the nearest whole number, halves away from zero, whenever representable (`C03.f64_round_spec`) -/
theorem gen_round_spec (M P a : W) (hM : Mult M.toInt) (hr : fits64 (Spec.fxRound M.toInt a.toInt)) :
    (∃ k : Int, (Gen.F64_Int_Round M P a).toInt = k * M.toInt) ∧
      2 * |a.toInt - (Gen.F64_Int_Round M P a).toInt| ≤ M.toInt ∧
      (2 * |a.toInt - (Gen.F64_Int_Round M P a).toInt| = M.toInt → |a.toInt| < |(Gen.F64_Int_Round M P a).toInt|) := by
  rw [F64_Int_Round_eq M P a hM]; exact C03.f64_round_spec _ _ hM (GenTieFixed.fits_toInt a) hr
when_translated Gen.F64_Int_Div in
/-- `Div` = the exact quotient truncated toward zero to D places (`C03.f64_div_spec`) -/
theorem gen_div_spec (M P a b : W) (hb : b.toInt ≠ 0) (hp : fits64 (a.toInt * M.toInt))
    (hq : fits64 ((a.toInt * M.toInt).tdiv b.toInt)) :
    (Gen.F64_Int_Div M P a b).toInt = (a.toInt * M.toInt).tdiv b.toInt := by
  have h := F64_Int_Div_eq M P a b hb
  rw [C03.f64_div_spec _ _ _ hb hp hq] at h
  exact (Option.some.inj h).symm
when_translated Gen.F64_Int_Round in
/-- the instantiation `f64.Int[fixed.D2]`: the generic definition at the dictionary of `D2` is the model at the
    multiplier of row 2 of the table -/
theorem gen_round_D2 (a : W) :
    (Gen.F64_Int_Round (Gen.Fixed_D2_Multiplier 0#64) (Gen.Fixed_D2_Places 0#64) a).toInt
      = F64.round (Gen.Fixed_D2_Multiplier 0#64).toInt a.toInt :=
  F64_Int_Round_eq _ _ a (Fixed_D2_Mult 0#64)
when_translated Gen.F64_Int_Round in
/-- the same for any configuration the driver can name: `mult? k = some m` (row k of `Facts.fixedConfigs`) -/
theorem gen_round_cfg (k : Nat) (m : Int) (h : mult? k = some m) (M P a : W) (hM : M.toInt = m) :
    (Gen.F64_Int_Round M P a).toInt = F64.round m a.toInt := by
  subst hM; exact F64_Int_Round_eq M P a (mult?_Mult h)

end C03Gen
