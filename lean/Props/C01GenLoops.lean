import Props.C01Gen
import Lemmas.GenTieLoop
import Lemmas.U128Hw
import Generated.SSA_NumLoops
/-! # C01, translator tie, extended fragment — the division family of `xmath/num` regenerated from the Go source

`Generated/SSA_NumLoops.lean` is written by `gossa/ssagen … numloops`: the functions of `xmath/num` that the loop-free,
panic-free fragment of `Generated/SSA_Num.lean` (imported) leaves out and the extended fragment covers — the fifteen
functions of the division family (`Uint128.Div/Mod/DivMod/Div64/Mod64/DivMod64`, their `Int128` counterparts, and the
kernels `divmod128by64` (two `goto` correction loops), `divmod128by128`, `divmod128bin` (a `for` loop that carries a
local struct living in memory)).  A division by a non-constant carries Go's zero check (`Gen.guard`), `panic(...)` is
`none`.  Tied here: the binary shift-subtract kernel `divmod128bin`, by induction on the shift, to `U128.binLoop` /
`U128.divmod128bin` of the hand-written model (using the ties of `Props/C01Gen.lean` for the functions it calls), and
the Knuth-D kernel `divmod128by64`: each of its two `goto` correction loops is the model's `U128.corrLoop` as far as it
runs (`corr*_agree`, no arithmetic), does not run out of fuel 2 for a normalised divisor (`corr*_terminates`), hence the
whole function is `U128.divmod128by64` (`divmod128by64_eq`).  The other thirteen are translated and run
(`Generated/SSA_NumLoops_untied.lean`) but not tied yet. -/
set_option linter.unusedVariables false
set_option linter.unusedSimpArgs false
namespace C01GenLoops
open Gen GenTieLoop C01Gen

theorem one_toNat : (1#64 : BitVec 64).toNat = 1 := by decide

theorem ofNat_pred (k : Nat) (hk : k + 1 < 2^64) : BitVec.ofNat 64 (k + 1) - 1#64 = BitVec.ofNat 64 k := by
  apply BitVec.eq_of_toNat_eq; simp only [BitVec.toNat_sub, BitVec.toNat_ofNat]; omega

when_translated Gen.Uint128_divmod128bin in
/-- the `for` loop of `divmod128bin` regenerated from the Go source is `U128.binLoop` (the local `q`, which lives in
    memory in the SSA form, is carried through the loop as its contents) -/
theorem divmod128bin_loop (shift : Nat) : ∀ fuel (q u n : U128), shift < 2^63 → shift < fuel →
    Gen.Uint128_divmod128bin_loop1 q fuel u n (BitVec.ofNat 64 shift) = some (U128.binLoop shift u n q) := by
  induction shift with
  | zero =>
    intro fuel q u n hs hf
    obtain ⟨f, rfl⟩ : ∃ f, fuel = f + 1 := ⟨fuel - 1, by omega⟩
    rw [Gen.Uint128_divmod128bin_loop1]
    simp only [U128.binLoop, U128.binStep, Uint128_GreaterThanOrEqual_eq, Uint128_Sub_eq]
    have : (BitVec.ofNat 64 0).toInt ≤ 0 := by decide
    simp only [this, if_true]
    by_cases hge : U128.greaterThanOrEqual u n = true <;> simp [hge]
  | succ k ih =>
    intro fuel q u n hs hf
    obtain ⟨f, rfl⟩ : ∃ f, fuel = f + 1 := ⟨fuel - 1, by omega⟩
    rw [Gen.Uint128_divmod128bin_loop1]
    simp only [U128.binLoop, U128.binStep, Uint128_GreaterThanOrEqual_eq, Uint128_Sub_eq, Uint128_RightShift_eq,
      Uint128_LeftShift_eq, one_toNat]
    have : ¬ (BitVec.ofNat 64 (k + 1)).toInt ≤ 0 := by rw [toInt_ofNat_small _ hs]; omega
    simp only [this, if_false, ofNat_pred k (by omega)]
    rw [ih f _ _ _ (by omega) (by omega)]
    by_cases hge : U128.greaterThanOrEqual u n = true <;> simp [hge]

when_translated Gen.Uint128_divmod128bin in
/-- `divmod128bin` regenerated from the Go source is the model function, for leading-zero counts as its callers pass
    them (`uLeading0 ≤ byLeading0`, so the `uint` subtraction does not wrap) and any fuel above the shift -/
theorem divmod128bin_eq (u n : U128) (ul bl : Nat) (h : ul ≤ bl) (hb : bl < 2^63) (fuel : Nat) (hf : bl - ul < fuel) :
    Gen.Uint128_divmod128bin u n (BitVec.ofNat 64 ul) (BitVec.ofNat 64 bl) fuel = some (U128.divmod128bin u n ul bl) := by
  unfold Gen.Uint128_divmod128bin U128.divmod128bin
  simp only [ofNat_sub bl ul h (by omega), Uint128_LeftShift_eq, toNat_ofNat_small (bl - ul) (by omega)]
  exact divmod128bin_loop (bl - ul) fuel _ u _ (by omega) hf

theorem bit32_toNat : U128.bit32.toNat = 4294967296 := by decide

when_translated Gen.Uint128_divmod128by64 in
/-- the first `goto` correction loop of `divmod128by64`, as far as it runs, is the model's `corrLoop` -/
theorem corr1_agree (vn1 vn0 un1 : BitVec 64) : ∀ fuel q rhat l r,
    Gen.Uint128_divmod128by64_loop1 vn1 vn0 un1 fuel q rhat l r = none ∨
    Gen.Uint128_divmod128by64_loop1 vn1 vn0 un1 fuel q rhat l r = some (U128.corrLoop vn1 vn0 un1 fuel q rhat l r) := by
  intro fuel
  induction fuel with
  | zero => intro q rhat l r; left; rfl
  | succ f ih =>
    intro q rhat l r
    rw [Gen.Uint128_divmod128by64_loop1, U128.corrLoop]
    simp only [bit32_toNat, ge_iff_le, gt_iff_lt]
    by_cases c1 : 4294967296 ≤ q.toNat
    · by_cases c2 : (rhat + vn1).toNat < 4294967296
      · simp only [c1, c2, if_true, true_or]; exact ih _ _ _ _
      · simp only [c1, c2, if_true, if_false, true_or]; try (exact Or.inr trivial)
    · by_cases c3 : r.toNat < l.toNat
      · by_cases c2 : (rhat + vn1).toNat < 4294967296
        · simp only [c1, c2, c3, if_true, if_false, or_true]; exact ih _ _ _ _
        · simp only [c1, c2, c3, if_true, if_false, or_true]; try (exact Or.inr trivial)
      · simp only [c1, c3, if_false, or_self]; try (exact Or.inr trivial)

when_translated Gen.Uint128_divmod128by64 in
/-- with a normalised divisor digit (`2^31 ≤ vn1 < 2^32`) and `rhat < 2^32` two rounds suffice: fuel 2 is not exhausted -/
theorem corr1_terminates (vn1 vn0 un1 q rhat l r : BitVec 64) (hv : 2^31 ≤ vn1.toNat) (hv2 : vn1.toNat < 2^32)
    (hr : rhat.toNat < 2^32) (f : Nat) :
    Gen.Uint128_divmod128by64_loop1 vn1 vn0 un1 (f + 2) q rhat l r ≠ none := by
  have step : ∀ q' l' r', (rhat + vn1).toNat < 4294967296 →
      Gen.Uint128_divmod128by64_loop1 vn1 vn0 un1 (f + 1) q' (rhat + vn1) l' r' ≠ none := by
    intro q' l' r' hlt
    have h2 : ¬ (rhat + vn1 + vn1).toNat < 4294967296 := by
      simp only [BitVec.toNat_add] at hlt ⊢; omega
    rw [Gen.Uint128_divmod128by64_loop1]
    by_cases c1 : 4294967296 ≤ q'.toNat
    · simp only [c1, h2, ge_iff_le, if_true, if_false]; simp
    · by_cases c3 : r'.toNat < l'.toNat
      · simp only [c1, c3, h2, ge_iff_le, gt_iff_lt, if_true, if_false]; simp
      · simp only [c1, c3, ge_iff_le, gt_iff_lt, if_false]; simp
  rw [Gen.Uint128_divmod128by64_loop1]
  by_cases c1 : 4294967296 ≤ q.toNat
  · by_cases c2 : (rhat + vn1).toNat < 4294967296
    · simp only [c1, c2, ge_iff_le, if_true]; exact step _ _ _ c2
    · simp only [c1, c2, ge_iff_le, if_true, if_false]; simp
  · by_cases c3 : r.toNat < l.toNat
    · by_cases c2 : (rhat + vn1).toNat < 4294967296
      · simp only [c1, c2, c3, ge_iff_le, gt_iff_lt, if_true, if_false]; exact step _ _ _ c2
      · simp only [c1, c2, c3, ge_iff_le, gt_iff_lt, if_true, if_false]; simp
    · simp only [c1, c3, ge_iff_le, gt_iff_lt, if_false]; simp

when_translated Gen.Uint128_divmod128by64 in
/-- the first correction loop regenerated from the Go source IS the model's `corrLoop` (whose fuel 4 is never exhausted) -/
theorem corr1_eq (vn1 vn0 un1 q rhat l r : BitVec 64) (hv : 2^31 ≤ vn1.toNat) (hv2 : vn1.toNat < 2^32)
    (hr : rhat.toNat < 2^32) (f : Nat) :
    Gen.Uint128_divmod128by64_loop1 vn1 vn0 un1 (f + 2) q rhat l r = some (U128.corrLoop vn1 vn0 un1 4 q rhat l r) := by
  rcases corr1_agree vn1 vn0 un1 (f + 2) q rhat l r with h | h
  · exact absurd h (corr1_terminates vn1 vn0 un1 q rhat l r hv hv2 hr f)
  · rw [h, U128.corrLoop_fuel _ _ _ _ _ _ _ hv hv2 hr f, ← U128.corrLoop_fuel _ _ _ _ _ _ _ hv hv2 hr 2]

/-- what the second loop returns once its quotient digit is settled (the `return` of `divmod128by64`) -/
def fin2 (nl n un0 q1 un21 : BitVec 64) (q0 : BitVec 64) : BitVec 64 × BitVec 64 :=
  ((q1 <<< 32) ||| q0, ((un21 <<< 32) + (un0 - (q0 * n))) >>> nl.toNat)

when_translated Gen.Uint128_divmod128by64 in
theorem corr2_agree (nl n vn1 vn0 un0 q1 un21 : BitVec 64) : ∀ fuel rhat l r q,
    Gen.Uint128_divmod128by64_loop2 nl n vn1 vn0 un0 q1 un21 fuel rhat l r q = none ∨
    Gen.Uint128_divmod128by64_loop2 nl n vn1 vn0 un0 q1 un21 fuel rhat l r q =
      some (fin2 nl n un0 q1 un21 (U128.corrLoop vn1 vn0 un0 fuel q rhat l r)) := by
  intro fuel
  induction fuel with
  | zero => intro rhat l r q; left; rfl
  | succ f ih =>
    intro rhat l r q
    rw [Gen.Uint128_divmod128by64_loop2, U128.corrLoop]
    simp only [bit32_toNat, ge_iff_le, gt_iff_lt, fin2]
    by_cases c1 : 4294967296 ≤ q.toNat
    · by_cases c2 : (rhat + vn1).toNat < 4294967296
      · simp only [c1, c2, if_true, true_or]; exact ih _ _ _ _
      · simp only [c1, c2, if_true, if_false, true_or]; try (exact Or.inr trivial)
    · by_cases c3 : r.toNat < l.toNat
      · by_cases c2 : (rhat + vn1).toNat < 4294967296
        · simp only [c1, c2, c3, if_true, if_false, or_true]; exact ih _ _ _ _
        · simp only [c1, c2, c3, if_true, if_false, or_true]; try (exact Or.inr trivial)
      · simp only [c1, c3, if_false, or_self]; try (exact Or.inr trivial)

when_translated Gen.Uint128_divmod128by64 in
theorem corr2_terminates (nl n vn1 vn0 un0 q1 un21 q rhat l r : BitVec 64) (hv : 2^31 ≤ vn1.toNat)
    (hv2 : vn1.toNat < 2^32) (hr : rhat.toNat < 2^32) (f : Nat) :
    Gen.Uint128_divmod128by64_loop2 nl n vn1 vn0 un0 q1 un21 (f + 2) rhat l r q ≠ none := by
  have step : ∀ q' l' r', (rhat + vn1).toNat < 4294967296 →
      Gen.Uint128_divmod128by64_loop2 nl n vn1 vn0 un0 q1 un21 (f + 1) (rhat + vn1) l' r' q' ≠ none := by
    intro q' l' r' hlt
    have h2 : ¬ (rhat + vn1 + vn1).toNat < 4294967296 := by
      simp only [BitVec.toNat_add] at hlt ⊢; omega
    rw [Gen.Uint128_divmod128by64_loop2]
    by_cases c1 : 4294967296 ≤ q'.toNat
    · simp only [c1, h2, ge_iff_le, if_true, if_false]; simp
    · by_cases c3 : r'.toNat < l'.toNat
      · simp only [c1, c3, h2, ge_iff_le, gt_iff_lt, if_true, if_false]; simp
      · simp only [c1, c3, ge_iff_le, gt_iff_lt, if_false]; simp
  rw [Gen.Uint128_divmod128by64_loop2]
  by_cases c1 : 4294967296 ≤ q.toNat
  · by_cases c2 : (rhat + vn1).toNat < 4294967296
    · simp only [c1, c2, ge_iff_le, if_true]; exact step _ _ _ c2
    · simp only [c1, c2, ge_iff_le, if_true, if_false]; simp
  · by_cases c3 : r.toNat < l.toNat
    · by_cases c2 : (rhat + vn1).toNat < 4294967296
      · simp only [c1, c2, c3, ge_iff_le, gt_iff_lt, if_true, if_false]; exact step _ _ _ c2
      · simp only [c1, c2, c3, ge_iff_le, gt_iff_lt, if_true, if_false]; simp
    · simp only [c1, c3, ge_iff_le, gt_iff_lt, if_false]; simp

when_translated Gen.Uint128_divmod128by64 in
theorem corr2_eq (nl n vn1 vn0 un0 q1 un21 q rhat l r : BitVec 64) (hv : 2^31 ≤ vn1.toNat) (hv2 : vn1.toNat < 2^32)
    (hr : rhat.toNat < 2^32) (f : Nat) :
    Gen.Uint128_divmod128by64_loop2 nl n vn1 vn0 un0 q1 un21 (f + 2) rhat l r q =
      some (fin2 nl n un0 q1 un21 (U128.corrLoop vn1 vn0 un0 4 q rhat l r)) := by
  rcases corr2_agree nl n vn1 vn0 un0 q1 un21 (f + 2) rhat l r q with h | h
  · exact absurd h (corr2_terminates nl n vn1 vn0 un0 q1 un21 q rhat l r hv hv2 hr f)
  · rw [h, U128.corrLoop_fuel _ _ _ _ _ _ _ hv hv2 hr f, ← U128.corrLoop_fuel _ _ _ _ _ _ _ hv hv2 hr 2]

theorem shr32_lt (x : BitVec 64) : (x >>> 32).toNat < 2^32 := by
  have := x.isLt
  simp only [BitVec.toNat_ushiftRight, Nat.shiftRight_eq_div_pow]; omega

theorem guard_true (p : Prop) [Decidable p] (h : p) : Gen.guard p = some () := by simp [Gen.guard, h]

when_translated Gen.Uint128_divmod128by64 in
/-- `divmod128by64` (Knuth D on 32-bit digits with two `goto` correction loops) regenerated from the Go source is the
    model function, for a normalised divisor (top bit of `n << nLeading0` set — what `bits.LeadingZeros64` gives its
    callers) and any fuel ≥ 2; the zero checks of the four machine divisions pass -/
theorem divmod128by64_eq (u : U128) (n : BitVec 64) (nl : Nat) (hnl : nl < 64)
    (hv : 2^31 ≤ ((n <<< nl) >>> 32).toNat) (f : Nat) :
    Gen.Uint128_divmod128by64 u n (BitVec.ofNat 64 nl) (f + 2) = some (U128.divmod128by64 u n nl) := by
  have hv2 := shr32_lt (n <<< nl)
  have hne : (n <<< nl) >>> 32 ≠ 0#64 := by
    intro h; rw [h] at hv; simp at hv
  have h64 : (64#64 - BitVec.ofNat 64 nl).toNat = 64 - nl := by
    simp only [BitVec.toNat_sub, BitVec.toNat_ofNat]; omega
  unfold Gen.Uint128_divmod128by64 U128.divmod128by64
  simp only [toNat_ofNat_small nl (by omega), h64, guard_true _ hne, Option.bind_some, U128.mask32]
  by_cases h0 : nl > 0
  · simp only [h0, if_true]
    rw [corr1_eq _ _ _ _ _ _ _ hv hv2 (U128.mod_lt32 _ _ (by omega) hv2) f, Option.bind_some,
      corr2_eq _ _ _ _ _ _ _ _ _ _ _ hv hv2 (U128.mod_lt32 _ _ (by omega) hv2) f]
    simp only [fin2, toNat_ofNat_small nl (by omega)]
  · simp only [h0, if_false]
    rw [corr1_eq _ _ _ _ _ _ _ hv hv2 (U128.mod_lt32 _ _ (by omega) hv2) f, Option.bind_some,
      corr2_eq _ _ _ _ _ _ _ _ _ _ _ hv hv2 (U128.mod_lt32 _ _ (by omega) hv2) f]
    simp only [fin2, toNat_ofNat_small nl (by omega)]


end C01GenLoops
