import Model.Rotation
namespace C12
end C12
