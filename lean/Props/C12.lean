import Lemmas.RotationHist
import Lemmas.RotationConc
import Lemmas.RotationErr
import Lemmas.RotationErrSize
/-! # C12 — log rotation keeps the byte stream intact across size-bounded files

Property theorems only.  The executable models are `Model/Rotation.lean` (namespace `Rot`): the directory of the log
file as `Nat → Option Bytes` (0 = `path`, i = `path-i`), `Rot.writeStep` = one pass from the label `retry:` of
`Rotator.Write`, `Rot.iterate` = the retry loop, `Rot.rotateFiles` = the literal rename chain of `rotate()`, `Rot.close`,
`Rot.reopen`, `Rot.new` — and `Model/RotationErr.lean`: the same methods on a file system whose calls fail
(`Rot.writeStepE`, `Rot.iterateE`, `Rot.rotateE`, `Rot.closeE`, `Rot.syncE`), which is what the driver `drv_c12` runs against
the Go code after every operation (`Rot.iterateE cfg env 64`; with the calm environment it is the first model:
`calm_model_is_plain_model`).  A state is *in step* (`Rot.Track`) when the size counter equals the length of the current
file whenever the handle is open; every state reachable from `New` is (`reachable_in_step`, `faulty_reachable_in_step`).

All theorems quantify over every configuration (`MaxSize`, `MaxBackups` any naturals), every initial directory
(pre-existing current file and backups, gaps, files beyond `MaxBackups`, files larger than `MaxSize`) and every history
of `Write`/`Close`/re-open/`Sync`; the `faulty_*` theorems in addition over every environment (which call fails when, how
short a write is).  Concurrency: the section "concurrent goroutines" runs the same methods as micro-step programs on the
generic mutex machine (`Model/Mutex.lean`), in which every call is bracketed by Lock/Unlock by construction, and proves
the clause about concurrent writers for every schedule OF THAT MACHINE.  That the Go code brackets every access to its
mutable state with the one mutex is decided separately on every run (`Props/C12Lock.lean`, about lock-state tables
regenerated from the SSA form of the working tree); the concrete search for a failing schedule is the `stress` oracle. -/
namespace C12
open Rot

/-! ## reachable states -/

/-- every state reachable from `New` on any directory by any history has its size counter in step with the file -/
theorem reachable_in_step (cfg : Cfg) (f : Files) (ops : List Op) : Track (run cfg (fresh f) ops) :=
  track_run cfg _ ops (track_fresh f)

/-! ## every Write returns in bounded time -/

/-- clause "every Write returns in bounded time": from *any* state (in step or not) the retry loop finishes within two
    passes, i.e. after at most one rotation -/
theorem write_terminates (cfg : Cfg) (s : St) (b : Bytes) : ∃ n, n ≤ 2 ∧ ∃ s', iterate cfg n s b = .done s' :=
  ⟨2, Nat.le_refl 2, write cfg s b, iterate_eq_write cfg s b 0⟩

/-- … and a larger bound on the passes changes nothing: the loop the driver runs (`iterate cfg 64`) is `write` -/
theorem write_loop_bounded (cfg : Cfg) (s : St) (b : Bytes) (n : Nat) : iterate cfg (n + 2) s b = .done (write cfg s b) :=
  iterate_eq_write cfg s b n

/-! ## the rename chain -/

/-- mechanism "backup renaming chain and oldest-file removal": the loop of `os.Rename` calls (missing sources ignored)
    after removing `path-MaxBackups` is exactly the index shift — the current file becomes backup 1, backup i becomes
    backup i+1 (gaps stay gaps), the oldest backup disappears, indexes above `MaxBackups` are untouched, and no current
    file is left; with `MaxBackups = 0` the current file is simply removed -/
theorem rename_chain_is_shift (cfg : Cfg) (f : Files) (j : Nat) :
    rotateFiles cfg f j = if j = 0 then none else if j ≤ cfg.maxBackups then f (j - 1) else f j := by
  rw [rotateFiles_eq_shift]; rfl

/-! ## one Write -/

/-- functional specification of `Write` on a state in step: either the bytes are appended to the current file, or
    (current file not empty and `size + len > MaxSize`) the directory is shifted once and the bytes form the whole new
    current file.  In both cases the handle is open and the size counter is the length of the current file. -/
theorem write_functional (cfg : Cfg) (s : St) (b : Bytes) (ht : Track s) :
    write cfg s b =
      if 0 < (content s.files 0).length ∧ (content s.files 0).length + b.length > cfg.maxSize
      then { files := (shift cfg s.files).set 0 (some b), isOpen := true, size := b.length }
      else { files := s.files.set 0 (some (content s.files 0 ++ b)), isOpen := true,
             size := (content s.files 0 ++ b).length } :=
  write_spec cfg s b ht

/-- clause "having placed its bytes, whole and unsplit, in the current log file": after `Write(b)` the current file
    ends with `b` (preceded by the old current content, or by nothing after a rotation), and every other file is a
    file that existed before (unchanged or moved up by one index) — no byte of `b` goes anywhere else -/
theorem write_whole (cfg : Cfg) (s : St) (b : Bytes) (ht : Track s) :
    ∃ c, (write cfg s b).files 0 = some (c ++ b) ∧ (c = content s.files 0 ∨ c = []) ∧
      ∀ j, j ≠ 0 → (write cfg s b).files j = s.files j ∨ (write cfg s b).files j = s.files (j - 1) := by
  rw [write_spec cfg s b ht]
  by_cases h : wouldRotate cfg s.files b
  · rw [if_pos h]
    refine ⟨[], by simp [Files.set], Or.inr rfl, ?_⟩
    intro j hj
    simp only [Files.set, hj, if_false, shift]
    split
    · exact Or.inr rfl
    · exact Or.inl rfl
  · rw [if_neg h]
    refine ⟨content s.files 0, by simp [Files.set], Or.inl rfl, ?_⟩
    intro j hj
    simp [Files.set, hj]

/-- clause "pre-existing log content is appended to rather than overwritten", first write of a new rotator on a
    directory whose log file already holds `c`: if `c` is empty or `c ++ b` fits, the file becomes `c ++ b` and nothing
    else changes; otherwise `c` is rotated out intact (it is backup 1 afterwards, when backups are kept at all) -/
theorem preexisting_appended (cfg : Cfg) (f : Files) (c b : Bytes) (hc : f 0 = some c) :
    (¬ (0 < c.length ∧ c.length + b.length > cfg.maxSize) →
        (write cfg (fresh f) b).files = f.set 0 (some (c ++ b))) ∧
    ((0 < c.length ∧ c.length + b.length > cfg.maxSize) →
        (write cfg (fresh f) b).files 0 = some b ∧ (1 ≤ cfg.maxBackups → (write cfg (fresh f) b).files 1 = some c)) := by
  have hcont : content (fresh f).files 0 = c := by simp [content, fresh, hc]
  have hw : wouldRotate cfg (fresh f).files b ↔ (0 < c.length ∧ c.length + b.length > cfg.maxSize) := by
    unfold wouldRotate; rw [hcont]
  rw [write_spec cfg (fresh f) b (track_fresh f)]
  constructor
  · intro h; rw [if_neg (fun x => h (hw.1 x))]; simp only [hcont]; rfl
  · intro h; rw [if_pos (hw.2 h)]
    refine ⟨by simp [Files.set], ?_⟩
    intro hm
    simp [Files.set, shift, hm, fresh, hc]

/-- pre-existing backups are never overwritten by a write that does not rotate, and a rotation only moves them up -/
theorem preexisting_backups_kept (cfg : Cfg) (s : St) (b : Bytes) (ht : Track s) (j : Nat) (hj : j ≠ 0) :
    (write cfg s b).files j = s.files j ∨
      (rotates cfg s b = true ∧ j ≤ cfg.maxBackups ∧ (write cfg s b).files j = s.files (j - 1)) := by
  rw [write_spec cfg s b ht]
  by_cases h : wouldRotate cfg s.files b
  · rw [if_pos h]
    simp only [Files.set, hj, if_false, shift]
    by_cases hm : j ≤ cfg.maxBackups
    · right; exact ⟨(rotates_iff cfg s b ht).2 h, hm, by simp [hm]⟩
    · left; simp [hm]
  · rw [if_neg h]; left; simp [Files.set, hj]

/-! ## the retained stream -/

/-- clause "reading the retained files from the oldest backup to the current file yields a suffix of the concatenation
    of everything written … with nothing duplicated, lost or reordered inside it": for every history (writes, Close,
    re-open, Sync in any order) from any state, `initial retained content ++ all bytes written, in order` equals
    `pre ++ retained files`, i.e. the retained files are literally a suffix of the stream (Appendix B: pre-existing
    files count as the oldest part of the stream) -/
theorem retained_is_suffix (cfg : Cfg) (s : St) (ops : List Op) :
    ∃ pre, retained cfg s.files ++ (writesOf ops).flatten = pre ++ retained cfg (run cfg s ops).files :=
  run_suffix cfg s ops

/-- clause "(the whole stream until more than MaxBackups+1 files have been filled)": if at the start only the indexes
    `0 … k` are occupied (`k+1` files filled so far) and the history rotates at most `MaxBackups − k` times — so that at
    most `MaxBackups+1` files are filled in total — nothing at all has been dropped -/
theorem retained_whole (cfg : Cfg) (s : St) (ops : List Op) (k : Nat) (ht : Track s)
    (hk : ∀ i, k < i → i ≤ cfg.maxBackups → s.files i = none) (hr : k + rotations cfg s ops ≤ cfg.maxBackups) :
    retained cfg (run cfg s ops).files = retained cfg s.files ++ (writesOf ops).flatten :=
  run_whole cfg s ops k ht hk hr

/-- the same for a new rotator on an empty directory: the retained files are exactly everything written as long as
    the number of rotations does not exceed `MaxBackups` -/
theorem retained_whole_fresh (cfg : Cfg) (ops : List Op)
    (hr : rotations cfg (fresh fun _ => none) ops ≤ cfg.maxBackups) :
    retained cfg (run cfg (fresh fun _ => none) ops).files = (writesOf ops).flatten := by
  have := run_whole cfg (fresh fun _ => none) ops 0 (track_fresh _) (fun _ _ _ => rfl) (by omega)
  rw [this]
  have : retained cfg (fresh fun _ => none).files = [] := by
    unfold retained
    generalize cfg.maxBackups = m
    induction m with
    | zero => simp [retainedUpTo, content, fresh]
    | succ k ih => simp [retainedUpTo, content, fresh] at ih ⊢; exact ih
  rw [this]; rfl

/-- one step of the above, explicit: a write that does not rotate appends to the retained stream; a write that rotates
    drops exactly the oldest slot (`path-MaxBackups`, or the current file when no backups are kept) from its front -/
theorem write_retained (cfg : Cfg) (s : St) (b : Bytes) (ht : Track s) :
    (rotates cfg s b = false → retained cfg (write cfg s b).files = retained cfg s.files ++ b) ∧
    (rotates cfg s b = true → retained cfg s.files ++ b =
        (if cfg.maxBackups = 0 then retained cfg s.files else content s.files cfg.maxBackups)
          ++ retained cfg (write cfg s b).files) := by
  constructor
  · intro h
    apply write_retained_keep cfg s b ht
    intro hw; rw [(rotates_iff cfg s b ht).2 hw] at h; cases h
  · intro h; exact write_retained_rot cfg s b ht ((rotates_iff cfg s b ht).1 h)

/-! ## size and count bounds -/

/-- clause "no rotated file exceeds MaxSize unless a single write is itself larger": after any history every file in the
    directory (current or backup) is at most `MaxSize` long, or is exactly one of the byte strings written (an over-long
    record gets a file of its own), or is a file that was already there at the start, unchanged -/
theorem size_bound (cfg : Cfg) (s : St) (ops : List Op) (ht : Track s) (i : Nat) (f : Bytes)
    (h : (run cfg s ops).files i = some f) :
    f.length ≤ cfg.maxSize ∨ (∃ w ∈ writesOf ops, f = w) ∨ (∃ j, s.files j = some f) :=
  run_pred cfg s ops ht (fun f => f.length ≤ cfg.maxSize ∨ (∃ w ∈ writesOf ops, f = w) ∨ (∃ j, s.files j = some f))
    (fun _ hf => Or.inl hf) (fun w hw => Or.inr (Or.inl ⟨w, hw, rfl⟩)) (fun j _ hf => Or.inr (Or.inr ⟨j, hf⟩)) i f h

/-- the current file right after `Write(b)` exists and is no longer than `max(MaxSize, len b)` -/
theorem current_size_bound (cfg : Cfg) (s : St) (b : Bytes) (ht : Track s) :
    ∃ c, (write cfg s b).files 0 = some c ∧ c.length ≤ max cfg.maxSize b.length :=
  (write_size cfg s b ht).2

/-- clause "at most MaxBackups backups exist", frame form: no history ever creates, removes or changes a file with an
    index above `MaxBackups` -/
theorem backup_frame (cfg : Cfg) (s : St) (ops : List Op) (j : Nat) (hj : cfg.maxBackups < j) :
    (run cfg s ops).files j = s.files j :=
  run_frame cfg s ops j hj

/-- clause "at most MaxBackups backups exist", counting form: if no file beyond `MaxBackups` was there at the start,
    every file that exists after any history has an index `≤ MaxBackups`, so the backups (indexes ≥ 1) are among
    `1 … MaxBackups` -/
theorem backup_count (cfg : Cfg) (s : St) (ops : List Op) (h0 : ∀ j, cfg.maxBackups < j → s.files j = none)
    (j : Nat) (hj : (run cfg s ops).files j ≠ none) : j ≤ cfg.maxBackups := by
  apply Decidable.byContradiction
  intro hn
  have hlt : cfg.maxBackups < j := by omega
  exact hj (by rw [run_frame cfg s ops j hlt]; exact h0 j hlt)

/-! ## Close and re-open -/

/-! in the model `Close` only drops the handle and a restart only forgets handle and counter, so these hold by
    construction (the evidence that the code's `Close` leaves the directory alone is the differential run, which
    compares the whole directory after every operation) -/
example (s : St) :
    close (close s) = close s ∧ (close s).files = s.files ∧ (reopen s).files = s.files ∧ reopen (reopen s) = reopen s :=
  ⟨rfl, rfl, rfl, rfl⟩

/-- the next `Write` after a `Close` re-opens with the size taken from the file: it behaves exactly as if the rotator
    had never been closed — same directory, same handle state, same counter -/
theorem close_then_write (cfg : Cfg) (s : St) (b : Bytes) (ht : Track s) : write cfg (close s) b = write cfg s b :=
  write_congr cfg (close s) s b (track_close s) ht rfl

/-- the same for a new rotator on the same path (process restart) -/
theorem reopen_then_write (cfg : Cfg) (s : St) (b : Bytes) (ht : Track s) : write cfg (reopen s) b = write cfg s b :=
  write_congr cfg (reopen s) s b (track_reopen s) ht rfl

/-- quantifier "Close/re-open at any point": the directory after a history is the directory after its writes alone —
    wherever `Close`, re-open and `Sync` are inserted -/
theorem close_reopen_invisible (cfg : Cfg) (s : St) (ops : List Op) (ht : Track s) :
    (run cfg s ops).files = (run cfg s (ops.filter Op.isWrite)).files :=
  run_files_filter cfg s s ops ht ht rfl

/-- the totalisation `(files 0).getD []` in the model's write is never exercised on a reachable state: when `Write`
    reaches the size test the current file exists (the open block created it or found it).  (A state with an open
    handle but no file — the file removed behind the rotator's back — is not reachable; there the Go code would write
    to an unlinked inode, which the model does not describe.) -/
theorem current_file_exists_at_write (cfg : Cfg) (f : Files) (ops : List Op) :
    ∃ c, (openIfNeeded (run cfg (fresh f) ops)).files 0 = some c := by
  obtain ⟨h1, h2⟩ := track_open _ (reachable_in_step cfg f ops)
  obtain ⟨c, hc, _⟩ := h1 h2
  exact ⟨c, hc⟩

/-! ## restarts with other limits

`Rot.runSegs`: a history in segments, every segment a new `Rotator` with its OWN `MaxSize`/`MaxBackups` on the same
path (the driver's `reopen <opts>`).  All one-step theorems above hold in every segment (they are for any state in
step, and `restart_in_step` keeps states in step); across segments: -/

/-- every state reached across restarts with changing limits is in step -/
theorem restart_in_step (f : Files) (segs : List (Cfg × List Op)) : Track (runSegs (fresh f) segs) :=
  track_runSegs _ segs (track_fresh f)

/-- size bound across restarts: every file is at most the MaxSize of SOME segment long, or is exactly one record written,
    or is an untouched initial file -/
theorem size_bound_across_restarts (s : St) (segs : List (Cfg × List Op)) (i : Nat) (g : Bytes)
    (h : (runSegs s segs).files i = some g) :
    (∃ x ∈ segs, g.length ≤ x.1.maxSize) ∨ (∃ w ∈ writesOfSegs segs, g = w) ∨ (∃ j, s.files j = some g) :=
  runSegs_pred s segs
    (fun g => (∃ x ∈ segs, g.length ≤ x.1.maxSize) ∨ (∃ w ∈ writesOfSegs segs, g = w) ∨ (∃ j, s.files j = some g))
    (fun x hx _ hf => Or.inl ⟨x, hx, hf⟩) (fun w hw => Or.inr (Or.inl ⟨w, hw, rfl⟩))
    (fun j _ hf => Or.inr (Or.inr ⟨j, hf⟩)) i g h

/-- backup frame across restarts: an index above every segment's MaxBackups is never touched; in particular, after
    MaxBackups was lowered, the stale backups beyond the new limit are left exactly as they were -/
theorem backup_frame_across_restarts (s : St) (segs : List (Cfg × List Op)) (j : Nat)
    (hj : ∀ x ∈ segs, x.1.maxBackups < j) : (runSegs s segs).files j = s.files j :=
  runSegs_frame s segs j hj

/-- the suffix clause spans restarts as long as MaxBackups stays the same (MaxSize may change freely): the files
    `path-B … path` are a suffix of the initial content followed by everything written in all segments.  (When MaxBackups
    changes, `retained_is_suffix` still holds inside every segment, read with that segment's MaxBackups.) -/
theorem retained_is_suffix_across_restarts (B : Nat) (s : St) (segs : List (Cfg × List Op))
    (hB : ∀ x ∈ segs, x.1.maxBackups = B) :
    ∃ pre, retainedUpTo s.files B ++ (writesOfSegs segs).flatten = pre ++ retainedUpTo (runSegs s segs).files B :=
  runSegs_suffix B s segs hB

/-- … and more generally when MaxBackups only GROWS from restart to restart (MaxSize changes freely): read with any `B`
    at least as large as every segment's MaxBackups, the files `path-B … path` are a suffix of the initial content
    followed by everything written — provided no stale backup sits between the first segment's MaxBackups and `B` at the
    start.  (`retained_is_suffix_across_restarts` is the case of equal limits, where that proviso is empty; the
    contrast below shows that LOWERING MaxBackups breaks the clause.) -/
theorem retained_is_suffix_when_maxbackups_grows (B : Nat) (s : St) (segs : List (Cfg × List Op))
    (hmono : segs.Pairwise (fun x y => x.1.maxBackups ≤ y.1.maxBackups)) (hB : ∀ x ∈ segs, x.1.maxBackups ≤ B)
    (hempty : ∀ x, segs.head? = some x → ∀ j, x.1.maxBackups < j → j ≤ B → s.files j = none) :
    ∃ pre, retainedUpTo s.files B ++ (writesOfSegs segs).flatten = pre ++ retainedUpTo (runSegs s segs).files B :=
  runSegs_suffix_grow B segs s hmono hB hempty

/-- non-vacuity: MaxBackups 1 then 2, one rotation in each segment, nothing lost -/
example :
    let segs : List (Cfg × List Op) :=
      [({ maxSize := 1, maxBackups := 1 }, [.write [1], .write [2]]), ({ maxSize := 1, maxBackups := 2 }, [.write [3]])]
    retainedUpTo (runSegs (fresh fun _ => none) segs).files 2 = [1, 2, 3] := by
  rfl

/-- CONTRAST, the hypothesis `hB` of `retained_is_suffix_across_restarts` is needed (and the property's quantifier — ONE
    MaxSize/MaxBackups per history, "Close/re-open at any point" — does not reach further): when MaxBackups is lowered
    3 → 1 and raised again across restarts, the B = 1 instance drops `path-1` — the record just before the current one —
    and never looks at `path-2`, `path-3`; read back with B = 3 the files hold records 1, 2, 4, 5: record 3 is missing
    from the MIDDLE.  The directory below is what an instance with MaxSize 1, MaxBackups 3 leaves after four one-byte
    records.  (The same history runs against the Go code in corpus/C12/rot.limitschange.ops: the code does exactly this.) -/
theorem suffix_lost_when_maxbackups_changes :
    let f : Files := fun j => if j = 0 then some [4] else if j = 1 then some [3] else if j = 2 then some [2]
                              else if j = 3 then some [1] else none
    let segs : List (Cfg × List Op) :=
      [({ maxSize := 1, maxBackups := 1 }, [.write [5]]), ({ maxSize := 1, maxBackups := 3 }, [])]
    retainedUpTo f 3 ++ (writesOfSegs segs).flatten = [1, 2, 3, 4, 5] ∧
    retainedUpTo (runSegs (fresh f) segs).files 3 = [1, 2, 4, 5] ∧
    (¬ ∃ pre, retainedUpTo f 3 ++ (writesOfSegs segs).flatten = pre ++ retainedUpTo (runSegs (fresh f) segs).files 3) ∧
    -- inside the B = 1 segment the clause holds, read with THAT segment's MaxBackups (`retained_is_suffix`)
    retainedUpTo (runSegs (fresh f) (segs.take 1)).files 1 = [4, 5] := by
  intro f segs
  have h1 : retainedUpTo f 3 ++ (writesOfSegs segs).flatten = [1, 2, 3, 4, 5] := by rfl
  have h2 : retainedUpTo (runSegs (fresh f) segs).files 3 = [1, 2, 4, 5] := by rfl
  refine ⟨h1, h2, ?_, by rfl⟩
  rw [h1, h2]
  rintro ⟨pre, h⟩
  have : [1, 2, 4, 5] <:+ [1, 2, 3, 4, 5] := ⟨pre, h.symm⟩
  revert this
  decide

/-- clause "at most MaxBackups backups exist" — what the code does and does not do: it never CREATES or touches an index
    above MaxBackups (`backup_frame`), and for the same reason it never PRUNES one: a backup beyond MaxBackups (left by an
    instance with a larger limit) stays, unchanged, for ever.  `backup_count` therefore needs its hypothesis `h0`. -/
theorem stale_backups_are_never_pruned (cfg : Cfg) (s : St) (ops : List Op) (j : Nat) (g : Bytes)
    (hj : cfg.maxBackups < j) (h : s.files j = some g) : (run cfg s ops).files j = some g := by
  rw [run_frame cfg s ops j hj]; exact h

/-- … concretely (non-vacuity of the above, and CONTRAST to `backup_count` without `h0`): three backups were made with
    MaxBackups 3 (the directory below); the next instance runs with MaxBackups 1 and rotates — three backups exist, two
    of them beyond the limit (corpus/C12/rot.limitschange.ops: the Go code leaves them too) -/
theorem lowering_maxbackups_never_prunes :
    let f : Files := fun j => if j = 0 then some [4] else if j = 1 then some [3] else if j = 2 then some [2]
                              else if j = 3 then some [1] else none
    let s := run { maxSize := 1, maxBackups := 1 } (fresh f) [.write [5]]
    (s.files 0, s.files 1, s.files 2, s.files 3) = (some [5], some [4], some [2], some [1]) := by
  rfl

/-- CONTRAST for restarts with the SAME limits (`retained_is_suffix_across_restarts`, `retained_is_suffix` from any
    directory): the rotation must shift ALL slots `MaxBackups … 1`, whatever this instance has written itself.  The
    variant that shifts only the slots it has filled (`Rot.rotateFilesCounting`, a per-instance counter starting at 0)
    renames the current file OVER `path-1` on the first rotation after a restart: with `[1]`,`[2]`,`[3]` left by the
    previous run (MaxBackups 2) the files read `[1],[3]` — `[2]` is lost from the middle; the code's chain gives `[2],[3]`.
    On a directory that was empty at the start the two agree (slots 0, 1, 2). -/
theorem restart_must_shift_all_slots :
    let cfg : Cfg := { maxSize := 1, maxBackups := 2 }
    let f : Files := fun j => if j = 0 then some [3] else if j = 1 then some [2] else if j = 2 then some [1] else none
    retainedUpTo f 2 = [1, 2, 3] ∧
    retainedUpTo (rotateFilesCounting cfg 0 f) 2 = [1, 3] ∧
    (¬ ∃ pre, retainedUpTo f 2 = pre ++ retainedUpTo (rotateFilesCounting cfg 0 f) 2) ∧
    retainedUpTo (rotateFiles cfg f) 2 = [2, 3] ∧
    (let g : Files := fun i => if i = 0 then some [3] else none
     (rotateFilesCounting cfg 0 g 0, rotateFilesCounting cfg 0 g 1, rotateFilesCounting cfg 0 g 2)
       = (rotateFiles cfg g 0, rotateFiles cfg g 1, rotateFiles cfg g 2)) := by
  intro cfg f
  have h1 : retainedUpTo f 2 = [1, 2, 3] := by rfl
  have h2 : retainedUpTo (rotateFilesCounting cfg 0 f) 2 = [1, 3] := by rfl
  refine ⟨h1, h2, ?_, by rfl, by rfl⟩
  rw [h1, h2]
  rintro ⟨pre, h⟩
  have : [1, 3] <:+ [1, 2, 3] := ⟨pre, h.symm⟩
  revert this
  decide

/-! ## concurrent goroutines — theorems about the bracketed machine

`Model/Mutex.lean` is a generic small-step machine: every goroutine runs its own list of calls, every call is
`Lock(); micro-steps; Unlock()`, the scheduler picks any enabled goroutine at every step (one that wants the held mutex
is not enabled).  `Lemmas/RotationConc.lean` gives the micro-steps of `Write` (open block, size test, rotate's close,
`os.Remove`, every single `os.Rename`, reset, and the write BYTE BY BYTE), `Close`, `Sync`, restart, and proves that
they compute the sequential model.

WHAT THESE THEOREMS ARE ABOUT: the machine, in which every call is wrapped in Lock/Unlock BY CONSTRUCTION.  They say
"mutual exclusion ⇒ linearizable, dead-lock free, bounded" for the Rotator's micro-steps; they do not look at
rotator.go.  Deleting `r.lock.Lock()` from the Go `Write`, or unlocking before `file.Write`, leaves every theorem of
this section true.  That the code really brackets every method with the one mutex is NOT proved; its only tie is the
`stress` oracle of the check (goroutines calling Write/Close/Sync on one Rotator, judged by the conclusion below), with
and without the race detector — which is what catches exactly those edits (seeds own-c12-8/17/18/19/20, ind2-c12-a).
`unbracketed_*` show that the same machine without the bracket violates the clause. -/

/-- clause "concurrent writers never interleave bytes within one write", for the bracketed MODEL machine (see the section
    header for what is and is not claimed about the code): for EVERY schedule of the machine, with any number of
    goroutines calling Write/Close/Sync in any programs, at every moment at which the mutex is free, the state (the
    directory included) is exactly that of the sequential model run on the calls in the order `ops` in which they
    acquired the mutex; `ops` is an interleaving of WHOLE calls with every goroutine's calls in its own order (its
    acquired calls followed by what it has still to do are its program); every finished `Write(b)` returned `len b`;
    and therefore the files read back from the oldest backup to the current file are a suffix of the concatenation of
    the whole records in that order — nothing torn, duplicated, lost or reordered inside it (all sequential theorems
    above apply to `run cfg (fresh f) ops`). -/
theorem concurrent_writes_never_interleave (cfg : Cfg) (f : Files) (progs : Nat → List Op) (sch : List Nat)
    (c : Mutex.Config St Op PC Nat)
    (he : Mutex.exec (sys cfg) true (Mutex.init (fresh f) progs) sch = some c) (hfree : c.holder = none) :
    c.shared = run cfg (fresh f) (c.acq.map (·.2)) ∧
    (∀ t, Mutex.opsOf t c.acq ++ (c.threads t).todo = progs t) ∧
    (∀ t, (c.threads t).res = (Mutex.opsOf t c.acq).map resultOf) ∧
    ∃ pre, retained cfg f ++ (writesOf (c.acq.map (·.2))).flatten = pre ++ retained cfg c.shared.files := by
  obtain ⟨h1, _, hres, hord⟩ := Mutex.linearizable_fun (sys cfg) (runOp cfg) Track (runs_op cfg) (track_runOp cfg)
    (fresh f) (track_fresh f) progs sch c he hfree
  rw [seqExec_runOp] at h1
  simp only [Prod.mk.injEq] at h1
  obtain ⟨hlog, hsh⟩ := h1
  refine ⟨hsh.symm, hord, ?_, ?_⟩
  · intro t; rw [hres t, ← hlog, resOf_map]
  · rw [← hsh]; exact run_suffix cfg (fresh f) _

/-- the same when every goroutine has finished: the linearisation consists of ALL calls of all goroutines -/
theorem concurrent_complete (cfg : Cfg) (f : Files) (progs : Nat → List Op) (sch : List Nat)
    (c : Mutex.Config St Op PC Nat)
    (he : Mutex.exec (sys cfg) true (Mutex.init (fresh f) progs) sch = some c) (hd : Mutex.AllDone c) :
    c.shared = run cfg (fresh f) (c.acq.map (·.2)) ∧ (∀ t, Mutex.opsOf t c.acq = progs t) ∧
    (∀ t, (c.threads t).res = (progs t).map resultOf) := by
  have hfree : c.holder = none := by
    have hi := Mutex.inv_reachable (sys cfg) (fresh f) progs sch c he
    cases hh : c.holder with
    | none => rfl
    | some t => have := (hi.hold t).2 hh; rw [(hd t).2] at this; cases this
  obtain ⟨h1, h2, h3, _⟩ := concurrent_writes_never_interleave cfg f progs sch c he hfree
  have hall : ∀ t, Mutex.opsOf t c.acq = progs t := by
    intro t; have := h2 t; rw [(hd t).1, List.append_nil] at this; exact this
  exact ⟨h1, hall, fun t => by rw [h3 t, hall t]⟩

/-- clauses "no rotated file exceeds MaxSize unless a single write is itself larger" and "at most MaxBackups backups"
    for any number of concurrent writers: whenever the mutex is free, every file is at most `MaxSize` long, or is
    exactly one record that some goroutine's program writes, or is an untouched pre-existing file; and no index above
    `MaxBackups` was touched -/
theorem concurrent_bounds (cfg : Cfg) (f : Files) (progs : Nat → List Op) (sch : List Nat)
    (c : Mutex.Config St Op PC Nat)
    (he : Mutex.exec (sys cfg) true (Mutex.init (fresh f) progs) sch = some c) (hfree : c.holder = none) :
    (∀ i g, c.shared.files i = some g →
        g.length ≤ cfg.maxSize ∨ (∃ t, Op.write g ∈ progs t) ∨ (∃ j, f j = some g)) ∧
    (∀ j, cfg.maxBackups < j → c.shared.files j = f j) := by
  obtain ⟨h1, h2, _, _⟩ := concurrent_writes_never_interleave cfg f progs sch c he hfree
  constructor
  · intro i g hg
    rw [h1] at hg
    rcases size_bound cfg (fresh f) _ (track_fresh f) i g hg with h | ⟨w, hw, e⟩ | h
    · exact Or.inl h
    · right; left
      subst e
      have hmem := writesOf_mem hw
      simp only [List.mem_map] at hmem
      obtain ⟨⟨t, op⟩, hx, hop⟩ := hmem
      simp only at hop
      subst hop
      refine ⟨t, ?_⟩
      rw [← h2 t]
      exact List.mem_append_left _ (mem_opsOf hx)
    · exact Or.inr (Or.inr h)
  · intro j hj; rw [h1]; exact run_frame cfg (fresh f) _ j hj

/-- clause "every Write returns in bounded time", scheduling half: under every schedule some goroutine can always take
    a step until all have finished their programs (no dead-lock); together with `write_terminates` (the holder's own
    steps are bounded: at most two passes, each a bounded chain) no call waits for ever under a fair scheduler -/
theorem concurrent_progress (cfg : Cfg) (f : Files) (progs : Nat → List Op) (sch : List Nat)
    (c : Mutex.Config St Op PC Nat)
    (he : Mutex.exec (sys cfg) true (Mutex.init (fresh f) progs) sch = some c) :
    (∃ t, (Mutex.step (sys cfg) true c t).isSome = true) ∨ Mutex.AllDone c :=
  Mutex.progress (sys cfg) (fresh f) progs sch c he

/-- clause "every Write returns in bounded time", for any number of goroutines: every method, started in ANY state,
    finishes within `opBound` micro-steps (`Write(b)`: at most two passes, one rotation of `MaxBackups+3` actions, and
    `len b` bytes), hence EVERY schedule of `n` goroutines is at most `Σ_goroutines Σ_calls (opBound + 2)` steps long —
    no schedule runs for ever, and with `concurrent_progress` every call is completed -/
theorem concurrent_returns_in_bounded_time (cfg : Cfg) (f : Files) (progs : Nat → List Op) (n : Nat)
    (hn : ∀ t, n ≤ t → progs t = []) (sch : List Nat) (c : Mutex.Config St Op PC Nat)
    (he : Mutex.exec (sys cfg) true (Mutex.init (fresh f) progs) sch = some c) :
    sch.length ≤ Mutex.sumTo n (fun t => Mutex.cost (fun op => opBound cfg op + 2) (progs t)) :=
  Mutex.schedule_bounded_programs (sys cfg) (opBound cfg) (op_bounded cfg) (fresh f) progs n hn sch c he

/-- two goroutines, MaxSize 2, one backup: goroutine 0 writes `[1,1]`, goroutine 1 writes `[2,2]`, goroutine 0 writes `[3]` -/
def demoProgs : Nat → List Op
  | 0 => [.write [1, 1], .write [3]]
  | 1 => [.write [2, 2]]
  | _ => []

/-- non-vacuity: a schedule of the locked machine with two goroutines and rotations in between exists and ends with
    all goroutines done; goroutine 1's whole record sits between goroutine 0's records (here: `[1,1]` was rotated out by
    the second rotation, `[2,2]` is backup 1, `[3]` is current), every call returned its length -/
example :
    (Mutex.exec (sys { maxSize := 2, maxBackups := 1 }) true (Mutex.init (fresh fun _ => none) demoProgs)
        (List.replicate 7 0 ++ List.replicate 12 1 ++ List.replicate 11 0)).map
      (fun c => (c.shared.files 0, c.shared.files 1, c.holder, (c.threads 0).res, (c.threads 1).res,
                 c.acq.map (·.1), (c.threads 0).todo.length, (c.threads 1).todo.length))
    = some (some [3], some [2, 2], none, [2, 1], [2], [0, 1, 0], 0, 0) := by rfl

/-- … and a goroutine that asks for the mutex while another one is inside a bracket is not enabled -/
example :
    (Mutex.exec (sys { maxSize := 2, maxBackups := 1 }) true (Mutex.init (fresh fun _ => none) demoProgs)
        [0, 0, 1]).isNone = true := by rfl

/-- WITHOUT the bracket (the same machine with `lock := false`) the clause is false, torn bytes: two goroutines write
    `[1,1]` and `[2,2]` (MaxSize 10); under the schedule below the file reads `[1,2,1,2]`, which neither sequential
    order produces.  The locked machine rejects this schedule. -/
theorem unbracketed_writes_tear :
    let cfg : Cfg := { maxSize := 10, maxBackups := 1 }
    let progs : Nat → List Op := fun t => if t = 0 then [.write [1, 1]] else if t = 1 then [.write [2, 2]] else []
    let sch := [0, 0, 0, 0, 1, 1, 1, 1, 0, 1, 0, 1, 0, 1]
    ((Mutex.exec (sys cfg) false (Mutex.init (fresh fun _ => none) progs) sch).map
        (fun c => (c.shared.files 0, (c.threads 0).res, (c.threads 1).res, (c.threads 0).todo.length,
                   (c.threads 1).todo.length, (c.threads 0).cur.isSome, (c.threads 1).cur.isSome)))
      = some (some [1, 2, 1, 2], [2], [2], 0, 0, false, false) ∧
    (run cfg (fresh fun _ => none) [.write [1, 1], .write [2, 2]]).files 0 = some [1, 1, 2, 2] ∧
    (run cfg (fresh fun _ => none) [.write [2, 2], .write [1, 1]]).files 0 = some [2, 2, 1, 1] ∧
    (Mutex.exec (sys cfg) true (Mutex.init (fresh fun _ => none) progs) sch).isNone = true := by
  intro cfg progs sch
  exact ⟨by rfl, by rfl, by rfl, by rfl⟩

/-- WITHOUT the bracket, size accounting: the file holds 2 bytes, MaxSize is 3, two goroutines write one byte each; both
    pass the size test before either writes, and the file ends 4 bytes long although no record is longer than 1 — in
    every sequential order the second write rotates and no file exceeds 3 bytes -/
theorem unbracketed_size_accounting_wrong :
    let cfg : Cfg := { maxSize := 3, maxBackups := 1 }
    let f : Files := fun j => if j = 0 then some [9, 9] else none
    let progs : Nat → List Op := fun t => if t = 0 then [.write [1]] else if t = 1 then [.write [2]] else []
    let sch := [0, 0, 0, 1, 1, 1, 0, 1, 0, 1, 0, 1]
    ((Mutex.exec (sys cfg) false (Mutex.init (fresh f) progs) sch).map
        (fun c => (c.shared.files 0, c.shared.files 1, (c.threads 0).todo.length, (c.threads 1).todo.length,
                   (c.threads 0).cur.isSome, (c.threads 1).cur.isSome)))
      = some (some [9, 9, 1, 2], none, 0, 0, false, false) ∧
    ((run cfg (fresh f) [.write [1], .write [2]]).files 0, (run cfg (fresh f) [.write [1], .write [2]]).files 1)
      = (some [2], some [9, 9, 1]) ∧
    (Mutex.exec (sys cfg) true (Mutex.init (fresh f) progs) sch).isNone = true := by
  intro cfg f progs sch
  exact ⟨by rfl, by rfl, by rfl⟩

/-! ## a file system whose calls fail

`Model/RotationErr.lean` runs the same methods on a file system in which every system call of rotator.go — MkdirAll,
Stat, OpenFile, Close, Remove, every single Rename of the chain, the descriptor Write (which may be SHORT), Sync — asks
an ENVIRONMENT whether it fails; the error returns of the Go code are transcribed branch for branch.  This is the model
the driver executes (`Rot.iterateE cfg env 64`, `closeE`, `syncE`, `reopenE`); area `rotf` of the check compares it with
the code under REAL faults (an immutable backup slot, the directory replaced by a regular file, a file size limit).
The theorems below hold for EVERY environment (any call failing at any moment, any short write) and from ANY state —
no hypothesis about reachability. -/

/-- clause "every Write returns in bounded time" on a failing file system: whatever fails, the retry loop ends within two
    passes — a rotation that succeeded leaves no current file, so the second pass cannot ask for another one; a
    rotation that failed returns its error at once (it does not `goto retry`) -/
theorem faulty_write_terminates (cfg : Cfg) (env : Env) (s : StE) (b : Bytes) :
    ∃ n, n ≤ 2 ∧ (iterateE cfg env n s b).isRet = true :=
  ⟨2, Nat.le_refl 2, by rw [iterateE_eq_writeE cfg env s b 0]; rfl⟩

/-- … and the loop the driver runs (bound 64) is `writeE` -/
theorem faulty_write_loop_bounded (cfg : Cfg) (env : Env) (s : StE) (b : Bytes) (k : Nat) :
    iterateE cfg env (k + 2) s b = .ret (writeE cfg env s b).s (writeE cfg env s b).n (writeE cfg env s b).err :=
  iterateE_eq_writeE cfg env s b k

/-- what `Write` returns: never more than `len b`; no error exactly with the full length; an error from anything but
    the descriptor write (MkdirAll, OpenFile, and inside rotate: Close, Remove, a Rename) comes with `n = 0` -/
theorem faulty_write_returns (cfg : Cfg) (env : Env) (s : StE) (b : Bytes) :
    (writeE cfg env s b).n ≤ b.length ∧ ((writeE cfg env s b).err = none → (writeE cfg env s b).n = b.length) ∧
      (∀ c, (writeE cfg env s b).err = some c → c ≠ .writeFd → (writeE cfg env s b).n = 0) :=
  writeE_ret cfg env s b

/-- clauses "nothing duplicated, lost or reordered inside it" and "whole and unsplit" on a failing file system, one
    call: after `Write(b)` returned `n` — whatever failed on the way, a rotation stopped half-way included — the retained
    files (oldest backup to current file) are a suffix of what was retained before followed by EXACTLY the first `n`
    bytes of `b` -/
theorem short_write_places_prefix (cfg : Cfg) (env : Env) (s : StE) (b : Bytes) :
    ∃ pre, retained cfg s.st.files ++ b.take (writeE cfg env s b).n =
      pre ++ retained cfg (writeE cfg env s b).s.st.files :=
  writeE_suffix cfg env s b

/-- a `Write` that fails before the descriptor write places NOTHING: it reports `n = 0`, and the retained files afterwards
    are a suffix of the retained files before (a failed rotation may have dropped the oldest slot; nothing of `b`, and
    nothing else, was added, duplicated or reordered) -/
theorem failed_write_adds_nothing (cfg : Cfg) (env : Env) (s : StE) (b : Bytes) (c : Sys)
    (he : (writeE cfg env s b).err = some c) (hc : c ≠ .writeFd) :
    (writeE cfg env s b).n = 0 ∧ ∃ pre, retained cfg s.st.files = pre ++ retained cfg (writeE cfg env s b).s.st.files := by
  have hn := (writeE_ret cfg env s b).2.2 c he hc
  obtain ⟨pre, h⟩ := writeE_suffix cfg env s b
  rw [hn] at h
  exact ⟨hn, pre, by simpa using h⟩

/-- the suffix clause over every history on a failing file system, in terms of the ACKNOWLEDGED bytes (for every
    `Write(b)` the first `n` bytes of `b`, `n` the returned count): initial retained content followed by everything
    acknowledged, in order, ends with the retained files — for every environment, every history of
    Write/Close/re-open/Sync, from any state -/
theorem faulty_retained_is_suffix (cfg : Cfg) (env : Env) (s : StE) (ops : List Op) :
    ∃ pre, retained cfg s.st.files ++ (ackedE cfg env s ops).flatten = pre ++ retained cfg (runE cfg env s ops).st.files :=
  runE_suffix cfg env ops s

/-- clause "at most MaxBackups backups exist" on a failing file system: no call, failed or not, touches an index above
    `MaxBackups` -/
theorem faulty_backup_frame (cfg : Cfg) (env : Env) (s : StE) (ops : List Op) (j : Nat) (hj : cfg.maxBackups < j) :
    (runE cfg env s ops).st.files j = s.st.files j :=
  runE_frame cfg env ops j hj s

/-- every state reached on a failing file system has its size counter in step with the current file — for every
    environment in which a failing `os.Stat` is followed by a failing `os.OpenFile` (`Rot.StatTied`; the code ignores
    the error of Stat) -/
theorem faulty_reachable_in_step (cfg : Cfg) (env : Env) (hst : StatTied env) (s : StE) (ht : Track s.st)
    (ops : List Op) : Track (runE cfg env s ops).st :=
  (runE_pred cfg env hst (fun _ => True) (fun _ _ => trivial) ops s ht (fun _ _ _ => trivial) (fun _ _ _ => trivial)).1

/-- clause "no rotated file exceeds MaxSize unless a single write is itself larger" on a failing file system: after any
    history of failing and succeeding calls every file is at most `MaxSize` long, or is a PREFIX of one record written
    (an over-long record in a file of its own, possibly cut short by the file system), or an untouched initial file -/
theorem faulty_size_bound (cfg : Cfg) (env : Env) (hst : StatTied env) (s : StE) (ht : Track s.st) (ops : List Op)
    (i : Nat) (g : Bytes) (h : (runE cfg env s ops).st.files i = some g) :
    g.length ≤ cfg.maxSize ∨ (∃ w ∈ writesOf ops, ∃ n, g = w.take n) ∨ (∃ j, s.st.files j = some g) :=
  (runE_pred cfg env hst
    (fun g => g.length ≤ cfg.maxSize ∨ (∃ w ∈ writesOf ops, ∃ n, g = w.take n) ∨ (∃ j, s.st.files j = some g))
    (fun _ hf => Or.inl hf) ops s ht (fun w hw n => Or.inr (Or.inl ⟨w, hw, n, rfl⟩))
    (fun j _ hf => Or.inr (Or.inr ⟨j, hf⟩))).2 i g h

/-- CONTRAST, the hypothesis `StatTied` is needed because rotator.go IGNORES the error of `os.Stat`: if Stat fails and
    the OpenFile after it succeeds, the size counter starts at 0 on a file that holds bytes; with MaxSize 3 and a file
    `[9,9]`, `Write([1,1])` is appended — the file is 4 bytes long although no record is longer than 2 -/
theorem ignored_stat_error_breaks_size_bound :
    let cfg : Cfg := { maxSize := 3, maxBackups := 1 }
    let f : Files := fun j => if j = 0 then some [9, 9] else none
    let env : Env := { fails := fun _ c => c == .stat, wr := fun _ _ _ => none }
    let r := writeE cfg env ⟨fresh f, 0⟩ [1, 1]
    (r.n, r.err, r.s.st.files 0, r.s.st.size) = (2, none, some [9, 9, 1, 1], 2) ∧ ¬ Track r.s.st ∧ ¬ StatTied env := by
  intro cfg f env r
  refine ⟨by rfl, ?_, ?_⟩
  · intro ht
    obtain ⟨c, hc, hs⟩ := ht (by rfl)
    have h0 : r.s.st.files 0 = some [9, 9, 1, 1] := by rfl
    rw [h0] at hc
    injection hc with hc
    subst hc
    have h2 : r.s.st.size = 2 := by rfl
    rw [h2] at hs
    cases hs
  · intro hst
    have := hst 0 (by rfl)
    cases this

/-- recovery: as soon as the environment is calm (from the current system call on), `Write` from ANY state — whatever
    the earlier failures left behind: a closed handle, a stale size counter, a half-shifted directory — is the `write`
    of the never-failing model and returns `(len b, nil)`; all theorems of the sections above apply to it -/
theorem recovery_after_faults (cfg : Cfg) (env : Env) (s : StE) (b : Bytes) (h : CalmFrom env s.tick) :
    (writeE cfg env s b).s.st = write cfg s.st b ∧ (writeE cfg env s b).n = b.length ∧ (writeE cfg env s b).err = none :=
  let ⟨h1, h2, h3, _⟩ := writeE_calmFrom cfg env s b h; ⟨h1, h2, h3⟩

/-- the model with the calm environment IS the never-failing model, over whole histories, and acknowledges every byte:
    the theorems of the earlier sections are the special case `env = Env.calm` of what the driver runs -/
theorem calm_model_is_plain_model (cfg : Cfg) (s : St) (t : Nat) (ops : List Op) :
    (runE cfg Env.calm ⟨s, t⟩ ops).st = run cfg s ops ∧ ackedE cfg Env.calm ⟨s, t⟩ ops = writesOf ops :=
  ⟨runE_calmFrom cfg Env.calm ops ⟨s, t⟩ (calmFrom_calm t), ackedE_calmFrom cfg Env.calm ops ⟨s, t⟩ (calmFrom_calm t)⟩

/-- CONTRAST, mechanism "backup renaming chain": the loop of `rotate()` returns at the first `os.Rename` that fails.  The
    variant that goes on with the remaining renames (`Rot.renameChainKeepGoing`) loses bytes from the MIDDLE of the
    stream: MaxBackups 3, files `[1]` (current), `[2]`, `[3]`, the rename of backup 1 onto backup 2 fails — the next
    rename puts the current file over backup 1, and the files read `[3],[1]`, which is no suffix of `[3],[2],[1]`;
    the loop of the code stops and keeps `[3],[2],[1]` -/
theorem rename_chain_must_stop_at_failure :
    let env : Env := { fails := fun _ c => c == .rename 1 2 true, wr := fun _ _ _ => none }
    let f : Files := fun j => if j = 0 then some [1] else if j = 1 then some [2] else if j = 2 then some [3] else none
    retainedUpTo f 3 = [3, 2, 1] ∧
    retainedUpTo (renameChainKeepGoing env f 0 3) 3 = [3, 1] ∧
    (¬ ∃ pre, retainedUpTo f 3 = pre ++ retainedUpTo (renameChainKeepGoing env f 0 3) 3) ∧
    retainedUpTo (renameChainE env f 0 3).1 3 = [3, 2, 1] ∧ (renameChainE env f 0 3).2.2 = some (.rename 1 2 true) := by
  intro env f
  have h1 : retainedUpTo f 3 = [3, 2, 1] := by rfl
  have h2 : retainedUpTo (renameChainKeepGoing env f 0 3) 3 = [3, 1] := by rfl
  refine ⟨h1, h2, ?_, by rfl, by rfl⟩
  rw [h1, h2]
  rintro ⟨pre, h⟩
  have hl := congrArg List.length h
  rcases pre with _ | ⟨a, _ | ⟨b, t⟩⟩
  · simp at h
  · simp at h
  · simp only [List.length_append, List.length_cons, List.length_nil] at hl; omega

/-- non-vacuity of the failing model: MaxSize 3, one backup, the file holds `[9,9]`; the rename of the current file fails
    once (tick 1 is that call): `Write([1,1])` returns `(0, error)`, the directory is unchanged, the handle is closed;
    the same call repeated under the calm environment rotates and returns `(2, nil)` -/
example :
    let cfg : Cfg := { maxSize := 3, maxBackups := 1 }
    let f : Files := fun j => if j = 0 then some [9, 9] else none
    let env : Env := { fails := fun _ c => c == .rename 0 1 true, wr := fun _ _ _ => none }
    let r := writeE cfg env ⟨fresh f, 0⟩ [1, 1]
    (r.n, r.err, r.s.st.files 0, r.s.st.files 1, r.s.st.isOpen) = (0, some (.rename 0 1 true), some [9, 9], none, false) ∧
    (let r2 := writeE cfg Env.calm r.s [1, 1]
     (r2.n, r2.err, r2.s.st.files 0, r2.s.st.files 1) = (2, none, some [1, 1], some [9, 9])) := by
  exact ⟨by rfl, by rfl⟩

/-- non-vacuity, short write: the file system accepts one byte of `[1,2]` — `Write` returns `(1, error)`, the file holds
    `[9,9,1]`, the size counter counts the byte -/
example :
    let cfg : Cfg := { maxSize := 10, maxBackups := 1 }
    let f : Files := fun j => if j = 0 then some [9, 9] else none
    let env : Env := { fails := fun _ _ => false, wr := fun _ _ _ => some 1 }
    let r := writeE cfg env ⟨fresh f, 0⟩ [1, 2]
    (r.n, r.err, r.s.st.files 0, r.s.st.size) = (1, some .writeFd, some [9, 9, 1], 3) := by
  rfl

/-! ## New and its options -/

/-- without options the rotator has the default limits read from options.go (`Facts.rotation_*`) and the default path -/
theorem new_defaults :
    Rot.new [] = some { cfg := { maxSize := Facts.rotation_DefaultMaxSize.toNat,
                                 maxBackups := Facts.rotation_DefaultMaxBackups.toNat }, pathSet := false } := rfl

/-- mechanism "option validation": `New` fails exactly when some option is `Path("")`, wherever it stands -/
theorem new_fails_iff (opts : List Opt) : Rot.new opts = none ↔ Opt.path "" ∈ opts :=
  new_foldl_none_iff opts defaults

/-- `MaxSize(n)`/`MaxBackups(n)` with a negative `n` (the API takes signed integers): the size test with a non-empty
    file and the `maxBackups < 1` test give the same answers as for the clamped value 0, which is what the driver
    configures the model with (`Rot.clampLimit`) -/
theorem negative_limits_act_as_zero (m : Int) (size n : Nat) (hs : 0 < size) :
    (((size : Int) + (n : Int) > m) ↔ size + n > clampLimit m) ∧ ((m < 1) ↔ clampLimit m < 1) := by
  unfold clampLimit
  constructor <;> omega

/-! ## the interpreter's representation -/

/-- the driver keeps the directory as an array of `n` entries between steps; this loses nothing below `n` (and the
    driver's `n` exceeds `MaxBackups` and every pre-existing index, above which `backup_frame` says nothing changes) -/
theorem array_roundtrip (f : Files) (n j : Nat) (hj : j < n) : ofArray (toArray f n) j = f j := by
  rw [ofArray_toArray]; simp [hj]

/-! ## non-vacuity -/

/-- `Track` is satisfiable by more than fresh states, and the hypotheses of `retained_whole` are met by a concrete
    history with a rotation: MaxSize 2, MaxBackups 1, writes `[1,1]`, `[2]` — one rotation, nothing lost -/
example :
    let cfg : Cfg := { maxSize := 2, maxBackups := 1 }
    let ops := [Op.write [1, 1], Op.close, Op.write [2]]
    Track (run cfg (fresh fun _ => none) ops) ∧ rotations cfg (fresh fun _ => none) ops = 1 ∧
    retained cfg (run cfg (fresh fun _ => none) ops).files = [1, 1, 2] := by
  refine ⟨reachable_in_step _ _ _, ?_, ?_⟩
  · simp [rotations, rotates, writeStep, openIfNeeded, fresh, Files.set, Step.isDone, write, close, apply, rotate]
  · simp [retained, retainedUpTo, content, run, apply, write, writeStep, openIfNeeded, fresh, Files.set, close, rotate,
      rotateFiles, renameChain, mv]

/-- the rotation branch of `preexisting_appended` is reachable: a 3-byte file, MaxSize 3, one more byte -/
example : (write { maxSize := 3, maxBackups := 1 } (fresh fun j => if j = 0 then some [9, 9, 9] else none) [1]).files 1
    = some [9, 9, 9] := by
  simp [write, writeStep, openIfNeeded, fresh, Files.set, rotate, rotateFiles, renameChain, mv]

end C12
