import Generated.Lock_notifier
import Lemmas.LockSound

/-! # C17 — the lock discipline of `notifier`, checked against the source of the working tree

`Props/C17.lean` proves linearizability for a machine whose registry operations run inside the lock bracket and whose
deliveries run OUTSIDE it on a snapshot.  That the Go code has this shape is decided here about `LockFacts.notifier` /
`LockFacts.notifierEvents`, regenerated from the typed SSA form of package `notifier` on every run. -/
namespace C17Lock
open LockFacts

/-- every access to the registry (the three maps, the current batch, batch level, enabled flag) — cell, map entry or
    slice element, in whatever function — is made with enough of the lock held on ALL paths (writes: the mutex; reads: at
    least the read half), except READS of the elements of a slice copied out under the lock -/
theorem registry_accesses_locked : disciplined notifier = true := by decide

/-- the exemption is narrow: everything that is not an element read is locked without exception -/
theorem only_snapshot_elements_unlocked :
    strictlyDisciplined (notifier.filter (fun a => !(a.kind == .read && a.via == .sliceElem))) = true := by decide

/-- no map is ever read or written without the lock (a concurrent map access is fatal in Go) -/
theorem maps_always_locked :
    (notifier.filter (fun a => a.via == .mapEntry)).all (fun a => a.locked) = true := by decide

/-- premise of the readers-writer theorems of `Props/C17.lean` (`RW.ReadOnly`, `C17.concurrent_registry_linearizable_rw`):
    whatever the code does to the registry while holding only the READ half of the lock is a read — so brackets that
    overlap in time never write -/
theorem shared_brackets_read_only :
    (notifier.filter (fun a => a.must == .shared || a.may == .shared)).all (fun a => a.kind == .read) = true := by decide

/-- the user's targets (`HandleNotification`, `BatchMode`) are called with the lock free on EVERY path: a target may call
    back into the notifier (Register, Unregister, Notify, StartBatch …) without deadlock -/
theorem targets_called_unlocked : callbacksUnlocked notifierEvents = true := by decide

/-- the lock is never acquired on a path that already holds it -/
theorem no_reacquisition : noReacquire notifierEvents = true := by decide

/-- non-vacuity: both callback kinds and at least eight acquiring entry points are in the table -/
theorem table_not_vacuous :
    2 ≤ (notifierEvents.filter (fun e => e.what == .callback)).length ∧
    8 ≤ (notifierEvents.filter Event.isAcquire).length ∧
    10 ≤ (notifier.filter (fun a => a.kind == .write)).length := by decide

/-- consequence: a registry write never coincides with any other locked access of another goroutine; the only access
    that can coincide with a write is an unlocked element read of a snapshot (left to the race detector) -/
theorem write_excludes_everything_but_snapshot_reads {held : Nat → State} (hx : Exclusion held) {a b : Access}
    (ha : a ∈ notifier) (hb : b ∈ notifier) {t u : Nat} (htu : t ≠ u)
    (hea : Executing held t a) (heb : Executing held u b) (hw : a.kind = .write) :
    a.must = .exclusive ∧ b.locked = false ∧ b.snapshotRead = true :=
  no_conflict_snapshot registry_accesses_locked hx ha hb htu hea heb hw

/-- consequence: whatever the lock state of a goroutine that is about to call a target, it is `free` -/
theorem target_call_holds_nothing {e : Event} (he : e ∈ notifierEvents) (hcb : e.what = .callback) {s : State}
    (hs : s ≤ e.may) : s = .free :=
  callback_not_held targets_called_unlocked he hcb hs

end C17Lock
