import Model.FixedText
namespace C04
open FixedText

/-- placeholder while the lemma files are being built -/
theorem as_eq_checkedAs64 (mult : Int) (t : Target) (raw n : Int) (h : checkedAs64 mult t raw = some n) :
    as64 mult t raw = n := by
  unfold checkedAs64 at h
  simp only at h
  split at h
  · cases h
  · exact Option.some.inj h

end C04
