import Lemmas.FixedTextFloatGo
import Lemmas.FixedTextCheckedAs
import Lemmas.FixedTextLink
import Lemmas.FixedTextExp
import Lemmas.FixedTextCanon
import Lemmas.FixedTextAccept
import Generated.Facts
/-! # C04 — fixed-point values print canonically and parse back to the identical value

Property theorems only.  The executable model is `Model/FixedText.lean` (namespace `FixedText`): `toStr` = `String()`,
`toStrSign`, `comma`, `commaSign`, `fromStr64` / `fromStr128` = `FromString`, `unmarshal64/128` = `UnmarshalText` /
`UnmarshalJSON`, `unquote`, `commaNum`, `as64/128`, `checkedAs64/128`; `Model/FixedTextExp.lean` resolves the exponent
branch (`fromStrX64/128`, `unmarshalX64/128`: `strconv.ParseFloat` on every grammar a text with e/E can reach, then the C03
model of `From[T](float64)`), `Model/FixedTextFloat.lean` is the float branch of `As`/`CheckedAs`; the driver `drv_c04` runs
exactly these definitions against the Go code for the sixteen configurations of `Facts.fixedConfigs`.  Strings are byte lists
(45 = '-', 43 = '+', 46 = '.', 44 = ',', 48 = '0', 34 = '"'); a raw value is an `Int`, `fits64` / `fits128` its range.
`p` is the number of places and the multiplier is `10^p` — `configs_pow10` shows this is what the source's table says. -/
namespace C04
open FixedText

/-- the configuration table read from the source: multiplier = 10^places, 1 ≤ places ≤ 16 -/
theorem configs_pow10 : ∀ c ∈ Facts.fixedConfigs, c.2 = 10 ^ c.1 ∧ 1 ≤ c.1 ∧ c.1 ≤ 16 := by
  decide

/-! ## String() -/

/-- `String()` is sign ++ integer digits ++ optional '.' fraction digits, '-' exactly when the value is negative
    (also for −0.x, whose integer part is 0) -/
theorem toString_shape (p : Nat) (raw : Int) :
    toStr (10^p) raw = (if raw < 0 then [45] else []) ++ natStr (raw.tdiv (10^p)).natAbs ++
      (if raw.tmod (10^p) = 0 then [] else 46 :: fracStr p (raw.tmod (10^p)).natAbs) :=
  toStr_decomp p raw

/-- **exact**: the digits shown denote exactly `|raw| / 10^p`: read as one number `N` with `k` fraction digits,
    `N · 10^(p−k) = |raw|` -/
theorem toString_exact (p : Nat) (raw : Int) :
    let ip := natStr (raw.tdiv (10^p)).natAbs
    let fp := if raw.tmod (10^p) = 0 then [] else fracStr p (raw.tmod (10^p)).natAbs
    parseDigits (ip ++ fp) * 10^(p - fp.length) = raw.natAbs :=
  toStr_value p raw

/-- **canonical**: the integer digits are non-empty, have no leading zero (a lone "0" excepted); the fraction digits
    are at most `p`, have no trailing zero and are absent exactly when the fraction is zero -/
theorem toString_canonical (p : Nat) (raw : Int) :
    let ip := natStr (raw.tdiv (10^p)).natAbs
    let fp := if raw.tmod (10^p) = 0 then [] else fracStr p (raw.tmod (10^p)).natAbs
    ip ≠ [] ∧ (∀ c ∈ ip, isDigit c = true) ∧ (ip.head? = some 48 → ip = [48]) ∧
    (∀ c ∈ fp, isDigit c = true) ∧ fp.length ≤ p ∧ fp.getLast? ≠ some 48 ∧ (fp = [] ↔ raw.tmod (10^p) = 0) :=
  toStr_canonical p raw

/-- f128 computes the fraction by subtraction instead of `%`: same text -/
theorem toString_f128_same (mult raw : Int) : toStr128 mult raw = toStr mult raw := toStr128_eq mult raw

/-! ## the round trip -/

/-- **f64: FromString(String()) is the identity for every 64-bit raw value — `Min` included, whose text only
    re-parses through int64 wrap-around — and every number of places up to 18** -/
theorem fromString_toString64 (p : Nat) (hp : p ≤ 18) (raw : Int) (hr : fits64 raw = true) :
    fromStr64 p (10^p) (toStr (10^p) raw) = .ok raw :=
  fromStr64_toStr p hp raw hr

/-- **f128: FromString(String()) is the identity for every 128-bit raw value and every number of places** -/
theorem fromString_toString128 (p : Nat) (raw : Int) (hr : fits128 raw = true) :
    fromStr128 p (10^p) (toStr (10^p) raw) = .ok raw :=
  fromStr128_toStr p raw hr

/-- `UnmarshalText` / `UnmarshalJSON` of the bare rendering (Unquote leaves it alone: it starts with '-' or a digit) -/
theorem unmarshal_toString64 (p : Nat) (hp : p ≤ 18) (raw : Int) (hr : fits64 raw = true) :
    unmarshal64 p (10^p) (toStr (10^p) raw) = .ok raw := by
  unfold unmarshal64
  rw [unquote_bare, fromStr64_toStr p hp raw hr]
  left
  rw [toStr_decomp]
  obtain ⟨c, t, e, h1, h2, _⟩ := natStr_head (raw.tdiv (10^p)).natAbs
  rw [e]
  split <;> simp <;> omega

/-- … and of the quoted rendering `"…"` (JSON string, quoted YAML scalar) -/
theorem unmarshal_quoted64 (p : Nat) (hp : p ≤ 18) (raw : Int) (hr : fits64 raw = true) :
    unmarshal64 p (10^p) (34 :: (toStr (10^p) raw ++ [34])) = .ok raw := by
  unfold unmarshal64
  rw [unquote_quoted, fromStr64_toStr p hp raw hr]

theorem unmarshal_toString128 (p : Nat) (raw : Int) (hr : fits128 raw = true) :
    unmarshal128 p (10^p) (toStr (10^p) raw) = .ok raw := by
  unfold unmarshal128
  rw [unquote_bare, fromStr128_toStr p raw hr]
  left
  rw [toStr_decomp]
  obtain ⟨c, t, e, h1, h2, _⟩ := natStr_head (raw.tdiv (10^p)).natAbs
  rw [e]
  split <;> simp <;> omega

theorem unmarshal_quoted128 (p : Nat) (raw : Int) (hr : fits128 raw = true) :
    unmarshal128 p (10^p) (34 :: (toStr (10^p) raw ++ [34])) = .ok raw := by
  unfold unmarshal128
  rw [unquote_quoted, fromStr128_toStr p raw hr]

/-! ## Comma and the *WithSign forms -/

/-- `Comma()` only adds separators: removing the commas gives `String()` back -/
theorem comma_only_adds_commas (p : Nat) (raw : Int) : stripCommas (comma (10^p) raw) = toStr (10^p) raw :=
  comma_strip p raw

/-- the separators stand in front of groups of exactly three digits: `Comma()` is sign ++ `commaBody` of the integer
    digits ++ the unchanged fraction, and `commaBody` is a first group of `len % 3` digits followed by `groups` -/
theorem comma_shape (p : Nat) (raw : Int) :
    comma (10^p) raw = (if raw < 0 then [45] else []) ++ commaBody (natStr (raw.tdiv (10^p)).natAbs) ++
      (if raw.tmod (10^p) = 0 then [] else 46 :: fracStr p (raw.tmod (10^p)).natAbs) := by
  obtain ⟨hne, hip, _, hfpd, _, _, hfp0⟩ := toStr_canonical p raw
  unfold comma
  rw [toStr_decomp]
  generalize hfp : (if raw.tmod (10^p) = 0 then [] else fracStr p (raw.tmod (10^p)).natAbs) = fp at *
  have htl : (if raw.tmod (10^p) = 0 then [] else 46 :: fracStr p (raw.tmod (10^p)).natAbs) =
      (if fp = [] then [] else 46 :: fp) := by
    by_cases h0 : raw.tmod (10^p) = 0
    · rw [if_pos h0, if_pos (hfp0.mpr h0)]
    · rw [if_neg h0, if_neg (fun h => h0 (hfp0.mp h)), ← hfp, if_neg h0]
  rw [htl]
  have hfp46 : ∀ c ∈ fp, c ≠ 46 := fun c hc => by have := isDigit_bounds c (hfpd c hc); omega
  have h := commaNum_eval (decide (raw < 0)) _ fp hip hne hfp46
  simp only [decide_eq_true_eq] at h
  exact h

/-- every group written by the grouping loop is a comma (except possibly the first) and exactly three bytes -/
theorem groups_three (nc : Bool) (a b c : Nat) (t : Str) :
    groups nc (a :: b :: c :: t) = (if nc then [44] else []) ++ [a, b, c] ++ groups true t := by
  simp [groups]

/-- parsing `Comma()` returns the value -/
theorem fromString_comma64 (p : Nat) (hp : p ≤ 18) (raw : Int) (hr : fits64 raw = true) :
    fromStr64 p (10^p) (comma (10^p) raw) = .ok raw := by
  rw [fromStr64_comma, fromStr64_toStr p hp raw hr]

theorem fromString_comma128 (p : Nat) (raw : Int) (hr : fits128 raw = true) :
    fromStr128 p (10^p) (comma (10^p) raw) = .ok raw := by
  rw [fromStr128_comma, fromStr128_toStr p raw hr]

/-- the `*WithSign` renderings are the plain ones with a leading '+' exactly for values ≥ 0 -/
theorem withSign_forms (mult raw : Int) :
    toStrSign mult raw = (if raw ≥ 0 then 43 :: toStr mult raw else toStr mult raw) ∧
    commaSign mult raw = (if raw ≥ 0 then 43 :: comma mult raw else comma mult raw) := ⟨rfl, rfl⟩

/-- parsing `StringWithSign()` / `CommaWithSign()` returns the value -/
theorem fromString_withSign64 (p : Nat) (hp : p ≤ 18) (raw : Int) (hr : fits64 raw = true) :
    fromStr64 p (10^p) (toStrSign (10^p) raw) = .ok raw ∧ fromStr64 p (10^p) (commaSign (10^p) raw) = .ok raw := by
  unfold toStrSign commaSign
  by_cases h : raw ≥ 0
  · rw [if_pos h, if_pos h, fromStr64_commaPlus, fromStr64_plus p raw hr h, fromStr64_toStr p hp raw hr]
    exact ⟨rfl, rfl⟩
  · rw [if_neg h, if_neg h, fromStr64_comma, fromStr64_toStr p hp raw hr]
    exact ⟨rfl, rfl⟩

theorem fromString_withSign128 (p : Nat) (raw : Int) (hr : fits128 raw = true) :
    fromStr128 p (10^p) (toStrSign (10^p) raw) = .ok raw ∧ fromStr128 p (10^p) (commaSign (10^p) raw) = .ok raw := by
  unfold toStrSign commaSign
  by_cases h : raw ≥ 0
  · rw [if_pos h, if_pos h, fromStr128_commaPlus, fromStr128_plus p raw h, fromStr128_toStr p raw hr]
    exact ⟨rfl, rfl⟩
  · rw [if_neg h, if_neg h, fromStr128_comma, fromStr128_toStr p raw hr]
    exact ⟨rfl, rfl⟩

/-! ## the same for the configurations of the source -/

/-- every rendering of every f64 value in every configuration D1 … D16 parses back to the identical value -/
theorem roundtrip_configs64 : ∀ c ∈ Facts.fixedConfigs, ∀ raw : Int, fits64 raw = true →
    fromStr64 c.1 c.2 (toStr c.2 raw) = .ok raw ∧ fromStr64 c.1 c.2 (toStrSign c.2 raw) = .ok raw ∧
    fromStr64 c.1 c.2 (comma c.2 raw) = .ok raw ∧ fromStr64 c.1 c.2 (commaSign c.2 raw) = .ok raw ∧
    unmarshal64 c.1 c.2 (toStr c.2 raw) = .ok raw ∧ unmarshal64 c.1 c.2 (34 :: (toStr c.2 raw ++ [34])) = .ok raw := by
  intro c hc raw hr
  obtain ⟨e, _, h16⟩ := configs_pow10 c hc
  rw [e]
  have hp : c.1 ≤ 18 := by omega
  exact ⟨fromString_toString64 _ hp raw hr, (fromString_withSign64 _ hp raw hr).1, fromString_comma64 _ hp raw hr,
    (fromString_withSign64 _ hp raw hr).2, unmarshal_toString64 _ hp raw hr, unmarshal_quoted64 _ hp raw hr⟩

/-- every rendering of every f128 value in every configuration D1 … D16 parses back to the identical value -/
theorem roundtrip_configs128 : ∀ c ∈ Facts.fixedConfigs, ∀ raw : Int, fits128 raw = true →
    fromStr128 c.1 c.2 (toStr128 c.2 raw) = .ok raw ∧ fromStr128 c.1 c.2 (toStrSign c.2 raw) = .ok raw ∧
    fromStr128 c.1 c.2 (comma c.2 raw) = .ok raw ∧ fromStr128 c.1 c.2 (commaSign c.2 raw) = .ok raw ∧
    unmarshal128 c.1 c.2 (toStr c.2 raw) = .ok raw ∧ unmarshal128 c.1 c.2 (34 :: (toStr c.2 raw ++ [34])) = .ok raw := by
  intro c hc raw hr
  obtain ⟨e, _, _⟩ := configs_pow10 c hc
  rw [toStr128_eq, e]
  exact ⟨fromString_toString128 _ raw hr, (fromString_withSign128 _ raw hr).1, fromString_comma128 _ raw hr,
    (fromString_withSign128 _ raw hr).2, unmarshal_toString128 _ raw hr, unmarshal_quoted128 _ raw hr⟩

/-! ## Unquote -/

/-- one pair of surrounding double quotes is stripped -/
theorem unquote_quoted (s : Str) : unquote (34 :: (s ++ [34])) = s := FixedText.unquote_quoted s

/-- anything not both starting and ending with '"' is left alone -/
theorem unquote_bare (s : Str) (h : s.head? ≠ some 34 ∨ s.getLast? ≠ some 34) : unquote s = s :=
  FixedText.unquote_bare s h

/-- a single byte (a lone '"' included) is left alone — no slice out of range -/
theorem unquote_short (s : Str) (h : s.length ≤ 1) : unquote s = s := FixedText.unquote_short s h

/-! ## FromString never panics -/

/-- every byte string (any places, any multiplier) yields an error, the exponent branch, or a value INSIDE the 64-bit
    range — the informative part is `fits64 v`: no intermediate of the parse escapes the wrap-around arithmetic.  That
    the model is total is true of any Lean definition and is not evidence about the Go code; the run-time "no input
    makes it panic" assurance is the recover-guarded harness (every generated and corpus string is executed against the
    real functions, a panic is the output `panic` and a mismatch), the totality of the model only says that the
    transcription found no partial operation (no index, slice or division that could fail) in the modelled branch. -/
theorem fromString_total64 (p : Nat) (m : Int) (s : Str) :
    fromStr64 p m s = .err ∨ fromStr64 p m s = .exp ∨ ∃ v, fromStr64 p m s = .ok v ∧ fits64 v = true :=
  fromStr64_total p m s

theorem fromString_total128 (p : Nat) (m : Int) (s : Str) :
    fromStr128 p m s = .err ∨ fromStr128 p m s = .exp ∨ ∃ v, fromStr128 p m s = .ok v ∧ fits128 v = true :=
  fromStr128_total p m s

/-- **dispatch**: the part outside the model (the lossy `strconv.ParseFloat` detour) is entered exactly by non-empty
    inputs that contain 'e' or 'E' once the commas are removed — in both types, whatever the configuration -/
theorem fromString_exp_iff (p : Nat) (m : Int) (s : Str) :
    fromStr64 p m s = .exp ↔ s ≠ [] ∧ hasExp (stripCommas s) = true := fromStr64_exp_iff p m s

theorem fromString_exp_iff128 (p : Nat) (m : Int) (s : Str) :
    fromStr128 p m s = .exp ↔ s ≠ [] ∧ hasExp (stripCommas s) = true := fromStr128_exp_iff p m s

/-- **dispatch, the other half**: the grammar of the plain-literal theorems and the float detour are disjoint — no plain
    literal `[+-]? digit* ('.' digit*)?` (with or without separators, of any length, in any configuration) is ever
    sent through `ParseFloat`; together with `fromString_exp_iff` the dispatch is exhaustive: a text takes the detour
    iff it contains e/E, and every other text is decided by the exact integer path of the model.  (A change that
    routes plain literals through floats, e.g. long ones "for speed", contradicts `fromString_literal64/128`.) -/
theorem literal_never_float_path (p : Nat) (m : Int) (sg : Sign) (ip : Str) (fo : Option Str)
    (hl : IsLiteral sg ip fo) (t : Str) (ht : stripCommas t = litText sg ip fo) :
    fromStr64 p m t ≠ .exp ∧ fromStr128 p m t ≠ .exp :=
  literal_not_exp p m sg ip fo hl t ht

/-- the renderings of a value never take the detour either (they parse exactly, see the round-trip theorems) -/
theorem renderings_never_float_path (p : Nat) (raw : Int) :
    hasExp (stripCommas (toStr (10^p) raw)) = false ∧ hasExp (stripCommas (comma (10^p) raw)) = false := by
  rw [comma_strip, toStr_noComma]
  have : hasExp (toStr (10^p) raw) = false := by
    obtain ⟨_, hip, _, hfpd, _, _, _⟩ := toStr_canonical p raw
    apply hasExp_false
    intro c hc
    rw [toStr_decomp] at hc
    rcases List.mem_append.mp hc with h | h
    · rcases List.mem_append.mp h with h | h
      · split at h <;> simp at h; omega
      · have := isDigit_bounds c (hip c h); omega
    · by_cases h0 : raw.tmod (10^p) = 0
      · rw [if_pos h0] at h; simp at h
      · rw [if_neg h0] at h hfpd
        rcases List.mem_cons.mp h with h' | h'
        · omega
        · have := isDigit_bounds c (hfpd c h'); omega
  exact ⟨this, this⟩

/-! ## FromString of a plain decimal literal

A literal is `litText sg ip fo` = optional sign `sg`, integer digits `ip` (possibly none), optionally '.' and fraction
digits (`fo = some fp`, possibly none), with at least one digit (`IsLiteral`; no further restriction: ".5", "-.5",
"+.5", "5.", "-00.5" are all literals).  Its value truncated toward zero to `p` places is
the raw value `litVal p sg ip fo = ±(ip · 10^p + ⌊0.fp · 10^p⌋)`. -/

/-- **f64: a plain decimal literal whose truncated value is representable parses to exactly that value** (never
    rounded, never another number; leading zeros, "-0", "-00.5", missing integer part, fractions longer than `p`) -/
theorem fromString_literal64 (p : Nat) (hp : p ≤ 18) (sg : Sign) (ip : Str) (fo : Option Str)
    (hl : IsLiteral sg ip fo) (hfit : fits64 (litVal p sg ip fo) = true) :
    fromStr64 p (10^p) (litText sg ip fo) = .ok (litVal p sg ip fo) :=
  fromStr64_literal p hp sg ip fo hl hfit

/-- **f128: the same** (no bound on `p`) -/
theorem fromString_literal128 (p : Nat) (sg : Sign) (ip : Str) (fo : Option Str)
    (hl : IsLiteral sg ip fo) (hfit : fits128 (litVal p sg ip fo) = true) :
    fromStr128 p (10^p) (litText sg ip fo) = .ok (litVal p sg ip fo) :=
  fromStr128_literal p sg ip fo hl hfit

/-- thousands separators (anywhere, in particular where `Comma` puts them) do not change the result -/
theorem fromString_literal_commas64 (p : Nat) (hp : p ≤ 18) (sg : Sign) (ip : Str) (fo : Option Str)
    (hl : IsLiteral sg ip fo) (hfit : fits64 (litVal p sg ip fo) = true) (t : Str)
    (ht : stripCommas t = litText sg ip fo) : fromStr64 p (10^p) t = .ok (litVal p sg ip fo) :=
  fromStr64_literal_commas p hp sg ip fo hl hfit t ht

theorem fromString_literal_commas128 (p : Nat) (sg : Sign) (ip : Str) (fo : Option Str)
    (hl : IsLiteral sg ip fo) (hfit : fits128 (litVal p sg ip fo) = true) (t : Str)
    (ht : stripCommas t = litText sg ip fo) : fromStr128 p (10^p) t = .ok (litVal p sg ip fo) :=
  fromStr128_literal_commas p sg ip fo hl hfit t ht

/-- the fraction read is ⌊0.fp · 10^p⌋: the first `p` digits, zero-padded (truncation, not rounding) -/
theorem literal_fraction_truncates (p : Nat) (fp : Str) (h : ∀ c ∈ fp, isDigit c = true) :
    parseDigits ((fp ++ List.replicate (p - fp.length) 48).take p) = parseDigits fp * 10^p / 10^fp.length :=
  frac_take_spec p fp h

/-- non-vacuity: "-00.57" is a literal; with one place its value is the raw value −5 (the input of the repaired
    sign defect, and a truncation 0.57 ↦ 0.5) -/
example : IsLiteral .minus [48, 48] (some [53, 55]) ∧ litText .minus [48, 48] (some [53, 55]) = [45, 48, 48, 46, 53, 55] ∧
    litVal 1 .minus [48, 48] (some [53, 55]) = -5 := by
  refine ⟨⟨by decide, ?_, Or.inl (by decide)⟩, rfl, by decide⟩
  intro fp h c hc
  cases h
  revert c; decide

/-- non-vacuity: "+.5" (sign, no integer digit) is a literal; with two places its value is the raw value 50 -/
example : IsLiteral .plus [] (some [53]) ∧ litText .plus [] (some [53]) = [43, 46, 53] ∧
    litVal 2 .plus [] (some [53]) = 50 := by
  refine ⟨⟨by decide, ?_, Or.inr ⟨[53], rfl, by decide⟩⟩, rfl, by decide⟩
  intro fp h c hc
  cases h
  revert c; decide

/-! ## As / CheckedAs, integer targets -/

/-- f64: CheckedAs succeeds exactly when converting the result back gives the original, and then returns what As returns -/
theorem checkedAs_int_iff64 (mult : Int) (t : Target) (raw n : Int) :
    checkedAs64 mult t raw = some n ↔ (n = as64 mult t raw ∧ from64 mult n = raw) := by
  unfold checkedAs64
  simp only
  split
  · rename_i h
    constructor
    · intro h'; cases h'
    · rintro ⟨rfl, h2⟩; exact absurd h2 h
  · rename_i h
    have h' : from64 mult (as64 mult t raw) = raw := by
      by_cases hh : from64 mult (as64 mult t raw) = raw
      · exact hh
      · exact absurd hh h
    constructor
    · intro e; cases e; exact ⟨rfl, h'⟩
    · rintro ⟨rfl, _⟩; rfl

theorem checkedAs_int_iff128 (mult : Int) (t : Target) (raw n : Int) :
    checkedAs128 mult t raw = some n ↔ (n = as128 mult t raw ∧ from128 mult t n = raw) := by
  unfold checkedAs128
  simp only
  split
  · rename_i h
    constructor
    · intro h'; cases h'
    · rintro ⟨rfl, h2⟩; exact absurd h2 h
  · rename_i h
    have h' : from128 mult t (as128 mult t raw) = raw := by
      by_cases hh : from128 mult t (as128 mult t raw) = raw
      · exact hh
      · exact absurd hh h
    constructor
    · intro e; cases e; exact ⟨rfl, h'⟩
    · rintro ⟨rfl, _⟩; rfl

/-! ### what the criterion accepts, in closed form (the first statements about integer CheckedAs that are not the
    definition unfolded) -/

/-- **f64, signed targets** (int8/16/32/64/int), every configuration: CheckedAs succeeds with `n` ⇔ the value is the
    whole number `n` (raw = n·mult) and `n` lies in `[−2^(w−1), 2^(w−1))` — no wrap-around coincidence of the
    back-conversion `int64(n)·mult` can fake a success -/
theorem checkedAs_signed_iff64 : ∀ c ∈ Facts.fixedConfigs, ∀ t ∈ signedTargets, ∀ raw n : Int, fits64 raw = true →
    (checkedAs64 c.2 t raw = some n ↔ raw = n * c.2 ∧ inRange t n) := by
  intro c hc t ht raw n hr
  obtain ⟨hm, hm54⟩ := config_bounds c hc
  exact checkedAs64_signed c.2 hm hm54 t ht raw n hr

/-- **f64, uint8/uint16/uint32**: CheckedAs succeeds with `n` ⇔ raw = n·mult and `0 ≤ n < 2^w`; in particular every
    negative value is rejected (uses one computed fact about the table, `narrow_table`) -/
theorem checkedAs_narrow_unsigned_iff64 : ∀ c ∈ Facts.fixedConfigs, ∀ t ∈ narrowUnsignedTargets, ∀ raw n : Int,
    fits64 raw = true → (checkedAs64 c.2 t raw = some n ↔ raw = n * c.2 ∧ inRange t n) :=
  checkedAs64_narrow

/-- **f64, uint64/uint/uintptr — what the code accepts today**: CheckedAs succeeds ⇔ the value is a whole number of
    EITHER sign; the result is the integer part modulo 2^64, so −1 is "identified without loss" as 2^64−1 (`From`
    converts back through `int64(n)`, which wraps).  Recorded in Appendix B as an observation. -/
theorem checkedAs_u64_iff64 : ∀ c ∈ Facts.fixedConfigs, ∀ raw n : Int, fits64 raw = true →
    (checkedAs64 c.2 ⟨64, false⟩ raw = some n ↔ raw.tmod c.2 = 0 ∧ n = (raw.tdiv c.2) % 2^64) := by
  intro c hc raw n hr
  obtain ⟨hm, hm54⟩ := config_bounds c hc
  exact checkedAs64_u64 c.2 hm hm54 raw n hr

/-- **f128, every integer target**: CheckedAs succeeds with `n` ⇔ raw = n·mult and `n` lies in the range of the target —
    also for uint64 (f128 converts back through `uint64(n)`, no wrap) -/
theorem checkedAs_all_iff128 : ∀ c ∈ Facts.fixedConfigs, ∀ t ∈ allTargets, ∀ raw n : Int, fits128 raw = true →
    (checkedAs128 c.2 t raw = some n ↔ raw = n * c.2 ∧ inRange t n) := by
  intro c hc t ht raw n hr
  obtain ⟨hm, hm54⟩ := config_bounds c hc
  exact checkedAs128_all c.2 hm hm54 t ht raw n hr

/-- **the two types differ on uint64**: for a negative whole number (raw = q·mult, q < 0) f64 returns `q + 2^64`
    while f128 reports ErrDoesNotFitInRequestedType — the reading "converting it back yields the original" is literal
    in f64 and numerical in f128 -/
theorem checkedAs_u64_f64_vs_f128 : ∀ c ∈ Facts.fixedConfigs, ∀ q : Int, q < 0 → fits64 (q * c.2) = true →
    checkedAs64 c.2 ⟨64, false⟩ (q * c.2) = some (q + 2^64) ∧ checkedAs128 c.2 ⟨64, false⟩ (q * c.2) = none := by
  intro c hc q hq hr
  obtain ⟨hm, hm54⟩ := config_bounds c hc
  have hdiv : (q * c.2).tdiv c.2 = q := Int.mul_tdiv_cancel _ (by omega)
  have hmod : (q * c.2).tmod c.2 = 0 := Int.mul_tmod_left _ _
  constructor
  · rw [checkedAs64_u64 c.2 hm hm54 _ _ hr, hdiv]
    refine ⟨hmod, ?_⟩
    -- |q| ≤ 2^63, so q + 2^64 is the residue
    have hq63 : -(2^63) ≤ q := by
      simp only [fits64, Bool.and_eq_true, decide_eq_true_eq] at hr
      have : q * c.2 ≤ q * 1 := Int.mul_le_mul_of_nonpos_left (by omega) (by omega)
      omega
    omega
  · have hr128 : fits128 (q * c.2) = true := by
      simp only [fits64, fits128, Bool.and_eq_true, decide_eq_true_eq] at hr ⊢
      omega
    cases h : checkedAs128 c.2 ⟨64, false⟩ (q * c.2) with
    | none => rfl
    | some n =>
      have := (checkedAs128_all c.2 hm hm54 ⟨64, false⟩ (by simp [allTargets, signedTargets, narrowUnsignedTargets])
        _ n hr128).mp h
      obtain ⟨h1, h2⟩ := this
      simp only [inRange, Bool.false_eq_true, if_false] at h2
      have : n = q := Int.eq_of_mul_eq_mul_right (by omega) h1.symm
      omega

/-- the difference on concrete numbers: −1 in D1 (raw −10) -/
example : checkedAs64 10 ⟨64, false⟩ (-10) = some 18446744073709551615 ∧ checkedAs128 10 ⟨64, false⟩ (-10) = none := by
  decide

/-! ### one model of integer `As`, not two -/

/-- the integer `As` of this model and `Fixed.F64.asInt` / `Fixed.F128.asInt` of the C03 model are the same function on
    every representable raw value (both are run against the code; this links the theorems of the two properties) -/
theorem as_int_same_as_C03 : ∀ c ∈ Facts.fixedConfigs, ∀ (t : Target) (raw : Int),
    (fits64 raw = true → as64 c.2 t raw = Fixed.F64.asInt ⟨t.bits, t.signed⟩ c.2 raw) ∧
    (fits128 raw = true → as128 c.2 t raw = Fixed.F128.asInt ⟨t.bits, t.signed⟩ c.2 raw) := by
  intro c hc t raw
  exact ⟨fun h => as64_eq_C03 c.2 (config_bounds c hc).1 t raw h, fun h => as128_eq_C03 c hc t raw h⟩

/-- As returns the same value whenever CheckedAs succeeds -/
theorem as_eq_checkedAs64 (mult : Int) (t : Target) (raw n : Int) (h : checkedAs64 mult t raw = some n) :
    as64 mult t raw = n := ((checkedAs_int_iff64 mult t raw n).mp h).1.symm

theorem as_eq_checkedAs128 (mult : Int) (t : Target) (raw n : Int) (h : checkedAs128 mult t raw = some n) :
    as128 mult t raw = n := ((checkedAs_int_iff128 mult t raw n).mp h).1.symm

/-! ## As / CheckedAs, float targets — schematic form over uninterpreted stdlib functions

(These four theorems are stated over PARAMETERS `parseFloat`, `formatFloat`, `quo`; they show how the clause follows
from named contracts of the stdlib functions and do not by themselves carry the clause: nothing executes them.  The
executed instance follows in the next section.)

`checkedAsFloat64` / `checkedAsFloat128` transcribe the float branch of `CheckedAs` with the stdlib functions as
parameters.  `StrconvContract` names what is assumed of them: `ParseFloat` is correctly rounded (`parse_nearest`, over
texts that `Denotes` a decimal number), `FormatFloat(x,'f',-1,bits)` is the shortest round-trip text (`format_shortest`),
and "nearest float to ±N/10^k" depends on the value only (`nearest_scale`).  What is PROVED is the step in between: the
criterion of the code is the wording of the property, because `String()` denotes exactly raw/10^p (`toStr_denotes`,
from `toString_exact`).  The harness checks the same clause against big.Rat + strconv on every run (area `float`). -/

/-- `String()` is a decimal text denoting exactly raw/10^p -/
theorem toString_denotes (p : Nat) (raw : Int) :
    ∃ N k, Denotes (toStr (10^p) raw) (decide (raw < 0)) N k ∧ k ≤ p ∧ N * 10^(p - k) = raw.natAbs :=
  toStr_denotes p raw

/-- **f64, float target**: CheckedAs succeeds exactly when the shortest round-trip text of the float nearest to
    raw/10^p is the number's own text, and then returns that float -/
theorem checkedAs_float_iff64 {F : Type} {parseFloat : Str → F} {formatFloat : F → Str}
    {nearest : Bool → Nat → Nat → F} {shortest : F → Str}
    (h : StrconvContract parseFloat formatFloat nearest shortest) (p : Nat) (raw : Int) (x : F) :
    checkedAsFloat64 parseFloat formatFloat (10^p) raw = some x ↔
      (x = nearest (decide (raw < 0)) raw.natAbs p ∧ shortest x = toStr (10^p) raw) := by
  have hn := nearest_of_denotes h p raw
  unfold checkedAsFloat64 asFloat64
  simp only [hn, h.format_shortest]
  constructor
  · intro hh
    split at hh
    · cases hh
    · rename_i hne
      cases hh
      exact ⟨rfl, by_contra fun hc => hne hc⟩
  · rintro ⟨rfl, hs⟩
    rw [if_neg (fun hc => hc hs)]

/-- **f128, float target, soundness** (no assumption about the big.Float quotient): if CheckedAs succeeds, the value
    returned is the float nearest to raw/10^p and its shortest round-trip text is the number's own text; only the
    strconv contract and the round trip `ParseFloat(FormatFloat(x)) = x` are used -/
theorem checkedAs_float_sound128 {F : Type} {parseFloat : Str → F} {formatFloat : F → Str}
    {nearest : Bool → Nat → Nat → F} {shortest : F → Str} (quo : Int → Int → F)
    (h : StrconvContract parseFloat formatFloat nearest shortest)
    (hrt : ∀ x, parseFloat (formatFloat x) = x) (p : Nat) (raw : Int) (x : F)
    (hx : checkedAsFloat128 quo formatFloat (10^p) raw = some x) :
    x = nearest (decide (raw < 0)) raw.natAbs p ∧ shortest x = toStr (10^p) raw := by
  unfold checkedAsFloat128 asFloat128 at hx
  rw [toStr128_eq] at hx
  simp only at hx
  split at hx
  · cases hx
  · rename_i hne
    cases hx
    have heq : formatFloat (quo raw (10^p)) = toStr (10^p) raw := by_contra fun hc => hne hc
    refine ⟨?_, by rw [← h.format_shortest]; exact heq⟩
    rw [← nearest_of_denotes h p raw, ← heq, hrt]

/-- **f128, float target, completeness** under the additional named hypothesis that the 128-bit quotient converted to
    the target type is the nearest float (`quo_nearest`): CheckedAs succeeds exactly as the property words it -/
theorem checkedAs_float_iff128 {F : Type} {parseFloat : Str → F} {formatFloat : F → Str}
    {nearest : Bool → Nat → Nat → F} {shortest : F → Str} (quo : Int → Int → F)
    (h : StrconvContract parseFloat formatFloat nearest shortest)
    (quo_nearest : ∀ p raw, quo raw (10^p) = nearest (decide (raw < 0)) raw.natAbs p) (p : Nat) (raw : Int) (x : F) :
    checkedAsFloat128 quo formatFloat (10^p) raw = some x ↔
      (x = nearest (decide (raw < 0)) raw.natAbs p ∧ shortest x = toStr (10^p) raw) := by
  unfold checkedAsFloat128 asFloat128
  rw [toStr128_eq]
  simp only [quo_nearest, h.format_shortest]
  constructor
  · intro hh
    split at hh
    · cases hh
    · rename_i hne
      cases hh
      exact ⟨rfl, by_contra fun hc => hne hc⟩
  · rintro ⟨rfl, hs⟩
    rw [if_neg (fun hc => hc hs)]

/-- As returns the same value whenever CheckedAs succeeds (float targets) -/
theorem as_eq_checkedAs_float {F : Type} (parseFloat : Str → F) (formatFloat : F → Str) (quo : Int → Int → F)
    (mult raw : Int) (x : F) :
    (checkedAsFloat64 parseFloat formatFloat mult raw = some x → asFloat64 parseFloat mult raw = x) ∧
    (checkedAsFloat128 quo formatFloat mult raw = some x → asFloat128 quo mult raw = x) := by
  unfold checkedAsFloat64 checkedAsFloat128
  constructor <;> intro hh <;> simp only at hh <;> split at hh <;> first | (cases hh; done) | (cases hh; rfl) | exact Option.some.inj hh

/-- non-vacuity of the contract: it is satisfiable (a one-point float type) -/
example : StrconvContract (F := Unit) (fun _ => ()) (fun _ => []) (fun _ _ _ => ()) (fun _ => []) :=
  ⟨fun _ _ _ _ _ => rfl, fun _ => rfl, fun _ _ _ _ => rfl⟩

/-! ## As / CheckedAs, float targets — the instance the driver runs

`checkedAsF64 bits` / `checkedAsF128 bits` are `checkedAsFloat64/128` at `F := GoSem.F64` with the executable
`parseFloatGo` (nearest float of the target width to the denoted rational, `GoSem.F64.ofRat` / `Fixed.round32`),
`formatFloatGo` (first text with 1, 2, … significant digits that parses back) and `quoGo` (the C03 model of the
128-bit quotient).  The driver runs exactly these definitions against `As` / `CheckedAs` of the code (op `cfm`), and
`parseFloatGo` / `formatFloatGo` against `strconv.ParseFloat` / `strconv.FormatFloat` themselves (ops `pf`, `ff`), so a
regression of the float branch (wrong format verb, wrong bit size, a float detour) shows as a model/code mismatch.
What is NOT proved: that `formatFloatGo` is minimal (no shorter text parses back) and that `ofRat` is the nearest float
(C02 validates the latter against the hardware); both are tied to strconv by the `pf` / `ff` streams. -/

/-- `ParseFloat(String())` is `nearestDec` of the exact value: `N/10^k` with `N·10^(p−k) = |raw|` -/
theorem parseFloat_toString (bits p : Nat) (raw : Int) :
    parseFloatGo bits (toStr (10^p) raw) = nearestDec bits (decide (raw < 0)) (decOf p raw).1 (decOf p raw).2 ∧
    (decOf p raw).2 ≤ p ∧ (decOf p raw).1 * 10^(p - (decOf p raw).2) = raw.natAbs :=
  ⟨parseFloatGo_toStr bits p raw, decOf_value p raw⟩

/-- the text `formatFloatGo` returns parses back to the float (round trip, by construction of the search) -/
theorem formatFloat_roundtrip (bits : Nat) (x : Flt) (t : Str) (h : formatFloatGo bits x = t) (hne : t ≠ [])
    (hb : DecBytes t) : parseFloatGo bits t = x :=
  formatFloatGo_roundtrip bits x t h hne hb

/-- **f64, float targets, executed instance**: CheckedAs returns `x` ⇔ `x` is the float (of the target width) nearest
    to the exact value raw/10^p and its shortest round-trip text is the number's own text -/
theorem checkedAs_float_go64 (bits p : Nat) (raw : Int) (x : Flt) :
    checkedAsF64 bits (10^p) raw = some x ↔
      (x = nearestDec bits (decide (raw < 0)) (decOf p raw).1 (decOf p raw).2 ∧
       formatFloatGo bits x = toStr (10^p) raw) := by
  unfold checkedAsF64 checkedAsFloat64 asFloat64
  simp only [parseFloatGo_toStr]
  constructor
  · intro hh
    split at hh
    · cases hh
    · rename_i hne
      cases hh
      exact ⟨rfl, by_contra fun hc => hne hc⟩
  · rintro ⟨rfl, hs⟩
    rw [if_neg (fun hc => hc hs)]

/-- **f128, float targets, executed instance, soundness**: whatever the 128-bit quotient does, a success returns the
    float nearest to the exact value, and its shortest round-trip text is the number's own text (uses only the round
    trip of `formatFloatGo`) -/
theorem checkedAs_float_go128_sound (bits p : Nat) (raw : Int) (x : Flt)
    (hx : checkedAsF128 bits (10^p) raw = some x) :
    x = nearestDec bits (decide (raw < 0)) (decOf p raw).1 (decOf p raw).2 ∧
    formatFloatGo bits x = toStr (10^p) raw := by
  unfold checkedAsF128 checkedAsFloat128 asFloat128 at hx
  rw [toStr128_eq] at hx
  simp only at hx
  split at hx
  · cases hx
  · rename_i hne
    cases hx
    have heq : formatFloatGo bits (quoGo bits raw (10^p)) = toStr (10^p) raw := by_contra fun hc => hne hc
    refine ⟨?_, heq⟩
    rw [← parseFloatGo_toStr,
      formatFloatGo_roundtrip bits _ _ heq (toStr_ne_nil p raw) (toStr_decBytes p raw)]

/-- As returns the same value whenever CheckedAs succeeds (executed instance) -/
theorem as_eq_checkedAs_float_go (bits : Nat) (mult raw : Int) (x : Flt) :
    (checkedAsF64 bits mult raw = some x → asF64 bits mult raw = x) ∧
    (checkedAsF128 bits mult raw = some x → asF128 bits mult raw = x) :=
  as_eq_checkedAs_float (parseFloatGo bits) (formatFloatGo bits) (quoGo bits) mult raw x

/-- non-vacuity over F64: 1.15 (D2) is accepted as the float64 0x3ff2666666666666; 0.1 (D1, f128) as the float32
    0x3dcccccd; 9007199254740993.0 (2^53+1, D1) is rejected -/
example : checkedAsF64 64 100 115 = some (GoSem.F64.decode 0x3ff2666666666666) ∧
    checkedAsF128 32 10 1 = some (Fixed.decode32 0x3dcccccd) ∧
    checkedAsF64 64 10 90071992547409930 = none := by decide +kernel

/-! ## FromString of EVERY plain decimal literal (no representability hypothesis)

The clause "returns that number truncated toward zero to D places and never some other number" for literals whose
truncated value does not fit the machine type: what the code does there is now a theorem instead of a reading —
f128 returns the nearest end of its range, f64 either rejects the literal (integer part outside int64:
`strconv.ParseInt` range error) or returns the truncated value reduced modulo 2^64 (the wrap-around of `value *= mult`
and of `value += fraction - mult`).  The representable case of the previous section is the special case
`sat128 v = v` / `wrap64 v = v`. -/

/-- **f128, every plain literal**: the truncated value, saturated to the 128-bit range -/
theorem fromString_literal_all128 (p : Nat) (sg : Sign) (ip : Str) (fo : Option Str) (hl : IsLiteral sg ip fo) :
    fromStr128 p (10^p) (litText sg ip fo) = .ok (sat128 (litVal p sg ip fo)) :=
  fromStr128_literal_all p sg ip fo hl

/-- **f64, every plain literal**: rejected when the signed integer part is outside int64, otherwise the truncated value
    modulo 2^64 -/
theorem fromString_literal_all64 (p : Nat) (hp : p ≤ 18) (sg : Sign) (ip : Str) (fo : Option Str)
    (hl : IsLiteral sg ip fo) :
    fromStr64 p (10^p) (litText sg ip fo) =
      if ipFits64 sg ip = true then .ok (wrap64 (litVal p sg ip fo)) else .err :=
  fromStr64_literal_all p hp sg ip fo hl

/-- saturation and reduction are the identity on the range of the type (so the two theorems above contain
    `fromString_literal64/128`) and land inside it otherwise -/
theorem sat_wrap_range (v : Int) :
    (fits128 v = true → sat128 v = v) ∧ (fits64 v = true → wrap64 v = v) ∧
    fits128 (sat128 v) = true ∧ fits64 (wrap64 v) = true := by
  refine ⟨fun h => ?_, fun h => ?_, ?_, ?_⟩
  · simp only [fits128, Bool.and_eq_true, decide_eq_true_eq] at h
    unfold sat128; split <;> split <;> omega
  · simp only [fits64, Bool.and_eq_true, decide_eq_true_eq] at h
    unfold wrap64; omega
  · simp only [fits128, Bool.and_eq_true, decide_eq_true_eq]
    unfold sat128; split <;> split <;> omega
  · simp only [fits64, Bool.and_eq_true, decide_eq_true_eq]
    unfold wrap64; omega

/-- CONTRAST (why the hypothesis of `fromString_literal64` cannot simply be dropped): with one place,
    "922337203685477580.8" (= 2^63/10) is a plain literal whose truncated value 2^63 does not fit; f64 answers the
    OTHER number −2^63, f128 the number itself; "9223372036854775808" is rejected by f64 and parsed by f128 -/
example : fromStr64 1 10 (natStr 922337203685477580 ++ [46, 56]) = .ok (-(2^63)) ∧
    fromStr128 1 10 (natStr 922337203685477580 ++ [46, 56]) = .ok (2^63) ∧
    fromStr64 1 10 (natStr (2^63)) = .err ∧ fromStr128 1 10 (natStr (2^63)) = .ok (10 * 2^63) := by decide +kernel

/-! ## every byte string: what the plain branch can return at all

"… and never some other number", without restricting the input to literals.  Whatever bytes are given: if `FromString`
returns a value through the plain branch, then the text (commas removed) BEGINS with a sign and digits, optionally followed
by '.' and fraction digits — and only behind the `p`-th fraction digit may anything else follow, which is ignored
("1.239x" with two places is 1.23) — and the value is the truncated value of exactly that literal (f128: saturated; f64:
integer part inside int64, value modulo 2^64).  The digit-less texts "", "+", "-", ".", "+.", "-." (after comma removal)
are the literal with no digits, value 0.  So an accepted text never yields a number unrelated to its digits. -/

/-- **f128: anatomy and value of every accepted text** -/
theorem fromString_accepts128 (p : Nat) (s : Str) (v : Int) (h : fromStr128 p (10^p) s = .ok v) :
    ∃ (sg : Sign) (ip : Str) (fo : Option Str) (junk : Str),
      (∀ c ∈ ip, isDigit c = true) ∧ (∀ fp, fo = some fp → (∀ c ∈ fp, isDigit c = true) ∧ (junk ≠ [] → fp.length = p)) ∧
      (fo = none → junk = []) ∧ stripCommas s = litText sg ip fo ++ junk ∧ v = sat128 (litVal p sg ip fo) :=
  fromStr128_accepts p s v h

/-- **f64: anatomy and value of every accepted text** -/
theorem fromString_accepts64 (p : Nat) (s : Str) (v : Int) (h : fromStr64 p (10^p) s = .ok v) :
    ∃ (sg : Sign) (ip : Str) (fo : Option Str) (junk : Str),
      (∀ c ∈ ip, isDigit c = true) ∧ (∀ fp, fo = some fp → (∀ c ∈ fp, isDigit c = true) ∧ (junk ≠ [] → fp.length = p)) ∧
      (fo = none → junk = []) ∧ stripCommas s = litText sg ip fo ++ junk ∧ ipFits64 sg ip = true ∧
      v = wrap64 (litVal p sg ip fo) :=
  fromStr64_accepts p s v h

/-- the ignored tail and the digit-less texts, executed: "1.239x" (two places) is 123, "," and "-." are 0, "1.2x" is
    rejected (the 'x' stands where a fraction digit counts) -/
example : fromStr64 2 100 [49, 46, 50, 51, 57, 120] = .ok 123 ∧ fromStr128 2 100 [44] = .ok 0 ∧
    fromStr64 2 100 [45, 46] = .ok 0 ∧ fromStr128 2 100 [49, 46, 50, 120] = .err := by decide +kernel

/-! ## the exponent branch (`strings.ContainsAny(str, "Ee")` → `strconv.ParseFloat` → `From[T](float64)`)

`fromStrX64` / `fromStrX128` (Model/FixedTextExp.lean) are `FromString` with the outcome `.exp` of the plain model resolved:
`ParseFloat` as correctly rounded conversion (`GoSem.F64.ofRat`) on every grammar a text with an e/E can reach — decimal
exponent literals, the same with underscore separators (`strconv.underscoreOK` transcribed), hexadecimal floats (where
the 'e' is a mantissa digit) — then the C03 model of `From[T](float64)`.  No byte string is left outside the model.  These are the functions the driver runs on every `parse` line.  Exponent literals are not plain
literals (Appendix B) and the branch is lossy — `exp_branch_is_lossy` — so no truncation claim is made for it; what is
proved: it agrees with the plain model wherever that decides, it cannot panic, which outcomes each type has, when the
float → int64 conversion is implementation-defined, and how far the result can be from the literal's value. -/

/-- **the function the driver runs refines the plain model**: a value or an error of the plain model is the outcome of the
    full function, in both types — every theorem above about `fromStr64/128 … = .ok v` or `= .err` is a theorem about
    `fromStrX64/128` -/
theorem fromStringX_refines (p : Nat) (m : Int) (s : Str) :
    (∀ v, fromStr64 p m s = .ok v → fromStrX64 p m s = .ok v) ∧ (fromStr64 p m s = .err → fromStrX64 p m s = .err) ∧
    (∀ v, fromStr128 p m s = .ok v → fromStrX128 p m s = .ok v) ∧ (fromStr128 p m s = .err → fromStrX128 p m s = .err) :=
  ⟨fun _ h => fromStrX64_ok h, fromStrX64_err, fun _ h => fromStrX128_ok h, fromStrX128_err⟩

/-- the round trip, stated for the executed functions: every rendering of every value of both types in every
    configuration parses back through `FromString` and `UnmarshalText`/`UnmarshalJSON` (bare and quoted) -/
theorem roundtrip_configsX : ∀ c ∈ Facts.fixedConfigs, ∀ raw : Int,
    (fits64 raw = true →
      fromStrX64 c.1 c.2 (toStr c.2 raw) = .ok raw ∧ fromStrX64 c.1 c.2 (toStrSign c.2 raw) = .ok raw ∧
      fromStrX64 c.1 c.2 (comma c.2 raw) = .ok raw ∧ fromStrX64 c.1 c.2 (commaSign c.2 raw) = .ok raw ∧
      unmarshalX64 c.1 c.2 (toStr c.2 raw) = .ok raw ∧ unmarshalX64 c.1 c.2 (34 :: (toStr c.2 raw ++ [34])) = .ok raw) ∧
    (fits128 raw = true →
      fromStrX128 c.1 c.2 (toStr128 c.2 raw) = .ok raw ∧ fromStrX128 c.1 c.2 (toStrSign c.2 raw) = .ok raw ∧
      fromStrX128 c.1 c.2 (comma c.2 raw) = .ok raw ∧ fromStrX128 c.1 c.2 (commaSign c.2 raw) = .ok raw ∧
      unmarshalX128 c.1 c.2 (toStr c.2 raw) = .ok raw ∧ unmarshalX128 c.1 c.2 (34 :: (toStr c.2 raw ++ [34])) = .ok raw) := by
  intro c hc raw
  constructor
  · intro hr
    obtain ⟨h1, h2, h3, h4, h5, h6⟩ := roundtrip_configs64 c hc raw hr
    exact ⟨fromStrX64_ok h1, fromStrX64_ok h2, fromStrX64_ok h3, fromStrX64_ok h4,
      fromStrX64_ok (s := unquote _) h5, fromStrX64_ok (s := unquote _) h6⟩
  · intro hr
    obtain ⟨h1, h2, h3, h4, h5, h6⟩ := roundtrip_configs128 c hc raw hr
    exact ⟨fromStrX128_ok h1, fromStrX128_ok h2, fromStrX128_ok h3, fromStrX128_ok h4,
      fromStrX128_ok (s := unquote _) h5, fromStrX128_ok (s := unquote _) h6⟩

/-- **the dispatch keeps the special values away from `From`.**  The model's `ParseFloat` (`parseFloatAny`) contains
    `strconv.special`: "nan", "inf", "infinity" (any case, the infinities with a sign) ARE parsed to a NaN / an infinity
    without an error, exactly as the code's `ParseFloat` does, and `From[T]` of them is the f128 panic resp. the f64
    implementation-defined conversion (`special_values_would_reach_From`).  What keeps them away is proved, not built in: a
    special value that is the whole text contains no e/E, so on every text the dispatch sends to `ParseFloat` the result comes
    from `readFloat` — finite, or an error (overflow to ±Inf is `ErrRange`) -/
theorem special_needs_no_exponent (t : Str) :
    (∀ x n, special t = some (x, n) → n = t.length → hasExp t = false) ∧
    (hasExp t = true → ∀ x, parseFloatAny t = some x → special t = none ∧ readFloatAny t = some x ∧ ∃ s m e, x = .fin s m e) :=
  ⟨fun x n h hn => special_whole_noExp t x n h hn,
   fun he x h => ⟨(parseFloatAny_exp t he x h).1, (parseFloatAny_exp t he x h).2, parseFloatAny_fin t he x h⟩⟩

/-- CONTRAST — **what the dispatch prevents (the defect of a dispatch on more letters than e/E, seed own-c04-29)**: handed to the
    branch, "nan" panics in f128, "inf" meets the implementation-defined conversion in f64 and is 0 in f128, "+Infinity"
    likewise; "infinit" counts as "inf" followed by bytes and "+nan" is no special value: syntax errors; "1e999" is a range
    error; "nane5" / "infe" (special word, then bytes) are syntax errors -/
theorem special_values_would_reach_From :
    expBranch128 1 10 [110, 97, 110] = .panic ∧ expBranch128 1 10 [78, 97, 78] = .panic ∧
    expBranch64 10 [105, 110, 102] = .implDefined ∧ expBranch128 1 10 [105, 110, 102] = .ok 0 ∧
    expBranch64 10 [43, 73, 110, 102, 105, 110, 105, 116, 121] = .implDefined ∧
    expBranch64 10 [105, 110, 102, 105, 110, 105, 116] = .err ∧ expBranch128 1 10 [43, 110, 97, 110] = .err ∧
    parseFloatAny [49, 101, 57, 57, 57] = none ∧ parseFloatAny [110, 97, 110, 101, 53] = none ∧
    parseFloatAny [105, 110, 102, 101] = none := by decide +kernel

/-- the four renderings the property names: String, StringWithSign, Comma, CommaWithSign -/
def renderings (mult raw : Int) : List Str := [toStr mult raw, toStrSign mult raw, comma mult raw, commaSign mult raw]

/-- no rendering contains a double quote (bytes: digits, '-', '+', '.', ','), so `Unquote` leaves the bare forms alone -/
theorem renderings_no_quote (p : Nat) (raw : Int) : ∀ f ∈ renderings (10^p) raw, ∀ c ∈ f, c ≠ 34 := by
  have hts : ∀ c ∈ toStr (10^p) raw, c ≠ 34 ∧ c ≠ 44 := by
    obtain ⟨_, hip, _, hfpd, _, _, _⟩ := toStr_canonical p raw
    intro c hc
    rw [toStr_decomp] at hc
    rcases List.mem_append.mp hc with h | h
    · rcases List.mem_append.mp h with h | h
      · split at h <;> simp at h; omega
      · have := isDigit_bounds c (hip c h); omega
    · by_cases h0 : raw.tmod (10^p) = 0
      · rw [if_pos h0] at h; simp at h
      · rw [if_neg h0] at h hfpd
        rcases List.mem_cons.mp h with h' | h'
        · omega
        · have := isDigit_bounds c (hfpd c h'); omega
  have hcm : ∀ c ∈ comma (10^p) raw, c ≠ 34 := by
    intro c hc h34
    have : c ∈ stripCommas (comma (10^p) raw) := by
      unfold stripCommas
      rw [List.mem_filter]
      exact ⟨hc, by simp; omega⟩
    rw [comma_only_adds_commas] at this
    exact (hts c this).1 h34
  intro f hf c hc
  simp only [renderings, List.mem_cons, List.mem_nil_iff, or_false] at hf
  rcases hf with rfl | rfl | rfl | rfl
  · exact (hts c hc).1
  · unfold toStrSign at hc
    split at hc
    · rcases List.mem_cons.mp hc with h | h
      · omega
      · exact (hts c h).1
    · exact (hts c hc).1
  · exact hcm c hc
  · unfold commaSign at hc
    split at hc
    · rcases List.mem_cons.mp hc with h | h
      · omega
      · exact hcm c h
    · exact hcm c hc

theorem unquote_no_quote (s : Str) (h : ∀ c ∈ s, c ≠ 34) : unquote s = s := by
  apply FixedText.unquote_bare
  left
  cases s with
  | nil => simp
  | cons c t => simp; exact h c (by simp)

/-- **the Unmarshal round trip for all eight forms the property names**: every rendering (String, StringWithSign, Comma,
    CommaWithSign), bare or inside one pair of double quotes, of every value of both types in every configuration of the
    table goes back to the identical value through the executed `UnmarshalText` / `UnmarshalJSON` (`unmarshalX64/128`) and,
    bare, through the executed `FromString` -/
theorem unmarshal_all_forms : ∀ c ∈ Facts.fixedConfigs, ∀ raw : Int, ∀ f ∈ renderings c.2 raw,
    (fits64 raw = true → fromStrX64 c.1 c.2 f = .ok raw ∧ unmarshalX64 c.1 c.2 f = .ok raw ∧
      unmarshalX64 c.1 c.2 (34 :: (f ++ [34])) = .ok raw) ∧
    (fits128 raw = true → fromStrX128 c.1 c.2 f = .ok raw ∧ unmarshalX128 c.1 c.2 f = .ok raw ∧
      unmarshalX128 c.1 c.2 (34 :: (f ++ [34])) = .ok raw) := by
  intro c hc raw f hf
  obtain ⟨e, _, _⟩ := configs_pow10 c hc
  have hnq : unquote f = f := by
    apply unquote_no_quote
    have := renderings_no_quote c.1 raw
    rw [← e] at this
    exact this f hf
  have hq : unquote (34 :: (f ++ [34])) = f := FixedText.unquote_quoted f
  obtain ⟨h64, h128⟩ := roundtrip_configsX c hc raw
  unfold unmarshalX64 unmarshalX128
  rw [hnq, hq]
  simp only [renderings, List.mem_cons, List.mem_nil_iff, or_false] at hf
  constructor
  · intro hr
    obtain ⟨a1, a2, a3, a4, _, _⟩ := h64 hr
    rcases hf with rfl | rfl | rfl | rfl
    · exact ⟨a1, a1, a1⟩
    · exact ⟨a2, a2, a2⟩
    · exact ⟨a3, a3, a3⟩
    · exact ⟨a4, a4, a4⟩
  · intro hr
    obtain ⟨a1, a2, a3, a4, _, _⟩ := h128 hr
    rw [toStr128_eq] at a1
    rcases hf with rfl | rfl | rfl | rfl
    · exact ⟨a1, a1, a1⟩
    · exact ⟨a2, a2, a2⟩
    · exact ⟨a3, a3, a3⟩
    · exact ⟨a4, a4, a4⟩

/-- non-vacuity: the eight texts for −1234.5 (one place): the quoted CommaWithSign form is "\"-1,234.5\"" -/
example : renderings 10 (-12345) = [[45,49,50,51,52,46,53], [45,49,50,51,52,46,53], [45,49,44,50,51,52,46,53], [45,49,44,50,51,52,46,53]] ∧
    unmarshalX64 1 10 (34 :: ([45,49,44,50,51,52,46,53] ++ [34])) = .ok (-12345) ∧
    unmarshalX128 1 10 [43,49,44,50,51,52,46,53] = .ok 12345 := by decide +kernel

/-- **no input string makes it panic — the exponent branch included.**  The f128 branch has a panicking operation
    (`big.Float.SetFloat64` of a NaN, outcome `ResX.panic`), and the model's `ParseFloat` does return a NaN for "nan"
    (`special_values_would_reach_From`); the outcome is unreachable from `FromString` because the branch is entered only with
    a text containing e/E (`fromString_exp_iff`) and such a text never is a special value (`special_needs_no_exponent`).
    Holds for every byte string, every number of places, every multiplier, for `FromString` and `UnmarshalText`/`UnmarshalJSON`. -/
theorem fromString_never_panics (p : Nat) (m : Int) (s : Str) :
    fromStrX64 p m s ≠ .panic ∧ fromStrX128 p m s ≠ .panic ∧ unmarshalX64 p m s ≠ .panic ∧ unmarshalX128 p m s ≠ .panic :=
  ⟨fromStrX64_no_panic p m s, fromStrX128_no_panic p m s, fromStrX64_no_panic p m _, fromStrX128_no_panic p m _⟩

/-- **range of every result, exponent branch included**: whatever the byte string, the places and the multiplier, a value
    returned by the executed `FromString` lies in the range of its type (f64: the float → int64 conversion is only taken
    as a value inside int64; f128: `Int128FromBigInt` saturates) -/
theorem fromStringX_total (p : Nat) (m : Int) (s : Str) (v : Int) :
    (fromStrX64 p m s = .ok v → fits64 v = true) ∧ (fromStrX128 p m s = .ok v → fits128 v = true) :=
  ⟨fromStrX64_fits p m s v, fromStrX128_fits p m s v⟩

/-- **the outcomes of the executed `FromString`, every byte string**: f64 returns a value, an error, or — only in the
    exponent branch — meets Go's implementation-defined float → int64 conversion; f128 returns a value or an error.
    There is no fourth possibility: since the hexadecimal and underscore grammars of `ParseFloat` are modelled too, no
    input is outside the model -/
theorem fromStringX_outcomes (p : Nat) (m : Int) (s : Str) :
    ((∃ v, fromStrX64 p m s = .ok v) ∨ fromStrX64 p m s = .err ∨
      (fromStrX64 p m s = .implDefined ∧ s ≠ [] ∧ hasExp (stripCommas s) = true)) ∧
    ((∃ v, fromStrX128 p m s = .ok v) ∨ fromStrX128 p m s = .err) := by
  constructor
  · cases h : fromStrX64 p m s with
    | ok v => exact Or.inl ⟨v, rfl⟩
    | err => exact Or.inr (Or.inl rfl)
    | panic => exact absurd h (fromStrX64_no_panic p m s)
    | implDefined =>
      refine Or.inr (Or.inr ⟨rfl, ?_⟩)
      apply (fromString_exp_iff p m s).mp
      cases h2 : fromStr64 p m s with
      | ok v => rw [fromStrX64_ok h2] at h; cases h
      | err => rw [fromStrX64_err h2] at h; cases h
      | exp => rfl
  · cases h : fromStrX128 p m s with
    | ok v => exact Or.inl ⟨v, rfl⟩
    | err => exact Or.inr rfl
    | panic => exact absurd h (fromStrX128_no_panic p m s)
    | implDefined => exact absurd h (fromStrX128_no_impl p m s)

/-- **f64, implementation-defined conversion**: `FromString` of an exponent text reaches Go's implementation-defined
    float → int64 conversion only with a FINITE float whose product with the multiplier exceeds 2^62 (one direction only:
    the exact threshold 2^63 and the converse are not proved; the harness decides `impl` itself and the model is compared
    with it) -/
theorem exp_implDefined_needs_large : ∀ c ∈ Facts.fixedConfigs, ∀ t : Str, hasExp t = true →
    expBranch64 c.2 t = .implDefined →
    ∃ s mx ex, parseFloatAny t = some (.fin s mx ex) ∧ (2 : ℚ) ^ 62 < (mx : ℚ) * (2 : ℚ) ^ ex * c.2 :=
  fun c hc t he h => expBranch64_impl c.2 ⟨c, hc, rfl⟩ t he h

/-- **f64, exponent literal**: for a well-formed literal of normal float magnitude, a defined result lies within
    `1 + |value·mult| / 2^51` of the scaled value `±N·10^(E−k)·mult`, where `E` is the exponent AS `strconv.readFloat` READS IT
    (`expAcc`: the accumulator stops growing at 10000, so `E` is the written exponent whenever that is below 10000 — the
    bound is faithful to Go, and is about the exact value of the literal only for such exponents; corpus
    `parse.expcap` pins the constant).  `longMantissa t = false` is not used by the proof: it marks the domain on which the
    model's `ParseFloat` is tied to strconv's (beyond 800 integer digits strconv's slow path misplaces the decimal point; the
    model does not, and the correspondence run prints `long` on both sides there) -/
theorem exp_literal_bound64 : ∀ c ∈ Facts.fixedConfigs, ∀ (t : Str) (neg : Bool) (N k : Nat) (E : Int) (r : Int),
    longMantissa t = false → outsideExp t = false → parseExpLit? t = some (neg, N, k, E) → N ≠ 0 →
    (2 : ℚ) ^ (-1022 : ℤ) ≤ (N : ℚ) * (10 : ℚ) ^ (E - k) → (N : ℚ) * (10 : ℚ) ^ (E - k) < (2 : ℚ) ^ (1023 : ℤ) →
    expBranch64 c.2 t = .ok r →
    |(r : ℚ) - expRat neg N k E * c.2| < 1 + (N : ℚ) * (10 : ℚ) ^ (E - k) * c.2 / 2 ^ 51 :=
  fun c hc t neg N k E r _ ho hl hN hlo hhi h => expBranch64_val c.2 ⟨c, hc, rfl⟩ t neg N k E r ho hl hN hlo hhi h

/-- **f128, exponent literal**: an unsaturated result, read as a number, lies within 19/20 of a raw unit plus the
    `ParseFloat` rounding (relative 2^-53) of the value `±N·10^(E−k)` (`E` as read by `strconv.readFloat`, see above) -/
theorem exp_literal_bound128 : ∀ c ∈ Facts.fixedConfigs, ∀ (t : Str) (neg : Bool) (N k : Nat) (E : Int) (r : Int),
    longMantissa t = false → outsideExp t = false → parseExpLit? t = some (neg, N, k, E) → N ≠ 0 →
    (2 : ℚ) ^ (-1022 : ℤ) ≤ (N : ℚ) * (10 : ℚ) ^ (E - k) → (N : ℚ) * (10 : ℚ) ^ (E - k) < (2 : ℚ) ^ (1023 : ℤ) →
    expBranch128 c.1 c.2 t = .ok r → Fixed.F128.minRaw < r → r < Fixed.F128.maxRaw →
    |Fixed.Rat.value c.2 r - expRat neg N k E| ≤ 19 / 20 / (c.2 : ℚ) + (N : ℚ) * (10 : ℚ) ^ (E - k) / 2 ^ 53 :=
  fun c hc t neg N k E r _ ho hl hN hlo hhi h h1 h2 => expBranch128_val c hc t neg N k E r ho hl hN hlo hhi h h1 h2

/-- zero mantissa (`0e5`, `-0.00E-7`, `+0e99999`): the value 0 in both types, every configuration -/
theorem exp_literal_zero : ∀ c ∈ Facts.fixedConfigs, ∀ (t : Str) (neg : Bool) (k : Nat) (E : Int),
    parseExpLit? t = some (neg, 0, k, E) → outsideExp t = false →
    expBranch64 c.2 t = .ok 0 ∧ expBranch128 c.1 c.2 t = .ok 0 :=
  fun c hc t neg k E hl ho => expBranch_zero c hc t neg k E hl ho

/-- non-vacuity of the literal hypotheses: "1.5e3" is a plain exponent text (`outsideExp = false`), reads as N = 15, k = 1,
    E = 3, and the branch itself gives 1500 (raw 150000 with two places, far from saturation) in both types; "-0e5" has a
    zero mantissa; the exponent accumulator: "1e10005" is read with E = 10005, "1e100000" with E = 10000 -/
example : longMantissa [49, 46, 53, 101, 51] = false ∧ outsideExp [49, 46, 53, 101, 51] = false ∧ parseExpLit? [49, 46, 53, 101, 51] = some (false, 15, 1, 3) ∧
    expBranch64 100 [49, 46, 53, 101, 51] = .ok 150000 ∧ expBranch128 2 100 [49, 46, 53, 101, 51] = .ok 150000 ∧
    fromStrX64 2 100 [49, 46, 53, 101, 51] = .ok 150000 ∧ fromStrX128 2 100 [49, 46, 53, 101, 51] = .ok 150000 ∧
    parseExpLit? [45, 48, 101, 53] = some (true, 0, 0, 5) ∧
    parseExpLit? [49, 101, 49, 48, 48, 48, 53] = some (false, 1, 0, 10005) ∧
    parseExpLit? [49, 101, 49, 48, 48, 48, 48, 48] = some (false, 1, 0, 10000) := by decide +kernel

/-- the other two grammars of `ParseFloat`, executed: "1_0e1" (underscore between digits) is 100, "1_e1" and "_1e1" are
    syntax errors; "0x1ep3" is the hexadecimal float 0x1e·2^3 = 240 (the 'e' is a digit), "0xe" lacks the mandatory
    exponent -/
example : fromStrX64 2 100 [49, 95, 48, 101, 49] = .ok 10000 ∧ fromStrX128 2 100 [49, 95, 101, 49] = .err ∧
    fromStrX64 2 100 [95, 49, 101, 49] = .err ∧ fromStrX128 2 100 [48, 120, 49, 101, 112, 51] = .ok 24000 ∧
    fromStrX64 2 100 [48, 120, 101] = .err := by decide +kernel

/-- **the branch is lossy (why no truncation claim is made for it)**: with two places "0.29e0" gives the raw value 28 in
    f64 — the float product 0.29·100 is 28.999999999999996 — while the plain literal "0.29" gives 29, and f128 gives 29
    for both; "1e19" (one place) reaches the implementation-defined conversion in f64 and is the value 10^19 in f128 -/
theorem exp_branch_is_lossy :
    fromStrX64 2 100 [48, 46, 50, 57, 101, 48] = .ok 28 ∧ fromStrX64 2 100 [48, 46, 50, 57] = .ok 29 ∧
    fromStrX128 2 100 [48, 46, 50, 57, 101, 48] = .ok 29 ∧
    fromStrX64 1 10 [49, 101, 49, 57] = .implDefined ∧ fromStrX128 1 10 [49, 101, 49, 57] = .ok (10^20) := by
  decide +kernel

/-! ## canonical means unique: equal texts, equal values -/

/-- `String()` is injective on each type: two values with the same text are the same value (so is every other rendering:
    each determines `String()` by removing '+' and ',') -/
theorem toString_injective (p : Nat) (hp : p ≤ 18) (a b : Int) (h : toStr (10^p) a = toStr (10^p) b) :
    (fits64 a = true → fits64 b = true → a = b) ∧ (fits128 a = true → fits128 b = true → a = b) := by
  constructor
  · intro ha hb
    have h1 := fromString_toString64 p hp a ha
    have h2 := fromString_toString64 p hp b hb
    rw [h, h2] at h1
    exact (Res.ok.inj h1).symm
  · intro ha hb
    have h1 := fromString_toString128 p a ha
    have h2 := fromString_toString128 p b hb
    rw [h, h2] at h1
    exact (Res.ok.inj h1).symm

/-! ## txt.Comma of an integer (`fmt.Sprintf("%v")`, then `CommaFromStringNum`) -/

/-- `txt.Comma(z)` of an integer only adds separators to the decimal text of `z`, in front of groups of three digits
    counted from the right (`commaBody`), the sign stays in front -/
theorem comma_int (z : Int) :
    commaNum (intStr z) = (if z < 0 then [45] else []) ++ commaBody (natStr z.natAbs) ∧
    stripCommas (commaNum (intStr z)) = intStr z := by
  have hd := natStr_digits z.natAbs
  have hne := natStr_ne_nil z.natAbs
  have h44 : ∀ c ∈ natStr z.natAbs, c ≠ 44 := fun c hc => by have := isDigit_bounds c (hd c hc); omega
  have hev := commaNum_eval (decide (z < 0)) (natStr z.natAbs) [] hd hne (by simp)
  simp only [if_true, List.append_nil, decide_eq_true_eq] at hev
  have hint : intStr z = (if z < 0 then [45] else []) ++ natStr z.natAbs := by
    unfold intStr; split <;> simp
  rw [hint, hev]
  refine ⟨rfl, ?_⟩
  rw [stripCommas_append, commaBody_strip _ h44]
  split <;> simp [stripCommas]

example : commaNum (intStr (-1234567)) = [45, 49, 44, 50, 51, 52, 44, 53, 54, 55] := by decide +kernel

/-- CONTRAST — **why the Unmarshal entry points call `txt.Unquote`**: `FromString` itself rejects every text that begins with a
    double quote (both types, whatever follows, exponent branch included), so the variant of `UnmarshalText` /
    `UnmarshalJSON` without the unquoting fails on the quoted rendering of EVERY value, which `roundtrip_configsX` shows
    the real one parses back -/
theorem quoted_text_needs_unquote (p : Nat) (m : Int) (u : Str) :
    fromStrX64 p m (34 :: u) = .err ∧ fromStrX128 p m (34 :: u) = .err :=
  fromStrX_quote p m u

/-- **canonical = unique**: `String()` is THE canonical literal of its value.  Any literal of canonical shape — no '+',
    at least one integer digit and no leading zero (a lone "0" excepted), fraction absent or non-empty, of at most `p`
    digits and not ending in '0', '-' only in front of a non-zero value — is `String()` of the value it denotes; so two
    different canonical texts never denote the same value, and `String()` never prints anything else -/
theorem toString_is_the_canonical_literal (p : Nat) (sg : Sign) (ip : Str) (fo : Option Str)
    (h : IsCanonical p sg ip fo) : toStr (10^p) (litVal p sg ip fo) = litText sg ip fo :=
  toStr_canonical_unique p sg ip fo h

/-- non-vacuity: "-0.05" is canonical for two places (value −5); "-0.50" and "-0" are not (trailing zero; minus on zero) -/
example : IsCanonical 2 .minus [48] (some [48, 53]) ∧ litVal 2 .minus [48] (some [48, 53]) = -5 ∧
    ¬ IsCanonical 2 .minus [48] (some [53, 48]) ∧ ¬ IsCanonical 2 .minus [48] none := by
  refine ⟨⟨by decide, by decide, by decide, by decide, ?_, by decide⟩, by decide, ?_, ?_⟩
  · intro fp hfp
    cases hfp
    exact ⟨by decide, by decide, by decide, by decide⟩
  · intro h
    exact (h.frac _ rfl).2.2.2 (by decide)
  · intro h
    exact h.negNonzero rfl (by decide)

/-! ## non-vacuity -/
example : fits64 (-(2^63)) = true ∧ fits128 (-(2^127)) = true := by decide
example : (3, (1000 : Int)) ∈ Facts.fixedConfigs := by decide

end C04
