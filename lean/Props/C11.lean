import Lemmas.Errs
import Lemmas.ErrsFmt
/-! # C11 — error aggregation loses nothing and wrapping preserves identity

Property theorems only.  The executable model is `Model/Errs.lean` (a heap of `*errs.Error` nodes; `Errs.append`,
`count`, `message`, `wrappedErrors`, `errorOrNil`, `wrap`, `wrapTyped`, `unwrap` — the definitions the driver
`drv_c11` runs against the Go code on every check); the heap lemmas and the assembly over the argument loop are in
`Lemmas/Errs.lean`.

Vocabulary: `WF h` — links of the heap point forward, stay inside the heap and never reach an empty node (the driver
evaluates the Boolean form `wfb` on every heap it builds without `CloneWithPrefixMessage`; `wf_of_wfb`; `reachable_wf`
proves it for every heap the API can build without `CloneWithPrefixMessage`);
`argItems h v` — the non-nil, non-empty errors contained in the value `v`, aggregates flattened;
`NoAlias h acc args` — when the accumulator `err` is an `*Error`, no argument's chain ends in its last cell (`noAlias_iff`;
aliased calls such as `Append(a, b, a)` re-read the accumulator after it has grown; their content is given by
`append_items_alias`).  The accumulator is `err` and the appended arguments are ALL of `errs` (since fix f2f6175 a nil
`err` starts from nothing and copies every argument). -/
namespace C11
open Errs

/-- what `NoAlias` says -/
theorem noAlias_iff (h : Heap) (acc : Val) (args : List Val) :
    NoAlias h acc args ↔
      ∀ id, acc = .ref id → ∀ id', Val.ref id' ∈ args → tailOf h (fuelOf h) id ∉ chain h (fuelOf h) id' := Iff.rfl

/-- **Append loses nothing**: the result contains, in order, the non-nil non-empty errors of the accumulator followed
    by those of every argument, aggregates flattened (property clause 1, `Count`/`WrappedErrors` via `count_eq`,
    `wrapped_errors_eq`) -/
theorem append_items (h : Heap) (acc : Val) (args : List Val) (hwf : WF h)
    (hids : ∀ id, Val.ref id ∈ acc :: args → id < h.size) (hna : NoAlias h acc args) :
    resItems (append h acc args) = argItems h acc ++ args.flatMap (argItems h) :=
  (append_spec args acc h hwf hids hna).items

/-- the result is nil exactly when there is no such error (clause "is nil exactly when there are none") -/
theorem append_nil_iff (h : Heap) (acc : Val) (args : List Val) (hwf : WF h)
    (hids : ∀ id, Val.ref id ∈ acc :: args → id < h.size) (hna : NoAlias h acc args) :
    (append h acc args).2.1 = none ↔ argItems h acc ++ args.flatMap (argItems h) = [] :=
  (append_spec args acc h hwf hids hna).nilIff

/-- every cell whose `next` field `Append` writes is the last cell of the accumulator's chain or was allocated by this
    call (the write log of the transcription) … -/
theorem append_written (h : Heap) (acc : Val) (args : List Val) (hwf : WF h)
    (hids : ∀ id, Val.ref id ∈ acc :: args → id < h.size) (hna : NoAlias h acc args) :
    ∀ i ∈ (append h acc args).2.2,
      (∃ id, acc = .ref id ∧ i = tailOf h (fuelOf h) id ∧ i ∈ chain h (fuelOf h) id) ∨ h.size ≤ i := by
  intro i hi
  rcases (append_spec args acc h hwf hids hna).written i hi with ⟨id, hacc, heq⟩ | hge
  · refine Or.inl ⟨id, hacc, heq, ?_⟩
    have hacc' : acc = .ref id := hacc
    have hlt : id < h.size := hids id (by rw [hacc']; simp)
    rw [heq]
    exact (hwf.chain_spec hlt).1.tail_mem
  · exact Or.inr hge

/-- … and no other pre-existing cell changes at all (frame) -/
theorem append_frame (h : Heap) (acc : Val) (args : List Val) (hwf : WF h)
    (hids : ∀ id, Val.ref id ∈ acc :: args → id < h.size) (hna : NoAlias h acc args) (i : Nat) (hi : i < h.size)
    (hne : ∀ id, acc = .ref id → i ≠ tailOf h (fuelOf h) id) :
    (append h acc args).1[i]? = h[i]? :=
  (append_spec args acc h hwf hids hna).frame i hi hne

/-- **the appended arguments are left unchanged**: after the call EVERY `*Error` among `errs` — also the first one when
    `err` is nil — has the same chain, the same cells and the same content as before (clause "leaves the contents of the
    appended arguments unchanged") -/
theorem append_args_unchanged (h : Heap) (acc : Val) (args : List Val) (hwf : WF h)
    (hids : ∀ id, Val.ref id ∈ acc :: args → id < h.size) (hna : NoAlias h acc args) :
    ∀ id', Val.ref id' ∈ args →
      chain (append h acc args).1 (fuelOf (append h acc args).1) id' = chain h (fuelOf h) id' ∧
      items (append h acc args).1 id' = items h id' ∧
      ∀ i ∈ chain h (fuelOf h) id', (append h acc args).1[i]? = h[i]? := by
  intro id' hid'
  exact append_frame_any h acc args hwf hids hna id'
    (hids id' (List.mem_cons_of_mem _ hid')) (fun id hacc => hna id hacc id' hid')

/-- the heap invariant is preserved, so the theorems apply again to the next call -/
theorem append_wf (h : Heap) (acc : Val) (args : List Val) (hwf : WF h)
    (hids : ∀ id, Val.ref id ∈ acc :: args → id < h.size) (hna : NoAlias h acc args) :
    WF (append h acc args).1 ∧ h.size ≤ (append h acc args).1.size ∧
      ∀ r, (append h acc args).2.1 = some r → r < (append h acc args).1.size :=
  ⟨(append_spec args acc h hwf hids hna).wf, (append_spec args acc h hwf hids hna).grow,
    (append_spec args acc h hwf hids hna).rootLt⟩

/-- **any sequence of Appends on an accumulator** (a non-nil-interface accumulator `acc`, argument lists whose
    `*Error`s exist before the first call and do not end in the accumulator's last cell): the final value contains the
    accumulator's errors followed by those of all argument lists, in order -/
theorem append_chain (argss : List (List Val)) (h : Heap) (acc : Val) (hacc : acc ≠ .nilIface) (hwf : WF h)
    (hid : ∀ id, acc = .ref id → id < h.size)
    (hargs : ∀ args ∈ argss, ∀ id', Val.ref id' ∈ args → id' < h.size ∧
      ∀ id, acc = .ref id → tailOf h (fuelOf h) id ∉ chain h (fuelOf h) id') :
    argItems (appendSeq h acc argss).1 (appendSeq h acc argss).2 =
      argItems h acc ++ argss.flatMap (fun args => args.flatMap (argItems h)) ∧
    WF (appendSeq h acc argss).1 :=
  appendSeq_spec argss h acc hacc hwf hid hargs

/-- `Count` is the number of non-empty errors of the chain — on every heap, no hypothesis -/
theorem count_eq (h : Heap) (id : Nat) : count h id = (items h id).length := count_eq_items h id

/-- `Count` of the result of `Append` is the number of non-nil non-empty errors in the arguments -/
theorem append_count (h : Heap) (acc : Val) (args : List Val) (hwf : WF h)
    (hids : ∀ id, Val.ref id ∈ acc :: args → id < h.size) (hna : NoAlias h acc args) (r : Nat)
    (hr : (append h acc args).2.1 = some r) :
    count (append h acc args).1 r = (argItems h acc ++ args.flatMap (argItems h)).length := by
  rw [count_eq_items, ← append_items h acc args hwf hids hna]
  simp only [resItems, hr]

/-- `WrappedErrors` of the result of `Append` is, element by element (message, cause, stack presence, wrapped flag;
    `next = nil`), the list of those errors -/
theorem wrapped_errors_eq (h : Heap) (acc : Val) (args : List Val) (hwf : WF h)
    (hids : ∀ id, Val.ref id ∈ acc :: args → id < h.size) (hna : NoAlias h acc args) (r : Nat)
    (hr : (append h acc args).2.1 = some r) :
    (wrappedErrors (append h acc args).1 r).map itemOf = argItems h acc ++ args.flatMap (argItems h) ∧
    ∀ n ∈ wrappedErrors (append h acc args).1 r, n.next = none := by
  have D := append_spec args acc h hwf hids hna
  refine ⟨?_, ?_⟩
  · rw [wrapped_eq_items _ D.wf r (D.rootLt r hr) (root_nonempty D r hr), ← D.items]
    simp only [resItems, hr]
  · intro n hn
    unfold wrappedErrors at hn
    simp only [List.mem_filterMap] at hn
    obtain ⟨i, _, hx⟩ := hn
    cases hh : (append h acc args).1[i]? with
    | none => rw [hh] at hx; cases hx
    | some m => rw [hh] at hx; simp at hx; rw [← hx]

/-- `ErrorOrNil` is nil exactly for an empty error and otherwise the error itself (like `wrap_nil`, `wrapTyped_nil`,
    `wrap_idempotent` below: an unfolding of the three-line transcription — it carries the transcription, which the
    correspondence run ties to the code, and nothing more) -/
theorem error_or_nil (h : Heap) (id : Nat) :
    errorOrNil h (.ref id) = (if isEmpty h id then .nilIface else .ref id) ∧ errorOrNil h .typedNil = .nilIface := by
  simp [errorOrNil]

/-- `Wrap` returns nil for the nil interface and for typed nils (of `*Error` and of foreign pointer types) -/
theorem wrap_nil (h : Heap) (v : Val) (hv : isNil v = true) : wrap h v = (h, .nilIface) := by
  simp [wrap, hv]

/-- `WrapTyped` returns a nil `*Error` for them -/
theorem wrapTyped_nil (h : Heap) (v : Val) (hv : isNil v = true) : wrapTyped h v = (h, .typedNil) := by
  simp [wrapTyped, hv]

/-- an existing `*Error` is returned unchanged, and nothing is allocated -/
theorem wrap_idempotent (h : Heap) (id : Nat) : wrap h (.ref id) = (h, .ref id) ∧ wrapTyped h (.ref id) = (h, .ref id) := by
  simp [wrap, wrapTyped, isNil, asError]

/-- wrapping the result of `Wrap` again changes nothing, whatever the input -/
theorem wrap_wrap (h : Heap) (v : Val) : wrap (wrap h v).1 (wrap h v).2 = wrap h v := by
  by_cases h1 : isNil v = true
  · have hw : wrap h v = (h, .nilIface) := by simp [wrap, h1]
    rw [hw]; simp [wrap, isNil]
  · have h1' : isNil v = false := by simpa using h1
    by_cases h2 : asError v = true
    · have hw : wrap h v = (h, v) := by simp [wrap, h1', h2]
      rw [hw]; exact hw
    · have h2' : asError v = false := by simpa using h2
      have hw : wrap h v = (h.push (wrapperNode v), .ref h.size) := by simp [wrap, h1', h2']
      rw [hw]; simp [wrap, isNil, asError]

/-- otherwise `Wrap` produces a new error carrying the cause's message, whose `Unwrap` is the cause itself — so the
    `errors.Is`/`errors.As` walk from the result visits the cause — and no existing cell changes -/
theorem wrap_reaches_cause (h : Heap) (v : Val) (hv : isNil v = false) (ha : asError v = false) :
    wrap h v = (h.push (wrapperNode v), .ref h.size) ∧
    unwrap (wrap h v).1 (wrap h v).2 = v ∧
    message (wrap h v).1 h.size = errorText v ∧
    v ∈ unwrapChain (wrap h v).1 2 (wrap h v).2 ∧
    (∀ i, i < h.size → (wrap h v).1[i]? = h[i]?) := by
  have hw : wrap h v = (h.push (wrapperNode v), .ref h.size) := by simp [wrap, hv, ha]
  rw [hw]
  refine ⟨rfl, ?_, ?_, ?_, ?_⟩
  · simp [unwrap, wrapperNode]
  · simp [message, nextOf, msgOf, wrapperNode]
  · have hr : isNil (Val.ref h.size) = false := rfl
    simp [unwrapChain, unwrap, hv, hr, wrapperNode]
  · intro i hi
    simp [Array.getElem?_push, Nat.ne_of_lt hi]

/-- the same for `WrapTyped` and every non-nil value that is not itself a `*Error` (a foreign error that merely wraps a
    `*Error` is wrapped again, on purpose) -/
theorem wrapTyped_reaches_cause (h : Heap) (v : Val) (hv : isNil v = false) (hr : ∀ id, v ≠ .ref id) :
    wrapTyped h v = (h.push (wrapperNode v), .ref h.size) ∧
    unwrap (wrapTyped h v).1 (wrapTyped h v).2 = v ∧
    message (wrapTyped h v).1 h.size = errorText v := by
  have hw : wrapTyped h v = (h.push (wrapperNode v), .ref h.size) := by
    cases v with
    | ref id => exact absurd rfl (hr id)
    | nilIface => simp [isNil] at hv
    | typedNil => simp [isNil] at hv
    | foreignNil => simp [isNil] at hv
    | plain u m => simp [wrapTyped, isNil]
    | fwrap u m inner => simp [wrapTyped, isNil]
  rw [hw]
  refine ⟨rfl, ?_, ?_⟩
  · simp [unwrap, wrapperNode]
  · simp [message, nextOf, msgOf, wrapperNode]

/-- `NewWithCause` (and `NewWithCausef`, which goes through it) keeps a non-nil cause as is and drops a typed-nil one
    (of `*Error` or of a foreign pointer type): the new error then has no cause, `Unwrap` is the nil interface — so
    rendering never meets a nil pointer (fix f303e30) -/
theorem newWithCause_cause (h : Heap) (m : String) (c : Val) :
    unwrap (newWithCause h m c).1 (newWithCause h m c).2 = (if isNil c then .nilIface else c) ∧
    message (newWithCause h m c).1 h.size = m ∧
    (∀ i, i < h.size → (newWithCause h m c).1[i]? = h[i]?) := by
  refine ⟨by simp [newWithCause, unwrap], by simp [newWithCause, message, nextOf, msgOf], ?_⟩
  intro i hi
  simp [newWithCause, Array.getElem?_push, Nat.ne_of_lt hi]

/-- an element of `WrappedErrors()` used as a value of its own (e.g. as the accumulator of a later `Append`) is a
    detached copy in a fresh cell: it has no link, the heap invariant is kept, no existing cell changes and no existing
    chain passes through the new cell — so by `append_frame`/`append_written` a later `Append` on it writes only that cell
    and fresh ones, never the aggregate it was taken from -/
theorem wrapped_elem_detached (h : Heap) (hwf : WF h) (id i : Nat) (n : ENode)
    (hn : (wrappedErrors h id)[i]? = some n) :
    elem h (.ref id) i = (h.push n, .ref h.size) ∧ n.next = none ∧ WF (h.push n) ∧
    (∀ j, j < h.size → (h.push n)[j]? = h[j]?) ∧
    (∀ id', id' < h.size → h.size ∉ chain h (fuelOf h) id') :=
  elem_spec h hwf id i n hn

/-- the constructors keep the heap invariant (`New`, `NewWithCause`, `&Error{}`, `Wrap`, `WrapTyped`) -/
theorem constructors_wf (h : Heap) (hwf : WF h) (m : String) (c v : Val) :
    WF (new h m).1 ∧ WF (newWithCause h m c).1 ∧ WF (newEmpty h).1 ∧ WF (wrap h v).1 ∧ WF (wrapTyped h v).1 :=
  ⟨push_wf h _ hwf rfl, push_wf h _ hwf rfl, push_wf h _ hwf rfl, wrap_wf h v hwf, wrapTyped_wf h v hwf⟩

/-- `Append` keeps the heap invariant whatever the aliasing between accumulator and arguments (no `NoAlias`) -/
theorem append_wf_any (h : Heap) (acc : Val) (args : List Val) (hwf : WF h)
    (hids : ∀ id, Val.ref id ∈ acc :: args → id < h.size) :
    WF (append h acc args).1 ∧ h.size ≤ (append h acc args).1.size :=
  Errs.append_wf_any args acc h hwf hids

/-- hence every heap that `New`, `NewWithCause`, `&Error{}`, `Wrap`, `WrapTyped` and `Append` (on existing values, in
    any order, with any aliasing) can build satisfies the invariant the `Append` theorems assume -/
theorem reachable_wf (h : Heap) (r : Reachable h) : WF h := reachable_wf_aux r

/-- **content of `Append` with any aliasing** (no `NoAlias`; accumulator a non-empty `*Error` — with any other accumulator
    `NoAlias` holds trivially and `append_items` applies): the result contains the accumulator's errors
    followed by `aliasItems`, where an argument whose chain ends in the accumulator's last cell `e0` contributes its
    errors **plus everything appended so far** (it is read after the accumulator has grown: `Append(a, b, a)` contains
    `a, b, a, b`), and every other argument contributes exactly its own errors -/
theorem append_items_alias (h : Heap) (id : Nat) (args : List Val) (hwf : WF h) (hid : id < h.size)
    (hne : isEmpty h id = false) (hids : ∀ id', Val.ref id' ∈ args → id' < h.size) :
    resItems (append h (.ref id) args) = items h id ++ aliasItems h (tailOf h (fuelOf h) id) [] args :=
  Errs.append_items_alias h id args hwf hid hne hids

/-! ## Rendering (third sentence of the property): what is logic in `%s` / `%q` / `%v` / `%+v`

`Model/ErrsFmt.lean`: `fmtS`/`fmtQ`/`fmtV` are the renderings the driver prints for every `render` line; the recorded call
stack of an error is an abstract token `Tok` (capturing function + serial number of the capture) in a table beside the
heap.  The harness replaces every block of real frame lines of `%v` and `%+v` by the token it derives from the frames (top
function outside the library ↦ creator, identity of the recorded stack ↦ serial) and compares with `fmtV`.  What stays
implementation-only: the frames below the creating function, file names and line numbers, `errors.Is/As` through
`Unwrap() []error`. -/

/-- the token-carrying `Append` the driver runs computes the heap and the result of `append`: every theorem above is about
    what the driver executes -/
theorem appendF_is_append (s : FHeap) (f : Nat) (acc : Val) (args : List Val) :
    (appendF s f acc args).1.h = (append s.h acc args).1 ∧ (appendF s f acc args).2 = ptrVal (append s.h acc args).2.1 :=
  appendF_heap s f acc args

/-- `Message()` / `%s`: a single error renders its message; an aggregate renders the header with the count and one `- `
    line per contained error, in order (any well-formed heap, any error with a non-empty head) -/
theorem message_of_items (h : Heap) (hwf : WF h) (id : Nat) (hid : id < h.size) (hne : isEmpty h id = false) :
    fmtS h id =
      match items h id with
      | [it] => it.msg
      | its => "Multiple (" ++ toString its.length ++ ") errors occurred:" ++
          String.join (its.map (fun it => "\n- " ++ it.msg)) :=
  message_eq_items h hwf id hid hne

/-- hence the message of the result of `Append` lists exactly the non-nil non-empty errors of the arguments -/
theorem append_message (h : Heap) (acc : Val) (args : List Val) (hwf : WF h)
    (hids : ∀ id, Val.ref id ∈ acc :: args → id < h.size) (hna : NoAlias h acc args) (r : Nat)
    (hr : (append h acc args).2.1 = some r) :
    fmtS (append h acc args).1 r =
      match argItems h acc ++ args.flatMap (argItems h) with
      | [it] => it.msg
      | its => "Multiple (" ++ toString its.length ++ ") errors occurred:" ++
          String.join (its.map (fun it => "\n- " ++ it.msg)) := by
  have D := append_spec args acc h hwf hids hna
  rw [message_of_items _ D.wf r (D.rootLt r hr) (root_nonempty D r hr), ← D.items]
  simp only [resItems, hr]

/-- **a recorded stack is never changed**: every operation leaves the stack of every existing error as it is (so an older
    error still names its own creating function, however many errors are created, copied or appended later) -/
theorem stacks_never_change (s : FHeap) (f : Nat) (m pre : String) (c v acc : Val) (args : List Val) (k i : Nat)
    (hi : i < s.T.size) :
    tokOf (newF s f m).1.T i = tokOf s.T i ∧ tokOf (newWithCauseF s f m c).1.T i = tokOf s.T i ∧
    tokOf (newEmptyF s).1.T i = tokOf s.T i ∧ tokOf (wrapF s f v).1.T i = tokOf s.T i ∧
    tokOf (wrapTypedF s f v).1.T i = tokOf s.T i ∧ tokOf (cloneF s v pre).1.T i = tokOf s.T i ∧
    tokOf (elemF s v k).1.T i = tokOf s.T i ∧ tokOf (appendF s f acc args).1.T i = tokOf s.T i := by
  refine ⟨tokOf_push_left _ _ i hi, tokOf_push_left _ _ i hi, tokOf_push_left _ _ i hi, ?_, ?_, ?_, ?_, ?_⟩
  · unfold wrapF; split
    · rfl
    · exact tokOf_push_left _ _ i hi
  · unfold wrapTypedF; split
    · rfl
    · exact tokOf_push_left _ _ i hi
  · unfold cloneF; split
    · split
      · rfl
      · exact tokOf_push_left _ _ i hi
    · rfl
  · unfold elemF; split
    · split
      · rfl
      · exact tokOf_push_left _ _ i hi
    · rfl
  · exact (appendFx_toks args acc s.h s.T f s.sites).2 i hi

/-- **the stack names the function that created the error**: the constructors record a stack captured by the calling
    function `f` for the new cell; `Wrap`/`WrapTyped` capture one exactly when they make a new error (unfoldings of the
    transcription) -/
theorem capture_records_creator (s : FHeap) (f : Nat) (m : String) (c v : Val) (hT : s.T.size = s.h.size) :
    tokOf (newF s f m).1.T s.h.size = some { creator := f, site := s.sites } ∧
    tokOf (newWithCauseF s f m c).1.T s.h.size = some { creator := f, site := s.sites } ∧
    tokOf (newEmptyF s).1.T s.h.size = none ∧
    (isNil v = false → asError v = false → tokOf (wrapF s f v).1.T s.h.size = some { creator := f, site := s.sites }) ∧
    (isNil v = false → isRef v = false →
      tokOf (wrapTypedF s f v).1.T s.h.size = some { creator := f, site := s.sites }) := by
  refine ⟨?_, ?_, ?_, ?_, ?_⟩
  · simp [newF, tokOf, FHeap.capture, ← hT]
  · simp [newWithCauseF, tokOf, FHeap.capture, ← hT]
  · simp [newEmptyF, tokOf, ← hT]
  · intro h1 h2; simp [wrapF, h1, h2, tokOf, FHeap.capture, ← hT]
  · intro h1 h2; simp [wrapTypedF, h1, h2, tokOf, FHeap.capture, ← hT]

/-- **a copy keeps the ORIGINAL stack**: `CloneWithPrefixMessage` and the elements of `WrappedErrors()` carry the stack of
    the cell they were copied from (unfoldings of the transcription) -/
theorem copy_keeps_stack (s : FHeap) (id k : Nat) (pre : String) (hT : s.T.size = s.h.size) (hid : id < s.h.size) :
    tokOf (cloneF s (.ref id) pre).1.T s.h.size = tokOf s.T id ∧
    ((elem s.h (.ref id) k).1.size ≠ s.h.size →
      tokOf (elemF s (.ref id) k).1.T s.h.size =
        (match (chain s.h (fuelOf s.h) id)[k]? with | some j => tokOf s.T j | none => none)) := by
  refine ⟨?_, ?_⟩
  · have hsz : (clone s.h (.ref id) pre).1.size ≠ s.h.size := by
      simp [clone, Array.getElem?_eq_getElem hid]
    simp only [cloneF, hsz, if_false]
    exact tokOf_push_self _ _ _ hT
  · intro hsz
    simp only [elemF, hsz, if_false]
    exact tokOf_push_self _ _ _ hT

/-- **the stacks along the result of `Append` onto an existing error**: the accumulator's own stacks, then those of the
    arguments in order — a copied `*Error` argument keeps the stacks of its source cells, every wrapped plain error
    carries a stack captured by this call (`argsToks`) -/
theorem append_stacks (h : Heap) (T : Toks) (f c : Nat) (id : Nat) (args : List Val) (hwf : WF h)
    (hT : T.size = h.size) (hid : id < h.size) (hne : isEmpty h id = false)
    (hargs : ∀ id', Val.ref id' ∈ args → id' < h.size ∧ tailOf h (fuelOf h) id ∉ chain h (fuelOf h) id') :
    (appendFx h T f c (.ref id) args).2.1 = some id ∧
    chainToks (appendFx h T f c (.ref id) args).1 (appendFx h T f c (.ref id) args).2.2.2.1 id =
      chainToks h T id ++ argsToks h T f c args :=
  append_stacks_ref h T f c id args hwf hT hid hne hargs

/-- … and of `Append` onto nothing (a nil interface, a nil `*Error`, a typed nil or an empty error as accumulator): exactly the stacks of
    the arguments -/
theorem append_stacks_fresh (h : Heap) (T : Toks) (f c : Nat) (acc : Val) (args : List Val) (hwf : WF h)
    (hT : T.size = h.size)
    (hacc : acc = .nilIface ∨ acc = .typedNil ∨ acc = .foreignNil ∨ ∃ id, acc = .ref id ∧ isEmpty h id = true)
    (hargs : ∀ id', Val.ref id' ∈ args → id' < h.size) :
    match (appendFx h T f c acc args).2.1 with
    | none => argsToks h T f c args = []
    | some r => chainToks (appendFx h T f c acc args).1 (appendFx h T f c acc args).2.2.2.1 r = argsToks h T f c args :=
  append_stacks_none h T f c acc args hwf hT hacc hargs

/-- **the `Caused by` structure of `%v`/`%+v`** (unfolding of the transcription of `StackTrace`): an error with a cause
    that is not merely wrapped renders its own stack, then `Caused by:` and the cause's full `Detail` (an `*Error` cause)
    or its `Error()` text (a foreign cause); a wrapping error (`Wrap`, `WrapTyped`, a plain error inside `Append`) and an
    error without a cause render their own stack only -/
theorem caused_by_structure (h : Heap) (T : Toks) (fuel id : Nat) (n : ENode) (hn : h[id]? = some n) :
    (n.cause = .nilIface ∨ n.wrapped = true → stackC h T (fuel + 1) id = tokText (tokOf T id)) ∧
    (∀ c, n.cause = .ref c → n.wrapped = false →
      stackC h T (fuel + 1) id =
        tokText (tokOf T id) ++ "\n  Caused by: " ++ detailOf (message h c) (stackC h T fuel c)) ∧
    (∀ u m, n.cause = .plain u m → n.wrapped = false →
      stackC h T (fuel + 1) id = tokText (tokOf T id) ++ "\n  Caused by: " ++ m) := by
  refine ⟨?_, ?_, ?_⟩
  · intro hc
    rcases hc with hc | hc <;> simp [stackC, hn, hc]
  · intro c hc hw; simp [stackC, hn, hc, hw]
  · intro u m hc hw; simp [stackC, hn, hc, hw, errorText]

/-! non-vacuity: a concrete well-formed heap (`x`, the aggregate `{a1, a2}`, `y`), the call `Append(x, {a1,a2}, nil,
    (*Error)(nil), plain "p", y)` satisfies every hypothesis and yields the five errors in order -/
def h0 : Heap := #[{ msg := "x", hasStack := true }, { msg := "a1", hasStack := true, next := some 2 },
  { msg := "a2", hasStack := true }, { msg := "y", hasStack := true }]
def args0 : List Val := [.ref 1, .nilIface, .typedNil, .plain 0 "p", .ref 3]

example : WF h0 := wf_of_wfb h0 (by decide)
example : ∀ id, Val.ref id ∈ Val.ref 0 :: args0 → id < h0.size := by
  intro id hid; simp [args0] at hid; rcases hid with rfl | rfl | rfl <;> decide
example : NoAlias h0 (.ref 0) args0 := by
  intro id hacc id' hid'
  have : id = 0 := by simpa [accOf, args0] using hacc.symm
  subst this
  simp [restOf, args0] at hid'
  rcases hid' with rfl | rfl <;> decide
example : (resItems (append h0 (.ref 0) args0)).map (·.msg) = ["x", "a1", "a2", "p", "y"] := by decide
example : count (append h0 (.ref 0) args0).1 0 = 5 := by decide
/-! the aliased call `Append(x, y, x)` contains `x, y, x, y` -/
example : (resItems (append h0 (.ref 0) [.ref 3, .ref 0])).map (·.msg) = ["x", "y", "x", "y"] := by decide
example : (aliasItems h0 0 [] [.ref 3, .ref 0]).map (·.msg) = ["y", "x", "y"] := by decide

end C11
