import Model.Errs
/-! # C11 — error aggregation loses nothing and wrapping preserves identity -/
namespace C11
open Errs

/-- `Wrap` returns nil for the nil interface and for typed nils -/
theorem wrap_nil (h : Heap) (v : Val) (hv : isNil v = true) : wrap h v = (h, .nilIface) := by
  simp [wrap, hv]

end C11
