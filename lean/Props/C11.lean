import Lemmas.Errs
import Lemmas.ErrsFmt
import Lemmas.ErrsTrace
import Lemmas.ErrsWalk
import Lemmas.ErrsContrast
import Lemmas.ErrsFrame
import Lemmas.ErrsHistory
import Lemmas.ErrsFuel
/-! # C11 — error aggregation loses nothing and wrapping preserves identity

Property theorems only.  The executable model is `Model/Errs.lean` (a heap of `*errs.Error` nodes; `Errs.append`,
`count`, `message`, `wrappedErrors`, `errorOrNil`, `wrap`, `wrapTyped`, `unwrap` — the definitions the driver
`drv_c11` runs against the Go code on every check); the heap lemmas and the assembly over the argument loop are in
`Lemmas/Errs.lean`.

Vocabulary: `WF h` — links of the heap point forward, stay inside the heap and never reach an empty node (the driver
evaluates the Boolean form `wfb` on every heap it builds without `CloneWithPrefixMessage`; `wf_of_wfb`; `reachable_wf`
proves it for every heap the API can build without `CloneWithPrefixMessage`);
`argItems h v` — the non-nil, non-empty errors contained in the value `v`, aggregates flattened;
`NoAlias h acc args` — when the accumulator `err` is an `*Error`, no argument's chain ends in its last cell (`noAlias_iff`;
aliased calls such as `Append(a, b, a)` re-read the accumulator after it has grown; their content is given by
`append_items_alias`).  The accumulator is `err` and the appended arguments are ALL of `errs` (since fix f2f6175 a nil
`err` starts from nothing and copies every argument). -/
namespace C11
open Errs

/-- what `NoAlias` says -/
theorem noAlias_iff (h : Heap) (acc : Val) (args : List Val) :
    NoAlias h acc args ↔
      ∀ id, acc = .ref id → ∀ id', Val.ref id' ∈ args → tailOf h (fuelOf h) id ∉ chain h (fuelOf h) id' := Iff.rfl

/-- **Append loses nothing**: the result contains, in order, the non-nil non-empty errors of the accumulator followed
    by those of every argument, aggregates flattened (property clause 1, `Count`/`WrappedErrors` via `count_eq`,
    `wrapped_errors_eq`) -/
theorem append_items (h : Heap) (acc : Val) (args : List Val) (hwf : WF h)
    (hids : ∀ id, Val.ref id ∈ acc :: args → id < h.size) (hna : NoAlias h acc args) :
    resItems (append h acc args) = argItems h acc ++ args.flatMap (argItems h) :=
  (append_spec args acc h hwf hids hna).items

/-- the result is nil exactly when there is no such error (clause "is nil exactly when there are none") -/
theorem append_nil_iff (h : Heap) (acc : Val) (args : List Val) (hwf : WF h)
    (hids : ∀ id, Val.ref id ∈ acc :: args → id < h.size) (hna : NoAlias h acc args) :
    (append h acc args).2.1 = none ↔ argItems h acc ++ args.flatMap (argItems h) = [] :=
  (append_spec args acc h hwf hids hna).nilIff

/-- every cell whose `next` field `Append` writes is the last cell of the accumulator's chain or was allocated by this
    call (the write log of the transcription) … -/
theorem append_written (h : Heap) (acc : Val) (args : List Val) (hwf : WF h)
    (hids : ∀ id, Val.ref id ∈ acc :: args → id < h.size) (hna : NoAlias h acc args) :
    ∀ i ∈ (append h acc args).2.2,
      (∃ id, acc = .ref id ∧ i = tailOf h (fuelOf h) id ∧ i ∈ chain h (fuelOf h) id) ∨ h.size ≤ i := by
  intro i hi
  rcases (append_spec args acc h hwf hids hna).written i hi with ⟨id, hacc, heq⟩ | hge
  · refine Or.inl ⟨id, hacc, heq, ?_⟩
    have hacc' : acc = .ref id := hacc
    have hlt : id < h.size := hids id (by rw [hacc']; simp)
    rw [heq]
    exact (hwf.chain_spec hlt).1.tail_mem
  · exact Or.inr hge

/-- … and no other pre-existing cell changes at all (frame) -/
theorem append_frame (h : Heap) (acc : Val) (args : List Val) (hwf : WF h)
    (hids : ∀ id, Val.ref id ∈ acc :: args → id < h.size) (hna : NoAlias h acc args) (i : Nat) (hi : i < h.size)
    (hne : ∀ id, acc = .ref id → i ≠ tailOf h (fuelOf h) id) :
    (append h acc args).1[i]? = h[i]? :=
  (append_spec args acc h hwf hids hna).frame i hi hne

/-- **the appended arguments are left unchanged**: after the call EVERY `*Error` among `errs` — also the first one when
    `err` is nil — has the same chain, the same cells and the same content as before (clause "leaves the contents of the
    appended arguments unchanged") -/
theorem append_args_unchanged (h : Heap) (acc : Val) (args : List Val) (hwf : WF h)
    (hids : ∀ id, Val.ref id ∈ acc :: args → id < h.size) (hna : NoAlias h acc args) :
    ∀ id', Val.ref id' ∈ args →
      chain (append h acc args).1 (fuelOf (append h acc args).1) id' = chain h (fuelOf h) id' ∧
      items (append h acc args).1 id' = items h id' ∧
      ∀ i ∈ chain h (fuelOf h) id', (append h acc args).1[i]? = h[i]? := by
  intro id' hid'
  exact append_frame_any h acc args hwf hids hna id'
    (hids id' (List.mem_cons_of_mem _ hid')) (fun id hacc => hna id hacc id' hid')

/-- the heap invariant is preserved, so the theorems apply again to the next call -/
theorem append_wf (h : Heap) (acc : Val) (args : List Val) (hwf : WF h)
    (hids : ∀ id, Val.ref id ∈ acc :: args → id < h.size) (hna : NoAlias h acc args) :
    WF (append h acc args).1 ∧ h.size ≤ (append h acc args).1.size ∧
      ∀ r, (append h acc args).2.1 = some r → r < (append h acc args).1.size :=
  ⟨(append_spec args acc h hwf hids hna).wf, (append_spec args acc h hwf hids hna).grow,
    (append_spec args acc h hwf hids hna).rootLt⟩

/-- **any sequence of Appends on an accumulator** (a non-nil-interface accumulator `acc`, argument lists whose
    `*Error`s exist before the first call and do not end in the accumulator's last cell): the final value contains the
    accumulator's errors followed by those of all argument lists, in order -/
theorem append_chain (argss : List (List Val)) (h : Heap) (acc : Val) (hacc : acc ≠ .nilIface) (hwf : WF h)
    (hid : ∀ id, acc = .ref id → id < h.size)
    (hargs : ∀ args ∈ argss, ∀ id', Val.ref id' ∈ args → id' < h.size ∧
      ∀ id, acc = .ref id → tailOf h (fuelOf h) id ∉ chain h (fuelOf h) id') :
    argItems (appendSeq h acc argss).1 (appendSeq h acc argss).2 =
      argItems h acc ++ argss.flatMap (fun args => args.flatMap (argItems h)) ∧
    WF (appendSeq h acc argss).1 :=
  appendSeq_spec argss h acc hacc hwf hid hargs

/-- `Count` is the number of non-empty errors of the chain — on every heap, no hypothesis -/
theorem count_eq (h : Heap) (id : Nat) : count h id = (items h id).length := count_eq_items h id

/-- `Count` of the result of `Append` is the number of non-nil non-empty errors in the arguments -/
theorem append_count (h : Heap) (acc : Val) (args : List Val) (hwf : WF h)
    (hids : ∀ id, Val.ref id ∈ acc :: args → id < h.size) (hna : NoAlias h acc args) (r : Nat)
    (hr : (append h acc args).2.1 = some r) :
    count (append h acc args).1 r = (argItems h acc ++ args.flatMap (argItems h)).length := by
  rw [count_eq_items, ← append_items h acc args hwf hids hna]
  simp only [resItems, hr]

/-- `WrappedErrors` of the result of `Append` is, element by element (message, cause, stack presence, wrapped flag;
    `next = nil`), the list of those errors -/
theorem wrapped_errors_eq (h : Heap) (acc : Val) (args : List Val) (hwf : WF h)
    (hids : ∀ id, Val.ref id ∈ acc :: args → id < h.size) (hna : NoAlias h acc args) (r : Nat)
    (hr : (append h acc args).2.1 = some r) :
    (wrappedErrors (append h acc args).1 r).map itemOf = argItems h acc ++ args.flatMap (argItems h) ∧
    ∀ n ∈ wrappedErrors (append h acc args).1 r, n.next = none := by
  have D := append_spec args acc h hwf hids hna
  refine ⟨?_, ?_⟩
  · rw [wrapped_eq_items _ D.wf r (D.rootLt r hr) (root_nonempty D r hr), ← D.items]
    simp only [resItems, hr]
  · intro n hn
    unfold wrappedErrors at hn
    simp only [List.mem_filterMap] at hn
    obtain ⟨i, _, hx⟩ := hn
    cases hh : (append h acc args).1[i]? with
    | none => rw [hh] at hx; cases hx
    | some m => rw [hh] at hx; simp at hx; rw [← hx]

/-- `ErrorOrNil` is nil exactly for an empty error and otherwise the error itself (like `wrap_nil`, `wrapTyped_nil`,
    `wrap_idempotent` below: an unfolding of the three-line transcription — it carries the transcription, which the
    correspondence run ties to the code, and nothing more) -/
theorem error_or_nil (h : Heap) (id : Nat) :
    errorOrNil h (.ref id) = (if isEmpty h id then .nilIface else .ref id) ∧ errorOrNil h .typedNil = .nilIface := by
  simp [errorOrNil]

/-- `Wrap` returns nil for the nil interface and for typed nils (of `*Error` and of foreign pointer types) -/
theorem wrap_nil (h : Heap) (v : Val) (hv : isNil v = true) : wrap h v = (h, .nilIface) := by
  simp [wrap, hv]

/-- `WrapTyped` returns a nil `*Error` for them -/
theorem wrapTyped_nil (h : Heap) (v : Val) (hv : isNil v = true) : wrapTyped h v = (h, .typedNil) := by
  simp [wrapTyped, hv]

/-- an existing `*Error` is returned unchanged, and nothing is allocated -/
theorem wrap_idempotent (h : Heap) (id : Nat) : wrap h (.ref id) = (h, .ref id) ∧ wrapTyped h (.ref id) = (h, .ref id) := by
  simp [wrap, wrapTyped, isNil, asError]

/-- wrapping the result of `Wrap` again changes nothing, whatever the input -/
theorem wrap_wrap (h : Heap) (v : Val) : wrap (wrap h v).1 (wrap h v).2 = wrap h v := by
  by_cases h1 : isNil v = true
  · have hw : wrap h v = (h, .nilIface) := by simp [wrap, h1]
    rw [hw]; simp [wrap, isNil]
  · have h1' : isNil v = false := by simpa using h1
    by_cases h2 : asError v = true
    · have hw : wrap h v = (h, v) := by simp [wrap, h1', h2]
      rw [hw]; exact hw
    · have h2' : asError v = false := by simpa using h2
      have hw : wrap h v = (h.push (wrapperNode v), .ref h.size) := by simp [wrap, h1', h2']
      rw [hw]; simp [wrap, isNil, asError]

/-- otherwise `Wrap` produces a new error carrying the cause's message, whose `Unwrap` is the cause itself — so the
    `errors.Is`/`errors.As` walk from the result visits the cause — and no existing cell changes -/
theorem wrap_reaches_cause (h : Heap) (v : Val) (hv : isNil v = false) (ha : asError v = false) :
    wrap h v = (h.push (wrapperNode v), .ref h.size) ∧
    unwrap (wrap h v).1 (wrap h v).2 = v ∧
    message (wrap h v).1 h.size = errorText v ∧
    v ∈ unwrapChain (wrap h v).1 2 (wrap h v).2 ∧
    (∀ i, i < h.size → (wrap h v).1[i]? = h[i]?) := by
  have hw : wrap h v = (h.push (wrapperNode v), .ref h.size) := by simp [wrap, hv, ha]
  rw [hw]
  refine ⟨rfl, ?_, ?_, ?_, ?_⟩
  · simp [unwrap, wrapperNode]
  · simp [message, nextOf, msgOf, wrapperNode]
  · have hr : isNil (Val.ref h.size) = false := rfl
    simp [unwrapChain, unwrap, hv, hr, wrapperNode]
  · intro i hi
    simp [Array.getElem?_push, Nat.ne_of_lt hi]

/-- the same for `WrapTyped` and every non-nil value that is not itself a `*Error` (a foreign error that merely wraps a
    `*Error` is wrapped again, on purpose) -/
theorem wrapTyped_reaches_cause (h : Heap) (v : Val) (hv : isNil v = false) (hr : ∀ id, v ≠ .ref id) :
    wrapTyped h v = (h.push (wrapperNode v), .ref h.size) ∧
    unwrap (wrapTyped h v).1 (wrapTyped h v).2 = v ∧
    message (wrapTyped h v).1 h.size = errorText v := by
  have hw : wrapTyped h v = (h.push (wrapperNode v), .ref h.size) := by
    cases v with
    | ref id => exact absurd rfl (hr id)
    | nilIface => simp [isNil] at hv
    | typedNil => simp [isNil] at hv
    | foreignNil => simp [isNil] at hv
    | plain u m => simp [wrapTyped, isNil]
    | fwrap u m inner => simp [wrapTyped, isNil]
  rw [hw]
  refine ⟨rfl, ?_, ?_⟩
  · simp [unwrap, wrapperNode]
  · simp [message, nextOf, msgOf, wrapperNode]

/-- `NewWithCause` (and `NewWithCausef`, which goes through it) keeps a non-nil cause as is and drops a typed-nil one
    (of `*Error` or of a foreign pointer type): the new error then has no cause, `Unwrap` is the nil interface — so
    rendering never meets a nil pointer (fix f303e30) -/
theorem newWithCause_cause (h : Heap) (m : String) (c : Val) :
    unwrap (newWithCause h m c).1 (newWithCause h m c).2 = (if isNil c then .nilIface else c) ∧
    message (newWithCause h m c).1 h.size = m ∧
    (∀ i, i < h.size → (newWithCause h m c).1[i]? = h[i]?) := by
  refine ⟨by simp [newWithCause, unwrap], by simp [newWithCause, message, nextOf, msgOf], ?_⟩
  intro i hi
  simp [newWithCause, Array.getElem?_push, Nat.ne_of_lt hi]

/-- an element of `WrappedErrors()` used as a value of its own (e.g. as the accumulator of a later `Append`) is a
    detached copy in a fresh cell: it has no link, the heap invariant is kept, no existing cell changes and no existing
    chain passes through the new cell — so by `append_frame`/`append_written` a later `Append` on it writes only that cell
    and fresh ones, never the aggregate it was taken from -/
theorem wrapped_elem_detached (h : Heap) (hwf : WF h) (id i : Nat) (n : ENode)
    (hn : (wrappedErrors h id)[i]? = some n) :
    elem h (.ref id) i = (h.push n, .ref h.size) ∧ n.next = none ∧ WF (h.push n) ∧
    (∀ j, j < h.size → (h.push n)[j]? = h[j]?) ∧
    (∀ id', id' < h.size → h.size ∉ chain h (fuelOf h) id') :=
  elem_spec h hwf id i n hn

/-- the constructors keep the heap invariant (`New`, `NewWithCause`, `&Error{}`, `Wrap`, `WrapTyped`) -/
theorem constructors_wf (h : Heap) (hwf : WF h) (m : String) (c v : Val) :
    WF (new h m).1 ∧ WF (newWithCause h m c).1 ∧ WF (newEmpty h).1 ∧ WF (wrap h v).1 ∧ WF (wrapTyped h v).1 :=
  ⟨push_wf h _ hwf rfl, push_wf h _ hwf rfl, push_wf h _ hwf rfl, wrap_wf h v hwf, wrapTyped_wf h v hwf⟩

/-- `Append` keeps the heap invariant whatever the aliasing between accumulator and arguments (no `NoAlias`) -/
theorem append_wf_any (h : Heap) (acc : Val) (args : List Val) (hwf : WF h)
    (hids : ∀ id, Val.ref id ∈ acc :: args → id < h.size) :
    WF (append h acc args).1 ∧ h.size ≤ (append h acc args).1.size :=
  Errs.append_wf_any args acc h hwf hids

/-- hence every heap that `New`, `NewWithCause`, `&Error{}`, `Wrap`, `WrapTyped` and `Append` (on existing values, in
    any order, with any aliasing) can build satisfies the invariant the `Append` theorems assume -/
theorem reachable_wf (h : Heap) (r : Reachable h) : WF h := reachable_wf_aux r

/-- **content of `Append` with any aliasing** (no `NoAlias`; accumulator a non-empty `*Error` — with any other accumulator
    `NoAlias` holds trivially and `append_items` applies): the result contains the accumulator's errors
    followed by `aliasItems`, where an argument whose chain ends in the accumulator's last cell `e0` contributes its
    errors **plus everything appended so far** (it is read after the accumulator has grown: `Append(a, b, a)` contains
    `a, b, a, b`), and every other argument contributes exactly its own errors -/
theorem append_items_alias (h : Heap) (id : Nat) (args : List Val) (hwf : WF h) (hid : id < h.size)
    (hne : isEmpty h id = false) (hids : ∀ id', Val.ref id' ∈ args → id' < h.size) :
    resItems (append h (.ref id) args) = items h id ++ aliasItems h (tailOf h (fuelOf h) id) [] args :=
  Errs.append_items_alias h id args hwf hid hne hids

/-! ## Rendering (third sentence of the property): what is logic in `%s` / `%q` / `%v` / `%+v`

`Model/ErrsFmt.lean`: `fmtS`/`fmtQ`/`fmtV` are the renderings the driver prints for every `render` line; the recorded call
stack of an error is an abstract token `Tok` (capturing function + serial number of the capture) in a table beside the
heap.  The harness replaces every block of real frame lines of `%v` and `%+v` by the token it derives from the frames (top
function outside the library ↦ creator, identity of the recorded stack ↦ serial) and compares with `fmtV`.  What stays
implementation-only: the frames below the creating function, file names and line numbers, `errors.Is/As` through
`Unwrap() []error`. -/

/-- the token-carrying `Append` the driver runs computes the heap and the result of `append`: every theorem above is about
    what the driver executes -/
theorem appendF_is_append (s : FHeap) (f : Nat) (acc : Val) (args : List Val) :
    (appendF s f acc args).1.h = (append s.h acc args).1 ∧ (appendF s f acc args).2 = ptrVal (append s.h acc args).2.1 :=
  appendF_heap s f acc args

/-- `Message()` / `%s`: a single error renders its message; an aggregate renders the header with the count and one `- `
    line per contained error, in order (any well-formed heap, any error with a non-empty head) -/
theorem message_of_items (h : Heap) (hwf : WF h) (id : Nat) (hid : id < h.size) (hne : isEmpty h id = false) :
    fmtS h id =
      match items h id with
      | [it] => it.msg
      | its => "Multiple (" ++ toString its.length ++ ") errors occurred:" ++
          String.join (its.map (fun it => "\n- " ++ it.msg)) :=
  message_eq_items h hwf id hid hne

/-- hence the message of the result of `Append` lists exactly the non-nil non-empty errors of the arguments -/
theorem append_message (h : Heap) (acc : Val) (args : List Val) (hwf : WF h)
    (hids : ∀ id, Val.ref id ∈ acc :: args → id < h.size) (hna : NoAlias h acc args) (r : Nat)
    (hr : (append h acc args).2.1 = some r) :
    fmtS (append h acc args).1 r =
      match argItems h acc ++ args.flatMap (argItems h) with
      | [it] => it.msg
      | its => "Multiple (" ++ toString its.length ++ ") errors occurred:" ++
          String.join (its.map (fun it => "\n- " ++ it.msg)) := by
  have D := append_spec args acc h hwf hids hna
  rw [message_of_items _ D.wf r (D.rootLt r hr) (root_nonempty D r hr), ← D.items]
  simp only [resItems, hr]

/-- **a recorded stack is never changed**: every operation leaves the stack of every existing error as it is (so an older
    error still names its own creating function, however many errors are created, copied or appended later) -/
theorem stacks_never_change (s : FHeap) (f : Nat) (m pre : String) (c v acc : Val) (args : List Val) (k i : Nat)
    (hi : i < s.T.size) :
    tokOf (newF s f m).1.T i = tokOf s.T i ∧ tokOf (newWithCauseF s f m c).1.T i = tokOf s.T i ∧
    tokOf (newEmptyF s).1.T i = tokOf s.T i ∧ tokOf (wrapF s f v).1.T i = tokOf s.T i ∧
    tokOf (wrapTypedF s f v).1.T i = tokOf s.T i ∧ tokOf (cloneF s v pre).1.T i = tokOf s.T i ∧
    tokOf (elemF s v k).1.T i = tokOf s.T i ∧ tokOf (appendF s f acc args).1.T i = tokOf s.T i := by
  refine ⟨tokOf_push_left _ _ i hi, tokOf_push_left _ _ i hi, tokOf_push_left _ _ i hi, ?_, ?_, ?_, ?_, ?_⟩
  · unfold wrapF; split
    · rfl
    · exact tokOf_push_left _ _ i hi
  · unfold wrapTypedF; split
    · rfl
    · exact tokOf_push_left _ _ i hi
  · unfold cloneF; split
    · split
      · rfl
      · exact tokOf_push_left _ _ i hi
    · rfl
  · unfold elemF; split
    · split
      · rfl
      · exact tokOf_push_left _ _ i hi
    · rfl
  · exact (appendFx_toks args acc s.h s.T f s.sites).2 i hi

/-- **the stack names the function that created the error**: the constructors record a stack captured by the calling
    function `f` for the new cell; `Wrap`/`WrapTyped` capture one exactly when they make a new error (unfoldings of the
    transcription) -/
theorem capture_records_creator (s : FHeap) (f : Nat) (m : String) (c v : Val) (hT : s.T.size = s.h.size) :
    tokOf (newF s f m).1.T s.h.size = some { creator := f, site := s.sites } ∧
    tokOf (newWithCauseF s f m c).1.T s.h.size = some { creator := f, site := s.sites } ∧
    tokOf (newEmptyF s).1.T s.h.size = none ∧
    (isNil v = false → asError v = false → tokOf (wrapF s f v).1.T s.h.size = some { creator := f, site := s.sites }) ∧
    (isNil v = false → isRef v = false →
      tokOf (wrapTypedF s f v).1.T s.h.size = some { creator := f, site := s.sites }) := by
  refine ⟨?_, ?_, ?_, ?_, ?_⟩
  · simp [newF, tokOf, FHeap.capture, ← hT]
  · simp [newWithCauseF, tokOf, FHeap.capture, ← hT]
  · simp [newEmptyF, tokOf, ← hT]
  · intro h1 h2; simp [wrapF, h1, h2, tokOf, FHeap.capture, ← hT]
  · intro h1 h2; simp [wrapTypedF, h1, h2, tokOf, FHeap.capture, ← hT]

/-- **a copy keeps the ORIGINAL stack**: `CloneWithPrefixMessage` and the elements of `WrappedErrors()` carry the stack of
    the cell they were copied from (unfoldings of the transcription) -/
theorem copy_keeps_stack (s : FHeap) (id k : Nat) (pre : String) (hT : s.T.size = s.h.size) (hid : id < s.h.size) :
    tokOf (cloneF s (.ref id) pre).1.T s.h.size = tokOf s.T id ∧
    ((elem s.h (.ref id) k).1.size ≠ s.h.size →
      tokOf (elemF s (.ref id) k).1.T s.h.size =
        (match (chain s.h (fuelOf s.h) id)[k]? with | some j => tokOf s.T j | none => none)) := by
  refine ⟨?_, ?_⟩
  · have hsz : (clone s.h (.ref id) pre).1.size ≠ s.h.size := by
      simp [clone, Array.getElem?_eq_getElem hid]
    simp only [cloneF, hsz, if_false]
    exact tokOf_push_self _ _ _ hT
  · intro hsz
    simp only [elemF, hsz, if_false]
    exact tokOf_push_self _ _ _ hT

/-- **the stacks along the result of `Append` onto an existing error**: the accumulator's own stacks, then those of the
    arguments in order — a copied `*Error` argument keeps the stacks of its source cells, every wrapped plain error
    carries a stack captured by this call (`argsToks`) -/
theorem append_stacks (h : Heap) (T : Toks) (f c : Nat) (id : Nat) (args : List Val) (hwf : WF h)
    (hT : T.size = h.size) (hid : id < h.size) (hne : isEmpty h id = false)
    (hargs : ∀ id', Val.ref id' ∈ args → id' < h.size ∧ tailOf h (fuelOf h) id ∉ chain h (fuelOf h) id') :
    (appendFx h T f c (.ref id) args).2.1 = some id ∧
    chainToks (appendFx h T f c (.ref id) args).1 (appendFx h T f c (.ref id) args).2.2.2.1 id =
      chainToks h T id ++ argsToks h T f c args :=
  append_stacks_ref h T f c id args hwf hT hid hne hargs

/-- … and of `Append` onto nothing (a nil interface, a nil `*Error`, a typed nil or an empty error as accumulator): exactly the stacks of
    the arguments -/
theorem append_stacks_fresh (h : Heap) (T : Toks) (f c : Nat) (acc : Val) (args : List Val) (hwf : WF h)
    (hT : T.size = h.size)
    (hacc : acc = .nilIface ∨ acc = .typedNil ∨ acc = .foreignNil ∨ ∃ id, acc = .ref id ∧ isEmpty h id = true)
    (hargs : ∀ id', Val.ref id' ∈ args → id' < h.size) :
    match (appendFx h T f c acc args).2.1 with
    | none => argsToks h T f c args = []
    | some r => chainToks (appendFx h T f c acc args).1 (appendFx h T f c acc args).2.2.2.1 r = argsToks h T f c args :=
  append_stacks_none h T f c acc args hwf hT hacc hargs

/-- **the `Caused by` structure of `%v`/`%+v`** (unfolding of the transcription of `StackTrace`): an error with a cause
    that is not merely wrapped renders its own stack, then `Caused by:` and the cause's full `Detail` (an `*Error` cause)
    or its `Error()` text (a foreign cause); a wrapping error (`Wrap`, `WrapTyped`, a plain error inside `Append`) and an
    error without a cause render their own stack only -/
theorem caused_by_structure (h : Heap) (T : Toks) (fuel id : Nat) (n : ENode) (hn : h[id]? = some n) :
    (n.cause = .nilIface ∨ n.wrapped = true → stackC h T (fuel + 1) id = tokText (tokOf T id)) ∧
    (∀ c, n.cause = .ref c → n.wrapped = false →
      stackC h T (fuel + 1) id =
        tokText (tokOf T id) ++ "\n  Caused by: " ++ detailOf (message h c) (stackC h T fuel c)) ∧
    (∀ u m, n.cause = .plain u m → n.wrapped = false →
      stackC h T (fuel + 1) id = tokText (tokOf T id) ++ "\n  Caused by: " ++ m) := by
  refine ⟨?_, ?_, ?_⟩
  · intro hc
    rcases hc with hc | hc <;> simp [stackC, hn, hc]
  · intro c hc hw; simp [stackC, hn, hc, hw]
  · intro u m hc hw; simp [stackC, hn, hc, hw, errorText]

/-! non-vacuity: a concrete well-formed heap (`x`, the aggregate `{a1, a2}`, `y`), the call `Append(x, {a1,a2}, nil,
    (*Error)(nil), plain "p", y)` satisfies every hypothesis and yields the five errors in order -/
def h0 : Heap := #[{ msg := "x", hasStack := true }, { msg := "a1", hasStack := true, next := some 2 },
  { msg := "a2", hasStack := true }, { msg := "y", hasStack := true }]
def args0 : List Val := [.ref 1, .nilIface, .typedNil, .plain 0 "p", .ref 3]

example : WF h0 := wf_of_wfb h0 (by decide)
example : ∀ id, Val.ref id ∈ Val.ref 0 :: args0 → id < h0.size := by
  intro id hid; simp [args0] at hid; rcases hid with rfl | rfl | rfl <;> decide
example : NoAlias h0 (.ref 0) args0 := by
  intro id hacc id' hid'
  have : id = 0 := by simpa [accOf, args0] using hacc.symm
  subst this
  simp [restOf, args0] at hid'
  rcases hid' with rfl | rfl <;> decide
example : (resItems (append h0 (.ref 0) args0)).map (·.msg) = ["x", "a1", "a2", "p", "y"] := by decide
example : count (append h0 (.ref 0) args0).1 0 = 5 := by decide
/-! the aliased call `Append(x, y, x)` contains `x, y, x, y` -/
example : (resItems (append h0 (.ref 0) [.ref 3, .ref 0])).map (·.msg) = ["x", "y", "x", "y"] := by decide
example : (aliasItems h0 0 [] [.ref 3, .ref 0]).map (·.msg) = ["y", "x", "y"] := by decide


/-! ## The text of the stack trace over real frames (third sentence of the property, `%v` / `%+v` in full)

`Model/ErrsTrace.lean` transcribes `StackTrace` branch for branch over the frames `runtime.CallersFrames` yields (function,
file, line): the frame loop with its buffer, the filter, the file shortening, the fixed-size buffer of `callStack` (size measured by the harness), the
`Caused by:` recursion (`stackG`, of which the token rendering `stackC` above is the other instance).  The driver runs
`detailR` on every line of area `trace`, on frames the harness takes itself with `runtime.Callers` on the source line of the
constructor call, and the whole text must equal `Detail(trim)` = `%v` / `%+v` of the library.

Vocabulary (`Lemmas/ErrsTrace.lean`): `shown trim P f` — the frame has a function name and, when trimming, is not filtered
(`shown_iff`); `joinLines` — lines joined by single newlines; `CauseWF h` — the cause of every cell is an older cell
(`built_causeWF`: true of every heap the API builds, `CloneWithPrefixMessage` included); `msgHead m` — `m` and a newline, or
nothing when `m` is empty. -/

/-- what `shown` says -/
theorem shown_iff (trim : Bool) (P : List String) (f : Frame) :
    shown trim P f = true ↔
      f.fn ≠ "" ∧ (trim = true →
        ¬ ((f.fn = "main.main" ∧ f.file = "_testmain.go") ∨ ∃ p ∈ P, p.toList.isPrefixOf f.fn.toList = true)) := by
  cases trim
  · simp [shown, frameTrimmed]
  · simp [shown, frameTrimmed]
    intro _ _
    refine ⟨fun h a => h.resolve_left (fun na => na a), fun h => ?_⟩
    by_cases a : f.fn = "main.main"
    · exact Or.inr (h a)
    · exact Or.inl a

/-- **the frame block** (the loop of `StackTrace` with its `if buffer.Len() != 0` newline): one line per shown frame, in
    the order of the recorded stack, joined by single newlines — nothing before, between or after -/
theorem frames_text_spec (trim : Bool) (P : List String) (fs : List Frame) :
    (framesText trim P fs).toList = joinLines ((fs.filter (shown trim P)).map frameLine) := by
  simp only [framesText, String.toList_ofList]
  exact framesChars_spec trim P fs

/-- **the stack trace names the function that created the error** (`%v`): when the library's own frames above the creation
    site are filtered (they carry the prefix `github.com/richardwilkes/toolbox/errs.`), fit the buffer of
    `callStack` (its size `buf` is measured on every run) with room to spare, and the creating function's frame `c` is shown, the trimmed trace STARTS with
    `    [c.fn] ` -/
theorem trace_names_creator (P : List String) (buf : Nat) (lib site : List Frame) (c : Frame)
    (hlib : ∀ f ∈ lib, shown true P f = false) (hlen : lib.length < buf) (hc : shown true P c = true) :
    ∃ tail, (framesText true P (recordStack buf lib (c :: site))).toList =
      "    [".toList ++ c.fn.toList ++ "] ".toList ++ tail := by
  have hrec : ∃ rest, recordStack buf lib (c :: site) = lib ++ c :: rest := by
    unfold recordStack
    rw [List.take_append, List.take_of_length_le (Nat.le_of_lt hlen)]
    obtain ⟨k, hk⟩ : ∃ k, buf - lib.length = k + 1 := ⟨buf - lib.length - 1, by omega⟩
    rw [hk, List.take_succ_cons]
    exact ⟨_, rfl⟩
  obtain ⟨rest, hrest⟩ := hrec
  obtain ⟨t1, ht1⟩ := framesChars_first true P lib c rest hlib hc
  obtain ⟨t2, ht2⟩ := frameLine_names c
  refine ⟨t2 ++ t1, ?_⟩
  simp only [framesText, String.toList_ofList, hrest, ht1, ht2, List.append_assoc]

/-- the untrimmed trace (`%+v`) lists EVERY recorded frame that has a function name — the creating function's among them;
    and the trimmed trace lists every frame that is not filtered -/
theorem trace_lists_frames (trim : Bool) (P : List String) (fs : List Frame) (f : Frame) (hf : f ∈ fs)
    (hs : shown trim P f = true) :
    frameLine f <:+: (framesText trim P fs).toList ∧
    ∃ tail, frameLine f = "    [".toList ++ f.fn.toList ++ "] ".toList ++ tail := by
  refine ⟨?_, frameLine_names f⟩
  simp only [framesText, String.toList_ofList]
  exact framesChars_infix trim P fs f hf hs

/-- **the `file:line` part of a frame line**: whatever the shortening does (cut before the first dotted directory, drop a
    trailing `_obj`, drop a directory that repeats the start of the function name), the file name shown is a suffix of the
    real path and never less than the base name of the file (`baseName`: the part after the last separator) -/
theorem frame_file_shown (fn file : List Char) :
    shortenFile fn file <:+ file ∧ baseName file <:+ shortenFile fn file :=
  shortenFile_spec fn file

/-- `%v` and `%+v` differ only by left-out frames: the frames shown when trimming are among those shown without, in the same
    order -/
theorem trimmed_lines_sublist (P : List String) (fs : List Frame) :
    ((fs.filter (shown true P)).map frameLine).Sublist ((fs.filter (shown false P)).map frameLine) :=
  (shown_trim_sublist P fs).map frameLine

/-- CONTRAST (why the filter is needed for "naming the function that created it"): without trimming, a constructor's own
    frame — the first entry of the recorded stack — heads the trace, not the creating function's -/
theorem untrimmed_starts_in_library (P : List String) (buf : Nat) (l0 : Frame) (lib site : List Frame) (hl0 : l0.fn ≠ "") :
    ∃ tail, (framesText false P (recordStack (buf + 1) (l0 :: lib) site)).toList =
      "    [".toList ++ l0.fn.toList ++ "] ".toList ++ tail := by
  have hrec : ∃ rest, recordStack (buf + 1) (l0 :: lib) site = [] ++ l0 :: rest := by
    unfold recordStack
    exact ⟨_, by rw [List.cons_append, List.take_succ_cons]; rfl⟩
  obtain ⟨rest, hrest⟩ := hrec
  have hs : shown false P l0 = true := by simp [shown, hl0]
  obtain ⟨t1, ht1⟩ := framesChars_first false P [] l0 rest (by intro f hf; cases hf) hs
  obtain ⟨t2, ht2⟩ := frameLine_names l0
  refine ⟨t2 ++ t1, ?_⟩
  simp only [framesText, String.toList_ofList, hrest, ht1, ht2, List.append_assoc]

/-- cause links point to older cells in every heap the API can build (`New`, `NewWithCause` of an existing value, `&Error{}`,
    `Wrap`, `WrapTyped`, `Append`, elements of `WrappedErrors()`, `CloneWithPrefixMessage`) -/
theorem built_causeWF (h : Heap) (b : Built h) : CauseWF h := built_causeWF_aux b

/-- hence the fuel of the model's `Caused by:` recursion is never exhausted: any two amounts above the cell give the same
    text (the rendering is a function of the heap alone) -/
theorem render_fuel_irrelevant (blk : Nat → String) (h : Heap) (hc : CauseWF h) (fuel fuel' id : Nat)
    (h1 : id < fuel) (h2 : id < fuel') : stackG blk h fuel id = stackG blk h fuel' id :=
  stackG_fuel blk h hc fuel fuel' id h1 h2

/-- **…and any causes** (`%v` with `trim = true`, `%+v` with `trim = false`): the `Detail` of an error whose cause is an
    `*Error` (and which is not a mere wrapper) is its message, its own frame block, the marker, and then the WHOLE `Detail` of
    the cause — recursively, so every cause down the chain is rendered with its message and its own stack -/
theorem detail_renders_cause (trim : Bool) (P : List String) (F : FrameTab) (h : Heap) (hc : CauseWF h) (id c : Nat)
    (n : ENode) (hn : h[id]? = some n) (hcz : n.cause = .ref c) (hw : n.wrapped = false) :
    detailR trim P F h id =
      msgHead (message h id) ++ framesText trim P (framesOf F id) ++ "\n  Caused by: " ++ detailR trim P F h c := by
  unfold detailR stackR
  rw [stackG_ref_cause _ h hc id c n hn hcz hw, detailOf_causedBy]

/-- the same for the token rendering `fmtV` that the stateful area compares on every `render` line -/
theorem fmtV_renders_cause (h : Heap) (T : Toks) (hc : CauseWF h) (id c : Nat) (n : ENode) (hn : h[id]? = some n)
    (hcz : n.cause = .ref c) (hw : n.wrapped = false) :
    fmtV h T id = msgHead (message h id) ++ tokText (tokOf T id) ++ "\n  Caused by: " ++ fmtV h T c := by
  unfold fmtV
  rw [stackC_eq_stackG, stackC_eq_stackG, stackG_ref_cause _ h hc id c n hn hcz hw, detailOf_causedBy]

/-- a foreign cause (not a `*Error`) is rendered by its `Error()` text after the marker; a wrapper (`Wrap`, `WrapTyped`, a
    plain error inside `Append`) and an error without a cause render their own frame block only -/
theorem detail_foreign_or_no_cause (trim : Bool) (P : List String) (F : FrameTab) (h : Heap) (id : Nat) (n : ENode)
    (hn : h[id]? = some n) :
    ((∀ c, n.cause ≠ .ref c) → n.cause ≠ .nilIface → n.wrapped = false →
      detailR trim P F h id =
        msgHead (message h id) ++ framesText trim P (framesOf F id) ++ "\n  Caused by: " ++ errorText n.cause) ∧
    (n.cause = .nilIface ∨ n.wrapped = true →
      detailR trim P F h id = detailOf (message h id) (framesText trim P (framesOf F id))) := by
  refine ⟨?_, ?_⟩
  · intro h1 h2 h3
    unfold detailR stackR
    rw [stackG_foreign_cause _ h h.size id n hn h1 h2 h3, detailOf_causedBy]
  · intro h1
    unfold detailR stackR
    rw [stackG_no_cause _ h h.size id n hn h1]

/-- **every non-empty error renders its message for `%v`/`%+v`**: a `Detail` starts with the message -/
theorem detail_starts_with_message (trim : Bool) (P : List String) (F : FrameTab) (h : Heap) (id : Nat)
    (hm : message h id ≠ "") : ∃ rest, detailR trim P F h id = message h id ++ rest :=
  detailOf_msg _ _ hm

/-! non-vacuity: a recorded stack as `errs.Newf` leaves it (two library frames, the creating function, its caller, the
    runtime), the default prefixes -/
def P0 : List String := ["runtime.", "testing.", "github.com/richardwilkes/toolbox/errs."]
def lib0 : List Frame := [{ fn := "github.com/richardwilkes/toolbox/errs.New", file := "/repo/errs/errors.go", line := 115 },
  { fn := "github.com/richardwilkes/toolbox/errs.Newf", file := "/repo/errs/errors.go", line := 121 }]
def mk0 : Frame := { fn := "main.mk", file := "/src/main.lp/_obj/f.go", line := 20 }
def site0 : List Frame := [{ fn := "main.main", file := "_testmain.go", line := 1 }, { fn := "runtime.goexit", file := "/go/asm.s", line := 9 }]

example : ∀ f ∈ lib0, shown true P0 f = false := by decide
example : shown true P0 mk0 = true := by decide
example : framesChars true P0 (recordStack 512 lib0 (mk0 :: site0)) = "    [main.mk] main.lp/_obj/f.go:20".toList := by decide
example : (fs0 : List Frame) → fs0 = recordStack 512 lib0 (mk0 :: site0) → ((fs0.filter (shown false P0)).length = 5) := by
  intro fs0 h; subst h; decide
/-! a heap with a cause chain: cell 1 is caused by cell 0 -/
def hc0 : Heap := #[{ msg := "inner", hasStack := true }, { msg := "outer", hasStack := true, cause := .ref 0 }]
example : CauseWF hc0 := built_causeWF _ (Built.newWithCause _ "outer" (.ref 0) (Built.new _ "inner" Built.empty) (by intro id h; cases h; decide))


/-! non-vacuity of `detail_renders_cause`: the whole `%v` text of an error with a cause, computed by the model from the two
    recorded stacks (the creating function's frame heads both blocks; library, `main.main`/`_testmain.go` and runtime frames
    are left out), and the instance of the theorem at it -/
def F0 : FrameTab := #[recordStack 512 [] (mk0 :: site0), recordStack 512 lib0 (mk0 :: site0)]
example : detailR true P0 F0 hc0 1 =
    "outer\n    [main.mk] main.lp/_obj/f.go:20\n  Caused by: inner\n    [main.mk] main.lp/_obj/f.go:20" := by decide
example : detailR true P0 F0 hc0 1 =
    msgHead (message hc0 1) ++ framesText true P0 (framesOf F0 1) ++ "\n  Caused by: " ++ detailR true P0 F0 hc0 0 :=
  detail_renders_cause true P0 F0 hc0 (built_causeWF _ (Built.newWithCause _ "outer" (.ref 0)
    (Built.new _ "inner" Built.empty) (by intro id h; cases h; decide))) 1 0 _ rfl rfl rfl

/-! ## `errors.Is` / `errors.As`, `Recovery`, `Log*` (`Model/ErrsWalk.lean`)

The driver answers the ops `is`, `as`, `recover` and `log` of the stateful area with `errorsIs`, `asTarget`, `recoveryF` and
`logRecordF`; the harness runs `errors.Is`, `errors.As`, `errs.Recovery` under a real panic and the ten `errs.Log*` entry
points against a capturing slog handler. -/

/-- the token-carrying `Recovery` and `Log*` the driver runs compute the heap and the result of the plain ones -/
theorem recoveryF_logF_are_plain (s : FHeap) (f : Nat) (msg : String) (p : PanicVal) (b : Bool) (v : Val) :
    ((recoveryF s f msg p b).1.h = (recovery s.h msg p b).1 ∧ (recoveryF s f msg p b).2 = (recovery s.h msg p b).2) ∧
    ((logRecordF s f v).1.h = (logRecord s.h v).1 ∧ (logRecordF s f v).2 = (logRecord s.h v).2) :=
  ⟨recoveryF_heap s f msg p b, logRecordF_heap s f v⟩

/-- **`errors.Is` still reaches the cause** through `Wrap`: for a non-nil error `v` of a comparable type that contains no
    `*Error`, `errors.Is(Wrap(v), v)` holds, and against any other target the walk from the wrapper continues exactly like the
    walk from `v` (the wrapper adds one step and hides nothing) -/
theorem wrap_is_reaches_cause (h : Heap) (cmp : Val → Bool) (v : Val) (hv : isNil v = false) (ha : asError v = false)
    (hc : cmp v = true) :
    errorsIs (wrap h v).1 cmp (wrap h v).2 v = .found ∧
    ∀ t fuel, t ≠ .ref h.size →
      isWalk (wrap h v).1 cmp t (fuel + 1) (wrap h v).2 = isWalk (wrap h v).1 cmp t fuel v := by
  have hw : wrap h v = (h.push (wrapperNode v), .ref h.size) := by simp [wrap, hv, ha]
  have hv0 : v ≠ .nilIface := by intro e; rw [e] at hv; simp [isNil] at hv
  have hvr : v ≠ .ref h.size := by intro e; rw [e] at ha; simp [asError] at ha
  rw [hw]
  refine ⟨errorsIs_push_cause h cmp _ v rfl hv0 hvr hc, ?_⟩
  intro t fuel ht
  rw [isWalk_ref_step _ _ _ _ _ ht]
  simp [unwrap, wrapperNode]

/-- the same through `WrapTyped` (any non-nil value that is not itself a `*Error`) and through `NewWithCause` (any non-nil
    cause that exists already) -/
theorem wrapTyped_newWithCause_is_reach (h : Heap) (cmp : Val → Bool) (m : String) (v : Val) (hv : isNil v = false)
    (hc : cmp v = true) :
    ((∀ id, v ≠ .ref id) → errorsIs (wrapTyped h v).1 cmp (wrapTyped h v).2 v = .found) ∧
    (v ≠ .ref h.size → errorsIs (newWithCause h m v).1 cmp (newWithCause h m v).2 v = .found) := by
  have hv0 : v ≠ .nilIface := by intro e; rw [e] at hv; simp [isNil] at hv
  refine ⟨?_, ?_⟩
  · intro hr
    rw [(wrapTyped_reaches_cause h v hv hr).1]
    exact errorsIs_push_cause h cmp _ v rfl hv0 (hr h.size) hc
  · intro hr
    exact errorsIs_push_cause h cmp _ v (by simp [hv]) hv0 hr hc

/-- **`errors.As` still reaches**: `errors.As(err, &errorPtr)` succeeds exactly when `Wrap` passes `err` through, what it
    stores is a `*Error` of the chain, and on the result of `Wrap`/`WrapTyped` of a value without an `*Error` inside it finds
    the new wrapper itself -/
theorem as_finds_error (h : Heap) (v : Val) :
    (asError v = true ↔ asTarget v ≠ .nilIface) ∧
    (asTarget v = .nilIface ∨ asTarget v = .typedNil ∨ ∃ id, asTarget v = .ref id) ∧
    (isNil v = false → asError v = false → asTarget (wrap h v).2 = .ref h.size) := by
  refine ⟨asError_iff_asTarget v, asTarget_kind v, ?_⟩
  intro hv ha
  simp [wrap, hv, ha, asTarget]

/-- **`Recovery`** (errs/recovery.go): with a handler and a panic whose value is an `error`, the handler receives ONE new
    error with the fixed message `recoveryMsg` (the same for every panic; read off the real code on every run) whose `Unwrap` is the panic value (a typed nil is dropped, so the result
    can be rendered) — `errors.Is` reaches it — and no existing error changes; without a panic, or without a handler,
    nothing is created and nothing is called -/
theorem recovery_hands_cause (h : Heap) (recoveryMsg : String) (cmp : Val → Bool) (v : Val) (b : Bool) (p : PanicVal) :
    (recovery h recoveryMsg (.err v) true).2 = some (.ref h.size) ∧
    unwrap (recovery h recoveryMsg (.err v) true).1 (.ref h.size) = (if isNil v then .nilIface else v) ∧
    message (recovery h recoveryMsg (.err v) true).1 h.size = recoveryMsg ∧
    (∀ i, i < h.size → (recovery h recoveryMsg (.err v) true).1[i]? = h[i]?) ∧
    (isNil v = false → v ≠ .ref h.size → cmp v = true →
      errorsIs (recovery h recoveryMsg (.err v) true).1 cmp (.ref h.size) v = .found) ∧
    recovery h recoveryMsg .none b = (h, none) ∧ recovery h recoveryMsg p false = (h, none) := by
  have hN := newWithCause_cause h recoveryMsg v
  refine ⟨rfl, hN.1, hN.2.1, hN.2.2, ?_, rfl, ?_⟩
  · intro hv hr hc
    have hv0 : v ≠ .nilIface := by intro e; rw [e] at hv; simp [isNil] at hv
    exact errorsIs_push_cause h cmp _ v (by simp [hv]) hv0 hr hc
  · cases p <;> rfl

/-- a panic with a string: the handler's error is caused by a new `*Error` carrying the text, created first (so its stack
    is the older capture) -/
theorem recovery_string (h : Heap) (recoveryMsg m : String) :
    (recovery h recoveryMsg (.str m) true).2 = some (.ref (h.size + 1)) ∧
    unwrap (recovery h recoveryMsg (.str m) true).1 (.ref (h.size + 1)) = .ref h.size ∧
    message (recovery h recoveryMsg (.str m) true).1 h.size = m ∧
    message (recovery h recoveryMsg (.str m) true).1 (h.size + 1) = recoveryMsg ∧
    (∀ i, i < h.size → (recovery h recoveryMsg (.str m) true).1[i]? = h[i]?) := by
  have hN := newWithCause_cause (h.push { msg := m, hasStack := true }) recoveryMsg (.ref h.size)
  have hsz : (h.push ({ msg := m, hasStack := true } : ENode)).size = h.size + 1 := by simp
  have hrec : recovery h recoveryMsg (.str m) true =
      ((newWithCause (h.push { msg := m, hasStack := true }) recoveryMsg (.ref h.size)).1,
        some (newWithCause (h.push { msg := m, hasStack := true }) recoveryMsg (.ref h.size)).2) := rfl
  have h2 : (newWithCause (h.push { msg := m, hasStack := true }) recoveryMsg (.ref h.size)).2 = .ref (h.size + 1) := by
    simp [newWithCause]
  have hcell : (newWithCause (h.push { msg := m, hasStack := true }) recoveryMsg (.ref h.size)).1[h.size]? =
      some { msg := m, hasStack := true } := by
    rw [hN.2.2 h.size (by omega)]; simp
  rw [hrec]
  refine ⟨by rw [h2], ?_, ?_, ?_, ?_⟩
  · have := hN.1; rw [h2] at this; simpa [isNil] using this
  · simp only [message, nextOf, msgOf, hcell]; rfl
  · have := hN.2.1; rw [hsz] at this; exact this
  · intro i hi
    rw [hN.2.2 i (by omega)]
    simp [Array.getElem?_push, Nat.ne_of_lt hi]

/-- **`Log*`** (errs/log.go, all ten entry points go through `WrapTyped` and `createRecord`): a nil or typed-nil error
    gives a record with an empty message and no `stack_trace` attribute; an `*Error` is logged AS IS (same pointer behind
    the attribute, its `Message()` as the record's message, nothing allocated); a foreign error is wrapped first, and the
    wrapper carries its text and unwraps to it -/
theorem log_record_spec (h : Heap) (v : Val) :
    (isNil v = true → logRecord h v = (h, "", none)) ∧
    (∀ id, v = .ref id → logRecord h v = (h, message h id, some (.ref id))) ∧
    (isNil v = false → (∀ id, v ≠ .ref id) →
      logRecord h v = (h.push (wrapperNode v), errorText v, some (.ref h.size)) ∧
      unwrap (logRecord h v).1 (.ref h.size) = v) := by
  refine ⟨?_, ?_, ?_⟩
  · intro hv; simp [logRecord, wrapTyped, hv]
  · intro id hid; subst hid; simp [logRecord, wrapTyped, isNil]
  · intro hv hr
    obtain ⟨hw, hu, hm⟩ := wrapTyped_reaches_cause h v hv hr
    have h2 : (wrapTyped h v).2 = .ref h.size := by rw [hw]
    have h1 : (wrapTyped h v).1 = h.push (wrapperNode v) := by rw [hw]
    refine ⟨?_, ?_⟩
    · unfold logRecord; rw [h2]; simp only []; rw [← h1, hm]
    · unfold logRecord; rw [h2]; simp only []; rw [h2] at hu; exact hu

/-! non-vacuity: `errors.Is(Wrap(errors.New("p")), thatError)`; a foreign wrapper around a nil `*Error` makes the walk
    dereference nil (observed on the real code as well: corpus `errs.walk.ops`) -/
example : errorsIs (wrap #[] (.plain 0 "p")).1 (fun _ => true) (wrap #[] (.plain 0 "p")).2 (.plain 0 "p") = .found := by decide
example : errorsIs #[] (fun _ => true) (.fwrap 1 "w" .typedNil) (.plain 0 "p") = .panics := by decide
example : (recovery #[] "recovered" (.err (.plain 0 "p")) true).2 = some (.ref 0) := by decide


/-! ## Contrast: `Append` without one of its mechanisms violates the statement (`Lemmas/ErrsContrast.lean`) -/

/-- CONTRAST to `append_items`: without the walk to the end of what was just linked (the cursor of the code before fix
    e5d8074) the conclusion of `append_items` FAILS under exactly its hypotheses — `Append(x, {a1,a2}, …, y)` loses `a2` -/
theorem append_without_cursor_walk_loses_errors :
    ∃ (h : Heap) (id : Nat) (args : List Val), WF h ∧ (∀ i, Val.ref i ∈ Val.ref id :: args → i < h.size) ∧
      NoAlias h (.ref id) args ∧ isEmpty h id = false ∧
      resItems (appendNoWalk h id args) ≠ argItems h (.ref id) ++ args.flatMap (argItems h) ∧
      resItems (append h (.ref id) args) = argItems h (.ref id) ++ args.flatMap (argItems h) := by
  have hwf : WF h0 := wf_of_wfb h0 (by decide)
  have hids : ∀ i, Val.ref i ∈ Val.ref 0 :: args0 → i < h0.size := by
    intro id hid; simp [args0] at hid; rcases hid with rfl | rfl | rfl <;> decide
  have hna : NoAlias h0 (.ref 0) args0 := by
    intro id hacc id' hid'
    have : id = 0 := by simpa [accOf, args0] using hacc.symm
    subst this
    simp [restOf, args0] at hid'
    rcases hid' with rfl | rfl <;> decide
  exact ⟨h0, 0, args0, hwf, hids, hna, by decide, by decide, append_items h0 (.ref 0) args0 hwf hids hna⟩

/-- CONTRAST to `append_args_unchanged`: without the cell-by-cell copy of `*Error` arguments the first argument's chain
    GROWS by the later arguments (it is no longer "left unchanged"), while with the copy it stays as it was -/
theorem append_without_copy_changes_argument :
    ∃ (h : Heap) (id id' : Nat) (args : List Val), WF h ∧ (∀ i, Val.ref i ∈ Val.ref id :: args → i < h.size) ∧
      NoAlias h (.ref id) args ∧ Val.ref id' ∈ args ∧
      items (appendNoCopy h id args).1 id' ≠ items h id' ∧
      items (append h (.ref id) args).1 id' = items h id' := by
  have hwf : WF h0 := wf_of_wfb h0 (by decide)
  have hids : ∀ i, Val.ref i ∈ Val.ref 0 :: args0 → i < h0.size := by
    intro id hid; simp [args0] at hid; rcases hid with rfl | rfl | rfl <;> decide
  have hna : NoAlias h0 (.ref 0) args0 := by
    intro id hacc id' hid'
    have : id = 0 := by simpa [accOf, args0] using hacc.symm
    subst this
    simp [restOf, args0] at hid'
    rcases hid' with rfl | rfl <;> decide
  have hmem : Val.ref 1 ∈ args0 := by simp [args0]
  exact ⟨h0, 0, 1, args0, hwf, hids, hna, hmem, by decide,
    (append_args_unchanged h0 (.ref 0) args0 hwf hids hna 1 hmem).2.1⟩


/-! ## Corollaries that make the hypotheses concrete -/

/-- with the library's package prefix among the prefixes to filter (it is in the default `RuntimePrefixesToFilter`), every
    frame of a library function is left out of a trimmed trace -/
theorem library_frames_hidden (P : List String) (pkg : String) (hp : pkg ∈ P) (f : Frame)
    (hf : pkg.toList.isPrefixOf f.fn.toList = true) : shown true P f = false := by
  cases hs : shown true P f with
  | false => rfl
  | true =>
    have := ((shown_iff true P f).mp hs).2 rfl
    exact absurd (Or.inr ⟨pkg, hp, hf⟩) this

/-- hence: an error created by a function `c` outside the filtered packages through ANY chain of library functions shorter
    than the buffer renders, for `%v`, a trace that starts with `    [c] ` -/
theorem trace_names_creator_default (P : List String) (pkg : String) (hp : pkg ∈ P) (buf : Nat) (lib site : List Frame)
    (c : Frame) (hlib : ∀ f ∈ lib, pkg.toList.isPrefixOf f.fn.toList = true) (hlen : lib.length < buf)
    (hc : shown true P c = true) :
    ∃ tail, (framesText true P (recordStack buf lib (c :: site))).toList =
      "    [".toList ++ c.fn.toList ++ "] ".toList ++ tail :=
  trace_names_creator P buf lib site c (fun f hf => library_frames_hidden P pkg hp f (hlib f hf)) hlen hc

/-- the two renderings the driver prints — `fmtV` on every `render` line of the stateful area (stack = token) and `detailR`
    on every line of area `trace` (stack = real frames) — are ONE recursion (`stackG`) at two block functions: what the
    trace area validates about the `Caused by:` structure is what the stateful area uses -/
theorem fmtV_is_generic (h : Heap) (T : Toks) (id : Nat) :
    fmtV h T id = detailOf (message h id) (stackG (fun i => tokText (tokOf T i)) h (h.size + 1) id) := by
  unfold fmtV
  rw [stackC_eq_stackG]

example : shown true P0 { fn := "github.com/richardwilkes/toolbox/errs.New", file := "x.go", line := 1 } = false :=
  library_frames_hidden P0 "github.com/richardwilkes/toolbox/errs." (by decide) _ (by decide)


/-! ## `Append` writes nothing but links (`Lemmas/ErrsFrame.lean`) -/

/-- **Append writes nothing but `next` links** — on ANY heap, with ANY aliasing between accumulator and arguments, with no
    hypothesis at all (no `WF`, no `NoAlias`): every cell that existed before still exists with the same message, cause,
    stack and wrapped flag.  So what `Unwrap`, `errors.Is` / `errors.As`, the recorded stack and the message of a single
    error show of ANY existing error — appended argument or not — is what they showed before ("leaves the contents of the
    appended arguments unchanged", here also for the aliased calls that `append_args_unchanged` excludes) -/
theorem append_only_links (h : Heap) (acc : Val) (args : List Val) :
    h.size ≤ (append h acc args).1.size ∧
    ∀ (i : Nat) (n : ENode), h[i]? = some n → ∃ m, (append h acc args).1[i]? = some m ∧
      n.msg = m.msg ∧ n.cause = m.cause ∧ n.hasStack = m.hasStack ∧ n.wrapped = m.wrapped :=
  onlyLinks_appendFull h acc args

/-- hence `Unwrap` of every existing error is the same after any `Append` -/
theorem append_keeps_unwrap (h : Heap) (acc : Val) (args : List Val) (id : Nat) (hid : id < h.size) :
    unwrap (append h acc args).1 (.ref id) = unwrap h (.ref id) := by
  have hn : h[id]? = some h[id] := Array.getElem?_eq_getElem hid
  obtain ⟨m, hm, _, hc, _, _⟩ := (append_only_links h acc args).2 id h[id] hn
  simp only [unwrap, hm, hn, hc]


/-! ## No earlier value is modified by a later call; values handed out by `WrappedErrors` are independent
(`Lemmas/ErrsHistory.lean`; the clause attacked by both regressions of tester round 7)

`Evolves h h'`: `h'` is reached from `h` by ANY sequence of `New`, `NewWithCause`, `&Error{}`, `Wrap`, `WrapTyped`, `Append`,
element-of-`WrappedErrors()` and `CloneWithPrefixMessage` calls, with any arguments and any aliasing.
`Sep h id a`: the heap is well formed, `id` is a non-empty error, `a` an error, and their chains end in different cells. -/

/-- **whatever the history, only links are ever written**: after any sequence of calls every cell that existed still
    exists with the same message, cause, stack and wrapped flag — so `Unwrap`, `errors.Is`/`errors.As`, the recorded stack and
    the message of every error handed out earlier, to anyone, are what they were (no `WF`, no hypothesis on aliasing; heaps
    with clones included) -/
theorem history_only_links (h h' : Heap) (e : Evolves h h') :
    h.size ≤ h'.size ∧
    (∀ (i : Nat) (n : ENode), h[i]? = some n → ∃ m, h'[i]? = some m ∧
      n.msg = m.msg ∧ n.cause = m.cause ∧ n.hasStack = m.hasStack ∧ n.wrapped = m.wrapped) ∧
    (∀ id, id < h.size → unwrap h' (.ref id) = unwrap h (.ref id)) := by
  have L := evolves_onlyLinks e
  refine ⟨L.1, L.2, ?_⟩
  intro id hid
  have hn : h[id]? = some h[id] := Array.getElem?_eq_getElem hid
  obtain ⟨m, hm, _, hc, _, _⟩ := L.2 id h[id] hn
  simp only [unwrap, hm, hn, hc]

/-- **one `Append` changes the content of nothing but what ends in the accumulator's last cell** — with ANY aliasing among
    the accumulator and the arguments (`append_args_unchanged` needs `NoAlias`): onto a non-empty `*Error` every error whose
    chain ends elsewhere keeps `Count`, messages, causes (its `items`); onto anything that is not a `*Error` (nil, typed nil,
    a foreign error) EVERY existing error does -/
theorem append_touches_only_accumulator (h : Heap) (args : List Val) (hwf : WF h)
    (hids : ∀ id', Val.ref id' ∈ args → id' < h.size) (a : Nat) (ha : a < h.size) :
    (∀ id, id < h.size → isEmpty h id = false → tailOf h (fuelOf h) a ≠ tailOf h (fuelOf h) id →
      items (append h (.ref id) args).1 a = items h a) ∧
    (∀ acc, (∀ id, acc ≠ .ref id) → items (append h acc args).1 a = items h a) :=
  ⟨fun id hid hne hta => append_others_unchanged h id args hwf hid hne hids a ha hta,
   fun acc hacc => append_fresh_unchanged h acc args hwf hacc hids a ha⟩

/-- …and this is stable: after the call the accumulator is the same pointer, the two errors still end in different cells
    and the heap is still well formed, so the statement applies to the next call (`Sep` is an invariant of `Append`) -/
theorem append_keeps_separation (h : Heap) (id a : Nat) (args : List Val) (S : Sep h id a)
    (hids : ∀ id', Val.ref id' ∈ args → id' < h.size) :
    (append h (.ref id) args).2.1 = some id ∧ items (append h (.ref id) args).1 a = items h a ∧
    h.size ≤ (append h (.ref id) args).1.size ∧ Sep (append h (.ref id) args).1 id a :=
  sep_append_step h id a args S hids

/-- **any chain of `Append`s on an accumulator** leaves every error that ends elsewhere exactly as it was (arguments that
    existed at the start, any aliasing, any number of calls) -/
theorem append_chain_others_unchanged (argss : List (List Val)) (h : Heap) (id a : Nat) (S : Sep h id a)
    (hargs : ∀ args ∈ argss, ∀ id', Val.ref id' ∈ args → id' < h.size) :
    items (appendSeq h (.ref id) argss).1 a = items h a ∧ (appendSeq h (.ref id) argss).2 = .ref id :=
  appendSeq_others_unchanged argss h id a S hargs

/-- **a value handed out by `WrappedErrors()` is independent of the chain it came from** (and of every other error): the
    copy is a fresh cell without a link, so (1) it and every older error `a` end in different cells, both ways round — hence
    by `append_keeps_separation` / `append_chain_others_unchanged` any later `Append`s ONTO THE COPY leave `a` (the source
    aggregate included) unchanged, and any later `Append`s onto `a` leave the copy unchanged; (2) spelled out for one call
    each way -/
theorem wrapped_elem_independent (h : Heap) (hwf : WF h) (id i : Nat) (n : ENode)
    (hn : (wrappedErrors h id)[i]? = some n) (a : Nat) (ha : a < h.size)
    (args : List Val) (hids : ∀ id', Val.ref id' ∈ args → id' < h.size + 1) :
    elem h (.ref id) i = (h.push n, .ref h.size) ∧ items (h.push n) a = items h a ∧
    (isEmpty (h.push n) h.size = false →
      Sep (h.push n) h.size a ∧ items (append (h.push n) (.ref h.size) args).1 a = items h a) ∧
    (isEmpty h a = false →
      Sep (h.push n) a h.size ∧ items (append (h.push n) (.ref a) args).1 h.size = items (h.push n) h.size) := by
  obtain ⟨hel, hnext, _, _, _⟩ := elem_spec h hwf id i n hn
  obtain ⟨hit, h1, h2⟩ := push_sep h n hwf hnext a ha
  have hids' : ∀ id', Val.ref id' ∈ args → id' < (h.push n).size := by
    intro id' hm; have := hids id' hm; simp; omega
  refine ⟨hel, hit, ?_, ?_⟩
  · intro he
    exact ⟨h1 he, ((sep_append_step _ _ _ args (h1 he) hids').2.1).trans hit⟩
  · intro he
    exact ⟨h2 he, (sep_append_step _ _ _ args (h2 he) hids').2.1⟩

/-- CONTRAST (tester round 7, `ind7-c11-a`): with a cached `tail` hint that `Append` keeps right but `WrappedErrors`' struct
    copy carries along BY VALUE, an element used as the accumulator of a later `Append` loses what is appended (`Count` 1)
    and the aggregate it was copied from grows — the conclusion of `wrapped_elem_independent` fails; with the hint cleared
    on the copy, and in the model of the real code, the result has both errors and the source is untouched -/
theorem cached_tail_copied_by_value_breaks_independence :
    ∃ (s : CHeap) (id i : Nat) (args : List Val), WF s.h ∧
      count (appendC (elemC true s id i) s.h.size args).h s.h.size = 1 ∧
      items (appendC (elemC true s id i) s.h.size args).h id ≠ items s.h id ∧
      count (appendC (elemC false s id i) s.h.size args).h s.h.size = 2 ∧
      items (appendC (elemC false s id i) s.h.size args).h id = items s.h id ∧
      count (append (elem s.h (.ref id) i).1 (.ref s.h.size) args).1 s.h.size = 2 ∧
      items (append (elem s.h (.ref id) i).1 (.ref s.h.size) args).1 id = items s.h id :=
  ⟨{ h := h0, tl := #[none, some 2, none, none] }, 1, 0, [.plain 0 "p"], wf_of_wfb h0 (by decide),
    by decide, by decide, by decide, by decide, by decide, by decide⟩

/-! non-vacuity of `Sep` and of the hypotheses of `wrapped_elem_independent`: element 0 of `{a1, a2}` in `h0` -/
example : (wrappedErrors h0 1)[0]? = some { msg := "a1", hasStack := true } := by decide
example : isEmpty (h0.push { msg := "a1", hasStack := true }) h0.size = false := by decide
example : Sep h0 0 1 := ⟨wf_of_wfb h0 (by decide), by decide, by decide, by decide, by decide⟩

/-! ## Observation: `errors.Is` and a nil `*Error` behind a foreign wrapper -/

/-- `nilFree v`: no nil `*errs.Error` is the value itself or sits at the bottom of its foreign wrappers -/
theorem nilFree_iff (v : Val) : nilFree v = true ↔
    v ≠ .typedNil ∧ ∀ u m inner, v = .fwrap u m inner → nilFree inner = true := by
  cases v <;> simp [nilFree]

/-- **OBSERVATION (not a property matter; reproduced on the real code by corpus `errs.walk.ops`, lines `v7`, `v31`)**:
    the `errors.Is` walk that stands on a nil `*errs.Error` which is not the (comparable) target itself panics —
    `(*Error).Unwrap` dereferences its nil receiver; in particular `errors.Is(w, t)` for a FOREIGN wrapper `w` whose
    `Unwrap()` returns a nil `*errs.Error`, for every non-nil target other than `w` itself and other than a nil `*Error` -/
theorem errors_is_panics_on_nil_error (h : Heap) (cmp : Val → Bool) (t : Val) (fuel u : Nat) (m : String)
    (ht : t ≠ .nilIface) (htn : t ≠ .typedNil) (htw : t ≠ .fwrap u m .typedNil) :
    isWalk h cmp t (fuel + 1) .typedNil = .panics ∧
    errorsIs h cmp (.fwrap u m .typedNil) t = .panics := by
  have e1 : (Val.typedNil == t) = false := by simp only [beq_eq_false_iff_ne, ne_eq]; exact fun e => htn e.symm
  have e2 : (Val.fwrap u m .typedNil == t) = false := by
    simp only [beq_eq_false_iff_ne, ne_eq]; exact fun e => htw e.symm
  have e3 : (t == Val.nilIface) = false := by simpa using ht
  have w1 : ∀ f, isWalk h cmp t (f + 1) .typedNil = .panics := by
    intro f; simp [isWalk, e1]
  refine ⟨w1 fuel, ?_⟩
  obtain ⟨k, hk⟩ : ∃ k, walkFuel h (.fwrap u m .typedNil) = k + 2 :=
    ⟨walkFuel h (.fwrap u m .typedNil) - 2, by have := walkFuel_ge h (.fwrap u m .typedNil); omega⟩
  simp only [errorsIs, e3, Bool.or_false, hk]
  have e0 : (Val.fwrap u m .typedNil == Val.nilIface) = false := by simp
  simp only [e0, Bool.false_eq_true, if_false]
  simp only [isWalk, e0, e2, Bool.and_false, Bool.false_eq_true, if_false]
  exact w1 k

/-- …and ONLY then: when neither the value nor any cause in the heap hides a nil `*errs.Error` (`NewWithCause` drops a
    typed-nil cause itself, so this is about foreign wrappers only), `errors.Is` never panics, whatever the fuel -/
theorem errors_is_panics_only_on_nil_error (h : Heap) (cmp : Val → Bool) (t : Val)
    (hh : ∀ (i : Nat) (n : ENode), h[i]? = some n → nilFree n.cause = true) :
    ∀ (fuel : Nat) (v : Val), nilFree v = true → isWalk h cmp t fuel v ≠ .panics :=
  isWalk_no_panic h cmp t hh


/-! ## The fuel of the model's `errors.Is` walk is always enough (`Lemmas/ErrsFuel.lean`)

`top v` — one more than the cell the value `v` mentions at the bottom of its foreign wrappers (0: none); `top v ≤ h.size`
says `v` mentions existing errors only, which is true of every value a program can hold.  `DeepCauseWF h` — every `*Error`
mentioned anywhere inside the cause of a cell, also below foreign wrappers, is an OLDER cell. -/

/-- every heap built by the API from values that exist when they are used (`BuiltD`: `New`, `NewWithCause`, `&Error{}`, `Wrap`,
    `WrapTyped`, `Append`, elements of `WrappedErrors()`, `CloneWithPrefixMessage`) has the deep cause invariant (and hence
    `CauseWF`, the invariant of the rendering theorems) -/
theorem builtD_deepCauseWF (h : Heap) (b : BuiltD h) : DeepCauseWF h ∧ CauseWF h :=
  ⟨builtD_deep b, deep_causeWF (builtD_deep b)⟩

/-- **`walkFuel` never cuts the walk**: in such a heap, from a value that mentions existing errors only, any larger amount
    of fuel gives the same outcome — `errorsIs`, which the driver runs against `errors.Is`, IS the unbounded walk -/
theorem is_walk_fuel_enough (h : Heap) (cmp : Val → Bool) (t : Val) (hd : DeepCauseWF h) (v : Val) (hv : top v ≤ h.size)
    (fuel : Nat) (hf : walkFuel h v ≤ fuel) : isWalk h cmp t fuel v = isWalk h cmp t (walkFuel h v) v :=
  walkFuel_enough h cmp t hd v hv fuel hf

/-- **`errors.Is` through `Wrap`, without any fuel in the statement**: for a non-nil error `v` that contains no `*Error`,
    `errors.Is(Wrap(v), t)` answers exactly what `errors.Is(v, t)` answers, for every non-nil target other than the new
    wrapper itself (found, not found, or the nil-receiver panic alike) -/
theorem wrap_is_transparent (h : Heap) (cmp : Val → Bool) (v t : Val) (hd : DeepCauseWF h) (hv : top v ≤ h.size)
    (hn : isNil v = false) (ha : asError v = false) (ht0 : t ≠ .nilIface) (ht : t ≠ .ref h.size) :
    errorsIs (wrap h v).1 cmp (wrap h v).2 t = errorsIs (wrap h v).1 cmp v t := by
  have hw : wrap h v = (h.push (wrapperNode v), .ref h.size) := by simp [wrap, hn, ha]
  rw [hw]
  have hd' : DeepCauseWF (h.push (wrapperNode v)) := deep_push h _ hd hv
  have hsz : (h.push (wrapperNode v)).size = h.size + 1 := by simp
  have hv0 : v ≠ .nilIface := by intro e; rw [e] at hn; simp [isNil] at hn
  have e1 : (Val.ref h.size == Val.nilIface) = false := by simp
  have e2 : (t == Val.nilIface) = false := by simpa using ht0
  have e3 : (v == Val.nilIface) = false := by simpa using hv0
  have hu : unwrap (h.push (wrapperNode v)) (.ref h.size) = v := by simp [unwrap, wrapperNode]
  simp only [errorsIs, e1, e2, e3, Bool.or_self, Bool.false_eq_true, if_false]
  have hwf : walkFuel (h.push (wrapperNode v)) (.ref h.size) =
      (costBelow (h.push (wrapperNode v)) h.size + valDepth v + 2) + 1 := by
    simp only [walkFuel, hsz, costBelow, hu, valDepth]; omega
  rw [hwf, isWalk_ref_step _ _ _ _ _ ht, hu]
  have hpot : potential (h.push (wrapperNode v)) v ≤ valDepth v + costBelow (h.push (wrapperNode v)) h.size := by
    have := costBelow_mono (h.push (wrapperNode v)) _ _ hv
    simp only [potential]; omega
  exact isWalk_fuel _ cmp t hd' _ _ v (by omega) (walkFuel_gt _ v (by omega))

/-! the statements can fail: with too little fuel the walk stops short (so `is_walk_fuel_enough` says something), and the
    deep invariant is not a tautology -/
example : isWalk (wrap #[] (.plain 0 "p")).1 (fun _ => true) (.plain 0 "p") 1 (.ref 0) = .notFound := by decide
example : errorsIs (wrap #[] (.plain 0 "p")).1 (fun _ => true) (.ref 0) (.plain 0 "p") = .found := by decide
example : ¬ DeepCauseWF #[{ msg := "m", cause := .fwrap 0 "w" (.ref 0) }] := by
  intro hd
  have := hd 0 _ rfl
  simp [top] at this


/-- **what `errors.Is` says about an earlier value never changes**: after ANY history (`Evolves`: any calls, any aliasing,
    clones included) `errors.Is(v, t)` for a value `v` that existed before answers what it answered before (found, not found
    or the nil-receiver panic) -/
theorem errors_is_stable (h h' : Heap) (e : Evolves h h') (cmp : Val → Bool) (v t : Val) (hd : DeepCauseWF h)
    (hv : top v ≤ h.size) : errorsIs h' cmp v t = errorsIs h cmp v t :=
  errorsIs_congr h h' cmp v t (history_only_links h h' e).1 (history_only_links h h' e).2.2 hd hv

/-- **`errors.Is` still reaches the cause — and everything the cause reaches — through every constructor that keeps a
    cause**: for a non-nil `v` that exists, `errors.Is(Wrap(v), t)`, `errors.Is(WrapTyped(v), t)`, `errors.Is(NewWithCause(m, v), t)`
    and `errors.Is(e, t)` for the error `e` that `Recovery` hands to its handler after `panic(v)` all answer exactly what
    `errors.Is(v, t)` answered BEFORE the call, for every non-nil target other than the new error itself (no fuel anywhere) -/
theorem is_through_constructors (h : Heap) (cmp : Val → Bool) (v t : Val) (m recoveryMsg : String) (hd : DeepCauseWF h)
    (hv : top v ≤ h.size) (hn : isNil v = false) (ht0 : t ≠ .nilIface) (ht : t ≠ .ref h.size) :
    (asError v = false → errorsIs (wrap h v).1 cmp (wrap h v).2 t = errorsIs h cmp v t) ∧
    ((∀ id, v ≠ .ref id) → errorsIs (wrapTyped h v).1 cmp (wrapTyped h v).2 t = errorsIs h cmp v t) ∧
    errorsIs (newWithCause h m v).1 cmp (newWithCause h m v).2 t = errorsIs h cmp v t ∧
    errorsIs (recovery h recoveryMsg (.err v) true).1 cmp (.ref h.size) t = errorsIs h cmp v t := by
  have hv0 : v ≠ .nilIface := by intro e; rw [e] at hn; simp [isNil] at hn
  have key : ∀ n : ENode, n.cause = v → errorsIs (h.push n) cmp (.ref h.size) t = errorsIs h cmp v t := by
    intro n hc
    have := errorsIs_push_transparent h cmp n t hd (by rw [hc]; exact hv) (by rw [hc]; exact hv0) ht0 ht
    rw [hc] at this; exact this
  have hnw : ∀ s : String, newWithCause h s v = (h.push { msg := s, hasStack := true, cause := v }, .ref h.size) := by
    intro s; simp [newWithCause, hn]
  refine ⟨?_, ?_, ?_, ?_⟩
  · intro ha
    have hw : wrap h v = (h.push (wrapperNode v), .ref h.size) := by simp [wrap, hn, ha]
    rw [hw]; exact key _ rfl
  · intro hr
    rw [(wrapTyped_reaches_cause h v hn hr).1]; exact key _ rfl
  · rw [hnw m]; exact key _ rfl
  · have hr : (recovery h recoveryMsg (.err v) true).1 = (newWithCause h recoveryMsg v).1 := rfl
    rw [hr, hnw recoveryMsg]; exact key _ rfl

/-! non-vacuity: the target is reached through two constructors in a row, evaluated by the model -/
example : errorsIs (newWithCause (wrap #[] (.plain 0 "p")).1 "m" (.ref 0)).1 (fun _ => true) (.ref 1) (.plain 0 "p") = .found := by
  decide


/-! ## Audit follow-up: `errors.As` with a target of the cause's own type, `%q`, the empty error, what the frame theorems exclude -/

/-- **`errors.As` still reaches the cause — with a target of the CAUSE'S OWN type** (`Model/ErrsWalk.lean` `errorsAs`, op
    `asf` of the stateful area: `errors.As(e, &target)` with `target` of the dynamic type of any value).  `ty` gives the dynamic
    type of a value, `k` is the type of the non-nil error `v` and is not `*errs.Error`: `errors.As` on `Wrap(v)`, `WrapTyped(v)`,
    `NewWithCause(m, v)` and on the error `Recovery` hands to its handler after `panic(v)` finds `v` ITSELF (the stored value is
    the cause, not the wrapper — `as_finds_error` is about `*errs.Error` targets) -/
theorem as_reaches_foreign_cause (h : Heap) (ty : Val → Nat) (k : Nat) (v : Val) (m recoveryMsg : String)
    (hn : isNil v = false) (hty : ty v = k) (hr : ty (.ref h.size) ≠ k) :
    (asError v = false → errorsAs (wrap h v).1 ty k (wrap h v).2 = .found v) ∧
    ((∀ id, v ≠ .ref id) → errorsAs (wrapTyped h v).1 ty k (wrapTyped h v).2 = .found v) ∧
    errorsAs (newWithCause h m v).1 ty k (newWithCause h m v).2 = .found v ∧
    errorsAs (recovery h recoveryMsg (.err v) true).1 ty k (.ref h.size) = .found v := by
  have hv0 : v ≠ .nilIface := by intro e; rw [e] at hn; simp [isNil] at hn
  have key : ∀ n : ENode, n.cause = v → errorsAs (h.push n) ty k (.ref h.size) = .found v :=
    fun n hc => errorsAs_push_cause h ty k n v hc hv0 hty hr
  have hnw : ∀ s : String, newWithCause h s v = (h.push { msg := s, hasStack := true, cause := v }, .ref h.size) := by
    intro s; simp [newWithCause, hn]
  refine ⟨?_, ?_, ?_, ?_⟩
  · intro ha
    have hw : wrap h v = (h.push (wrapperNode v), .ref h.size) := by simp [wrap, hn, ha]
    rw [hw]; exact key _ rfl
  · intro hrr
    rw [(wrapTyped_reaches_cause h v hn hrr).1]; exact key _ rfl
  · rw [hnw m]; exact key _ rfl
  · have hrec : (recovery h recoveryMsg (.err v) true).1 = (newWithCause h recoveryMsg v).1 := rfl
    rw [hrec, hnw recoveryMsg]; exact key _ rfl

/-! the walk goes through foreign wrappers and causes, two levels deep; of an aggregate it sees the FIRST error's cause
    only (observed on the code: corpus `errs.asforeign.ops`, `v7`, `v12`, `v14`); it can fail and it can panic -/
def ty0 : Val → Nat
  | .ref _ => 0 | .typedNil => 0 | .fwrap _ _ _ => 1 | .plain uid _ => 2 + uid | _ => 100
example : errorsAs (newWithCause #[] "m" (.plain 1 "s")).1 ty0 3 (.fwrap 9 "w" (.ref 0)) = .found (.plain 1 "s") := by decide
example : errorsAs (append (new #[] "a").1 (.ref 0) [.plain 1 "s"]).1 ty0 3 (.ref 0) = .none := by decide
example : errorsAs (append #[] (.plain 1 "s") [.ref 0]).1 ty0 3 (.ref 0) = .found (.plain 1 "s") := by decide
example : errorsAs #[] ty0 3 (.fwrap 9 "w" .typedNil) = .panics := by decide

/-- **`%q` renders the message** (`fmtQ`, compared on every `render` line for messages of printable ASCII, newline, tab and
    carriage return): the rendering is the message between double quotes with the five escapes of `strconv.Quote` that can
    occur there, and NOTHING of the message is lost — reading the escapes back (`unquoteChars`) gives the message -/
theorem quoted_reads_back (h : Heap) (id : Nat) (q : String) (hq : fmtQ h id = some q) :
    q.toList = '"' :: quoteChars (message h id).toList ++ ['"'] ∧
    unquoteChars (quoteChars (message h id).toList) = (message h id).toList := by
  refine ⟨?_, unquote_quote _⟩
  unfold fmtQ at hq
  simp only at hq
  split at hq
  · have := Option.some.inj hq
    rw [← this]
    have hq1 : "\"".toList = ['"'] := by decide
    simp only [String.toList_append, String.toList_join, List.flatMap_map, hq1, quoteChars]
    simp
  · cases hq

example : fmtQ #[{ msg := "a\"b\n" }] 0 = some "\"a\\\"b\\n\"" := by decide
example : fmtQ #[{ msg := "é" }] 0 = none := by decide

/-- **OBSERVATION (`&Error{}`)**: an empty non-nil `*Error` has `Count() = 0` while `WrappedErrors()` returns ONE element (its
    loop has no `empty()` test) — the two agree on every result of `Append` (`wrapped_errors_eq`, `count_eq`: chains of `WF`
    heaps never contain an empty cell except as a lone head), not on this value; printed on every line of the stateful
    stream that holds an `empty` variable (`e#k[0|-|z|-.]`: count 0, one element) -/
theorem empty_error_count_vs_wrapped (h : Heap) (id : Nat) (n : ENode) (hn : h[id]? = some n) (he : nodeEmpty n = true) :
    count h id = 0 ∧ (wrappedErrors h id).length = 1 ∧ errorOrNil h (.ref id) = .nilIface := by
  have hnext : n.next = none := by
    simp only [nodeEmpty, Bool.and_eq_true] at he
    simpa using he.2
  have hno : nextOf h id = none := by simp [nextOf, hn, hnext]
  have hch : chain h (fuelOf h) id = [id] := by simp [fuelOf, chain, hno]
  have hem : isEmpty h id = true := by simp [isEmpty, hn, he]
  refine ⟨by simp [count, hch, hem], by simp [wrappedErrors, hch, hn], by simp [errorOrNil, hem]⟩

example : count #[{ msg := "" }] 0 = 0 ∧ (wrappedErrors #[{ msg := "" }] 0).length = 1 := by decide

/-- CONTRAST to `append_only_links` / `history_only_links`.  In the model of the real code those two cannot fail: `setNext`
    is the only write to an existing cell the transcription contains, so they state a property of the transcription (that a
    Go change writing another field of an old cell is noticed rests on the stream re-observing every variable after every
    call).  What they exclude is a SECOND field written on an existing error — the cached `tail` of `ind7-c11-a`: in that
    variant `Append` rewrites the hint of the accumulator's first cell, a field other than `next` of a cell that existed, and
    the analogue of `history_only_links` for the extended cell is false -/
theorem cached_tail_is_a_second_write :
    ∃ (s : CHeap) (id : Nat) (args : List Val), id < s.h.size ∧ (appendC s id args).tl[id]? ≠ s.tl[id]? ∧
      ∀ (i : Nat) (n : ENode), s.h[i]? = some n → ∃ m, (appendC s id args).h[i]? = some m ∧
        n.msg = m.msg ∧ n.cause = m.cause ∧ n.hasStack = m.hasStack ∧ n.wrapped = m.wrapped :=
  ⟨{ h := h0, tl := #[none, some 2, none, none] }, 1, [.plain 0 "p"], by decide, by decide,
    (onlyLinks_appendLoop _ _ _ _ _).2⟩

end C11
