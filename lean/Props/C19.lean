import Lemmas.ExtractFresh
/-! # C19 — archive extraction reproduces the archive inside the destination only

All theorems are about the definitions the model driver `drv_c19` executes (`Ex.tarExtract`, `Ex.zipExtract`,
`Ex.tarOne`, `Ex.zipOne`, `Ex.lexOK`, `Ex.ensureNoSymlinks`, … of `Model/Extract.lean`); every check compares them with
`xio/fs/tar.ExtractWithMask` / `xio/fs/zip.ExtractWithMask` on whole trees.

Which model: the file-system model is *lexical* — a system call on a path looks the path up as written, a symbolic
link is an opaque leaf.  `ensureNoSymlinks_spec`, `extract_wf` and `guard_makes_lexical` say why this is the kernel's
reading at every call the extractors make: the extractors call the guard first, after the guard no component below
the root is a link, and then kernel-style resolution (`Ex.resolve`, which follows links) returns the path itself.
Quantification: every root whose text is a clean absolute path (`GoodPath`, what `filepath.Abs` returns), every
initial file system, every mask, every list of entries (any names, kinds, modes, link targets, payload faults). -/
namespace C19
open Ex

/-- *lexical containment check*: the textual test `HasPrefix(path, root + "/") || (path == root && isDir)` on the
    cleaned join accepts exactly the names that clean to a proper descendant of the root, or to the root itself for
    directory entries (the trailing separator is what excludes a sibling such as `dst-evil`) -/
theorem lexical_check_spec (root : P) (hr : GoodPath root) (name : List Nat) (isDir : Bool) :
    lexOK root (cleanJoin root name) isDir = true ↔
      (root <+: cleanJoin root name ∧ (cleanJoin root name ≠ root ∨ isDir = true)) := by
  rw [lexOK_iff root _ hr (cleanJoin_good root name hr)]
  constructor
  · rintro (⟨c, t, e⟩ | ⟨e, d⟩)
    · refine ⟨⟨c :: t, e.symm⟩, Or.inl ?_⟩
      intro h; rw [h] at e
      have := congrArg List.length e; simp at this
    · exact ⟨by rw [e]; exact List.prefix_refl _, Or.inr d⟩
  · rintro ⟨⟨t, e⟩, h⟩
    cases t with
    | nil => simp at e; rcases h with h | h
             · exact absurd e.symm h
             · exact Or.inr ⟨e.symm, h⟩
    | cons c t => exact Or.inl ⟨c, t, e.symm⟩

/-- the sibling that shares the textual prefix of the destination is refused, the destination's own content accepted -/
example : lexOK [[100,115,116]] [[100,115,116,45,101,118,105,108],[120]] false = false := by decide
example : lexOK [[100,115,116]] [[100,115,116],[120]] false = true := by decide

/-- *containment, nodes* (tar and zip, links included): whatever the archive says, every path that is not at or
    below the destination names the same node after the extraction (stopped by an error or not) as before — nothing
    outside is created, replaced, removed or linked.  Hypothesis: the ancestors of the destination exist as directories
    (otherwise `MkdirAll` creates them, which is the only thing it may do outside). -/
theorem extract_contained (root : P) (hr : GoodPath root) (mask : Nat) (es : List Entry) (fs : FS)
    (hanc : ∀ j, j < root.length → ∃ m, fs.get (root.take j) = some (.dir m))
    (q : P) (hq : ¬ root <+: q) :
    (tarExtract fs root mask es).1.get q = fs.get q ∧ (zipExtract fs root mask es).1.get q = fs.get q :=
  ⟨Sys.outside (extractWith_sys root _ (fun fs e => tarOne_sys root hr fs mask e) fs es) hanc q hq,
   Sys.outside (extractWith_sys root _ (fun fs e => zipOne_sys root hr fs mask e) fs es) hanc q hq⟩

/-- *containment, contents*: the content and mode of every file (inode) that is not linked at or below the destination
    before the extraction is unchanged after it … -/
theorem extract_contained_inodes (root : P) (hr : GoodPath root) (mask : Nat) (es : List Entry) (fs : FS)
    (ino : Nat) (hlt : ino < fs.inodes.size) (hout : ¬ RefsBelow root fs ino) :
    (tarExtract fs root mask es).1.inodes[ino]? = fs.inodes[ino]? ∧
    (zipExtract fs root mask es).1.inodes[ino]? = fs.inodes[ino]? :=
  ⟨(extractWith_sys root _ (fun fs e => tarOne_sys root hr fs mask e) fs es).fr.keep ino hlt hout,
   (extractWith_sys root _ (fun fs e => zipOne_sys root hr fs mask e) fs es).fr.keep ino hlt hout⟩

/-- … and no such outside file becomes hard-linked into the destination: every inode linked at or below the
    destination afterwards was linked there before or is new -/
theorem extract_no_outside_link (root : P) (hr : GoodPath root) (mask : Nat) (es : List Entry) (fs : FS) (ino : Nat) :
    (RefsBelow root (tarExtract fs root mask es).1 ino → RefsBelow root fs ino ∨ fs.inodes.size ≤ ino) ∧
    (RefsBelow root (zipExtract fs root mask es).1 ino → RefsBelow root fs ino ∨ fs.inodes.size ≤ ino) :=
  ⟨(extractWith_sys root _ (fun fs e => tarOne_sys root hr fs mask e) fs es).fr.refs ino,
   (extractWith_sys root _ (fun fs e => zipOne_sys root hr fs mask e) fs es).fr.refs ino⟩

/-- the extractors never replace or remove a node: what exists keeps its type, directory mode and link target -/
theorem extract_monotone (root : P) (hr : GoodPath root) (mask : Nat) (es : List Entry) (fs : FS) (q : P) (n : Nd)
    (h : fs.get q = some n) :
    (tarExtract fs root mask es).1.get q = some n ∧ (zipExtract fs root mask es).1.get q = some n :=
  ⟨(extractWith_sys root _ (fun fs e => tarOne_sys root hr fs mask e) fs es).mono q n h,
   (extractWith_sys root _ (fun fs e => zipOne_sys root hr fs mask e) fs es).mono q n h⟩

/-- *never through a link*: well-formedness (every node's parent is a directory) is preserved — the extractors
    never create anything below a symbolic link or a file -/
theorem extract_wf (root : P) (hr : GoodPath root) (mask : Nat) (es : List Entry) (fs : FS) (hw : WF fs) :
    WF (tarExtract fs root mask es).1 ∧ WF (zipExtract fs root mask es).1 :=
  ⟨(extractWith_sys root _ (fun fs e => tarOne_sys root hr fs mask e) fs es).wf hw,
   (extractWith_sys root _ (fun fs e => zipOne_sys root hr fs mask e) fs es).wf hw⟩

/-- *what the guard establishes*: on a well-formed tree, after `EnsureNoSymlinks(root, p)` succeeds no component of
    `p` strictly below the root is a symbolic link (and the root is not one when `p` is the root) -/
theorem ensureNoSymlinks_spec (fs : FS) (hw : WF fs) (root p : P) (h : ensureNoSymlinks fs root p = true) :
    (∀ j, root.length < j → j ≤ p.length → ∀ t, fs.get (p.take j) ≠ some (.symlink t)) ∧
    (p = root → ∀ t, fs.get root ≠ some (.symlink t)) :=
  ensureNoSymlinks_ok fs hw root p h

/-- *the guard makes the lexical model exact*: if the destination is not below (or itself) a symbolic link and the
    guard succeeds for `p`, kernel-style path resolution — which follows symbolic links, `Ex.resolve` — of `p` is `p` -/
theorem guard_makes_lexical (fs : FS) (hw : WF fs) (root p : P) (hp : root <+: p) (hd : NoDots p)
    (hroot : ∀ j, j ≤ root.length → ∀ t, fs.get (root.take j) ≠ some (.symlink t))
    (h : ensureNoSymlinks fs root p = true) (fuel : Nat) (hf : p.length < fuel) :
    resolve fs fuel [] p = some p :=
  resolve_lexical fs p hd fuel hf (noSymlink_all fs hw root p hp hroot h)

/-- the paths the extractors hand to the guard and the system calls have no `.`/`..`/empty component, so the
    previous theorem applies to them -/
theorem joined_paths_clean (root : P) (name : List Nat) (hr : NoDots root) : NoDots (cleanJoin root name) :=
  cleanJoin_nodots root name hr

/-- *error propagation, one entry*: an entry whose payload cannot be copied in full (stream ends early, checksum
    error, failed write) makes its iteration fail, in both extractors -/
theorem payload_error_one (fs : FS) (root : P) (mask : Nat) (e : Entry) (hs : e.short = true) :
    (e.kind = .reg → (tarOne fs root mask e).2 = false) ∧
    (e.kind ≠ .dir → (zipOne fs root mask e).2 = false) :=
  ⟨tarOne_short fs root mask e hs, zipOne_short fs root mask e hs⟩

/-- *error propagation, archive*: an archive that contains such an entry, or a header the reader rejects, is never
    extracted with a nil error — either an earlier entry already failed or this one does -/
theorem payload_error_propagates (fs : FS) (root : P) (mask : Nat) (es : List Entry) (e : Entry) (he : e ∈ es) :
    ((e.kind = .corrupt ∨ (e.short = true ∧ e.kind = .reg)) → (tarExtract fs root mask es).2 = false) ∧
    ((e.short = true ∧ e.kind ≠ .dir) → (zipExtract fs root mask es).2 = false) := by
  constructor
  · intro h
    refine extractWith_false_of_mem (fun fs e => tarOne fs root mask e) e ?_ es he fs
    intro fs'
    rcases h with h | ⟨h1, h2⟩
    · simp [tarOne, h]
    · exact tarOne_short fs' root mask e h1 h2
  · rintro ⟨h1, h2⟩
    exact extractWith_false_of_mem (fun fs e => zipOne fs root mask e) e
      (fun fs' => zipOne_short fs' root mask e h1 h2) es he fs

/-- the first failing entry stops the extraction: the result is the state that entry left, later entries are not
    looked at -/
theorem first_error_stops (one : FS → Entry → FS × Bool) (fs fs1 : FS) (es1 es2 : List Entry) (e : Entry)
    (h1 : extractWith one fs es1 = (fs1, true)) (h2 : (one fs1 e).2 = false) :
    extractWith one fs (es1 ++ e :: es2) = ((one fs1 e).1, false) :=
  extractWith_stop one fs fs1 es1 es2 e h1 h2

/-- *reproduction, one entry* (tar loop): an iteration that returns no error has put the entry at its cleaned path inside the
    destination: a regular file with exactly the payload (and, when the file is new, the recorded permissions masked),
    a directory, a symbolic link with the recorded target, a hard link sharing the inode of its (in-root) target -/
theorem entry_reproduced (fs : FS) (root : P) (hr : GoodPath root) (hroot : root ≠ []) (mask : Nat) (e : Entry)
    (hio : InoOK fs) (hok : (tarOne fs root mask e).2 = true) : Post root mask e fs (tarOne fs root mask e).1 :=
  tarOne_post fs root hr hroot mask e hio hok

/-- *reproduction, whole archive, semantic condition* (tar loop; any entry order, any type flags, destination
    existing or not): if the extraction returns no error and no regular-file entry found its path already present
    (`FreshRun`: no duplicates, no overwrite through a hard link), then at the end every entry of the archive is
    present as recorded: files with their complete payload and masked permissions, directories, symbolic links with
    their targets, hard links sharing the inode of their target.  `extract_reproduces_distinct` discharges `FreshRun`
    from a syntactic condition, `extract_reproduces` is the exact statement for well-formed archives. -/
theorem extract_reproduces_partial (root : P) (mask : Nat) (es : List Entry) (fs : FS) (hr : GoodPath root)
    (hroot : root ≠ []) (hio : InoOK fs) (hfresh : FreshRun root mask fs es)
    (hok : (tarExtract fs root mask es).2 = true) :
    ∀ e ∈ es, Final root mask e (tarExtract fs root mask es).1 :=
  tar_reproduces root mask hr hroot es fs hio hfresh hok

/-- *the syntactic condition implies the semantic one*: for an archive whose cleaned entry paths are pairwise
    distinct, extracted without error into a destination that is empty or missing, no regular-file entry ever finds
    its path present (files are only created at entry paths) -/
theorem distinct_paths_fresh (root : P) (hr : GoodPath root) (mask : Nat) (es : List Entry) (fs : FS)
    (hempty : ∀ q, root <+: q → q ≠ root → fs.get q = none)
    (hdist : (es.map (fun e => cleanJoin root e.name)).Pairwise (· ≠ ·))
    (hok : (tarExtract fs root mask es).2 = true) : FreshRun root mask fs es := by
  refine freshRun_of_distinct root hr mask es [] fs ?_ (by simpa using List.pairwise_map.mp hdist) hok
  intro q hq ino hg
  rw [hempty q hq.prefix hq.ne] at hg; cases hg

/-- *reproduction, any order* (tar; this is the statement that was kept open as `extract_reproduces_Statement`): for
    an archive whose cleaned entry paths are pairwise distinct — entries in any order, parents after children, skipped
    type flags, names with `..` that stay inside — extracted without error into an empty or missing destination, every
    entry is present at the end as recorded (`Final`; a directory entry that comes after its children keeps the mode
    `MkdirAll` gave it, which is why `Final` does not fix directory modes — `extract_reproduces` does, for archives
    that list parents first) -/
theorem extract_reproduces_distinct (root : P) (mask : Nat) (es : List Entry) (fs : FS) (hr : GoodPath root)
    (hroot : root ≠ []) (hio : InoOK fs) (hempty : ∀ q, root <+: q → q ≠ root → fs.get q = none)
    (hdist : (es.map (fun e => cleanJoin root e.name)).Pairwise (· ≠ ·))
    (hok : (tarExtract fs root mask es).2 = true) :
    ∀ e ∈ es, Final root mask e (tarExtract fs root mask es).1 :=
  tar_reproduces root mask hr hroot es fs hio (distinct_paths_fresh root hr mask es fs hempty hdist hok) hok

/-- *reproduction, exactly* (tar — first clause of the property).  Hypotheses, all syntactic (about the archive and
    the text of the root) except the state of the destination:
    * the destination is an existing directory with nothing below it, in a tree where every node's parent is a
      directory (`WF`; so the ancestors of the destination are real directories) and every file has an inode;
    * `hentry`: every entry is a regular file, directory, symbolic link or hard link, its name cleans to a proper
      descendant of the root, its payload is complete, a symbolic link's target is not empty;
    * `horder`, for an earlier entry `a` and a later entry `b`: `b`'s path is not `a`'s path nor an ancestor of it (no
      duplicates; parents that are listed come first, all others are implied), and `b` is beneath `a` only if `a` is
      a directory entry (nothing beneath a link or file entry);
    * `hlinks`: a hard link's target cleans to the path of an earlier regular-file or hard-link entry.
    Conclusion: the run returns no error, and below the destination the final tree is exactly the archive's tree —
    every directory entry with `perm mode & mask`, every regular file with its complete payload and `perm mode & mask`,
    every symbolic link with its target verbatim, every hard link on the inode of its target; a path strictly below
    the destination exists *iff* it is the path of an entry or an ancestor of one (nothing else appears); a parent
    that is not itself an entry is a directory with the mode `MkdirAll` gave it when the first entry beneath it was
    extracted (`0o755 & mask`, or that entry's `perm mode & mask` if it is a directory entry: `os.MkdirAll(path, mode)`
    uses one mode for the whole chain); different regular-file entries are different inodes (the only sharing is the
    recorded one); the destination directory itself is unchanged. -/
theorem extract_reproduces (root : P) (hr : GoodPath root) (mask : Nat) (es : List Entry) (fs : FS)
    (hw : WF fs) (hio : InoOK fs) (hdst : ∃ m, fs.get root = some (.dir m))
    (hempty : ∀ c t, fs.get (root ++ c :: t) = none)
    (hentry : ∀ e ∈ es, (∃ c t, cleanJoin root e.name = root ++ c :: t) ∧
      ((e.kind = .reg ∨ e.kind = .dir ∨ e.kind = .symlink ∨ e.kind = .link) ∧ e.short = false ∧
       (e.kind = .symlink → e.link ≠ [])))
    (horder : es.Pairwise (fun a b => ¬ cleanJoin root b.name <+: cleanJoin root a.name ∧
      (cleanJoin root a.name <+: cleanJoin root b.name → a.kind = .dir)))
    (hlinks : ∀ l1 e l2, es = l1 ++ e :: l2 → e.kind = .link →
      ∃ t ∈ l1, (t.kind = .reg ∨ t.kind = .link) ∧ cleanJoin root t.name = cleanJoin root e.link) :
    (tarExtract fs root mask es).2 = true ∧
    (∀ e ∈ es, e.kind = .dir →
      (tarExtract fs root mask es).1.get (cleanJoin root e.name) = some (.dir (perm e.mode &&& mask))) ∧
    (∀ e ∈ es, e.kind = .reg → ∃ ino nd,
      (tarExtract fs root mask es).1.get (cleanJoin root e.name) = some (.file ino) ∧
      (tarExtract fs root mask es).1.inodes[ino]? = some nd ∧ nd.data = e.data ∧ nd.mode = perm e.mode &&& mask) ∧
    (∀ e ∈ es, e.kind = .symlink →
      (tarExtract fs root mask es).1.get (cleanJoin root e.name) = some (.symlink e.link)) ∧
    (∀ e ∈ es, e.kind = .link → ∃ ino,
      (tarExtract fs root mask es).1.get (cleanJoin root e.name) = some (.file ino) ∧
      (tarExtract fs root mask es).1.get (cleanJoin root e.link) = some (.file ino)) ∧
    (∀ c t, (tarExtract fs root mask es).1.get (root ++ c :: t) ≠ none ↔
      ∃ e ∈ es, (root ++ c :: t) <+: cleanJoin root e.name) ∧
    (∀ l1 e l2, es = l1 ++ e :: l2 → ∀ c t, (root ++ c :: t) <+: cleanJoin root e.name →
      root ++ c :: t ≠ cleanJoin root e.name → (∀ e' ∈ l1, ¬ (root ++ c :: t) <+: cleanJoin root e'.name) →
      (tarExtract fs root mask es).1.get (root ++ c :: t) =
        some (.dir ((if e.kind = .dir then perm e.mode else 0o755) &&& mask))) ∧
    es.Pairwise (fun a b => a.kind = .reg → b.kind = .reg →
      (tarExtract fs root mask es).1.get (cleanJoin root a.name) ≠
        (tarExtract fs root mask es).1.get (cleanJoin root b.name)) ∧
    (tarExtract fs root mask es).1.get root = fs.get root := by
  obtain ⟨hok, hex⟩ := tar_exact root hr mask es fs ⟨hw, hio, hdst, fun q ⟨c, t, e⟩ => e ▸ hempty c t⟩
    ⟨hentry, horder, hlinks⟩
  obtain ⟨m0, hm0⟩ := hdst
  exact reproduced_spelled root mask es _ hok hex
    (by rw [hm0]; exact (extract_monotone root hr mask es fs root _ hm0).1)

/-- *reproduction, exactly* (zip).  The entries carry the kind zip `ExtractWithMask` gives them (`zipKind`: symbolic
    link if the mode has the symlink bit — the payload is the target —, else directory if the mode has the directory
    bit or the name ends in a slash, else regular file; `zipKind_total` says these are the only three).  Same
    hypotheses and conclusion as `extract_reproduces`, without hard links (the zip extractor has none). -/
theorem extract_reproduces_zip (root : P) (hr : GoodPath root) (mask : Nat) (es : List Entry) (fs : FS)
    (hw : WF fs) (hio : InoOK fs) (hdst : ∃ m, fs.get root = some (.dir m))
    (hempty : ∀ c t, fs.get (root ++ c :: t) = none)
    (hentry : ∀ e ∈ es, (∃ c t, cleanJoin root e.name = root ++ c :: t) ∧
      ((e.kind = .reg ∨ e.kind = .dir ∨ e.kind = .symlink) ∧ e.short = false ∧ (e.kind = .symlink → e.link ≠ [])))
    (horder : es.Pairwise (fun a b => ¬ cleanJoin root b.name <+: cleanJoin root a.name ∧
      (cleanJoin root a.name <+: cleanJoin root b.name → a.kind = .dir))) :
    (zipExtract fs root mask es).2 = true ∧
    (∀ e ∈ es, e.kind = .dir →
      (zipExtract fs root mask es).1.get (cleanJoin root e.name) = some (.dir (perm e.mode &&& mask))) ∧
    (∀ e ∈ es, e.kind = .reg → ∃ ino nd,
      (zipExtract fs root mask es).1.get (cleanJoin root e.name) = some (.file ino) ∧
      (zipExtract fs root mask es).1.inodes[ino]? = some nd ∧ nd.data = e.data ∧ nd.mode = perm e.mode &&& mask) ∧
    (∀ e ∈ es, e.kind = .symlink →
      (zipExtract fs root mask es).1.get (cleanJoin root e.name) = some (.symlink e.link)) ∧
    (∀ e ∈ es, e.kind = .link → ∃ ino,
      (zipExtract fs root mask es).1.get (cleanJoin root e.name) = some (.file ino) ∧
      (zipExtract fs root mask es).1.get (cleanJoin root e.link) = some (.file ino)) ∧
    (∀ c t, (zipExtract fs root mask es).1.get (root ++ c :: t) ≠ none ↔
      ∃ e ∈ es, (root ++ c :: t) <+: cleanJoin root e.name) ∧
    (∀ l1 e l2, es = l1 ++ e :: l2 → ∀ c t, (root ++ c :: t) <+: cleanJoin root e.name →
      root ++ c :: t ≠ cleanJoin root e.name → (∀ e' ∈ l1, ¬ (root ++ c :: t) <+: cleanJoin root e'.name) →
      (zipExtract fs root mask es).1.get (root ++ c :: t) =
        some (.dir ((if e.kind = .dir then perm e.mode else 0o755) &&& mask))) ∧
    es.Pairwise (fun a b => a.kind = .reg → b.kind = .reg →
      (zipExtract fs root mask es).1.get (cleanJoin root a.name) ≠
        (zipExtract fs root mask es).1.get (cleanJoin root b.name)) ∧
    (zipExtract fs root mask es).1.get root = fs.get root := by
  obtain ⟨hok, hex⟩ := zip_exact root hr mask es fs ⟨hw, hio, hdst, fun q ⟨c, t, e⟩ => e ▸ hempty c t⟩
    hentry horder
  obtain ⟨m0, hm0⟩ := hdst
  exact reproduced_spelled root mask es _ hok hex
    (by rw [hm0]; exact (extract_monotone root hr mask es fs root _ hm0).2)

/-- the classification of zip entries yields only the three kinds `extract_reproduces_zip` speaks about -/
theorem zipKind_total (symBit dirBit : Bool) (name : List Nat) :
    zipKind symBit dirBit name = .reg ∨ zipKind symBit dirBit name = .dir ∨ zipKind symBit dirBit name = .symlink :=
  zipKind_cases symBit dirBit name

/-- *when an error is returned* (both loops): the run returns an error iff some entry's iteration fails on the tree
    its predecessors left — the entries before it were all extracted, none after it is looked at -/
theorem extract_error_iff (root : P) (mask : Nat) (es : List Entry) (fs : FS) :
    ((tarExtract fs root mask es).2 = false ↔ ∃ es1 e es2 fs1, es = es1 ++ e :: es2 ∧
      tarExtract fs root mask es1 = (fs1, true) ∧ (tarOne fs1 root mask e).2 = false) ∧
    ((zipExtract fs root mask es).2 = false ↔ ∃ es1 e es2 fs1, es = es1 ++ e :: es2 ∧
      zipExtract fs root mask es1 = (fs1, true) ∧ (zipOne fs1 root mask e).2 = false) :=
  ⟨extractWith_ok_iff _ es fs, extractWith_ok_iff _ es fs⟩

/-! ### the hypotheses are satisfiable, the theorems are not vacuous -/

/-- `/` and `/d`; the destination is `/d` -/
def demoFs : FS := { nodes := [([], .dir 0o755), ([[100]], .dir 0o755)] }
def demoRoot : P := [[100]]

example : GoodPath demoRoot := by
  intro c hc; simp [demoRoot] at hc; subst hc; exact ⟨by decide, by decide⟩
example : NoDots demoRoot := by
  intro c hc; simp [demoRoot] at hc; subst hc; exact ⟨by decide, by decide⟩
example : InoOK demoFs := by
  intro p ino h
  unfold FS.get demoFs at h
  simp only [List.find?_cons, List.find?_nil] at h
  split at h
  · simp at h
  · split at h <;> simp at h
example : WF demoFs := by
  intro p hp hl
  unfold FS.get demoFs at hp
  simp only [List.find?_cons, List.find?_nil] at hp
  split at hp
  · rename_i h; simp at h; rw [h] at hl; simp at hl
  · split at hp
    · rename_i h; simp at h; rw [← h] at hl; simp at hl
    · simp at hp
example : ∀ j, j < demoRoot.length → ∃ m, demoFs.get (demoRoot.take j) = some (.dir m) := by
  intro j hj
  have : j = 0 := by simp [demoRoot] at hj; omega
  subst this; exact ⟨0o755, by decide⟩

/-- the link-then-write-through attack (`l -> /e`, then `l/x`) is refused by both extractors -/
example : (tarExtract demoFs demoRoot 0o777
    [{ kind := .symlink, name := [108], link := [47, 101] }, { kind := .reg, name := [108, 47, 120], data := [1] }]).2 = false := by
  decide
example : (zipExtract demoFs demoRoot 0o777
    [{ kind := .symlink, name := [108], link := [47, 101] }, { kind := .reg, name := [108, 47, 120], data := [1] }]).2 = false := by
  decide
/-- a benign archive (file `a`, hard link `h -> a`, directory `s/`) is extracted without error and is conflict-free -/
example : (tarExtract demoFs demoRoot 0o755
    [{ kind := .reg, name := [97], data := [1, 2] }, { kind := .link, name := [104], link := [97] },
     { kind := .dir, name := [115, 47], mode := 0o700 }]).2 = true := by decide
example : FreshRun demoRoot 0o755 demoFs
    [{ kind := .reg, name := [97], data := [1, 2] }, { kind := .link, name := [104], link := [97] }] := by
  simp only [FreshRun]
  decide

end C19
