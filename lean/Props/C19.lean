import Lemmas.ExtractREq
import Lemmas.ExtractSpelled
import Lemmas.ExtractVariants
/-! # C19 — archive extraction reproduces the archive inside the destination only

Two models.  The RESOLVING one (`Model/ExtractR.lean`: `Ex.walk` follows symbolic links as the kernel does;
`Ex.tarExtractR`, `Ex.zipExtractR`) is what the model driver `drv_c19` executes and what every check compares with
`xio/fs/tar` / `xio/fs/zip` on whole trees.  The LEXICAL one (`Model/Extract.lean`: a system call looks the path up as
written, a symbolic link is an opaque leaf; `Ex.tarExtract`, `Ex.zipExtract`) is the one most theorems below are stated
about; it is a proof device, linked to the executed model by `resolving_is_lexical` (equal whenever the guard is called
and the destination is not below or itself a link).
The driver executes the RESOLVING extractors `Ex.tarExtractR` / `Ex.zipExtractR` (`Model/ExtractR.lean`: the kernel
follows links); `resolving_is_lexical` proves them equal to the lexical ones on every well-formed tree whose destination
is not below a link, `extract_contained_resolving` & co. are the containment statements about them, and
`guardless_escapes` shows that they need the guard.  Not modelled: permission bits (privileged process), `NAME_MAX` /
`PATH_MAX` / NUL in names, node types other than directory / regular file / symbolic link (a PRE-EXISTING fifo, socket or
device at an entry path: `OpenFile(O_WRONLY)` on a fifo without a reader blocks for ever — "returns an error" would be a
hang), a destination below a LINKED ANCESTOR (run against the code, `dstlinkm` `dp:2…4`, no theorem: the real code and
the resolving model extract into the physical place), a destination `/` (Go builds the prefix `//` and refuses every entry; all theorems assume
`root ≠ []`), and the zip root test `fi.IsDir()` for a symlink-bit entry named `./` (the model refuses it at the
containment check, Go passes the check and fails at `Symlink("", root)` — an error without effect in both).
Quantification: every root whose text is a clean absolute path (`GoodPath`, what `filepath.Abs` returns), every
initial file system, every mask, every list of entries (any names, kinds, modes, link targets, payload faults).

The three clauses of the property:
* *creates exactly what the archive records* — `extract_reproduces` (tar), `extract_reproduces_zip` (zip): well-formed
  archive, empty or missing destination ⇒ no error and the tree below the destination is exactly the archive's tree;
  `extract_reproduces_distinct(_zip)`, `extract_reproduces_partial`, `entry_reproduced`: weaker conclusions for more
  archives (any order; any archive under a semantic condition; one entry); `extract_nothing_else`: for every
  archive, nothing but entry paths and their ancestors is ever added;
* *returns an error if an entry cannot be written in full* — `payload_error_one`, `payload_error_propagates`,
  `first_error_stops`, `extract_error_iff`, `tarOne_error_iff`, `zipOne_error_iff`, `syscall_error_iff`;
* *nothing outside, never through a link* — `lexical_check_spec`, `extract_contained`, `extract_contained_inodes`,
  `extract_no_outside_link`, `extract_monotone`, `extract_wf`, `ensureNoSymlinks_spec`, `guard_makes_lexical`.

The destination as the caller spells it (`filepath.Abs`, the first statement of both `ExtractWithMask`, and its error
branch) is inside the executed model (`Ex.tarExtractWithMaskFrom` / `zipExtractWithMaskFrom`): `absPath_clean` discharges
the path hypotheses `GoodPath` / `NoDots` for EVERY spelling, `gone_cwd`, `spelled_is_lexical`,
`extract_contained_spelled`, `extract_reproduces_spelled` restate containment and reproduction about the executed
definitions with hypotheses about the tree only; `payload_error_resolving` is the error clause about the executed loops
with no hypothesis at all (any tree, linked destinations included).  CONTRAST theorems — the loop bodies with one
mechanism switched off (`Ex.tarOneV`, anchored to the executed bodies by `variant_is_code`) violate the property on a
concrete archive the code refuses: `guardless_escapes` (the guard), `unchecked_name_escapes` (lexical test),
`prefix_without_separator_escapes` (the separator of the prefix), `unchecked_linkname_escapes` (hard-link target test),
`ignored_copy_error_is_silent` (returning the copy / close error), `remembered_parent_escapes` (walking every entry path
from the root every time: a loop that remembers walked parents escapes after a skipped-kind entry).
The copy step of `extractFile` is in the executed model as system calls — `OpenFile`, the `write`s of `io.Copy`, the
deferred `Close` — with destination-side faults (`Ex.tarOneF` / `zipOneF`, `Ex.Faults`): `copy_step_is_syscalls`,
`copy_step_spec`, `write_close_fault_is_error` (a failing `write(2)` or `close(2)` is an error, no hypothesis),
`dropped_close_result_is_silent` (contrast).  Of the error-clause theorems `extract_error_iff`, `tarOne_error_iff`,
`zipOne_error_iff` are bookkeeping (marked so); the content is `step_error_tree_iff`, `syscall_error_iff`,
`guard_error_iff`, `payload_error_resolving`, `write_close_fault_is_error`. -/
namespace C19
open Ex

/-- *lexical containment check*: the textual test `HasPrefix(path, root + "/") || (path == root && isDir)` on the
    cleaned join accepts exactly the names that clean to a proper descendant of the root, or to the root itself for
    directory entries (the trailing separator is what excludes a sibling such as `dst-evil`) -/
theorem lexical_check_spec (root : P) (hr : GoodPath root) (name : List Nat) (isDir : Bool) :
    lexOK root (cleanJoin root name) isDir = true ↔
      (root <+: cleanJoin root name ∧ (cleanJoin root name ≠ root ∨ isDir = true)) := by
  rw [lexOK_iff root _ hr (cleanJoin_good root name hr)]
  constructor
  · rintro (⟨c, t, e⟩ | ⟨e, d⟩)
    · refine ⟨⟨c :: t, e.symm⟩, Or.inl ?_⟩
      intro h; rw [h] at e
      have := congrArg List.length e; simp at this
    · exact ⟨by rw [e]; exact List.prefix_refl _, Or.inr d⟩
  · rintro ⟨⟨t, e⟩, h⟩
    cases t with
    | nil => simp at e; rcases h with h | h
             · exact absurd e.symm h
             · exact Or.inr ⟨e.symm, h⟩
    | cons c t => exact Or.inl ⟨c, t, e.symm⟩

/-- the sibling that shares the textual prefix of the destination is refused, the destination's own content accepted -/
example : lexOK [[100,115,116]] [[100,115,116,45,101,118,105,108],[120]] false = false := by decide
example : lexOK [[100,115,116]] [[100,115,116],[120]] false = true := by decide

/-- *containment, nodes — lexical model* (tar and zip): whatever the archive says, every path that is not at or
    below the destination names the same node after the extraction (stopped by an error or not) as before — nothing
    outside is created, replaced, removed or linked.  In the lexical model a symbolic link is an opaque leaf, so this
    statement covers `..`, absolute names and sibling prefixes, but says NOTHING about writing through links (it holds
    of the guard-less loop as well); the statement about the file system that follows links is
    `extract_contained_resolving`, which uses this one through `resolving_is_lexical` and does need the guard
    (`guardless_escapes`).  Hypothesis: the ancestors of the destination exist as directories
    (otherwise `MkdirAll` creates them, which is the only thing it may do outside). -/
theorem extract_contained (root : P) (hr : GoodPath root) (mask : Nat) (es : List Entry) (fs : FS)
    (hanc : ∀ j, j < root.length → ∃ m, fs.get (root.take j) = some (.dir m))
    (q : P) (hq : ¬ root <+: q) :
    (tarExtract fs root mask es).1.get q = fs.get q ∧ (zipExtract fs root mask es).1.get q = fs.get q :=
  ⟨Sys.outside (extractWith_sys root _ (fun fs e => tarOne_sys root hr fs mask e) fs es) hanc q hq,
   Sys.outside (extractWith_sys root _ (fun fs e => zipOne_sys root hr fs mask e) fs es) hanc q hq⟩

/-- *containment, contents — lexical model* (see `extract_contained_inodes_resolving` for the file system that follows
    links): the content and mode of every file (inode) that is not linked at or below the destination before the
    extraction is unchanged after it … -/
theorem extract_contained_inodes (root : P) (hr : GoodPath root) (mask : Nat) (es : List Entry) (fs : FS)
    (ino : Nat) (hlt : ino < fs.inodes.size) (hout : ¬ RefsBelow root fs ino) :
    (tarExtract fs root mask es).1.inodes[ino]? = fs.inodes[ino]? ∧
    (zipExtract fs root mask es).1.inodes[ino]? = fs.inodes[ino]? :=
  ⟨(extractWith_sys root _ (fun fs e => tarOne_sys root hr fs mask e) fs es).fr.keep ino hlt hout,
   (extractWith_sys root _ (fun fs e => zipOne_sys root hr fs mask e) fs es).fr.keep ino hlt hout⟩

/-- … and no such outside file becomes hard-linked into the destination: every inode linked at or below the
    destination afterwards was linked there before or is new -/
theorem extract_no_outside_link (root : P) (hr : GoodPath root) (mask : Nat) (es : List Entry) (fs : FS) (ino : Nat) :
    (RefsBelow root (tarExtract fs root mask es).1 ino → RefsBelow root fs ino ∨ fs.inodes.size ≤ ino) ∧
    (RefsBelow root (zipExtract fs root mask es).1 ino → RefsBelow root fs ino ∨ fs.inodes.size ≤ ino) :=
  ⟨(extractWith_sys root _ (fun fs e => tarOne_sys root hr fs mask e) fs es).fr.refs ino,
   (extractWith_sys root _ (fun fs e => zipOne_sys root hr fs mask e) fs es).fr.refs ino⟩

/-- the extractors never replace or remove a node: what exists keeps its type, directory mode and link target -/
theorem extract_monotone (root : P) (hr : GoodPath root) (mask : Nat) (es : List Entry) (fs : FS) (q : P) (n : Nd)
    (h : fs.get q = some n) :
    (tarExtract fs root mask es).1.get q = some n ∧ (zipExtract fs root mask es).1.get q = some n :=
  ⟨(extractWith_sys root _ (fun fs e => tarOne_sys root hr fs mask e) fs es).mono q n h,
   (extractWith_sys root _ (fun fs e => zipOne_sys root hr fs mask e) fs es).mono q n h⟩

/-- *never through a link*: well-formedness (every node's parent is a directory) is preserved — the extractors
    never create anything below a symbolic link or a file -/
theorem extract_wf (root : P) (hr : GoodPath root) (mask : Nat) (es : List Entry) (fs : FS) (hw : WF fs) :
    WF (tarExtract fs root mask es).1 ∧ WF (zipExtract fs root mask es).1 :=
  ⟨(extractWith_sys root _ (fun fs e => tarOne_sys root hr fs mask e) fs es).wf hw,
   (extractWith_sys root _ (fun fs e => zipOne_sys root hr fs mask e) fs es).wf hw⟩

/-- *what the guard establishes*: on a well-formed tree, after `EnsureNoSymlinks(root, p)` succeeds no component of
    `p` strictly below the root is a symbolic link (and the root is not one when `p` is the root) -/
theorem ensureNoSymlinks_spec (fs : FS) (hw : WF fs) (root p : P) (h : ensureNoSymlinks fs root p = true) :
    (∀ j, root.length < j → j ≤ p.length → ∀ t, fs.get (p.take j) ≠ some (.symlink t)) ∧
    (p = root → ∀ t, fs.get root ≠ some (.symlink t)) :=
  ensureNoSymlinks_ok fs hw root p h

/-- *the guard makes the lexical model exact*: if the destination is not below (or itself) a symbolic link and the
    guard succeeds for `p`, kernel-style path resolution — which follows symbolic links, `Ex.resolve` — of `p` is `p` -/
theorem guard_makes_lexical (fs : FS) (hw : WF fs) (root p : P) (hp : root <+: p) (hd : NoDots p)
    (hroot : ∀ j, j ≤ root.length → ∀ t, fs.get (root.take j) ≠ some (.symlink t))
    (h : ensureNoSymlinks fs root p = true) (fuel : Nat) (hf : p.length < fuel) :
    resolve fs fuel [] p = some p :=
  resolve_lexical fs p hd fuel hf (noSymlink_all fs hw root p hp hroot h)

/-- the paths the extractors hand to the guard and the system calls have no `.`/`..`/empty component, so the
    previous theorem applies to them -/
theorem joined_paths_clean (root : P) (name : List Nat) (hr : NoDots root) : NoDots (cleanJoin root name) :=
  cleanJoin_nodots root name hr

/-- *error propagation, one entry*: an entry whose payload cannot be copied in full (stream ends early, checksum
    error, failed write) makes its iteration fail, in both extractors -/
theorem payload_error_one (fs : FS) (root : P) (mask : Nat) (e : Entry) (hs : e.short = true) :
    (e.kind = .reg → (tarOne fs root mask e).2 = false) ∧
    (e.kind ≠ .dir → (zipOne fs root mask e).2 = false) :=
  ⟨tarOne_short fs root mask e hs, zipOne_short fs root mask e hs⟩

/-- *error propagation, archive*: an archive that contains such an entry, or a header the reader rejects, is never
    extracted with a nil error — either an earlier entry already failed or this one does -/
theorem payload_error_propagates (fs : FS) (root : P) (mask : Nat) (es : List Entry) (e : Entry) (he : e ∈ es) :
    ((e.kind = .corrupt ∨ (e.short = true ∧ e.kind = .reg)) → (tarExtract fs root mask es).2 = false) ∧
    ((e.short = true ∧ e.kind ≠ .dir) → (zipExtract fs root mask es).2 = false) := by
  constructor
  · intro h
    refine extractWith_false_of_mem (fun fs e => tarOne fs root mask e) e ?_ es he fs
    intro fs'
    rcases h with h | ⟨h1, h2⟩
    · simp [tarOne, h]
    · exact tarOne_short fs' root mask e h1 h2
  · rintro ⟨h1, h2⟩
    exact extractWith_false_of_mem (fun fs e => zipOne fs root mask e) e
      (fun fs' => zipOne_short fs' root mask e h1 h2) es he fs

/-- the first failing entry stops the extraction: the result is the state that entry left, later entries are not
    looked at -/
theorem first_error_stops (one : FS → Entry → FS × Bool) (fs fs1 : FS) (es1 es2 : List Entry) (e : Entry)
    (h1 : extractWith one fs es1 = (fs1, true)) (h2 : (one fs1 e).2 = false) :
    extractWith one fs (es1 ++ e :: es2) = ((one fs1 e).1, false) :=
  extractWith_stop one fs fs1 es1 es2 e h1 h2

/-- *reproduction, one entry* (tar loop): an iteration that returns no error has put the entry at its cleaned path inside the
    destination: a regular file with exactly the payload (and, when the file is new, the recorded permissions masked),
    a directory, a symbolic link with the recorded target, a hard link sharing the inode of its (in-root) target -/
theorem entry_reproduced (fs : FS) (root : P) (hr : GoodPath root) (hroot : root ≠ []) (mask : Nat) (e : Entry)
    (hio : InoOK fs) (hok : (tarOne fs root mask e).2 = true) : Post root mask e fs (tarOne fs root mask e).1 :=
  tarOne_post fs root hr hroot mask e hio hok

/-- *reproduction, whole archive, semantic condition* (tar loop; any entry order, any type flags, destination
    existing or not): if the extraction returns no error and no regular-file entry found its path already present
    (`FreshRun`: no duplicates, no overwrite through a hard link), then at the end every entry of the archive is
    present as recorded: files with their complete payload and masked permissions, directories, symbolic links with
    their targets, hard links sharing the inode of their target.  `extract_reproduces_distinct` discharges `FreshRun`
    from a syntactic condition, `extract_reproduces` is the exact statement for well-formed archives. -/
theorem extract_reproduces_partial (root : P) (mask : Nat) (es : List Entry) (fs : FS) (hr : GoodPath root)
    (hroot : root ≠ []) (hio : InoOK fs) (hfresh : FreshRun root mask fs es)
    (hok : (tarExtract fs root mask es).2 = true) :
    ∀ e ∈ es, Final root mask e (tarExtract fs root mask es).1 :=
  tar_reproduces root mask hr hroot es fs hio hfresh hok

/-- *the syntactic condition implies the semantic one*: for an archive whose cleaned entry paths are pairwise
    distinct, extracted without error into a destination that is empty or missing, no regular-file entry ever finds
    its path present (files are only created at entry paths) -/
theorem distinct_paths_fresh (root : P) (hr : GoodPath root) (mask : Nat) (es : List Entry) (fs : FS)
    (hempty : ∀ q, root <+: q → q ≠ root → fs.get q = none)
    (hdist : (es.map (fun e => cleanJoin root e.name)).Pairwise (· ≠ ·))
    (hok : (tarExtract fs root mask es).2 = true) : FreshRun root mask fs es := by
  refine freshRun_of_distinct root hr mask es [] fs ?_ (by simpa using List.pairwise_map.mp hdist) hok
  intro q hq ino hg
  rw [hempty q hq.prefix hq.ne] at hg; cases hg

/-- *reproduction, any order* (tar; this is the statement that was kept open as `extract_reproduces_Statement`): for
    an archive whose cleaned entry paths are pairwise distinct — entries in any order, parents after children, skipped
    type flags, names with `..` that stay inside — extracted without error into an empty or missing destination, every
    entry is present at the end as recorded (`Final`; a directory entry that comes after its children keeps the mode
    `MkdirAll` gave it, which is why `Final` does not fix directory modes — `extract_reproduces` does, for archives
    that list parents first) -/
theorem extract_reproduces_distinct (root : P) (mask : Nat) (es : List Entry) (fs : FS) (hr : GoodPath root)
    (hroot : root ≠ []) (hio : InoOK fs) (hempty : ∀ q, root <+: q → q ≠ root → fs.get q = none)
    (hdist : (es.map (fun e => cleanJoin root e.name)).Pairwise (· ≠ ·))
    (hok : (tarExtract fs root mask es).2 = true) :
    ∀ e ∈ es, Final root mask e (tarExtract fs root mask es).1 :=
  tar_reproduces root mask hr hroot es fs hio (distinct_paths_fresh root hr mask es fs hempty hdist hok) hok

/-- *reproduction, exactly* (tar — first clause of the property).  **Privileged process**: the model has no
    permission checks (the correspondence run has `CAP_DAC_OVERRIDE`), so "no error" is claimed for a process whose
    calls are never refused for lack of permission — for an ordinary user it needs in addition that every directory
    that receives a child later has owner write and search permission after masking (archive `[ro/ 0555, ro/f]` fails
    with `EACCES` for uid 65534), and that the mask keeps them for implied parents.
    Hypotheses, all syntactic (about the archive and the text of the root) except the state of the destination:
    * the destination is an existing directory or does not exist yet, nothing exists below it, every ancestor of it
      that exists is a real directory (`hanc`), in a tree where every node's parent is a directory (`WF`) and every
      file has an inode;
    * `hentry`: every entry is a regular file, directory, symbolic link or hard link, its name cleans to a proper
      descendant of the root, its payload is complete, a symbolic link's target is not empty;
    * `horder`, for an earlier entry `a` and a later entry `b`: `b`'s path is not `a`'s path nor an ancestor of it (no
      duplicates; parents that are listed come first, all others are implied), and `b` is beneath `a` only if `a` is
      a directory entry (nothing beneath a link or file entry);
    * `hlinks`: a hard link's target cleans to the path of an earlier regular-file or hard-link entry.
    Conclusion: the run returns no error, and below the destination the final tree is exactly the archive's tree —
    every directory entry with `perm mode & mask`, every regular file with its complete payload and `perm mode & mask`,
    every symbolic link with its target verbatim, every hard link on the inode of its target; a path strictly below
    the destination exists *iff* it is the path of an entry or an ancestor of one (nothing else appears); a parent
    that is not itself an entry is a directory with the mode `MkdirAll` gave it when the first entry beneath it was
    extracted (`0o755 & mask`, or that entry's `perm mode & mask` if it is a directory entry: `os.MkdirAll(path, mode)`
    uses one mode for the whole chain); different regular-file entries are different inodes (the only sharing is the
    recorded one); the destination is a directory afterwards (unless the archive is empty), unchanged if it existed
    (if it did not, `MkdirAll` created it — and its missing ancestors, the only effect outside, see
    `extract_contained` — with the mode of the first call). -/
theorem extract_reproduces (root : P) (hr : GoodPath root) (mask : Nat) (es : List Entry) (fs : FS)
    (hw : WF fs) (hio : InoOK fs) (hdst : fs.get root = none ∨ ∃ m, fs.get root = some (.dir m))
    (hanc : ∀ j, 1 ≤ j → j < root.length → fs.get (root.take j) = none ∨ ∃ m, fs.get (root.take j) = some (.dir m))
    (hempty : ∀ c t, fs.get (root ++ c :: t) = none)
    (hentry : ∀ e ∈ es, (∃ c t, cleanJoin root e.name = root ++ c :: t) ∧
      ((e.kind = .reg ∨ e.kind = .dir ∨ e.kind = .symlink ∨ e.kind = .link) ∧ e.short = false ∧
       (e.kind = .symlink → e.link ≠ [])))
    (horder : es.Pairwise (fun a b => ¬ cleanJoin root b.name <+: cleanJoin root a.name ∧
      (cleanJoin root a.name <+: cleanJoin root b.name → a.kind = .dir)))
    (hlinks : ∀ l1 e l2, es = l1 ++ e :: l2 → e.kind = .link →
      ∃ t ∈ l1, (t.kind = .reg ∨ t.kind = .link) ∧ cleanJoin root t.name = cleanJoin root e.link) :
    (tarExtract fs root mask es).2 = true ∧
    (∀ e ∈ es, e.kind = .dir →
      (tarExtract fs root mask es).1.get (cleanJoin root e.name) = some (.dir (perm e.mode &&& mask))) ∧
    (∀ e ∈ es, e.kind = .reg → ∃ ino nd,
      (tarExtract fs root mask es).1.get (cleanJoin root e.name) = some (.file ino) ∧
      (tarExtract fs root mask es).1.inodes[ino]? = some nd ∧ nd.data = e.data ∧ nd.mode = perm e.mode &&& mask) ∧
    (∀ e ∈ es, e.kind = .symlink →
      (tarExtract fs root mask es).1.get (cleanJoin root e.name) = some (.symlink e.link)) ∧
    (∀ e ∈ es, e.kind = .link → ∃ ino,
      (tarExtract fs root mask es).1.get (cleanJoin root e.name) = some (.file ino) ∧
      (tarExtract fs root mask es).1.get (cleanJoin root e.link) = some (.file ino)) ∧
    (∀ c t, (tarExtract fs root mask es).1.get (root ++ c :: t) ≠ none ↔
      ∃ e ∈ es, (root ++ c :: t) <+: cleanJoin root e.name) ∧
    (∀ l1 e l2, es = l1 ++ e :: l2 → ∀ c t, (root ++ c :: t) <+: cleanJoin root e.name →
      root ++ c :: t ≠ cleanJoin root e.name → (∀ e' ∈ l1, ¬ (root ++ c :: t) <+: cleanJoin root e'.name) →
      (tarExtract fs root mask es).1.get (root ++ c :: t) =
        some (.dir ((if e.kind = .dir then perm e.mode else 0o755) &&& mask))) ∧
    es.Pairwise (fun a b => a.kind = .reg → b.kind = .reg →
      (tarExtract fs root mask es).1.get (cleanJoin root a.name) ≠
        (tarExtract fs root mask es).1.get (cleanJoin root b.name)) ∧
    (es ≠ [] → root ≠ [] → ∃ m, (tarExtract fs root mask es).1.get root = some (.dir m)) ∧
    (∀ n, fs.get root = some n → (tarExtract fs root mask es).1.get root = some n) := by
  obtain ⟨hok, hex⟩ := tar_exact root hr mask es fs ⟨hw, hio, hdst, hanc, fun q ⟨c, t, e⟩ => e ▸ hempty c t⟩
    ⟨hentry, horder, hlinks⟩
  exact reproduced_spelled root mask es _ hok hex
    (fun n hn => (extract_monotone root hr mask es fs root n hn).1)

/-- *reproduction, exactly* (zip).  The entries carry the kind zip `ExtractWithMask` gives them (`zipKind`: symbolic
    link if the mode has the symlink bit — the payload is the target —, else directory if the mode has the directory
    bit or the name ends in a slash, else regular file; `zipKind_total` says these are the only three).  Same
    hypotheses and conclusion as `extract_reproduces`, without hard links (the zip extractor has none; the hard-link
    clause of the shared conclusion is vacuous here). -/
theorem extract_reproduces_zip (root : P) (hr : GoodPath root) (mask : Nat) (es : List Entry) (fs : FS)
    (hw : WF fs) (hio : InoOK fs) (hdst : fs.get root = none ∨ ∃ m, fs.get root = some (.dir m))
    (hanc : ∀ j, 1 ≤ j → j < root.length → fs.get (root.take j) = none ∨ ∃ m, fs.get (root.take j) = some (.dir m))
    (hempty : ∀ c t, fs.get (root ++ c :: t) = none)
    (hentry : ∀ e ∈ es, (∃ c t, cleanJoin root e.name = root ++ c :: t) ∧
      ((e.kind = .reg ∨ e.kind = .dir ∨ e.kind = .symlink) ∧ e.short = false ∧ (e.kind = .symlink → e.link ≠ [])))
    (horder : es.Pairwise (fun a b => ¬ cleanJoin root b.name <+: cleanJoin root a.name ∧
      (cleanJoin root a.name <+: cleanJoin root b.name → a.kind = .dir))) :
    (zipExtract fs root mask es).2 = true ∧
    (∀ e ∈ es, e.kind = .dir →
      (zipExtract fs root mask es).1.get (cleanJoin root e.name) = some (.dir (perm e.mode &&& mask))) ∧
    (∀ e ∈ es, e.kind = .reg → ∃ ino nd,
      (zipExtract fs root mask es).1.get (cleanJoin root e.name) = some (.file ino) ∧
      (zipExtract fs root mask es).1.inodes[ino]? = some nd ∧ nd.data = e.data ∧ nd.mode = perm e.mode &&& mask) ∧
    (∀ e ∈ es, e.kind = .symlink →
      (zipExtract fs root mask es).1.get (cleanJoin root e.name) = some (.symlink e.link)) ∧
    (∀ e ∈ es, e.kind = .link → ∃ ino,
      (zipExtract fs root mask es).1.get (cleanJoin root e.name) = some (.file ino) ∧
      (zipExtract fs root mask es).1.get (cleanJoin root e.link) = some (.file ino)) ∧
    (∀ c t, (zipExtract fs root mask es).1.get (root ++ c :: t) ≠ none ↔
      ∃ e ∈ es, (root ++ c :: t) <+: cleanJoin root e.name) ∧
    (∀ l1 e l2, es = l1 ++ e :: l2 → ∀ c t, (root ++ c :: t) <+: cleanJoin root e.name →
      root ++ c :: t ≠ cleanJoin root e.name → (∀ e' ∈ l1, ¬ (root ++ c :: t) <+: cleanJoin root e'.name) →
      (zipExtract fs root mask es).1.get (root ++ c :: t) =
        some (.dir ((if e.kind = .dir then perm e.mode else 0o755) &&& mask))) ∧
    es.Pairwise (fun a b => a.kind = .reg → b.kind = .reg →
      (zipExtract fs root mask es).1.get (cleanJoin root a.name) ≠
        (zipExtract fs root mask es).1.get (cleanJoin root b.name)) ∧
    (es ≠ [] → root ≠ [] → ∃ m, (zipExtract fs root mask es).1.get root = some (.dir m)) ∧
    (∀ n, fs.get root = some n → (zipExtract fs root mask es).1.get root = some n) := by
  obtain ⟨hok, hex⟩ := zip_exact root hr mask es fs ⟨hw, hio, hdst, hanc, fun q ⟨c, t, e⟩ => e ▸ hempty c t⟩
    hentry horder
  exact reproduced_spelled root mask es _ hok hex
    (fun n hn => (extract_monotone root hr mask es fs root n hn).2)

/-- *nothing else appears* (tar and zip, EVERY archive — any kinds, names, order, duplicates, faults; whether the run
    fails or not): every node that exists after the extraction existed before with the same type, mode and target (for
    a file: the same inode — its content may have been overwritten by an entry of that name), or is at the cleaned path
    of an entry or at an ancestor of one.  So in a destination that was empty or missing,
    everything found strictly below it afterwards is an entry path or an ancestor of one. -/
theorem extract_nothing_else (root : P) (mask : Nat) (es : List Entry) (fs : FS) (q : P) (n : Nd) :
    ((tarExtract fs root mask es).1.get q = some n → fs.get q = some n ∨ ∃ e ∈ es, q <+: cleanJoin root e.name) ∧
    ((zipExtract fs root mask es).1.get q = some n → fs.get q = some n ∨ ∃ e ∈ es, q <+: cleanJoin root e.name) :=
  ⟨extractWith_nodes root _ (fun fs e q n h => tarOne_nodes fs root mask e _ rfl q n h) es fs q n,
   extractWith_nodes root _ (fun fs e q n h => zipOne_nodes fs root mask e _ rfl q n h) es fs q n⟩

/-- the classification of zip entries yields only the three kinds `extract_reproduces_zip` speaks about -/
theorem zipKind_total (symBit dirBit : Bool) (name : List Nat) :
    zipKind symBit dirBit name = .reg ∨ zipKind symBit dirBit name = .dir ∨ zipKind symBit dirBit name = .symlink :=
  zipKind_cases symBit dirBit name

/-- *the zip loop is the tar loop on error-free runs*: on entries of the three kinds the zip reader yields, a zip
    extraction that returns no error is step for step the tar extraction of the same entries (the loops differ only
    in that zip reads a symbolic link's payload first and fails at once if it cannot) -/
theorem zip_run_is_tar_run (root : P) (mask : Nat) (es : List Entry) (fs : FS)
    (hk : ∀ e ∈ es, e.kind = .reg ∨ e.kind = .dir ∨ e.kind = .symlink)
    (hok : (zipExtract fs root mask es).2 = true) : zipExtract fs root mask es = tarExtract fs root mask es :=
  zipExtract_eq_tarExtract root mask es fs hk hok

/-- *reproduction, any order* (zip): as `extract_reproduces_distinct` -/
theorem extract_reproduces_distinct_zip (root : P) (mask : Nat) (es : List Entry) (fs : FS) (hr : GoodPath root)
    (hroot : root ≠ []) (hio : InoOK fs) (hempty : ∀ q, root <+: q → q ≠ root → fs.get q = none)
    (hk : ∀ e ∈ es, e.kind = .reg ∨ e.kind = .dir ∨ e.kind = .symlink)
    (hdist : (es.map (fun e => cleanJoin root e.name)).Pairwise (· ≠ ·))
    (hok : (zipExtract fs root mask es).2 = true) :
    ∀ e ∈ es, Final root mask e (zipExtract fs root mask es).1 := by
  have heq := zipExtract_eq_tarExtract root mask es fs hk hok
  rw [heq] at hok ⊢
  exact extract_reproduces_distinct root mask es fs hr hroot hio hempty hdist hok

/-- BOOKKEEPING (holds of ANY loop body `one`: it is a property of the fold `extractWith`, used to chain the per-entry
    theorems; the content about WHICH iterations fail is `step_error_tree_iff`, `syscall_error_iff`, `guard_error_iff`).
    *when an error is returned* (both loops): the run returns an error iff some entry's iteration fails on the tree
    its predecessors left — the entries before it were all extracted, none after it is looked at -/
theorem extract_error_iff (root : P) (mask : Nat) (es : List Entry) (fs : FS) :
    ((tarExtract fs root mask es).2 = false ↔ ∃ es1 e es2 fs1, es = es1 ++ e :: es2 ∧
      tarExtract fs root mask es1 = (fs1, true) ∧ (tarOne fs1 root mask e).2 = false) ∧
    ((zipExtract fs root mask es).2 = false ↔ ∃ es1 e es2 fs1, es = es1 ++ e :: es2 ∧
      zipExtract fs root mask es1 = (fs1, true) ∧ (zipOne fs1 root mask e).2 = false) :=
  ⟨extractWith_ok_iff _ es fs, extractWith_ok_iff _ es fs⟩

/-- BOOKKEEPING (`TarFails` lists the checks and calls of the loop body one by one — a restatement of `tarOne`'s case
    list that names them, not a specification; the specification in terms of the archive and the tree before the
    iteration — name leaves the root lexically, a link or file on the way, kind clash with what exists, short payload —
    is `step_error_tree_iff` with `guard_error_iff` and `syscall_error_iff`).
    *which entries fail* (tar): an iteration fails iff the header is unreadable, or the cleaned path is not strictly
    inside the root (at the root is allowed for a directory entry), or the guard meets a symbolic link, or
    `MkdirAll` fails, or — per kind — the one primitive call fails, or a regular file's payload cannot be copied in
    full (`TarFails`, every disjunct is a check or a call of the Go loop body) -/
theorem tarOne_error_iff (fs : FS) (root : P) (mask : Nat) (e : Entry) :
    (tarOne fs root mask e).2 = false ↔ TarFails fs root mask e :=
  tarOne_fails_iff fs root mask e

/-- BOOKKEEPING (as `tarOne_error_iff`; the specification is `step_error_tree_iff`).
    *which entries fail* (zip): as for tar, without hard links; an entry that cannot be opened (`Kind.corrupt`:
    unsupported compression method, bad local header) fails before anything is created; a symbolic-link entry whose
    payload (the target) cannot be read fails before anything is created; every other non-directory entry is a file -/
theorem zipOne_error_iff (fs : FS) (root : P) (mask : Nat) (e : Entry) :
    (zipOne fs root mask e).2 = false ↔ ZipFails fs root mask e :=
  zipOne_fails_iff fs root mask e

/-- *when the primitive calls fail on the modelled file system* (a PRIVILEGED process: permission bits never make a
    call fail in the model; see the note on `extract_reproduces`): `MkdirAll(p)` iff some non-empty prefix of `p` exists
    and is not a directory; `OpenFile(p, O_CREATE|O_WRONLY|O_TRUNC)` iff `p` is a directory or a symbolic link, or is
    absent and its parent is not a directory; `Symlink(t, p)` iff `t` is empty, `p` exists or the parent is not a
    directory; `Link(tg, p)` iff `tg` is not a file, `p` exists or the parent is not a directory.  (Permission bits
    never make a call fail in the model — the correspondence run has `CAP_DAC_OVERRIDE`.) -/
theorem syscall_error_iff (fs : FS) (p tg : P) (mode : Nat) (data t : List Nat) :
    (mkdirAll fs p mode = none ↔ ∃ j, 1 ≤ j ∧ j ≤ p.length ∧
      ((∃ ino, fs.get (p.take j) = some (.file ino)) ∨ ∃ t, fs.get (p.take j) = some (.symlink t))) ∧
    (writeFile fs p mode data = none ↔ (∃ m, fs.get p = some (.dir m)) ∨ (∃ t, fs.get p = some (.symlink t)) ∨
      (fs.get p = none ∧ parentIsDir fs p = false)) ∧
    (symlinkAt fs t p = none ↔ t = [] ∨ fs.get p ≠ none ∨ parentIsDir fs p = false) ∧
    (linkAt fs tg p = none ↔ (∀ ino, fs.get tg ≠ some (.file ino)) ∨ fs.get p ≠ none ∨ parentIsDir fs p = false) :=
  ⟨mkdirAll_none_iff fs p mode, writeFile_none_iff fs p mode data, symlinkAt_none_iff fs t p, linkAt_none_iff fs tg p⟩

/-! ### the hypotheses are satisfiable, the theorems are not vacuous -/

/-- `/` and `/d`; the destination is `/d` -/
def demoFs : FS := { nodes := [([], .dir 0o755), ([[100]], .dir 0o755)] }
def demoRoot : P := [[100]]

example : GoodPath demoRoot := by
  intro c hc; simp [demoRoot] at hc; subst hc; exact ⟨by decide, by decide⟩
example : NoDots demoRoot := by
  intro c hc; simp [demoRoot] at hc; subst hc; exact ⟨by decide, by decide⟩
example : InoOK demoFs := by
  intro p ino h
  unfold FS.get demoFs at h
  simp only [List.find?_cons, List.find?_nil] at h
  split at h
  · simp at h
  · split at h <;> simp at h
example : WF demoFs := by
  intro p hp hl
  unfold FS.get demoFs at hp
  simp only [List.find?_cons, List.find?_nil] at hp
  split at hp
  · rename_i h; simp at h; rw [h] at hl; simp at hl
  · split at hp
    · rename_i h; simp at h; rw [← h] at hl; simp at hl
    · simp at hp
example : ∀ j, j < demoRoot.length → ∃ m, demoFs.get (demoRoot.take j) = some (.dir m) := by
  intro j hj
  have : j = 0 := by simp [demoRoot] at hj; omega
  subst this; exact ⟨0o755, by decide⟩

/-- the link-then-write-through attack (`l -> /e`, then `l/x`) is refused by both extractors -/
example : (tarExtract demoFs demoRoot 0o777
    [{ kind := .symlink, name := [108], link := [47, 101] }, { kind := .reg, name := [108, 47, 120], data := [1] }]).2 = false := by
  decide
example : (zipExtract demoFs demoRoot 0o777
    [{ kind := .symlink, name := [108], link := [47, 101] }, { kind := .reg, name := [108, 47, 120], data := [1] }]).2 = false := by
  decide
/-- a benign archive (file `a`, hard link `h -> a`, directory `s/`) is extracted without error and is conflict-free -/
example : (tarExtract demoFs demoRoot 0o755
    [{ kind := .reg, name := [97], data := [1, 2] }, { kind := .link, name := [104], link := [97] },
     { kind := .dir, name := [115, 47], mode := 0o700 }]).2 = true := by decide
example : FreshRun demoRoot 0o755 demoFs
    [{ kind := .reg, name := [97], data := [1, 2] }, { kind := .link, name := [104], link := [97] }] := by
  simp only [FreshRun]
  decide

/-- `a`, `h => a` (hard link), `s/` (0700), `s/l -> ../a`, `s/t/u` (its parent `s/t` is implied), `./x//y/../z` -/
def demoArchive : List Entry :=
  [{ kind := .reg, name := [97], data := [1, 2] },
   { kind := .link, name := [104], link := [97] },
   { kind := .dir, name := [115, 47], mode := 0o700 },
   { kind := .symlink, name := [115, 47, 108], link := [46, 46, 47, 97] },
   { kind := .reg, name := [115, 47, 116, 47, 117], mode := 0o600, data := [3] },
   { kind := .reg, name := [46, 47, 120, 47, 47, 121, 47, 46, 46, 47, 122], data := [] }]

/-- the same without the hard link, as the zip reader yields it -/
def demoZip : List Entry :=
  [{ kind := zipKind false false [97], name := [97], data := [1, 2] },
   { kind := zipKind false false [115, 47], name := [115, 47], mode := 0o700 },
   { kind := zipKind true false [115, 47, 108], name := [115, 47, 108], link := [46, 46, 47, 97] },
   { kind := zipKind false true [100], name := [100], mode := 0o555 },
   { kind := zipKind false false [115, 47, 116, 47, 117], name := [115, 47, 116, 47, 117], mode := 0o600, data := [3] }]

example : ∀ c t, demoFs.get (demoRoot ++ c :: t) = none := by
  intro c t; simp [FS.get, demoFs, demoRoot]

/-- all hypotheses of `extract_reproduces` hold together for `demoArchive` in `demoFs` -/
example : ∃ m, (tarExtract demoFs demoRoot 0o750 demoArchive).1.get (demoRoot ++ [[115], [116]]) = some (.dir m) := by
  have hw : WF demoFs := by
    intro p hp hl
    unfold FS.get demoFs at hp
    simp only [List.find?_cons, List.find?_nil] at hp
    split at hp
    · rename_i h; simp at h; rw [h] at hl; simp at hl
    · split at hp
      · rename_i h; simp at h; rw [← h] at hl; simp at hl
      · simp at hp
  have hio : InoOK demoFs := by
    intro p ino h
    unfold FS.get demoFs at h
    simp only [List.find?_cons, List.find?_nil] at h
    split at h
    · simp at h
    · split at h <;> simp at h
  have hr : GoodPath demoRoot := by
    intro c hc; simp [demoRoot] at hc; subst hc; exact ⟨by decide, by decide⟩
  have h := extract_reproduces demoRoot hr 0o750 demoArchive demoFs hw hio (Or.inr ⟨0o755, by decide⟩)
    (by intro j h1 h2; simp [demoRoot] at h2; omega)
    (by intro c t; simp [FS.get, demoFs, demoRoot])
    (show ∀ e ∈ demoArchive, Below demoRoot (e.path demoRoot) ∧ TarEntryOK e by decide)
    (show demoArchive.Pairwise (Compat demoRoot) by decide)
    (linksOK_of_from _ _ (by decide))
  exact ⟨_, h.2.2.2.2.2.2.1 [demoArchive[0], demoArchive[1], demoArchive[2], demoArchive[3]] demoArchive[4]
    [demoArchive[5]] rfl [115] [[116]] (by decide) (by decide) (by decide)⟩

/-- … and for a destination that does not exist yet: it is created, with the mode of the first `MkdirAll` -/
example : (tarExtract { nodes := [([], .dir 0o755)] } demoRoot 0o750 demoArchive).1.get demoRoot =
    some (.dir (0o755 &&& 0o750)) := by decide
example : ∃ m, (tarExtract { nodes := [([], .dir 0o755)] } demoRoot 0o750 demoArchive).1.get demoRoot =
    some (.dir m) := by
  have hr : GoodPath demoRoot := by
    intro c hc; simp [demoRoot] at hc; subst hc; exact ⟨by decide, by decide⟩
  have hget : ∀ p : P, p ≠ [] → ({ nodes := [([], .dir 0o755)] } : FS).get p = none := by
    intro p hp
    simp only [FS.get, List.find?_cons, List.find?_nil]
    have : (([] : P) == p) = false := by cases p <;> simp at hp ⊢
    simp [this]
  have h := extract_reproduces demoRoot hr 0o750 demoArchive { nodes := [([], .dir 0o755)] }
    (by intro p hp hl
        rw [hget p (by intro e; rw [e] at hl; simp at hl)] at hp; cases hp)
    (by intro p ino hp
        by_cases e : p = []
        · subst e; simp [FS.get] at hp
        · rw [hget p e] at hp; cases hp)
    (Or.inl (hget _ (by decide)))
    (by intro j h1 h2; simp [demoRoot] at h2; omega)
    (by intro c t; exact hget _ (by simp))
    (show ∀ e ∈ demoArchive, Below demoRoot (e.path demoRoot) ∧ TarEntryOK e by decide)
    (show demoArchive.Pairwise (Compat demoRoot) by decide)
    (linksOK_of_from _ _ (by decide))
  exact h.2.2.2.2.2.2.2.2.1 (by simp [demoArchive]) (by decide)

/-- … and those of `extract_reproduces_zip` for `demoZip` -/
example : ∀ e ∈ demoZip, Below demoRoot (e.path demoRoot) ∧ ZipEntryOK e := by decide
example : demoZip.Pairwise (Compat demoRoot) := by decide

/-- the conclusions on the two demo archives, computed: the trees are what the theorems say -/
example : ((tarExtract demoFs demoRoot 0o750 demoArchive).1.nodes.filter (fun x => x.1.length > 1)).map (·.1) =
    [[[100], [97]], [[100], [104]], [[100], [115]], [[100], [115], [108]], [[100], [115], [116]],
     [[100], [115], [116], [117]], [[100], [120]], [[100], [120], [122]]] := by decide
example : (zipExtract demoFs demoRoot 0o750 demoZip).2 = true := by decide

/-! ## Extraction into an arbitrary tree: the overlay specification

`Ex.overlayStep root mask t e` (Lemmas/ExtractOverlay.lean) says, without loops, guards or error handling, what one
successful iteration does to ANY tree `t` (a function from paths to nodes plus the inode table): what exists is kept;
an absent entry path receives the entry's node; every absent non-empty proper prefix of it becomes a directory with
`pmode e & mask`; a regular-file entry on an existing file rewrites that file's inode (content replaced, mode kept);
skipped type flags change nothing.  The theorems below prove this of the model for every initial file system (no
emptiness, no well-formedness needed), every root and every archive; which iterations are NOT successful is
`tarOne_error_iff` / `zipOne_error_iff` / `syscall_error_iff`, and what a failing iteration leaves is
`failed_step_effect`. -/

/-- *skipped type flags* (fifo, devices, contiguous files, PAX global headers, … — every tar type flag other than the
    four extracted ones): the iteration changes nothing at all, and it fails exactly when the name does not clean to a
    proper descendant of the destination or the guard refuses the path (a symbolic link on it, a file in the middle).
    So a skipped entry contributes nothing and never an escape. -/
theorem skipped_flag_noop (fs : FS) (root : P) (mask : Nat) (e : Entry) (hk : e.kind = .other) :
    tarOne fs root mask e =
      (fs, lexOK root (cleanJoin root e.name) false && ensureNoSymlinks fs root (cleanJoin root e.name)) :=
  tarOne_other fs root mask e hk

/-- … hence an error-free run of an archive is the run of the archive without its skipped entries: every exactness
    theorem (`extract_reproduces`, `extract_reproduces_distinct`, `extract_overlay`) applies to the filtered archive
    and speaks about the tree the full archive produces -/
theorem skipped_flags_filter (root : P) (mask : Nat) (es : List Entry) (fs : FS)
    (hok : (tarExtract fs root mask es).2 = true) :
    tarExtract fs root mask (es.filter (fun e => e.kind != .other)) = tarExtract fs root mask es :=
  tarExtract_filter root mask es fs hok

/-- *one successful iteration on any tree is `overlayStep`* (tar: any entry; zip: the three kinds its reader yields) -/
theorem step_overlay (fs : FS) (root : P) (hr : GoodPath root) (hroot : root ≠ []) (mask : Nat) (e : Entry) :
    ((tarOne fs root mask e).2 = true → (tarOne fs root mask e).1.view = overlayStep root mask fs.view e) ∧
    ((e.kind = .reg ∨ e.kind = .dir ∨ e.kind = .symlink) → (zipOne fs root mask e).2 = true →
      (zipOne fs root mask e).1.view = overlayStep root mask fs.view e) :=
  ⟨tarOne_overlay fs root hr hroot mask e _ rfl, zipOne_overlay fs root hr hroot mask e⟩

/-- *extraction into an arbitrary pre-existing tree* (non-empty destination, the tree a previous run left, a
    destination with links in it — anything): an error-free run produces exactly the overlay of the archive on the old
    tree, entry by entry in archive order.  Together with `extract_error_iff` (a run fails iff some iteration fails on
    the tree its predecessors left), `first_error_stops` and `failed_step_effect` this determines the result of every
    run on every tree. -/
theorem extract_overlay (root : P) (hr : GoodPath root) (hroot : root ≠ []) (mask : Nat) (es : List Entry) (fs : FS) :
    ((tarExtract fs root mask es).2 = true →
      (tarExtract fs root mask es).1.view = es.foldl (overlayStep root mask) fs.view) ∧
    ((∀ e ∈ es, e.kind = .reg ∨ e.kind = .dir ∨ e.kind = .symlink) → (zipExtract fs root mask es).2 = true →
      (zipExtract fs root mask es).1.view = es.foldl (overlayStep root mask) fs.view) :=
  ⟨tarExtract_overlay root hr hroot mask es fs, zipExtract_overlay root hr hroot mask es fs⟩

/-- *what a failing iteration leaves* (tar): nothing; or the missing parent directories of the entry, with
    `0o755 & mask` (the call on the entry's own path — open, symlink, link — or the check of a hard link's target
    failed after `MkdirAll`); or, for a regular file whose payload could not be copied in full, exactly what the
    successful iteration leaves, the file holding the bytes that could be copied.  Nothing that existed is changed
    in the first two cases. -/
theorem failed_step_effect (fs : FS) (root : P) (hr : GoodPath root) (hroot : root ≠ []) (mask : Nat) (e : Entry)
    (hf : (tarOne fs root mask e).2 = false) :
    (tarOne fs root mask e).1 = fs ∨
    ((e.kind = .reg ∨ e.kind = .symlink ∨ e.kind = .link) ∧
      (tarOne fs root mask e).1.view = ⟨stepGet fs.view (cleanJoin root e.name) none (0o755 &&& mask), fs.inodes⟩) ∨
    (e.kind = .reg ∧ e.short = true ∧ (tarOne fs root mask e).1.view = overlayStep root mask fs.view e) :=
  tarOne_failed_effect fs root hr hroot mask e _ rfl hf

/-- *what exists is never replaced* (specification side of `extract_monotone`), and *the first entry that needs an
    absent path decides what appears there* — in particular the **directory-mode rule for late-listed directories**:
    if `q` was absent, no earlier entry needed it, and `e` is the first entry whose path runs through `q`, then after
    an error-free run `q` is a directory with `pmode e & mask` (`0o755 & mask`, or `perm mode & mask` of `e` itself if
    `e` is a directory entry: `os.MkdirAll(path, mode)` uses one mode for the whole chain) — whatever comes later, a
    directory entry for `q` with another mode included: `MkdirAll` does not touch an existing directory. -/
theorem late_directory_mode (root : P) (hr : GoodPath root) (hroot : root ≠ []) (mask : Nat)
    (l1 : List Entry) (e : Entry) (l2 : List Entry) (fs : FS) (q : P)
    (hq : fs.get q = none) (hne : q ≠ [])
    (hl1 : ∀ e' ∈ l1, ¬ (e'.creates ∧ q <+: cleanJoin root e'.name))
    (hc : e.creates) (hpre : q <+: cleanJoin root e.name) (hqp : q ≠ cleanJoin root e.name) :
    ((tarExtract fs root mask (l1 ++ e :: l2)).2 = true →
      (tarExtract fs root mask (l1 ++ e :: l2)).1.get q = some (.dir (pmode e &&& mask))) ∧
    ((∀ x ∈ l1 ++ e :: l2, x.kind = .reg ∨ x.kind = .dir ∨ x.kind = .symlink) →
      (zipExtract fs root mask (l1 ++ e :: l2)).2 = true →
      (zipExtract fs root mask (l1 ++ e :: l2)).1.get q = some (.dir (pmode e &&& mask))) := by
  have hspec := overlay_first_parent root mask l1 e l2 fs.view q hq hne hl1 hc hpre hqp
  constructor
  · intro hok
    have := congrArg (fun t => t.get q) (tarExtract_overlay root hr hroot mask _ fs hok)
    exact this.trans hspec
  · intro hk hok
    have := congrArg (fun t => t.get q) (zipExtract_overlay root hr hroot mask _ fs hk hok)
    exact this.trans hspec

/-- *the first entry at an absent path*: it is there afterwards as recorded (directory with its masked mode, symbolic
    link with its target, regular file on a new inode), whatever later entries of the same name say (a later regular
    entry rewrites the content — `existing_file_rule` — the node stays) -/
theorem first_entry_at_path (root : P) (hr : GoodPath root) (hroot : root ≠ []) (mask : Nat)
    (l1 : List Entry) (e : Entry) (l2 : List Entry) (fs : FS)
    (hq : fs.get (cleanJoin root e.name) = none)
    (hl1 : ∀ e' ∈ l1, ¬ (e'.creates ∧ cleanJoin root e.name <+: cleanJoin root e'.name))
    (hok : (tarExtract fs root mask (l1 ++ e :: l2)).2 = true) :
    (e.kind = .dir → (tarExtract fs root mask (l1 ++ e :: l2)).1.get (cleanJoin root e.name) =
      some (.dir (perm e.mode &&& mask))) ∧
    (e.kind = .symlink → (tarExtract fs root mask (l1 ++ e :: l2)).1.get (cleanJoin root e.name) =
      some (.symlink e.link)) ∧
    (e.kind = .reg → ∃ ino, (tarExtract fs root mask (l1 ++ e :: l2)).1.get (cleanJoin root e.name) =
      some (.file ino) ∧ fs.inodes.size ≤ ino) := by
  have hov := tarExtract_overlay root hr hroot mask _ fs hok
  have hget := congrArg (fun t => t.get (cleanJoin root e.name)) hov
  refine ⟨fun hk => ?_, fun hk => ?_, fun hk => ?_⟩
  · exact hget.trans (overlay_first_self root mask l1 e l2 fs.view hq hl1 (Or.inr (Or.inl hk)) _
      (by simp [newNode, hk]))
  · exact hget.trans (overlay_first_self root mask l1 e l2 fs.view hq hl1 (Or.inr (Or.inr (Or.inl hk))) _
      (by simp [newNode, hk]))
  · refine ⟨_, hget.trans (overlay_first_self root mask l1 e l2 fs.view hq hl1 (Or.inl hk) _
      (by simp [newNode, hk]; rfl)), ?_⟩
    -- the inode table only grows
    have hok1 : (tarExtract fs root mask l1).2 = true := by
      by_cases h : (tarExtract fs root mask l1).2 = true
      · exact h
      · exfalso
        have hf : (tarExtract fs root mask l1).2 = false := by simpa using h
        obtain ⟨a, x, b, fs1, hsplit, h1, h2⟩ := (extractWith_ok_iff _ l1 fs).mp hf
        have := extractWith_stop (fun fs e => tarOne fs root mask e) fs fs1 a (b ++ e :: l2) x h1 h2
        have heq : a ++ x :: (b ++ e :: l2) = l1 ++ e :: l2 := by rw [hsplit]; simp
        rw [heq] at this
        unfold tarExtract at hok
        rw [this] at hok; cases hok
    have hv := tarExtract_overlay root hr hroot mask l1 fs hok1
    have hs : (List.foldl (overlayStep root mask) fs.view l1).inodes = (tarExtract fs root mask l1).1.inodes :=
      (congrArg Tree.inodes hv).symm
    rw [hs]
    exact (extractWith_sys root _ (fun fs e => tarOne_sys root hr fs mask e) fs l1).fr.size

/-- *an entry that names the destination itself* (`./`, `.`, the empty name, `a/..` as a directory entry) on an
    existing destination directory: no error and nothing changes, in both loops.  (On a missing destination it creates
    it — and its missing ancestors — with `perm mode & mask`: `late_directory_mode` / `extract_overlay` with
    `q = root`; on a destination that is a file or a symbolic link it fails: `tarOne_error_iff`.) -/
theorem root_entry (fs : FS) (hw : WF fs) (root : P) (mask : Nat) (e : Entry) (hk : e.kind = .dir)
    (hp : cleanJoin root e.name = root) (m : Nat) (hd : fs.get root = some (.dir m)) :
    tarOne fs root mask e = (fs, true) ∧ zipOne fs root mask e = (fs, true) :=
  root_entry_noop fs hw root mask e hk hp m hd

/-- *files that exist before the extraction* (pre-existing content of a non-empty destination, files left by a
    previous run, and — through a pre-existing hard link — files outside): for every run, failing or not,
    * the mode of an existing file never changes;
    * its content afterwards is the old content or the payload (the bytes that could be read) of a regular-file entry
      of the archive — namely of the last such entry extracted onto a path holding that inode (`step_overlay`);
    * if no path at or below the destination holds the inode before the extraction, content and mode are unchanged.
    So with **no link pointing outside** in the pre-existing tree nothing outside is touched at all
    (`extract_contained` for the nodes — it needs no hypothesis on the tree inside —, this theorem for the contents;
    pre-existing symbolic links are never followed, the guard fails on them: `ensureNoSymlinks_spec`,
    `tarOne_error_iff`).  With a pre-existing **hard link inside the destination to an outside file** — the one case the
    extractors cannot see — a regular-file entry extracted onto that link (or onto a hard-link entry made to it)
    replaces the outside file's content by its payload; its mode, name, and every other outside file stay. -/
theorem existing_file_rule (root : P) (hr : GoodPath root) (hroot : root ≠ []) (mask : Nat) (es : List Entry) (fs : FS)
    (i : Nat) (nd : Inode) (hi : fs.inodes[i]? = some nd) :
    ((tarExtract fs root mask es).1.inodes[i]? = some nd ∨
      ∃ e ∈ es, e.kind = .reg ∧ (tarExtract fs root mask es).1.inodes[i]? = some { nd with data := e.data }) ∧
    ((∀ e ∈ es, e.kind = .reg ∨ e.kind = .dir ∨ e.kind = .symlink) →
      ((zipExtract fs root mask es).1.inodes[i]? = some nd ∨
        ∃ e ∈ es, e.kind = .reg ∧ (zipExtract fs root mask es).1.inodes[i]? = some { nd with data := e.data })) ∧
    (¬ RefsBelow root fs i → (tarExtract fs root mask es).1.inodes[i]? = some nd ∧
      (zipExtract fs root mask es).1.inodes[i]? = some nd) := by
  refine ⟨tarExtract_inode_history root hr hroot mask es fs i nd hi,
    fun hk => zipExtract_inode_history root hr hroot mask es hk fs i nd hi, fun hout => ?_⟩
  have := extract_contained_inodes root hr mask es fs i (lt_of_getElem? hi) hout
  exact ⟨this.1.trans hi, this.2.trans hi⟩

/-- *when the guard fails, in terms of the tree* (well-formed tree): `EnsureNoSymlinks(root, p)` fails for `p = root`
    iff the root is a symbolic link; for any other `p` iff the root is a regular file, or some component of `p` below the
    root is a symbolic link, or some component below the root other than the last is a regular file (`ENOTDIR`) -/
theorem guard_error_iff (fs : FS) (hw : WF fs) (root p : P) :
    ensureNoSymlinks fs root p = false ↔ GuardFails fs.view root p :=
  guard_false_iff fs hw root p

/-- *which iterations fail, in terms of the tree before the iteration only* (`StepFails`: look-ups, no loops, no
    intermediate file systems — the replacement / `EEXIST` / guard behaviour spelled out): on a well-formed tree an
    iteration of the tar loop fails iff the header is unreadable; or the name does not clean to a proper descendant of
    the root (the root itself is allowed for a directory entry); or the guard fails (`guard_error_iff`); or a non-empty
    proper prefix of the path (the path itself for a directory entry) exists and is not a directory; or — regular file —
    the path is a directory or the payload is short (an existing regular file is rewritten, no error); or — symbolic link —
    the target is empty or the path exists (`EEXIST`, whatever is there); or — hard link — the target does not clean to
    a proper descendant of the root, the guard fails on it, it is not a regular file, or the path exists.  Zip: the same
    on its three kinds, and a symbolic-link entry whose payload cannot be read.  Well-formedness is preserved by every
    run (`extract_wf`), so with `extract_error_iff`, `extract_overlay` and `failed_step_effect` the outcome of every run
    on every well-formed tree is determined by look-ups alone. -/
theorem step_error_tree_iff (fs : FS) (hw : WF fs) (root : P) (hr : GoodPath root) (hroot : root ≠ []) (mask : Nat)
    (e : Entry) :
    ((tarOne fs root mask e).2 = false ↔ StepFails fs.view root e) ∧
    ((e.kind = .reg ∨ e.kind = .dir ∨ e.kind = .symlink) →
      ((zipOne fs root mask e).2 = false ↔ (StepFails fs.view root e ∨ (e.kind = .symlink ∧ e.short = true)))) :=
  ⟨tarOne_stepFails_iff fs hw root hr hroot mask e, zipOne_stepFails_iff fs hw root hr hroot mask e⟩

/-- *extraction over what a previous run left — files and directories*: if every entry of the archive is a directory
    entry whose path is a directory already (any mode — it keeps it), or a complete regular-file entry whose path is a
    regular file holding exactly the entry's bytes, the run returns no error and changes nothing (both loops).  By
    `extract_reproduces` this is the situation after a first extraction of an archive of files and directories. -/
theorem reextract_identity (fs : FS) (hw : WF fs) (root : P) (hr : GoodPath root) (hroot : root ≠ []) (mask : Nat)
    (es : List Entry) (h : ∀ e ∈ es, Present fs root e) :
    tarExtract fs root mask es = (fs, true) ∧ zipExtract fs root mask es = (fs, true) :=
  extract_present fs hw root hr hroot mask es h

/-- *… links*: a symbolic-link or hard-link entry whose path exists already fails, whatever is there (a link left by
    the previous run: the guard refuses it as last component; anything else: `EEXIST`) — so a second extraction of an
    archive with link entries stops with an error at its first link entry, having changed nothing before it
    (`reextract_identity`) -/
theorem reextract_link_fails (fs : FS) (root : P) (hr : GoodPath root) (hroot : root ≠ []) (mask : Nat) (e : Entry)
    (hp : fs.get (cleanJoin root e.name) ≠ none) :
    ((e.kind = .symlink ∨ e.kind = .link) → (tarOne fs root mask e).2 = false) ∧
    (e.kind = .symlink → (zipOne fs root mask e).2 = false) :=
  ⟨fun hk => tarOne_in_the_way fs root hr hroot mask e hk hp, fun hk => zipOne_in_the_way fs root hr hroot mask e hk hp⟩

/-! ## The resolving file system: containment needs the guard

`Model/ExtractR.lean` models the kernel: `walk` follows symbolic links (every non-final component always, the final one
for `stat`/`open`), the primitives act at the PHYSICAL place resolution arrives at, `os.MkdirAll` and
`internal.EnsureNoSymlinks` are transcribed call by call, and the loop bodies `tarOneG` / `zipOneG` call them exactly as
the Go code does.  `tarExtractR` / `zipExtractR` (guard on) are what the model driver executes against the real code.
The lexical model above is a proof device: `resolving_is_lexical` shows that WITH the guard every call of the loops
acts at its lexical path, so the two models coincide and every theorem of this file transfers; `guardless_escapes`
shows that WITHOUT the guard calls the same loops do write and link outside. -/

/-- *with the guard, the resolving extractors are the lexical ones*: on every well-formed tree (every node's parent
    is a directory — any real file-system tree, whatever links it contains) in which no proper prefix of the
    destination is a file or a symbolic link (each is a directory or does not exist yet: a fresh `out/new/dst` is
    covered, `MkdirAll` creates the parents) and the destination itself is not a symbolic link (`RInv`; it may be
    missing, a directory or a file), for every archive.  A destination BELOW A LINKED ANCESTOR is outside: there the
    real code and the resolving model extract into the physical place (area `dstlinkm`, `dp:2…4`), which the lexical
    model cannot express — differential run only.  Proof: `EnsureNoSymlinks` with its `Lstat` calls is the lexical guard
    (`guardR_eq`); after it succeeded no component of the path is a link (`ensureNoSymlinks_spec`), so resolution is a
    look-up (`walk_lex`) and `os.MkdirAll`, `OpenFile`, `Symlink`, `Link` act where the lexical primitives act
    (`mkdirAllR_eq`, `openWriteR_eq`, `symlinkR_eq`, `linkR_eq`); the invariant is kept by every iteration. -/
theorem resolving_is_lexical (root : P) (hroot : root ≠ []) (hr : GoodPath root) (hdr : NoDots root) (mask : Nat)
    (es : List Entry) (fs : FS) (hinv : RInv fs root) :
    tarExtractR fs root mask es = tarExtract fs root mask es ∧ zipExtractR fs root mask es = zipExtract fs root mask es :=
  ⟨tarExtractR_eq root hroot hr hdr mask es fs hinv, zipExtractR_eq root hroot hr hdr mask es fs hinv⟩

/-- … one iteration -/
theorem resolving_step_is_lexical (root : P) (hroot : root ≠ []) (hr : GoodPath root) (hdr : NoDots root) (mask : Nat)
    (e : Entry) (fs : FS) (hinv : RInv fs root) :
    tarOneR fs root mask e = tarOne fs root mask e ∧ zipOneR fs root mask e = zipOne fs root mask e :=
  ⟨tarOneR_eq fs root hinv hroot hr hdr mask e, zipOneR_eq fs root hinv hroot hr hdr mask e⟩

/-- **containment on the resolving file system** (tar and zip; `..`, absolute names, links created by earlier
    entries, links that were there before): whatever the archive says, every path that is not at or below the
    destination names the same node after the extraction as before — except that ancestors of the destination that
    did not exist may have been created, as directories, by `MkdirAll` (second clause; with all ancestors present,
    `hex` is trivially true and nothing at all changes outside).  This is the statement that depends on the guard:
    it is false of the same loops without the guard calls (`guardless_escapes`). -/
theorem extract_contained_resolving (root : P) (hroot : root ≠ []) (hr : GoodPath root) (hdr : NoDots root)
    (mask : Nat) (es : List Entry) (fs : FS) (hinv : RInv fs root) (q : P) (hq : ¬ root <+: q) :
    ((q <+: root → fs.get q ≠ none) →
      (tarExtractR fs root mask es).1.get q = fs.get q ∧ (zipExtractR fs root mask es).1.get q = fs.get q) ∧
    (fs.get q = none →
      ((tarExtractR fs root mask es).1.get q = none ∨ ∃ m, (tarExtractR fs root mask es).1.get q = some (.dir m)) ∧
      ((zipExtractR fs root mask es).1.get q = none ∨ ∃ m, (zipExtractR fs root mask es).1.get q = some (.dir m))) := by
  rw [tarExtractR_eq root hroot hr hdr mask es fs hinv, zipExtractR_eq root hroot hr hdr mask es fs hinv]
  have st := extractWith_sys root _ (fun fs e => tarOne_sys root hr fs mask e) fs es
  have sz := extractWith_sys root _ (fun fs e => zipOne_sys root hr fs mask e) fs es
  refine ⟨fun hex => ⟨st.outside' q hq hex, sz.outside' q hq hex⟩, fun hn => ?_⟩
  by_cases hrel : q <+: root
  · have hlen : q.length < root.length := by
      rcases Nat.lt_or_ge q.length root.length with h | h
      · exact h
      · exfalso; apply hq; rw [hrel.eq_of_length_le h]; exact List.prefix_refl _
    have e := List.prefix_iff_eq_take.mp hrel
    have h1 := (hinv.tarRun hr hroot mask es).anc q.length hlen
    have h2 := (hinv.zipRun hr hroot mask es).anc q.length hlen
    rw [← e] at h1 h2
    exact ⟨h1, h2⟩
  · have hnr : ¬ Related root q := fun h => h.elim hrel hq
    exact ⟨Or.inl ((st.frame q hnr).trans hn), Or.inl ((sz.frame q hnr).trans hn)⟩

/-- **containment of contents and of hard links on the resolving file system**: a file (inode) that no path at or
    below the destination holds before the extraction has the same content and mode afterwards, and no such file
    becomes linked into the destination -/
theorem extract_contained_inodes_resolving (root : P) (hroot : root ≠ []) (hr : GoodPath root) (hdr : NoDots root)
    (mask : Nat) (es : List Entry) (fs : FS) (hinv : RInv fs root) (ino : Nat) :
    (ino < fs.inodes.size → ¬ RefsBelow root fs ino →
      (tarExtractR fs root mask es).1.inodes[ino]? = fs.inodes[ino]? ∧
      (zipExtractR fs root mask es).1.inodes[ino]? = fs.inodes[ino]?) ∧
    (RefsBelow root (tarExtractR fs root mask es).1 ino → RefsBelow root fs ino ∨ fs.inodes.size ≤ ino) ∧
    (RefsBelow root (zipExtractR fs root mask es).1 ino → RefsBelow root fs ino ∨ fs.inodes.size ≤ ino) := by
  rw [tarExtractR_eq root hroot hr hdr mask es fs hinv, zipExtractR_eq root hroot hr hdr mask es fs hinv]
  exact ⟨fun hlt hout => extract_contained_inodes root hr mask es fs ino hlt hout,
    (extract_no_outside_link root hr mask es fs ino).1, (extract_no_outside_link root hr mask es fs ino).2⟩

/-- the tree stays a real tree and the invariant of `resolving_is_lexical` holds again afterwards (so a second
    extraction, `r:2`, is covered as well) -/
theorem extract_invariant_resolving (root : P) (hroot : root ≠ []) (hr : GoodPath root) (hdr : NoDots root)
    (mask : Nat) (es : List Entry) (fs : FS) (hinv : RInv fs root) :
    RInv (tarExtractR fs root mask es).1 root ∧ RInv (zipExtractR fs root mask es).1 root := by
  rw [tarExtractR_eq root hroot hr hdr mask es fs hinv, zipExtractR_eq root hroot hr hdr mask es fs hinv]
  exact ⟨hinv.tarRun hr hroot mask es, hinv.zipRun hr hroot mask es⟩

/-- `/`, the destination `/d`, and beside it `/e/` with the file `/e/v` (inode 0) -/
def worldFs : FS :=
  { nodes := [([], .dir 0o755), ([[100]], .dir 0o755), ([[101]], .dir 0o755), ([[101], [118]], .file 0)],
    inodes := #[{ data := [7], mode := 0o644 }] }

/-- `l -> /e`, then the file `l/x` -/
def attackCreate : List Entry :=
  [{ kind := .symlink, name := [108], link := [47, 101] }, { kind := .reg, name := [108, 47, 120], data := [1] }]
/-- `l -> ../e`, the hard link `h => l/v`, then the file `h` -/
def attackLink : List Entry :=
  [{ kind := .symlink, name := [108], link := [46, 46, 47, 101] }, { kind := .link, name := [104], link := [108, 47, 118] },
   { kind := .reg, name := [104], data := [6, 6] }]

/-- **the guard is necessary**: the same loop bodies over the same resolving primitives with the guard calls left
    out (`tarOneG false`, `zipOneG false`: the extractors before commit ddf9a1e) create `/e/x` outside the destination
    through the link the archive made, and — through a hard link made through that link — replace the content of the
    outside file `/e/v`; with the guard calls the same archives are refused and nothing outside changes -/
theorem guardless_escapes :
    -- without the guard: something outside is created …
    (extractWith (fun fs e => tarOneG false fs demoRoot 0o777 e) worldFs attackCreate).2 = true ∧
    (extractWith (fun fs e => tarOneG false fs demoRoot 0o777 e) worldFs attackCreate).1.get [[101], [120]] ≠ none ∧
    (extractWith (fun fs e => zipOneG false fs demoRoot 0o777 e) worldFs attackCreate).1.get [[101], [120]] ≠ none ∧
    -- … an outside file is linked into the destination and then modified
    (extractWith (fun fs e => tarOneG false fs demoRoot 0o777 e) worldFs attackLink).1.get [[100], [104]] =
      some (.file 0) ∧
    (extractWith (fun fs e => tarOneG false fs demoRoot 0o777 e) worldFs attackLink).1.inodes[0]? =
      some { data := [6, 6], mode := 0o644 } ∧
    -- with the guard: an error, and the outside is untouched
    (tarExtractR worldFs demoRoot 0o777 attackCreate).2 = false ∧
    (tarExtractR worldFs demoRoot 0o777 attackCreate).1.get [[101], [120]] = none ∧
    (zipExtractR worldFs demoRoot 0o777 attackCreate).2 = false ∧
    (zipExtractR worldFs demoRoot 0o777 attackCreate).1.get [[101], [120]] = none ∧
    (tarExtractR worldFs demoRoot 0o777 attackLink).2 = false ∧
    (tarExtractR worldFs demoRoot 0o777 attackLink).1.inodes[0]? = some { data := [7], mode := 0o644 } := by
  decide

/-- the hypotheses of the resolving theorems hold of that world -/
example : RInv worldFs demoRoot := by
  refine ⟨?_, ⟨0o755, by decide⟩, ?_, ?_⟩
  · intro p hp hl
    unfold FS.get worldFs at hp
    simp only [List.find?_cons, List.find?_nil] at hp
    split at hp
    · rename_i h; simp at h; (first | rw [h] at hl | rw [← h] at hl); simp at hl
    · split at hp
      · rename_i h; simp at h; (first | rw [h] at hl | rw [← h] at hl); simp at hl
      · split at hp
        · rename_i h; simp at h; (first | rw [h] at hl | rw [← h] at hl); simp at hl
        · split at hp
          · rename_i h; simp at h; (first | rw [h] | rw [← h]); exact ⟨0o755, by decide⟩
          · simp at hp
  · intro j hj
    have : j = 0 := by simp [demoRoot] at hj; omega
    subst this; exact Or.inr ⟨0o755, by decide⟩
  · intro t h
    have : worldFs.get demoRoot = some (.dir 0o755) := by decide
    rw [this] at h; cases h
example : demoRoot ≠ [] := by decide

/-- … and of a fresh destination `/a/d` whose parent does not exist yet: `MkdirAll` creates `/a` and `/a/d` (with the
    mode of the first call), outside them nothing changes -/
example : RInv { nodes := [([], .dir 0o755)] } [[97], [100]] := by
  refine ⟨?_, ⟨0o755, by decide⟩, ?_, ?_⟩
  · intro p hp hl
    unfold FS.get at hp
    simp only [List.find?_cons, List.find?_nil] at hp
    split at hp
    · rename_i h; simp at h; (first | rw [h] at hl | rw [← h] at hl); simp at hl
    · simp at hp
  · intro j hj
    have hj' : j < 2 := by simpa using hj
    rcases Nat.lt_or_ge j 1 with h | h
    · have : j = 0 := by omega
      subst this; exact Or.inr ⟨0o755, by decide⟩
    · have : j = 1 := by omega
      subst this; exact Or.inl (by decide)
  · intro t h
    have : ({ nodes := [([], .dir 0o755)] } : FS).get [[97], [100]] = none := by decide
    rw [this] at h; cases h
example : (tarExtractR { nodes := [([], .dir 0o755)] } [[97], [100]] 0o750 [{ kind := .reg, name := [120], data := [1] }]).2 = true ∧
    (tarExtractR { nodes := [([], .dir 0o755)] } [[97], [100]] 0o750 [{ kind := .reg, name := [120], data := [1] }]).1.get [[97]] =
      some (.dir 0o750) := by decide

/-! ### the new theorems are not vacuous -/

/-- a skipped type flag between two files: no error, nothing of it on disk -/
example : (tarExtract demoFs demoRoot 0o755
    [{ kind := .reg, name := [97], data := [1] }, { kind := .other, name := [120] },
     { kind := .reg, name := [98], data := [2] }]).2 = true := by decide
example : (tarExtract demoFs demoRoot 0o755
    [{ kind := .reg, name := [97], data := [1] }, { kind := .other, name := [120] },
     { kind := .reg, name := [98], data := [2] }]).1.get [[100], [120]] = none := by decide
/-- … and one that tries to leave the destination is an error -/
example : (tarExtract demoFs demoRoot 0o755 [{ kind := .other, name := [46, 46, 47, 120] }]).2 = false := by decide

/-- `./` on the existing destination: nothing changes; on a missing one it is created with the entry's masked mode -/
example : (tarExtract demoFs demoRoot 0o755 [{ kind := .dir, name := [46, 47], mode := 0o700 }]).1.get demoRoot =
    some (.dir 0o755) := by decide
example : (tarExtract { nodes := [([], .dir 0o755)] } demoRoot 0o750 [{ kind := .dir, name := [46, 47], mode := 0o777 }]).1.get
    demoRoot = some (.dir 0o750) := by decide
example : cleanJoin demoRoot [46, 47] = demoRoot := by decide

/-- a non-empty destination: `/d/a` (mode 0600, content 9), `/d/s/`, the outside file `/o/v` and the pre-existing hard
    link `/d/h` to it -/
def fullFs : FS :=
  { nodes := [([], .dir 0o755), ([[100]], .dir 0o755), ([[100], [97]], .file 0), ([[100], [115]], .dir 0o700),
              ([[111]], .dir 0o755), ([[111], [118]], .file 1), ([[100], [104]], .file 1)],
    inodes := #[{ data := [9], mode := 0o600 }, { data := [7, 7], mode := 0o644 }] }

/-- overlay on the old tree: `a` is rewritten (mode kept), `s/` is kept with its old mode although the archive lists it
    with another one, `s/n` is new -/
example : (tarExtract fullFs demoRoot 0o777
    [{ kind := .reg, name := [97], mode := 0o777, data := [1, 2] }, { kind := .dir, name := [115], mode := 0o755 },
     { kind := .reg, name := [115, 47, 110], mode := 0o640, data := [3] }]).2 = true := by decide
example : (tarExtract fullFs demoRoot 0o777
    [{ kind := .reg, name := [97], mode := 0o777, data := [1, 2] }, { kind := .dir, name := [115], mode := 0o755 },
     { kind := .reg, name := [115, 47, 110], mode := 0o640, data := [3] }]).1.inodes.toList =
    [{ data := [1, 2], mode := 0o600 }, { data := [7, 7], mode := 0o644 }, { data := [3], mode := 0o640 }] := by decide
example : (tarExtract fullFs demoRoot 0o777
    [{ kind := .reg, name := [97], mode := 0o777, data := [1, 2] }, { kind := .dir, name := [115], mode := 0o755 },
     { kind := .reg, name := [115, 47, 110], mode := 0o640, data := [3] }]).1.get [[100], [115]] = some (.dir 0o700) := by
  decide
/-- EEXIST: a symbolic-link entry onto the existing file is an error -/
example : (tarExtract fullFs demoRoot 0o777 [{ kind := .symlink, name := [97], link := [120] }]).2 = false := by decide
/-- the pre-existing hard link to an outside file: a regular entry of that name rewrites the outside file's content
    (mode kept); this is what `existing_file_rule` allows, and `RefsBelow` holds of that inode -/
example : (tarExtract fullFs demoRoot 0o777 [{ kind := .reg, name := [104], data := [5] }]).1.inodes[1]? =
    some { data := [5], mode := 0o644 } := by decide
example : RefsBelow demoRoot fullFs 1 := ⟨[[100], [104]], by decide, by decide⟩

/-- a directory listed after its content keeps the mode of the first `MkdirAll` (here `0o755 & mask`), not its own -/
example : (tarExtract demoFs demoRoot 0o777
    [{ kind := .reg, name := [115, 47, 116], data := [1] }, { kind := .dir, name := [115], mode := 0o700 }]).1.get
    [[100], [115]] = some (.dir 0o755) := by decide
/-- … and listed first it has its own -/
example : (tarExtract demoFs demoRoot 0o777
    [{ kind := .dir, name := [115], mode := 0o700 }, { kind := .reg, name := [115, 47, 116], data := [1] }]).1.get
    [[100], [115]] = some (.dir 0o700) := by decide

/-- a failing iteration: the payload of `s/t` is cut short — error, the parent and the partial file stay -/
example : (tarExtract demoFs demoRoot 0o777
    [{ kind := .reg, name := [115, 47, 116], data := [1], short := true }, { kind := .reg, name := [98] }]).2 = false := by
  decide
example : (tarExtract demoFs demoRoot 0o777
    [{ kind := .reg, name := [115, 47, 116], data := [1], short := true }, { kind := .reg, name := [98] }]).1.get
    [[100], [98]] = none := by decide

/-- the tree a previous run left: extracting `demoArchive` a second time fails (its hard link and its symbolic link
    are in the way: EEXIST / the guard), extracting an archive of files and directories a second time does not -/
example : (tarExtract (tarExtract demoFs demoRoot 0o750 demoArchive).1 demoRoot 0o750 demoArchive).2 = false := by decide
example : (tarExtract (tarExtract demoFs demoRoot 0o750
    [{ kind := .dir, name := [115], mode := 0o700 }, { kind := .reg, name := [115, 47, 116], data := [1] }]).1 demoRoot 0o750
    [{ kind := .dir, name := [115], mode := 0o700 }, { kind := .reg, name := [115, 47, 116], data := [1] }]).2 = true := by
  decide

/-- `Present` holds of a file-and-directory archive in the tree its first extraction left -/
example : ∀ e ∈ [({ kind := .dir, name := [115], mode := 0o700 } : Entry), { kind := .reg, name := [115, 47, 116], data := [1] }],
    Present (tarExtract demoFs demoRoot 0o750
      [{ kind := .dir, name := [115], mode := 0o700 }, { kind := .reg, name := [115, 47, 116], data := [1] }]).1 demoRoot e := by
  intro e he
  simp only [List.mem_cons, List.mem_nil_iff, or_false] at he
  rcases he with rfl | rfl
  · exact Or.inl ⟨rfl, Or.inr ⟨[115], [], by decide⟩, 0o700 &&& 0o750, by decide⟩
  · exact Or.inr ⟨rfl, rfl, ⟨[115], [[116]], by decide⟩, 0, { data := [1], mode := 0o644 &&& 0o750 }, by decide, by decide, rfl⟩

/-- the guard fails on a path through a pre-existing symbolic link, and `GuardFails` says so -/
example : ensureNoSymlinks { nodes := [([], .dir 0o755), ([[100]], .dir 0o755), ([[100], [108]], .symlink [47, 101])] }
    demoRoot [[100], [108], [120]] = false := by decide

/-! ## The destination as the caller spells it: `filepath.Abs`

Both `ExtractWithMask` begin with `root, err := filepath.Abs(dst)`; `Ex.absPath cwd dst` is that call (absolute spelling:
cleaned; relative spelling, the empty string included: joined to the working directory and cleaned) and
`Ex.tarExtractWithMaskAt` / `Ex.zipExtractWithMaskAt` — what the model driver executes in area `dstform` — are the loops
on that root.  The theorems above quantify over roots with `GoodPath root` and `NoDots root`; `absPath_clean` discharges
both for every spelling, so that the hypotheses left are about the file system only. -/

/-- *the root is a clean absolute path for every spelling*: whatever string the caller passes and wherever the process
    stands (`cwd`: what `os.Getwd` returns, a clean absolute path), the root has slash-free non-empty components, none
    of them `.` or `..`; it is a fixed point of `filepath.Abs` (its text is absolute and already clean); and an absolute
    spelling does not depend on the working directory -/
theorem absPath_clean (cwd : P) (dst : List Nat) (hc : GoodPath cwd) (hd : NoDots cwd) :
    GoodPath (absPath cwd dst) ∧ NoDots (absPath cwd dst) ∧
    (absPath cwd dst ≠ [] → ∀ cwd', absPath cwd' (render (absPath cwd dst)) = absPath cwd dst) ∧
    (dst.head? = some 47 → ∀ cwd', absPath cwd' dst = absPath cwd dst) :=
  ⟨absPath_good cwd dst hc, absPath_nodots cwd dst hd,
   fun hne cwd' => absPath_render cwd' _ hne (absPath_good cwd dst hc) (absPath_nodots cwd dst hd),
   fun h cwd' => absPath_absolute cwd' cwd dst h⟩

/-- spellings of one destination: from `/w`, the strings `d`, `./d`, `d/`, `x/../d`, `/w//d/.` and — from `/w/o` — `../d`
    all give `/w/d`; `.` and the empty string give the working directory; `..` from `/w` gives `/`… -/
example : absPath [[119]] [100] = [[119], [100]] ∧ absPath [[119]] [46, 47, 100] = [[119], [100]] ∧
    absPath [[119]] [100, 47] = [[119], [100]] ∧ absPath [[119]] [120, 47, 46, 46, 47, 100] = [[119], [100]] ∧
    absPath [[119]] [47, 119, 47, 47, 100, 47, 46] = [[119], [100]] ∧
    absPath [[119], [111]] [46, 46, 47, 100] = [[119], [100]] ∧
    absPath [[119]] [46] = [[119]] ∧ absPath [[119]] [] = [[119]] ∧ absPath [[119]] [46, 46] = [] := by decide

/-- *with the guard, the extraction of a spelled destination is the lexical extraction on `filepath.Abs` of it*: every
    theorem about `tarExtract` / `zipExtract` speaks about the executed `ExtractWithMask(r, dst, mask)` with its first
    statement included; the hypotheses left are about the tree (`RInv`, see `resolving_is_lexical`) and that the
    destination is not `/` -/
theorem spelled_is_lexical (cwd : P) (dst : List Nat) (hc : GoodPath cwd) (hd : NoDots cwd)
    (hne : absPath cwd dst ≠ []) (mask : Nat) (es : List Entry) (fs : FS) (hinv : RInv fs (absPath cwd dst)) :
    tarExtractWithMaskAt fs cwd dst mask es = tarExtract fs (absPath cwd dst) mask es ∧
    zipExtractWithMaskAt fs cwd dst mask es = zipExtract fs (absPath cwd dst) mask es :=
  resolving_is_lexical _ hne (absPath_good cwd dst hc) (absPath_nodots cwd dst hd) mask es fs hinv

/-- *the first statement and its error branch* (`root, err := filepath.Abs(dst); if err != nil { return … }`; the
    executed `Ex.tarExtractWithMaskFrom` / `zipExtractWithMaskFrom`): with a working directory, the extraction is the
    one of `spelled_is_lexical` & co.; with the working directory GONE (`os.Getwd` fails) a relative spelling — the empty
    string included — is an error and NOTHING is looked at or changed, whatever the archive; an absolute spelling is
    extracted as from any working directory -/
theorem gone_cwd (fs : FS) (cwd : P) (dst : List Nat) (mask : Nat) (es : List Entry) :
    tarExtractWithMaskFrom fs (some cwd) dst mask es = tarExtractWithMaskAt fs cwd dst mask es ∧
    zipExtractWithMaskFrom fs (some cwd) dst mask es = zipExtractWithMaskAt fs cwd dst mask es ∧
    (dst.head? ≠ some 47 → tarExtractWithMaskFrom fs none dst mask es = (fs, false) ∧
      zipExtractWithMaskFrom fs none dst mask es = (fs, false)) ∧
    (dst.head? = some 47 → tarExtractWithMaskFrom fs none dst mask es = tarExtractWithMaskAt fs cwd dst mask es ∧
      zipExtractWithMaskFrom fs none dst mask es = zipExtractWithMaskAt fs cwd dst mask es) := by
  refine ⟨?_, ?_, fun h => ?_, fun h => ?_⟩
  · simp [tarExtractWithMaskFrom, tarExtractWithMaskAt, absPath?_some]
  · simp [zipExtractWithMaskFrom, zipExtractWithMaskAt, absPath?_some]
  · simp [tarExtractWithMaskFrom, zipExtractWithMaskFrom, absPath?, h]
  · simp [tarExtractWithMaskFrom, zipExtractWithMaskFrom, tarExtractWithMaskAt, zipExtractWithMaskAt, absPath?, absPath, h]

/-- **containment for a destination as spelled** (third clause, about the executed `ExtractWithMask` from its first
    statement on): for every spelling `dst`, every working directory, every archive — with `root` the absolute clean
    form of the spelling — every path that is not at or below `root` names the same node afterwards as before, except
    that missing ancestors of `root` may have been created as directories; outside files keep content and mode and are
    not linked into the destination.  Hypotheses: about the tree only (`RInv`). -/
theorem extract_contained_spelled (cwd : P) (dst : List Nat) (hc : GoodPath cwd) (hd : NoDots cwd)
    (root : P) (hroot : root = absPath cwd dst) (hne : root ≠ [])
    (mask : Nat) (es : List Entry) (fs : FS) (hinv : RInv fs root) (q : P) (hq : ¬ root <+: q) :
    ((q <+: root → fs.get q ≠ none) →
      (tarExtractWithMaskAt fs cwd dst mask es).1.get q = fs.get q ∧
      (zipExtractWithMaskAt fs cwd dst mask es).1.get q = fs.get q) ∧
    (fs.get q = none →
      ((tarExtractWithMaskAt fs cwd dst mask es).1.get q = none ∨
        ∃ m, (tarExtractWithMaskAt fs cwd dst mask es).1.get q = some (.dir m)) ∧
      ((zipExtractWithMaskAt fs cwd dst mask es).1.get q = none ∨
        ∃ m, (zipExtractWithMaskAt fs cwd dst mask es).1.get q = some (.dir m))) ∧
    (∀ ino, ino < fs.inodes.size → ¬ RefsBelow root fs ino →
      (tarExtractWithMaskAt fs cwd dst mask es).1.inodes[ino]? = fs.inodes[ino]? ∧
      (zipExtractWithMaskAt fs cwd dst mask es).1.inodes[ino]? = fs.inodes[ino]? ∧
      ¬ RefsBelow root (tarExtractWithMaskAt fs cwd dst mask es).1 ino ∧
      ¬ RefsBelow root (zipExtractWithMaskAt fs cwd dst mask es).1 ino) := by
  subst hroot
  have hg := absPath_good cwd dst hc
  have hn := absPath_nodots cwd dst hd
  have h1 := extract_contained_resolving _ hne hg hn mask es fs hinv q hq
  refine ⟨h1.1, h1.2, fun ino hlt hout => ?_⟩
  have h2 := extract_contained_inodes_resolving _ hne hg hn mask es fs hinv ino
  refine ⟨(h2.1 hlt hout).1, (h2.1 hlt hout).2, fun h => ?_, fun h => ?_⟩
  · rcases h2.2.1 h with h | h
    · exact hout h
    · omega
  · rcases h2.2.2 h with h | h
    · exact hout h
    · omega

/-- **reproduction for a destination as spelled** (first clause; tar — `extract_reproduces` with `filepath.Abs` inside
    and about the resolving loop the driver executes).  Same hypotheses as `extract_reproduces`, plus `/` a directory. -/
theorem extract_reproduces_spelled (cwd : P) (dst : List Nat) (hc : GoodPath cwd) (hd : NoDots cwd)
    (root : P) (hroot : root = absPath cwd dst) (hne : root ≠ []) (mask : Nat) (es : List Entry) (fs : FS)
    (hw : WF fs) (hio : InoOK fs) (hslash : ∃ m, fs.get [] = some (.dir m))
    (hdst : fs.get root = none ∨ ∃ m, fs.get root = some (.dir m))
    (hanc : ∀ j, 1 ≤ j → j < root.length → fs.get (root.take j) = none ∨ ∃ m, fs.get (root.take j) = some (.dir m))
    (hempty : ∀ c t, fs.get (root ++ c :: t) = none)
    (hentry : ∀ e ∈ es, (∃ c t, cleanJoin root e.name = root ++ c :: t) ∧
      ((e.kind = .reg ∨ e.kind = .dir ∨ e.kind = .symlink ∨ e.kind = .link) ∧ e.short = false ∧
       (e.kind = .symlink → e.link ≠ [])))
    (horder : es.Pairwise (fun a b => ¬ cleanJoin root b.name <+: cleanJoin root a.name ∧
      (cleanJoin root a.name <+: cleanJoin root b.name → a.kind = .dir)))
    (hlinks : ∀ l1 e l2, es = l1 ++ e :: l2 → e.kind = .link →
      ∃ t ∈ l1, (t.kind = .reg ∨ t.kind = .link) ∧ cleanJoin root t.name = cleanJoin root e.link) :
    (tarExtractWithMaskAt fs cwd dst mask es).2 = true ∧
    (∀ e ∈ es, e.kind = .dir →
      (tarExtractWithMaskAt fs cwd dst mask es).1.get (cleanJoin root e.name) = some (.dir (perm e.mode &&& mask))) ∧
    (∀ e ∈ es, e.kind = .reg → ∃ ino nd,
      (tarExtractWithMaskAt fs cwd dst mask es).1.get (cleanJoin root e.name) = some (.file ino) ∧
      (tarExtractWithMaskAt fs cwd dst mask es).1.inodes[ino]? = some nd ∧ nd.data = e.data ∧
      nd.mode = perm e.mode &&& mask) ∧
    (∀ e ∈ es, e.kind = .symlink →
      (tarExtractWithMaskAt fs cwd dst mask es).1.get (cleanJoin root e.name) = some (.symlink e.link)) ∧
    (∀ e ∈ es, e.kind = .link → ∃ ino,
      (tarExtractWithMaskAt fs cwd dst mask es).1.get (cleanJoin root e.name) = some (.file ino) ∧
      (tarExtractWithMaskAt fs cwd dst mask es).1.get (cleanJoin root e.link) = some (.file ino)) ∧
    (∀ c t, (tarExtractWithMaskAt fs cwd dst mask es).1.get (root ++ c :: t) ≠ none ↔
      ∃ e ∈ es, (root ++ c :: t) <+: cleanJoin root e.name) := by
  subst hroot
  have hg := absPath_good cwd dst hc
  have hn := absPath_nodots cwd dst hd
  have hinv : RInv fs (absPath cwd dst) := by
    refine ⟨hw, hslash, fun j hj => ?_, fun t ht => ?_⟩
    · rcases Nat.eq_zero_or_pos j with h0 | h0
      · subst h0; exact Or.inr (by simpa using hslash)
      · exact hanc j h0 hj
    · rcases hdst with h | ⟨m, h⟩ <;> rw [h] at ht <;> cases ht
  have heq := (spelled_is_lexical cwd dst hc hd hne mask es fs hinv).1
  rw [heq]
  have h := extract_reproduces _ hg mask es fs hw hio hdst hanc hempty hentry horder hlinks
  exact ⟨h.1, h.2.1, h.2.2.1, h.2.2.2.1, h.2.2.2.2.1, h.2.2.2.2.2.1⟩

/-- … and zip (`extract_reproduces_zip` with `filepath.Abs` inside, about the executed loop) -/
theorem extract_reproduces_spelled_zip (cwd : P) (dst : List Nat) (hc : GoodPath cwd) (hd : NoDots cwd)
    (root : P) (hroot : root = absPath cwd dst) (hne : root ≠ []) (mask : Nat) (es : List Entry) (fs : FS)
    (hw : WF fs) (hio : InoOK fs) (hslash : ∃ m, fs.get [] = some (.dir m))
    (hdst : fs.get root = none ∨ ∃ m, fs.get root = some (.dir m))
    (hanc : ∀ j, 1 ≤ j → j < root.length → fs.get (root.take j) = none ∨ ∃ m, fs.get (root.take j) = some (.dir m))
    (hempty : ∀ c t, fs.get (root ++ c :: t) = none)
    (hentry : ∀ e ∈ es, (∃ c t, cleanJoin root e.name = root ++ c :: t) ∧
      ((e.kind = .reg ∨ e.kind = .dir ∨ e.kind = .symlink) ∧ e.short = false ∧
       (e.kind = .symlink → e.link ≠ [])))
    (horder : es.Pairwise (fun a b => ¬ cleanJoin root b.name <+: cleanJoin root a.name ∧
      (cleanJoin root a.name <+: cleanJoin root b.name → a.kind = .dir))) :
    (zipExtractWithMaskAt fs cwd dst mask es).2 = true ∧
    (∀ e ∈ es, e.kind = .dir →
      (zipExtractWithMaskAt fs cwd dst mask es).1.get (cleanJoin root e.name) = some (.dir (perm e.mode &&& mask))) ∧
    (∀ e ∈ es, e.kind = .reg → ∃ ino nd,
      (zipExtractWithMaskAt fs cwd dst mask es).1.get (cleanJoin root e.name) = some (.file ino) ∧
      (zipExtractWithMaskAt fs cwd dst mask es).1.inodes[ino]? = some nd ∧ nd.data = e.data ∧
      nd.mode = perm e.mode &&& mask) ∧
    (∀ e ∈ es, e.kind = .symlink →
      (zipExtractWithMaskAt fs cwd dst mask es).1.get (cleanJoin root e.name) = some (.symlink e.link)) ∧
    (∀ e ∈ es, e.kind = .link → ∃ ino,
      (zipExtractWithMaskAt fs cwd dst mask es).1.get (cleanJoin root e.name) = some (.file ino) ∧
      (zipExtractWithMaskAt fs cwd dst mask es).1.get (cleanJoin root e.link) = some (.file ino)) ∧
    (∀ c t, (zipExtractWithMaskAt fs cwd dst mask es).1.get (root ++ c :: t) ≠ none ↔
      ∃ e ∈ es, (root ++ c :: t) <+: cleanJoin root e.name) := by
  subst hroot
  have hg := absPath_good cwd dst hc
  have hn := absPath_nodots cwd dst hd
  have hinv : RInv fs (absPath cwd dst) := by
    refine ⟨hw, hslash, fun j hj => ?_, fun t ht => ?_⟩
    · rcases Nat.eq_zero_or_pos j with h0 | h0
      · subst h0; exact Or.inr (by simpa using hslash)
      · exact hanc j h0 hj
    · rcases hdst with h | ⟨m, h⟩ <;> rw [h] at ht <;> cases ht
  have heq := (spelled_is_lexical cwd dst hc hd hne mask es fs hinv).2
  rw [heq]
  have h := extract_reproduces_zip _ hg mask es fs hw hio hdst hanc hempty hentry horder
  exact ⟨h.1, h.2.1, h.2.2.1, h.2.2.2.1, h.2.2.2.2.1, h.2.2.2.2.2.1⟩

/-- **error propagation on the executed loops, no hypothesis at all** (second clause): for EVERY file system — a
    destination that is a link, below a link, a tree that is not a tree —, every spelling, every mask: an archive that
    contains a header the reader rejects or a regular file whose payload cannot be written in full (stream cut, checksum
    error, failed `write`, failed `close`) is never extracted with a nil error (tar); the same for zip with any
    non-directory entry (file: checksum, short or failed write, failed close; symbolic link: unreadable target).
    And the iteration on such a regular file leaves exactly the tree the complete one leaves (the file is there, with
    the bytes that could be copied). -/
theorem payload_error_resolving (fs : FS) (cwd : P) (dst : List Nat) (mask : Nat) (es : List Entry) (e : Entry)
    (he : e ∈ es) :
    ((e.kind = .corrupt ∨ (e.short = true ∧ e.kind = .reg)) → (tarExtractWithMaskAt fs cwd dst mask es).2 = false) ∧
    ((e.short = true ∧ e.kind ≠ .dir) → (zipExtractWithMaskAt fs cwd dst mask es).2 = false) ∧
    (∀ fs' root, (tarOneR fs' root mask { e with short := true }).1 = (tarOneR fs' root mask { e with short := false }).1) := by
  refine ⟨fun h => ?_, fun h => ?_, fun fs' root => tarOneG_short_tree true fs' root mask e⟩
  · refine extractWith_false_of_mem (fun fs e => tarOneR fs (absPath cwd dst) mask e) e ?_ es he fs
    intro fs'
    rcases h with h | ⟨h1, h2⟩
    · simp [tarOneR, tarOneG_corrupt true fs' _ mask e h]
    · exact tarOneG_short true fs' _ mask e h1 h2
  · exact extractWith_false_of_mem (fun fs e => zipOneR fs (absPath cwd dst) mask e) e
      (fun fs' => zipOneG_short true fs' _ mask e h.1 h.2) es he fs

/-- *`filepath.Rel` as the guard uses it* (`Ex.relParts`; the guard `Ex.ensureNoSymlinksR` is modelled for every pair of
    clean absolute paths and compared directly with `internal.EnsureNoSymlinks` in area `guard`): joining the parts
    back to the root one after the other — which is what the guard's loop does, `cur = filepath.Join(cur, part)` —
    arrives exactly at the path, so the LAST `Lstat` of an unfinished walk is the path itself; and for a path at or below
    the root (all the extractors ever pass, `lexical_check_spec`) the parts are `.` or the components below the root, so
    every `Lstat` is at a prefix of the path strictly below the root — the guard never looks at (or above) the
    destination's ancestors -/
theorem guard_rel_spec (root p : P) (hd : NoDots p) :
    (relParts root p).foldl cleanStep root = p ∧
    (root <+: p → relParts root p = if p = root then [[46]] else p.drop root.length) ∧
    (¬ root <+: p → p ≠ root → 1 ≤ root.length - commonLen root p ∧ (relParts root p).head? = some [46, 46]) := by
  refine ⟨relParts_join root p hd, relParts_of_prefix root p, fun hnp hne => ?_⟩
  have hle := commonLen_le root p
  have hlt : commonLen root p < root.length := by
    rcases Nat.lt_or_ge (commonLen root p) root.length with h | h
    · exact h
    · exfalso; apply hnp
      have e : commonLen root p = root.length := by omega
      have := commonLen_take root p
      rw [e, List.take_length] at this
      rw [this]; exact List.take_prefix _ _
  refine ⟨by omega, ?_⟩
  unfold relParts
  rw [if_neg hne]
  obtain ⟨k, hk⟩ : ∃ k, root.length - commonLen root p = k + 1 := ⟨root.length - commonLen root p - 1, by omega⟩
  rw [hk, List.replicate_succ]
  rfl

/-- `Rel("/a/b", "/a/c/d")` = `../c/d`, `Rel("/a/b", "/a")` = `..`, `Rel("/d", "/d")` = `.`, `Rel("/d", "/d/x/y")` = `x/y` -/
example : relParts [[97], [98]] [[97], [99], [100]] = [[46, 46], [99], [100]] ∧ relParts [[97], [98]] [[97]] = [[46, 46]] ∧
    relParts [[100]] [[100]] = [[46]] ∧ relParts [[100]] [[100], [120], [121]] = [[120], [121]] := by decide

/-! ## Contrast: each mechanism is necessary

`Ex.tarOneV m` / `Ex.zipOneV m` (Lemmas/ExtractVariants.lean) are the loop bodies with each protective mechanism behind a
switch of `m : Mech`; with all switches on they ARE the executed loop bodies (`variant_is_code`).  For every switch, a
concrete archive on which the extractor without that mechanism violates the property while the code does not.  (The guard
switch is `guardless_escapes` above.) -/

/-- the variant family is anchored: all switches on = the loop bodies the driver executes; the guard switch alone = the
    `guarded` flag of `guardless_escapes` -/
theorem variant_is_code :
    tarOneV Mech.code = tarOneR ∧ zipOneV Mech.code = zipOneR ∧ tarExtractV Mech.code = tarExtractR ∧
    zipExtractV Mech.code = zipExtractR ∧ ∀ g, tarOneV { guard := g } = tarOneG g :=
  ⟨tarOneV_code, zipOneV_code, tarExtractV_code, zipExtractV_code, tarOneV_guard⟩

/-- `../e/x` -/
def attackDotDot : List Entry := [{ kind := .reg, name := [46, 46, 47, 101, 47, 120], data := [1] }]
/-- `../d-evil/x`: the sibling whose name begins with the destination's name -/
def attackSibling : List Entry := [{ kind := .reg, name := [46, 46, 47, 100, 45, 101, 118, 105, 108, 47, 120], data := [1] }]
/-- the hard link `h => ../e/v`, then the file `h` -/
def attackHardLink : List Entry :=
  [{ kind := .link, name := [104], link := [46, 46, 47, 101, 47, 118] }, { kind := .reg, name := [104], data := [6, 6] }]
/-- a file whose payload is cut short after one byte -/
def cutArchive : List Entry := [{ kind := .reg, name := [97], data := [1], short := true }]

/-- **the lexical test of the entry path is necessary**: without it `../e/x` is created outside (no link involved, the
    guard has nothing to refuse); the code refuses the entry and creates nothing -/
theorem unchecked_name_escapes :
    (tarExtractV { nameCheck := false } worldFs demoRoot 0o777 attackDotDot).2 = true ∧
    (tarExtractV { nameCheck := false } worldFs demoRoot 0o777 attackDotDot).1.get [[101], [120]] ≠ none ∧
    (zipExtractV { nameCheck := false } worldFs demoRoot 0o777 attackDotDot).1.get [[101], [120]] ≠ none ∧
    (tarExtractR worldFs demoRoot 0o777 attackDotDot).2 = false ∧
    (tarExtractR worldFs demoRoot 0o777 attackDotDot).1.get [[101], [120]] = none ∧
    (zipExtractR worldFs demoRoot 0o777 attackDotDot).2 = false ∧
    (zipExtractR worldFs demoRoot 0o777 attackDotDot).1.get [[101], [120]] = none := by
  decide

/-- **the trailing separator of the prefix is necessary**: tested against `root` instead of `root + "/"`, every
    ordinary escape is still refused (`../e/x`) but `../d-evil/x` — a sibling whose name merely begins with the
    destination's — passes and is created beside the destination; the code refuses it -/
theorem prefix_without_separator_escapes :
    (tarExtractV { sep := false } worldFs demoRoot 0o777 attackDotDot).2 = false ∧
    (tarExtractV { sep := false } worldFs demoRoot 0o777 attackSibling).2 = true ∧
    (tarExtractV { sep := false } worldFs demoRoot 0o777 attackSibling).1.get
      [[100, 45, 101, 118, 105, 108], [120]] ≠ none ∧
    (zipExtractV { sep := false } worldFs demoRoot 0o777 attackSibling).1.get
      [[100, 45, 101, 118, 105, 108], [120]] ≠ none ∧
    (tarExtractR worldFs demoRoot 0o777 attackSibling).2 = false ∧
    (tarExtractR worldFs demoRoot 0o777 attackSibling).1.get [[100, 45, 101, 118, 105, 108]] = none ∧
    (zipExtractR worldFs demoRoot 0o777 attackSibling).2 = false ∧
    (zipExtractR worldFs demoRoot 0o777 attackSibling).1.get [[100, 45, 101, 118, 105, 108]] = none := by
  decide

/-- **the lexical test of the hard-link target is necessary**: without it the outside file `/e/v` is linked into the
    destination and the next entry replaces its content; the code refuses the link entry, `/e/v` keeps its content.
    (The guard is on in both: its `filepath.Rel` gives `../e/v`, the walk `Lstat`s `/`, `/e`, `/e/v` — `guard_rel_spec` —
    and meets no symbolic link.) -/
theorem unchecked_linkname_escapes :
    (tarExtractV { linkCheck := false } worldFs demoRoot 0o777 attackHardLink).2 = true ∧
    (tarExtractV { linkCheck := false } worldFs demoRoot 0o777 attackHardLink).1.get [[100], [104]] = some (.file 0) ∧
    (tarExtractV { linkCheck := false } worldFs demoRoot 0o777 attackHardLink).1.inodes[0]? =
      some { data := [6, 6], mode := 0o644 } ∧
    (tarExtractR worldFs demoRoot 0o777 attackHardLink).2 = false ∧
    (tarExtractR worldFs demoRoot 0o777 attackHardLink).1.get [[100], [104]] = none ∧
    (tarExtractR worldFs demoRoot 0o777 attackHardLink).1.inodes[0]? = some { data := [7], mode := 0o644 } := by
  decide

/-- **returning the copy error is necessary** (the tar extractor before the fix ignored it): without it an archive
    whose payload is cut short is extracted with a nil error, the incomplete file in place; the code returns the error
    (the same incomplete file is there, `payload_error_resolving`) -/
theorem ignored_copy_error_is_silent :
    (tarExtractV { copyErr := false } worldFs demoRoot 0o777 cutArchive).2 = true ∧
    (zipExtractV { copyErr := false } worldFs demoRoot 0o777 cutArchive).2 = true ∧
    (tarExtractR worldFs demoRoot 0o777 cutArchive).2 = false ∧
    (zipExtractR worldFs demoRoot 0o777 cutArchive).2 = false ∧
    (tarExtractR worldFs demoRoot 0o777 cutArchive).1.get [[100], [97]] =
      (tarExtractV { copyErr := false } worldFs demoRoot 0o777 cutArchive).1.get [[100], [97]] := by
  decide

/-- `payload_error_resolving` needs nothing of the tree: here the destination `/d` is a symbolic link to `/e`; the cut
    file is an error (and lands, incomplete, in the physical place `/e/a`) -/
example : (tarExtractWithMaskAt
    { nodes := [([], .dir 0o755), ([[101]], .dir 0o755), ([[100]], .symlink [47, 101])] } [] [47, 100] 0o777 cutArchive).2 = false ∧
    (tarExtractWithMaskAt
    { nodes := [([], .dir 0o755), ([[101]], .dir 0o755), ([[100]], .symlink [47, 101])] } [] [47, 100] 0o777 cutArchive).1.get
      [[101], [97]] = some (.file 0) := by decide

/-- a fifo `s/x` (a kind the tar extractor skips: nothing is created, not even `s`), the link `s -> /e`, the file `s/y` -/
def attackGhost : List Entry :=
  [{ kind := .other, name := [115, 47, 120] }, { kind := .symlink, name := [115], link := [47, 101] },
   { kind := .reg, name := [115, 47, 121], data := [1] }]

/-- **every entry path must be walked from the root, every time** (round 7): a loop that REMEMBERS the parent
    directories the guard has walked and then looks at the entry's own name only (`Ex.tarExtractVet`; with nothing
    remembered an iteration is the code's, `tarOneVet_nil`) writes `/e/y` outside the destination through the link — the
    skipped entry `s/x` made it remember `s` without creating it, the link entry then took that name.  The same loop
    refuses the archive without the skipped entry (the shape matters), and the code refuses both and creates nothing;
    a skipped entry itself changes nothing and creates no ancestors (`skipped_flag_noop`). -/
theorem remembered_parent_escapes :
    (tarExtractVet [] worldFs demoRoot 0o777 attackGhost).2 = true ∧
    (tarExtractVet [] worldFs demoRoot 0o777 attackGhost).1.get [[101], [121]] ≠ none ∧
    (tarExtractVet [] worldFs demoRoot 0o777 attackGhost.tail).2 = false ∧
    (tarExtractR worldFs demoRoot 0o777 attackGhost).2 = false ∧
    (tarExtractR worldFs demoRoot 0o777 attackGhost).1.get [[101], [121]] = none ∧
    (tarExtractR worldFs demoRoot 0o777 (attackGhost.take 1)).2 = true ∧
    (tarExtractR worldFs demoRoot 0o777 (attackGhost.take 1)).1.get [[100], [115]] = none ∧
    (∀ fs root mask e, (tarOneVet [] fs root mask e).1 = tarOneR fs root mask e) :=
  ⟨by decide, by decide, by decide, by decide, by decide, by decide, by decide, tarOneVet_nil⟩

/-! ## The copy step as system calls: failing `write(2)` and `close(2)`

`Ex.tarOneF` / `Ex.zipOneF` (Model/ExtractR.lean) are the loop bodies with `extractFile` spelled out as `OpenFile`, the
`write`s of `io.Copy` and the deferred `Close` (`Ex.extractFileR`: `openTruncR`, `ioCopy`, `writeFd`, `deferredClose`), under
destination-side faults `Ex.Faults`: a write limit (the write that would cross it stores the bytes up to it and fails)
and paths whose `close` fails.  The driver executes these bodies for every line; the write-limit (`w:`) and close-fault
(`cf:`) lines are answered by them.  `Entry.short` is the READER-side fault only (truncated stream, checksum). -/

/-- *the loops with the copy step as system calls are the loops of the other theorems on the entries as the copy step
    leaves them* (payload = the bytes that reached the file, `short` = the copy step was an error), and without faults
    they are those loops themselves — so every theorem about `tarExtractR` / `zipExtractR` speaks about them -/
theorem copy_step_is_syscalls (flt : Faults) (fs : FS) (root : P) (mask : Nat) (es : List Entry) :
    tarExtractF flt fs root mask es = tarExtractR fs root mask (es.map (tarFaulted flt root)) ∧
    zipExtractF flt fs root mask es = zipExtractR fs root mask (es.map (zipFaulted flt root)) ∧
    tarExtractF {} fs root mask es = tarExtractR fs root mask es ∧
    zipExtractF {} fs root mask es = zipExtractR fs root mask es :=
  ⟨tarExtractF_eq flt fs root mask es, zipExtractF_eq flt fs root mask es, tarExtractF_nofault fs root mask es,
   zipExtractF_nofault fs root mask es⟩

/-- *what the copy step does*: the bytes that reach the file are the readable payload cut at the write limit; the step
    is an error when the reader reported one, a write hit the limit, or — everything written — the close failed
    (`if closeErr != nil && err == nil { err = closeErr }`) -/
theorem copy_step_spec (flt : Faults) (path : P) (e : Entry) :
    (afterCopy flt path e).data = (match flt.writeLimit with | some k => e.data.take k | none => e.data) ∧
    (((∃ k, flt.writeLimit = some k ∧ e.data.length > k) ∨ flt.closeFails.contains path = true ∨ e.short = true) →
      (afterCopy flt path e).short = true) ∧
    ((afterCopy flt path e).short = true →
      (∃ k, flt.writeLimit = some k ∧ e.data.length > k) ∨ flt.closeFails.contains path = true ∨ e.short = true) := by
  refine ⟨afterCopy_data flt path e, afterCopy_short flt path e, ?_⟩
  unfold afterCopy ioCopy deferredClose
  cases hw : flt.writeLimit with
  | none =>
    cases hs : e.short <;> cases hc : flt.closeFails.contains path <;> simp_all
  | some k =>
    by_cases hl : e.data.length > k
    · intro _; exact Or.inl ⟨k, rfl, hl⟩
    · simp only [gt_iff_lt] at hl ⊢
      simp only [hl, ↓reduceIte]
      cases hs : e.short <;> cases hc : flt.closeFails.contains path <;> simp_all

/-- **a failing `write` and a failing `close` are errors** (second clause, the destination side; every file system,
    root, mask and archive, no hypothesis): if a regular-file entry's readable payload is longer than the write limit,
    or the close of the file at its path fails, the extraction — tar and zip — does not return nil -/
theorem write_close_fault_is_error (flt : Faults) (fs : FS) (root : P) (mask : Nat) (es : List Entry) (e : Entry)
    (he : e ∈ es) (hk : e.kind = .reg)
    (hf : (∃ k, flt.writeLimit = some k ∧ e.data.length > k) ∨ flt.closeFails.contains (cleanJoin root e.name) = true) :
    (tarExtractF flt fs root mask es).2 = false ∧ (zipExtractF flt fs root mask es).2 = false := by
  have hs : (afterCopy flt (cleanJoin root e.name) e).short = true :=
    afterCopy_short flt _ e (hf.elim Or.inl (fun h => Or.inr (Or.inl h)))
  constructor
  · refine extractWith_false_of_mem (fun fs e => tarOneF flt fs root mask e) e (fun fs' => ?_) es he fs
    rw [tarOneF_eq]
    have : tarFaulted flt root e = afterCopy flt (cleanJoin root e.name) e := by simp [tarFaulted, hk]
    rw [this]
    exact tarOneG_short true fs' root mask _ hs hk
  · refine extractWith_false_of_mem (fun fs e => zipOneF flt fs root mask e) e (fun fs' => ?_) es he fs
    rw [zipOneF_eq]
    have : zipFaulted flt root e = afterCopy flt (cleanJoin root e.name) e := by simp [zipFaulted, hk]
    rw [this]
    exact zipOneG_short true fs' root mask _ hs (by show e.kind ≠ .dir; rw [hk]; decide)

/-- the file `a` with payload 1 2 3 -/
def threeBytes : List Entry := [{ kind := .reg, name := [97], data := [1, 2, 3] }]

/-- **the result of `Close` must not be dropped** (contrast; `seeded/own-c19-15`, `-16`): with the close of `/d/a` failing
    and everything written, `extractFile` without the deferred-close logic reports success where the code's reports an
    error — the same file is there in both; and the faults are real: the limit 2 leaves two bytes and an error, no fault
    leaves three bytes and no error -/
theorem dropped_close_result_is_silent :
    (extractFileNoClose { closeFails := [[[100], [97]]] } worldFs [[100], [97]] 0o644 [1, 2, 3] false).2 = true ∧
    (extractFileR { closeFails := [[[100], [97]]] } worldFs [[100], [97]] 0o644 [1, 2, 3] false).2 = false ∧
    (extractFileR { closeFails := [[[100], [97]]] } worldFs [[100], [97]] 0o644 [1, 2, 3] false).1.inodes[1]? =
      some { data := [1, 2, 3], mode := 0o644 } ∧
    (tarExtractF { closeFails := [[[100], [97]]] } worldFs demoRoot 0o777 threeBytes).2 = false ∧
    (zipExtractF { closeFails := [[[100], [97]]] } worldFs demoRoot 0o777 threeBytes).2 = false ∧
    (tarExtractF { writeLimit := some 2 } worldFs demoRoot 0o777 threeBytes).2 = false ∧
    (tarExtractF { writeLimit := some 2 } worldFs demoRoot 0o777 threeBytes).1.inodes[1]? =
      some { data := [1, 2], mode := 0o644 } ∧
    (tarExtractF {} worldFs demoRoot 0o777 threeBytes).2 = true ∧
    (tarExtractF { writeLimit := some 3 } worldFs demoRoot 0o777 threeBytes).2 = true := by
  decide

/-- the hypotheses of the spelled theorems hold together: from `/e` the spelling `../d/.` names the destination `/d` of
    `worldFs` -/
example : absPath [[101]] [46, 46, 47, 100, 47, 46] = demoRoot := by decide
example : GoodPath [[101]] ∧ NoDots [[101]] := by
  constructor <;> intro c hc <;> simp at hc <;> subst hc <;> exact ⟨by decide, by decide⟩
example : (tarExtractWithMaskAt worldFs [[101]] [46, 46, 47, 100, 47, 46] 0o750
    [{ kind := .reg, name := [97], data := [1, 2] }]).1.get [[100], [97]] = some (.file 1) := by decide

end C19
