import Lemmas.U128Div
import Lemmas.U128DivBin
import Lemmas.U128Knuth
import Lemmas.I128Basic
import Lemmas.I128Div
import Lemmas.I128DivW
/-! # C01 — 128-bit integer arithmetic, ordering and bit operations are ℤ mod 2^128

Property theorems only.  The executable models are `Model/U128.lean` (`num.Uint128`) and `Model/I128.lean` (`num.Int128`),
the same definitions the driver `drv_c01` runs against the Go code on every check; helper lemmas are in
`Lemmas/U128*.lean`, `Lemmas/I128*.lean`.  `toNat u = hi·2^64 + lo`, `toInt i` = two's complement, `bv u : BitVec 128`.
Every theorem quantifies over all operands (no size bound), all shift counts, all bit indexes.

Division: the dispatch (÷0 panic, ÷1, 64-bit fast path, power of two, `u < n`, `u = n`, selection of a kernel) and all
three kernels are proved: `divmod128bin` (`divmod128bin_spec`), `divmod128by64` — Knuth D on 32-bit digits with its two
correction loops — (`divmod128by64_spec`) and the estimate-and-correct branch of `divmod128by128`
(`divmod128by128_spec`).  Hence `divMod_spec`, `div_mul_add_mod`, `idivMod_spec`, `idiv_mul_add_mod` hold for every
operand pair with no hypothesis other than a non-zero divisor. -/
namespace C01
open U128 (W Res ofW)

/-! ## unsigned: add, subtract, multiply -/

/-- `Add` returns the sum reduced mod 2^128 -/
theorem add_spec (a b : U128) : (a.add b).toNat = (a.toNat + b.toNat) % 2^128 := U128.add_toNat a b
/-- `Add64` (64-bit operand variant) -/
theorem add64_spec (a : U128) (n : W) : (a.addW n).toNat = (a.toNat + n.toNat) % 2^128 := U128.addW_toNat a n
/-- `Sub` returns the difference reduced mod 2^128 -/
theorem sub_spec (a b : U128) : (a.sub b).toNat = (a.toNat + 2^128 - b.toNat) % 2^128 := U128.sub_toNat a b
/-- `Sub64` -/
theorem sub64_spec (a : U128) (n : W) : (a.subW n).toNat = (a.toNat + 2^128 - n.toNat) % 2^128 := U128.subW_toNat a n
/-- `Inc` -/
theorem inc_spec (a : U128) : a.inc.toNat = (a.toNat + 1) % 2^128 := U128.inc_toNat a
/-- `Dec` -/
theorem dec_spec (a : U128) : a.dec.toNat = (a.toNat + 2^128 - 1) % 2^128 := U128.dec_toNat a
/-- `Mul` returns the product reduced mod 2^128 -/
theorem mul_spec (a b : U128) : (a.mul b).toNat = (a.toNat * b.toNat) % 2^128 := U128.mul_toNat a b
/-- `Mul64` (its own 32-bit schoolbook code in the source) -/
theorem mul64_spec (a : U128) (n : W) : (a.mulW n).toNat = (a.toNat * n.toNat) % 2^128 := U128.mulW_toNat a n

/-! ## unsigned: comparisons agree with the order of the values -/

/-- `Cmp` -/
theorem cmp_spec (a b : U128) :
    a.cmp b = if a.toNat < b.toNat then -1 else if a.toNat = b.toNat then 0 else 1 := U128.cmp_eq a b
/-- `Cmp64` -/
theorem cmp64_spec (a : U128) (n : W) :
    a.cmpW n = if a.toNat < n.toNat then -1 else if a.toNat = n.toNat then 0 else 1 := U128.cmpW_eq a n
/-- `LessThan` -/
theorem lessThan_spec (a b : U128) : a.lessThan b = decide (a.toNat < b.toNat) := U128.lessThan_eq a b
/-- `LessThanOrEqual` -/
theorem lessThanOrEqual_spec (a b : U128) : a.lessThanOrEqual b = decide (a.toNat ≤ b.toNat) :=
  U128.lessThanOrEqual_eq a b
/-- `GreaterThan` -/
theorem greaterThan_spec (a b : U128) : a.greaterThan b = decide (a.toNat > b.toNat) := U128.greaterThan_eq a b
/-- `GreaterThanOrEqual` -/
theorem greaterThanOrEqual_spec (a b : U128) : a.greaterThanOrEqual b = decide (a.toNat ≥ b.toNat) :=
  U128.greaterThanOrEqual_eq a b
/-- `Equal` -/
theorem equal_spec (a b : U128) : a.equal b = decide (a.toNat = b.toNat) := U128.equal_eq a b
/-- `LessThan64` -/
theorem lessThan64_spec (a : U128) (n : W) : a.lessThanW n = decide (a.toNat < n.toNat) := U128.lessThanW_eq a n
/-- `LessThanOrEqual64` -/
theorem lessThanOrEqual64_spec (a : U128) (n : W) : a.lessThanOrEqualW n = decide (a.toNat ≤ n.toNat) :=
  U128.lessThanOrEqualW_eq a n
/-- `GreaterThan64` -/
theorem greaterThan64_spec (a : U128) (n : W) : a.greaterThanW n = decide (a.toNat > n.toNat) :=
  U128.greaterThanW_eq a n
/-- `GreaterThanOrEqual64` -/
theorem greaterThanOrEqual64_spec (a : U128) (n : W) : a.greaterThanOrEqualW n = decide (a.toNat ≥ n.toNat) :=
  U128.greaterThanOrEqualW_eq a n
/-- `Equal64` -/
theorem equal64_spec (a : U128) (n : W) : a.equalW n = decide (a.toNat = n.toNat) := U128.equalW_eq a n
/-- `IsZero` -/
theorem isZero_spec (a : U128) : a.isZero = decide (a.toNat = 0) := U128.isZero_eq a
/-- `IsUint64` -/
theorem isUint64_spec (a : U128) : a.isUint64 = decide (a.toNat < 2^64) := U128.isUint64_eq a

/-! ## bitwise operations agree with the 128-bit binary representation -/

/-- `bv` is the binary representation of the value -/
theorem bv_value (a : U128) : a.bv.toNat = a.toNat := U128.bv_toNat a
/-- bit `i` of the value is bit `i` of `bv` -/
theorem bv_testBit (a : U128) (i : Nat) : a.toNat.testBit i = a.bv.getLsbD i := U128.testBit_eq a i
/-- `And` -/
theorem and_spec (a b : U128) : (a.and b).bv = a.bv &&& b.bv := U128.and_bv a b
/-- `Or` -/
theorem or_spec (a b : U128) : (a.or b).bv = a.bv ||| b.bv := U128.or_bv a b
/-- `Xor` -/
theorem xor_spec (a b : U128) : (a.xor b).bv = a.bv ^^^ b.bv := U128.xor_bv a b
/-- `Not` -/
theorem not_spec (a : U128) : a.not.bv = ~~~a.bv := U128.not_bv a
/-- `AndNot` -/
theorem andNot_spec (a b : U128) : (a.andNot b).bv = a.bv &&& ~~~b.bv := U128.andNot_bv a b
/-- `And64`: and with the zero-extended word -/
theorem and64_spec (a : U128) (n : W) : (a.andW n).bv = a.bv &&& (ofW n).bv := by rw [U128.andW_eq, U128.and_bv]
/-- `Or64` -/
theorem or64_spec (a : U128) (n : W) : (a.orW n).bv = a.bv ||| (ofW n).bv := by rw [U128.orW_eq, U128.or_bv]
/-- `Xor64` -/
theorem xor64_spec (a : U128) (n : W) : (a.xorW n).bv = a.bv ^^^ (ofW n).bv := by rw [U128.xorW_eq, U128.xor_bv]
/-- `AndNot64` (takes a `Uint128` in the source and uses its low word, Appendix B) -/
theorem andNot64_spec (a b : U128) : (a.andNot64 b).bv = a.bv &&& ~~~(ofW b.lo).bv := by
  rw [U128.andNot64_eq, U128.andNot_bv]

/-! ## shifts, for every count (also ≥ 128) -/

/-- `LeftShift` on the representation -/
theorem shl_bv (a : U128) (n : Nat) : (a.leftShift n).bv = a.bv <<< n := U128.leftShift_bv a n
/-- `RightShift` on the representation -/
theorem shr_bv (a : U128) (n : Nat) : (a.rightShift n).bv = a.bv >>> n := U128.rightShift_bv a n
/-- `LeftShift` on the value -/
theorem shl_spec (a : U128) (n : Nat) : (a.leftShift n).toNat = (a.toNat * 2^n) % 2^128 := U128.leftShift_toNat a n
/-- `RightShift` on the value -/
theorem shr_spec (a : U128) (n : Nat) : (a.rightShift n).toNat = a.toNat / 2^n := U128.rightShift_toNat a n

/-! ## bit queries -/

/-- `Bit(i)` for every `int` index (0 outside 0..127) -/
theorem bit_spec (a : U128) (i : Int) :
    a.bit i = if 0 ≤ i ∧ i < 128 ∧ a.toNat.testBit i.toNat then 1 else 0 := U128.bit_eq a i
/-- `SetBit(i, b)`: bit `i` becomes `b ≠ 0`, all other bits unchanged, out-of-range indexes change nothing -/
theorem setBit_spec (a : U128) (i : Int) (b : Nat) (j : Nat) :
    (a.setBit i b).bv.getLsbD j = if 0 ≤ i ∧ i < 128 ∧ j = i.toNat then decide (b ≠ 0) else a.bv.getLsbD j :=
  U128.setBit_getLsbD a i b j
/-- `BitLen` is the bit length: the value is below `2^BitLen`, and at least `2^(BitLen-1)` when non-zero -/
theorem bitLen_spec (a : U128) :
    a.bitLen ≤ 128 ∧ a.toNat < 2 ^ a.bitLen ∧ (a.toNat ≠ 0 → 2 ^ (a.bitLen - 1) ≤ a.toNat) :=
  ⟨U128.bitLen_le a, U128.bitLen_upper a, U128.bitLen_lower a⟩
/-- `LeadingZeros` = 128 − bit length -/
theorem leadingZeros_spec (a : U128) : a.leadingZeros = 128 - a.bitLen := U128.leadingZeros_eq a
/-- `TrailingZeros` of zero is 128 … -/
theorem trailingZeros_zero (a : U128) (h : a.toNat = 0) : a.trailingZeros = 128 := U128.trailingZeros_zero a h
/-- … and otherwise the index of the lowest set bit -/
theorem trailingZeros_spec (a : U128) (h : a.toNat ≠ 0) :
    a.trailingZeros < 128 ∧ a.toNat.testBit a.trailingZeros = true ∧
      ∀ j, j < a.trailingZeros → a.toNat.testBit j = false := U128.trailingZeros_spec a h
/-- `OnesCount` is the number of set bits (this is the statement the fixed defect violated) -/
theorem onesCount_spec (a : U128) : a.onesCount = (List.range 128).countP (fun i => a.toNat.testBit i) :=
  U128.onesCount_eq a

/-! ## unsigned division -/

/-- division or remainder by zero panics (all six entry points) -/
theorem div_zero_panics (a n : U128) (h : n.toNat = 0) :
    a.div n = .panic ∧ a.mod n = .panic ∧ a.divMod n = .panic ∧
    a.divW 0#64 = .panic ∧ a.modW 0#64 = .panic ∧ a.divModW 0#64 = .panic := by
  have h3 := (U128.divMod_panic_iff a n).mpr h
  refine ⟨?_, ?_, h3, ?_, ?_, ?_⟩
  · rw [U128.div_eq_divMod, h3]; rfl
  · rw [U128.mod_eq_divMod, h3]; rfl
  · simp [U128.divW]
  · simp [U128.modW]
  · simp [U128.divModW]

/-- … and nothing else does: `DivMod` panics only for a zero divisor.  (Every other model function is total and has
    no `panic` in its result type, so "no other operation ever panics" holds of the model by construction.) -/
theorem no_other_panic (a n : U128) (h : n.toNat ≠ 0) :
    a.divMod n ≠ .panic ∧ a.div n ≠ .panic ∧ a.mod n ≠ .panic := by
  have h3 : a.divMod n ≠ .panic := fun e => h ((U128.divMod_panic_iff a n).mp e)
  refine ⟨h3, ?_, ?_⟩
  · rw [U128.div_eq_divMod]; cases hd : a.divMod n with
    | ok v => simp [U128.Res.map]
    | panic => exact absurd hd h3
  · rw [U128.mod_eq_divMod]; cases hd : a.divMod n with
    | ok v => simp [U128.Res.map]
    | panic => exact absurd hd h3

/-- `Div` (a separate copy of the dispatch in the source) is the quotient of `DivMod` -/
theorem div_eq_fst_divMod (a n : U128) : a.div n = (a.divMod n).map Prod.fst := U128.div_eq_divMod a n
/-- `Mod` (a third copy) is the remainder of `DivMod` -/
theorem mod_eq_snd_divMod (a n : U128) : a.mod n = (a.divMod n).map Prod.snd := U128.mod_eq_divMod a n
/-- `DivMod64`, `Div64`, `Mod64` (three more copies) are the 128-bit routines on the zero-extended divisor -/
theorem div64_eq (a : U128) (n : W) :
    a.divModW n = a.divMod (ofW n) ∧ a.divW n = a.div (ofW n) ∧ a.modW n = a.mod (ofW n) :=
  ⟨U128.divModW_eq a n, U128.divW_eq a n, U128.modW_eq a n⟩

/-- `divMod_spec` on every path that does not enter a kernel — divisor 1, both operands below 2^64, divisor a power of
    two, dividend ≤ divisor — with no hypothesis -/
theorem divMod_spec_fast (a n : U128) (h : n.toNat ≠ 0)
    (hp : n.toNat = 1 ∨ (a.toNat < 2^64 ∧ n.toNat < 2^64) ∨ n.leadingZeros + n.trailingZeros = 127 ∨
      a.toNat ≤ n.toNat) :
    ∃ q r, a.divMod n = .ok (q, r) ∧ q.toNat = a.toNat / n.toNat ∧ r.toNat = a.toNat % n.toNat :=
  U128.divMod_fast a n h hp

/-- the kernel `divmod128bin` (shift-and-subtract) meets its contract: proved, no hypothesis -/
theorem divmod128bin_spec : U128.DivBinSpec := U128.divBinSpec

/-- `divMod_spec` on the binary path (leading-zero gap of the operands not above `divBinaryShiftThreshold`), with no
    hypothesis -/
theorem divMod_spec_bin (a n : U128) (h : n.toNat ≠ 0)
    (hgap : ¬ n.leadingZeros - a.leadingZeros > U128.threshold) :
    ∃ q r, a.divMod n = .ok (q, r) ∧ q.toNat = a.toNat / n.toNat ∧ r.toNat = a.toNat % n.toNat :=
  U128.divMod_bin a n h hgap

/-- the kernel `divmod128by64` (Knuth Algorithm D on 32-bit digits, both correction loops), called with the divisor's
    leading-zero count and a dividend whose high word is below the divisor, returns floor quotient and remainder:
    proved, no hypothesis -/
theorem divmod128by64_spec (u : U128) (n : W) (hn : n ≠ 0#64) (hlt : u.hi.toNat < n.toNat) :
    (U128.divmod128by64 u n (U128.clz n)).1.toNat = u.toNat / n.toNat ∧
    (U128.divmod128by64 u n (U128.clz n)).2.toNat = u.toNat % n.toNat := U128.divlu64Spec u n hn hlt

/-- the estimate-and-correct branch of `divmod128by128` (divisor wider than one word: normalise, estimate the quotient
    from the top words with `divmod128by64`, shift, decrement, multiply back, one correction) returns floor quotient
    and remainder for EVERY dividend (the dispatch sends only dividends above the divisor; the kernel is also right
    below and at the divisor, where the estimate is 0, 1 or 2): proved, no hypothesis on the dividend -/
theorem divmod128by128_spec (u n : U128) (hn : n.hi ≠ 0#64) :
    (U128.divmod128by128 u n (U128.clz n.hi) 0).1.toNat = u.toNat / n.toNat ∧
    (U128.divmod128by128 u n (U128.clz n.hi) 0).2.toNat = u.toNat % n.toNat := U128.div128Spec u n hn

/-- **`DivMod` returns floor quotient and remainder for every non-zero divisor** (dispatch, fast paths, the reduction of
    the word-divisor case to `divmod128by64` with the high/low split, and all three kernels are proved) -/
theorem divMod_spec (a n : U128) (h : n.toNat ≠ 0) :
    ∃ q r, a.divMod n = .ok (q, r) ∧ q.toNat = a.toNat / n.toNat ∧ r.toNat = a.toNat % n.toNat :=
  U128.divMod_total a n h

/-- `Div`, `Mod` and the three `…64` entry points return the same floor quotient / remainder -/
theorem div_mod_spec (a n : U128) (h : n.toNat ≠ 0) :
    (∃ q, a.div n = .ok q ∧ q.toNat = a.toNat / n.toNat) ∧ (∃ r, a.mod n = .ok r ∧ r.toNat = a.toNat % n.toNat) := by
  obtain ⟨q, r, e, hq, hr⟩ := U128.divMod_total a n h
  constructor
  · exact ⟨q, by rw [U128.div_eq_divMod, e]; rfl, hq⟩
  · exact ⟨r, by rw [U128.mod_eq_divMod, e]; rfl, hr⟩

/-- quotient·divisor + remainder reproduces the dividend, and the remainder is smaller than the divisor -/
theorem div_mul_add_mod (a n : U128) (h : n.toNat ≠ 0) :
    ∃ q r, a.divMod n = .ok (q, r) ∧ q.toNat * n.toNat + r.toNat = a.toNat ∧ r.toNat < n.toNat := by
  obtain ⟨q, r, e, hq, hr⟩ := U128.divMod_total a n h
  refine ⟨q, r, e, ?_, ?_⟩
  · rw [hq, hr, Nat.mul_comm]; exact Nat.div_add_mod _ _
  · rw [hr]; exact Nat.mod_lt _ (by omega)

/-! ## signed layer (two's complement) -/

/-- `Int128.Add` -/
theorem iadd_spec (a b : I128) : (a.add b).toInt = I128.wrap128 (a.toInt + b.toInt) := I128.add_toInt a b
/-- `Int128.Sub` -/
theorem isub_spec (a b : I128) : (a.sub b).toInt = I128.wrap128 (a.toInt - b.toInt) := I128.sub_toInt a b
/-- `Int128.Mul` -/
theorem imul_spec (a b : I128) : (a.mul b).toInt = I128.wrap128 (a.toInt * b.toInt) := I128.mul_toInt a b
/-- `Int128.Inc` -/
theorem iinc_spec (a : I128) : a.inc.toInt = I128.wrap128 (a.toInt + 1) := I128.inc_toInt a
/-- `Int128.Dec` -/
theorem idec_spec (a : I128) : a.dec.toInt = I128.wrap128 (a.toInt - 1) := I128.dec_toInt a
/-- `Int128.Add64` (sign-extended `int64` operand) -/
theorem iadd64_spec (a : I128) (n : W) : (a.addW n).toInt = I128.wrap128 (a.toInt + I128.int64Val n) :=
  I128.addW_toInt a n
/-- `Int128.Sub64` -/
theorem isub64_spec (a : I128) (n : W) : (a.subW n).toInt = I128.wrap128 (a.toInt - I128.int64Val n) :=
  I128.subW_toInt a n
/-- `Int128.Mul64` -/
theorem imul64_spec (a : I128) (n : W) : (a.mulW n).toInt = I128.wrap128 (a.toInt * I128.int64Val n) :=
  I128.mulW_toInt a n
/-- `Int128From64` / `Int128FromUint64` -/
theorem ifrom64_spec (n : W) : (I128.from64 n).toInt = I128.int64Val n ∧ (I128.fromUint64 n).toInt = n.toNat :=
  ⟨I128.from64_toInt n, I128.fromUint64_toInt n⟩
/-- `Neg`: two's-complement negation; 0 and `MinInt128` are its fixed points -/
theorem neg_spec (a : I128) : a.neg.toInt = I128.wrap128 (- a.toInt) := I128.neg_toInt a
/-- `Abs` (only `MinInt128` wraps, to itself) -/
theorem abs_spec (a : I128) : a.abs.toInt = I128.wrap128 (if a.toInt < 0 then - a.toInt else a.toInt) :=
  I128.abs_toInt a
/-- `AbsUint128` is exact for every input (`MinInt128` ↦ 2^127) -/
theorem absUint128_spec (a : I128) : (a.absUint128.toNat : Int) = if a.toInt < 0 then - a.toInt else a.toInt :=
  I128.absUint128_toNat a
/-- `Sign` -/
theorem sign_spec (a : I128) : a.sign = if a.toInt < 0 then -1 else if a.toInt = 0 then 0 else 1 := I128.sign_eq a
/-- the wrap is the identity on representable values (so the signed results are exact whenever they fit) -/
theorem wrap128_id (z : Int) (h : -2^127 ≤ z ∧ z < 2^127) : I128.wrap128 z = z := by
  unfold I128.wrap128; omega
/-- every `Int128` value is in range, and `toInt` is injective -/
theorem toInt_range (a : I128) : -2^127 ≤ a.toInt ∧ a.toInt < 2^127 := I128.toInt_range a

/-- `Int128.Cmp` agrees with the order of ℤ -/
theorem icmp_spec (a b : I128) :
    a.cmp b = if a.toInt < b.toInt then -1 else if a.toInt = b.toInt then 0 else 1 := I128.cmpHL_eq a b.hi b.lo
/-- `Int128.Cmp64` (sign extension of the `int64`) -/
theorem icmp64_spec (a : I128) (n : W) :
    a.cmpW n = if a.toInt < I128.int64Val n then -1 else if a.toInt = I128.int64Val n then 0 else 1 := by
  rw [← I128.ext64_toInt]; exact I128.cmpHL_eq a _ _
/-- `Int128.GreaterThan` -/
theorem igt_spec (a b : I128) : a.greaterThan b = decide (a.toInt > b.toInt) := I128.gtHL_eq a b.hi b.lo
/-- `Int128.GreaterThanOrEqual` -/
theorem ige_spec (a b : I128) : a.greaterThanOrEqual b = decide (a.toInt ≥ b.toInt) := I128.geHL_eq a b.hi b.lo
/-- `Int128.LessThan` -/
theorem ilt_spec (a b : I128) : a.lessThan b = decide (a.toInt < b.toInt) := I128.ltHL_eq a b.hi b.lo
/-- `Int128.LessThanOrEqual` -/
theorem ile_spec (a b : I128) : a.lessThanOrEqual b = decide (a.toInt ≤ b.toInt) := I128.leHL_eq a b.hi b.lo
/-- `Int128.Equal` -/
theorem ieq_spec (a b : I128) : a.equal b = decide (a.toInt = b.toInt) := I128.equal_eq a b
/-- `Int128.GreaterThan64` -/
theorem igt64_spec (a : I128) (n : W) : a.greaterThanW n = decide (a.toInt > I128.int64Val n) := by
  rw [← I128.ext64_toInt]; exact I128.gtHL_eq a _ _
/-- `Int128.GreaterThanOrEqual64` -/
theorem ige64_spec (a : I128) (n : W) : a.greaterThanOrEqualW n = decide (a.toInt ≥ I128.int64Val n) := by
  rw [← I128.ext64_toInt]; exact I128.geHL_eq a _ _
/-- `Int128.LessThan64` -/
theorem ilt64_spec (a : I128) (n : W) : a.lessThanW n = decide (a.toInt < I128.int64Val n) := by
  rw [← I128.ext64_toInt]; exact I128.ltHL_eq a _ _
/-- `Int128.LessThanOrEqual64` -/
theorem ile64_spec (a : I128) (n : W) : a.lessThanOrEqualW n = decide (a.toInt ≤ I128.int64Val n) := by
  rw [← I128.ext64_toInt]; exact I128.leHL_eq a _ _
/-- `Int128.Equal64` -/
theorem ieq64_spec (a : I128) (n : W) : a.equalW n = decide (a.toInt = I128.int64Val n) := by
  rw [← I128.ext64_toInt]; exact I128.equal_eq a ⟨I128.ext64 n, n⟩

/-- signed division by zero panics (all six entry points) -/
theorem idiv_zero_panics (a : I128) :
    a.div I128.zero = .panic ∧ a.divMod I128.zero = .panic ∧ a.mod I128.zero = .panic ∧
    a.divW 0#64 = .panic ∧ a.divModW 0#64 = .panic ∧ a.modW 0#64 = .panic := by
  have hz : (I128.zero).lessThan I128.zero = false := by decide
  have hn : I128.neg64 0#64 = false := by decide
  have hu : I128.zero.toU = ⟨0#64, 0#64⟩ := rfl
  have hd : ∀ u : U128, u.div ⟨0#64, 0#64⟩ = .panic := fun u => by simp [U128.div]
  have hdm : ∀ u : U128, u.divMod ⟨0#64, 0#64⟩ = .panic := fun u => by simp [U128.divMod]
  have hdw : ∀ u : U128, u.divW 0#64 = .panic := fun u => by simp [U128.divW]
  have e0 : I128.ext64 0#64 = 0#64 := by decide
  have h2 : a.divMod I128.zero = .panic := by
    simp only [I128.divMod, hz, Bool.false_eq_true, if_false, hu, hdm]
  have h5 : a.divModW 0#64 = .panic := by
    unfold I128.divModW; rw [e0]; exact h2
  refine ⟨?_, h2, ?_, ?_, h5, ?_⟩
  · simp only [I128.div, hz, Bool.false_eq_true, if_false, hu, hd]
  · simp only [I128.mod, h2]
  · simp only [I128.divW, hn, Bool.false_eq_true, if_false, hdw]
  · simp only [I128.modW, h5]

/-- **`Int128.DivMod`**: quotient truncated toward zero and reduced mod 2^128 (it wraps only for `MinInt128 / -1`),
    remainder with the sign of the dividend — magnitudes, sign fix-up and the `MinInt128` wrap on top of the unsigned
    `divMod_spec`; no hypothesis other than a non-zero divisor -/
theorem idivMod_spec (a n : I128) (h : n.toInt ≠ 0) :
    ∃ q r, a.divMod n = .ok (q, r) ∧ q.toInt = I128.wrap128 (a.toInt.tdiv n.toInt) ∧ r.toInt = a.toInt.tmod n.toInt :=
  I128.divMod_correct U128.divMod_total a n h

/-- quotient·divisor + remainder reproduces the dividend (mod 2^128; exactly, unless the quotient wrapped) -/
theorem idiv_mul_add_mod (a n : I128) (h : n.toInt ≠ 0) :
    ∃ q r, a.divMod n = .ok (q, r) ∧ I128.wrap128 (q.toInt * n.toInt + r.toInt) = a.toInt := by
  obtain ⟨q, r, e, hq, hr⟩ := idivMod_spec a n h
  refine ⟨q, r, e, ?_⟩
  have hra := I128.toInt_range a
  have key := Int.tdiv_mul_add_tmod a.toInt n.toInt
  rw [hq, hr]
  generalize a.toInt.tdiv n.toInt = d at *
  generalize a.toInt.tmod n.toInt = m at *
  have e2 : ∃ k : Int, I128.wrap128 d = d + k * 2^128 := by
    refine ⟨-((d + 2^127) / 2^128), ?_⟩
    unfold I128.wrap128; omega
  obtain ⟨k, hk⟩ := e2
  rw [hk]
  have : (d + k * 2 ^ 128) * n.toInt + m = a.toInt + (k * n.toInt) * 2^128 := by
    rw [← key, Int.add_mul, Int.mul_assoc k, Int.mul_comm (2^128) n.toInt, ← Int.mul_assoc k]
    omega
  rw [this]
  generalize k * n.toInt = j
  unfold I128.wrap128; omega

/-- `Int128.Div64` (its own sign fix-up on an `int64` operand, through `Uint128.Div64`): quotient truncated toward zero,
    reduced mod 2^128, for every non-zero `int64` divisor (also `MinInt64`, whose negation wraps to its own magnitude) -/
theorem idiv64_spec (a : I128) (n : W) (h : I128.int64Val n ≠ 0) :
    ∃ q, a.divW n = .ok q ∧ q.toInt = I128.wrap128 (a.toInt.tdiv (I128.int64Val n)) := I128.divW_correct a n h

/-- `Int128.Div` / `Int128.Mod` are the components of `Int128.DivMod`; `DivMod64` is `DivMod` of the sign-extended
    operand by definition -/
theorem idiv_eq_fst_divMod (a n : I128) :
    a.div n = (a.divMod n).map Prod.fst ∧ a.mod n = (a.divMod n).map Prod.snd ∧
    ∀ w : W, a.divModW w = a.divMod ⟨I128.ext64 w, w⟩ :=
  ⟨I128.div_eq_divMod a n, I128.mod_eq_divMod a n, fun _ => rfl⟩

/-! ## remaining predicates / conversions of the arithmetic surface, and the `…64` signed division over `int64Val` -/

/-- `Int128.IsZero` -/
theorem iisZero_spec (a : I128) : a.isZero = decide (a.toInt = 0) := by
  have hlt := a.toU.toNat_lt
  have h := I128.isZero_iff a
  unfold I128.isZero
  rw [Bool.eq_iff_iff, decide_eq_true_iff, decide_eq_true_iff, h, I128.toInt_eq]
  split <;> omega
/-- `Int128.IsUint128`: the value is non-negative -/
theorem iisUint128_spec (a : I128) : a.isUint128 = decide (0 ≤ a.toInt) := by
  have h := I128.isNeg_iff a
  unfold I128.isUint128
  rw [Bool.eq_iff_iff, decide_eq_true_iff, decide_eq_true_iff]
  constructor
  · intro e; by_contra hc; exact (h.mpr (by omega)) e
  · intro e; by_contra hc; have := h.mp hc; omega
/-- `Int128.IsUint64` -/
theorem iisUint64_spec (a : I128) : a.isUint64 = decide (0 ≤ a.toInt ∧ a.toInt < 2^64) := by
  have := a.hi.isLt; have := a.lo.isLt
  unfold I128.isUint64
  rw [Bool.eq_iff_iff, decide_eq_true_iff, decide_eq_true_iff, U128.w_eq_iff, BitVec.toNat_ofNat]
  cases a with | mk x y =>
  rw [I128.toInt_mk]; simp only at *
  split <;> omega
/-- `Int128.IsInt64` -/
theorem iisInt64_spec (a : I128) : a.isInt64 = decide (-2^63 ≤ a.toInt ∧ a.toInt < 2^63) := by
  have := a.hi.isLt; have := a.lo.isLt
  have hs : U128.signBit.toNat = 2^63 := by decide
  have hm : I128.maxU64.toNat = 2^64 - 1 := by decide
  have hi : I128.maxI64.toNat = 2^63 - 1 := by decide
  cases a with | mk x y =>
  unfold I128.isInt64
  simp only [ne_eq, I128.sign_zero_iff, hs, hi] at *
  rw [I128.toInt_mk]
  by_cases h : x.toNat < 2^63
  · simp only [h, not_true_eq_false, if_false]
    rw [Bool.eq_iff_iff]
    simp only [Bool.and_eq_true, decide_eq_true_eq, U128.w_eq_iff, BitVec.toNat_ofNat]
    split <;> omega
  · simp only [h, not_false_eq_true, if_true]
    rw [Bool.eq_iff_iff]
    simp only [Bool.and_eq_true, decide_eq_true_eq, U128.w_eq_iff, hm]
    split <;> omega
/-- `Int128.AsInt64` / `AsUint64`: the value reduced mod 2^64 (exact when `IsInt64` resp. `IsUint64`) -/
theorem iasInt64_spec (a : I128) :
    (a.asInt64.toNat : Int) = a.toInt % 2^64 ∧ (a.asUint64.toNat : Int) = a.toInt % 2^64 := by
  have := a.hi.isLt; have := a.lo.isLt
  cases a with | mk x y =>
  have e : I128.asInt64 ⟨x, y⟩ = y := by
    unfold I128.asInt64; simp only
    split
    · apply BitVec.eq_of_toNat_eq
      rw [BitVec.toNat_neg, BitVec.toNat_not, BitVec.toNat_sub, BitVec.toNat_ofNat]
      have := y.isLt; omega
    · rfl
  rw [e]; unfold I128.asUint64; simp only at *
  rw [I128.toInt_mk]
  split <;> omega
/-- `Uint128.AsUint64`, `IsInt128`, `Uint128From64` -/
theorem asUint64_spec (a : U128) (v : W) :
    a.asUint64.toNat = a.toNat % 2^64 ∧ a.isInt128 = decide (a.toNat < 2^127) ∧ (U128.from64 v).toNat = v.toNat := by
  have := a.hi.isLt; have := a.lo.isLt
  refine ⟨?_, ?_, ?_⟩
  · unfold U128.asUint64 U128.toNat; omega
  · unfold U128.isInt128
    rw [Bool.eq_iff_iff, decide_eq_true_iff, decide_eq_true_iff, I128.sign_zero_iff]
    unfold U128.toNat; omega
  · exact U128.mk0_toNat v

/-- `Int128.Div` and `Int128.Mod` separately (components of `idivMod_spec`) -/
theorem idiv_imod_spec (a n : I128) (h : n.toInt ≠ 0) :
    (∃ q, a.div n = .ok q ∧ q.toInt = I128.wrap128 (a.toInt.tdiv n.toInt)) ∧
    (∃ r, a.mod n = .ok r ∧ r.toInt = a.toInt.tmod n.toInt) := by
  obtain ⟨q, r, e, hq, hr⟩ := idivMod_spec a n h
  constructor
  · exact ⟨q, by rw [I128.div_eq_divMod, e]; rfl, hq⟩
  · exact ⟨r, by rw [I128.mod_eq_divMod, e]; rfl, hr⟩

/-- **`Int128.DivMod64`** over the value of the `int64` operand: quotient truncated toward zero (reduced mod 2^128),
    remainder with the sign of the dividend, for every non-zero `int64` divisor -/
theorem idivMod64_spec (a : I128) (n : W) (h : I128.int64Val n ≠ 0) :
    ∃ q r, a.divModW n = .ok (q, r) ∧ q.toInt = I128.wrap128 (a.toInt.tdiv (I128.int64Val n)) ∧
      r.toInt = a.toInt.tmod (I128.int64Val n) := by
  have e := I128.ext64_toInt n
  have := idivMod_spec a ⟨I128.ext64 n, n⟩ (by rw [e]; exact h)
  rw [e] at this
  exact this

/-- **`Int128.Mod64`**: remainder with the sign of the dividend for every non-zero `int64` divisor -/
theorem imod64_spec (a : I128) (n : W) (h : I128.int64Val n ≠ 0) :
    ∃ r, a.modW n = .ok r ∧ r.toInt = a.toInt.tmod (I128.int64Val n) := by
  obtain ⟨q, r, e, _, hr⟩ := idivMod64_spec a n h
  exact ⟨r, by unfold I128.modW; rw [e], hr⟩
/-! non-vacuity: concrete evaluations of the model on each kind of path — 7 / 2 = 3 rem 1 (64-bit fast path);
    the hypotheses of the kernel contracts are met by concrete operands (`divmod128by64`: 2^64 / 3 with high word 1 < 3;
    `divmod128by128`: divisor 2^64 + 1) -/
example : (U128.mk 1#64 0#64).toNat ≠ 0 ∧ (U128.mk 1#64 0#64).toNat ≤ (U128.mk 1#64 0#64).toNat := by
  simp [U128.toNat]
example : (U128.mk 0#64 7#64).divMod (U128.mk 0#64 2#64) = .ok (⟨0#64, 3#64⟩, ⟨0#64, 1#64⟩) := by
  simp [U128.divMod]
example : (3#64 : W) ≠ 0#64 ∧ (U128.mk 1#64 0#64).hi.toNat < (3#64 : W).toNat := by decide
example : (U128.mk 1#64 1#64).hi ≠ 0#64 := by decide

end C01
