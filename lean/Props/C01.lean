import Lemmas.U128Div
import Lemmas.U128DivBin
import Lemmas.U128Knuth
import Lemmas.I128Basic
import Lemmas.I128Div
import Lemmas.I128DivW
import Lemmas.U128Hw
import Lemmas.U128Contrast
/-! # C01 — 128-bit integer arithmetic, ordering and bit operations are ℤ mod 2^128

Property theorems only.  The executable models are `Model/U128.lean` (`num.Uint128`) and `Model/I128.lean` (`num.Int128`),
the same definitions the driver `drv_c01` runs against the Go code on every check; helper lemmas are in
`Lemmas/U128*.lean`, `Lemmas/I128*.lean`.  `toNat u = hi·2^64 + lo`, `toInt i` = two's complement, `bv u : BitVec 128`.
Every theorem quantifies over all operands (no size bound), all shift counts, all bit indexes.

Division: the dispatch (÷0 panic, ÷1, 64-bit fast path, power of two, `u < n`, `u = n`, selection of a kernel) and all
three kernels are proved: `divmod128bin` (`divmod128bin_spec`), `divmod128by64` — Knuth D on 32-bit digits with its two
correction loops — (`divmod128by64_spec`) and the estimate-and-correct branch of `divmod128by128`
(`divmod128by128_spec`).  Hence `divMod_spec`, `div_mul_add_mod`, `idivMod_spec`, `idiv_mul_add_mod` hold for every
operand pair with no hypothesis other than a non-zero divisor. -/
namespace C01
open U128 (W Res ofW Out)
open U128.Contrast I128.Contrast

/-! ## unsigned: add, subtract, multiply -/

/-- `Add` returns the sum reduced mod 2^128 -/
theorem add_spec (a b : U128) : (a.add b).toNat = (a.toNat + b.toNat) % 2^128 := U128.add_toNat a b
/-- `Add64` (64-bit operand variant) -/
theorem add64_spec (a : U128) (n : W) : (a.addW n).toNat = (a.toNat + n.toNat) % 2^128 := U128.addW_toNat a n
/-- `Sub` returns the difference reduced mod 2^128 -/
theorem sub_spec (a b : U128) : (a.sub b).toNat = (a.toNat + 2^128 - b.toNat) % 2^128 := U128.sub_toNat a b
/-- `Sub64` -/
theorem sub64_spec (a : U128) (n : W) : (a.subW n).toNat = (a.toNat + 2^128 - n.toNat) % 2^128 := U128.subW_toNat a n
/-- `Inc` -/
theorem inc_spec (a : U128) : a.inc.toNat = (a.toNat + 1) % 2^128 := U128.inc_toNat a
/-- `Dec` -/
theorem dec_spec (a : U128) : a.dec.toNat = (a.toNat + 2^128 - 1) % 2^128 := U128.dec_toNat a
/-- `Mul` returns the product reduced mod 2^128 -/
theorem mul_spec (a b : U128) : (a.mul b).toNat = (a.toNat * b.toNat) % 2^128 := U128.mul_toNat a b
/-- `Mul64` (its own 32-bit schoolbook code in the source) -/
theorem mul64_spec (a : U128) (n : W) : (a.mulW n).toNat = (a.toNat * n.toNat) % 2^128 := U128.mulW_toNat a n

/-! ## unsigned: comparisons agree with the order of the values -/

/-- `Cmp` -/
theorem cmp_spec (a b : U128) :
    a.cmp b = if a.toNat < b.toNat then -1 else if a.toNat = b.toNat then 0 else 1 := U128.cmp_eq a b
/-- `Cmp64` -/
theorem cmp64_spec (a : U128) (n : W) :
    a.cmpW n = if a.toNat < n.toNat then -1 else if a.toNat = n.toNat then 0 else 1 := U128.cmpW_eq a n
/-- `LessThan` -/
theorem lessThan_spec (a b : U128) : a.lessThan b = decide (a.toNat < b.toNat) := U128.lessThan_eq a b
/-- `LessThanOrEqual` -/
theorem lessThanOrEqual_spec (a b : U128) : a.lessThanOrEqual b = decide (a.toNat ≤ b.toNat) :=
  U128.lessThanOrEqual_eq a b
/-- `GreaterThan` -/
theorem greaterThan_spec (a b : U128) : a.greaterThan b = decide (a.toNat > b.toNat) := U128.greaterThan_eq a b
/-- `GreaterThanOrEqual` -/
theorem greaterThanOrEqual_spec (a b : U128) : a.greaterThanOrEqual b = decide (a.toNat ≥ b.toNat) :=
  U128.greaterThanOrEqual_eq a b
/-- `Equal` -/
theorem equal_spec (a b : U128) : a.equal b = decide (a.toNat = b.toNat) := U128.equal_eq a b
/-- `LessThan64` -/
theorem lessThan64_spec (a : U128) (n : W) : a.lessThanW n = decide (a.toNat < n.toNat) := U128.lessThanW_eq a n
/-- `LessThanOrEqual64` -/
theorem lessThanOrEqual64_spec (a : U128) (n : W) : a.lessThanOrEqualW n = decide (a.toNat ≤ n.toNat) :=
  U128.lessThanOrEqualW_eq a n
/-- `GreaterThan64` -/
theorem greaterThan64_spec (a : U128) (n : W) : a.greaterThanW n = decide (a.toNat > n.toNat) :=
  U128.greaterThanW_eq a n
/-- `GreaterThanOrEqual64` -/
theorem greaterThanOrEqual64_spec (a : U128) (n : W) : a.greaterThanOrEqualW n = decide (a.toNat ≥ n.toNat) :=
  U128.greaterThanOrEqualW_eq a n
/-- `Equal64` -/
theorem equal64_spec (a : U128) (n : W) : a.equalW n = decide (a.toNat = n.toNat) := U128.equalW_eq a n
/-- `IsZero` -/
theorem isZero_spec (a : U128) : a.isZero = decide (a.toNat = 0) := U128.isZero_eq a
/-- `IsUint64` -/
theorem isUint64_spec (a : U128) : a.isUint64 = decide (a.toNat < 2^64) := U128.isUint64_eq a

/-! ## bitwise operations agree with the 128-bit binary representation -/

/-- `bv` is the binary representation of the value -/
theorem bv_value (a : U128) : a.bv.toNat = a.toNat := U128.bv_toNat a
/-- bit `i` of the value is bit `i` of `bv` -/
theorem bv_testBit (a : U128) (i : Nat) : a.toNat.testBit i = a.bv.getLsbD i := U128.testBit_eq a i
/-- `And` -/
theorem and_spec (a b : U128) : (a.and b).bv = a.bv &&& b.bv := U128.and_bv a b
/-- `Or` -/
theorem or_spec (a b : U128) : (a.or b).bv = a.bv ||| b.bv := U128.or_bv a b
/-- `Xor` -/
theorem xor_spec (a b : U128) : (a.xor b).bv = a.bv ^^^ b.bv := U128.xor_bv a b
/-- `Not` -/
theorem not_spec (a : U128) : a.not.bv = ~~~a.bv := U128.not_bv a
/-- `AndNot` -/
theorem andNot_spec (a b : U128) : (a.andNot b).bv = a.bv &&& ~~~b.bv := U128.andNot_bv a b
/-- `And64`: and with the zero-extended word -/
theorem and64_spec (a : U128) (n : W) : (a.andW n).bv = a.bv &&& (ofW n).bv := by rw [U128.andW_eq, U128.and_bv]
/-- `Or64` -/
theorem or64_spec (a : U128) (n : W) : (a.orW n).bv = a.bv ||| (ofW n).bv := by rw [U128.orW_eq, U128.or_bv]
/-- `Xor64` -/
theorem xor64_spec (a : U128) (n : W) : (a.xorW n).bv = a.bv ^^^ (ofW n).bv := by rw [U128.xorW_eq, U128.xor_bv]
/-- `AndNot64` (takes a `Uint128` in the source and uses its low word, Appendix B) -/
theorem andNot64_spec (a b : U128) : (a.andNot64 b).bv = a.bv &&& ~~~(ofW b.lo).bv := by
  rw [U128.andNot64_eq, U128.andNot_bv]

/-! ## shifts, for every count (also ≥ 128) -/

/-- `LeftShift` on the representation -/
theorem shl_bv (a : U128) (n : Nat) : (a.leftShift n).bv = a.bv <<< n := U128.leftShift_bv a n
/-- `RightShift` on the representation -/
theorem shr_bv (a : U128) (n : Nat) : (a.rightShift n).bv = a.bv >>> n := U128.rightShift_bv a n
/-- `LeftShift` on the value -/
theorem shl_spec (a : U128) (n : Nat) : (a.leftShift n).toNat = (a.toNat * 2^n) % 2^128 := U128.leftShift_toNat a n
/-- `RightShift` on the value -/
theorem shr_spec (a : U128) (n : Nat) : (a.rightShift n).toNat = a.toNat / 2^n := U128.rightShift_toNat a n

/-! ## bit queries -/

/-- `Bit(i)` for every `int` index (0 outside 0..127) -/
theorem bit_spec (a : U128) (i : Int) :
    a.bit i = if 0 ≤ i ∧ i < 128 ∧ a.toNat.testBit i.toNat then 1 else 0 := U128.bit_eq a i
/-- `SetBit(i, b)`: bit `i` becomes `b ≠ 0`, all other bits unchanged, out-of-range indexes change nothing -/
theorem setBit_spec (a : U128) (i : Int) (b : Nat) (j : Nat) :
    (a.setBit i b).bv.getLsbD j = if 0 ≤ i ∧ i < 128 ∧ j = i.toNat then decide (b ≠ 0) else a.bv.getLsbD j :=
  U128.setBit_getLsbD a i b j
/-- `BitLen` is the bit length: the value is below `2^BitLen`, and at least `2^(BitLen-1)` when non-zero -/
theorem bitLen_spec (a : U128) :
    a.bitLen ≤ 128 ∧ a.toNat < 2 ^ a.bitLen ∧ (a.toNat ≠ 0 → 2 ^ (a.bitLen - 1) ≤ a.toNat) :=
  ⟨U128.bitLen_le a, U128.bitLen_upper a, U128.bitLen_lower a⟩
/-- `LeadingZeros` = 128 − bit length -/
theorem leadingZeros_spec (a : U128) : a.leadingZeros = 128 - a.bitLen := U128.leadingZeros_eq a
/-- `TrailingZeros` of zero is 128 … -/
theorem trailingZeros_zero (a : U128) (h : a.toNat = 0) : a.trailingZeros = 128 := U128.trailingZeros_zero a h
/-- … and otherwise the index of the lowest set bit -/
theorem trailingZeros_spec (a : U128) (h : a.toNat ≠ 0) :
    a.trailingZeros < 128 ∧ a.toNat.testBit a.trailingZeros = true ∧
      ∀ j, j < a.trailingZeros → a.toNat.testBit j = false := U128.trailingZeros_spec a h
/-- `OnesCount` is the number of set bits (this is the statement the fixed defect violated) -/
theorem onesCount_spec (a : U128) : a.onesCount = (List.range 128).countP (fun i => a.toNat.testBit i) :=
  U128.onesCount_eq a

/-! ## unsigned division -/

/-- division or remainder by zero panics (all six entry points) -/
theorem div_zero_panics (a n : U128) (h : n.toNat = 0) :
    a.div n = .panic ∧ a.mod n = .panic ∧ a.divMod n = .panic ∧
    a.divW 0#64 = .panic ∧ a.modW 0#64 = .panic ∧ a.divModW 0#64 = .panic := by
  have h3 := (U128.divMod_panic_iff a n).mpr h
  refine ⟨?_, ?_, h3, ?_, ?_, ?_⟩
  · rw [U128.div_eq_divMod, h3]; rfl
  · rw [U128.mod_eq_divMod, h3]; rfl
  · simp [U128.divW]
  · simp [U128.modW]
  · simp [U128.divModW]

/-- … and nothing else does: `DivMod` panics only for a zero divisor.  (In this total model a machine division by zero is
    invisible; the partial-division model below — `hw_never_runtime_panic`, `hw_divzero_iff` — is where that part of the
    clause can fail.  Every non-division model function is total and has no `panic` in its result type: for those,
    "never panics" holds of the model by construction and is carried by the correspondence run.) -/
theorem no_other_panic (a n : U128) (h : n.toNat ≠ 0) :
    a.divMod n ≠ .panic ∧ a.div n ≠ .panic ∧ a.mod n ≠ .panic := by
  have h3 : a.divMod n ≠ .panic := fun e => h ((U128.divMod_panic_iff a n).mp e)
  refine ⟨h3, ?_, ?_⟩
  · rw [U128.div_eq_divMod]; cases hd : a.divMod n with
    | ok v => simp [U128.Res.map]
    | panic => exact absurd hd h3
  · rw [U128.mod_eq_divMod]; cases hd : a.divMod n with
    | ok v => simp [U128.Res.map]
    | panic => exact absurd hd h3

/-- `Div` (a separate copy of the dispatch in the source) is the quotient of `DivMod` -/
theorem div_eq_fst_divMod (a n : U128) : a.div n = (a.divMod n).map Prod.fst := U128.div_eq_divMod a n
/-- `Mod` (a third copy) is the remainder of `DivMod` -/
theorem mod_eq_snd_divMod (a n : U128) : a.mod n = (a.divMod n).map Prod.snd := U128.mod_eq_divMod a n
/-- `DivMod64`, `Div64`, `Mod64` (three more copies) are the 128-bit routines on the zero-extended divisor -/
theorem div64_eq (a : U128) (n : W) :
    a.divModW n = a.divMod (ofW n) ∧ a.divW n = a.div (ofW n) ∧ a.modW n = a.mod (ofW n) :=
  ⟨U128.divModW_eq a n, U128.divW_eq a n, U128.modW_eq a n⟩

/-- `divMod_spec` on every path that does not enter a kernel — divisor 1, both operands below 2^64, divisor a power of
    two, dividend ≤ divisor — with no hypothesis -/
theorem divMod_spec_fast (a n : U128) (h : n.toNat ≠ 0)
    (hp : n.toNat = 1 ∨ (a.toNat < 2^64 ∧ n.toNat < 2^64) ∨ n.leadingZeros + n.trailingZeros = 127 ∨
      a.toNat ≤ n.toNat) :
    ∃ q r, a.divMod n = .ok (q, r) ∧ q.toNat = a.toNat / n.toNat ∧ r.toNat = a.toNat % n.toNat :=
  U128.divMod_fast a n h hp

/-- the kernel `divmod128bin` (shift-and-subtract) meets its contract: proved, no hypothesis -/
theorem divmod128bin_spec : U128.DivBinSpec := U128.divBinSpec

/-- `divMod_spec` on the binary path (leading-zero gap of the operands not above `divBinaryShiftThreshold`), with no
    hypothesis -/
theorem divMod_spec_bin (a n : U128) (h : n.toNat ≠ 0)
    (hgap : ¬ n.leadingZeros - a.leadingZeros > U128.threshold) :
    ∃ q r, a.divMod n = .ok (q, r) ∧ q.toNat = a.toNat / n.toNat ∧ r.toNat = a.toNat % n.toNat :=
  U128.divMod_bin a n h hgap

/-- the kernel `divmod128by64` (Knuth Algorithm D on 32-bit digits, both correction loops), called with the divisor's
    leading-zero count and a dividend whose high word is below the divisor, returns floor quotient and remainder:
    proved, no hypothesis -/
theorem divmod128by64_spec (u : U128) (n : W) (hn : n ≠ 0#64) (hlt : u.hi.toNat < n.toNat) :
    (U128.divmod128by64 u n (U128.clz n)).1.toNat = u.toNat / n.toNat ∧
    (U128.divmod128by64 u n (U128.clz n)).2.toNat = u.toNat % n.toNat := U128.divlu64Spec u n hn hlt

/-- the estimate-and-correct branch of `divmod128by128` (divisor wider than one word: normalise, estimate the quotient
    from the top words with `divmod128by64`, shift, decrement, multiply back, one correction) returns floor quotient
    and remainder for EVERY dividend (the dispatch sends only dividends above the divisor; the kernel is also right
    below and at the divisor, where the estimate is 0, 1 or 2): proved, no hypothesis on the dividend -/
theorem divmod128by128_spec (u n : U128) (hn : n.hi ≠ 0#64) :
    (U128.divmod128by128 u n (U128.clz n.hi) 0).1.toNat = u.toNat / n.toNat ∧
    (U128.divmod128by128 u n (U128.clz n.hi) 0).2.toNat = u.toNat % n.toNat := U128.div128Spec u n hn

/-- **`DivMod` returns floor quotient and remainder for every non-zero divisor** (dispatch, fast paths, the reduction of
    the word-divisor case to `divmod128by64` with the high/low split, and all three kernels are proved) -/
theorem divMod_spec (a n : U128) (h : n.toNat ≠ 0) :
    ∃ q r, a.divMod n = .ok (q, r) ∧ q.toNat = a.toNat / n.toNat ∧ r.toNat = a.toNat % n.toNat :=
  U128.divMod_total a n h

/-- `Div`, `Mod` and the three `…64` entry points return the same floor quotient / remainder -/
theorem div_mod_spec (a n : U128) (h : n.toNat ≠ 0) :
    (∃ q, a.div n = .ok q ∧ q.toNat = a.toNat / n.toNat) ∧ (∃ r, a.mod n = .ok r ∧ r.toNat = a.toNat % n.toNat) := by
  obtain ⟨q, r, e, hq, hr⟩ := U128.divMod_total a n h
  constructor
  · exact ⟨q, by rw [U128.div_eq_divMod, e]; rfl, hq⟩
  · exact ⟨r, by rw [U128.mod_eq_divMod, e]; rfl, hr⟩

/-- quotient·divisor + remainder reproduces the dividend, and the remainder is smaller than the divisor -/
theorem div_mul_add_mod (a n : U128) (h : n.toNat ≠ 0) :
    ∃ q r, a.divMod n = .ok (q, r) ∧ q.toNat * n.toNat + r.toNat = a.toNat ∧ r.toNat < n.toNat := by
  obtain ⟨q, r, e, hq, hr⟩ := U128.divMod_total a n h
  refine ⟨q, r, e, ?_, ?_⟩
  · rw [hq, hr, Nat.mul_comm]; exact Nat.div_add_mod _ _
  · rw [hr]; exact Nat.mod_lt _ (by omega)

/-! ## signed layer (two's complement) -/

/-- `Int128.Add` -/
theorem iadd_spec (a b : I128) : (a.add b).toInt = I128.wrap128 (a.toInt + b.toInt) := I128.add_toInt a b
/-- `Int128.Sub` -/
theorem isub_spec (a b : I128) : (a.sub b).toInt = I128.wrap128 (a.toInt - b.toInt) := I128.sub_toInt a b
/-- `Int128.Mul` -/
theorem imul_spec (a b : I128) : (a.mul b).toInt = I128.wrap128 (a.toInt * b.toInt) := I128.mul_toInt a b
/-- `Int128.Inc` -/
theorem iinc_spec (a : I128) : a.inc.toInt = I128.wrap128 (a.toInt + 1) := I128.inc_toInt a
/-- `Int128.Dec` -/
theorem idec_spec (a : I128) : a.dec.toInt = I128.wrap128 (a.toInt - 1) := I128.dec_toInt a
/-- `Int128.Add64` (sign-extended `int64` operand) -/
theorem iadd64_spec (a : I128) (n : W) : (a.addW n).toInt = I128.wrap128 (a.toInt + I128.int64Val n) :=
  I128.addW_toInt a n
/-- `Int128.Sub64` -/
theorem isub64_spec (a : I128) (n : W) : (a.subW n).toInt = I128.wrap128 (a.toInt - I128.int64Val n) :=
  I128.subW_toInt a n
/-- `Int128.Mul64` -/
theorem imul64_spec (a : I128) (n : W) : (a.mulW n).toInt = I128.wrap128 (a.toInt * I128.int64Val n) :=
  I128.mulW_toInt a n
/-- `Int128From64` / `Int128FromUint64` -/
theorem ifrom64_spec (n : W) : (I128.from64 n).toInt = I128.int64Val n ∧ (I128.fromUint64 n).toInt = n.toNat :=
  ⟨I128.from64_toInt n, I128.fromUint64_toInt n⟩
/-- `Neg`: two's-complement negation; 0 and `MinInt128` are its fixed points -/
theorem neg_spec (a : I128) : a.neg.toInt = I128.wrap128 (- a.toInt) := I128.neg_toInt a
/-- `Abs` (only `MinInt128` wraps, to itself) -/
theorem abs_spec (a : I128) : a.abs.toInt = I128.wrap128 (if a.toInt < 0 then - a.toInt else a.toInt) :=
  I128.abs_toInt a
/-- `AbsUint128` is exact for every input (`MinInt128` ↦ 2^127) -/
theorem absUint128_spec (a : I128) : (a.absUint128.toNat : Int) = if a.toInt < 0 then - a.toInt else a.toInt :=
  I128.absUint128_toNat a
/-- `Sign` -/
theorem sign_spec (a : I128) : a.sign = if a.toInt < 0 then -1 else if a.toInt = 0 then 0 else 1 := I128.sign_eq a
/-- the wrap is the identity on representable values (so the signed results are exact whenever they fit) -/
theorem wrap128_id (z : Int) (h : -2^127 ≤ z ∧ z < 2^127) : I128.wrap128 z = z := by
  unfold I128.wrap128; omega
/-- every `Int128` value is in range, and `toInt` is injective -/
theorem toInt_range (a : I128) : -2^127 ≤ a.toInt ∧ a.toInt < 2^127 := I128.toInt_range a

/-- `Int128.Cmp` agrees with the order of ℤ -/
theorem icmp_spec (a b : I128) :
    a.cmp b = if a.toInt < b.toInt then -1 else if a.toInt = b.toInt then 0 else 1 := I128.cmpHL_eq a b.hi b.lo
/-- `Int128.Cmp64` (sign extension of the `int64`) -/
theorem icmp64_spec (a : I128) (n : W) :
    a.cmpW n = if a.toInt < I128.int64Val n then -1 else if a.toInt = I128.int64Val n then 0 else 1 := by
  rw [← I128.ext64_toInt]; exact I128.cmpHL_eq a _ _
/-- `Int128.GreaterThan` -/
theorem igt_spec (a b : I128) : a.greaterThan b = decide (a.toInt > b.toInt) := I128.gtHL_eq a b.hi b.lo
/-- `Int128.GreaterThanOrEqual` -/
theorem ige_spec (a b : I128) : a.greaterThanOrEqual b = decide (a.toInt ≥ b.toInt) := I128.geHL_eq a b.hi b.lo
/-- `Int128.LessThan` -/
theorem ilt_spec (a b : I128) : a.lessThan b = decide (a.toInt < b.toInt) := I128.ltHL_eq a b.hi b.lo
/-- `Int128.LessThanOrEqual` -/
theorem ile_spec (a b : I128) : a.lessThanOrEqual b = decide (a.toInt ≤ b.toInt) := I128.leHL_eq a b.hi b.lo
/-- `Int128.Equal` -/
theorem ieq_spec (a b : I128) : a.equal b = decide (a.toInt = b.toInt) := I128.equal_eq a b
/-- `Int128.GreaterThan64` -/
theorem igt64_spec (a : I128) (n : W) : a.greaterThanW n = decide (a.toInt > I128.int64Val n) := by
  rw [← I128.ext64_toInt]; exact I128.gtHL_eq a _ _
/-- `Int128.GreaterThanOrEqual64` -/
theorem ige64_spec (a : I128) (n : W) : a.greaterThanOrEqualW n = decide (a.toInt ≥ I128.int64Val n) := by
  rw [← I128.ext64_toInt]; exact I128.geHL_eq a _ _
/-- `Int128.LessThan64` -/
theorem ilt64_spec (a : I128) (n : W) : a.lessThanW n = decide (a.toInt < I128.int64Val n) := by
  rw [← I128.ext64_toInt]; exact I128.ltHL_eq a _ _
/-- `Int128.LessThanOrEqual64` -/
theorem ile64_spec (a : I128) (n : W) : a.lessThanOrEqualW n = decide (a.toInt ≤ I128.int64Val n) := by
  rw [← I128.ext64_toInt]; exact I128.leHL_eq a _ _
/-- `Int128.Equal64` -/
theorem ieq64_spec (a : I128) (n : W) : a.equalW n = decide (a.toInt = I128.int64Val n) := by
  rw [← I128.ext64_toInt]; exact I128.equal_eq a ⟨I128.ext64 n, n⟩

/-- signed division by zero panics (all six entry points) -/
theorem idiv_zero_panics (a : I128) :
    a.div I128.zero = .panic ∧ a.divMod I128.zero = .panic ∧ a.mod I128.zero = .panic ∧
    a.divW 0#64 = .panic ∧ a.divModW 0#64 = .panic ∧ a.modW 0#64 = .panic := by
  have hz : (I128.zero).lessThan I128.zero = false := by decide
  have hn : I128.neg64 0#64 = false := by decide
  have hu : I128.zero.toU = ⟨0#64, 0#64⟩ := rfl
  have hd : ∀ u : U128, u.div ⟨0#64, 0#64⟩ = .panic := fun u => by simp [U128.div]
  have hdm : ∀ u : U128, u.divMod ⟨0#64, 0#64⟩ = .panic := fun u => by simp [U128.divMod]
  have hdw : ∀ u : U128, u.divW 0#64 = .panic := fun u => by simp [U128.divW]
  have e0 : I128.ext64 0#64 = 0#64 := by decide
  have h2 : a.divMod I128.zero = .panic := by
    simp only [I128.divMod, hz, Bool.false_eq_true, if_false, hu, hdm]
  have h5 : a.divModW 0#64 = .panic := by
    unfold I128.divModW; rw [e0]; exact h2
  refine ⟨?_, h2, ?_, ?_, h5, ?_⟩
  · simp only [I128.div, hz, Bool.false_eq_true, if_false, hu, hd]
  · simp only [I128.mod, h2]
  · simp only [I128.divW, hn, Bool.false_eq_true, if_false, hdw]
  · simp only [I128.modW, h5]

/-- **`Int128.DivMod`**: quotient truncated toward zero and reduced mod 2^128 (it wraps only for `MinInt128 / -1`),
    remainder with the sign of the dividend — magnitudes, sign fix-up and the `MinInt128` wrap on top of the unsigned
    `divMod_spec`; no hypothesis other than a non-zero divisor -/
theorem idivMod_spec (a n : I128) (h : n.toInt ≠ 0) :
    ∃ q r, a.divMod n = .ok (q, r) ∧ q.toInt = I128.wrap128 (a.toInt.tdiv n.toInt) ∧ r.toInt = a.toInt.tmod n.toInt :=
  I128.divMod_correct U128.divMod_total a n h

/-- quotient·divisor + remainder reproduces the dividend (mod 2^128; exactly, unless the quotient wrapped) -/
theorem idiv_mul_add_mod (a n : I128) (h : n.toInt ≠ 0) :
    ∃ q r, a.divMod n = .ok (q, r) ∧ I128.wrap128 (q.toInt * n.toInt + r.toInt) = a.toInt := by
  obtain ⟨q, r, e, hq, hr⟩ := idivMod_spec a n h
  refine ⟨q, r, e, ?_⟩
  have hra := I128.toInt_range a
  have key := Int.tdiv_mul_add_tmod a.toInt n.toInt
  rw [hq, hr]
  generalize a.toInt.tdiv n.toInt = d at *
  generalize a.toInt.tmod n.toInt = m at *
  have e2 : ∃ k : Int, I128.wrap128 d = d + k * 2^128 := by
    refine ⟨-((d + 2^127) / 2^128), ?_⟩
    unfold I128.wrap128; omega
  obtain ⟨k, hk⟩ := e2
  rw [hk]
  have : (d + k * 2 ^ 128) * n.toInt + m = a.toInt + (k * n.toInt) * 2^128 := by
    rw [← key, Int.add_mul, Int.mul_assoc k, Int.mul_comm (2^128) n.toInt, ← Int.mul_assoc k]
    omega
  rw [this]
  generalize k * n.toInt = j
  unfold I128.wrap128; omega

/-- `Int128.Div64` (its own sign fix-up on an `int64` operand, through `Uint128.Div64`): quotient truncated toward zero,
    reduced mod 2^128, for every non-zero `int64` divisor (also `MinInt64`, whose negation wraps to its own magnitude) -/
theorem idiv64_spec (a : I128) (n : W) (h : I128.int64Val n ≠ 0) :
    ∃ q, a.divW n = .ok q ∧ q.toInt = I128.wrap128 (a.toInt.tdiv (I128.int64Val n)) := I128.divW_correct a n h

/-- `Int128.Div` / `Int128.Mod` are the components of `Int128.DivMod`; `DivMod64` is `DivMod` of the sign-extended
    operand by definition -/
theorem idiv_eq_fst_divMod (a n : I128) :
    a.div n = (a.divMod n).map Prod.fst ∧ a.mod n = (a.divMod n).map Prod.snd ∧
    ∀ w : W, a.divModW w = a.divMod ⟨I128.ext64 w, w⟩ :=
  ⟨I128.div_eq_divMod a n, I128.mod_eq_divMod a n, fun _ => rfl⟩

/-! ## remaining predicates / conversions of the arithmetic surface, and the `…64` signed division over `int64Val` -/

/-- `Int128.IsZero` -/
theorem iisZero_spec (a : I128) : a.isZero = decide (a.toInt = 0) := by
  have hlt := a.toU.toNat_lt
  have h := I128.isZero_iff a
  unfold I128.isZero
  rw [Bool.eq_iff_iff, decide_eq_true_iff, decide_eq_true_iff, h, I128.toInt_eq]
  split <;> omega
/-- `Int128.IsUint128`: the value is non-negative -/
theorem iisUint128_spec (a : I128) : a.isUint128 = decide (0 ≤ a.toInt) := by
  have h := I128.isNeg_iff a
  unfold I128.isUint128
  rw [Bool.eq_iff_iff, decide_eq_true_iff, decide_eq_true_iff]
  constructor
  · intro e; by_contra hc; exact (h.mpr (by omega)) e
  · intro e; by_contra hc; have := h.mp hc; omega
/-- `Int128.IsUint64` -/
theorem iisUint64_spec (a : I128) : a.isUint64 = decide (0 ≤ a.toInt ∧ a.toInt < 2^64) := by
  have := a.hi.isLt; have := a.lo.isLt
  unfold I128.isUint64
  rw [Bool.eq_iff_iff, decide_eq_true_iff, decide_eq_true_iff, U128.w_eq_iff, BitVec.toNat_ofNat]
  cases a with | mk x y =>
  rw [I128.toInt_mk]; simp only at *
  split <;> omega
/-- `Int128.IsInt64` -/
theorem iisInt64_spec (a : I128) : a.isInt64 = decide (-2^63 ≤ a.toInt ∧ a.toInt < 2^63) := by
  have := a.hi.isLt; have := a.lo.isLt
  have hs : U128.signBit.toNat = 2^63 := by decide
  have hm : I128.maxU64.toNat = 2^64 - 1 := by decide
  have hi : I128.maxI64.toNat = 2^63 - 1 := by decide
  cases a with | mk x y =>
  unfold I128.isInt64
  simp only [ne_eq, I128.sign_zero_iff, hs, hi] at *
  rw [I128.toInt_mk]
  by_cases h : x.toNat < 2^63
  · simp only [h, not_true_eq_false, if_false]
    rw [Bool.eq_iff_iff]
    simp only [Bool.and_eq_true, decide_eq_true_eq, U128.w_eq_iff, BitVec.toNat_ofNat]
    split <;> omega
  · simp only [h, not_false_eq_true, if_true]
    rw [Bool.eq_iff_iff]
    simp only [Bool.and_eq_true, decide_eq_true_eq, U128.w_eq_iff, hm]
    split <;> omega
/-- `Int128.AsInt64` / `AsUint64`: the value reduced mod 2^64 (exact when `IsInt64` resp. `IsUint64`) -/
theorem iasInt64_spec (a : I128) :
    (a.asInt64.toNat : Int) = a.toInt % 2^64 ∧ (a.asUint64.toNat : Int) = a.toInt % 2^64 := by
  have := a.hi.isLt; have := a.lo.isLt
  cases a with | mk x y =>
  have e : I128.asInt64 ⟨x, y⟩ = y := by
    unfold I128.asInt64; simp only
    split
    · apply BitVec.eq_of_toNat_eq
      rw [BitVec.toNat_neg, BitVec.toNat_not, BitVec.toNat_sub, BitVec.toNat_ofNat]
      have := y.isLt; omega
    · rfl
  rw [e]; unfold I128.asUint64; simp only at *
  rw [I128.toInt_mk]
  split <;> omega
/-- `Uint128.AsUint64`, `IsInt128`, `Uint128From64` -/
theorem asUint64_spec (a : U128) (v : W) :
    a.asUint64.toNat = a.toNat % 2^64 ∧ a.isInt128 = decide (a.toNat < 2^127) ∧ (U128.from64 v).toNat = v.toNat := by
  have := a.hi.isLt; have := a.lo.isLt
  refine ⟨?_, ?_, ?_⟩
  · unfold U128.asUint64 U128.toNat; omega
  · unfold U128.isInt128
    rw [Bool.eq_iff_iff, decide_eq_true_iff, decide_eq_true_iff, I128.sign_zero_iff]
    unfold U128.toNat; omega
  · exact U128.mk0_toNat v

/-- `Int128.Div` and `Int128.Mod` separately (components of `idivMod_spec`) -/
theorem idiv_imod_spec (a n : I128) (h : n.toInt ≠ 0) :
    (∃ q, a.div n = .ok q ∧ q.toInt = I128.wrap128 (a.toInt.tdiv n.toInt)) ∧
    (∃ r, a.mod n = .ok r ∧ r.toInt = a.toInt.tmod n.toInt) := by
  obtain ⟨q, r, e, hq, hr⟩ := idivMod_spec a n h
  constructor
  · exact ⟨q, by rw [I128.div_eq_divMod, e]; rfl, hq⟩
  · exact ⟨r, by rw [I128.mod_eq_divMod, e]; rfl, hr⟩

/-- **`Int128.DivMod64`** over the value of the `int64` operand: quotient truncated toward zero (reduced mod 2^128),
    remainder with the sign of the dividend, for every non-zero `int64` divisor -/
theorem idivMod64_spec (a : I128) (n : W) (h : I128.int64Val n ≠ 0) :
    ∃ q r, a.divModW n = .ok (q, r) ∧ q.toInt = I128.wrap128 (a.toInt.tdiv (I128.int64Val n)) ∧
      r.toInt = a.toInt.tmod (I128.int64Val n) := by
  have e := I128.ext64_toInt n
  have := idivMod_spec a ⟨I128.ext64 n, n⟩ (by rw [e]; exact h)
  rw [e] at this
  exact this

/-- **`Int128.Mod64`**: remainder with the sign of the dividend for every non-zero `int64` divisor -/
theorem imod64_spec (a : I128) (n : W) (h : I128.int64Val n ≠ 0) :
    ∃ r, a.modW n = .ok r ∧ r.toInt = a.toInt.tmod (I128.int64Val n) := by
  obtain ⟨q, r, e, _, hr⟩ := idivMod64_spec a n h
  exact ⟨r, by unfold I128.modW; rw [e], hr⟩
/-! non-vacuity: concrete evaluations of the model on each kind of path — 7 / 2 = 3 rem 1 (64-bit fast path);
    the hypotheses of the kernel contracts are met by concrete operands (`divmod128by64`: 2^64 / 3 with high word 1 < 3;
    `divmod128by128`: divisor 2^64 + 1) -/
example : (U128.mk 1#64 0#64).toNat ≠ 0 ∧ (U128.mk 1#64 0#64).toNat ≤ (U128.mk 1#64 0#64).toNat := by
  simp [U128.toNat]
example : (U128.mk 0#64 7#64).divMod (U128.mk 0#64 2#64) = .ok (⟨0#64, 3#64⟩, ⟨0#64, 1#64⟩) := by
  simp [U128.divMod]
example : (3#64 : W) ≠ 0#64 ∧ (U128.mk 1#64 0#64).hi.toNat < (3#64 : W).toNat := by decide
example : (U128.mk 1#64 1#64).hi ≠ 0#64 := by decide

/-! ## the panic clause made falsifiable: the partial-division model `Model/U128Hw.lean` (what the driver runs for the
    twelve division entry points; outcome `ok` / `divzero` = explicit panic / `hwdiv` = the runtime's divide panic) -/

/-- panic clause, unsigned: the six `Uint128` division entry points with every machine division partial (the functions
    the driver runs) are the total model the spec theorems above speak about, `Res.panic` read as the explicit panic -/
theorem hw_unsigned_eq (a n : U128) (w : W) :
    a.divModC n = Out.ofRes (a.divMod n) ∧ a.divC n = Out.ofRes (a.div n) ∧ a.modC n = Out.ofRes (a.mod n) ∧
    a.divModWC w = Out.ofRes (a.divModW w) ∧ a.divWC w = Out.ofRes (a.divW w) ∧ a.modWC w = Out.ofRes (a.modW w) :=
  ⟨U128.divModC_eq a n, U128.divC_eq a n, U128.modC_eq a n, U128.divModWC_eq a w, U128.divWC_eq a w, U128.modWC_eq a w⟩

/-- panic clause, signed: the same for the six `Int128` entry points (they have no machine division of their own) -/
theorem hw_signed_eq (a n : I128) (w : W) :
    a.divModC n = Out.ofRes (a.divMod n) ∧ a.divC n = Out.ofRes (a.div n) ∧ a.modC n = Out.ofRes (a.mod n) ∧
    a.divModWC w = Out.ofRes (a.divModW w) ∧ a.divWC w = Out.ofRes (a.divW w) ∧ a.modWC w = Out.ofRes (a.modW w) :=
  ⟨I128.divModC_eq a n, I128.divC_eq a n, I128.modC_eq a n, I128.divModWC_eq a w, I128.divWC_eq a w, I128.modWC_eq a w⟩

/-- **no operation lets the runtime's integer-divide panic through**: none of the twelve division entry points ever
    divides a machine word by zero, for any operands (zero divisors included — those raise the explicit panic) -/
theorem hw_never_runtime_panic (a n : U128) (i m : I128) (w : W) :
    a.divModC n ≠ .hwdiv ∧ a.divC n ≠ .hwdiv ∧ a.modC n ≠ .hwdiv ∧
    a.divModWC w ≠ .hwdiv ∧ a.divWC w ≠ .hwdiv ∧ a.modWC w ≠ .hwdiv ∧
    i.divModC m ≠ .hwdiv ∧ i.divC m ≠ .hwdiv ∧ i.modC m ≠ .hwdiv ∧
    i.divModWC w ≠ .hwdiv ∧ i.divWC w ≠ .hwdiv ∧ i.modWC w ≠ .hwdiv := by
  have k : ∀ {α : Type} (r : Res α), Out.ofRes r ≠ Out.hwdiv := fun r => by cases r <;> intro h <;> cases h
  rw [U128.divModC_eq, U128.divC_eq, U128.modC_eq, U128.divModWC_eq, U128.divWC_eq, U128.modWC_eq,
    I128.divModC_eq, I128.divC_eq, I128.modC_eq, I128.divModWC_eq, I128.divWC_eq, I128.modWC_eq]
  exact ⟨k _, k _, k _, k _, k _, k _, k _, k _, k _, k _, k _, k _⟩

/-- **division or remainder by zero panics (explicit `panic(divByZero)`) and nothing else does**, unsigned, on the
    partial-division model: the outcome is `divzero` exactly for a zero divisor -/
theorem hw_divzero_iff (a n : U128) (w : W) :
    (a.divModC n = .divzero ↔ n.toNat = 0) ∧ (a.divC n = .divzero ↔ n.toNat = 0) ∧
    (a.modC n = .divzero ↔ n.toNat = 0) ∧ (a.divModWC w = .divzero ↔ w = 0#64) ∧
    (a.divWC w = .divzero ↔ w = 0#64) ∧ (a.modWC w = .divzero ↔ w = 0#64) := by
  have k : ∀ {α : Type} (r : Res α), Out.ofRes r = Out.divzero ↔ r = .panic := fun r => by
    cases r <;> constructor <;> intro h <;> first | rfl | cases h
  have km : ∀ {α β : Type} (r : Res α) (f : α → β), r.map f = .panic ↔ r = .panic := fun r f => by
    cases r <;> constructor <;> intro h <;> first | rfl | cases h
  have hw : (ofW w).toNat = 0 ↔ w = 0#64 := by rw [U128.ofW_toNat, U128.w_eq_iff]; rfl
  rw [U128.divModC_eq, U128.divC_eq, U128.modC_eq, U128.divModWC_eq, U128.divWC_eq, U128.modWC_eq,
    k, k, k, k, k, k, U128.div_eq_divMod, U128.mod_eq_divMod, U128.divModW_eq, U128.divW_eq, U128.modW_eq,
    U128.div_eq_divMod, U128.mod_eq_divMod, km, km, km, km, U128.divMod_panic_iff, U128.divMod_panic_iff, hw]
  exact ⟨Iff.rfl, Iff.rfl, Iff.rfl, Iff.rfl, Iff.rfl, Iff.rfl⟩

/-- the same for the six signed entry points, over the value of the divisor -/
theorem hw_idivzero_iff (a n : I128) (w : W) :
    (a.divModC n = .divzero ↔ n.toInt = 0) ∧ (a.divC n = .divzero ↔ n.toInt = 0) ∧
    (a.modC n = .divzero ↔ n.toInt = 0) ∧ (a.divModWC w = .divzero ↔ w = 0#64) ∧
    (a.divWC w = .divzero ↔ w = 0#64) ∧ (a.modWC w = .divzero ↔ w = 0#64) := by
  have k : ∀ {α : Type} (r : Res α), Out.ofRes r = Out.divzero ↔ r = .panic := fun r => by
    cases r <;> constructor <;> intro h <;> first | rfl | cases h
  have hz : ∀ m : I128, m.toInt = 0 → m = I128.zero := fun m h => I128.toInt_inj (by rw [h]; decide)
  have hw : ∀ v : W, I128.int64Val v = 0 ↔ v = 0#64 := fun v => by
    have := v.isLt
    rw [U128.w_eq_iff]; unfold I128.int64Val; simp only [BitVec.toNat_ofNat]; split <;> omega
  have z := idiv_zero_panics a
  rw [I128.divModC_eq, I128.divC_eq, I128.modC_eq, I128.divModWC_eq, I128.divWC_eq, I128.modWC_eq, k, k, k, k, k, k]
  refine ⟨⟨?_, ?_⟩, ⟨?_, ?_⟩, ⟨?_, ?_⟩, ⟨?_, ?_⟩, ⟨?_, ?_⟩, ⟨?_, ?_⟩⟩
  · intro e; apply Classical.byContradiction; intro h
    obtain ⟨q, r, e', _⟩ := idivMod_spec a n h; rw [e'] at e; cases e
  · intro h; rw [hz n h]; exact z.2.1
  · intro e; apply Classical.byContradiction; intro h
    obtain ⟨⟨q, e', _⟩, _⟩ := idiv_imod_spec a n h; rw [e'] at e; cases e
  · intro h; rw [hz n h]; exact z.1
  · intro e; apply Classical.byContradiction; intro h
    obtain ⟨_, ⟨q, e', _⟩⟩ := idiv_imod_spec a n h; rw [e'] at e; cases e
  · intro h; rw [hz n h]; exact z.2.2.1
  · intro e; apply Classical.byContradiction; intro h
    obtain ⟨q, r, e', _⟩ := idivMod64_spec a w (fun c => h ((hw w).mp c)); rw [e'] at e; cases e
  · intro h; rw [h]; exact z.2.2.2.2.1
  · intro e; apply Classical.byContradiction; intro h
    obtain ⟨q, e', _⟩ := idiv64_spec a w (fun c => h ((hw w).mp c)); rw [e'] at e; cases e
  · intro h; rw [h]; exact z.2.2.2.1
  · intro e; apply Classical.byContradiction; intro h
    obtain ⟨q, e', _⟩ := imod64_spec a w (fun c => h ((hw w).mp c)); rw [e'] at e; cases e
  · intro h; rw [h]; exact z.2.2.2.2.2

/-- `divMod_spec` and `q*n + r = u` restated about the function the driver runs (`divModC`) -/
theorem hw_divMod_spec (a n : U128) (h : n.toNat ≠ 0) :
    ∃ q r, a.divModC n = .ok (q, r) ∧ q.toNat = a.toNat / n.toNat ∧ r.toNat = a.toNat % n.toNat ∧
      q.toNat * n.toNat + r.toNat = a.toNat := by
  obtain ⟨q, r, e, hq, hr⟩ := divMod_spec a n h
  refine ⟨q, r, by rw [U128.divModC_eq, e]; rfl, hq, hr, ?_⟩
  rw [hq, hr, Nat.mul_comm]; exact Nat.div_add_mod _ _

/-- `idivMod_spec` restated about the function the driver runs (`I128.divModC`) -/
theorem hw_idivMod_spec (a n : I128) (h : n.toInt ≠ 0) :
    ∃ q r, a.divModC n = .ok (q, r) ∧ q.toInt = I128.wrap128 (a.toInt.tdiv n.toInt) ∧
      r.toInt = a.toInt.tmod n.toInt := by
  obtain ⟨q, r, e, hq, hr⟩ := idivMod_spec a n h
  exact ⟨q, r, by rw [I128.divModC_eq, e]; rfl, hq, hr⟩

/-- the 128/64 kernel raises the runtime's divide panic exactly when the top digit of the shifted divisor is 0 -/
theorem hw_kernel_by64_iff (u : U128) (n : W) (s : Nat) :
    (U128.divmod128by64C u n s = .hwdiv ↔ (n <<< s) >>> 32 = 0#64) ∧
    ((n <<< s) >>> 32 ≠ 0#64 → U128.divmod128by64C u n s = .ok (U128.divmod128by64 u n s)) := by
  refine ⟨⟨fun e => ?_, U128.by64C_hw u n s⟩, U128.by64C_ok u n s⟩
  apply Classical.byContradiction; intro h
  rw [U128.by64C_ok u n s h] at e; cases e

/-- with the divisor's own leading-zero count (what every caller passes) the kernel performs no division by zero -/
theorem hw_kernel_normalised (u : U128) (n : W) (hn : n ≠ 0#64) :
    U128.divmod128by64C u n (U128.clz n) = .ok (U128.divmod128by64 u n (U128.clz n)) :=
  U128.by64C_ok _ _ _ (U128.vn1_ne n hn)

/-- CONTRAST: the kernel called WITHOUT the normalisation count (`5 / 1`, `nLeading0 = 0`) divides by the zero digit
    `vn1` — the runtime's panic; it is the callers' leading-zero count that keeps `vn1` non-zero -/
theorem hw_kernel_unnormalised : U128.divmod128by64C ⟨0#64, 5#64⟩ 1#64 0 = .hwdiv := U128.by64C_unnormalised

/-- `divmod128by128`, called with the counts every entry point passes (64 / `clz n.lo` for a word divisor, `clz n.hi` / 0
    otherwise) and any non-zero divisor, performs no machine division by zero and is the total kernel -/
theorem hw_kernel_by128_ok (u n : U128) (h : n.toNat ≠ 0) :
    U128.divmod128by128C u n (if n.hi = 0#64 then 64 else U128.clz n.hi) (if n.hi = 0#64 then U128.clz n.lo else 0) =
      .ok (U128.divmod128by128 u n (if n.hi = 0#64 then 64 else U128.clz n.hi)
        (if n.hi = 0#64 then U128.clz n.lo else 0)) := by
  apply U128.by128C_ok
  rintro ⟨h1, h2⟩
  apply h
  unfold U128.toNat; rw [h1, h2]; rfl
/-- CONTRAST: the same kernel with a word divisor below 2^32 and WITHOUT its leading-zero count (`2^64 / 3`,
    `nLoLeading0 = 0`) divides by the zero digit -/
theorem hw_kernel_by128_unnormalised :
    U128.divmod128by128C ⟨1#64, 0#64⟩ ⟨0#64, 3#64⟩ 64 0 = .hwdiv := by decide

/-- CONTRAST: each unsigned entry point WITHOUT its explicit zero test (the `…Rest` part of the transcription) reaches
    the machine division `u.lo / 0` for every dividend below 2^64: the runtime's panic instead of the library's -/
theorem hw_without_zero_test (x : W) :
    U128.divModRest ⟨0#64, x⟩ U128.zero = .hwdiv ∧ U128.divRest ⟨0#64, x⟩ U128.zero = .hwdiv ∧
    U128.modRest ⟨0#64, x⟩ U128.zero = .hwdiv ∧ U128.divModWRest ⟨0#64, x⟩ 0#64 = .hwdiv ∧
    U128.divWRest ⟨0#64, x⟩ 0#64 = .hwdiv ∧ U128.modWRest ⟨0#64, x⟩ 0#64 = .hwdiv := by
  refine ⟨U128.divModRest_zero_small x, ?_, ?_, U128.divModWRest_zero_small x, ?_, ?_⟩
  · unfold U128.divRest; rw [if_neg (by decide), if_pos ⟨rfl, rfl⟩]; rfl
  · unfold U128.modRest; rw [if_neg (by decide), if_pos ⟨rfl, rfl⟩]; rfl
  · unfold U128.divWRest; rw [if_neg (by decide), if_pos rfl]; rfl
  · unfold U128.modWRest; rw [if_neg (by decide), if_pos rfl]; rfl

example : (U128.mk 0#64 7#64).divModC (U128.mk 0#64 2#64) = .ok (⟨0#64, 3#64⟩, ⟨0#64, 1#64⟩) := by
  simp [U128.divModC, U128.divModRest, U128.hwDiv, U128.hwMod, U128.Out.bind]
example : (U128.mk 0#64 7#64).divModC U128.zero = .divzero := by decide

/-! ## constants, limits, reinterpretation, and the reconstruction law on the model's own operations -/

/-- the constants the model copies from the source (`bit32`, `signBit`) and the dispatch threshold are the values read
    from `/repo` on this run (`Generated/Facts.lean`) -/
theorem consts_from_source :
    (U128.bit32.toNat : Int) = Facts.num_bit32 ∧ (U128.signBit.toNat : Int) = Facts.num_signBit ∧
    (U128.threshold : Int) = Facts.num_divBinaryShiftThreshold := by decide

/-- **quotient·divisor + remainder reproduces the dividend**, stated with the model's own `Mul` and `Add` (so the three
    operations are related to each other, not only each to ℕ), and the remainder is `LessThan` the divisor -/
theorem div_mul_add_mod_ops (a n : U128) (h : n.toNat ≠ 0) :
    ∃ q r, a.divMod n = .ok (q, r) ∧ (q.mul n).add r = a ∧ r.lessThan n = true := by
  obtain ⟨q, r, e, h1, h2⟩ := div_mul_add_mod a n h
  refine ⟨q, r, e, U128.toNat_inj ?_, ?_⟩
  · rw [U128.add_toNat, U128.mul_toNat, Nat.mod_add_mod, h1]; exact Nat.mod_eq_of_lt a.toNat_lt
  · rw [U128.lessThan_eq]; exact decide_eq_true h2

/-- the same for `Int128`, for every non-zero divisor — also `MinInt128 / -1`, where the quotient wraps -/
theorem idiv_mul_add_mod_ops (a n : I128) (h : n.toInt ≠ 0) :
    ∃ q r, a.divMod n = .ok (q, r) ∧ (q.mul n).add r = a := by
  obtain ⟨q, r, e, h1⟩ := idiv_mul_add_mod a n h
  refine ⟨q, r, e, I128.toInt_inj ?_⟩
  rw [I128.add_toInt, I128.mul_toInt, ← h1]
  unfold I128.wrap128; omega


/-- the exported limits `MaxUint128`, `MaxInt128`, `MinInt128` are the ends of the value ranges -/
theorem limits_spec :
    U128.maxU128.toNat = 2^128 - 1 ∧ I128.maxI128.toInt = 2^127 - 1 ∧ I128.minI128.toInt = -2^127 ∧
    (∀ a : U128, a.toNat ≤ U128.maxU128.toNat) ∧
    (∀ i : I128, I128.minI128.toInt ≤ i.toInt ∧ i.toInt ≤ I128.maxI128.toInt) := by
  have h1 : U128.maxU128.toNat = 2^128 - 1 := by decide
  have h2 : I128.maxI128.toInt = 2^127 - 1 := by decide
  have h3 : I128.minI128.toInt = -2^127 := by decide
  refine ⟨h1, h2, h3, fun a => ?_, fun i => ?_⟩
  · have := a.toNat_lt; omega
  · have := I128.toInt_range i; omega

/-- `Uint128.AsInt128` / `Int128.AsUint128` (the harness moves every second operand and result through them) reinterpret
    the same 128 bits: value mod 2^128, and they are inverse to each other -/
theorem reinterpret_spec (u : U128) (i : I128) :
    (I128.ofU u).toInt = I128.wrap128 u.toNat ∧ (i.toU.toNat : Int) = i.toInt % 2^128 ∧
    I128.ofU i.toU = i ∧ (I128.ofU u).toU = u := by
  refine ⟨I128.ofU_toInt u, ?_, rfl, rfl⟩
  have := i.toU.toNat_lt
  rw [I128.toInt_eq]; split <;> omega

/-! ## contrast: the code without one of the mechanisms violates the statement (variants in `Lemmas/U128Contrast.lean`) -/

/-- CONTRAST (carry/borrow propagation): without the carry resp. borrow into the high word, and without the cross
    products, `Add`/`Sub`/`Mul` are not the operation mod 2^128 -/
theorem contrast_carry :
    (addNoCarry ⟨0#64, 0xffffffffffffffff#64⟩ ⟨0#64, 1#64⟩).toNat ≠
      ((U128.mk 0#64 0xffffffffffffffff#64).toNat + (U128.mk 0#64 1#64).toNat) % 2^128 ∧
    (subNoBorrow ⟨1#64, 0#64⟩ ⟨0#64, 1#64⟩).toNat ≠
      ((U128.mk 1#64 0#64).toNat + 2^128 - (U128.mk 0#64 1#64).toNat) % 2^128 ∧
    (mulNoCross ⟨1#64, 0#64⟩ ⟨0#64, 3#64⟩).toNat ≠ ((U128.mk 1#64 0#64).toNat * (U128.mk 0#64 3#64).toNat) % 2^128 := by
  decide

/-- CONTRAST (the fixed defect): `OnesCount` as it was before the fix violates `onesCount_spec` at 2^64 -/
theorem contrast_onesCount_before_fix :
    onesCountOld ⟨1#64, 0#64⟩ ≠ (List.range 128).countP (fun i => (U128.mk 1#64 0#64).toNat.testBit i) := by
  decide

/-- CONTRAST (correction loops of `divmod128by64`): without `loop1`/`loop2` the kernel's quotient is wrong on an operand
    pair that needs two corrections of the first digit (path tag `by64lo,l1=2,l2=1`), although the kernel's
    precondition holds — `divmod128by64_spec` needs the loops -/
theorem contrast_correction_loops :
    (by64NoLoops ⟨0x75287bdfeaa23f64#64, 0x1f67dff300000000#64⟩ 0x986f8c9ffffffffe#64 0).1.toNat ≠
      (U128.mk 0x75287bdfeaa23f64#64 0x1f67dff300000000#64).toNat / (0x986f8c9ffffffffe#64 : W).toNat := by
  decide

/-- CONTRAST (final correction of `divmod128by128`): without `if r.Cmp(n) >= 0 { q++; r -= n }` the quotient is one
    short (path tag `by128,corr`) -/
theorem contrast_final_correction :
    (by128NoCorr ⟨0xffffffff#64, 0xffffffffffffffff#64⟩ ⟨0xfffff#64, 0xffffffffffffffff#64⟩ 44 0).1.toNat ≠
      (U128.mk 0xffffffff#64 0xffffffffffffffff#64).toNat / (U128.mk 0xfffff#64 0xffffffffffffffff#64).toNat := by
  decide

/-- CONTRAST (decrement of the estimate in `divmod128by128`): without `q.lo--` the estimate `q+1` is multiplied back,
    the remainder wraps and the "correction" makes it `q+2` (path tag `by128,nocorr,dec`) -/
theorem contrast_estimate_decrement :
    (by128NoDec ⟨0x7fffffffc0#64, 0x66#64⟩ ⟨0x20#64, 0x1#64⟩ 58 0).1.toNat ≠
      (U128.mk 0x7fffffffc0#64 0x66#64).toNat / (U128.mk 0x20#64 0x1#64).toNat := by
  decide

/-- CONTRAST (high/low split of the word-divisor case): the 128/64 kernel called with `u.hi ≥ n` (2^65·… / 3 without
    first dividing the high word) does not return the quotient — the hypothesis `u.hi < n` of `divmod128by64_spec` is needed -/
theorem contrast_high_low_split :
    (by128NoSplit ⟨3#64, 0#64⟩ ⟨0#64, 3#64⟩ 62).1.toNat ≠ (U128.mk 3#64 0#64).toNat / (U128.mk 0#64 3#64).toNat := by
  decide

/-- CONTRAST (sign-aware comparison): the unsigned order of the bit patterns puts −1 above 0 -/
theorem contrast_signed :
    lessThanUnsigned ⟨0xffffffffffffffff#64, 0xffffffffffffffff#64⟩ I128.zero ≠
      decide ((I128.mk 0xffffffffffffffff#64 0xffffffffffffffff#64).toInt < I128.zero.toInt) := by
  decide
/-- CONTRAST (sign extension of the `int64` operand): `Add64(-1)` without the `nhi` word adds 2^64 − 1 -/
theorem contrast_signed2 :
    (addWNoExt I128.zero 0xffffffffffffffff#64).toInt ≠
      I128.wrap128 (I128.zero.toInt + I128.int64Val 0xffffffffffffffff#64) := by
  decide
/-- CONTRAST (signed division via magnitudes): the unsigned quotient of the bit patterns of −4 and 2 is 2^127 − 2,
    not −2 -/
theorem contrast_signed3 :
    divUnsigned ⟨0xffffffffffffffff#64, 0xfffffffffffffffc#64⟩ ⟨0#64, 2#64⟩ =
      .ok ⟨0x7fffffffffffffff#64, 0xfffffffffffffffe#64⟩ := by
  decide

/-! ## faithfulness of the fuelled loop -/

/-- faithfulness of the model's loops: the `goto` correction loops of `divmod128by64` are unbounded in the source and
    fuelled (fuel 4) in the model; at both call sites (top digit of the divisor normalised by its own leading-zero count,
    `rhat` a remainder modulo that digit) every fuel from 2 on gives the same result, so the bound is never what ends
    the loop -/
theorem corrLoop_fuel_irrelevant (n : W) (hn : n ≠ 0#64) (x vn0 unx q left right : W) (f : Nat) :
    U128.corrLoop ((n <<< U128.clz n) >>> 32) vn0 unx (f + 2) q (x % ((n <<< U128.clz n) >>> 32)) left right =
    U128.corrLoop ((n <<< U128.clz n) >>> 32) vn0 unx 2 q (x % ((n <<< U128.clz n) >>> 32)) left right := by
  obtain ⟨h1, h2⟩ := U128.vn1_range n hn
  exact U128.corrLoop_fuel _ _ _ _ _ _ _ h1 h2 (U128.mod_lt32 _ _ (by omega) h2) f

end C01
