import Model.U128
import Model.I128
/-! # C01 — placeholder, theorems are moved in below -/
namespace C01
open U128

/-- division or remainder by zero panics -/
theorem div_zero_panics (a n : U128) (h : n.toNat = 0) :
    a.div n = .panic ∧ a.mod n = .panic ∧ a.divMod n = .panic := by
  have h1 := n.hi.isLt; have h2 := n.lo.isLt
  unfold toNat at h
  have hh : n.hi = 0#64 := BitVec.eq_of_toNat_eq (by simp; omega)
  have hl : n.lo = 0#64 := BitVec.eq_of_toNat_eq (by simp; omega)
  simp [div, mod, divMod, hh, hl]

end C01
