import Generated.C13Facts
import Model.LogEntry
/-! # C13 — the constants the models copy by hand ARE those of the source of the working tree

`Generated/C13Facts.lean` is written on every run by `vlib/c13facts.py` from `log/tracelog/tracelog.go`, `errs/log.go` and
`errs/recovery.go` (textual patterns; a pattern that no longer matches gives `none` / an empty table and the statement
about it is vacuous — reduced coverage, reported in the evidence, never an alarm).  What is found must agree with
`Model/LogHandlers.lean` / `Model/LogEntry.lean`, decided here in the kernel. -/
namespace C13Tie
open C13Facts

/-- the key under which tracelog looks for the record's stack (`TL.stackKey`, used by `appendAttr`, `ELog.stackAttr`) is
    the value of the constant `errs.StackTraceKey` -/
theorem stack_key_is_the_source_constant : stackTraceKey = none ∨ stackTraceKey = some TL.stackKey := by decide

/-- every level tag the `switch r.Level` of `Handle` writes is the tag `TL.levelTag` gives that level (no names
    configured), and when the switch was found it covers the four levels the model names -/
theorem level_tags_are_the_source_switch :
    (∀ p ∈ levelTags, TL.levelTag [] p.1 = p.2) ∧
    (levelTags = [] ∨ ∀ l ∈ [(-4 : Int), 0, 4, 8], (levelTags.lookup l).isSome = true) := by decide

/-- every other level is printed with the verb `%3d` (`TL.pad3`: decimal, right-aligned in three columns) -/
theorem other_levels_use_the_source_verb :
    (otherLevelFormat = none ∨ otherLevelFormat = some [37, 51, 100]) ∧
    TL.levelTag [] 5 = [32, 32, 53] ∧ TL.levelTag [] (-12) = [45, 49, 50] ∧ TL.levelTag [] 1234 = [49, 50, 51, 52] := by
  decide

/-- the separator before the first attribute, the dot after a group name, the blank before and the equals sign after a
    key are the literals of `addBarIfNeeded`, `addGroup` and `writeGroupAndKey` -/
theorem separators_are_the_source_literals :
    (barText = none ∨ barText = some (TL.addBar { buf := [] }).buf) ∧
    (groupSep = none ∨ groupSep = some (TL.addGroup { buf := [] } []).group) ∧
    ((keyLead = none ∨ keyValSep = none) ∨
      (TL.writeKV { buf := [] } [] []).buf = keyLead.getD [] ++ keyValSep.getD []) := by decide

/-- the exported entry points of `errs/log.go` (those whose body is one call of `log` / `logAttrs`): each hands on
    `WrapTyped(err)` and its variadic arguments, logs at the level it is given or else at `slog.LevelError` (8), with
    the context it is given or else `context.Background()`, to the logger it is given or else `slog.Default()` — what
    the harness assumes when it drives them (`logx`) and what `ELog.logToTL` takes as parameters -/
theorem entry_points_share_one_body :
    ∀ e ∈ entryPoints, e.wrapsTyped = true ∧ e.passesRest = true ∧ (e.levelGiven = true ∨ e.level = some 8) ∧
      (e.ctxGiven = true ∨ e.ctxBackground = true) ∧ (e.loggerGiven = true ∨ e.loggerDefault = true) := by decide

/-- the position of `defer Recovery(nil)` relative to the call of the handler, as found in the source, is the one with
    which the model lets no panic of a bad handler escape (`Rec.recovery g`; `g = false` is the refuted variant) -/
theorem recovery_guard_is_where_the_source_has_it :
    ∀ g, guardBeforeHandler = some g →
      (Rec.recovery g #[] (.panics (.other "bad handler")) (some (.other "boom"))).2.escaped = none := by
  intro g; cases g <;> decide

end C13Tie
