import Model.Notifier
namespace C17
open Nt
/-- placeholder while the pipeline is brought up -/
theorem reset_silent (s : NSt) (raw : List Nat) : notify (reset s) raw = [] := by
  simp [notify, reset, delivery, prefixes, gather]
  intro _ _
  induction (List.range (normalize raw).length) <;> simp_all [assocGet]
end C17
