import Lemmas.NotifierDelivery
import Lemmas.NotifierConc
import Lemmas.NotifierReentry
import Lemmas.NotifierReentryN
import Lemmas.NotifierBatchEn
import Lemmas.NotifierMerge
import Lemmas.NotifierJudge
import Lemmas.NotifierCycles
import Lemmas.NotifierPanV
import Lemmas.NotifierIndep
import Lemmas.NotifierHeapRef
import Lemmas.NotifierHeapRefN
/-! # C17 — notifications reach exactly the registered targets, once, in priority order

Property theorems only.  The executable model is `Model/Notifier.lean` (`Nt.step`, run by `drv_c17` against the Go
code on every check); helper lemmas are in `Lemmas/Notifier*.lean`.

Vocabulary.  A *history* is a list of `Nt.Op` over any number of notifiers (indexed by `Nat`) and targets (`Nat`);
`Nt.run pan ops` is the world after the history (`pan` says which targets panic) together with every event the targets
and recovery handlers observed.  `Nt.specRun ops i : Name → target → Option priority` is the *specification relation*
`registered` of notifier `i`, computed from the history alone by the four obvious rules (`Nt.specStep`: Register sets,
Unregister clears the target, RegisterFromNotifier overlays the other notifier's relation, Reset clears everything).
Names are byte strings; `normalize` = the non-empty dot-separated segments; `pre <+: n` on segment lists is
"`pre` is `n` or a dot-ancestor of `n`".  The theorems of the first part are sequential (one operation at a time).

The second part (`concurrent_…`, `notify_delivers_snapshot`, `delivery_touches_no_shared_state`, `unlocked_…`) carries
the logical half of the clause "concurrent use is free of data races" on the model `Model/NotifierConc.lean`: several
goroutines, one notifier and its mutex, every method a sequence of lock brackets (`NtC.ROp`, micro-step semantics
`NtC.sys`, one micro-step per loop iteration) followed by an unlocked phase on goroutine-local data (`NtC.Local`: sort,
then one callback per step), ANY scheduler (`NtC.cexec`).  The other half — that the Go code really touches the maps
only inside the brackets and never writes a snapshot after handing it out — is what the `-race` stress run watches. -/
namespace C17
open Nt

/-- *refinement* (basis of every statement below): in every reachable world the production map of notifier `i` holds
    exactly the registrations the history prescribes — directly or through `RegisterFromNotifier`, minus what
    `Unregister`/`Reset` removed -/
theorem registered_spec (pan : Nat → Bool) (ops : List Op) (i : Nat) (n : Name) (t : Nat) :
    lookup ((run pan ops).1 i).prod n t = specRun ops i n t :=
  lookup_run pan ops i n t

/-- clause "invokes HandleNotification exactly once on each target currently registered for the name or for any
    dot-separated ancestor of it": after any history, `Notify(raw)` on notifier `i` reaches `t` iff the notifier is enabled
    and `t` is registered under a non-empty segment-wise prefix of the normalised name; and no target twice -/
theorem notify_targets (pan : Nat → Bool) (ops : List Op) (i : Nat) (raw : List Nat) :
    (∀ t, t ∈ targetsOf (notify ((run pan ops).1 i) raw) ↔
      ((run pan ops).1 i).enabled = true ∧
      ∃ pre, pre ≠ [] ∧ pre <+: normalize raw ∧ (specRun ops i pre t).isSome) ∧
    (targetsOf (notify ((run pan ops).1 i) raw)).Nodup := by
  refine ⟨fun t => ?_, nodup_targets_notify _ _⟩
  rw [mem_targets_notify _ (winv_run pan ops i)]
  simp only [registered_spec]

/-- clause "in non-increasing order of the priority registered for the most specific matching name": the delivery list
    is non-increasing in its priorities, and the priority attached to `t` is the one registered under the longest
    ancestor-or-self of the name that mentions `t` -/
theorem notify_priority_order (pan : Nat → Bool) (ops : List Op) (i : Nat) (raw : List Nat) :
    (notify ((run pan ops).1 i) raw).Pairwise (fun a b => a.1 ≥ b.1) ∧
    ∀ p t, (p, t) ∈ notify ((run pan ops).1 i) raw →
      ∃ pre, pre ≠ [] ∧ pre <+: normalize raw ∧ specRun ops i pre t = some p ∧
        ∀ pre', pre' <+: normalize raw → pre.length < pre'.length → specRun ops i pre' t = none := by
  refine ⟨sorted_notify _ _, fun p t hm => ?_⟩
  have := prio_notify _ (winv_run pan ops i) raw p t hm
  simpa only [registered_spec] using this

/-- clause "never for a name that merely shares a textual prefix": a target all of whose registrations are under names
    that are not segment-wise prefixes of the notified name is not reached, whatever the spelling of those names -/
theorem no_textual_prefix (pan : Nat → Bool) (ops : List Op) (i : Nat) (raw : List Nat) (t : Nat)
    (h : ∀ m, (specRun ops i m t).isSome → ¬ m <+: normalize raw) :
    t ∉ targetsOf (notify ((run pan ops).1 i) raw) := by
  rw [(notify_targets pan ops i raw).1]
  rintro ⟨_, pre, _, hp, hs⟩
  exact h pre hs hp

/-- the walk visits exactly the non-empty segment-wise prefixes (`foo.bar` is not an ancestor of `foo.barn`) -/
theorem walk_is_segmentwise (n pre : Name) : pre ∈ prefixes n ↔ pre ≠ [] ∧ pre <+: n := mem_prefixes n pre

/-- "foo.bar" is a textual prefix of "foo.barn" (bytes) but not a dot-ancestor -/
example : ([102, 111, 111, 46, 98, 97, 114] : List Nat) <+: [102, 111, 111, 46, 98, 97, 114, 110] ∧
    ¬ normalize [102, 111, 111, 46, 98, 97, 114] <+: normalize [102, 111, 111, 46, 98, 97, 114, 110] := by
  decide

/-- clause "on nobody while the notifier is disabled or after the target is unregistered or the notifier Reset":
    in every reachable world, a disabled notifier delivers nothing; right after `Unregister(t)` no name reaches `t`
    (every other target is unaffected: `unregister_frame`); right after `Reset` no name reaches anybody.
    (Silence *persists* until a new Register/RegisterFromNotifier by `notify_targets`, whose right-hand side is the
    history-level relation `specRun`.) -/
theorem disabled_or_unregistered_or_reset_silent (pan : Nat → Bool) (ops : List Op) (i : Nat) (raw : List Nat) :
    (((run pan ops).1 i).enabled = false → notify ((run pan ops).1 i) raw = []) ∧
    (∀ t, t ∉ targetsOf (notify ((step pan (run pan ops).1 (.unregister i t)).1 i) raw)) ∧
    notify ((step pan (run pan ops).1 (.reset i)).1 i) raw = [] := by
  have hw := winv_run pan ops
  refine ⟨fun he => by simp [notify, he], fun t => ?_, ?_⟩
  · have hinv := winv_step pan _ hw (.unregister i t) i
    rw [mem_targets_notify _ hinv]
    rintro ⟨_, pre, _, _, hs⟩
    simp only [step, World.set, if_true] at hs
    rw [lookup_unregister _ (hw i)] at hs
    simp at hs
  · apply notify_nil_of_no_targets
    intro t
    have hinv := winv_step pan _ hw (.reset i) i
    rw [mem_targets_notify _ hinv]
    rintro ⟨_, pre, _, _, hs⟩
    simp only [step, World.set, if_true] at hs
    rw [lookup_reset] at hs
    simp at hs

/-- `Unregister(t)` removes `t` from every name and touches no other registration -/
theorem unregister_frame (pan : Nat → Bool) (ops : List Op) (i t : Nat) (n : Name) (t' : Nat) :
    lookup ((step pan (run pan ops).1 (.unregister i t)).1 i).prod n t' =
      if t' = t then none else lookup ((run pan ops).1 i).prod n t' := by
  simp only [step, World.set, if_true]
  exact lookup_unregister _ (winv_run pan ops i) t n t'

/-- `Register(t, prio, names…)`: afterwards `t` has priority `prio` under each non-empty normalised name; every other
    (name, target) pair is as before -/
theorem register_spec (s : NSt) (t : Nat) (p : Int) (raws : List (List Nat)) (n : Name) (t' : Nat) :
    lookup (register s t p raws).prod n t' = if n ∈ normNames raws ∧ t' = t then some p else lookup s.prod n t' :=
  lookup_register s t p raws n t'

/-- clause "directly or through RegisterFromNotifier": after `n_i.RegisterFromNotifier(n_m)` in any reachable world a
    (name, target) pair has the other notifier's priority if the other registers it and the receiver's own otherwise —
    also for names both notifiers know (the defect fixed in the repository) —, and the other notifier is unchanged -/
theorem merge_spec (pan : Nat → Bool) (ops : List Op) (i m : Nat) (n : Name) (t : Nat) :
    lookup ((step pan (run pan ops).1 (.merge i m)).1 i).prod n t =
      (lookup ((run pan ops).1 m).prod n t).or (lookup ((run pan ops).1 i).prod n t) ∧
    (i ≠ m → (step pan (run pan ops).1 (.merge i m)).1 m = (run pan ops).1 m) := by
  constructor
  · simp only [step]
    by_cases him : i = m
    · subst him; simp only [if_true]; cases lookup ((run pan ops).1 i).prod n t <;> rfl
    · simp only [him, if_false, World.set, if_true]
      exact lookup_mergeFrom _ _ (winv_run pan ops m) n t
  · intro him
    have : ¬ m = i := fun e => him e.symm
    simp [step, him, World.set, this]

/-! ### notifiers are independent of each other (the clause of regressions ind6-c17-a / ind7-c17-a: a merge must COPY) -/

/-- **after any history — merges in any direction included — what is done to OTHER notifiers changes nothing of notifier
    `i`**: for every continuation `rest` none of whose operations writes `i` (`Op.writes`: Register / Unregister / Reset /
    SetEnabled / Start / End on other notifiers, and `RegisterFromNotifier` INTO other notifiers, also FROM `i`), the state
    of `i`, every delivery list of `i` and the registration relation of `i` are what they were.  So after
    `n₁.RegisterFromNotifier(n₀)` an `Unregister` / `Register` / `Reset` on `n₁` does not remove, add or re-prioritise
    anything `n₀` delivers — and vice versa (take `i := 1`). -/
theorem merge_leaves_notifiers_independent (pan : Nat → Bool) (ops rest : List Op) (i : Nat)
    (h : ∀ op ∈ rest, op.writes ≠ i) :
    (run pan (ops ++ rest)).1 i = (run pan ops).1 i ∧
    (∀ raw, notify ((run pan (ops ++ rest)).1 i) raw = notify ((run pan ops).1 i) raw) ∧
    (∀ n t, specRun (ops ++ rest) i n t = specRun ops i n t) := by
  have h1 : (run pan (ops ++ rest)).1 i = (run pan ops).1 i := by
    show (runFrom pan World.init (ops ++ rest)).1 i = _
    rw [runFrom_append_fst]
    exact runFrom_others pan rest _ i h
  refine ⟨h1, fun raw => by rw [h1], fun n t => ?_⟩
  rw [← registered_spec pan, ← registered_spec pan, h1]

/-- the hypothesis is met by the history of the regression: merge n₀ into n₁, then unregister / register / reset on n₁ -/
example : ∀ op ∈ [Op.merge 1 0, .unregister 1 5, .register 1 2 0 [[97]], .reset 1, .merge 2 0, .startBatch 1], op.writes ≠ 0 := by
  decide

/-- WHY it holds for the code, in the model where it can fail (`Model/NotifierHeap.lean`: inner maps are heap cells, a
    production map holds references): over every history whose merges copy the inner maps (`HOp.deep`, the code), no cell
    is ever referenced by two notifiers and every referenced cell is allocated (`NtH.Sep`), and therefore an operation
    leaves the dereferenced production map of every notifier it does not write untouched -/
theorem deep_merge_keeps_notifiers_separate (ops : List NtH.HOp) (hd : ∀ op ∈ ops, op.deep = true) :
    NtH.Sep (NtH.hrun ops) ∧
    ∀ op : NtH.HOp, op.deep = true → ∀ j, j ≠ op.target →
      NtH.deref (NtH.hstep (NtH.hrun ops) op) j = NtH.deref (NtH.hrun ops) j := by
  have hs : NtH.Sep (NtH.hrun ops) := NtH.sep_hrunFrom ops _ (NtH.sep_init []) hd
  exact ⟨hs, fun op hop j hj => NtH.deref_of_frame _ _ _ j hs (NtH.frame_hstep _ hs op hop) hj⟩

/-- **the value model is a sound abstraction of Go's reference semantics — because the merge copies.**  Run the heap-cell
    model (`Model/NotifierHeap.lean`: inner maps are cells, production maps hold references, `Register` / `Unregister` mutate
    cells in place, `RegisterFromNotifier` lets an unknown name adopt a FRESH COPY of the source's cell) alongside any
    history of the model the driver executes (`NtH.hrunAlong`: each `Nt.Op` as the heap operations `NtH.toH` it amounts to).
    Then at every point no cell is shared between notifiers or names (`NtH.Sep`), and the production map of every notifier
    with its references followed IS, as a list, the production map of `Nt.run` — so every theorem about deliveries above
    speaks about the reference-level semantics too.  (With the shallow merge the statement is false:
    `shared_inner_map_refuted`.) -/
theorem heap_model_refines_value_model (pan : Nat → Bool) (ops : List Op) :
    NtH.Sep (NtH.hrunAlong pan World.init (NtH.HWorld.init []) ops) ∧
    ∀ i, NtH.deref (NtH.hrunAlong pan World.init (NtH.HWorld.init []) ops) i = ((run pan ops).1 i).prod :=
  NtH.ref_run pan ops World.init (NtH.HWorld.init []) NtH.ref_init

/-- the same for `nameMap` (notifier.go:130-137 copies its inner sets, :154-163 merges or adopts them; `Register` mutates
    `targetNames[name] = true` in place): with the inner sets `map[string]bool` as heap cells (`NtH.NW`, operations `NtH.toN`)
    run alongside any history of the driver's model, no inner set is ever shared between notifiers or targets and every
    notifier's dereferenced name map IS the value model's `names` — the map `Unregister` walks and `maps_consistent` speaks
    about.  Together with `heap_model_refines_value_model`: BOTH maps of maps are covered. -/
theorem heap_model_refines_value_model_names (pan : Nat → Bool) (ops : List Op) :
    NtH.Sep (NtH.nrunAlong pan World.init (NtH.HWorld.init []) ops) ∧
    ∀ i, NtH.deref (NtH.nrunAlong pan World.init (NtH.HWorld.init []) ops) i = ((run pan ops).1 i).names :=
  NtH.refN_run pan ops World.init (NtH.HWorld.init []) NtH.refN_init

/-- CONTRAST for `nameMap` (`NtH.shareNames d`: notifier 0 registers target 1 for "a"; notifier 1 merges notifier 0 and
    registers target 1 for "b").  With the shallow merge both name maps reference cell 0 and the SOURCE notifier 0 finds
    the name "b" — which it never registered — in its name set of target 1 (its `maps_consistent` is broken; a white-box
    dump of notifier 0 shows it); with the code's merge notifier 0 keeps exactly ["a"], as in the value model. -/
theorem shared_name_set_refuted :
    ((NtH.nrun (NtH.shareNames false)).pm 0, (NtH.nrun (NtH.shareNames false)).pm 1) = ([(1, 0)], [(1, 0)]) ∧
    NtH.deref (NtH.nrun (NtH.shareNames false)) 0 = [(1, [[[97]], [[98]]])] ∧
    ((NtH.nrun (NtH.shareNames true)).pm 0, (NtH.nrun (NtH.shareNames true)).pm 1) = ([(1, 0)], [(1, 1)]) ∧
    NtH.deref (NtH.nrun (NtH.shareNames true)) 0 = [(1, [[[97]]])] ∧
    ((run nobody [.register 0 1 0 [[97]], .merge 1 0, .register 1 1 0 [[98]]]).1 0).names = [(1, [[[97]]])] ∧
    NtH.deref (NtH.nrun (NtH.shareNames true)) 1 =
      ((run nobody [.register 0 1 0 [[97]], .merge 1 0, .register 1 1 0 [[98]]]).1 1).names := by
  refine ⟨by decide, by decide, by decide, by decide, by decide, by decide⟩

/-- CONTRAST (regressions ind6-c17-a, ind7-c17-a: `maps.Clone` of the outer map only).  `NtH.shareHist d`: notifier 0
    registers target 1 (priority 5) for "a"; notifier 1 merges notifier 0, registers target 2 (priority 7) for "a", then
    unregisters target 1.  With the SHALLOW merge (`d = false`) both production maps reference the same cell 0: the
    `Register` on notifier 1 makes notifier 0 deliver to target 2, the `Unregister` on notifier 1 removes target 1 from
    notifier 0.  With the code's merge (`d = true`) notifier 1 gets its own cell 1, notifier 0 keeps target 1 and never sees
    target 2, and both dereferenced maps are those of the value model (`Nt.run`, what the driver executes). -/
theorem shared_inner_map_refuted :
    ((NtH.hrun ((NtH.shareHist false).take 2)).pm 0, (NtH.hrun ((NtH.shareHist false).take 2)).pm 1) =
      ([([[97]], 0)], [([[97]], 0)]) ∧
    lookup (NtH.deref (NtH.hrun ((NtH.shareHist false).take 3)) 0) [[97]] 2 = some 7 ∧
    lookup (NtH.deref (NtH.hrun (NtH.shareHist false)) 0) [[97]] 1 = none ∧
    ((NtH.hrun ((NtH.shareHist true).take 2)).pm 0, (NtH.hrun ((NtH.shareHist true).take 2)).pm 1) =
      ([([[97]], 0)], [([[97]], 1)]) ∧
    lookup (NtH.deref (NtH.hrun (NtH.shareHist true)) 0) [[97]] 1 = some 5 ∧
    lookup (NtH.deref (NtH.hrun (NtH.shareHist true)) 0) [[97]] 2 = none ∧
    NtH.deref (NtH.hrun (NtH.shareHist true)) 0 =
      ((run nobody [.register 0 1 5 [[97]], .merge 1 0, .register 1 2 7 [[97]], .unregister 1 1]).1 0).prod ∧
    NtH.deref (NtH.hrun (NtH.shareHist true)) 1 =
      ((run nobody [.register 0 1 5 [[97]], .merge 1 0, .register 1 2 7 [[97]], .unregister 1 1]).1 1).prod ∧
    NtH.deref (NtH.hrun (NtH.shareHist false)) 0 ≠
      ((run nobody [.register 0 1 5 [[97]], .merge 1 0, .register 1 2 7 [[97]], .unregister 1 1]).1 0).prod := by
  refine ⟨by decide, by decide, by decide, by decide, by decide, by decide, by decide, by decide, by decide⟩

/-- the unrepaired merge loop (destination set overlaid on itself) loses the pair — the seeded regression —,
    the loop of the model (and of the repository now) keeps it -/
example : lookup ([([[97]], [(2, 5)])].foldl stepMergeOrig [([[97]], [(1, 0)])]) [[97]] 2 = none ∧
    lookup (mergeProd [([[97]], [(1, 0)])] [([[97]], [(2, 5)])]) [[97]] 2 = some 5 := by decide

/-- clause "StartBatch/EndBatch pairs nest: BatchMode(true) goes once to every batch target on the outermost start and
    BatchMode(false) once to the same targets on the matching end": from any reachable world in which notifier `n` is
    enabled and idle, for every well-nested middle part `mid` (any operations on any notifiers, any depth of inner
    Start/End pairs of `n`, no Reset/SetEnabled of `n`): the outer `StartBatch` calls `BatchMode(true)` on exactly the list
    `batch` of batch targets, `mid` causes no `BatchMode` call from `n` at all, the matching `EndBatch` calls
    `BatchMode(false)` on the same list and leaves the level at 0; the list has no duplicates and consists of the
    registered batch-capable targets -/
theorem batch_nesting (pan : Nat → Bool) (ops : List Op) (n : Nat) (mid : List Op)
    (he : ((run pan ops).1 n).enabled = true) (hl : ((run pan ops).1 n).level = 0) (hm : matched n 0 mid = true) :
    let w := (run pan ops).1
    let r1 := step pan w (.startBatch n)
    let r2 := runFrom pan r1.1 mid
    let r3 := step pan r2.1 (.endBatch n)
    r1.2 = batchAll pan n true (w n).batch ∧ NoBatchEvents n r2.2 ∧ r3.2 = batchAll pan n false (w n).batch ∧
    (r3.1 n).level = 0 ∧ (w n).batch.Nodup ∧
    ∀ t, t ∈ (w n).batch ↔ batchCapable t = true ∧ ∃ nm, (specRun ops n nm t).isSome := by
  intro w r1 r2 r3
  have hw := winv_run pan ops
  obtain ⟨a, b, c, d⟩ := nest_outer pan w hw n mid he hl hm
  refine ⟨a, b, c, d, (hw n).batchNodup, fun t => ?_⟩
  rw [(hw n).batchIff, mem_keys_iff]
  constructor
  · rintro ⟨hb, hk⟩
    refine ⟨hb, ?_⟩
    cases hg : assocGet (w n).names t with
    | none => rw [hg] at hk; cases hk
    | some ns =>
      cases ns with
      | nil => exact absurd rfl ((hw n).nonempty t [] hg)
      | cons nm rest =>
        refine ⟨nm, ?_⟩
        rw [← registered_spec pan, (hw n).consistent]
        exact ⟨nm :: rest, hg, by simp⟩
  · rintro ⟨hb, nm, hs⟩
    refine ⟨hb, ?_⟩
    rw [← registered_spec pan, (hw n).consistent] at hs
    obtain ⟨ns, hg, _⟩ := hs
    simp [hg]

/-- an unmatched `EndBatch` (level 0) and any Start/End on a disabled notifier do nothing -/
theorem unmatched_end_silent (s : NSt) :
    (s.level = 0 → endBatch s = (s, [])) ∧ (s.enabled = false → endBatch s = (s, []) ∧ startBatch s = (s, [])) := by
  constructor
  · intro h; simp [endBatch, h]
  · intro h; simp [endBatch, startBatch, h]

/-- `batch_nesting` at full width: the notifier may be DISABLED AND RE-ENABLED inside the pair (`Nt.matchedE`: what is
    called on it while disabled — Start, End, Notify — does not count, the code ignores it without touching the level;
    only `Reset` of the same notifier stays excluded, see `batch_abandoned_by_reset`).  Same conclusion: `BatchMode(true)`
    once to the batch targets on the outermost start, no `BatchMode` call of `n` in between, `BatchMode(false)` once to
    the same list on the matching end, level 0 afterwards.  `batch_nesting` is the special case (`matchedE_of_matched`). -/
theorem batch_nesting_with_disabled_stretches (pan : Nat → Bool) (ops : List Op) (n : Nat) (mid : List Op)
    (he : ((run pan ops).1 n).enabled = true) (hl : ((run pan ops).1 n).level = 0) (hm : matchedE n 0 true mid = true) :
    let w := (run pan ops).1
    let r1 := step pan w (.startBatch n)
    let r2 := runFrom pan r1.1 mid
    let r3 := step pan r2.1 (.endBatch n)
    r1.2 = batchAll pan n true (w n).batch ∧ NoBatchEvents n r2.2 ∧ r3.2 = batchAll pan n false (w n).batch ∧
    (r3.1 n).level = 0 ∧ (r3.1 n).enabled = true :=  by
  intro w r1 r2 r3
  obtain ⟨a, b, c, d⟩ := nest_outerE pan w (winv_run pan ops) n mid he hl hm
  exact ⟨a, b, c, d, nest_outerE_enabled pan w n mid he hl hm⟩

/-- the hypothesis is met by a history that disables the notifier inside the pair, calls Start/End/Notify on it while
    disabled and enables it again; the restricted `matched` rejects it -/
example : matchedE 0 0 true [.startBatch 0, .setEnabled 0 false, .endBatch 0, .endBatch 0, .startBatch 0, .notify 0 [97],
      .setEnabled 0 true, .endBatch 0, .register 0 1 2 [[98]]] = true ∧
    matched 0 0 [.setEnabled 0 false, .setEnabled 0 true] = false := by decide

/-- what stays excluded, stated: `Reset` inside a pair ABANDONS the batch — level 0, no current batch — so the `EndBatch`
    meant to match the outer `StartBatch` is an unmatched one and calls nobody (the targets that got `BatchMode(true)` get
    no `BatchMode(false)` for that batch); an `EndBatch` / `StartBatch` made while the notifier is disabled does not even
    change the level.  (The clause of the property speaks of matching pairs; after `Reset` there is none.) -/
theorem batch_abandoned_by_reset (s : NSt) :
    endBatch (reset s) = (reset s, []) ∧ (reset s).level = 0 ∧ (reset s).current = [] ∧
    endBatch (setEnabled s false) = (setEnabled s false, []) ∧ startBatch (setEnabled s false) = (setEnabled s false, []) :=
  reset_abandons_batch s

/-- **two batch cycles in a row** (the clause of regression ind7-c17-b).  The contract of the code: `BatchMode(false)` goes
    to the snapshot the outermost `StartBatch` of the SAME cycle took (`currentBatch`), which `EndBatch` clears.  So: after any
    history, a complete cycle `StartBatch; mid₁; EndBatch`, and any stretch `between` without Start/End/Reset/SetEnabled of
    `n` (`Nt.quiet`: Register, Unregister — also of every batch target of the first cycle —, merges, notifications, anything
    on other notifiers), the NEXT cycle sends `BatchMode(true)` and, at its matching end, `BatchMode(false)` to exactly the
    batch-capable targets registered at ITS start — nothing of the first cycle's snapshot survives; in particular if no
    batch-capable target is registered any more, both broadcasts of the second cycle are empty -/
theorem batch_cycles_do_not_leak (pan : Nat → Bool) (ops : List Op) (n : Nat) (mid₁ between mid₂ : List Op)
    (he : ((run pan ops).1 n).enabled = true) (hl : ((run pan ops).1 n).level = 0)
    (hm₁ : matched n 0 mid₁ = true) (hq : quiet n between = true) (hm₂ : matched n 0 mid₂ = true) :
    let h₁ := ops ++ .startBatch n :: (mid₁ ++ .endBatch n :: between)
    let w₂ := (run pan h₁).1
    let r1 := step pan w₂ (.startBatch n)
    let r2 := runFrom pan r1.1 mid₂
    let r3 := step pan r2.1 (.endBatch n)
    r1.2 = batchAll pan n true (w₂ n).batch ∧ NoBatchEvents n r2.2 ∧ r3.2 = batchAll pan n false (w₂ n).batch ∧
    (∀ t, t ∈ (w₂ n).batch ↔ batchCapable t = true ∧ ∃ nm, (specRun h₁ n nm t).isSome) ∧
    ((∀ t nm, batchCapable t = true → specRun h₁ n nm t = none) → r1.2 = [] ∧ r3.2 = []) := by
  intro h₁ w₂ r1 r2 r3
  have hw₂ : w₂ = (runFrom pan (run pan ops).1 (.startBatch n :: (mid₁ ++ .endBatch n :: between))).1 := by
    show (runFrom pan World.init (ops ++ _)).1 = _
    rw [runFrom_append_fst]; rfl
  obtain ⟨_, he₂, hl₂, _⟩ := after_cycle pan (run pan ops).1 (winv_run pan ops) n mid₁ between he hl hm₁ hq
  rw [← hw₂] at he₂ hl₂
  obtain ⟨a, b, c, _, _, f⟩ := batch_nesting pan h₁ n mid₂ he₂ hl₂ hm₂
  refine ⟨a, b, c, f, fun hnone => ?_⟩
  have hb : (w₂ n).batch = [] := by
    cases hbt : (w₂ n).batch with
    | nil => rfl
    | cons t rest =>
      obtain ⟨hcap, nm, hs⟩ := (f t).mp (by rw [hbt]; simp)
      rw [hnone t nm hcap] at hs; cases hs
  exact ⟨by rw [a, hb]; rfl, by rw [c, hb]; rfl⟩

/-- CONTRAST: with an `EndBatch` that leaves `currentBatch` in place (`Nt.endBatchKeep`, regression ind7-c17-b; the model's
    and the code's `StartBatch` do not touch it when no batch target is registered) the history Register(t1, "a");
    StartBatch; EndBatch; Unregister(t1); StartBatch; EndBatch sends the second `BatchMode(false)` to the unregistered t1;
    the code's `EndBatch` sends it to nobody.  The hypotheses of `batch_cycles_do_not_leak` are met by that history. -/
theorem current_batch_surviving_end_refuted :
    twoCycles endBatch = ([1], []) ∧ twoCycles endBatchKeep = ([1], [1]) ∧
    matched 0 0 [] = true ∧ quiet 0 [.unregister 0 1, .register 1 1 0 [[97]], .merge 1 0, .startBatch 1] = true := by
  decide

/-- `maps_consistent`, over all histories: the production map and the name map are mutual inverses (this is what makes
    `Unregister` complete), the batch set is exactly the set of registered batch-capable targets and has no duplicates,
    no key occurs twice in any of the association lists, and an idle notifier holds no current batch -/
theorem maps_consistent (pan : Nat → Bool) (ops : List Op) (i : Nat) :
    let s := (run pan ops).1 i
    (∀ n t, (lookup s.prod n t).isSome ↔ hasName s.names t n) ∧
    (∀ t, t ∈ s.batch ↔ batchCapable t = true ∧ t ∈ keys s.names) ∧
    (∀ t ns, assocGet s.names t = some ns → ns ≠ []) ∧
    s.batch.Nodup ∧ (keys s.prod).Nodup ∧ (keys s.names).Nodup ∧ SetsNodup s.prod ∧ (s.level = 0 → s.current = []) := by
  intro s
  have h := winv_run pan ops i
  exact ⟨h.consistent, h.batchIff, h.nonempty, h.batchNodup, h.prodKeys, h.nameKeys, h.sets, h.idle⟩

/-! ### panics.  The delivery loops are executed in a semantics in which a panic PROPAGATES: `Nt.Run` = (calls made,
    `out`) with `out = some v` when a panic is leaving the code; `Run.seq` skips the rest after a panic; `Nt.frame` is a Go
    function with one deferred call; `Nt.recovery` is `errs.Recovery` (calls `recover()`, then the handler — which may be
    absent or panic itself — inside a frame guarded by `defer Recovery(nil)`).  `Nt.step`, which the driver executes,
    takes its events from `deliverX` / `batchX` = the loops of `NotifyWithData` / `StartBatch` / `EndBatch` over
    `notifyTargetX` / `notifyBatchTargetX` = frames with the deferred recovery, as in the Go source. -/

/-- the semantics can express an abort: a loop over the bare calls, with no recovering frame, stops at the first
    panicking target (target 2 panics, target 3 is never called, the panic leaves the loop) -/
theorem unrecovered_panic_aborts :
    loopX (fun d : Int × Nat => callTarget (fun t => t == 2) (Event.handle 0 d.2 [] d.1) d.2) [(5, 2), (1, 3)] =
      ⟨[Event.handle 0 2 [] 5], some 2⟩ := by
  decide

/-- a frame whose deferred call is `errs.Recovery(h)` never lets a panic out, whatever the handler is — absent, well
    behaved, or itself panicking —, and reports to the handler exactly when there was a panic and a handler exists -/
theorem recovery_frame_contains_panic (h : Handler) (pan : Nat → Bool) (e : Event) (n t : Nat) :
    frame (callTarget pan e t) (recovery h n t) =
      ⟨if (pan t && h != .absent) = true then [e, Event.recovered n t] else [e], none⟩ := by
  unfold frame callTarget recovery
  cases hp : pan t <;> cases h <;> simp [Run.skip, frame, callHandler, recoveryNil]

/-- clause "a panicking target is reported to the recovery handler and does not stop delivery to the rest", for
    `NotifyWithData`: in the propagating-panic semantics the loop over the delivery list runs to its end (`out = none`:
    `Notify` returns normally), EVERY target of the list is invoked, in order, however many of the earlier ones panicked,
    and the recovery handler — if the notifier has one — receives exactly one report per panicking target -/
theorem panic_does_not_stop_delivery (pan : Nat → Bool) (n : Nat) (name : Name) (ds : List (Int × Nat)) :
    (deliverX pan n name ds).out = none ∧
    calls (deliverX pan n name ds).trace = ds.map (fun d => Event.handle n d.2 name d.1) ∧
    reports (deliverX pan n name ds).trace = if reports? n = true then (ds.filter (fun d => pan d.2)).length else 0 := by
  rw [deliverX_spec]
  refine ⟨rfl, ?_, ?_⟩
  · rw [(calls_deliverAll pan n name ds).1, deliverAll_nobody]
  · rw [(calls_deliverAll pan n name ds).2, deliverAll_nobody]
    split
    · rw [List.filter_map, List.length_map]; rfl
    · rfl

/-- the same for the `BatchMode` broadcasts of `StartBatch` / `EndBatch` (regression ind2-c17-b moved the recover to the
    loop level here) -/
theorem panic_does_not_stop_batch (pan : Nat → Bool) (n : Nat) (start : Bool) (ts : List Nat) :
    (batchX pan n start ts).out = none ∧
    calls (batchX pan n start ts).trace = ts.map (fun t => Event.batchMode n t start) ∧
    reports (batchX pan n start ts).trace = if reports? n = true then (ts.filter pan).length else 0 := by
  rw [batchX_spec]
  refine ⟨rfl, ?_, ?_⟩
  · rw [(calls_batchAll pan n start ts).1, batchAll_nobody]
  · rw [(calls_batchAll pan n start ts).2, batchAll_nobody]
    split
    · rw [List.filter_map, List.length_map]; rfl
    · rfl

/-- the statement depends on WHERE the recover sits: with one `defer errs.Recovery(h)` around the whole loop instead of
    one per target (`Nt.deliverLoopLevel`), the panic of target 2 is still recovered and reported, the call still returns
    normally — but target 3, next in the list, is never invoked -/
theorem recover_at_loop_level_refuted :
    deliverLoopLevel (fun t => t == 2) 0 [] [(5, 2), (1, 3)] =
      ⟨[Event.handle 0 2 [] 5, Event.recovered 0 2], none⟩ ∧
    deliverX (fun t => t == 2) 0 [] [(5, 2), (1, 3)] =
      ⟨[Event.handle 0 2 [] 5, Event.recovered 0 2, Event.handle 0 3 [] 1], none⟩ := by
  decide

/-- operation level (what the driver prints): whatever set of targets panics, every operation leaves the same world
    and makes the same calls in the same order as when nobody panics; the events of `Notify` are one `HandleNotification`
    per element of the delivery list `Nt.notify`, in that order (so `notify_targets` / `notify_priority_order` speak about
    the calls actually made) -/
theorem panic_step (pan : Nat → Bool) (w : World) (op : Op) (i : Nat) (raw : List Nat) :
    (step pan w op).1 = (step nobody w op).1 ∧
    calls (step pan w op).2 = (step nobody w op).2 ∧
    calls (step pan w (.notify i raw)).2 =
      (notify (w i) raw).map (fun d => Event.handle i d.2 (normalize raw) d.1) := by
  refine ⟨?_, ?_, ?_⟩
  · cases op <;> rfl
  · rw [step_spec, step_spec]
    cases op with
    | notify n raw => exact (calls_deliverAll pan n _ _).1
    | startBatch n => exact (calls_batchAll pan n _ _).1
    | endBatch n => exact (calls_batchAll pan n _ _).1
    | merge n m => simp only [stepSpec]; split <;> simp [calls]
    | _ => rfl
  · rw [step_spec]
    show calls (deliverAll pan i (normalize raw) (notify (w i) raw)) = _
    rw [(calls_deliverAll pan i _ _).1, deliverAll_nobody]

/-! ### who panics may change over time.  `pan` is a parameter of ONE exported call (`Nt.step pan`); `Nt.run pan` fixes it for
    a whole history, which covers only targets whose panic behaviour never changes.  `Nt.runFromV` gives every operation
    of a history its own `pan` (a target may panic in `BatchMode(true)` and not in `BatchMode(false)`, or on its second
    notification only). -/

/-- the world after a history, and the calls made during it, do not depend on who panicked when: they are those of the
    history in which nobody panics.  So every reachable-world theorem above (`registered_spec`, `maps_consistent`,
    `notify_targets`, …) and every statement about `calls` holds for time-varying panickers as well -/
theorem panics_may_vary_over_time (l : List ((Nat → Bool) × Op)) :
    (runFromV World.init l).1 = (run nobody (l.map (·.2))).1 ∧
    calls (runFromV World.init l).2 = (run nobody (l.map (·.2))).2 :=
  runFromV_spec World.init l

/-- `batch_nesting` with different panickers at the outer `StartBatch` (`pan₁`), at every call in between (`mid` carries one
    `pan` per operation) and at the matching `EndBatch` (`pan₃`): the same lists of targets get `BatchMode(true)` and
    `BatchMode(false)`, the recovery reports are those of whoever panics at that moment, nothing in between -/
theorem batch_nesting_time_varying_panics (pan pan₁ pan₃ : Nat → Bool) (ops : List Op) (n : Nat)
    (mid : List ((Nat → Bool) × Op))
    (he : ((run pan ops).1 n).enabled = true) (hl : ((run pan ops).1 n).level = 0)
    (hm : matched n 0 (mid.map (·.2)) = true) :
    let w := (run pan ops).1
    let r1 := step pan₁ w (.startBatch n)
    let r2 := runFromV r1.1 mid
    let r3 := step pan₃ r2.1 (.endBatch n)
    r1.2 = batchAll pan₁ n true (w n).batch ∧ NoBatchEvents n r2.2 ∧ r3.2 = batchAll pan₃ n false (w n).batch :=
  nest_outerV pan₁ pan₃ _ (winv_run pan ops) n mid he hl hm

/-- a target that panics in `BatchMode(true)` only: reported once, at the start; `run` with one fixed `pan` can not say this -/
example : (step (fun t => t == 1) (run nobody [.register 0 1 0 [[97]]]).1 (.startBatch 0)).2 =
      [Event.batchMode 0 1 true, Event.recovered 0 1] ∧
    (step nobody (step (fun t => t == 1) (run nobody [.register 0 1 0 [[97]]]).1 (.startBatch 0)).1 (.endBatch 0)).2 =
      [Event.batchMode 0 1 false] := by decide

/-- name normalisation: the segments are non-empty and dot-free, and splitting the re-joined normalised name (what
    `NotifyWithData` does with `strings.Split(normalizeName(name), ".")`) gives the same segments back -/
theorem normalize_join_roundtrip (raw : List Nat) :
    (∀ seg ∈ normalize raw, seg ≠ [] ∧ 46 ∉ seg) ∧ normalize (joinDots (normalize raw)) = normalize raw :=
  ⟨normalize_segments raw, normalize_join raw⟩

/-! non-vacuity: the hypotheses of `batch_nesting` are met (target 1 registered, a nested pair and a notification inside) -/
example : ((run nobody [.register 0 1 5 [[97]]]).1 0).enabled = true ∧ ((run nobody [.register 0 1 5 [[97]]]).1 0).level = 0 ∧
    matched 0 0 [.startBatch 0, .notify 0 [97], .endBatch 0, .register 0 3 1 [[98]]] = true := by
  decide

/-! ## re-entrant targets (model `Model/NotifierReentry.lean`).  `Nt.stepRe` — what `drv_c17` executes — runs the delivery
    loops with the world threaded through them: the callback of a re-entrant target performs the armed operation as a
    complete exported call at that moment, on the registry as it is then.  The clause "exactly once on each target
    currently registered" is read at the moment the outer call took its snapshot (its linearization point,
    `notify_delivers_snapshot`): what a target does to the registry from inside a callback changes later calls, not the
    one in progress. -/

/-- with nothing armed the threaded execution is `Nt.step`: every theorem of the first part speaks about `stepRe` too -/
theorem reentrant_unarmed_is_step (pan : Nat → Bool) (w : World) (op : Op) :
    stepRe pan (w, none) op = (((step pan w op).1, none), (step pan w op).2) :=
  stepRe_unarmed pan w op

/-- **a target calls back into a notifier from inside `HandleNotification` / `BatchMode`** (any operation `op'` on any
    notifier, armed; any outer call `op`; any world).  (1) The world afterwards is that of the two calls performed one
    after the other — outer first —, and the arm is consumed exactly when a re-entrant callback was made.  (2) The
    events are those of the outer call ALONE (`pre ++ post`, same targets, same order, same recovery reports) with the
    nested call's events in between, right after the first re-entrant callback `e` — so the outer call still reaches
    every target of its snapshot exactly once although the nested call may have unregistered them, reset or disabled
    the notifier.  (3) The nested call sees the registry the outer call left (`(step pan w op).1`: the level already
    raised by an outer `StartBatch`, the current batch already cleared by an outer `EndBatch`). -/
theorem reentrant_call_spec (pan : Nat → Bool) (w : World) (op op' : Op) :
    let base := step pan w op
    let nested := step pan base.1 op'
    let fired := base.2.any reentersOn
    let r := stepRe pan (w, some op') op
    r.1 = (if fired then (nested.1, none) else (base.1, some op')) ∧
    ∃ pre post, base.2 = pre ++ post ∧ r.2 = pre ++ (if fired then nested.2 else []) ++ post ∧
      (fired = true → ∃ pre' e, pre = pre' ++ [e] ∧ reentersOn e = true ∧ ∀ x ∈ pre', reentersOn x = false) :=
  stepRe_armed pan w op op'

/-- consequence, in the words of the property: whatever operation a target performs from inside a callback of
    `Notify(raw)` on notifier `i`, every target of the delivery list `Nt.notify (w i) raw` (about which `notify_targets`
    / `notify_priority_order` speak) still receives its `HandleNotification`, and the outer call's own events keep
    their order (they are a sublist of what is observed) -/
theorem reentrant_outer_delivery_complete (pan : Nat → Bool) (w : World) (i : Nat) (raw : List Nat) (op' : Op) :
    (step pan w (.notify i raw)).2.Sublist (stepRe pan (w, some op') (.notify i raw)).2 ∧
    ∀ d ∈ notify (w i) raw, Event.handle i d.2 (normalize raw) d.1 ∈ (stepRe pan (w, some op') (.notify i raw)).2 := by
  obtain ⟨_, pre, post, h1, h2, _⟩ := stepRe_armed pan w (.notify i raw) op'
  have hsub : (step pan w (.notify i raw)).2.Sublist (stepRe pan (w, some op') (.notify i raw)).2 := by
    rw [h1, h2, List.append_assoc]
    exact List.Sublist.append (List.Sublist.refl _) (List.sublist_append_right _ _)
  refine ⟨hsub, fun d hd => hsub.subset ?_⟩
  have hc := (panic_step pan w (.notify i raw) i raw).2.2
  have : Event.handle i d.2 (normalize raw) d.1 ∈ calls (step pan w (.notify i raw)).2 := by
    rw [hc]; exact List.mem_map.mpr ⟨d, hd, rfl⟩
  exact (List.mem_filter.mp this).1

/-- **histories with re-entrant calls are histories**: a history of exported calls interleaved with armings (`Nt.ReOp`,
    executed by `Nt.runRe` = `stepRe` call after call) leaves the world of the plain sequential history `Nt.flatRe` in which
    every armed operation stands right after the call during which it fired.  So every reachable-world statement of the
    first part — `registered_spec`, `maps_consistent`, `notify_targets`, … (all "over all histories") — holds after
    histories with re-entrant targets as well; spelled out for the refinement statement. -/
theorem reentrant_histories_are_histories (pan : Nat → Bool) (l : List ReOp) :
    (runRe pan (World.init, none) l).1.1 = (run pan (flatRe pan (World.init, none) l)).1 ∧
    ∀ i n t, lookup ((runRe pan (World.init, none) l).1.1 i).prod n t = specRun (flatRe pan (World.init, none) l) i n t := by
  have h := runRe_world pan l (World.init, none)
  refine ⟨h, fun i n t => ?_⟩
  rw [h]
  exact registered_spec pan _ i n t

/-- **re-entrant calls at ANY depth** (model `Model/NotifierReentryN.lean`; `Nt.stepQ` is what `drv_c17` executes): the
    re-entrant targets hold a QUEUE `q` of armed operations; every re-entrant callback pops the head and performs it as a
    complete exported call whose own callbacks may pop the next one — calls nest as deep as the queue is long.  Whatever
    the depth: (1) some prefix `q.take k` of the queue fired, the rest stays armed, and the world afterwards is the world of
    the PLAIN sequential history "the outer call, then the fired operations in queue order" (`Nt.runFrom`) — so it is a
    reachable world and every over-all-histories theorem applies; (2) the outer call's own events (same targets, same order,
    same recovery reports) are all there, in order: nothing a nested call does, at any depth, takes a delivery away from
    the snapshot of an outer call.  Proved by induction on the nesting depth (`Nt.stepQN_good`). -/
theorem reentrant_deep_spec (pan : Nat → Bool) (w : World) (q : List Op) (op : Op) :
    (∃ k, (stepQ pan (w, q) op).1 = ((runFrom pan w (op :: q.take k)).1, q.drop k)) ∧
    (step pan w op).2.Sublist (stepQ pan (w, q) op).2 :=
  ⟨(stepQN_good pan q.length).1 w q op, (stepQN_good pan q.length).2 w q op⟩

/-- with at most one operation armed the queue model is exactly `Nt.stepRe`, the model of `reentrant_call_spec` (which
    says more: where the nested events are spliced in, and that the operation fires iff a re-entrant callback is made) -/
theorem reentrant_depth_one_is_stepRe (pan : Nat → Bool) (w : World) (o : Option Op) (op : Op) :
    stepQ pan (w, o.toList) op = (((stepRe pan (w, o) op).1.1, (stepRe pan (w, o) op).1.2.toList), (stepRe pan (w, o) op).2) :=
  stepQ_one pan w o op

/-- depth two, concretely, and the depth matters: target 10 (batch-capable, re-entrant from `BatchMode`) is registered
    with notifiers 0 and 1; armed: `StartBatch` on notifier 1, then `Unregister(target 10)` on notifier 0.  The outer
    `StartBatch` on notifier 0 calls `BatchMode(true)` on target 10, which starts the batch of notifier 1, whose
    `BatchMode(true)` call on target 10 unregisters it from notifier 0: both fired, target 10 is gone from notifier 0's
    registrations but still in its current batch (it will get the matching `BatchMode(false)`).  With nesting limited to
    one level (`stepQN … 1`) the second operation stays armed.  (`Nt.deepWorld`, `Nt.deepQueue`.) -/
theorem reentrant_depth_two_example :
    (stepQ nobody (deepWorld, deepQueue) (.startBatch 0)).2 = [Event.batchMode 0 10 true, Event.batchMode 1 10 true] ∧
    (stepQ nobody (deepWorld, deepQueue) (.startBatch 0)).1.2.length = 0 ∧
    lookup ((stepQ nobody (deepWorld, deepQueue) (.startBatch 0)).1.1 0).prod [[97]] 10 = none ∧
    ((stepQ nobody (deepWorld, deepQueue) (.startBatch 0)).1.1 0).current = [10] ∧
    ((stepQ nobody (deepWorld, deepQueue) (.startBatch 0)).1.1 1).level = 1 ∧
    (stepQN nobody 1 (deepWorld, deepQueue) (.startBatch 0)).1.2.length = 1 := by
  refine ⟨by decide, by decide, by decide, by decide, by decide, by decide⟩

/-- the snapshot matters (CONTRAST): in `Nt.reWorld` targets 6 (priority 5, re-entrant) and 0 (priority 1) are registered
    for "a"; the armed operation is `Unregister(target 0)`.  The code's loop (`stepRe`) still calls target 0 — it is in
    the snapshot `[(5, 6), (1, 0)]` —; a loop that asked the registry again before each call (`Nt.notifyLive`, not the
    code) would skip it.  Afterwards target 0 is unregistered and the arm is consumed. -/
theorem live_revalidation_refuted :
    notify (reWorld 0) [97] = [(5, 6), (1, 0)] ∧
    (stepRe nobody (reWorld, some (.unregister 0 0)) (.notify 0 [97])).2 =
      [Event.handle 0 6 [[97]] 5, Event.handle 0 0 [[97]] 1] ∧
    (notifyLive nobody 0 [97] (notify (reWorld 0) [97]) (reWorld, some (.unregister 0 0))).2 = [Event.handle 0 6 [[97]] 5] ∧
    lookup ((stepRe nobody (reWorld, some (.unregister 0 0)) (.notify 0 [97])).1.1 0).prod [[97]] 0 = none ∧
    (stepRe nobody (reWorld, some (.unregister 0 0)) (.notify 0 [97])).1.2 = none := by
  refine ⟨notify_reWorld, ?_, ?_, ?_⟩
  · simp only [stepRe, notify_reWorld]; decide
  · rw [notify_reWorld]; decide
  · simp only [stepRe, notify_reWorld]; decide

/-! ## concurrent use (model `Model/NotifierConc.lean`, generic mutex machine `Model/Mutex.lean`) -/
section concurrent
open NtC Mutex

/-- **the registry is linearizable**: under EVERY schedule of any number of goroutines calling any methods, whenever the
    mutex is free the registry state, and the result every finished bracket handed to its goroutine, are exactly those
    of executing the brackets ONE AT A TIME with the sequential model (`rrun` = `Nt.register`, `Nt.unregister`,
    `Nt.startBatch`, … of the first part) in the order in which they acquired the mutex; every goroutine got the results
    of its own brackets, and the order respects every goroutine's program order.  (Micro-steps of different brackets
    never interleave: `concurrent_mutual_exclusion`.) -/
theorem concurrent_registry_linearizable (pan : Nat → Bool) (nid : Nat) (s₀ : NSt) (progs : Nat → List ROp)
    (sch : List Nat) (C : Conf) (he : cexec pan nid true (cinit s₀ progs) sch = some C) (hfree : C.m.holder = none) :
    seqExec rrun s₀ C.m.acq = (C.m.log, C.m.shared) ∧
    (∀ t, (C.m.threads t).res = resOf t C.m.log) ∧
    (∀ t, opsOf t C.m.acq ++ (C.m.threads t).todo = progs t) := by
  obtain ⟨sch', _, hm⟩ := cexec_proj pan nid true sch _ C he
  obtain ⟨h1, _, h3, h4⟩ := linearizable_fun sys rrun (fun _ => True) (fun op s _ => runs_op op s) (fun _ _ _ => trivial)
    s₀ trivial progs sch' C.m hm hfree
  exact ⟨h1, h3, h4⟩

/-- at most one goroutine is inside a lock bracket, under every schedule -/
theorem concurrent_mutual_exclusion (pan : Nat → Bool) (nid : Nat) (s₀ : NSt) (progs : Nat → List ROp)
    (sch : List Nat) (C : Conf) (he : cexec pan nid true (cinit s₀ progs) sch = some C) (t t' : Nat)
    (h : ((C.m.threads t).cur).isSome = true) (h' : ((C.m.threads t').cur).isSome = true) : t = t' := by
  obtain ⟨sch', _, hm⟩ := cexec_proj pan nid true sch _ C he
  exact mutual_exclusion sys s₀ progs sch' C.m hm t t' h h'

/-- no deadlock in the model: under every schedule some goroutine can take a step until all programs are finished and
    all callbacks made (callbacks do not call back into the notifier here; re-entrant targets are exercised by the
    deterministic stream of the check) -/
theorem concurrent_progress (pan : Nat → Bool) (nid : Nat) (s₀ : NSt) (progs : Nat → List ROp)
    (sch : List Nat) (C : Conf) (he : cexec pan nid true (cinit s₀ progs) sch = some C) :
    (∃ t, (cstep pan nid true C t).isSome = true) ∨ (AllDone C.m ∧ ∀ t, (C.loc t).pending = []) := by
  obtain ⟨sch', _, hm⟩ := cexec_proj pan nid true sch _ C he
  by_cases hp : ∃ t, (C.loc t).pending ≠ []
  · obtain ⟨t, ht⟩ := hp
    left; refine ⟨t, ?_⟩
    cases hpt : (C.loc t).pending with
    | nil => exact absurd hpt ht
    | cons e rest => rw [callback_step_local pan nid true C t e rest hpt]; rfl
  · have hall : ∀ t, (C.loc t).pending = [] := by
      intro t; apply Classical.byContradiction; intro h; exact hp ⟨t, h⟩
    rcases progress sys s₀ progs sch' C.m hm with ⟨t, ht⟩ | hd
    · left; refine ⟨t, ?_⟩
      unfold cstep; rw [hall t]; simp only
      cases hs : Mutex.step sys true C.m t with
      | none => rw [hs] at ht; cases ht
      | some m' => simp only; cases returning C.m t <;> rfl
    · exact Or.inr ⟨hd, hall⟩

/-- **every goroutine's callbacks are those of the one-at-a-time execution**: under every schedule, the sequence of
    `HandleNotification` / `BatchMode` calls (and recovery reports) a goroutine has made, followed by those its current
    snapshot still holds, is exactly its callback sequence in the execution that runs the brackets one at a time in
    acquisition order and lets every goroutine deliver each snapshot completely before anything else happens
    (`NtC.seqLocal`).  In particular nothing another goroutine does while a snapshot is being delivered changes it. -/
theorem concurrent_callbacks_sequential (pan : Nat → Bool) (nid : Nat) (s₀ : NSt) (progs : Nat → List ROp)
    (sch : List Nat) (C : Conf) (he : cexec pan nid true (cinit s₀ progs) sch = some C) (hfree : C.m.holder = none)
    (t : Nat) : (C.loc t).all = (seqLocal pan nid (fun _ => {}) s₀ C.m.acq t).all := by
  have hl := (localInv_exec pan nid true sch _ C (localInv_init pan nid s₀ progs) he t).2
  obtain ⟨h1, _, _⟩ := concurrent_registry_linearizable pan nid s₀ progs sch C he hfree
  have hlog : C.m.log = (seqExec rrun s₀ C.m.acq).1 := by rw [h1]
  rw [hl, hlog, logLocal_seqExec]

/-- **a concurrent `Notify` delivers the snapshot of its linearization point**.  Take any schedule, any goroutine `t` and
    any of its `Notify(raw)` calls whose two brackets are in the acquisition order at `pre₁` (the `Enabled()` check) and
    after `mid` (the collection; `mid` = brackets of OTHER goroutines that slipped in between).  Let `sL` be the registry
    state of the one-at-a-time execution at the collection — or at the check, if the check saw the notifier disabled.
    Then (1) `sL` satisfies the registry invariant, so every sequential theorem of the first part applies to it;
    (2) the callbacks of `t` are `before ++ deliverAll … (Nt.notify sL raw) ++ after`: for this call it invokes exactly
    the delivery list the SEQUENTIAL model computes at `sL`, whatever the other goroutines do before, between and after;
    (3)–(5) spelled out: that list reaches exactly the targets registered at `sL` for the name or a dot-ancestor (none
    if disabled), each once, in non-increasing priority. -/
theorem notify_delivers_snapshot (pan : Nat → Bool) (nid : Nat) (s₀ : NSt) (h0 : Inv s₀) (progs : Nat → List ROp)
    (hok : ∀ t op, op ∈ progs t → OpOk op)
    (sch : List Nat) (C : Conf) (he : cexec pan nid true (cinit s₀ progs) sch = some C) (hfree : C.m.holder = none)
    (pre₁ mid post : List (Nat × ROp)) (t : Nat) (raw : List Nat)
    (hacq : C.m.acq = pre₁ ++ (t, .enabledQ) :: (mid ++ (t, .collect raw) :: post)) (hmid : ∀ x ∈ mid, x.1 ≠ t) :
    let s₁ := (seqExec rrun s₀ pre₁).2
    let s₂ := (seqExec rrun s₁ mid).2
    let sL := if s₁.enabled then s₂ else s₁
    Inv sL ∧
    (∃ before after, (C.loc t).all = before ++ deliverAll pan nid (normalize raw) (notify sL raw) ++ after) ∧
    (∀ x, x ∈ targetsOf (notify sL raw) ↔
      sL.enabled = true ∧ ∃ pre, pre ≠ [] ∧ pre <+: normalize raw ∧ (lookup sL.prod pre x).isSome) ∧
    (targetsOf (notify sL raw)).Nodup ∧
    (notify sL raw).Pairwise (fun a b => a.1 ≥ b.1) := by
  intro s₁ s₂ sL
  obtain ⟨_, _, hord⟩ := concurrent_registry_linearizable pan nid s₀ progs sch C he hfree
  have hopok : ∀ x ∈ C.m.acq, OpOk x.2 := by
    intro x hx
    obtain ⟨u, op⟩ := x
    apply hok u op
    rw [← hord u]
    exact List.mem_append_left _ (mem_opsOf u op _ hx)
  have hi1 : Inv s₁ := inv_seqExec pre₁ s₀ h0 (fun x hx => hopok x (by rw [hacq]; simp [hx]))
  have hi2 : Inv s₂ := inv_seqExec mid s₁ hi1 (fun x hx => hopok x (by rw [hacq]; simp [hx]))
  have hiL : Inv sL := by
    show Inv (if s₁.enabled = true then s₂ else s₁)
    split
    · exact hi2
    · exact hi1
  refine ⟨hiL, ?_, fun x => mem_targets_notify sL hiL raw x, nodup_targets_notify sL raw, sorted_notify sL raw⟩
  obtain ⟨after, ha⟩ := seqLocal_notify pan nid s₀ pre₁ mid post t raw hmid
  refine ⟨(seqLocal pan nid (fun _ => {}) s₀ pre₁ t).all, after, ?_⟩
  rw [concurrent_callbacks_sequential pan nid s₀ progs sch C he hfree t, hacq]
  exact ha

/-- the same for batches: the `BatchMode(true)` / `BatchMode(false)` calls a goroutine makes for a `StartBatch` /
    `EndBatch` are exactly those of the sequential model (`Nt.startBatch` / `Nt.endBatch`: `batch_nesting`) at the
    registry state of the bracket's position in the acquisition order -/
theorem batch_delivers_snapshot (pan : Nat → Bool) (nid : Nat) (s₀ : NSt) (progs : Nat → List ROp)
    (sch : List Nat) (C : Conf) (he : cexec pan nid true (cinit s₀ progs) sch = some C) (hfree : C.m.holder = none)
    (pre post : List (Nat × ROp)) (t : Nat) (start : Bool)
    (hacq : C.m.acq = pre ++ (t, if start then .startSnap else .endSnap) :: post) :
    ∃ before after, (C.loc t).all = before ++
      batchAll pan nid start (if start then (startBatch (seqExec rrun s₀ pre).2).2 else (endBatch (seqExec rrun s₀ pre).2).2)
      ++ after := by
  obtain ⟨after, ha⟩ := seqLocal_bracket pan nid s₀ pre post t (if start then .startSnap else .endSnap)
  refine ⟨(seqLocal pan nid (fun _ => {}) s₀ pre t).all, after, ?_⟩
  rw [concurrent_callbacks_sequential pan nid s₀ progs sch C he hfree t, hacq, ha]
  cases start <;> rfl

/-- **the unlocked phase touches no shared state** (model-level race freedom of delivery).  A callback step of
    goroutine `t` (a) is enabled whatever the lock word, the registry and the other goroutines look like, (b) changes
    nothing but `t`'s own local data, as a function of those data alone — the registry, the lock word, every goroutine's
    bracket and every other goroutine's local data are untouched —, and therefore (c) COMMUTES with every step of every
    other goroutine: executing the two in either order gives the same configuration (or both orders are not schedules).
    This holds with and without the mutex (`lock` arbitrary).  A snapshot whose storage is shared with the registry
    (regression ind4-c17-b: the backing array reused by the next `StartBatch`) is a system in which (b) fails. -/
theorem delivery_touches_no_shared_state (pan : Nat → Bool) (nid : Nat) (lock : Bool) (C : Conf) (t : Nat)
    (e : Event) (rest : List Event) (hp : (C.loc t).pending = e :: rest) :
    cstep pan nid lock C t =
      some { C with loc := upd C.loc t { (C.loc t) with pending := rest, made := (C.loc t).made ++ [e] } } ∧
    (∀ C', cstep pan nid lock C t = some C' → C'.m = C.m ∧ ∀ u, u ≠ t → C'.loc u = C.loc u) ∧
    (∀ u, u ≠ t → (cstep pan nid lock C t).bind (fun C1 => cstep pan nid lock C1 u) =
                   (cstep pan nid lock C u).bind (fun C1 => cstep pan nid lock C1 t)) := by
  have h1 := callback_step_local pan nid lock C t e rest hp
  refine ⟨h1, ?_, ?_⟩
  · intro C' hC
    rw [h1] at hC; simp only [Option.some.injEq] at hC; subst hC
    exact ⟨rfl, fun u hu => upd_other _ _ _ _ hu⟩
  · intro u hu
    exact callback_commutes pan nid lock C t u (fun e => hu e.symm) (by rw [hp]; simp)

/-- **without the mutex the registry is not linearizable** (`lock := false`: acquire never blocks).  The schedule
    `raceSchedule` is a schedule of the unlocked machine — and not of the locked one —; it ends with both calls finished
    and t5 registered for "b" but not for "a", which neither order of the two calls can produce (`Register` first: no
    registration at all; `Unregister` first: both names). -/
theorem unlocked_not_linearizable :
    (cexec nobody 0 false (cinit {} raceProgs) raceSchedule).map (fun C => (raceObs C.m.shared, C.m.holder.isSome)) =
      some ((none, some 1, true), false) ∧
    cexec nobody 0 true (cinit {} raceProgs) raceSchedule = none ∧
    raceObs (seqExec rrun {} [(0, .register 5 1 [[97], [98]]), (1, .unregister 5)]).2 = (none, none, false) ∧
    raceObs (seqExec rrun {} [(1, .unregister 5), (0, .register 5 1 [[97], [98]])]).2 = (some 1, some 1, true) := by
  decide

/-- **the second judge of the race run accepts only what the property allows.**  The `-race` stress harness records what
    every concurrent call observed; `drv_c17 lin` searches an acquisition order for which `Mutex.seqExec NtC.rrun` (the
    left-hand side of `concurrent_registry_linearizable`) explains the record.  For a `Notify(raw)` placed at registry state
    `s` its test is `NtJ.notifyObsOk` applied to the results of the two brackets (`s.enabled`, `collectTbl s raw`).  If the
    test accepts the observed `HandleNotification` calls `hs` = [(target, name)…], then the targets called are a
    PERMUTATION of the sequential model's delivery list `Nt.notify s raw` (each exactly once — about that list
    `notify_targets` / `no_textual_prefix` speak), every call carried the normalised name, each call's priority is the one
    the delivery list attaches to its target, and priorities do not increase along the observed order -/
theorem judge_accepts_only_allowed_deliveries (s : NSt) (raw : List Nat) (hs : List (Nat × List Nat))
    (h : NtJ.notifyObsOk s.enabled (collectTbl s raw) raw false hs = true) :
    (hs.map (·.1)).Perm (targetsOf (notify s raw)) ∧
    (∀ x ∈ hs, x.2 = joinDots (normalize raw)) ∧
    (∀ x ∈ hs, ((assocGet (collectTbl s raw) x.1).getD 0, x.1) ∈ notify s raw) ∧
    (hs.map (fun x => (assocGet (collectTbl s raw) x.1).getD 0)).Pairwise (fun a b => a ≥ b) :=
  NtJ.notifyObsOk_sound s raw hs h

/-- the same when the judge places the two brackets of the `Notify` at DIFFERENT registry states — `s₁` at the `Enabled()`
    check, `s₂` at the walk, other goroutines' brackets in between (the general case of `notify_delivers_snapshot`): what it
    accepts is an allowed delivery for that theorem's state `sL` = `s₂`, or `s₁` if the check saw the notifier disabled -/
theorem judge_accepts_only_allowed_deliveries_mixed (s₁ s₂ : NSt) (raw : List Nat) (hs : List (Nat × List Nat))
    (h : NtJ.notifyObsOk s₁.enabled (collectTbl s₂ raw) raw false hs = true) :
    (hs.map (·.1)).Perm (targetsOf (notify (if s₁.enabled then s₂ else s₁) raw)) ∧
    (∀ x ∈ hs, x.2 = joinDots (normalize raw)) ∧
    (∀ x ∈ hs, ((assocGet (collectTbl (if s₁.enabled then s₂ else s₁) raw) x.1).getD 0, x.1) ∈
      notify (if s₁.enabled then s₂ else s₁) raw) ∧
    (hs.map (fun x => (assocGet (collectTbl (if s₁.enabled then s₂ else s₁) raw) x.1).getD 0)).Pairwise (fun a b => a ≥ b) :=
  NtJ.notifyObsOk_sound_mixed s₁ s₂ raw hs h

/-- the judge is not vacuous: it accepts a correct delivery and rejects a missing target, a duplicate, a wrong order and a
    textual-prefix name -/
example : NtJ.notifyObsOk true [(1, 5), (2, 3)] [97] false [(1, [97]), (2, [97])] = true ∧
    NtJ.notifyObsOk true [(1, 5), (2, 3)] [97] false [(1, [97])] = false ∧
    NtJ.notifyObsOk true [(1, 5), (2, 3)] [97] false [(1, [97]), (1, [97])] = false ∧
    NtJ.notifyObsOk true [(1, 5), (2, 3)] [97] false [(2, [97]), (1, [97])] = false ∧
    NtJ.notifyObsOk true [(1, 5), (2, 3)] [97] false [(1, [97]), (2, [97, 98])] = false ∧
    NtJ.notifyObsOk false [(1, 5), (2, 3)] [97] false [] = true := by decide

/-! ### `RegisterFromNotifier` across notifiers (model `Model/NotifierMerge.lean`): a world of notifiers with ONE LOCK EACH,
    goroutines executing lock / unlock / copy / merge instructions under any scheduler.  The code copies the source's maps
    under the source's lock, releases it, and only then takes the destination's lock ("To avoid a potential deadlock, we
    make a copy of the other notifier's data first"). -/

/-- **merging never dead-locks**: whatever `RegisterFromNotifier` calls any number of goroutines make between any
    notifiers (also in opposite directions, also in cycles), under EVERY schedule some goroutine can take a step until all
    calls have returned — because a goroutine holds at most one lock at a time (`NtM.OneAtATime`, which the programs of the
    code satisfy: `NtM.mergeCalls_ok`) -/
theorem merge_never_deadlocks (w : World) (calls : Nat → List (Nat × Nat)) (sch : List Nat) (c : NtM.Conf)
    (he : NtM.exec (NtM.init w (fun t => (calls t).flatMap (fun nm => NtM.mergeProg nm.1 nm.2))) sch = some c) :
    (∃ t, (NtM.step c t).isSome = true) ∨ NtM.AllDone c :=
  NtM.minv_progress c (NtM.minv_exec sch _ c (NtM.minv_init w _ (fun t => NtM.mergeCalls_ok (calls t))) he)

/-- CONTRAST: with the destination's lock taken INSIDE the source's bracket (`NtM.nestedProg`, the variant the source
    comment warns about) goroutine 0 calling `n0.RegisterFromNotifier(n1)` and goroutine 1 calling
    `n1.RegisterFromNotifier(n0)` dead-lock after one step each: neither can move, both have 4 instructions left; the
    code's programs run to the end under the same and under every interleaving tried -/
theorem nested_merge_deadlocks :
    (NtM.exec (NtM.init World.init NtM.nestedProgs) [0, 1]).map
      (fun c => ((NtM.step c 0).isSome, (NtM.step c 1).isSome, (c.threads 0).prog.length, (c.threads 1).prog.length)) =
      some (false, false, 4, 4) ∧
    ∀ sch ∈ [[0, 1, 0, 1, 0, 1, 0, 1, 0, 1, 0, 1], [0, 0, 0, 1, 1, 1, 0, 0, 0, 1, 1, 1], [1, 1, 1, 1, 1, 1, 0, 0, 0, 0, 0, 0]],
      (NtM.exec (NtM.init World.init NtM.crossProgs) sch).map (fun c => (c.threads 0).prog.length + (c.threads 1).prog.length) =
        some 0 := by
  decide

/-- the lock-level program is the model's merge: run without interference, `lock m; copy; unlock m; lock n; merge; unlock n`
    leaves exactly the world of the atomic step `Nt.step (.merge n m)` about which `merge_spec` speaks (and does nothing
    for `n = m`) -/
theorem merge_program_is_model_merge (pan : Nat → Bool) (w : World) (n m : Nat) :
    (NtM.exec (NtM.init w (fun u => if u = 0 then NtM.mergeProg n m else []))
      (List.replicate (NtM.mergeProg n m).length 0)).map (·.w) = some (step pan w (.merge n m)).1 :=
  NtM.mergeProg_sequential pan w n m

/-! ### the readers-writer lock.  The theorems above run on the machine that treats every bracket as exclusive.  The Go
    code takes only the READ half of its `sync.RWMutex` in `Enabled()`, `BatchLevel()` and the ancestor walk of
    `NotifyWithData` (`NtC.isRead`), so those brackets overlap in time.  `RW.exec sys isRead` (Model/RWMutex.lean) is the
    machine in which they do: a read bracket is kept out only by a writer, a write bracket by anybody, the micro-steps
    of several readers interleave under any scheduler.  (That the Go code makes no registry WRITE under the read half is
    decided on every run about the source: `C17Lock.registry_accesses_locked`, `C17Lock.shared_brackets_read_only`.) -/

/-- **linearizable under the readers-writer lock**: under EVERY schedule of the RW machine, in EVERY reachable
    configuration — readers may be in the middle of their brackets —: whenever no writer is inside, the registry is that
    of executing the brackets ONE AT A TIME with the sequential model in acquisition order; every goroutine that is
    outside a bracket has received exactly the results this execution gives to its brackets (so an overlapping reader
    never sees a half-done `Register`/`Unregister`, and two overlapping readers do not disturb each other); program
    order is respected; and a writer is alone.  No "the lock is free" hypothesis is needed. -/
theorem concurrent_registry_linearizable_rw (s₀ : NSt) (progs : Nat → List ROp) (sch : List Nat)
    (c : RW.Config NSt ROp PC RRes) (he : RW.exec sys isRead (RW.init s₀ progs) sch = some c) :
    (c.writer = none → c.shared = (seqExec rrun s₀ c.acq).2) ∧
    (∀ t, (c.threads t).cur = none → (c.threads t).res = resOf t (seqExec rrun s₀ c.acq).1) ∧
    (∀ t, opsOf t c.acq ++ (c.threads t).todo = progs t) ∧
    (∀ t, c.writer = some t → c.readers = []) :=
  RW.linearizable sys isRead rrun ROk runs_op readOnly_sys s₀ progs sch c he

/-- **a `Notify` whose collection overlaps other readers still delivers one snapshot**: on the RW machine, if the
    collection bracket of goroutine `t`'s `Notify(raw)` is at position `pre` of the acquisition order, then — whatever
    overlapped it — (1) the registry state `sL` of the one-at-a-time execution at that position satisfies the registry
    invariant, (2) the table the bracket handed to `t` is the one the sequential walk computes at `sL`, and (3) sorting
    it (what `t` does after `RUnlock`) is the delivery list `Nt.notify sL raw` of the sequential model, about which
    `notify_targets` / `notify_priority_order` / `no_textual_prefix` speak -/
theorem notify_snapshot_rw (s₀ : NSt) (h0 : Inv s₀) (progs : Nat → List ROp) (hok : ∀ t op, op ∈ progs t → OpOk op)
    (sch : List Nat) (c : RW.Config NSt ROp PC RRes) (he : RW.exec sys isRead (RW.init s₀ progs) sch = some c)
    (pre post : List (Nat × ROp)) (t : Nat) (raw : List Nat)
    (hacq : c.acq = pre ++ (t, .collect raw) :: post) (hidle : (c.threads t).cur = none) :
    let sL := (seqExec rrun s₀ pre).2
    Inv sL ∧
    (∃ before after, (c.threads t).res = before ++ RRes.table (collectTbl sL raw) :: after) ∧
    sortTbl (collectTbl sL raw) = notify sL raw ∧
    (targetsOf (notify sL raw)).Nodup ∧ (notify sL raw).Pairwise (fun a b => a.1 ≥ b.1) := by
  intro sL
  obtain ⟨_, hres, hord, _⟩ := concurrent_registry_linearizable_rw s₀ progs sch c he
  have hopok : ∀ x ∈ pre, OpOk x.2 := by
    intro x hx
    obtain ⟨u, op⟩ := x
    apply hok u op
    rw [← hord u]
    exact List.mem_append_left _ (mem_opsOf u op _ (by rw [hacq]; simp [hx]))
  refine ⟨inv_seqExec pre s₀ h0 hopok, ?_, sortTbl_collectTbl sL raw, nodup_targets_notify sL raw,
    sorted_notify sL raw⟩
  rw [hres t hidle, hacq, RW.seqExec_app]
  simp only [seqExec, resOf_append]
  refine ⟨resOf t (seqExec rrun s₀ pre).1, resOf t (seqExec rrun sL post).1, ?_⟩
  show _ ++ resOf t ((t, ROp.collect raw, RRes.table (collectTbl sL raw)) :: (seqExec rrun sL post).1) = _
  simp [resOf]

/-- the RW machine really lets readers overlap, and keeps writers out: two goroutines are inside the ancestor walk of
    `Notify("a")` at the same time (a schedule of the RW machine, not of the exclusive machine); a `Register` can not
    enter while they are inside, nor they while it is -/
theorem readers_overlap :
    (RW.exec sys isRead (RW.init {} rwProgs) [0, 1, 0, 1]).map (fun c => (c.readers, c.writer)) = some ([1, 0], none) ∧
    (Mutex.exec sys true (Mutex.init {} rwProgs) [0, 1]).isNone = true ∧
    (RW.exec sys isRead (RW.init {} rwProgs) [0, 1, 2]).isNone = true ∧
    (RW.exec sys isRead (RW.init {} rwProgs) [2, 0]).isNone = true ∧
    (RW.exec sys isRead (RW.init {} rwProgs) [2, 2, 2, 2, 2, 0, 1, 1, 0, 0, 1, 1, 0, 0, 1]).map
      (fun c => ((c.threads 0).res, (c.threads 1).res)) =
        some ([RRes.table [(5, 1)]], [RRes.table [(5, 1)]]) := by
  decide

/-- the read-only premise is needed: with `Register` / `Unregister` (wrongly) under the read half, the schedule of
    `unlocked_not_linearizable` is a schedule of the RW machine and ends in the registry no order of the two calls
    produces (t5 registered for "b" but not for "a") -/
theorem write_under_read_lock_not_linearizable :
    (RW.exec sys isReadWrong (RW.init {} raceProgs) raceSchedule).map
      (fun c => (raceObs c.shared, c.readers, c.writer)) = some ((none, some 1, true), [], none) ∧
    (RW.exec sys isRead (RW.init {} raceProgs) raceSchedule).isNone = true := by
  decide

end concurrent

end C17
