import Lemmas.NotifierDelivery
/-! # C17 — notifications reach exactly the registered targets, once, in priority order

Property theorems only.  The executable model is `Model/Notifier.lean` (`Nt.step`, run by `drv_c17` against the Go
code on every check); helper lemmas are in `Lemmas/Notifier*.lean`.

Vocabulary.  A *history* is a list of `Nt.Op` over any number of notifiers (indexed by `Nat`) and targets (`Nat`);
`Nt.run pan ops` is the world after the history (`pan` says which targets panic) together with every event the targets
and recovery handlers observed.  `Nt.specRun ops i : Name → target → Option priority` is the *specification relation*
`registered` of notifier `i`, computed from the history alone by the four obvious rules (`Nt.specStep`: Register sets,
Unregister clears the target, RegisterFromNotifier overlays the other notifier's relation, Reset clears everything).
Names are byte strings; `normalize` = the non-empty dot-separated segments; `pre <+: n` on segment lists is
"`pre` is `n` or a dot-ancestor of `n`".  All theorems are sequential (one operation at a time): the clause
"concurrent use is free of data races" is outside the model and is only exercised by the `-race` stress run. -/
namespace C17
open Nt

/-- *refinement* (basis of every statement below): in every reachable world the production map of notifier `i` holds
    exactly the registrations the history prescribes — directly or through `RegisterFromNotifier`, minus what
    `Unregister`/`Reset` removed -/
theorem registered_spec (pan : Nat → Bool) (ops : List Op) (i : Nat) (n : Name) (t : Nat) :
    lookup ((run pan ops).1 i).prod n t = specRun ops i n t :=
  lookup_run pan ops i n t

/-- clause "invokes HandleNotification exactly once on each target currently registered for the name or for any
    dot-separated ancestor of it": after any history, `Notify(raw)` on notifier `i` reaches `t` iff the notifier is enabled
    and `t` is registered under a non-empty segment-wise prefix of the normalised name; and no target twice -/
theorem notify_targets (pan : Nat → Bool) (ops : List Op) (i : Nat) (raw : List Nat) :
    (∀ t, t ∈ targetsOf (notify ((run pan ops).1 i) raw) ↔
      ((run pan ops).1 i).enabled = true ∧
      ∃ pre, pre ≠ [] ∧ pre <+: normalize raw ∧ (specRun ops i pre t).isSome) ∧
    (targetsOf (notify ((run pan ops).1 i) raw)).Nodup := by
  refine ⟨fun t => ?_, nodup_targets_notify _ _⟩
  rw [mem_targets_notify _ (winv_run pan ops i)]
  simp only [registered_spec]

/-- clause "in non-increasing order of the priority registered for the most specific matching name": the delivery list
    is non-increasing in its priorities, and the priority attached to `t` is the one registered under the longest
    ancestor-or-self of the name that mentions `t` -/
theorem notify_priority_order (pan : Nat → Bool) (ops : List Op) (i : Nat) (raw : List Nat) :
    (notify ((run pan ops).1 i) raw).Pairwise (fun a b => a.1 ≥ b.1) ∧
    ∀ p t, (p, t) ∈ notify ((run pan ops).1 i) raw →
      ∃ pre, pre ≠ [] ∧ pre <+: normalize raw ∧ specRun ops i pre t = some p ∧
        ∀ pre', pre' <+: normalize raw → pre.length < pre'.length → specRun ops i pre' t = none := by
  refine ⟨sorted_notify _ _, fun p t hm => ?_⟩
  have := prio_notify _ (winv_run pan ops i) raw p t hm
  simpa only [registered_spec] using this

/-- clause "never for a name that merely shares a textual prefix": a target all of whose registrations are under names
    that are not segment-wise prefixes of the notified name is not reached, whatever the spelling of those names -/
theorem no_textual_prefix (pan : Nat → Bool) (ops : List Op) (i : Nat) (raw : List Nat) (t : Nat)
    (h : ∀ m, (specRun ops i m t).isSome → ¬ m <+: normalize raw) :
    t ∉ targetsOf (notify ((run pan ops).1 i) raw) := by
  rw [(notify_targets pan ops i raw).1]
  rintro ⟨_, pre, _, hp, hs⟩
  exact h pre hs hp

/-- the walk visits exactly the non-empty segment-wise prefixes (`foo.bar` is not an ancestor of `foo.barn`) -/
theorem walk_is_segmentwise (n pre : Name) : pre ∈ prefixes n ↔ pre ≠ [] ∧ pre <+: n := mem_prefixes n pre

/-- "foo.bar" is a textual prefix of "foo.barn" (bytes) but not a dot-ancestor -/
example : ([102, 111, 111, 46, 98, 97, 114] : List Nat) <+: [102, 111, 111, 46, 98, 97, 114, 110] ∧
    ¬ normalize [102, 111, 111, 46, 98, 97, 114] <+: normalize [102, 111, 111, 46, 98, 97, 114, 110] := by
  decide

/-- clause "on nobody while the notifier is disabled or after the target is unregistered or the notifier Reset":
    in every reachable world, a disabled notifier delivers nothing; right after `Unregister(t)` no name reaches `t`
    (every other target is unaffected: `unregister_frame`); right after `Reset` no name reaches anybody.
    (Silence *persists* until a new Register/RegisterFromNotifier by `notify_targets`, whose right-hand side is the
    history-level relation `specRun`.) -/
theorem disabled_or_unregistered_or_reset_silent (pan : Nat → Bool) (ops : List Op) (i : Nat) (raw : List Nat) :
    (((run pan ops).1 i).enabled = false → notify ((run pan ops).1 i) raw = []) ∧
    (∀ t, t ∉ targetsOf (notify ((step pan (run pan ops).1 (.unregister i t)).1 i) raw)) ∧
    notify ((step pan (run pan ops).1 (.reset i)).1 i) raw = [] := by
  have hw := winv_run pan ops
  refine ⟨fun he => by simp [notify, he], fun t => ?_, ?_⟩
  · have hinv := winv_step pan _ hw (.unregister i t) i
    rw [mem_targets_notify _ hinv]
    rintro ⟨_, pre, _, _, hs⟩
    simp only [step, World.set, if_true] at hs
    rw [lookup_unregister _ (hw i)] at hs
    simp at hs
  · apply notify_nil_of_no_targets
    intro t
    have hinv := winv_step pan _ hw (.reset i) i
    rw [mem_targets_notify _ hinv]
    rintro ⟨_, pre, _, _, hs⟩
    simp only [step, World.set, if_true] at hs
    rw [lookup_reset] at hs
    simp at hs

/-- `Unregister(t)` removes `t` from every name and touches no other registration -/
theorem unregister_frame (pan : Nat → Bool) (ops : List Op) (i t : Nat) (n : Name) (t' : Nat) :
    lookup ((step pan (run pan ops).1 (.unregister i t)).1 i).prod n t' =
      if t' = t then none else lookup ((run pan ops).1 i).prod n t' := by
  simp only [step, World.set, if_true]
  exact lookup_unregister _ (winv_run pan ops i) t n t'

/-- `Register(t, prio, names…)`: afterwards `t` has priority `prio` under each non-empty normalised name; every other
    (name, target) pair is as before -/
theorem register_spec (s : NSt) (t : Nat) (p : Int) (raws : List (List Nat)) (n : Name) (t' : Nat) :
    lookup (register s t p raws).prod n t' = if n ∈ normNames raws ∧ t' = t then some p else lookup s.prod n t' :=
  lookup_register s t p raws n t'

/-- clause "directly or through RegisterFromNotifier": after `n_i.RegisterFromNotifier(n_m)` in any reachable world a
    (name, target) pair has the other notifier's priority if the other registers it and the receiver's own otherwise —
    also for names both notifiers know (the defect fixed in the repository) —, and the other notifier is unchanged -/
theorem merge_spec (pan : Nat → Bool) (ops : List Op) (i m : Nat) (n : Name) (t : Nat) :
    lookup ((step pan (run pan ops).1 (.merge i m)).1 i).prod n t =
      (lookup ((run pan ops).1 m).prod n t).or (lookup ((run pan ops).1 i).prod n t) ∧
    (i ≠ m → (step pan (run pan ops).1 (.merge i m)).1 m = (run pan ops).1 m) := by
  constructor
  · simp only [step]
    by_cases him : i = m
    · subst him; simp only [if_true]; cases lookup ((run pan ops).1 i).prod n t <;> rfl
    · simp only [him, if_false, World.set, if_true]
      exact lookup_mergeFrom _ _ (winv_run pan ops m) n t
  · intro him
    have : ¬ m = i := fun e => him e.symm
    simp [step, him, World.set, this]

/-- the unrepaired merge loop (destination set overlaid on itself) loses the pair — the seeded regression —,
    the loop of the model (and of the repository now) keeps it -/
example : lookup ([([[97]], [(2, 5)])].foldl stepMergeOrig [([[97]], [(1, 0)])]) [[97]] 2 = none ∧
    lookup (mergeProd [([[97]], [(1, 0)])] [([[97]], [(2, 5)])]) [[97]] 2 = some 5 := by decide

/-- clause "StartBatch/EndBatch pairs nest: BatchMode(true) goes once to every batch target on the outermost start and
    BatchMode(false) once to the same targets on the matching end": from any reachable world in which notifier `n` is
    enabled and idle, for every well-nested middle part `mid` (any operations on any notifiers, any depth of inner
    Start/End pairs of `n`, no Reset/SetEnabled of `n`): the outer `StartBatch` calls `BatchMode(true)` on exactly the list
    `batch` of batch targets, `mid` causes no `BatchMode` call from `n` at all, the matching `EndBatch` calls
    `BatchMode(false)` on the same list and leaves the level at 0; the list has no duplicates and consists of the
    registered batch-capable targets -/
theorem batch_nesting (pan : Nat → Bool) (ops : List Op) (n : Nat) (mid : List Op)
    (he : ((run pan ops).1 n).enabled = true) (hl : ((run pan ops).1 n).level = 0) (hm : matched n 0 mid = true) :
    let w := (run pan ops).1
    let r1 := step pan w (.startBatch n)
    let r2 := runFrom pan r1.1 mid
    let r3 := step pan r2.1 (.endBatch n)
    r1.2 = batchAll pan n true (w n).batch ∧ NoBatchEvents n r2.2 ∧ r3.2 = batchAll pan n false (w n).batch ∧
    (r3.1 n).level = 0 ∧ (w n).batch.Nodup ∧
    ∀ t, t ∈ (w n).batch ↔ batchCapable t = true ∧ ∃ nm, (specRun ops n nm t).isSome := by
  intro w r1 r2 r3
  have hw := winv_run pan ops
  obtain ⟨a, b, c, d⟩ := nest_outer pan w hw n mid he hl hm
  refine ⟨a, b, c, d, (hw n).batchNodup, fun t => ?_⟩
  rw [(hw n).batchIff, mem_keys_iff]
  constructor
  · rintro ⟨hb, hk⟩
    refine ⟨hb, ?_⟩
    cases hg : assocGet (w n).names t with
    | none => rw [hg] at hk; cases hk
    | some ns =>
      cases ns with
      | nil => exact absurd rfl ((hw n).nonempty t [] hg)
      | cons nm rest =>
        refine ⟨nm, ?_⟩
        rw [← registered_spec pan, (hw n).consistent]
        exact ⟨nm :: rest, hg, by simp⟩
  · rintro ⟨hb, nm, hs⟩
    refine ⟨hb, ?_⟩
    rw [← registered_spec pan, (hw n).consistent] at hs
    obtain ⟨ns, hg, _⟩ := hs
    simp [hg]

/-- an unmatched `EndBatch` (level 0) and any Start/End on a disabled notifier do nothing -/
theorem unmatched_end_silent (s : NSt) :
    (s.level = 0 → endBatch s = (s, [])) ∧ (s.enabled = false → endBatch s = (s, []) ∧ startBatch s = (s, [])) := by
  constructor
  · intro h; simp [endBatch, h]
  · intro h; simp [endBatch, startBatch, h]

/-- `maps_consistent`, over all histories: the production map and the name map are mutual inverses (this is what makes
    `Unregister` complete), the batch set is exactly the set of registered batch-capable targets and has no duplicates,
    no key occurs twice in any of the association lists, and an idle notifier holds no current batch -/
theorem maps_consistent (pan : Nat → Bool) (ops : List Op) (i : Nat) :
    let s := (run pan ops).1 i
    (∀ n t, (lookup s.prod n t).isSome ↔ hasName s.names t n) ∧
    (∀ t, t ∈ s.batch ↔ batchCapable t = true ∧ t ∈ keys s.names) ∧
    (∀ t ns, assocGet s.names t = some ns → ns ≠ []) ∧
    s.batch.Nodup ∧ (keys s.prod).Nodup ∧ (keys s.names).Nodup ∧ SetsNodup s.prod ∧ (s.level = 0 → s.current = []) := by
  intro s
  have h := winv_run pan ops i
  exact ⟨h.consistent, h.batchIff, h.nonempty, h.batchNodup, h.prodKeys, h.nameKeys, h.sets, h.idle⟩

/-- clause "a panicking target is reported to the recovery handler and does not stop delivery to the rest" (model
    level): whatever set of targets panics, every operation leaves the same world and makes the same calls in the same
    order as when nobody panics, and the recovery handler receives exactly one report per call made to a panicking target -/
theorem panic_does_not_stop_delivery (pan : Nat → Bool) (w : World) (op : Op) :
    (step pan w op).1 = (step nobody w op).1 ∧
    calls (step pan w op).2 = (step nobody w op).2 ∧
    reports (step pan w op).2 = ((step nobody w op).2.filter (fun e => pan e.target)).length := by
  cases op with
  | notify n raw => exact ⟨rfl, (calls_deliverAll pan n _ _).1, (calls_deliverAll pan n _ _).2⟩
  | startBatch n => exact ⟨rfl, (calls_batchAll pan n _ _).1, (calls_batchAll pan n _ _).2⟩
  | endBatch n => exact ⟨rfl, (calls_batchAll pan n _ _).1, (calls_batchAll pan n _ _).2⟩
  | merge n m => simp only [step]; split <;> simp [calls, reports]
  | _ => exact ⟨rfl, rfl, rfl⟩

/-- name normalisation: the segments are non-empty and dot-free, and splitting the re-joined normalised name (what
    `NotifyWithData` does with `strings.Split(normalizeName(name), ".")`) gives the same segments back -/
theorem normalize_join_roundtrip (raw : List Nat) :
    (∀ seg ∈ normalize raw, seg ≠ [] ∧ 46 ∉ seg) ∧ normalize (joinDots (normalize raw)) = normalize raw :=
  ⟨normalize_segments raw, normalize_join raw⟩

/-! non-vacuity: the hypotheses of `batch_nesting` are met (target 1 registered, a nested pair and a notification inside) -/
example : ((run nobody [.register 0 1 5 [[97]]]).1 0).enabled = true ∧ ((run nobody [.register 0 1 5 [[97]]]).1 0).level = 0 ∧
    matched 0 0 [.startBatch 0, .notify 0 [97], .endBatch 0, .register 0 3 1 [[98]]] = true := by
  decide

end C17
