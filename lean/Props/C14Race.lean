import Props.C14
import Lemmas.SafeFileRace
/-! # C14, third part — two writers on one destination, observed at every instant

The property speaks of "whatever instant … an observer can look".  With TWO concurrent `safe.WriteFileWithMode` calls on the
same destination the kernel sees some interleaving of their system calls (`Safe.Interleave`); each writer has its own
temporary file (`O_EXCL` guarantees the names differ).  Until this round this situation was only judged by the harness
(oracle `race`); here it is a theorem about the same `writeFile` the driver executes. -/
namespace C14
open Safe

/-- **two concurrent writers, every interleaving, every fault in either, every instant**: after any prefix of any
    interleaving of the system calls of two `WriteFileWithMode` calls on one destination, the destination holds its old
    state, or the COMPLETE content of writer A, or the COMPLETE content of writer B (each with its requested mode less
    the umask) — never a mixture of the two, a prefix, or an empty file.  In particular the final content is one
    writer's, complete. -/
theorem two_writers_old_or_A_or_B (u : Nat) (fs : FS) (tmpA tmpB dst : Path) (hA : tmpA ≠ dst) (hB : tmpB ≠ dst)
    (hAB : tmpA ≠ tmpB) (NA NB modeA modeB : Nat) (piecesA piecesB : List Bytes) (cbA cbB : CbMode) (faultA faultB : Fault)
    (l : List Act)
    (hl : Interleave (writeFile tmpA dst NA modeA piecesA cbA faultA).2 (writeFile tmpB dst NB modeB piecesB cbB faultB).2 l)
    (k : Nat) :
    run u fs (l.take k) dst = fs dst ∨ run u fs (l.take k) dst = some (newFile modeA u piecesA) ∨
    run u fs (l.take k) dst = some (newFile modeB u piecesB) := by
  have hlocA := writeFile_local tmpA dst NA modeA piecesA cbA faultA
  have hlocB := writeFile_local tmpB dst NB modeB piecesB cbB faultB
  have hloc : ∀ x ∈ l, dst ∉ targets x ∨ ∃ s, s ≠ dst ∧ x = .rename s dst := by
    intro x hx
    rcases hl.mem x hx with h | h
    · exact localTo_dst tmpA dst hA x (hlocA x h)
    · exact localTo_dst tmpB dst hB x (hlocB x h)
  rcases dst_from_a_rename u fs dst l hloc k with h | ⟨i, s, c, _, h1, h2, h3⟩
  · exact Or.inl h
  · right
    obtain ⟨ia, ib, hint, hsrc⟩ := hl.split i _ h1
    rcases hsrc with hsrc | hsrc
    · left
      obtain ⟨hs, _, hcont, _⟩ := rename_after_all_bytes u fs tmpA dst NA modeA piecesA cbA faultA ia s dst hsrc
      subst hs
      have := interleave_tmp u s dst hA hint
        (fun x hx => hlocA x (List.mem_of_mem_take hx))
        (fun y hy => localTo_not_other tmpB dst s hAB hA y (hlocB y (List.mem_of_mem_take hy))) fs fs rfl
      rw [h3, ← h2, this, hcont]
    · right
      obtain ⟨hs, _, hcont, _⟩ := rename_after_all_bytes u fs tmpB dst NB modeB piecesB cbB faultB ib s dst hsrc
      subst hs
      have := interleave_tmp u s dst hB hint.symm
        (fun x hx => hlocB x (List.mem_of_mem_take hx))
        (fun y hy => localTo_not_other tmpA dst s (fun e => hAB e.symm) hB y (hlocA y (List.mem_of_mem_take hy))) fs fs rfl
      rw [h3, ← h2, this, hcont]

/-- **neither writer disturbs anything else, in any interleaving**: a path that is neither the destination nor one of
    the two temporary files is never changed -/
theorem two_writers_touch_nothing_else (u : Nat) (fs : FS) (tmpA tmpB dst q : Path) (hqA : q ≠ tmpA) (hqB : q ≠ tmpB)
    (hqd : q ≠ dst) (NA NB modeA modeB : Nat) (piecesA piecesB : List Bytes) (cbA cbB : CbMode) (faultA faultB : Fault)
    (l : List Act)
    (hl : Interleave (writeFile tmpA dst NA modeA piecesA cbA faultA).2 (writeFile tmpB dst NB modeB piecesB cbB faultB).2 l)
    (k : Nat) : run u fs (l.take k) q = fs q := by
  apply run_untouched
  intro x hx
  rcases hl.mem x (List.mem_of_mem_take hx) with h | h
  · exact localTo_not_other tmpA dst q hqA hqd x (writeFile_local tmpA dst NA modeA piecesA cbA faultA x h)
  · exact localTo_not_other tmpB dst q hqB hqd x (writeFile_local tmpB dst NB modeB piecesB cbB faultB x h)

/-- CONTRAST — two writers that share ONE temporary name (no `O_EXCL`, a fixed name): there is an interleaving after
    which the destination holds a MIXTURE of the two contents -/
theorem contrast_shared_temp_mixes_the_writers :
    ∃ l, Interleave [Act.createExcl 1 0o644, .write 1 [1, 1], .close 1, .rename 1 0]
        [Act.createExcl 1 0o644, .write 1 [2, 2], .close 1, .rename 1 0] l ∧
      run 0 (fun _ => none) l 0 = some ⟨[1, 1, 2, 2], 0o644⟩ :=
  ⟨[.createExcl 1 0o644, .createExcl 1 0o644, .write 1 [1, 1], .write 1 [2, 2], .close 1, .close 1, .rename 1 0, .rename 1 0],
    .left _ (.right _ (.left _ (.right _ (.left _ (.right _ (.left _ (.right _ .nil))))))), by decide⟩

/-! non-vacuity: an interleaving of two real runs in which B commits between A's writes and A's commit -/
example : Interleave (writeFile 1 0 4 0o644 [[1, 2, 3]] .propagate .none).2 (writeFile 2 0 4 0o600 [[9]] .propagate .none).2
    [.createExcl 1 0o644, .createExcl 2 0o600, .write 1 [1, 2, 3], .write 2 [9], .close 2, .rename 2 0, .close 1, .rename 1 0] :=
  .left _ (.right _ (.left _ (.right _ (.right _ (.right _ (.left _ (.left _ .nil)))))))

end C14
