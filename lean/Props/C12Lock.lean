import Generated.Lock_rotation
import Lemmas.LockSound

/-! # C12 — the lock bracket of `log/rotation`, checked against the source of the working tree

`Props/C12.lean` proves the concurrent clauses for a machine in which every method body runs between an acquisition and
a release of ONE mutex.  That the Go code has this shape is decided here about `LockFacts.rotation` /
`LockFacts.rotationEvents`, the tables `gossa/lockfacts` regenerates from the typed SSA form of `log/rotation` on every
run: every instruction that reads, writes or uses the file handle or the size counter, in whatever function it sits and
through whatever call chain an exported method reaches it. -/
namespace C12Lock
open LockFacts

/-- every access to the rotator's mutable state (current file, size) happens with the mutex held on ALL paths -/
theorem accesses_under_the_mutex : strictlyDisciplined rotation = true := by decide

/-- the mutex is never acquired on a path that already holds it (it is not re-entrant: that would be a self-deadlock,
    and `Write` would not return in bounded time) -/
theorem no_reacquisition : noReacquire rotationEvents = true := by decide

/-- the table is not vacuous: the file handle is written (by open/rotate/close) and the size counter is written -/
theorem table_has_writes : 2 ≤ (rotation.filter (fun a => a.kind == .write && a.via == .cell)).length := by decide

/-- at least three entry points acquire the mutex (Write, Sync, Close in the current source) -/
theorem three_acquisitions : 3 ≤ (rotationEvents.filter Event.isAcquire).length := by decide

/-- consequence (by `LockFacts.no_conflict`): under Go's mutual exclusion no two goroutines are ever simultaneously
    inside two accesses to the rotator's state of which one is a write — the bodies execute one after the other, which
    is the bracket `Model/Mutex.lean` assumes -/
theorem bodies_never_overlap {held : Nat → State} (hx : Exclusion held) {a b : Access}
    (ha : a ∈ rotation) (hb : b ∈ rotation) {t u : Nat} (htu : t ≠ u)
    (hea : Executing held t a) (heb : Executing held u b) : a.kind ≠ .write ∧ b.kind ≠ .write :=
  no_conflict accesses_under_the_mutex hx ha hb htu hea heb

end C12Lock
