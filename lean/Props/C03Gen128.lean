import Generated.SSA_F128
import Lemmas.GenTie128
import Props.C03
/-! # C03, second tie — the f128 definitions regenerated from the Go source are the verified model

`Generated/SSA_F128.lean` is written by `gossa/ssagen … f128` from the typed SSA form of package `xmath/fixed/f128` of the
repository's working tree on every run of `./check C03`.  An `f128.Int[T]` is the record `Gen.F128_Int` around a
`num.Int128`; the generic bodies are translated once, the type parameter becoming the dictionary
`(T_Multiplier T_Places : BitVec 64)` as for f64 (`Props/C03Gen.lean`, which also ties the configurations to the table).
A call of a function of `xmath/num` is a call of its regenerated definition `Gen.Int128_*` (`Generated/SSA_Num.lean`,
proved equal to the model of C01 in `Props/C01Gen.lean`); `Int128.Div`, which is outside the translated fragment (it
reaches the division kernels), is called as the total form of the model function of C01 (`GenNum.Int128_Div`), whose
specification `C01.idivMod_spec` is proved there.

A theorem `X_eq` says that the value (`.data.toInt`) of the regenerated definition is the model function of
`Model/Fixed.lean` (`Fixed.F128.*`, raw `Int`s reduced by `wrap128`, the quotient by contract) at the values of the
arguments — for every argument, wrap-around included; `Div` / `Mod` exclude the zero divisor, where Go panics and the
model says `none`.  The theorems are proved bottom-up: a callee is rewritten into its model function by its own theorem.
Each is wrapped in `when_translated` (see `Props/C03Gen.lean`). -/
set_option linter.unusedVariables false
namespace C03Gen128
open Fixed
abbrev W := BitVec 64
abbrev F := Gen.F128_Int

/-! ## constants and the dictionary -/

when_translated Gen.F128_multiplier in
theorem F128_multiplier_eq (M P : W) : (Gen.F128_multiplier M P).toInt = M.toInt := by
  fq_tie [Gen.F128_multiplier] []
when_translated Gen.F128_Multiplier in
theorem F128_Multiplier_eq (M P : W) : (Gen.F128_Multiplier M P).data.toInt = M.toInt := by
  fq_tie [Gen.F128_Multiplier, F128_multiplier_eq] []
when_translated Gen.F128_MaxDecimalDigits in
theorem F128_MaxDecimalDigits_eq (M P : W) : Gen.F128_MaxDecimalDigits M P = P := by
  simp only [gen_def]
when_translated Gen.F128_Maximum in
theorem F128_Maximum_eq (M P : W) : (Gen.F128_Maximum M P).data.toInt = F128.maxRaw := by
  simp only [Gen.F128_Maximum, gen_const]; decide
when_translated Gen.F128_Minimum in
theorem F128_Minimum_eq (M P : W) : (Gen.F128_Minimum M P).data.toInt = F128.minRaw := by
  simp only [Gen.F128_Minimum, gen_const]; decide

/-! ## add, subtract, negate, absolute value, comparisons -/

when_translated Gen.F128_Int_Add in
theorem F128_Int_Add_eq (M P : W) (f v : F) :
    (Gen.F128_Int_Add M P f v).data.toInt = F128.add f.data.toInt v.data.toInt := by
  fq_tie [Gen.F128_Int_Add] []
when_translated Gen.F128_Int_Sub in
theorem F128_Int_Sub_eq (M P : W) (f v : F) :
    (Gen.F128_Int_Sub M P f v).data.toInt = F128.sub f.data.toInt v.data.toInt := by
  fq_tie [Gen.F128_Int_Sub] []
when_translated Gen.F128_Int_Neg in
theorem F128_Int_Neg_eq (M P : W) (f : F) : (Gen.F128_Int_Neg M P f).data.toInt = F128.neg f.data.toInt := by
  fq_tie [Gen.F128_Int_Neg] [F128.neg]
when_translated Gen.F128_Int_Abs in
theorem F128_Int_Abs_eq (M P : W) (f : F) : (Gen.F128_Int_Abs M P f).data.toInt = F128.abs f.data.toInt := by
  fq_tie [Gen.F128_Int_Abs] [F128.abs]
when_translated Gen.F128_Int_Cmp in
theorem F128_Int_Cmp_eq (M P : W) (f n : F) :
    (Gen.F128_Int_Cmp M P f n).toInt = F128.cmp f.data.toInt n.data.toInt := by
  fq_tie [Gen.F128_Int_Cmp] []
when_translated Gen.F128_Int_GreaterThan in
theorem F128_Int_GreaterThan_eq (M P : W) (f n : F) :
    Gen.F128_Int_GreaterThan M P f n = F128.gt f.data.toInt n.data.toInt := by
  fq_tie [Gen.F128_Int_GreaterThan] []
when_translated Gen.F128_Int_GreaterThanOrEqual in
theorem F128_Int_GreaterThanOrEqual_eq (M P : W) (f n : F) :
    Gen.F128_Int_GreaterThanOrEqual M P f n = F128.ge f.data.toInt n.data.toInt := by
  fq_tie [Gen.F128_Int_GreaterThanOrEqual] []
when_translated Gen.F128_Int_Equal in
theorem F128_Int_Equal_eq (M P : W) (f n : F) :
    Gen.F128_Int_Equal M P f n = F128.eq f.data.toInt n.data.toInt := by
  fq_tie [Gen.F128_Int_Equal] []
when_translated Gen.F128_Int_LessThan in
theorem F128_Int_LessThan_eq (M P : W) (f n : F) :
    Gen.F128_Int_LessThan M P f n = F128.lt f.data.toInt n.data.toInt := by
  fq_tie [Gen.F128_Int_LessThan] []
when_translated Gen.F128_Int_LessThanOrEqual in
theorem F128_Int_LessThanOrEqual_eq (M P : W) (f n : F) :
    Gen.F128_Int_LessThanOrEqual M P f n = F128.le f.data.toInt n.data.toInt := by
  fq_tie [Gen.F128_Int_LessThanOrEqual] []
when_translated Gen.F128_Int_Min in
theorem F128_Int_Min_eq (M P : W) (f v : F) :
    (Gen.F128_Int_Min M P f v).data.toInt = F128.min f.data.toInt v.data.toInt := by
  fq_tie [Gen.F128_Int_Min] [F128.min]
when_translated Gen.F128_Int_Max in
theorem F128_Int_Max_eq (M P : W) (f v : F) :
    (Gen.F128_Int_Max M P f v).data.toInt = F128.max f.data.toInt v.data.toInt := by
  fq_tie [Gen.F128_Int_Max] [F128.max]
when_translated Gen.F128_Int_Inc in
theorem F128_Int_Inc_eq (M P : W) (f : F) : (Gen.F128_Int_Inc M P f).data.toInt = F128.inc M.toInt f.data.toInt := by
  fq_tie [Gen.F128_Int_Inc, F128_Int_Add_eq, F128_Multiplier_eq] [F128.inc]
when_translated Gen.F128_Int_Dec in
theorem F128_Int_Dec_eq (M P : W) (f : F) : (Gen.F128_Int_Dec M P f).data.toInt = F128.dec M.toInt f.data.toInt := by
  fq_tie [Gen.F128_Int_Dec, F128_Int_Sub_eq, F128_Multiplier_eq] [F128.dec]

/-! ## multiply, divide, remainder -/

when_translated Gen.F128_Int_Mul in
theorem F128_Int_Mul_eq (M P : W) (f v : F) (hM : Mult M.toInt) :
    (Gen.F128_Int_Mul M P f v).data.toInt = F128.mul M.toInt f.data.toInt v.data.toInt := by
  have hM0 : M.toInt ≠ 0 := ne_of_gt hM.pos
  fq_tie [Gen.F128_Int_Mul, F128_multiplier_eq, hM0] [F128.mul]
when_translated Gen.F128_Int_Div in
theorem F128_Int_Div_eq (M P : W) (f v : F) (hv : v.data.toInt ≠ 0) :
    F128.div M.toInt f.data.toInt v.data.toInt = some (Gen.F128_Int_Div M P f v).data.toInt := by
  first
  | fq_tie [Gen.F128_Int_Div, F128_multiplier_eq, hv] [F128.div, if_neg hv]
  | -- the product written the other way round (`mult.Mul(f.data)`)
    fq_tie [Gen.F128_Int_Div, F128_multiplier_eq, hv] [F128.div, if_neg hv, F128.mulI, Int.mul_comm M.toInt]
when_translated Gen.F128_Int_Trunc in
theorem F128_Int_Trunc_eq (M P : W) (f : F) (hM : Mult M.toInt) :
    (Gen.F128_Int_Trunc M P f).data.toInt = F128.trunc M.toInt f.data.toInt := by
  have hM0 : M.toInt ≠ 0 := ne_of_gt hM.pos
  fq_tie [Gen.F128_Int_Trunc, F128_multiplier_eq, hM0] [F128.trunc]
when_translated Gen.F128_Int_Mod in
/-- `Mod` (now `f.data.Mod(value.data)`) is the truncated remainder `a − b·trunc(a/b)` of the raw values for every
    non-zero divisor, with no hypothesis on an intermediate product — stated as the specification (`Int128.Mod` is taken
    by the model function of C01, `C01.idivMod_spec`) -/
theorem F128_Int_Mod_spec (M P : W) (f v : F) (hv : v.data.toInt ≠ 0) :
    (Gen.F128_Int_Mod M P f v).data.toInt = f.data.toInt.tmod v.data.toInt := by
  fq_tie [Gen.F128_Int_Mod, hv] []
when_translated Gen.F128_Int_Mod in
/-- … and it is the model function `F128.mod` (`Model/Fixed.lean`, the same definition the driver runs) -/
theorem F128_Int_Mod_eq (M P : W) (f v : F) (hv : v.data.toInt ≠ 0) :
    F128.mod M.toInt f.data.toInt v.data.toInt = some (Gen.F128_Int_Mod M P f v).data.toInt := by
  rw [F128_Int_Mod_spec M P f v hv]
  unfold F128.mod
  rw [if_neg hv, F128.remI_eq (GenTie128.fits f.data) (GenTie128.fits v.data) hv]
when_translated Gen.F128_MaxSafeMultiply in
theorem F128_MaxSafeMultiply_eq (M P : W) (hM : Mult M.toInt) :
    F128.maxSafeMultiply M.toInt = some (Gen.F128_MaxSafeMultiply M P).data.toInt := by
  have hM0 : (Gen.F128_Multiplier M P).data.toInt ≠ 0 := by rw [F128_Multiplier_eq]; exact ne_of_gt hM.pos
  have hd := F128_Int_Div_eq M P (Gen.F128_Maximum M P) (Gen.F128_Multiplier M P) hM0
  rw [F128_Maximum_eq, F128_Multiplier_eq] at hd
  fq_tie [Gen.F128_MaxSafeMultiply] [F128.maxSafeMultiply, hd]

/-! ## Trunc, Ceil, Round -/

when_translated Gen.F128_Int_Ceil in
theorem F128_Int_Ceil_eq (M P : W) (f : F) (hM : Mult M.toInt) :
    (Gen.F128_Int_Ceil M P f).data.toInt = F128.ceil M.toInt f.data.toInt := by
  have hM0 : M.toInt ≠ 0 := ne_of_gt hM.pos
  have hpos := hM.pos
  have ht := C03.f128_trunc_spec M.toInt f.data.toInt hM (GenTie128.fits f.data)
  have hf := GenTie128.fits f.data
  simp only [F128.trunc, fits128, abs_lt] at ht hf
  fq_tie [Gen.F128_Int_Ceil, F128_Int_Trunc_eq _ _ _ hM, F128_Int_Add_eq, F128_Multiplier_eq, F128_multiplier_eq, hM0,
    F128_Int_GreaterThan_eq, F128_Int_GreaterThanOrEqual_eq, F128_Int_LessThan_eq, F128_Int_LessThanOrEqual_eq,
    F128_Int_Sub_eq] [F128.ceil, F128.trunc]
when_translated Gen.F128_Int_Round in
theorem F128_Int_Round_eq (M P : W) (f : F) (hM : Mult M.toInt) :
    (Gen.F128_Int_Round M P f).data.toInt = F128.round M.toInt f.data.toInt := by
  have hM0 : M.toInt ≠ 0 := ne_of_gt hM.pos
  have hpos := hM.pos
  have hq := GenTie128.quo2 M.toInt hpos (by have := M.toInt_lt; have := M.le_toInt; simp only [fits128]; omega)
  have hs := GenTie128.sdiv2 M hpos
  first
  | fq_tie [Gen.F128_Int_Round, F128_Int_Trunc_eq _ _ _ hM, F128_Int_Add_eq, F128_Int_Sub_eq, F128_Int_Neg_eq,
      F128_Multiplier_eq, F128_multiplier_eq, hM0, F128_Int_GreaterThan_eq, F128_Int_GreaterThanOrEqual_eq,
      F128_Int_LessThan_eq, F128_Int_LessThanOrEqual_eq] [F128.round, F128.neg, F128.trunc]
  | -- a rewrite around one `split` helper (whole part, remainder) that halves the multiplier on the `int64`
    (simp only [Gen.F128_Int_Round, gen_local, GenTie128.toInt_add, GenTie128.toInt_sub, GenTie128.toInt_mul,
      GenTie128.toInt_neg, GenTie128.toInt_from64, GenTie128.ge_eq, GenTie128.le_eq, GenTie128.gt_eq, GenTie128.lt_eq,
      GenTie128.toInt_div, GenTie128.data_ite, GenTie128.toInt_ite, F128_multiplier_eq, hM0, hs, ne_eq,
      not_false_eq_true]
     simp only [F128.round, F128.trunc, F128.neg, hq])

/-! ## transported specifications -/

when_translated Gen.F128_Int_Mul in
/-- `Mul` = the exact product truncated toward zero to D places when the product is representable
    (`C03.f128_mul_spec`) -/
theorem gen128_mul_spec (M P : W) (f v : F) (hM : Mult M.toInt) (hp : fits128 (f.data.toInt * v.data.toInt)) :
    (Gen.F128_Int_Mul M P f v).data.toInt = (f.data.toInt * v.data.toInt).tdiv M.toInt := by
  rw [F128_Int_Mul_eq M P f v hM]; exact C03.f128_mul_spec _ _ _ hM hp
when_translated Gen.F128_Int_Round in
/-- `Round` is the nearest whole number, halves away from zero, whenever representable (`C03.f128_round_spec`) -/
theorem gen128_round_spec (M P : W) (f : F) (hM : Mult M.toInt) (hr : fits128 (Spec.fxRound M.toInt f.data.toInt)) :
    (∃ k : Int, (Gen.F128_Int_Round M P f).data.toInt = k * M.toInt) ∧
      2 * |f.data.toInt - (Gen.F128_Int_Round M P f).data.toInt| ≤ M.toInt := by
  rw [F128_Int_Round_eq M P f hM]
  exact ⟨(C03.f128_round_spec _ _ hM (GenTie128.fits f.data) hr).1, (C03.f128_round_spec _ _ hM (GenTie128.fits f.data) hr).2.1⟩
when_translated Gen.F128_Int_Round in
/-- the instantiation `f128.Int[fixed.D2]` (the dictionary of `D2` is tied to row 2 of the table in `Props/C03Gen.lean`) -/
theorem gen128_round_cfg (k : Nat) (m : Int) (h : mult? k = some m) (M P : W) (f : F) (hM : M.toInt = m) :
    (Gen.F128_Int_Round M P f).data.toInt = F128.round m f.data.toInt := by
  subst hM; exact F128_Int_Round_eq M P f (mult?_Mult h)

end C03Gen128
