import Lemmas.Cmdline
import Lemmas.CmdlineExit
import Lemmas.CmdlineFile
import Lemmas.CmdlineContrast
import Lemmas.CmdlineDecl
import Lemmas.CmdlineFull
import Lemmas.CmdlineConv
import Lemmas.CmdlineFuel
/-! # C10 — command-line parsing assigns exactly what the arguments say

`Cmd.scan tbl acc files args` is the model of the argument loop of `(*CmdLine).Parse`, `Cmd.parse` adds the
declaration of the options (`New`, `NewGeneralOption`/`NewOption`, `SetSingle`, `SetName`, `availableOptions`) in front
and the help/version exits behind it (Model/Cmdline.lean).  These are the definitions the correspondence driver
executes against the Go code on every check.  Strings are byte lists.  `tbl` is the option table (name ↦ (id, isBool);
long and one-rune names in one map, as in the source), `acc id raw` is "`Value.Set` of option `id` accepts `raw`",
`files` are the response files (path ↦ lines).  The scanner's result is `fatal` (every `FatalMsg` path, i.e. exit
status 1 through `atexit.Exit`) or the recorded assignments `(id, raw)` in order plus the remaining arguments; the
final contents of an option variable are `Cmd.finalRaws` of that record (last value for a scalar, initial contents
followed by all values for a slice).

A `Cmd.Spell` is one item of the vector in one of the valid spellings `--name=value`, `--name value`, `--flag`,
`-n value`, `-nvalue`, `-n=value`, `-abc` (grouped flags), the short value forms optionally with grouped flags in
front (`-abn value` …).  `Spell.Valid` collects the side conditions under which a spelling means what it says
(declared names of the right arity; long names non-empty without `=`; short names one rune each, the first of an
argument not `-`; an attached value non-empty and not starting with `=`; the value accepted by `Set`). -/
namespace C10
open Cmd

/-! ## valid vectors -/

/-- **parse ∘ render** (main clause).  For every table, every list of assignments each written in any valid
    spelling, followed by nothing, by `--` and *arbitrary* arguments, or by positionals whose first does not start
    with `-`/`@`: the scanner records exactly the assignments, in order, and returns exactly the positionals —
    whatever response files exist. -/
theorem parse_render (tbl : Table) (acc : Accepts) (files : Files) (sps : List Spell)
    (hv : ∀ sp ∈ sps, sp.Valid tbl acc) (t : Tail) (ht : t.OK) :
    scan tbl acc files (sps.flatMap Spell.args ++ t.args) = .ok ⟨sps.flatMap Spell.sets, t.rest⟩ := by
  unfold scan
  rw [run_render tbl acc files sps hv t ht]
  simp

/-- the same for the whole of `Parse` on a declared command line: if the declarations are accepted
    (`build = some es`), the spellings are valid for the table built from them and for the typed `Set` of the declared
    kinds, and none of the built-in help/version options is among the assignments, `Parse` returns normally with
    exactly these assignments and positionals. -/
theorem parse_render_declared (orc : Oracle) (incl : Bool) (decls : List Decl) (files : Files) (es : Entries)
    (hb : build incl decls = some es) (sps : List Spell)
    (hv : ∀ sp ∈ sps, sp.Valid (tableOf es) (acceptsOf orc incl decls)) (t : Tail) (ht : t.OK)
    (hu : ∀ s ∈ sps.flatMap Spell.sets, firstUserId ≤ s.1) :
    parse orc incl decls files (sps.flatMap Spell.args ++ t.args) = .done ⟨sps.flatMap Spell.sets, t.rest⟩ := by
  unfold parse
  rw [hb]
  simp only
  rw [parse_render _ _ files sps hv t ht]
  exact finish_user _ hu

/-- **`Parse` called twice** on the same command line (valid vectors, no built-in option): the option variables
    end as if all assignments of both vectors had been made in order (so what the first call stored is the second
    call's "default": scalars keep the last value, slices keep growing), each call returns its own positionals, and
    the response files of the first call may be named again in the second -/
theorem parse_twice_render (orc : Oracle) (incl : Bool) (decls : List Decl) (files : Files) (es : Entries)
    (hb : build incl decls = some es) (sps1 sps2 : List Spell)
    (hv1 : ∀ sp ∈ sps1, sp.Valid (tableOf es) (acceptsOf orc incl decls))
    (hv2 : ∀ sp ∈ sps2, sp.Valid (tableOf es) (acceptsOf orc incl decls)) (t1 t2 : Tail) (ht1 : t1.OK) (ht2 : t2.OK)
    (hu1 : ∀ s ∈ sps1.flatMap Spell.sets, firstUserId ≤ s.1) (hu2 : ∀ s ∈ sps2.flatMap Spell.sets, firstUserId ≤ s.1) :
    parseTwice orc incl decls files (sps1.flatMap Spell.args ++ t1.args) (sps2.flatMap Spell.args ++ t2.args) =
      (.done ⟨sps1.flatMap Spell.sets ++ sps2.flatMap Spell.sets, t2.rest⟩, t1.rest) := by
  unfold parseTwice
  rw [hb]
  simp only
  rw [parse_render _ _ files sps1 hv1 t1 ht1, finish_user _ hu1]
  simp only
  rw [parse_render _ _ files sps2 hv2 t2 ht2]
  simp only
  rw [finish_user]
  intro s hs
  simp only [List.mem_append] at hs
  rcases hs with h | h
  · exact hu1 s h
  · exact hu2 s h

/-- every declared name is bound in the table to its own option (id = position of the declaration) with the right
    arity: the one-rune name under the UTF-8 encoding of the rune, the long name under itself -/
theorem declared_names_in_table (incl : Bool) (decls : List Decl) (es : Entries) (h : build incl decls = some es)
    (i : Nat) (d : Decl) (hd : decls[i]? = some d) :
    (d.single ≠ 0 → tableOf es (encodeRune d.single) = some ⟨firstUserId + i, d.kind.isBool⟩) ∧
    (∀ n, d.name = some n → tableOf es n = some ⟨firstUserId + i, d.kind.isBool⟩) :=
  build_spec incl decls es h i d hd

/-- every Unicode scalar value — ASCII or multi-byte — is a legitimate one-character option name: its encoding is
    read back as that one rune by the short-option loop (the `IsRune` side condition of the short spellings) -/
theorem short_name_any_rune (r : Int) (h0 : 0 ≤ r) (h1 : r ≤ 1114111) (hs : r < 55296 ∨ 57343 < r) :
    IsRune (encodeRune r) :=
  isRune_encodeRune r h0 h1 hs

/-- a boolean flag's `Set("true")` always succeeds (so the acceptance condition of the flag spellings is met by every
    declared `*bool` option and by the built-in ones) -/
theorem flag_accepts_true (orc : Oracle) : typed orc .bool strTrue = some "true" := by
  simp [typed, parseBool, strTrue]
  rfl

/-- for a declared option the abstract acceptance is the typed `Set` of its kind (values.go) -/
theorem declared_accepts (orc : Oracle) (incl : Bool) (decls : List Decl) (i : Nat) (d : Decl)
    (hd : decls[i]? = some d) (v : Str) :
    acceptsOf orc incl decls (firstUserId + i) v = (d.kind.supported && (typed orc d.kind.base v).isSome) :=
  acceptsOf_user orc incl decls i d hd v

/-- an accepted signed integer fits the declared width, so the narrowing conversion in values.go stores it exactly -/
theorem int_value_in_range (bits : Nat) (s : Str) (v : Int) (h : parseInt bits s = some v) :
    -((2 ^ (bits - 1) : Nat) : Int) ≤ v ∧ v < ((2 ^ (bits - 1) : Nat) : Int) :=
  parseInt_range bits s v h

/-- … likewise unsigned -/
theorem uint_value_in_range (bits : Nat) (s : Str) (v : Int) (h : parseUint bits s = some v) :
    0 ≤ v ∧ v < ((2 ^ bits : Nat) : Int) :=
  parseUint_range bits s v h

/-- the hypotheses of `parse_render_declared` follow from the declarations alone: for a declared value-taking option
    with a one-rune name (any Unicode scalar value except `-`) the spellings `-n value` and `-n=value` are valid for
    every value its typed `Set` accepts … -/
theorem declared_short_spellings_valid (orc : Oracle) (incl : Bool) (decls : List Decl) (es : Entries)
    (hb : build incl decls = some es) (i : Nat) (d : Decl) (hd : decls[i]? = some d)
    (h0 : 0 < d.single) (h1 : d.single ≤ 1114111) (hs : d.single < 55296 ∨ 57343 < d.single) (h45 : d.single ≠ 45)
    (hk : d.kind.isBool = false) (hsup : d.kind.supported = true) (v : Str)
    (hv : (typed orc d.kind.base v).isSome = true) :
    (Spell.shortSep [] (encodeRune d.single) ⟨firstUserId + i, false⟩ v).Valid (tableOf es) (acceptsOf orc incl decls) ∧
    (Spell.shortEq [] (encodeRune d.single) ⟨firstUserId + i, false⟩ v).Valid (tableOf es) (acceptsOf orc incl decls) :=
  declared_short_valid orc incl decls es hb i d hd h0 h1 hs h45 hk hsup v hv

/-- … and with a long name that contains no `=`, `--name=value` and `--name value` are -/
theorem declared_long_spellings_valid (orc : Oracle) (incl : Bool) (decls : List Decl) (es : Entries)
    (hb : build incl decls = some es) (i : Nat) (d : Decl) (hd : decls[i]? = some d) (n : Str)
    (hn : d.name = some n) (heq : 61 ∉ n) (hk : d.kind.isBool = false) (hsup : d.kind.supported = true) (v : Str)
    (hv : (typed orc d.kind.base v).isSome = true) :
    (Spell.longEq n ⟨firstUserId + i, false⟩ v).Valid (tableOf es) (acceptsOf orc incl decls) ∧
    (Spell.longSep n ⟨firstUserId + i, false⟩ v).Valid (tableOf es) (acceptsOf orc incl decls) :=
  declared_long_valid orc incl decls es hb i d hd n hn heq hk hsup v hv

/-- … and for a declared `*bool` option the flag spellings: `--flag` (name without `=`) and `-f` (any Unicode scalar
    value except `-`); `Set("true")` is accepted by construction of `ParseBool` -/
theorem declared_flag_spellings_valid (orc : Oracle) (incl : Bool) (decls : List Decl) (es : Entries)
    (hb : build incl decls = some es) (i : Nat) (d : Decl) (hd : decls[i]? = some d) (hk : d.kind.isBool = true) :
    (∀ n, d.name = some n → 61 ∉ n →
      (Spell.flagLong n ⟨firstUserId + i, true⟩).Valid (tableOf es) (acceptsOf orc incl decls)) ∧
    (0 < d.single → d.single ≤ 1114111 → (d.single < 55296 ∨ 57343 < d.single) → d.single ≠ 45 →
      (Spell.flags [(encodeRune d.single, ⟨firstUserId + i, true⟩)]).Valid (tableOf es) (acceptsOf orc incl decls)) :=
  declared_flag_valid orc incl decls es hb i d hd hk

/-- **positional tail verbatim**: once collection has begun (after `--` or the first positional) every further
    argument is returned unchanged, whatever it looks like (`-x`, `--name=v`, `--`, `@file`, empty, …) -/
theorem positional_tail_verbatim (tbl : Table) (acc : Accepts) (files : Files) (seen : List Str) (a : PAcc)
    (pos : List Str) :
    run tbl acc files seen a .collect pos = .ok { a with rest := a.rest ++ pos } :=
  run_collect tbl acc files seen a pos

/-- a lone `-` where an option is expected is the first positional (the conventional name of standard input): it
    and everything behind it is returned verbatim -/
theorem bare_dash_is_first_positional (tbl : Table) (acc : Accepts) (files : Files) (seen : List Str) (a : PAcc)
    (args : List Str) :
    run tbl acc files seen a .look ([45] :: args) = .ok { a with rest := a.rest ++ [45] :: args } :=
  run_bare_dash tbl acc files seen a args

/-- CONTRAST (the defect repaired by the fix `multibyte-short`): the short-option loop that takes the option name to be
    ONE BYTE wide (`arg[j+1:]`) — the same loop otherwise: with the width of the decoded rune it is `Cmd.shortLoop` — misreads
    a multi-byte name.  For the string option `é`: `-é=v` assigns the bytes `a9 3d 76` instead of `v`; `-é` followed by
    a separate value assigns `a9` at once and leaves the value to be taken for the next argument. -/
theorem contrast_byte_wide_name_misreads_multibyte :
    (∀ tbl acc s a, shortLoopW nextLen tbl acc s a = shortLoop tbl acc s a) ∧
    shortLoop exTblE (fun _ _ => true) [195, 169, 61, 118] {} = some (⟨[(3, [118])], []⟩, .look) ∧
    shortLoopW (fun _ => 1) exTblE (fun _ _ => true) [195, 169, 61, 118] {} =
      some (⟨[(3, [169, 61, 118])], []⟩, .look) ∧
    (shortLoop exTblE (fun _ _ => true) [195, 169] {}).map (fun r => r.1) = some {} ∧
    (shortLoopW (fun _ => 1) exTblE (fun _ _ => true) [195, 169] {}).map (fun r => r.1) = some ⟨[(3, [169])], []⟩ :=
  ⟨shortLoopW_nextLen, shortLoop_multibyte_eq, shortLoopW_one_multibyte_eq, shortLoop_multibyte_sep.1,
   shortLoop_multibyte_sep.2⟩

/-! ## final contents of the option variables

`Cmd.setVar` transcribes `GeneralValue.Set` (values.go) case by case; `Cmd.applySets` applies the `Set` calls of a run,
in order, to the store of option variables, and `Cmd.renderStore` — what the driver prints and the check compares with
the Go variables — reads that store.  The integer, bool and string conversions are the model's own (`parseInt`,
`parseUint`, `parseBool`); float and duration values are computed too (`Cmd.floatVal` through `SoftFloat.parse`,
`Cmd.parseDuration`); the parameter `orc` is only consulted for hexadecimal / digit-separated float texts. -/

/-- one `Set` call, uniformly: the conversion of the kind decides acceptance and the stored value; a scalar variable
    is overwritten, a slice variable (and the harness's logging value) is appended to -/
theorem set_semantics (orc : Oracle) (k : Kind) (cur : Var) (raw : Str) (hsup : k.supported = true) :
    setVar orc k cur raw =
      (typed orc k.base raw).map (fun t => if k.slice || k.base == .log then cur ++ [t] else [t]) :=
  setVar_eq orc k cur raw hsup

/-- **`*[]float32` and `*[]float64` are not supported value types**: `GeneralValue.Set` has no case for them (values.go
    answers "unhandled type"), so every `Set` fails — whatever the text — and every assignment to such an option is
    refused by `acceptsOf`, i.e. any spelling that names it is `Malformed.rejected` and the parse is fatal -/
theorem slice_of_float_unsupported (orc : Oracle) (incl : Bool) (decls : List Decl) (i : Nat) (d : Decl)
    (hd : decls[i]? = some d) (hk : d.kind = ⟨.f32, true⟩ ∨ d.kind = ⟨.f64, true⟩) (cur : Var) (v : Str) :
    setVar orc d.kind cur v = none ∧ acceptsOf orc incl decls (firstUserId + i) v = false := by
  rw [acceptsOf_user orc incl decls i d hd]
  rcases hk with h | h <;> rw [h] <;> simp [setVar, Kind.supported]

/-- every option variable sees exactly the `Set` calls that name it, in the order of the run, starting from its
    contents before the run -/
theorem variable_is_fold_of_its_sets (orc : Oracle) (incl : Bool) (decls : List Decl) (sets : List (Nat × Str))
    (st : Store) (id : Nat) :
    (applySets orc incl decls st sets).get id = (assigned id sets).foldl (stepVar orc incl decls id) (st.get id) :=
  get_applySets orc incl decls sets st id

/-- **unmentioned options keep their contents**: a variable no assignment names is exactly what it was -/
theorem unmentioned_untouched (orc : Oracle) (incl : Bool) (decls : List Decl) (sets : List (Nat × Str))
    (st : Store) (id : Nat) (h : ∀ s ∈ sets, s.1 ≠ id) :
    (applySets orc incl decls st sets).get id = st.get id := by
  rw [get_applySets, assigned_unmentioned id sets h]
  rfl

/-- … which for a declared option is the caller's initial contents -/
theorem initial_contents (orc : Oracle) (decls : List Decl) (i : Nat) (d : Decl) (h : decls[i]? = some d) :
    (initStore orc decls).get (firstUserId + i) = initVar orc d.kind d.defs :=
  get_initStore orc decls i d h

/-- **a scalar variable ends with the value of its LAST successful `Set`** (and with its old contents if there was
    none) -/
theorem scalar_last_successful_set (orc : Oracle) (incl : Bool) (decls : List Decl) (sets : List (Nat × Str))
    (st : Store) (id : Nat) (k : Kind) (hk : kindOfId incl decls id = some k)
    (hs : (k.slice || k.base == .log) = false) :
    (applySets orc incl decls st sets).get id =
      lastOr ((assigned id sets).filterMap (typed orc k.base)) (st.get id) := by
  rw [get_applySets, foldl_scalar_kind orc incl decls id k hk hs]

/-- **last assignment wins**: whatever was assigned before, after `… (id, v) …` with no later assignment to `id` the
    scalar variable holds exactly the typed value of `v` -/
theorem last_assignment_wins (orc : Oracle) (incl : Bool) (decls : List Decl) (st : Store) (id : Nat) (k : Kind)
    (hk : kindOfId incl decls id = some k) (hs : (k.slice || k.base == .log) = false)
    (s1 s2 : List (Nat × Str)) (v : Str) (t : String) (hv : typed orc k.base v = some t)
    (h : ∀ s ∈ s2, s.1 ≠ id) :
    (applySets orc incl decls st (s1 ++ (id, v) :: s2)).get id = [t] := by
  rw [scalar_last_successful_set orc incl decls _ st id k hk hs, assigned_append, assigned_cons_self,
    assigned_unmentioned id s2 h]
  simp [lastOr, List.filterMap_append, hv]

/-- **slice options append**: the old contents, then the typed value of every accepted assignment, in order -/
theorem slice_appends (orc : Oracle) (incl : Bool) (decls : List Decl) (sets : List (Nat × Str))
    (st : Store) (id : Nat) (k : Kind) (hk : kindOfId incl decls id = some k)
    (hsup : k.supported = true) (hs : (k.slice || k.base == .log) = true) :
    (applySets orc incl decls st sets).get id = st.get id ++ (assigned id sets).filterMap (typed orc k.base) := by
  rw [get_applySets, foldl_append_kind orc incl decls id k hk hsup hs]

/-- what the check compares with the Go variables after a valid vector: the store after exactly the spelled
    assignments, in order, and the positionals -/
theorem variables_after_parse (orc : Oracle) (incl : Bool) (decls : List Decl) (files : Files) (es : Entries)
    (hb : build incl decls = some es) (sps : List Spell)
    (hv : ∀ sp ∈ sps, sp.Valid (tableOf es) (acceptsOf orc incl decls)) (t : Tail) (ht : t.OK)
    (hu : ∀ s ∈ sps.flatMap Spell.sets, firstUserId ≤ s.1) :
    renderStore orc incl decls (parse orc incl decls files (sps.flatMap Spell.args ++ t.args)) =
      " ".intercalate (("ok" :: renderStoreOpts
        (applySets orc incl decls (initStore orc decls) (sps.flatMap Spell.sets)) firstUserId decls) ++
        ("|" :: t.rest.map hexOf)) := by
  rw [parse_render_declared orc incl decls files es hb sps hv t ht hu]
  rfl

/-! ## float and duration values are computed, not supplied

`Cmd.typed` / `Cmd.setVar` convert a float text with the IEEE-754 model `SoftFloat.parse` (Model/EvalSoftFloat.lean: exact
rational arithmetic, round to nearest even at the DECLARED width, overflow refused) and a duration text with
`Cmd.parseDuration`, a transcription of `time.ParseDuration` whose fractions go through the float64 model as in the
source.  The per-line oracle is consulted only for float texts that parser leaves `outside` (hexadecimal, digit
separators). -/

/-- **the conversion layer no longer has a free parameter**: for every kind, the accepted strings and the stored values
    are the same under any two oracles — except float texts outside the model's parser -/
theorem conversion_independent_of_oracle (orc orc' : Oracle) (b : Base) (s : Str)
    (h32 : b = .f32 → SoftFloat.parse SoftFloat.f32 s ≠ .outside)
    (h64 : b = .f64 → SoftFloat.parse SoftFloat.f64 s ≠ .outside) : typed orc b s = typed orc' b s :=
  typed_oracle_free orc orc' b s h32 h64

/-- an accepted duration fits `int64`: every overflow test of `ParseDuration` is in place, so the final
    `Duration(d)` / `-Duration(d)` is exact (fails if the check behind the running total or behind a group is dropped) -/
theorem duration_value_in_range (s : Str) (v : Int) (h : parseDuration s = some v) :
    -((2 ^ 63 : Nat) : Int) ≤ v ∧ v < ((2 ^ 63 : Nat) : Int) :=
  parseDuration_range s v h

/-- **the fuel of the duration loop never runs out**: `parseDuration` runs `durLoop` with the length of the text as fuel;
    every `number unit` group consumes at least one byte, so any two amounts of fuel ≥ the length give the same answer —
    a `none` is a refusal by one of the rules of `time.ParseDuration`, never an artefact of the bound -/
theorem duration_fuel_suffices (n m : Nat) (s : Str) (d : Nat) (hn : s.length ≤ n) (hm : s.length ≤ m) :
    durLoop n s d = durLoop m s d :=
  durLoop_fuel n m s d hn hm

/-- CONTRAST: a `*float32` option converted at 64 bits and then narrowed (`float32(ParseFloat(s, 64))`) rounds twice.
    For the text 1.00000005960464477539062500000000000000001, just above the midpoint of 1 and its float32 successor,
    the model (as values.go, which asks `ParseFloat` for 32 bits) stores 0x3f800001, the narrowing variant 0x3f800000 -/
theorem contrast_float32_double_rounding :
    typed [] .f32 textAboveMidpoint = some "3f800001" ∧ floatViaF64 textAboveMidpoint = some 0x3f800000 :=
  ⟨floatVal_midpoint, floatViaF64_midpoint⟩

/-! ## response files -/

/-- **response-file split.**  `pre` ends at an option boundary (`hb`: after `pre` the scanner is looking for an
    option again), file `f` holds the run `ins`, `f` has not been loaded before and no file or later argument mentions
    `@f` again ("no path repeats"): writing `@f` instead of the run gives the same result — the same assignments and
    positionals, or fatal in both cases.  Nesting is covered: the theorem holds for any set `seen` of already loaded
    paths and `ins` may itself contain references, so it can be applied again inside. -/
theorem response_split (tbl : Table) (acc : Accepts) (files : Files) (pre post ins : List Str) (f : Str)
    (seen seen₁ : List Str) (a a₁ : PAcc)
    (hb : ∀ tail, run tbl acc files seen a .look (pre ++ tail) = run tbl acc files seen₁ a₁ .look tail)
    (hf : files.lookup f = some ins) (hfresh : f ∉ seen₁) (h1 : FilesNoRef files f) (h3 : NoRef f post) :
    run tbl acc files seen a .look (pre ++ (64 :: f) :: post) = run tbl acc files seen a .look (pre ++ (ins ++ post)) :=
  run_response_split tbl acc files pre post ins f seen seen₁ a a₁ hb hf hfresh h1 h3

/-- the boundary hypothesis of `response_split` holds behind any list of valid spellings -/
theorem spellings_end_at_boundary (tbl : Table) (acc : Accepts) (files : Files) (sps : List Spell)
    (hv : ∀ sp ∈ sps, sp.Valid tbl acc) (seen : List Str) (a : PAcc) (tail : List Str) :
    run tbl acc files seen a .look (sps.flatMap Spell.args ++ tail) =
      run tbl acc files seen (addSets a (sps.flatMap Spell.sets)) .look tail :=
  run_spells tbl acc files sps hv seen a tail

/-- the split theorem for a whole vector: valid spellings, then `@f`, then anything -/
theorem response_split_scan (tbl : Table) (acc : Accepts) (files : Files) (sps : List Spell)
    (hv : ∀ sp ∈ sps, sp.Valid tbl acc) (post ins : List Str) (f : Str)
    (hf : files.lookup f = some ins) (h1 : FilesNoRef files f) (h3 : NoRef f post) :
    scan tbl acc files (sps.flatMap Spell.args ++ (64 :: f) :: post) =
      scan tbl acc files (sps.flatMap Spell.args ++ (ins ++ post)) := by
  unfold scan
  exact run_response_split tbl acc files _ post ins f [] [] {} _
    (fun tail => run_spells tbl acc files sps hv [] {} tail) hf (by simp) h1 h3

/-- the other direction without any freshness condition: whenever the vector that mentions `@f` at an option
    boundary is accepted, the vector with the file's lines written out in place is accepted with the same result
    (a repeated path makes the split vector fatal, so the hypothesis excludes it by itself) -/
theorem response_inline (tbl : Table) (acc : Accepts) (files : Files) (pre post ins : List Str) (f : Str)
    (seen seen₁ : List Str) (a a₁ r : PAcc)
    (hb : ∀ tail, run tbl acc files seen a .look (pre ++ tail) = run tbl acc files seen₁ a₁ .look tail)
    (hf : files.lookup f = some ins)
    (h : run tbl acc files seen a .look (pre ++ (64 :: f) :: post) = .ok r) :
    run tbl acc files seen a .look (pre ++ (ins ++ post)) = .ok r :=
  run_response_inline tbl acc files pre post ins f seen seen₁ a a₁ r hb hf h

/-- the response files of the model are lists of lines; a file on disk is bytes read by `bufio.Scanner`
    (`Cmd.linesOf`): LF-terminated lines are read back as exactly these lines when no line contains LF or ends in CR -/
theorem response_file_bytes_lf (ls : List Str) (h : ∀ l ∈ ls, 10 ∉ l ∧ l.getLast? ≠ some 13) :
    linesOf (ls.flatMap (fun l => l ++ [10])) = ls :=
  linesOf_lf ls h

/-- … and CRLF-terminated lines always (any line without LF, also one that itself ends in CR) -/
theorem response_file_bytes_crlf (ls : List Str) (h : ∀ l ∈ ls, 10 ∉ l) :
    linesOf (ls.flatMap (fun l => l ++ [13, 10])) = ls :=
  linesOf_crlf ls h

/-- loading a path twice is fatal (the recursion guard), also when the second reference is not recursive -/
theorem repeated_path_fatal (tbl : Table) (acc : Accepts) (files : Files) (seen : List Str) (a : PAcc) (f : Str)
    (args : List Str) (h : f ∈ seen) : run tbl acc files seen a .look ((64 :: f) :: args) = .fatal := by
  simp [run_at, h]

/-- a reference to a file that cannot be read is fatal -/
theorem missing_file_fatal (tbl : Table) (acc : Accepts) (files : Files) (seen : List Str) (a : PAcc) (f : Str)
    (args : List Str) (h : files.lookup f = none) : run tbl acc files seen a .look ((64 :: f) :: args) = .fatal := by
  by_cases hs : f ∈ seen <;> simp [run_at, hs, h]

/-! ## observations outside the property (Appendix B of the design: not claimed, recorded as what the code does) -/

/-- a response-file reference in value position is taken literally as the value -/
theorem observation_reference_in_value_position (tbl : Table) (acc : Accepts) (files : Files) (seen : List Str)
    (a : PAcc) (o : Opt) (f : Str) (args : List Str) :
    run tbl acc files seen a (.value o) ((64 :: f) :: args) =
      (match Cmd.set acc a o (64 :: f) with
       | none => .fatal
       | some a' => run tbl acc files seen a' .look args) :=
  run_value tbl acc files seen a o (64 :: f) args

/-- `GeneralValue.String()` of a slice value (the default shown in the usage text): the `%v` texts of the elements joined
    with ", " — except that empty leading elements (possible for `*[]string`) leave no trace, because the separator is
    only written into a non-empty buffer.  `Cmd.gvString` / `Cmd.gvHistory` are what the `gs` lines of the check run
    against `GeneralValue.Set` / `String` used directly. -/
theorem observation_general_value_string_of_slice (b : Base) (elems : List Str) :
    gvString ⟨b, true⟩ elems =
      (match elems.dropWhile (fun e => e.isEmpty) with
       | [] => []
       | e :: es => e ++ es.flatMap (fun x => [44, 32] ++ x)) :=
  gvString_slice b elems

/-- … of a scalar after a successful `Set`: the `%v` text of the value just set (between double quotes for a string),
    whatever the variable held before -/
theorem general_value_string_after_set (k : Kind) (hs : k.slice = false) (elems e' : List Str) (raw : Str)
    (h : gvSet k elems raw = some e') :
    ∃ t, vText k.base raw = some t ∧ e' = [t] ∧
      gvString k e' = (if k.base = .str then [34] ++ t ++ [34] else t) := by
  rw [gvSet_scalar k hs] at h
  cases ht : vText k.base raw with
  | none => simp [ht] at h
  | some t =>
    simp only [ht, Option.map_some, Option.some.injEq] at h
    subst h
    refine ⟨t, rfl, rfl, ?_⟩
    unfold gvString
    simp only [hs, Bool.false_eq_true, if_false, List.headD_cons]
    cases hb : k.base <;> simp

/-- what a FAILING `GeneralValue.Set` leaves behind (never seen through `Parse`, where the error is fatal; compared by the
    `gf` lines): the cases that parse into a temporary — every type except `*bool`, `*int64`, `*uint64` (and the float64 /
    Duration cases, not modelled), and every slice type — leave the variable exactly as it was; a `*bool` is set to
    `false` by the failed conversion -/
theorem observation_failing_set_store (k : Kind) (elems : List Str) (raw : Str) (h : gvSet k elems raw = none) :
    gvSetFull false k elems raw = (elems, false) ∧
    (k.slice = true → ∀ direct, gvSetFull direct k elems raw = (elems, false)) ∧
    (k = ⟨.bool, false⟩ → gvSetFull true k elems raw = ([ofString "false"], false)) := by
  refine ⟨(gvSetFull_fail_keeps k elems raw h).1, (gvSetFull_fail_keeps k elems raw h).2, ?_⟩
  intro hk
  subst hk
  exact gvSetFull_fail_direct_bool elems raw h

/-- the model holds two transcriptions of `strconv.ParseInt(s, 0, bits)`: `Cmd.parseInt` (value or error; every
    successful `Set`) and `Cmd.parseIntFull` (scan order of `ParseUint`, with the value returned BESIDE an error; what a
    failing `Set` on `*int64` stores).  They accept exactly the same strings with the same value, for every bit size
    of the integer kinds … -/
theorem int_parsers_agree (bits : Nat) (hb : 2 ≤ bits) (s : Str) (v : Int) :
    parseIntFull bits s = (v, true) ↔ parseInt bits s = some v :=
  parseIntFull_ok bits hb s v

/-- … and likewise the unsigned pair: the first offence in scan order (a bad digit, or `n*base + d` beyond the limit)
    exists iff the unbounded digit loop fails or ends beyond the limit -/
theorem uint_parsers_agree (bits : Nat) (s : Str) (n : Nat) :
    parseUintFull bits s = .ok n ↔ parseUint bits s = some (n : Int) :=
  parseUintFull_ok bits s n

/-! ## malformed vectors -/

/-- **malformed ⇒ fatal.**  Behind any valid spellings, an unknown long or short option, a value given to a boolean
    flag (`--flag=v`), a value-taking option at the very end without its value, or any spelling whose value the
    option's `Set` rejects (`Cmd.Malformed`) makes the scanner take the fatal path — whatever follows. -/
theorem malformed_fatal (tbl : Table) (acc : Accepts) (files : Files) (sps : List Spell)
    (hv : ∀ sp ∈ sps, sp.Valid tbl acc) (l : List Str) (h : Malformed tbl acc l) :
    scan tbl acc files (sps.flatMap Spell.args ++ l) = .fatal := by
  unfold scan
  rw [run_spells tbl acc files sps hv]
  exact run_malformed tbl acc files l h _ _

/-- … and so does `Parse` as a whole (`fatal` = exit status 1 through `atexit.Exit`) -/
theorem malformed_fatal_declared (orc : Oracle) (incl : Bool) (decls : List Decl) (files : Files) (es : Entries)
    (hb : build incl decls = some es) (sps : List Spell)
    (hv : ∀ sp ∈ sps, sp.Valid (tableOf es) (acceptsOf orc incl decls)) (l : List Str)
    (h : Malformed (tableOf es) (acceptsOf orc incl decls) l) :
    parse orc incl decls files (sps.flatMap Spell.args ++ l) = .fatal := by
  unfold parse
  rw [hb]
  simp only
  rw [malformed_fatal _ _ files sps hv l h]
  rfl

/-- declarations that cannot be told apart (a duplicate name, an option without any name, a long name shorter than
    two bytes) never reach the scanner: `build = none` is the fatal exit -/
theorem bad_declarations_fatal (orc : Oracle) (incl : Bool) (decls : List Decl) (files : Files) (args : List Str)
    (h : build incl decls = none) : parse orc incl decls files args = .fatal := by
  simp [parse, h]

/-! ## response files on disk (`loadArgsFromFile`, cmdline.go:258-275)

`Cmd.readFile` is the reader on the BYTES of a file: `bufio.Scanner` lines (`Cmd.linesOf`), refused as a whole when one
line fills the scanner's 64 KiB buffer (`Cmd.tooLong`, `scanner.Err()` is `ErrTooLong`); `Cmd.filesOf` builds the `files`
parameter of the scanner from the bytes on disk (a refused or unreadable file is absent, so naming it is fatal).  The
driver runs every response file given as bytes through these definitions. -/

/-- a file written as LF-terminated lines, each shorter than the scanner's buffer, none containing LF or ending in CR,
    is loaded as exactly these lines -/
theorem response_file_loaded (ls : List Str) (h : ∀ l ∈ ls, 10 ∉ l ∧ l.getLast? ≠ some 13)
    (hs : ∀ l ∈ ls, l.length < maxToken) : readFile (ls.flatMap (fun l => l ++ [10])) = some ls :=
  readFile_lf ls h hs

/-- a line of `maxToken` bytes or more — wherever it stands in the file, whatever precedes and follows it — makes
    `loadArgsFromFile` return an error instead of lines -/
theorem response_file_line_too_long_refused (ls : List Str) (h : ∀ l ∈ ls, 10 ∉ l) (l rest : Str) (hl : 10 ∉ l)
    (hlong : maxToken ≤ l.length) : readFile (ls.flatMap (fun l => l ++ [10]) ++ (l ++ 10 :: rest)) = none :=
  readFile_long_after ls h l rest hl hlong

/-- **a response file that cannot be loaded is fatal, never silently shortened**: when every file stored under the
    path is refused (or unreadable), a reference to it where an option is expected takes the fatal path -/
theorem unloadable_response_file_fatal (tbl : Table) (acc : Accepts) (raw : List (Str × Option Str)) (seen : List Str)
    (a : PAcc) (f : Str) (args : List Str)
    (h : ∀ e ∈ raw, e.1 = f → ∀ c, e.2 = some c → readFile c = none) :
    run tbl acc (filesOf raw) seen a .look ((64 :: f) :: args) = .fatal :=
  missing_file_fatal tbl acc (filesOf raw) seen a f args (filesOf_lookup_none raw f h)

/-- **response-file split, from the bytes on disk**: valid spellings, then `@f` where the file `f` holds the arguments
    `ins` as LF-terminated lines, then anything — the same result as with the lines written out in place -/
theorem response_split_on_disk (tbl : Table) (acc : Accepts) (raw : List (Str × Option Str)) (sps : List Spell)
    (hv : ∀ sp ∈ sps, sp.Valid tbl acc) (post ins : List Str) (f : Str)
    (h : ∀ l ∈ ins, 10 ∉ l ∧ l.getLast? ≠ some 13) (hs : ∀ l ∈ ins, l.length < maxToken)
    (h1 : FilesNoRef (filesOf ((f, some (ins.flatMap (fun l => l ++ [10]))) :: raw)) f) (h3 : NoRef f post) :
    scan tbl acc (filesOf ((f, some (ins.flatMap (fun l => l ++ [10]))) :: raw))
        (sps.flatMap Spell.args ++ (64 :: f) :: post) =
      scan tbl acc (filesOf ((f, some (ins.flatMap (fun l => l ++ [10]))) :: raw))
        (sps.flatMap Spell.args ++ (ins ++ post)) :=
  response_split_scan tbl acc _ sps hv post ins f (filesOf_lookup_head raw f _ ins (readFile_lf ins h hs)) h1 h3

/-- the reader that does not look at `scanner.Err()` reads the same lines from every file the real reader accepts … -/
theorem unchecked_scanner_agrees_on_loadable (content : Str) (h : tooLong content = false) :
    readFileNoErr content = linesOf content :=
  readFileNoErr_ok content h

/-- … CONTRAST: but from a file with a line that is too long it hands the parser the lines in FRONT of that line and
    nothing else — the long line and everything behind it would be dropped silently (the real reader refuses the
    file: `response_file_line_too_long_refused`) -/
theorem contrast_unchecked_scanner_drops_arguments (ls : List Str) (h : ∀ l ∈ ls, 10 ∉ l ∧ l.getLast? ≠ some 13)
    (hs : ∀ l ∈ ls, l.length < maxToken) (l rest : Str) (hl : 10 ∉ l) (hlong : maxToken ≤ l.length) :
    readFileNoErr (ls.flatMap (fun l => l ++ [10]) ++ (l ++ 10 :: rest)) = ls ∧
    readFile (ls.flatMap (fun l => l ++ [10]) ++ (l ++ 10 :: rest)) = none :=
  ⟨readFileNoErr_truncates ls h hs l rest hl hlong, readFile_long_after ls (fun x hx => (h x hx).1) l rest hl hlong⟩

/-! ## the fatal path: `atexit.Exit` (atexit.go:78-116)

`AtExit.runHistory acts ops status` is the observable behaviour of a process that makes the `Register` / `Unregister`
calls `ops` and then calls `Exit(status)`: the exit functions that run, in order, and the exit status.  `acts f` is what
function `f` does when it runs (nothing, panic, call `Exit` again, `Register`, `Unregister`).  `Cmd.processEnd` puts the
outcome of `Parse` in front: a fatal outcome and the usage text are `Exit(1)`, the version texts `Exit(0)`, a normal
return runs nothing.  `AtExit.liveFrom 0 ops` reads the history declaratively: the n-th registration counts iff no
LATER operation unregisters the id it was given. -/

/-- `Exit` runs exactly the functions registered at the moment of the call, each once, last registered first, and ends
    the process with the status it was given — whatever the functions do while they run -/
theorem exit_runs_snapshot_in_reverse (acts : Nat → AtExit.Act) (ids : List Nat) (s : AtExit.St) (status : Nat)
    (h : s.exiting = false) :
    AtExit.exit acts ids s status = some ((s.pairs.map (·.2)).reverse, status) :=
  AtExit.exit_eq acts ids s status h

/-- what the exit functions do (panic, recursive `Exit` with another status, `Register`, `Unregister` of a function that
    has not run yet) changes neither which functions run nor the exit status -/
theorem exit_functions_cannot_change_the_exit (acts acts' : Nat → AtExit.Act) (ops : List AtExit.Op) (status : Nat) :
    AtExit.runHistory acts ops status = AtExit.runHistory acts' ops status := by
  rw [AtExit.runHistory_eq, AtExit.runHistory_eq]

/-- **after any history**: the functions that run are those whose registration no later `Unregister` names, in reverse
    order of registration; the status is the one given -/
theorem exit_after_history (acts : Nat → AtExit.Act) (ops : List AtExit.Op) (status : Nat) :
    AtExit.runHistory acts ops status = some ((AtExit.liveFrom 0 ops).reverse, status) :=
  AtExit.runHistory_eq acts ops status

/-- the ids `Register` returns are 1, 2, 3, … — never reused, so `Unregister(id)` can only remove the registration that
    was given this id -/
theorem register_ids_never_reused (ops : List AtExit.Op) :
    ∃ m, (AtExit.applyOps ops).2 = (List.range m).map (· + 1) :=
  AtExit.ids_eq ops

/-- **malformed ⇒ the fatal EXIT path**: a malformed vector ends the process through `atexit.Exit(1)` — every exit
    function registered (and not unregistered) before `Parse` runs, last registered first, and the status is 1 -/
theorem malformed_runs_exit_functions (orc : Oracle) (incl : Bool) (decls : List Decl) (files : Files) (es : Entries)
    (hb : build incl decls = some es) (sps : List Spell)
    (hv : ∀ sp ∈ sps, sp.Valid (tableOf es) (acceptsOf orc incl decls)) (l : List Str)
    (h : Malformed (tableOf es) (acceptsOf orc incl decls) l) (acts : Nat → AtExit.Act) (ops : List AtExit.Op) :
    processEnd acts ops (parse orc incl decls files (sps.flatMap Spell.args ++ l)) =
      some ((AtExit.liveFrom 0 ops).reverse, 1) := by
  rw [malformed_fatal_declared orc incl decls files es hb sps hv l h]
  simp only [processEnd, Outcome.exitStatus]
  exact AtExit.runHistory_eq acts ops 1

/-- … while a valid vector (no built-in option among the assignments) makes `Parse` return: no exit function runs -/
theorem valid_vector_returns (orc : Oracle) (incl : Bool) (decls : List Decl) (files : Files) (es : Entries)
    (hb : build incl decls = some es) (sps : List Spell)
    (hv : ∀ sp ∈ sps, sp.Valid (tableOf es) (acceptsOf orc incl decls)) (t : Tail) (ht : t.OK)
    (hu : ∀ s ∈ sps.flatMap Spell.sets, firstUserId ≤ s.1) (acts : Nat → AtExit.Act) (ops : List AtExit.Op) :
    processEnd acts ops (parse orc incl decls files (sps.flatMap Spell.args ++ t.args)) = none := by
  rw [parse_render_declared orc incl decls files es hb sps hv t ht hu]
  rfl

/-- a valid vector that also spells built-in options: the help / version decision (cmdline.go:180-191) is made on
    exactly the spelled assignments, after the whole vector has been scanned -/
theorem parse_render_with_builtins (orc : Oracle) (incl : Bool) (decls : List Decl) (files : Files) (es : Entries)
    (hb : build incl decls = some es) (sps : List Spell)
    (hv : ∀ sp ∈ sps, sp.Valid (tableOf es) (acceptsOf orc incl decls)) (t : Tail) (ht : t.OK) :
    parse orc incl decls files (sps.flatMap Spell.args ++ t.args) = finish (.ok ⟨sps.flatMap Spell.sets, t.rest⟩) :=
  parse_render_finish orc incl decls files es hb sps hv t ht

/-- `-h` / `--help` anywhere among valid assignments: the usage text, then `atexit.Exit(1)` — the registered exit
    functions run here too -/
theorem help_exits_through_atexit (orc : Oracle) (incl : Bool) (decls : List Decl) (files : Files) (es : Entries)
    (hb : build incl decls = some es) (sps : List Spell)
    (hv : ∀ sp ∈ sps, sp.Valid (tableOf es) (acceptsOf orc incl decls)) (t : Tail) (ht : t.OK)
    (hh : ∃ s ∈ sps.flatMap Spell.sets, s.1 = idHelp) (acts : Nat → AtExit.Act) (ops : List AtExit.Op) :
    processEnd acts ops (parse orc incl decls files (sps.flatMap Spell.args ++ t.args)) =
      some ((AtExit.liveFrom 0 ops).reverse, 1) := by
  rw [parse_render_finish orc incl decls files es hb sps hv t ht, finish_help _ hh]
  simp only [processEnd, Outcome.exitStatus]
  exact AtExit.runHistory_eq acts ops 1

/-- CONTRAST: an `Exit` that walked the live registry instead of a snapshot would let an exit function cancel one that
    has not run yet — function 1 unregisters function 0: the real `Exit` runs 1 then 0, the live walk only 1 -/
theorem contrast_live_registry_skips_function :
    AtExit.runHistory (fun f => if f = 1 then .unreg 0 else .plain) [.reg 0, .reg 1] 1 = some ([1, 0], 1) ∧
    AtExit.exitLive (fun f => if f = 1 then .unreg 0 else .plain) (AtExit.applyOps [.reg 0, .reg 1]).2 2
      (AtExit.applyOps [.reg 0, .reg 1]).1 = [1] := by
  decide

/-! ## the hypotheses are satisfiable (non-vacuity)

one table with a string option `n`/`name` (id 3) and a flag `a` (id 4); the vector `-an=x --name y -- -n`. -/

example : ∀ sp ∈ exSpells, sp.Valid exTbl (fun _ _ => true) := exValid

example : scan exTbl (fun _ _ => true) [] (exSpells.flatMap Spell.args ++ (Tail.sep [[45, 110]]).args) =
    .ok ⟨[(4, strTrue), (3, [120]), (3, [121])], [[45, 110]]⟩ :=
  parse_render exTbl _ [] exSpells exValid (Tail.sep [[45, 110]]) trivial

example : Malformed exTbl (fun _ _ => true) [[45, 45, 110, 111]] :=
  .unknownLong [110, 111] [] (by simp) (by simp [splitEq, exTbl, tableOf, List.lookup])

/-! the hypotheses of `response_split_scan`: a file `f` holding `-a`, referenced once -/
example : FilesNoRef [([102], [[45, 97]])] [102] := by
  intro e he
  simp only [List.mem_cons, List.mem_nil_iff, or_false] at he
  subst he
  simp [NoRef]

example : scan exTbl (fun _ _ => true) [([102], [[45, 97]])] [[64, 102], [120]] =
    scan exTbl (fun _ _ => true) [([102], [[45, 97]])] [[45, 97], [120]] :=
  response_split_scan exTbl _ _ [] (by simp) [[120]] [[45, 97]] [102] rfl
    (by intro e he; simp only [List.mem_cons, List.mem_nil_iff, or_false] at he; subst he; simp [NoRef])
    (by simp [NoRef])

/-! the hypotheses of `parse_render_declared` / `variables_after_parse` with a REAL declaration list (`build` evaluated,
    the typed `Set` of the declared kinds as acceptance): `-n x --name=y p -a` on a string option n/name and a flag a -/
example : build false exDecls = some exEs := exBuild

example : parse [] false exDecls [] [[45, 110], [120], [45, 45, 110, 97, 109, 101, 61, 121], [112], [45, 97]] =
    .done ⟨[(3, [120]), (3, [121])], [[112], [45, 97]]⟩ :=
  parse_render_declared [] false exDecls [] exEs exBuild _ exDeclValid (Tail.plain [112] [[45, 97]])
    ⟨Or.inr (by decide), by decide⟩ (by decide)

example : (applySets [] false exDecls (initStore [] exDecls) [(3, [120]), (3, [121])]).get 3 = ["79"] ∧
    (applySets [] false exDecls (initStore [] exDecls) [(3, [120]), (3, [121])]).get 4 = ["false"] := by decide

/-! a response file whose only line is 64 KiB of `x`: refused (hypotheses of `response_file_line_too_long_refused`) -/
example : readFile (List.replicate maxToken 120 ++ 10 :: []) = none := by
  have := response_file_line_too_long_refused [] (by simp) (List.replicate maxToken 120) []
    (by simp [List.mem_replicate]) (by simp)
  simpa using this

/-! a history: two registrations, the first unregistered again, an `Unregister` of an id never handed out -/
example : AtExit.liveFrom 0 [.reg 5, .reg 6, .unreg 0, .unreg 7] = [6] := by decide

example : AtExit.runHistory (fun _ => .reExit) [.reg 5, .reg 6, .unreg 0, .unreg 7] 1 = some ([6], 1) :=
  exit_after_history _ _ _

/-! kernel-evaluated instances of the conversions: `1.5h` through the float64 fraction path, the two ends of the
    duration range, the float32 tie 2^24+1 (to even), a float64 NaN as Go's `math.NaN()` bit pattern, and the one place
    the oracle is still consulted (a hexadecimal float) -/
example : parseDuration [49, 46, 53, 104] = some 5400000000000 := parseDuration_frac_hours
example : parseDuration [45, 57, 50, 50, 51, 51, 55, 50, 48, 51, 54, 56, 53, 52, 55, 55, 53, 56, 48, 56, 110, 115] =
    some (-9223372036854775808) := parseDuration_min
example : parseDuration [57, 50, 50, 51, 51, 55, 50, 48, 51, 54, 56, 53, 52, 55, 55, 53, 56, 48, 56, 110, 115] = none :=
  parseDuration_over
example : typed [] .f32 [49, 54, 55, 55, 55, 50, 49, 55] = some "4b800000" := by decide
example : typed [] .f64 [110, 97, 110] = some "7ff8000000000001" := by decide
example : typed [] .f64 [48, 120, 49, 112, 45, 50] = none ∧
    typed [(tagF64, [48, 120, 49, 112, 45, 50], "3fd0000000000000")] .f64 [48, 120, 49, 112, 45, 50] =
      some "3fd0000000000000" := by decide

/-! below the bound the fuel does matter (so `duration_fuel_suffices` needs its hypotheses): `1h1m` with fuel 1 and 4 -/
example : durLoop 1 [49, 104, 49, 109] 0 = none ∧ durLoop 4 [49, 104, 49, 109] 0 = some 3660000000000 := by decide

end C10
