import Lemmas.Cmdline
/-! # C10 — command-line parsing assigns exactly what the arguments say

`Cmd.scan tbl acc files args` is the model of the argument loop of `(*CmdLine).Parse` (Model/Cmdline.lean): the same
definition the correspondence driver executes against the Go code on every check.  `tbl` is the option table
(name ↦ (id, isBool); long and one-rune names in one map, as in the source), `acc id raw` abstracts `Value.Set`
(does the option accept the raw string), `files` are the response files.  The result is `fatal` or the list of
recorded assignments `(id, raw)` in order plus the remaining arguments. -/
namespace C10
open Cmd

/-- **parse ∘ render**: for every table, every list of assignments each written in any valid spelling
    (`--name=value`, `--name value`, `-n value`, `-nvalue`, `-n=value`, `--flag`, grouped flags `-abc`, and grouped
    flags in front of a short value option), followed by nothing, by `--` and arbitrary arguments, or by positionals
    whose first does not start with `-`/`@`: the scanner records exactly the assignments, in order, and returns
    exactly the positionals — whatever response files exist. -/
theorem parse_render (tbl : Table) (acc : Accepts) (files : Files) (sps : List Spell)
    (hv : ∀ sp ∈ sps, sp.Valid tbl acc) (t : Tail) (ht : t.OK) :
    scan tbl acc files (sps.flatMap Spell.args ++ t.args) = .ok ⟨sps.flatMap Spell.sets, t.rest⟩ := by
  unfold scan
  rw [run_render tbl acc files sps hv t ht]
  simp

end C10
