import Lemmas.RateLimiterWitness
import Lemmas.RateLimiterCapMax
import Lemmas.RateLimiterBounds
import Lemmas.RateLimiterExec
import Lemmas.RateLimiterInt
import Lemmas.RateLimiterAnswers
import Lemmas.RateLimiterContrast
import Lemmas.RateLimiterWitness2
import Lemmas.RateLimiterWindow
import Lemmas.RateLimiterRW
import Lemmas.RateLimiterDec
/-! # C16 — the rate limiter never grants more than any applicable cap and never hangs

Property theorems only.  The model is `Model/RateLimiter.lean`: the transition relation `RL.Step`, in which
`controller.lock` is a field of the state — taken and released by explicit steps of the ticker goroutine (select / lock /
body / unlock), of the goroutine in root `Close` (lock / mark / unlock / send on the unbuffered `done`) and of the callers
of the API (lock / body-and-unlock) — and a step that needs the lock is enabled only while it is free; `RL.StepU`, the
same system with root `Close` in the order of the code before commit 3e6b23a (send while holding the lock); the named
single steps `RL.micro`, schedules `RL.runMicros` and the fused scheduler `RL.exec`, which the driver `drv_c16` runs
against the Go code and which only produce runs of `RL.Step` (`exec_is_run`, `schedule_is_run`).
`Reachable c s`: `s` is reachable from `rate.New(c, period)` by ANY interleaving of the steps — all trees (children may
have larger caps than their parents), all request streams, `Close` and `SetCap` at any point, the lock held by anybody.
`gsum p x s.glog` is the total amount granted in period `p` to limiter `x` and all its descendants, read off the log of
grants; `s.capMax p x` is the largest capacity `x` had at any moment of period `p`.

The history fields (`answered`, `glog`, `capMax`, …) are written by the model in the same atomic step as the action they
record: `answer_exactly_once`, `nil_only_after_charge`, `closed_never_granted` say that the bookkeeping the model does
while it transcribes the code's critical sections has these properties over all interleavings; that the code's
critical sections write what the model writes is the transcription, checked by the correspondence run. -/
namespace C16
open RL

/-- the executable scheduler run by the driver only produces runs of the transition relation the theorems are about -/
theorem exec_is_run (s : S) (op : Op) : Steps s (exec s op) := exec_steps s op

/-- … and so does every schedule of named single steps (the driver's area `window` runs the interleavings of a tick,
    root `Close` and API calls through `runMicros`) -/
theorem schedule_is_run (s : S) (ms : List Micro) : Steps s (runMicros s ms) := runMicros_steps s ms

/-- so every state the driver visits is covered by the theorems below -/
theorem run_reachable (c : Nat) (ops : List Op) : Reachable c (run (init c) ops) := by
  unfold run
  generalize hs : init c = s
  have hr : Reachable c s := hs ▸ Reachable.init
  clear hs
  induction ops generalizing s with
  | nil => exact hr
  | cons op ops ih =>
    simp only [List.foldl_cons]
    apply ih
    exact hr.steps (exec_steps s op)

/-- **granted ≤ the cap in force**, with `SetCap` anywhere in the run: in every period `p` the total granted by a
    limiter together with all its descendants is at most the largest capacity the limiter had during that period -/
theorem granted_le_max_cap_in_force (c : Nat) (s : S) (h : Reachable c s) (p x : Nat) :
    gsum p x s.glog ≤ s.capMax p x := by
  have ci := capMaxInv h
  rcases Nat.lt_trichotomy p s.ticks with hp | hp | hp
  · exact ci.past p hp x
  · subst hp; exact ci.cur x
  · rw [gsum_zero_of_period]
    · exact Nat.zero_le _
    · intro g hg; have := (grantInv h).period_le g hg; omega

/-- … and at most the largest capacity each of its ancestors had during that period -/
theorem granted_le_max_cap_of_chain (c : Nat) (s : S) (h : Reachable c s) (p l : Nat) :
    ∀ y ∈ s.chain l, gsum p l s.glog ≤ s.capMax p y := by
  intro y hy
  have t := tree h
  have gi := grantInv h
  have key : ∀ g ∈ s.glog, l ∈ g.chain → y ∈ g.chain := by
    intro g hg hlg
    rw [(gi.chain_eq g hg).2] at hlg ⊢
    exact t.trans _ _ _ hlg hy
  refine Nat.le_trans ?_ (granted_le_max_cap_in_force c s h p y)
  generalize s.glog = log at key
  induction log with
  | nil => exact Nat.le_refl _
  | cons g gs ih =>
    have k1 := key g List.mem_cons_self
    have k2 := ih (fun g' hg' => key g' (List.mem_cons_of_mem _ hg'))
    simp only [gsum]
    by_cases hp : g.period = p
    · by_cases hm : l ∈ g.chain
      · simp only [hp, hm, k1 hm, and_self, if_true]; omega
      · simp only [hp, hm, and_false, if_false, true_and]; split <;> omega
    · simp only [hp, false_and, if_false]; omega

/-- the current cap IS the largest cap of the current period as long as `SetCap` has not been called: the bounds
    without `SetCap` below are the special case -/
theorem max_cap_in_force_is_cap (c : Nat) (s : S) (h : Reachable c s) (hz : s.setCaps = 0) (x : Nat) :
    s.capMax s.ticks x = s.cap x ∧ gsum s.ticks x s.glog ≤ s.cap x := by
  have e := capMax_cur_eq_cap h hz x
  exact ⟨e, e ▸ granted_le_max_cap_in_force c s h s.ticks x⟩

/-- **granted ≤ cap** (no `SetCap` so far): in every period `p` the total granted by a limiter together with all its
    descendants is at most its capacity -/
theorem granted_le_cap (c : Nat) (s : S) (h : Reachable c s) (hz : s.setCaps = 0) (p x : Nat) :
    gsum p x s.glog ≤ s.cap x :=
  gsum_le_cap h hz p x

/-- … hence at most the cap of each of its ancestors: a child never consumes more than the smallest cap among
    itself and its ancestors (`capOf s l true` is `Cap(true)`) -/
theorem granted_le_min_cap_of_chain (c : Nat) (s : S) (h : Reachable c s) (hz : s.setCaps = 0) (p l : Nat) :
    (∀ x ∈ s.chain l, gsum p l s.glog ≤ s.cap x) ∧ gsum p l s.glog ≤ capOf s l true := by
  have t := tree h
  have gi := grantInv h
  have mono : ∀ x ∈ s.chain l, gsum p l s.glog ≤ gsum p x s.glog := by
    intro x hx
    have key : ∀ g ∈ s.glog, l ∈ g.chain → x ∈ g.chain := by
      intro g hg hlg
      rw [(gi.chain_eq g hg).2] at hlg ⊢
      exact t.trans _ _ _ hlg hx
    generalize s.glog = log at key
    induction log with
    | nil => exact Nat.le_refl _
    | cons g gs ih =>
      have k1 := key g List.mem_cons_self
      have k2 := ih (fun g' hg' => key g' (List.mem_cons_of_mem _ hg'))
      simp only [gsum]
      by_cases hp : g.period = p
      · by_cases hm : l ∈ g.chain
        · simp only [hp, hm, k1 hm, and_self, if_true]; omega
        · simp only [hp, hm, and_false, if_false, true_and]; split <;> omega
      · simp only [hp, false_and, if_false]; omega
  have each : ∀ x ∈ s.chain l, gsum p l s.glog ≤ s.cap x :=
    fun x hx => Nat.le_trans (mono x hx) (gsum_le_cap h hz p x)
  refine ⟨each, ?_⟩
  show gsum p l s.glog ≤ effCap s.cap (s.chain l) (s.cap l)
  exact (le_effCap_iff _ _ _ _).mpr ⟨gsum_le_cap h hz p l, each⟩

/-- **`Cap(true)` IS the smallest cap among the limiter and its ancestors** (the "smallest cap" of the property is what the
    exported `Cap(applyParentCaps = true)` reports, and what `Use` compares the amount with): it is at most the capacity
    of every limiter of the chain and it is the capacity of one of them; `Cap(false)` is the limiter's own capacity -/
theorem cap_true_is_smallest_cap_of_chain (c : Nat) (s : S) (h : Reachable c s) (l : Nat) (hl : l < s.n) :
    (∀ x ∈ s.chain l, capOf s l true ≤ s.cap x) ∧ (∃ x ∈ s.chain l, capOf s l true = s.cap x) ∧
    capOf s l false = s.cap l := by
  have hself := (tree h).self l hl
  have hle := (le_effCap_iff s.cap (s.chain l) (s.cap l) (effCap s.cap (s.chain l) (s.cap l))).mp (Nat.le_refl _)
  refine ⟨hle.2, ?_, rfl⟩
  rcases effCap_attained s.cap (s.chain l) (s.cap l) with h' | h'
  · exact ⟨l, hself, h'⟩
  · exact h'

/-- **no overflow** (bridge to Go's `int`; no bound such as 2^62 is assumed on the capacities): `s.capHi` is the largest
    capacity ever passed to `New` / `SetCap`.  Every capacity, every `used`, every `last` and every queued amount stays
    ≤ `capHi`; so when the capacities are Go `int`s (`capHi ≤ maxInt`, a fact of the type) all of them are in
    `[0, MaxInt]`: each `capacity - used` the code computes lies in `[-MaxInt, MaxInt]` and is exact, and `used += amount`
    is executed only after `amount ≤ capacity - used` was established, so it cannot wrap.  The model's unbounded
    naturals and the code's `int`s therefore describe the same values, up to and including `MaxInt`. -/
theorem int_arithmetic_exact (c : Nat) (s : S) (h : Reachable c s) (hty : s.capHi ≤ maxInt) :
    (∀ x, s.cap x ≤ maxInt) ∧ (∀ x, s.used x ≤ maxInt) ∧ (∀ x, s.last x ≤ maxInt) ∧
    (∀ r ∈ s.waiting, r.amt ≤ maxInt) ∧ (s.setCaps = 0 → ∀ x, s.used x ≤ s.cap x) := by
  obtain ⟨hc, hu, hl, hw⟩ := bounded h
  exact ⟨fun x => Nat.le_trans (hc x) hty, fun x => Nat.le_trans (hu x) hty, fun x => Nat.le_trans (hl x) hty,
         fun r hr => Nat.le_trans (hw r hr) hty, capInv h⟩

/-- a grant is charged only where it fits: after `Use` grants `amt` to `l`, every limiter on `l`'s chain has
    `used ≤ capacity` for the capacities then in force (also with `SetCap` calls before) -/
theorem grant_within_caps_in_force (s : S) (l amt : Nat) (hf : fits s.cap s.used (s.chain l) amt = true) :
    ∀ x ∈ s.chain l, (doUseGrant s l amt).used x ≤ s.cap x := by
  intro x hx
  show charge s.used (s.chain l) amt x ≤ s.cap x
  simp only [charge, hx, if_true]
  exact (fits_iff _ _ _ _).mp hf x hx

/-- **LastUsed**: for a limiter that is still linked into the tree, `LastUsed()` is the amount granted to it and its
    descendants in the previous period (0 before the first tick) -/
theorem lastUsed_spec (c : Nat) (s : S) (h : Reachable c s) (x : Nat) (hx : x < s.n) (hr : resets s x = true) :
    s.last x = if s.ticks = 0 then 0 else gsum (s.ticks - 1) x s.glog :=
  (grantInv h).last_eq x hx hr

/-- an open limiter is still linked (`resets`), so `lastUsed_spec` applies to every limiter that is not closed -/
theorem open_is_linked (c : Nat) (s : S) (h : Reachable c s) (x : Nat) (hx : x < s.n) (ho : s.closed x = false) :
    resets s x = true :=
  open_resets (tree h) x ho x ((tree h).self x hx)

/-- **LastUsed of a limiter unlinked by its own `Close`** (the reading recorded for `lastUsed_spec`): once a limiter or one
    of its ancestors has been removed from its parent's `children` it is no longer reached by `root.reset()` — no step of
    any goroutine changes its `last` any more (it keeps reporting the period before the `Close`), and it stays unlinked -/
theorem unlinked_last_frozen (c : Nat) (s s' : S) (h : Reachable c s) (st : Step s s') (x : Nat) (hx : x < s.n)
    (hu : resets s x = false) : s'.last x = s.last x ∧ resets s' x = false := by
  have t := tree h
  obtain ⟨y, hy, huy⟩ := (resets_false_iff s x).mp hu
  have hne : x ≠ s.n := by omega
  cases st <;> first
    | exact ⟨rfl, hu⟩
    | skip
  · refine ⟨?_, (resets_false_iff _ x).mpr ⟨y, ?_, ?_⟩⟩
    · simp [unlock, doNewChild, upd, hne]
    · simpa [unlock, doNewChild, upd, hne] using hy
    · have : y ≠ s.n := by have := (t.lt x y hy).1; omega
      simpa [unlock, doNewChild, upd, this] using huy
  · refine ⟨rfl, (resets_false_iff _ x).mpr ⟨y, hy, ?_⟩⟩
    simp only [unlock, doCloseChild, upd]
    split
    · rfl
    · exact huy
  · refine ⟨?_, hu⟩
    simp [doTickRuns, hu]

/-- **exactly one answer**: every request issued so far is either still in the queue or has exactly one answer, and
    never both; requests not yet issued have none -/
theorem answer_exactly_once (c : Nat) (s : S) (h : Reachable c s) (id : Nat) :
    (s.waiting.map (·.id)).count id + (s.answered.map (·.1)).count id = if id < s.nextReq then 1 else 0 := by
  have := exactlyOnce h id
  simpa [ids, List.count_append] using this

/-- … and once the ticker goroutine has ended (after root `Close`) the queue is empty: every request ever issued
    has exactly one answer -/
theorem answered_at_end (c : Nat) (s : S) (h : Reachable c s) (he : s.tpc = .tend) (id : Nat) (hid : id < s.nextReq) :
    (s.answered.map (·.1)).count id = 1 := by
  have := answer_exactly_once c s h id
  rw [waiting_empty_at_end h he] at this
  simpa [hid] using this

/-- **nil only once charged**: a `nil` answer has an entry in the grant log (for a limiter of the tree, charged to
    its whole chain) … -/
theorem nil_only_after_charge (c : Nat) (s : S) (h : Reachable c s) (id : Nat) (hok : (id, Ans.ok) ∈ s.answered) :
    ∃ g ∈ s.glog, g.id = id ∧ g.lim < s.n ∧ g.chain = s.chain g.lim := by
  obtain ⟨g, hg, hid⟩ := ok_granted h id hok
  exact ⟨g, hg, hid, (grantInv h).chain_eq g hg⟩

/-- … and the log is what `used` accounts for: for every linked limiter `used` is exactly the sum of the grants of
    the current period to it and its descendants (for unlinked, closed ones it is at least that) -/
theorem used_is_sum_of_grants (c : Nat) (s : S) (h : Reachable c s) (x : Nat) :
    gsum s.ticks x s.glog ≤ s.used x ∧ (x < s.n → resets s x = true → gsum s.ticks x s.glog = s.used x) :=
  ⟨(grantInv h).cur_le x, (grantInv h).cur_eq x⟩

/-- nothing — not even an amount of 0 — is ever granted to a limiter that is closed at that moment -/
theorem closed_never_granted (s s' : S) (st : Step s s') (g : Grant) (hg : g ∈ s'.glog) (hnew : g ∉ s.glog) :
    s.closed g.lim = false := by
  rcases grant_open st g hg with h | h
  · exact absurd h hnew
  · exact h

/-- **immediate errors** (`exec` in a state in which nobody holds the lock): a negative amount is refused; on a closed
    limiter EVERY non-negative amount (0 included) is answered "closed"; on an open limiter an amount above `Cap(true)`
    — the smallest capacity among the limiter and its ancestors — is answered with the cap error; all at once, nothing
    is queued, nothing is charged -/
theorem immediate_errors (s : S) (hf : s.holder = .free) (l : Nat) (amt : Int) (hl : l < s.n) :
    (amt < 0 → exec s (.use l amt) = answer s .errNeg) ∧
    (0 ≤ amt → s.closed l = true → exec s (.use l amt) = answer s .errClosed) ∧
    (0 < amt → s.closed l = false → amt.toNat > capOf s l true → exec s (.use l amt) = answer s .errCap) :=
  ⟨exec_use_neg s hf l amt hl, exec_use_closed s hf l amt hl, exec_use_toobig s hf l amt hl⟩

/-- **exceeds the cap ⇒ error at once**, for ANY applicable cap (commit 8ceae61; formerly a reading: a request above an
    ancestor's cap waited until `Close`): an amount above the capacity of the limiter itself or of any limiter on its
    chain is refused immediately -/
theorem use_above_chain_cap_fails_at_once (s : S) (hf : s.holder = .free) (l : Nat) (amt : Int) (hl : l < s.n)
    (ha : 0 < amt) (ho : s.closed l = false) (hb : amt.toNat > s.cap l ∨ ∃ x ∈ s.chain l, amt.toNat > s.cap x) :
    exec s (.use l amt) = answer s .errCap := by
  apply exec_use_toobig s hf l amt hl ha ho
  apply Classical.byContradiction
  intro hn
  have := (le_effCap_iff s.cap (s.chain l) (s.cap l) amt.toNat).mp (by omega)
  rcases hb with hb | ⟨x, hx, hb⟩
  · omega
  · have := this.2 x hx; omega

/-- the same at the level of single steps, for ANY reachable state: whoever holds the lock as a caller of `Use` on a
    closed limiter can only answer "closed" -/
theorem use_on_closed_fails (s : S) (l amt : Nat) (hl : l < s.n) (ha : s.holder = .api) (hc : s.closed l = true) :
    micro s (.use l amt) = unlock (answer s .errClosed) := by
  simp [micro, hl, ha, hc]

/-- `Use(0)` on an open limiter answers nil at once (a grant of 0: no limiter's `used` changes) -/
theorem use_zero_open (s : S) (hf : s.holder = .free) (l : Nat) (hl : l < s.n) (ho : s.closed l = false) :
    exec s (.use l 0) = doUseZero s l ∧ (doUseZero s l).used = s.used ∧ (doUseZero s l).waiting = s.waiting :=
  ⟨exec_use_zero s hf l hl ho, rfl, rfl⟩

/-- the other two outcomes of `Use`: granted at once exactly when there is room along the whole chain, queued (at
    the end of the queue) otherwise -/
theorem use_grants_iff_room (s : S) (hf : s.holder = .free) (l : Nat) (amt : Int) (hl : l < s.n) (ha : 0 < amt)
    (ho : s.closed l = false) (hb : amt.toNat ≤ capOf s l true) :
    exec s (.use l amt) =
      if fits s.cap s.used (s.chain l) amt.toNat then doUseGrant s l amt.toNat else doUseWait s l amt.toNat :=
  exec_use_room s hf l amt hl ha ho hb

/-- **FIFO**: the queue is in arrival order; a tick serves it front to back — what happens to a request depends only
    on the requests ahead of it (`service (pre ++ post)` = serve `pre`, then `post` with what `pre` left) — and the
    requests that keep waiting keep their order -/
theorem waiting_served_fifo_as_capacity_returns (c : Nat) (s : S) (h : Reachable c s) :
    s.waiting.Pairwise (fun a b => a.id < b.id) ∧
    (∀ pre post : List Req, ∀ (u : Nat → Nat), ∀ p,
      let t1 := service s.cap s.chain s.closed p u pre
      let t2 := service s.cap s.chain s.closed p t1.used post
      service s.cap s.chain s.closed p u (pre ++ post) =
        ⟨t2.used, t1.waiting ++ t2.waiting, t1.answers ++ t2.answers, t1.grants ++ t2.grants⟩) ∧
    (doTickRuns s).waiting.Sublist s.waiting :=
  ⟨queue_sorted h, fun pre post u p => service_append _ _ _ p u pre post, service_waiting_sub _ _ _ _ _ _⟩

/-- **every tick answers the head of the queue**, whatever it is: "closed" if its limiter is closed, the cap error if
    its amount is (now) above the smallest cap of its chain, and otherwise it is granted — after the reset it fits; the
    requests behind it keep their order -/
theorem head_of_queue_answered_at_tick (c : Nat) (s : S) (h : Reachable c s) (r : Req) (rest : List Req)
    (hw : s.waiting = r :: rest) :
    (doTickRuns s).waiting.Sublist rest ∧ ∃ a, (r.id, a) ∈ (doTickRuns s).answered :=
  head_answered h r rest hw

/-- **every request is answered** (no exception any more): on every infinite run — any interleaving — on which time
    passes and the ticker goroutine is scheduled (`TicksServed`: until the queue has been drained after root `Close`,
    the body of a tick or that drain is run again and again), a request that is waiting leaves the queue at some later
    instant and then has exactly one answer.  (With `k` requests ahead of it: after at most `k + 1` served ticks.) -/
theorem every_request_answered (c : Nat) (run : Nat → S) (r : IsRun c run) (ts : TicksServed run) (i id : Nat)
    (hw : Waiting (run i) id) :
    ∃ j, i ≤ j ∧ ¬ Waiting (run j) id ∧ ((run j).answered.map (·.1)).count id = 1 :=
  eventually_answered r ts i id hw

/-- **as capacity returns**: at a tick, the request at the head of the queue is GRANTED if its limiter is open and its
    amount is within the capacity of every limiter on its chain -/
theorem head_of_queue_served_at_tick (c : Nat) (s : S) (h : Reachable c s) (r : Req) (rest : List Req)
    (hw : s.waiting = r :: rest) (ho : s.closed r.lim = false) (hfit : ∀ x ∈ s.chain r.lim, r.amt ≤ s.cap x) :
    (r.id, Ans.ok) ∈ (doTickRuns s).answered :=
  head_served h r rest hw ho hfit

/-- **Close marks the subtree**: after `Close` of limiter `l` (root or child, open or already closed) `l` and every
    descendant are closed.  (`exec`, in a state in which nobody holds the lock; for an open root the scheduler performs
    the whole `Close`, which needs the closer not to have started and the ticker goroutine at its `select`.  For
    arbitrary interleavings: `root_close_closes_all`, `closed_stays_closed` and `RL.doCloseChild`.) -/
theorem close_marks_subtree (c : Nat) (s : S) (h : Reachable c s) (hf : s.holder = .free) (l : Nat) (hl : l < s.n)
    (hsched : l ≠ 0 ∨ s.closed 0 = true ∨ (s.cpc = .idle ∧ s.tpc = .sel)) :
    (∀ x, l ∈ s.chain x → (exec s (.close l)).closed x = true) ∧ (exec s (.close l)).closed l = true := by
  have t := tree h
  have main : ∀ x, l ∈ s.chain x → (exec s (.close l)).closed x = true := by
    intro x hx
    by_cases h0 : l = 0
    · subst h0
      cases hc : s.closed 0 with
      | true => rw [exec_close_root_closed s hf hl hc]; exact t.down x 0 hc hx
      | false =>
        rcases hsched with h1 | h1 | h1
        · exact absurd rfl h1
        · rw [hc] at h1; cases h1
        · rw [exec_close_root s hf hl hc h1.1 h1.2]; rfl
    · cases hc : s.closed l with
      | true => rw [exec_closeChild_closed s hf l hl h0 hc]; exact t.down x l hc hx
      | false =>
        rw [exec_closeChild_open s hf l hl h0 hc]
        show (s.closed x || decide (l ∈ s.chain x)) = true
        simp [hx]
  exact ⟨main, main l (t.self l hl)⟩

/-- **Close marks the subtree and fails the pending requests** (the two halves together): after `Close l` everything
    below `l` is closed, and every request then waiting on a closed limiter is answered "closed" by the next tick of
    the ticker goroutine or by its final drain, whichever comes first -/
theorem close_marks_subtree_and_fails_pending (c : Nat) (s : S) (h : Reachable c s) (hf : s.holder = .free) (l : Nat)
    (hl : l < s.n) (hsched : l ≠ 0 ∨ s.closed 0 = true ∨ (s.cpc = .idle ∧ s.tpc = .sel)) :
    let s' := exec s (.close l)
    (∀ x, l ∈ s.chain x → s'.closed x = true) ∧
    (∀ r ∈ s'.waiting, s'.closed r.lim = true →
      (r.id, Ans.errClosed) ∈ (doTickRuns s').answered ∧ (r.id, Ans.errClosed) ∈ (doDrain s').answered) := by
  refine ⟨(close_marks_subtree c s h hf l hl hsched).1, ?_⟩
  intro r hr hc
  exact ⟨List.mem_append_left _ (service_closed _ _ _ _ _ _ r hr hc),
         List.mem_append_left _ (List.mem_map.mpr ⟨r, hr, rfl⟩)⟩

/-- root `Close` as performed by the scheduler: everything is closed, the queue is drained, the goroutine has ended,
    `Close` has returned and the lock is free -/
theorem root_close_completes (c : Nat) (s : S) (h : Reachable c s) (hf : s.holder = .free) (ho : s.closed 0 = false)
    (hsched : s.cpc = .idle ∧ s.tpc = .sel) :
    let s' := exec s (.close 0)
    (∀ x, s'.closed x = true) ∧ s'.waiting = [] ∧ s'.tpc = .tend ∧ s'.cpc = .ret ∧ s'.holder = .free ∧
    (∀ r ∈ s.waiting, (r.id, Ans.errClosed) ∈ s'.answered) := by
  have hn : 0 < s.n := init_n_pos h
  simp only [exec_close_root s hf hn ho hsched.1 hsched.2]
  refine ⟨fun _ => rfl, rfl, rfl, rfl, rfl, ?_⟩
  intro r hr
  exact List.mem_append_left _ (List.mem_map.mpr ⟨r, hr, rfl⟩)

/-- closed is for ever -/
theorem closed_stays_closed (s s' : S) (st : Step s s') (x : Nat) (hx : x < s.n) (h : s.closed x = true) :
    s'.closed x = true := closed_mono st x hx h

/-- **Close fails the pending requests**: a request waiting on a closed limiter is answered "closed" by the next
    tick, and every waiting request is answered "closed" by the drain that follows root `Close`; with
    `answer_exactly_once` that is its only answer -/
theorem close_fails_pending (s : S) (r : Req) (hr : r ∈ s.waiting) :
    (s.closed r.lim = true → (r.id, Ans.errClosed) ∈ (doTickRuns s).answered) ∧
    (r.id, Ans.errClosed) ∈ (doDrain s).answered := by
  constructor
  · intro hc
    exact List.mem_append_left _ (service_closed _ _ _ _ _ _ r hr hc)
  · exact List.mem_append_left _ (List.mem_map.mpr ⟨r, hr, rfl⟩)

/-- **lowered cap on the chain**: a request that is waiting when `SetCap` — on its limiter or on an ANCESTOR — lowers the
    smallest cap of its chain below its amount is answered with the cap error by the next tick (and, by
    `answer_exactly_once`, only then) -/
theorem queued_above_lowered_chain_cap_fails_at_tick (s : S) (r : Req) (hr : r ∈ s.waiting)
    (ho : s.closed r.lim = false) (hb : r.amt > capOf s r.lim true) : (r.id, Ans.errCap) ∈ (doTickRuns s).answered :=
  List.mem_append_left _ (service_toobig _ _ _ _ _ _ r hr ho hb)

/-- the special case of the limiter's own cap -/
theorem queued_above_lowered_cap_fails_at_tick (s : S) (r : Req) (hr : r ∈ s.waiting) (ho : s.closed r.lim = false)
    (hb : r.amt > s.cap r.lim) : (r.id, Ans.errCap) ∈ (doTickRuns s).answered :=
  queued_above_lowered_chain_cap_fails_at_tick s r hr ho
    (Nat.lt_of_le_of_lt (effCap_le_own s.cap (s.chain r.lim) (s.cap r.lim)) hb)

/-- `SetCap(k)`, `k` any Go `int`, changes nothing but the capacity (and the history of capacities); the capacity stored
    is `max(k, 0)` -/
theorem setCap_effect (s : S) (hf : s.holder = .free) (l : Nat) (k : Int) (hl : l < s.n) :
    exec s (.setCap l k) = doSetCap s l (clampCap k) ∧ (doSetCap s l (clampCap k)).cap l = clampCap k ∧
    (doSetCap s l (clampCap k)).waiting = s.waiting ∧ (doSetCap s l (clampCap k)).used = s.used := by
  refine ⟨exec_setCap s hf l k hl, ?_, rfl, rfl⟩
  simp [doSetCap, upd]

/-- once root `Close` has marked the tree — in every interleaving, whatever the other goroutines do — every limiter is
    closed, and stays so -/
theorem root_close_closes_all (c : Nat) (s : S) (h : Reachable c s)
    (hc : s.cpc = .marked ∨ s.cpc = .send ∨ TDone s) (x : Nat) : s.closed x = true := allClosed h hc x

/-- **the lock**: mutual exclusion, and in particular *whoever is at the send on `done` does not hold the lock* — the
    ticker goroutine holds it exactly between its `Lock()` and `Unlock()`, the goroutine in root `Close` exactly while
    it is at `crit` or `marked`, never at `send` -/
theorem lock_discipline (c : Nat) (s : S) (h : Reachable c s) :
    (s.holder = .ticker ↔ (s.tpc = .tcrit ∨ s.tpc = .tunl ∨ s.tpc = .dcrit ∨ s.tpc = .dunl)) ∧
    (s.holder = .closer ↔ (s.cpc = .crit ∨ s.cpc = .marked)) ∧ (s.cpc = .send → s.holder ≠ .closer) := by
  obtain ⟨h1, h2, _⟩ := lockInv h
  refine ⟨h1, h2, ?_⟩
  intro hs hq
  rcases h2.mp hq with h | h <;> rw [hs] at h <;> cases h

/-- **Close returns** (deadlock freedom of the lock / `done` protocol as repaired), over all interleavings: no reachable
    state has the closer inside `Close` with neither it, nor the ticker goroutine, nor the holder of the lock able to
    move; whoever holds the lock can release it by steps of its own; and from every state in which the closer is blocked
    on `done`, steps of the lock holder and the ticker goroutine alone complete the hand-over -/
theorem close_returns (c : Nat) (s : S) (h : Reachable c s) :
    ¬ Deadlocked s ∧ (s.holder ≠ .free → ∃ s', Steps s s' ∧ s'.holder = .free) ∧
    (s.cpc = .send → ∃ s', Steps s s' ∧ s'.cpc = .ret) :=
  ⟨not_deadlocked h, lock_released h, close_can_return h⟩

/-- **contrast — the unrepaired order dead-locks** (`seeded/revert-c16-close-deadlock`, the code before commit 3e6b23a):
    in `StepU`, where root `Close` sends on `done` while still holding the lock, a deadlocked state IS reachable, by the
    schedule "a tick fires; `Close` takes the lock and marks the tree": the closer waits for the ticker goroutine's
    `select`, the ticker goroutine waits for the lock, the closer holds the lock.  So `close_returns` is a property of
    the repaired order, not of the way the model is written. -/
theorem unrepaired_close_deadlocks : ∃ s, ReachableU 5 s ∧ DeadlockedIn StepU s :=
  ⟨stuckState, stuckState_reachableU, stuckState_deadlocked⟩

/-- **Close returns**, liveness form: on every infinite run of the system — any interleaving of any requests, ticks,
    child creations, closes and `SetCap`s — root `Close`, once it has the lock, returns, under assumptions about the
    SCHEDULER only: goroutines inside a critical section of their own are scheduled (`HoldersRun`), the lock is fair to
    the waiting ticker goroutine (`LockFair`: free again and again ⇒ `tickLock` is taken), `select` is fair
    (`SelectFair`: the `done` case ready again and again ⇒ `doneReceived` is taken).  That the lock IS free again and
    again and the `done` case IS ready again and again is derived from the protocol (`lock_discipline`); with the
    unrepaired order it is false (`unrepaired_close_deadlocks`). -/
theorem close_returns_under_fair_scheduling (c : Nat) (run : Nat → S) (r : IsRun c run) (hr : HoldersRun run)
    (lf : LockFair run) (sf : SelectFair run) (i : Nat)
    (hi : (run i).cpc = .crit ∨ (run i).cpc = .marked ∨ (run i).cpc = .send) : ∃ j, i ≤ j ∧ (run j).cpc = .ret :=
  close_returns_fair r hr lf sf i hi

/-- the fairness assumptions are satisfiable together: a concrete infinite run (root `Close`, the drain, then
    `Use(-1)` for ever) meets all of them, has the closer blocked on `done` at instant 3 and returned at instant 4 -/
theorem fair_run_exists :
    IsRun 5 witness ∧ HoldersRun witness ∧ LockFair witness ∧ SelectFair witness ∧ TicksServed witness ∧
    (witness 3).cpc = .send ∧ (witness 4).cpc = .ret :=
  ⟨witness_isRun, witness_holdersRun, witness_lockFair, witness_selectFair, witness_ticksServed, witness_close.1,
   witness_close.2⟩

/-- **API calls return**: in every reachable state a caller of `Use`, `New`, `SetCap`, `Cap`, `LastUsed`, `Closed` or
    child `Close` finds the lock free and can take it, or the holder can release it by steps of its own; and once the
    caller has it, its body (here: child `Close`) is enabled -/
theorem api_call_returns (c : Nat) (s : S) (h : Reachable c s) :
    (s.holder = .free → Step s (lockApi s)) ∧ (s.holder ≠ .free → ∃ s', Steps s s' ∧ s'.holder = .free) ∧
    (∀ l, l < s.n → l ≠ 0 → s.closed l = false → s.holder = .api → Step s (unlock (doCloseChild s l))) :=
  ⟨fun hf => .apiLock s hf, lock_released h, fun l hl h0 ho ha => .closeChild s l hl h0 ha ho⟩

/-- **the API holder's OWN body is enabled** (`api_call_returns` / `close_returns` witness "the holder can release the lock"
    for an API holder by the memoryless step `apiRead`; this is the statement about the step the caller really has):
    whoever holds the lock as a caller of `Use`, `SetCap`, `Limiter.New` or child `Close` — any limiter of the tree, any
    amount or capacity — can take the step that executes THAT call's body, and that step releases the lock; nothing in
    a body waits for anybody (`answer_send_never_blocks`, `every_send_finds_room`) -/
theorem api_holder_can_finish_its_call (s : S) (ha : s.holder = .api) :
    (∀ l amt, l < s.n → Step s (micro s (.use l amt)) ∧ (micro s (.use l amt)).holder = .free) ∧
    (∀ l k, l < s.n → Step s (micro s (.setCap l k)) ∧ (micro s (.setCap l k)).holder = .free) ∧
    (∀ p k, p < s.n → Step s (micro s (.newChild p k)) ∧ (micro s (.newChild p k)).holder = .free) ∧
    (∀ l, l < s.n → l ≠ 0 → Step s (micro s (.closeChild l)) ∧ (micro s (.closeChild l)).holder = .free) := by
  have key : ∀ m, (micro s m).holder = .free → Step s (micro s m) ∧ (micro s m).holder = .free := by
    intro m hf
    rcases micro_step s m with h | h
    · rw [h, ha] at hf; cases hf
    · exact ⟨h, hf⟩
  refine ⟨fun l amt hl => key _ ?_, fun l k hl => key _ ?_, fun p k hp => key _ ?_, fun l hl h0 => key _ ?_⟩
  · simp only [micro, hl, ha, and_self, if_true]
    split
    · rfl
    · split
      · rfl
      · split
        · rfl
        · split <;> rfl
  · simp only [micro, hl, ha, and_self, if_true]; rfl
  · simp only [micro, hp, ha, and_self, if_true]; split <;> rfl
  · simp only [micro, hl, h0, ha, and_self, if_true, ne_eq, not_false_eq_true]; split <;> rfl

/-- **the ticker goroutine is never blocked for ever**: in every reachable state in which it waits for the lock, the
    lock is free (its `Lock()` is enabled) or its holder can release it by steps of its own; inside its critical
    sections its own steps are enabled -/
theorem ticker_never_blocked (c : Nat) (s : S) (h : Reachable c s) :
    ((s.tpc = .tlock ∨ s.tpc = .dlock) →
      (s.holder = .free ∧ ((s.tpc = .tlock → Step s (doTickLock s)) ∧ (s.tpc = .dlock → Step s (doDrainLock s)))) ∨
      (s.holder ≠ .free ∧ ∃ s', Steps s s' ∧ s'.holder = .free)) ∧
    (s.tpc = .tcrit → Step s (doTickRuns s)) ∧ (s.tpc = .tunl → Step s (doTickUnlock s)) ∧
    (s.tpc = .dcrit → Step s (doDrain s)) ∧ (s.tpc = .dunl → Step s (doDrainUnlock s)) := by
  obtain ⟨h1, _, _⟩ := lockInv h
  refine ⟨?_, ?_, fun ht => .tickUnlock s ht, ?_, fun ht => .drainUnlock s ht⟩
  · intro _
    by_cases hf : s.holder = .free
    · exact Or.inl ⟨hf, fun ht => .tickLock s ht hf, fun ht => .drainLock s ht hf⟩
    · exact Or.inr ⟨hf, lock_released h hf⟩
  · exact fun ht => .tickRuns s ht (h1.mpr (Or.inl ht))
  · exact fun ht => .drain s ht (h1.mpr (Or.inr (Or.inr (Or.inl ht))))

/-- **the code's machine arithmetic is the model's arithmetic** (`Model/RateLimiterInt.lean` transcribes limiter.go:74-88
    and 190-205 in Go's wrapping 64-bit `int`, expression by expression): in every reachable state whose capacities are
    Go `int`s, for every limiter and every amount, the test `available >= amount` — `available` the minimum of
    `capacity - used` along the chain, every subtraction wrapping — decides exactly what the model's `fits` decides;
    the ticker's guard `root.capacity-root.used > 0` is `used < capacity`; and after a successful test `used += amount`
    yields the model's `charge` for every limiter (no wrap).  This is what `int_arithmetic_exact` only argued in prose.
    (Scope: the operands are the MODEL's naturals; each subtraction / addition of the code goes through `wrap64` once.  It
    is the one-step arithmetic fact behind using naturals in the model, not a second execution of the code: the tie of
    this arithmetic to the Go code is the correspondence run with capacities and amounts at `MaxInt`, `MaxInt-1`,
    `MaxInt-10` … and usage summing past `MaxInt`, compared through answers and the white-box state dump.) -/
theorem go_int_arithmetic_is_model_arithmetic (c : Nat) (s : S) (h : Reachable c s) (hty : s.capHi ≤ maxInt)
    (l : Nat) (hl : l < s.n) (amt : Nat) :
    fitsGo s.cap s.used (s.chain l) amt = fits s.cap s.used (s.chain l) amt ∧
    rootGuardGo s.cap s.used = decide (s.used 0 < s.cap 0) ∧
    (fits s.cap s.used (s.chain l) amt = true →
      ∀ x, chargeGo s.used (s.chain l) amt x = ((charge s.used (s.chain l) amt x : Nat) : Int)) := by
  obtain ⟨hc, hu, _, _⟩ := bounded h
  have hc' : ∀ x, s.cap x ≤ maxInt := fun x => Nat.le_trans (hc x) hty
  have hu' : ∀ x, s.used x ≤ maxInt := fun x => Nat.le_trans (hu x) hty
  have hne : s.chain l ≠ [] := List.ne_nil_of_mem ((tree h).self l hl)
  exact ⟨fitsGo_eq_fits _ _ _ _ hne (fun x _ => hc' x) (fun x _ => hu' x), rootGuardGo_exact _ _ (hc' 0) (hu' 0),
         fun hf => chargeGo_exact s.cap _ _ _ (fun x _ => hc' x) hf⟩

/-- **the model's decisions ARE the code's, up to `MaxInt`** (audit 7, M16-1, done properly): `RL.useDecI` / `RL.tickDecI`
    (`Model/RateLimiterInt.lean`) transcribe `Use` and one iteration of the tick's loop on machine ints — the state as Go
    `int`s, the amount the Go `int` the caller passed, every intermediate (`effectiveCap()`'s running minimum,
    `capacity - used` and its running minimum `available` with wrap-around, the comparisons, in the code's order) computed
    on `Int` reduced to `[-2^63, 2^63)` — independently of `fits` / `effCap` / `RL.micro`.  In every reachable state whose
    capacities are Go `int`s, for every limiter and EVERY amount (negative, zero, up to and beyond `MaxInt`): the
    machine-int decision of `Use` — refuse-negative / refuse-closed / grant-zero / refuse-over-cap / grant / queue — is
    the decision `RL.exec` acts on; and for every request and every usage vector within the caps' range (the loop's
    running `used`), the machine-int decision of the loop iteration is the one `RL.service` acts on.  The driver runs
    `useDecI` next to the model on every `use` line and prints `machine-int-decision-differs` if they ever disagree. -/
theorem machine_int_decisions_are_the_models (c : Nat) (s : S) (h : Reachable c s) (hty : s.capHi ≤ maxInt)
    (l : Nat) (hl : l < s.n) :
    (∀ amt : Int, useDecI (castI s.cap) (castI s.used) s.closed (s.chain l) l amt = useDecN s l amt ∧
      (s.holder = .free → exec s (.use l amt) = applyUseDec s l amt (useDecN s l amt))) ∧
    (∀ (used : Nat → Nat) (r : Req) (rs : List Req) (p : Nat), r.lim = l → (∀ x, used x ≤ maxInt) →
      tickDecI (castI s.cap) (castI used) s.closed (s.chain r.lim) r.lim (r.amt : Int) =
        tickDecN s.cap s.chain s.closed used r ∧
      service s.cap s.chain s.closed p used (r :: rs) =
        (match tickDecN s.cap s.chain s.closed used r with
         | .refuseClosed =>
           let t := service s.cap s.chain s.closed p used rs
           { t with answers := (r.id, .errClosed) :: t.answers }
         | .refuseCap =>
           let t := service s.cap s.chain s.closed p used rs
           { t with answers := (r.id, .errCap) :: t.answers }
         | .grant =>
           let t := service s.cap s.chain s.closed p (charge used (s.chain r.lim) r.amt) rs
           { t with answers := (r.id, .ok) :: t.answers,
                    grants := ⟨r.id, r.lim, s.chain r.lim, r.amt, p⟩ :: t.grants }
         | _ =>
           let t := service s.cap s.chain s.closed p used rs
           { t with waiting := r :: t.waiting })) := by
  obtain ⟨hc, hu, _, _⟩ := bounded h
  have hc' : ∀ x, s.cap x ≤ maxInt := fun x => Nat.le_trans (hc x) hty
  have hu' : ∀ x, s.used x ≤ maxInt := fun x => Nat.le_trans (hu x) hty
  have hself := (tree h).self l hl
  refine ⟨fun amt => ⟨useDecI_eq_useDecN s l amt hself hc' hu', fun hf => useDecN_is_exec s hf l amt hl⟩, ?_⟩
  intro used r rs p hr hub
  subst hr
  exact ⟨tickDecI_eq_tickDecN s.cap s.chain s.closed used r hself hc' hub, tickDecN_is_service _ _ _ _ _ _ _⟩

/-- **contrast — adding before comparing wraps above `MaxInt/2`** (`RL.useDecSumI`: the same transcription with
    `p.used+amount > p.capacity` in place of `amount <= available`, the shape of `seeded/ind6-c16-a`): a root of capacity
    `2^62 + 1` — a Go `int`, just above `MaxInt/2` — that has granted all of it; a further request of `2^62 + 1` is granted
    by the sum form (`used+amount` wraps negative) where the code's form and the model queue it: granting would put
    twice the capacity into one period -/
theorem adding_before_comparing_grants_what_it_must_queue :
    Reachable 4611686018427387905 halfWitness ∧ halfWitness.capHi ≤ maxInt ∧
    useDecSumI (castI halfWitness.cap) (castI halfWitness.used) halfWitness.closed (halfWitness.chain 0) 0
      4611686018427387905 = .grant ∧
    useDecI (castI halfWitness.cap) (castI halfWitness.used) halfWitness.closed (halfWitness.chain 0) 0
      4611686018427387905 = .queue ∧
    useDecN halfWitness 0 4611686018427387905 = .queue ∧
    halfWitness.used 0 + 4611686018427387905 > halfWitness.cap 0 := by
  refine ⟨halfWitness_reachable, by decide, by decide, by decide, by decide, by decide⟩

/-- **contrast — the sum form of the test wraps** (`seeded/ind6-c16-a`: `p.used+amount > p.capacity` instead of
    `amount <= p.capacity-p.used`): there is a reachable state with all capacities Go `int`s — a root of capacity
    `MaxInt` that has granted 10 in the current period — and an amount `MaxInt-5`, itself a Go `int` within the cap, for
    which the sum form computed in machine ints says "fits" while the model, and the difference form of the code, say it
    does not: granting it would put `used` above the capacity.  So `go_int_arithmetic_is_model_arithmetic` is a fact
    about the way the code writes the test, not about any way of writing it. -/
theorem sum_form_of_the_test_wraps :
    ∃ s amt, Reachable maxInt s ∧ s.capHi ≤ maxInt ∧ amt ≤ capOf s 0 true ∧
      fitsSumGo s.cap s.used (s.chain 0) amt = true ∧ fits s.cap s.used (s.chain 0) amt = false ∧
      fitsGo s.cap s.used (s.chain 0) amt = false ∧ s.used 0 + amt > s.cap 0 := by
  refine ⟨sumWitness, maxInt - 5, sumWitness_reachable, sumWitness_facts.1, ?_, sumWitness_wraps.1, sumWitness_wraps.2.1,
          sumWitness_wraps.2.2, ?_⟩
  · decide
  · decide

/-- **an error only for a cause** (the converse of `immediate_errors` / `close_fails_pending` for requests that had to
    wait): in every interleaving, whichever step of whichever goroutine answers a request that is in the queue, the
    answer is nil — and then its limiter is open and its amount within the smallest capacity in force along its chain —
    or an error because its limiter IS closed at that moment (it was closed, or became closed through an
    ancestor or root `Close`, while the request waited), or an error because its amount is above the smallest capacity
    then in force along its chain.  A request on a limiter that stays open, within the caps of its chain, is never
    failed. -/
theorem queued_request_fails_only_for_cause (c : Nat) (s s' : S) (h : Reachable c s) (st : Step s s') (r : Req)
    (hr : r ∈ s.waiting) (a : Ans) (ha : (r.id, a) ∈ s'.answered) :
    (a = .ok ∧ s.closed r.lim = false ∧ r.amt ≤ capOf s r.lim true) ∨ (a = .errClosed ∧ s.closed r.lim = true) ∨
    (a = .errCap ∧ s.closed r.lim = false ∧ r.amt > capOf s r.lim true) :=
  queued_answer_cause h st r hr a ha

/-- **Close fails the pending requests, and nothing else happens to them** (the converse direction of
    `close_fails_pending`): whichever step of whichever goroutine answers a request whose limiter is closed at that
    moment — closed by its own `Close`, through an ancestor, or by root `Close` — the answer is "closed": never nil,
    never the cap error -/
theorem pending_on_closed_limiter_only_fails_closed (c : Nat) (s s' : S) (h : Reachable c s) (st : Step s s') (r : Req)
    (hr : r ∈ s.waiting) (a : Ans) (ha : (r.id, a) ∈ s'.answered) (hc : s.closed r.lim = true) : a = .errClosed := by
  rcases queued_answer_cause h st r hr a ha with k | k | k
  · rw [hc] at k; cases k.2.1
  · exact k.1
  · rw [hc] at k; cases k.2.1

/-- **a send on an answer channel never blocks**: the channel returned by `Use` has room for one value, and over the
    whole run — any interleaving — at most one value is ever sent on it; a request still in the queue has received
    none.  This is why the model may fuse the body of a call (or of a tick, which answers under the lock) with the
    unlock that follows it: the holder of the lock does nothing that can block in between. -/
theorem answer_send_never_blocks (c : Nat) (s : S) (h : Reachable c s) (id : Nat) :
    (s.answered.map (·.1)).count id ≤ 1 ∧ (∀ r ∈ s.waiting, ∀ a, (r.id, a) ∉ s.answered) := by
  refine ⟨?_, fun r hr a => queued_not_answered h r hr a⟩
  have := answer_exactly_once c s h id
  split at this <;> omega

/-- **every send on an answer channel finds room** (the step-level form of `answer_send_never_blocks`; the answer channels
    are not objects of the model: `chanLoad s id` counts the values sent so far on the channel of request `id`, as if
    the caller never received, and `answerChanCap` — 1 — is checked on every run to be at most `cap()` of the channel the code
    returns): whichever step of whichever goroutine sends an answer, the channel was EMPTY before and holds no more than
    its capacity afterwards — a send under the lock cannot block the holder -/
theorem every_send_finds_room (c : Nat) (s s' : S) (h : Reachable c s) (st : Step s s') (id : Nat)
    (hsend : chanLoad s id < chanLoad s' id) : chanLoad s id = 0 ∧ chanLoad s' id ≤ answerChanCap := by
  have a := answer_exactly_once c s h id
  have a' := answer_exactly_once c s' (.step _ _ h st) id
  have e : answerChanCap = 1 := rfl
  unfold chanLoad at hsend ⊢
  rw [e]
  split at a <;> split at a' <;> omega

/-- **the ticker's guard `c.root.capacity-c.root.used > 0` is redundant** on every reachable state: only amounts ≥ 1 are
    ever queued and the root is on every chain, so the service loop without the guard (`RL.serviceNG`; the rewrite
    `seeded/control-ind6-c16` drops it) answers, charges and keeps exactly what the loop with the guard does -/
theorem root_guard_redundant (c : Nat) (s : S) (h : Reachable c s) (p : Nat) (used : Nat → Nat) :
    service s.cap s.chain s.closed p used s.waiting = serviceNG s.cap s.chain s.closed p used s.waiting := by
  apply service_guard_redundant
  intro r hr
  have q := queueOk h r hr
  exact ⟨q.2.1, (tree h).root r.lim q.1⟩

/-- **the guarded state changes only under the lock** (the model-side counterpart of `C16Lock.accesses_under_the_lock`,
    which decides the same about the Go source on every run): a step of `RL.Step` that changes the queue, the shape of
    the tree, or any limiter's capacity / used / last / closed is taken by the goroutine that holds `controller.lock` —
    the ticker goroutine inside one of its two critical sections, the goroutine in root `Close` between its `Lock()`
    and the marking, or the caller that took the lock with `apiLock`; with the lock free no step changes any of them.
    Together with `lock_discipline` (one holder at a time; the goroutine blocked on `done` is not the holder) this is the
    lock / body / unlock structure of `RL.Step` that the extracted tables justify for the code:
    `C16Lock.accesses_under_the_lock` (every access under the lock on all paths), `C16Lock.no_reacquisition` (one
    bracket per call), `C16Lock.blocking_channel_operations_unlocked` (the send / receive on `done` outside it). -/
theorem guarded_state_changes_only_under_the_lock (c : Nat) (s s' : S) (h : Reachable c s) (st : Step s s') :
    (s.holder = .free → GuardedEq s s') ∧
    (¬ GuardedEq s s' →
      (s.holder = .ticker ∧ (s.tpc = .tcrit ∨ s.tpc = .dcrit)) ∨ (s.holder = .closer ∧ s.cpc = .crit) ∨
      (s.holder = .api ∧ s.tpc ≠ .tcrit ∧ s.tpc ≠ .dcrit ∧ s.cpc ≠ .crit ∧ s.cpc ≠ .marked)) := by
  obtain ⟨h1, h2, _⟩ := lockInv h
  have key := guarded_change st
  constructor
  · intro hf
    rcases key with k | k | k | k
    · exact k
    · rw [hf] at k; cases k.1
    · rw [hf] at k; cases k.1
    · rw [hf] at k; cases k
  · intro hne
    rcases key with k | k | k | k
    · exact absurd k hne
    · exact Or.inl k
    · exact Or.inr (Or.inl k)
    · refine Or.inr (Or.inr ⟨k, ?_, ?_, ?_, ?_⟩)
      · intro ht; have := h1.mpr (Or.inl ht); rw [k] at this; cases this
      · intro ht; have := h1.mpr (Or.inr (Or.inr (Or.inl ht))); rw [k] at this; cases this
      · intro hc; have := h2.mpr (Or.inl hc); rw [k] at this; cases this
      · intro hc; have := h2.mpr (Or.inr hc); rw [k] at this; cases this

/-- **a limiter that became closed through root `Close` fails every later request**: from the moment root `Close` has
    marked the tree — before it has even released the lock or handed over `done`, in every interleaving — whoever gets
    the lock as a caller of `Use` on ANY limiter of the tree, with any non-negative amount, is answered "closed" at
    once: nothing is queued, nothing is charged -/
theorem use_after_root_close_fails (c : Nat) (s : S) (h : Reachable c s)
    (hc : s.cpc = .marked ∨ s.cpc = .send ∨ TDone s) (l amt : Nat) (hl : l < s.n) (ha : s.holder = .api) :
    micro s (.use l amt) = unlock (answer s .errClosed) ∧
    (micro s (.use l amt)).waiting = s.waiting ∧ (micro s (.use l amt)).used = s.used := by
  have e := use_on_closed_fails s l amt hl ha (root_close_closes_all c s h hc l)
  rw [e]
  exact ⟨rfl, rfl, rfl⟩

/-- **a capacity ≤ 0 grants nothing** (`max(capacity, 0)`, commit 4e94d2c; the clamp is `RL.clampCap`, applied by the
    plans of `RL.exec` to the Go `int` the call is given): after `SetCap(k)` with ANY `k ≤ 0` — `-1`, `math.MinInt` — the
    limiter's capacity and its `Cap(true)` are 0, and every request for a positive amount on it or on any descendant is
    refused at once with the cap error: the limiter does not look unlimited to anybody -/
theorem nonpositive_cap_grants_nothing (s : S) (hf : s.holder = .free) (l : Nat) (hl : l < s.n) (k : Int) (hk : k ≤ 0) :
    let s' := exec s (.setCap l k)
    s'.cap l = 0 ∧ capOf s' l true = 0 ∧
    (∀ x amt, x < s'.n → l ∈ s'.chain x → 0 < amt → s'.closed x = false → exec s' (.use x amt) = answer s' .errCap) := by
  have hz : clampCap k = 0 := by unfold clampCap; omega
  have e : exec s (.setCap l k) = doSetCap s l 0 := by rw [exec_setCap s hf l k hl, hz]
  simp only [e]
  have hc : (doSetCap s l 0).cap l = 0 := by simp [doSetCap, upd]
  refine ⟨hc, ?_, ?_⟩
  · have := effCap_le_own (doSetCap s l 0).cap ((doSetCap s l 0).chain l) ((doSetCap s l 0).cap l)
    show effCap _ _ _ = 0
    omega
  · intro x amt hx hm ha ho
    apply use_above_chain_cap_fails_at_once (doSetCap s l 0) hf x amt hx ha ho
    exact Or.inr ⟨l, hm, by rw [hc]; omega⟩

/-- **contrast — without the clamp a hugely negative capacity looks unlimited** (`seeded/revert-c16-negative-cap`, the
    code before commit 4e94d2c): `p.capacity - p.used` computed in machine ints for the unclamped capacity `math.MinInt`
    and `used = 1` wraps to `MaxInt` — the ancestor seems to have all the room in the world — whereas what the code stores
    now for that argument is 0 -/
theorem unclamped_negative_cap_looks_unlimited :
    leftGoZ (-9223372036854775808) 1 = 9223372036854775807 ∧ leftGoZ (-9223372036854775808) 0 < 0 ∧
    clampCap (-9223372036854775808) = 0 := by
  decide

/-- **contrast — the cap test against the limiter's own capacity only starves a request** (`seeded/revert-c16-ancestor-cap`,
    the code before commit 8ceae61; `RL.useOwn` / `RL.tickOwn` are `Use` and the tick with `amount > l.capacity`): root of
    capacity 2, child of capacity 9, `Use(5)` on the child — in the variant the request is queued and NO number of ticks
    ever answers it (it stays the only entry of the queue for ever: `every_request_answered` fails), while the code as it
    is refuses it at once -/
theorem own_cap_only_starves :
    (∀ n, (iter tickOwn n (useOwn starveTree 1 5)).waiting.map (·.id) = [0] ∧
          (iter tickOwn n (useOwn starveTree 1 5)).answered = []) ∧
    exec starveTree (.use 1 5) = answer starveTree .errCap := by
  refine ⟨fun n => ?_, ?_⟩
  · have h := starving_forever n _ starving_start
    exact ⟨by rw [h.w]; rfl, h.a⟩
  · apply exec_use_toobig starveTree (by decide) 1 5 (by decide) (by decide) (by decide)
    decide

/-- **contrast — a grant charged to the limiter only overdraws the parent** (`seeded/own-c16-1`; `RL.useChargeOwn` is
    `Use` without the loop `p.used += amount` over the ancestors): root of capacity 2 with two children of capacity 2, each
    asked for 2 in the same period, no `SetCap` — both are granted, the root and its descendants have been granted 4 > 2
    in period 0: `granted_le_cap` fails for the variant -/
theorem charge_own_only_overdraws_parent :
    gsum 0 0 overdrawn.glog = 4 ∧ overdrawn.cap 0 = 2 ∧ overdrawn.ticks = 0 ∧ overdrawn.setCaps = 0 ∧
    overdrawn.answered = [(1, .ok), (0, .ok)] := by
  decide

/-- **contrast — `amount == 0` answered first grants on a closed limiter** (`seeded/revert-c16-use0-closed`, the code before
    commit 0fbede5; `RL.useZeroFirst`): after root `Close` the variant answers `Use(0)` with nil, the code as it is with
    "closed" (`closed_never_granted` fails for the variant) -/
theorem zero_first_grants_on_closed :
    ∃ s, Reachable 5 s ∧ s.closed 0 = true ∧ s.holder = .free ∧
      (s.nextReq, Ans.ok) ∈ (useZeroFirst s 0 0).answered ∧ exec s (.use 0 0) = answer s .errClosed := by
  refine ⟨run (init 5) [.close 0], run_reachable 5 _, by decide, by decide, by decide, ?_⟩
  exact (immediate_errors _ (by decide) 0 0 (by decide)).2.1 (by decide) (by decide)

/-- **ticks keep being served** — the hypothesis `TicksServed` of `every_request_answered` — follows from assumptions
    about the scheduler and the passing of time only: ticks keep firing (`TicksFire`: the goroutine does not sit at its
    `select` for ever), goroutines inside a critical section of their own are scheduled (`HoldersRun`, `DrainFair.runs`),
    the lock is fair to the waiting ticker goroutine (`LockFair`, `DrainFair.lock`).  That the lock IS free again and
    again while the goroutine waits for it — an API holder finishes, root `Close` marks and unlocks before it blocks on
    `done` — is derived from the protocol (`lock_discipline`). -/
theorem ticks_served_under_fair_scheduling (c : Nat) (run : Nat → S) (r : IsRun c run) (hr : HoldersRun run)
    (lf : LockFair run) (df : DrainFair run) (tf : TicksFire run) : TicksServed run :=
  ticksServed_of_fairness r hr lf df tf

/-- **every request is answered**, under scheduler fairness and the passing of time only: on every infinite run — any
    interleaving of any requests, child creations, closes and `SetCap`s — a request that is waiting leaves the queue at
    some later instant and then has exactly one answer -/
theorem every_request_answered_under_fair_scheduling (c : Nat) (run : Nat → S) (r : IsRun c run) (hr : HoldersRun run)
    (lf : LockFair run) (df : DrainFair run) (tf : TicksFire run) (i id : Nat) (hw : Waiting (run i) id) :
    ∃ j, i ≤ j ∧ ¬ Waiting (run j) id ∧ ((run j).answered.map (·.1)).count id = 1 :=
  eventually_answered r (ticksServed_of_fairness r hr lf df tf) i id hw

/-- all these assumptions are satisfiable together on a run on which something happens: root of capacity 1, `Use(1)`
    granted, `Use(1)` waiting from instant 4, the ticker goroutine waiting for the lock at instant 5 and inside its
    critical section at 6, the request answered nil by that tick (instant 7), then root `Close`, blocked on `done` at
    instant 11 and returned at 12, the drain, and `Use(-1)` for ever -/
theorem fair_run_with_a_served_tick_exists :
    IsRun 1 witness2 ∧ HoldersRun witness2 ∧ LockFair witness2 ∧ SelectFair witness2 ∧ DrainFair witness2 ∧
    TicksFire witness2 ∧ Waiting (witness2 4) 1 ∧ (witness2 5).tpc = .tlock ∧ (witness2 6).tpc = .tcrit ∧
    ¬ Waiting (witness2 7) 1 ∧ (1, Ans.ok) ∈ (witness2 7).answered ∧
    (witness2 11).cpc = .send ∧ (witness2 12).cpc = .ret := by
  refine ⟨witness2_isRun, witness2_holdersRun, witness2_lockFair, witness2_selectFair, witness2_drainFair,
          witness2_ticksFire, ?_, by decide, by decide, ?_, by decide, by decide, by decide⟩
  · have : (witness2 4).waiting = [⟨0, 1, 1⟩] := rfl
    exact ⟨⟨0, 1, 1⟩, by rw [this]; exact List.mem_singleton.mpr rfl, rfl⟩
  · rintro ⟨r, hr, _⟩
    have : (witness2 7).waiting = [] := by decide
    rw [this] at hr; cases hr

/-- **the window exploration is sound**: the driver's area `window` computes the set of outcomes of all interleavings of
    the ticker goroutine with the calls that wait for the lock together with it (`RL.explore`); every final state it
    lists is reached from the start by steps of `RL.Step`, so an outcome the check accepts is a behaviour the theorems
    above speak about -/
theorem window_outcomes_are_runs (fuel : Nat) (s : S) (ths : List (List Micro)) (s' : S)
    (h : some s' ∈ explore fuel s ths) : Steps s s' :=
  explore_sound fuel s ths s' h

/-- **… and complete**: the final state of EVERY interleaving of the threads — again and again some thread whose next
    step can move takes it, until all have finished (`RL.Interleaving`) — shorter than the fuel is in the list, and a
    step that `enabledM` holds back would not have moved anyway; so an outcome the check rejects is not a behaviour of
    the model under any scheduling of these calls -/
theorem window_exploration_is_complete (n : Nat) (s s' : S) (ths : List (List Micro)) (h : Interleaving n s ths s')
    (fuel : Nat) (hf : n < fuel) :
    some s' ∈ explore fuel s ths ∧ (∀ t m, enabledM t m = false → micro t m = t) :=
  ⟨explore_complete h fuel hf, micro_of_not_enabled⟩

/-- **`Cap(true)` follows `SetCap` two levels up** (round 7, `seeded/ind7-c16-a`; a non-vacuity instance: the statement for
    ANY depth and any history of `SetCap` anywhere in the tree is `cap_true_is_smallest_cap_of_chain`, which is about
    every reachable state): root 9 → child 8 → grandchild 7; after `SetCap(3)` on the ROOT the grandchild's `Cap(true)` is 3, and a request of
    5 on the grandchild — between the new and the old cap — is refused at once, not queued -/
theorem cap_true_follows_setcap_two_levels_up :
    capOf depth3 2 true = 7 ∧ capOf depth3Set 2 true = 3 ∧ capOf depth3Set 1 true = 3 ∧ depth3Set.chain 2 = [2, 1, 0] ∧
    exec depth3Set (.use 2 5) = answer depth3Set .errCap := by
  refine ⟨by decide, by decide, by decide, by decide, ?_⟩
  exact use_above_chain_cap_fails_at_once depth3Set (by decide) 2 5 (by decide) (by decide) (by decide)
    (Or.inr ⟨0, by decide, by decide⟩)

/-- **contrast — a cached cap refreshed one level deep goes stale** (`RL.refreshOneLevel`: the cache of `seeded/ind7-c16-a`,
    refreshed by `SetCap(l)` for `l` and its direct children): on the same tree the root and the child see 3, the
    grandchild keeps 7; a request of 5 passes the cached test and is queued, and it can never be granted — it does not fit
    whatever has been used — so it waits for ever -/
theorem cache_refreshed_one_level_goes_stale :
    let cache0 : Nat → Nat := fun x => capOf depth3 x true
    let cache := refreshOneLevel depth3Set cache0 0
    cache 0 = 3 ∧ cache 1 = 3 ∧ cache 2 = 7 ∧ capOf depth3Set 2 true = 3 ∧
    (5 ≤ cache 2 ∧ ∀ used, fits depth3Set.cap used (depth3Set.chain 2) 5 = false) := by
  refine ⟨by decide, by decide, by decide, by decide, by decide, ?_⟩
  intro used
  have hc : depth3Set.chain 2 = [2, 1, 0] := by decide
  have h0 : depth3Set.cap 0 = 3 := by decide
  simp only [fits, hc, List.all_cons, List.all_nil, h0, Bool.and_true]
  have : decide (used 0 + 5 ≤ 3) = false := by simp
  rw [this]; simp

/-- **the accounts survive a child's `Close`** (round 7, `seeded/ind7-c16-b`): in every interleaving, the step in which a
    child is closed changes no limiter's `used` and no grant; afterwards the amount granted in any period under any
    limiter — every ancestor of the closed child included — is still within the largest cap in force, and `used` still
    accounts for every grant of the current period: what a closed child was granted stays charged to its ancestors
    until the next tick -/
theorem child_close_conserves_accounts (c : Nat) (s : S) (h : Reachable c s) (l : Nat) (hl : l < s.n) (h0 : l ≠ 0)
    (ha : s.holder = .api) (ho : s.closed l = false) :
    let s' := unlock (doCloseChild s l)
    s'.used = s.used ∧ s'.glog = s.glog ∧ (∀ p x, gsum p x s'.glog ≤ s'.capMax p x) ∧
    (∀ x, gsum s'.ticks x s'.glog ≤ s'.used x) := by
  have h' : Reachable c (unlock (doCloseChild s l)) := .step _ _ h (.closeChild s l hl h0 ha ho)
  exact ⟨rfl, rfl, fun p x => granted_le_max_cap_in_force c _ h' p x, fun x => (used_is_sum_of_grants c _ h' x).1⟩

/-- **contrast — "settling the account" at `Close` grants the capacity twice** (`RL.closeSettle`: the child's `used` is
    subtracted from its ancestors): root and child of capacity 2, the child is granted 2, a request of 1 on the root
    waits; the child is closed with settling, and a request of 2 on the root is granted in the same period — 4 granted
    under a root of capacity 2, no `SetCap`; with the code's `Close` the same request waits -/
theorem settling_the_account_grants_twice :
    let s1 := exec (run (init 2) [.newChild 0 2, .use 1 2]) (.use 0 1)
    let s2 := exec (closeSettle s1 1) (.use 0 2)
    s1.waiting.length = 1 ∧ s2.answered = [(2, .ok), (0, .ok)] ∧ gsum 0 0 s2.glog = 4 ∧ s2.cap 0 = 2 ∧ s2.ticks = 0 ∧
    s2.setCaps = 0 ∧
    (exec (exec s1 (.close 1)) (.use 0 2)).waiting.length = 2 := by
  decide

/-- **concurrent readers are inside the model** (this replaces "read locks are treated as exclusive"): the calls that are
    one bracket of `controller.lock` — `Cap`, `LastUsed`, `Closed` under `RLock`; `Use` (two micro-steps: the tests and the
    decision, then the charge or the append), `Limiter.New`, `SetCap`, child `Close`, the body of a tick under `Lock` —
    run on the readers-writer machine `RW.step` (`Model/RWMutex.lean`: any number of readers inside their brackets at
    once, a writer only alone, ANY schedule).  In every reachable configuration, readers possibly still inside:
    whenever no writer is inside, the limiter state is that of making the calls one at a time through `RL.exec`
    (`callRun`) in the order in which they acquired the lock; every goroutine outside a bracket has exactly the results
    that one-at-a-time execution gives it; the acquisition order respects program order; a writer is alone. -/
theorem concurrent_readers_linearizable (s₀ : S) (progs : Nat → List Call) (sch : List Nat)
    (c : RW.Config S Call PC Ret) (he : RW.exec callSys Call.isRead (RW.init s₀ progs) sch = some c) :
    (c.writer = none → c.shared = (Mutex.seqExec callRun s₀ c.acq).2) ∧
    (∀ t, (c.threads t).cur = none → (c.threads t).res = Mutex.resOf t (Mutex.seqExec callRun s₀ c.acq).1) ∧
    (∀ t, Mutex.opsOf t c.acq ++ (c.threads t).todo = progs t) ∧
    (∀ t, c.writer = some t → c.readers = []) :=
  RW.linearizable callSys Call.isRead callRun ReadPC callSys_runs callSys_readOnly s₀ progs sch c he

/-- non-vacuity (`rwStart`: root 3, child 9, one unit granted to the child; `rwProgs`: `Cap(1, true)`, `LastUsed(0)`, `Use(1, 2)`
    on three goroutines): `Cap(true)` and `LastUsed` ARE inside their brackets at the same time (`readers = [1, 0]`) and keep the
    goroutine calling `Use` out; run to the end, the three calls return 3, 0 and nil and the root has used 3 -/
theorem readers_overlap_and_keep_the_writer_out :
    (∃ c, RW.exec callSys Call.isRead (RW.init rwStart rwProgs) [0, 1] = some c ∧ c.readers = [1, 0] ∧
      RW.step callSys Call.isRead c 2 = none) ∧
    (∃ c, RW.exec callSys Call.isRead (RW.init rwStart rwProgs) [0, 1, 0, 1, 1, 0, 2, 2, 2, 2] = some c ∧
      (c.threads 0).res = [.num 3] ∧ (c.threads 1).res = [.num 0] ∧ (c.threads 2).res = [.answer (some .ok)] ∧
      c.shared.used 0 = 3 ∧ c.readers = [] ∧ c.writer = none) := by
  refine ⟨⟨_, rfl, by decide, by decide⟩, ⟨_, rfl, by decide, by decide, by decide, by decide, by decide, by decide⟩⟩

/-- **contrast — a write under a read lock is not linearizable** (`twoUsers`: two goroutines, each `Use(2)` on a root of
    capacity 2): the same machine with `Use` admitted like a reader
    (`isRead := fun _ => true`, i.e. `Use` written with `RLock`): both goroutines pass `available >= amount` before either
    charges, both are answered nil and the root of capacity 2 has used 4 — whereas calling them one at a time in their
    acquisition order grants one and queues the other -/
theorem write_under_a_read_lock_is_not_linearizable :
    ∃ c, RW.exec callSys (fun _ => true) (RW.init (init 2) twoUsers) [0, 0, 1, 1, 0, 1, 0, 1] = some c ∧
      c.readers = [] ∧ (c.threads 0).res = [.answer (some .ok)] ∧ (c.threads 1).res = [.answer (some .ok)] ∧
      c.shared.used 0 = 4 ∧ c.shared.cap 0 = 2 ∧
      (Mutex.seqExec callRun (init 2) c.acq).2.used 0 = 2 ∧
      (Mutex.seqExec callRun (init 2) c.acq).2.waiting.length = 1 := by
  refine ⟨_, rfl, by decide, by decide, by decide, by decide, by decide, by decide, by decide⟩

/-- **the read-lock window the driver runs is a schedule of that machine** (lines `rwin` of area `burst`: the harness holds
    the lock in read mode, the readers return while it does, the writer is kept out until it lets go): the
    configuration `RL.rwWindow` ends in is reached from the initial one by steps of `RW.step`, so
    `concurrent_readers_linearizable` speaks about what the driver prints and the Go code is compared with -/
theorem rw_window_is_a_schedule (s : S) (reads : List Call) (w : Call) :
    ∃ sch, RW.exec callSys Call.isRead (RW.init s (rwProgsOf reads w)) sch = some (rwWindow s reads w).cfg :=
  rwWindow_is_a_schedule s reads w

/-- … and on the example the window shows what it is for: both readers return (3 and 0) while the harness' own read
    bracket is open, the writer is kept out (`blocked`), and in the end it is granted -/
theorem rw_window_example :
    let o := rwWindow rwStart [.cap 1 true, .lastUsed 0] (.use 1 2)
    o.reads = [[.num 3], [.num 0]] ∧ o.blocked = true ∧ o.wres = [.answer (some .ok)] ∧ o.cfg.shared.used 0 = 3 ∧
    o.cfg.readers = [] ∧ o.cfg.writer = none := by
  decide

/-! non-vacuity: a concrete run (root cap 5, child cap 9 above its parent): the second `Use(3)` on the child waits
    although the child has room, is served by the tick, and `LastUsed` of the root reports 4. -/
example :
    let s := run (init 5) [.newChild 0 9, .use 1 3, .use 1 3, .use 0 1, .tick]
    s.answered = [(1, .ok), (2, .ok), (0, .ok)] ∧ s.last 0 = 4 ∧ s.used 0 = 3 ∧ s.waiting.length = 0 ∧
    s.setCaps = 0 ∧ s.holder = .free := by
  decide

/-! capacities are whatever Go `int` the caller passes: a root made with `rate.New(-7, …)` grants nothing to its child of
    capacity 9 until `SetCap(3)`; `SetCap(-1)` on the child shuts it again -/
example :
    let s := run (initGo (-7)) [.newChild 0 9, .use 1 1, .setCap 0 3, .use 1 2, .setCap 1 (-1), .use 1 1]
    s.answered = [(2, .errCap), (1, .ok), (0, .errCap)] ∧ capOf s 1 true = 0 ∧ s.cap 0 = 3 := by
  decide

/-! sends that do happen: the tick's answer to the waiting request 1 takes its channel from empty to full, and a second
    value on it would not fit (`answerChanCap = 1`) -/
example :
    let s := runMicros (run (init 2) [.use 0 2, .use 0 1]) [.tickFires, .tickLock]
    chanLoad s 1 = 0 ∧ chanLoad (micro s .tickRuns) 1 = 1 ∧ ¬ (chanLoad (micro s .tickRuns) 1 < answerChanCap) := by
  decide

/-! a schedule inside the Close-vs-tick window: the tick fires, root `Close` marks the tree while the ticker goroutine
    waits for the lock, the tick then fails the waiting request, the hand-over and the drain follow -/
example :
    let s := runMicros (run (init 2) [.use 0 2, .use 0 1])
      [.tickFires, .closeLock, .closeMark, .closeUnlock, .tickLock, .tickRuns, .tickUnlock, .doneReceived,
       .drainLock, .drain, .drainUnlock]
    s.answered = [(1, .errClosed), (0, .ok)] ∧ s.tpc = .tend ∧ s.cpc = .ret ∧ s.holder = .free := by
  decide

/-! the window of the example above, explored: root `Close` against the tick the goroutine has already received, with one
    request waiting — the tick runs first and serves it, or `Close` marks the tree first and the tick fails it; nothing
    else -/
example :
    let s := run (init 2) [.use 0 2, .use 0 1]
    let outs := (explore 64 (micro s .tickFires)
      [[.tickLock, .tickRuns, .tickUnlock, .drainLock, .drain, .drainUnlock],
       [.closeLock, .closeMark, .closeUnlock, .doneReceived]]).map (fun o => o.map (fun t => (t.answered, t.last 0)))
    outs.eraseDups = [some ([(1, .ok), (0, .ok)], 2), some ([(1, .errClosed), (0, .ok)], 2)] := by
  decide

end C16
