import Model.RateLimiter
namespace C16
open RL

/-- placeholder while the pipeline is assembled -/
theorem exec_is_run (s : S) (op : Op) (h : ∀ l c, op ≠ .setCap l c) : Steps s (exec s op) := exec_steps s op h

end C16
