import Generated.RotationCalls
import Model.RotationErr
/-! # C12 — the file-system calls of package rotation are the calls the failing-file-system model quantifies over

`Generated/RotationCalls.lean` is written by `go/cmd/c12facts` from the Go source of the working tree on every run of the
check (deleted first).  The package is type-checked; the tables are the functions of package os and the methods of
`os.File` REFERENCED in the code reachable from the methods of the Rotator (resolved objects, not spellings), and the
VALUE of the flag argument of every `os.OpenFile` call (constant evaluation), with the values of the os constants.  The
theorems below are DECIDED about those tables.  They tie the inventory `Rot.Sys` of `Model/RotationErr.lean` — the calls
whose failure the theorems `C12.faulty_*` quantify over — to the code: a new call (os.Chmod, os.Truncate, a Seek or
Truncate on the descriptor, …) is a failure the model does not consider.  Helpers, renamed fields, named constants for
modes and flags, `file.Stat()` instead of `os.Stat`, `errors.Is` instead of `os.IsNotExist` change nothing.  What the
extractor cannot resolve is listed (`RotationCalls.unresolved`, copied into the evidence) and makes the statements about
it vacuous — an absent fact is less coverage, not an alarm. -/
namespace C12Calls
open Rot

/-- every constructor of `Rot.Sys` has its representative in `Sys.kinds` -/
theorem kinds_cover_the_model (c : Sys) : ∃ k ∈ Sys.kinds, k.goCalls = c.goCalls := by
  cases c <;> simp [Sys.kinds, Sys.goCalls]

/-- every function of package os that the reachable code references is a call the model's environment can fail, or one
    that makes no system call -/
theorem every_os_call_is_modelled :
    ∀ c ∈ RotationCalls.osCalls, c ∈ Sys.pureOs ∨ ∃ k ∈ Sys.kinds, ("os", c) ∈ k.goCalls := by
  decide

/-- every method of `os.File` that the reachable code references is a call the model's environment can fail, or one that
    makes no system call -/
theorem every_file_call_is_modelled :
    ∀ c ∈ RotationCalls.fileCalls, c ∈ Sys.pureFile ∨ ∃ k ∈ Sys.kinds, ("File", c) ∈ k.goCalls := by
  decide

/-- conversely, when the extractor resolved everything (`complete`), the model has no call the code does not make -/
theorem every_modelled_call_is_made :
    RotationCalls.complete = true →
    ∀ k ∈ Sys.kinds, ∃ p ∈ k.goCalls,
      (p.1 = "os" ∧ p.2 ∈ RotationCalls.osCalls) ∨ (p.1 = "File" ∧ p.2 ∈ RotationCalls.fileCalls) := by
  decide

/-- clause "pre-existing log content is appended to rather than overwritten", at the system-call boundary: every
    `os.OpenFile` whose flag argument is a constant opens with O_APPEND and O_CREATE, for writing, without O_TRUNC or
    O_EXCL (by VALUE: named constants, any order, parentheses give the same integer) — the `openIfNeeded` of the model -/
theorem log_file_is_opened_for_append :
    ∀ fl ∈ RotationCalls.openFlagBits,
      fl &&& RotationCalls.O_APPEND ≠ 0 ∧ fl &&& RotationCalls.O_CREATE ≠ 0 ∧
      fl &&& RotationCalls.O_TRUNC = 0 ∧ fl &&& RotationCalls.O_EXCL = 0 ∧
      fl &&& (RotationCalls.O_WRONLY ||| RotationCalls.O_RDWR) ≠ 0 := by
  decide

end C12Calls
