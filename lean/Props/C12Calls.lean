import Generated.RotationCalls
import Model.RotationErr
/-! # C12 — the file-system calls of package rotation are the calls the failing-file-system model quantifies over

`Generated/RotationCalls.lean` is written by `go/cmd/c12facts` from the Go source of the working tree on every run of the
check (deleted first): the functions of package os the package calls, the methods it calls on its `*os.File`, the flag
constants of its `os.OpenFile`.  The theorems below are DECIDED about those tables.  They tie the inventory `Rot.Sys` of
`Model/RotationErr.lean` — the calls whose failure the theorems `C12.faulty_*` quantify over — to the code: a new call
(os.Chmod, os.Truncate, a Seek or Truncate on the descriptor, …) is a failure the model does not consider, and a call
the code no longer makes is a branch of the model nothing executes.  The extraction is syntactic and by sets, so
splitting Write/rotate into helpers, renaming fields, asking the descriptor instead of the path for the size, or testing
the error with errors.Is instead of os.IsNotExist changes nothing. -/
namespace C12Calls
open Rot

/-- every constructor of `Rot.Sys` has its representative in `Sys.kinds` -/
theorem kinds_cover_the_model (c : Sys) : ∃ k ∈ Sys.kinds, k.goCalls = c.goCalls := by
  cases c <;> simp [Sys.kinds, Sys.goCalls]

/-- every function of package os that the code calls is a call the model's environment can fail (`os.IsNotExist` is a
    predicate on an error value, not a system call) -/
theorem every_os_call_is_modelled :
    ∀ c ∈ RotationCalls.osCalls, c = "IsNotExist" ∨ ∃ k ∈ Sys.kinds, ("os", c) ∈ k.goCalls := by
  decide

/-- every method the code calls on its `*os.File` is a call the model's environment can fail -/
theorem every_file_call_is_modelled :
    ∀ c ∈ RotationCalls.fileCalls, ∃ k ∈ Sys.kinds, ("File", c) ∈ k.goCalls := by
  decide

/-- conversely the model has no call the code does not make -/
theorem every_modelled_call_is_made :
    ∀ k ∈ Sys.kinds, ∃ p ∈ k.goCalls,
      (p.1 = "os" ∧ p.2 ∈ RotationCalls.osCalls) ∨ (p.1 = "File" ∧ p.2 ∈ RotationCalls.fileCalls) := by
  decide

/-- clause "pre-existing log content is appended to rather than overwritten", at the system-call boundary: the log file is
    opened in exactly one place, with O_APPEND and O_CREATE, without O_TRUNC or O_EXCL — the `openIfNeeded` of the model
    (size from the existing file, content kept, created empty when absent) -/
theorem log_file_is_opened_for_append :
    RotationCalls.openFlags.length = 1 ∧
    ∀ fl ∈ RotationCalls.openFlags,
      "O_APPEND" ∈ fl ∧ "O_CREATE" ∈ fl ∧ "O_TRUNC" ∉ fl ∧ "O_EXCL" ∉ fl ∧ "O_RDONLY" ∉ fl ∧ "?other" ∉ fl := by
  decide

end C12Calls
