import Lemmas.GenAttr
import Lemmas.GenTieLoop
import Lemmas.BitSetSwar
import Generated.SSA_Bitset
/-! # C08, translator tie — functions of `xmath/bitset.go` regenerated from the Go source are the model

`Generated/SSA_Bitset.lean` is written by `gossa/ssagen … bitset` from the typed SSA form of `xmath/bitset.go` of the
repository's working tree.  The helpers the whole type rests on are tied here to the hand-written model
`Model/BitSet.lean` (namespace `BS`): the SWAR routine `countSetBits` (hence, with `BS.countSetBits_eq_popcount`, the
regenerated Go code IS the population count), `wordMask`, the search loop of `bitIndexForMask` (by induction on its
trip count; the `atexit.Exit(1)` arm is `none` and is not reached on masks made by `wordMask`), the index validation,
`Count` and `State` (a read through the receiver with Go's bounds check).  The scanning methods `NextSet`, `PreviousSet`,
`PreviousClear`, `NextClear`, `FirstSet`, `LastSet` are translated (nested loops with returns from the inner loop) but
not tied yet: they are in `Generated/SSA_Bitset_untied.lean`, which no property depends on. -/
set_option linter.unusedVariables false
set_option linter.unusedSimpArgs false
namespace C08Gen
open Gen GenTieLoop

theorem abpw_eq : BS.abpw = 6 := by decide
theorem bim_eq : BS.bim = 63 := by decide
theorem dbpw_eq : BS.dbpw = 64 := by decide

when_translated Gen.countSetBits in
theorem countSetBits_eq (x : BitVec 64) : BS.countSetBits x = Int.ofNat (Gen.countSetBits x).toNat := by
  rfl

when_translated Gen.wordMask in
theorem wordMask_eq (i : Nat) : Gen.wordMask (BitVec.ofNat 64 i) = BS.wordMask i := by
  unfold Gen.wordMask BS.wordMask BS.bitIdx
  rw [bim_eq]
  congr 1
  simp only [BitVec.toNat_and, BitVec.toNat_ofNat]
  apply Nat.eq_of_testBit_eq
  intro j
  simp only [Nat.testBit_and, Nat.testBit_mod_two_pow]
  by_cases hj : j < 64
  · simp [hj]
  · have : Nat.testBit 63 j = false := Nat.testBit_lt_two_pow (Nat.lt_of_lt_of_le (by decide : 63 < 2^6) (Nat.pow_le_pow_right (by decide) (by omega)))
    simp [this]

when_translated Gen.bitIndexForMask in
theorem loop_bitIndex (mask : BitVec 64) : ∀ n fuel i, i + n = 64 → n < fuel →
    (∃ k, i ≤ k ∧ k < 64 ∧ mask = BS.wordMask k) →
    Gen.bitIndexForMask_loop1 mask fuel (BitVec.ofNat 64 i) =
      some (.inl (BitVec.ofNat 64 (BS.bitIndexLoop mask i n))) := by
  intro n
  induction n with
  | zero =>
    intro fuel i hi hf h
    obtain ⟨k, h1, h2, _⟩ := h
    omega
  | succ n ih =>
    intro fuel i hi hf h
    obtain ⟨f, rfl⟩ : ∃ f, fuel = f + 1 := ⟨fuel - 1, by omega⟩
    rw [Gen.bitIndexForMask_loop1]
    simp only [BS.bitIndexLoop]
    have hlt : (BitVec.ofNat 64 i).toInt < 64 := by rw [toInt_ofNat_small i (by omega)]; omega
    simp only [hlt, if_true, wordMask_eq, ofNat_succ, beq_iff_eq]
    by_cases hm : mask = BS.wordMask i
    · simp only [hm, if_true]
    · rw [if_neg hm, if_neg hm]
      apply ih f (i + 1) (by omega) (by omega)
      obtain ⟨k, h1, h2, h3⟩ := h
      have : k ≠ i := by rintro rfl; exact hm h3
      exact ⟨k, by omega, h2, h3⟩

when_translated Gen.bitIndexForMask in
/-- `bitIndexForMask` on a mask that `wordMask` makes (the only way the package calls it): the loop finds the bit index;
    the `atexit.Exit(1)` arm is not reached -/
theorem bitIndexForMask_eq (mask : BitVec 64) (fuel : Nat) (hf : 65 ≤ fuel) (h : ∃ k, k < 64 ∧ mask = BS.wordMask k) :
    Gen.bitIndexForMask mask fuel = some (BitVec.ofNat 64 (BS.bitIndexForMask mask)) := by
  obtain ⟨k, h2, h3⟩ := h
  rw [Gen.bitIndexForMask, loop_bitIndex mask 64 fuel 0 (by omega) (by omega) ⟨k, by omega, h2, h3⟩]
  simp only [loopBind_inl, BS.bitIndexForMask, dbpw_eq]

when_translated Gen.validateBitSetIndex in
theorem validate_eq (i : Nat) (hi : i < 2^63) : Gen.validateBitSetIndex (BitVec.ofNat 64 i) = some () := by
  unfold Gen.validateBitSetIndex
  have : ¬ (BitVec.ofNat 64 i).toInt < 0 := by rw [toInt_ofNat_small i hi]; omega
  simp [this]

/-- a Go `BitSet` value and the record of the hand-written model -/
def rel (b : Gen.BitSet_) (t : BS.T) : Prop := b.f0 = t.data ∧ b.f1 = BitVec.ofInt 64 t.set

when_translated Gen.BitSet_Count in
theorem Count_eq (b : Gen.BitSet_) (t : BS.T) (h : rel b t) : Gen.BitSet_Count b = BitVec.ofInt 64 (BS.count t) := by
  unfold Gen.BitSet_Count BS.count; exact h.2

theorem sshift6 (i : Nat) (hi : i < 2^63) : BitVec.sshiftRight (BitVec.ofNat 64 i) 6 = BitVec.ofNat 64 (i >>> 6) := by
  apply BitVec.eq_of_toInt_eq
  have h6 : i >>> 6 ≤ i := Nat.shiftRight_le _ _
  rw [BitVec.toInt_sshiftRight, toInt_ofNat_small i hi, toInt_ofNat_small _ (by omega)]
  simp [Int.shiftRight_eq_div_pow, Nat.shiftRight_eq_div_pow]

when_translated Gen.BitSet_State in
theorem State_eq (b : Gen.BitSet_) (t : BS.T) (h : rel b t) (i : Nat) (hi : i < 2^63) (hn : t.data.length < 2^63) :
    Gen.BitSet_State b (BitVec.ofNat 64 i) = some (BS.state t i) := by
  obtain ⟨hd, _⟩ := h
  unfold Gen.BitSet_State BS.state BS.wordIdx
  have h6 : i >>> 6 ≤ i := Nat.shiftRight_le _ _
  simp only [validate_eq i hi, Option.bind_some, sshift6 i hi, abpw_eq, wordMask_eq, hd, Gen.wLen,
    toInt_ofNat_small (i >>> 6) (by omega), toInt_ofNat_small t.data.length hn, ge_iff_le, Int.ofNat_le]
  by_cases hlen : t.data.length ≤ i >>> 6
  · simp [hlen]
  · have hlt : i >>> 6 < t.data.length := by omega
    simp only [hlen, if_false, Gen.wIdx, toInt_ofNat_small (i >>> 6) (by omega), toNat_ofNat_small (i >>> 6) (by omega)]
    have : ¬ ((i >>> 6 : Nat) : Int) < 0 := by omega
    simp only [this, if_false, List.getElem?_eq_getElem hlt, Option.bind_some, BS.getW, List.getD_eq_getElem?_getD,
      Option.getD_some]
    by_cases hb : t.data[i >>> 6] &&& BS.wordMask i = BS.wordMask i
    · simp [hb]
    · simp [hb]

when_translated Gen.countSetBits in
/-- the SWAR routine as it is in the Go source computes the population count of every 64-bit word -/
theorem countSetBits_popcount (x : BitVec 64) : (Gen.countSetBits x).toNat = BS.popcount x := by
  have h := BS.countSetBits_eq_popcount x
  rw [countSetBits_eq] at h
  exact Int.ofNat.inj h

end C08Gen
