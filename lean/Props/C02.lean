import Model.Conv128
/-! # C02 (placeholder while the harness is brought up) -/
namespace C02
open Conv

theorem from64_toNat (v : BitVec 64) : (U128.from64 v).toNat = v.toNat := by
  simp [U128.from64, U128.toNat]

end C02
