import Lemmas.Conv128AsFloatUlp2
import Lemmas.Conv128RatValue
import Lemmas.Conv128Misc
/-! # C02 — 128-bit integers convert and print losslessly and saturate when out of range

Property theorems only.  The executable model is `Model/Conv128.lean` (namespace `Conv`) over the binary64 model
`GoSem/F64.lean`; it is the code the driver `drv_c02` runs against the Go functions on every check.  Helper lemmas:
`Lemmas/Conv128*.lean`, `Lemmas/F64*.lean` (the grammar of integer literals is in `Lemmas/Conv128Grammar.lean`
(plain), `Lemmas/Conv128RatGrammar.lean` and `Lemmas/Conv128RatValue.lean` (exponent form; the only Mathlib user, for
`ℚ`); the rounding facts of `roundRatN` in `Lemmas/F64Nearest.lean`).  `U128.toNat` / `I128.toInt` are the mathematical values of the two words.
`big.Int` is `Int`; a `float64` is a `GoSem.F64` (`WF` = decoded from a 64-bit pattern, `decode_wf`). -/
namespace C02
open Conv GoSem GoSem.F64

/-! ## text: `String` = `MarshalText` = `MarshalJSON` = `MarshalYAML` denotes the exact value and parses back -/

/-- the decimal text of a `Uint128` is the digit string of its exact value … -/
theorem toString_denotes_u (u : U128) : u.toString = natDigits u.toNat ∧ decVal u.toString = u.toNat := by
  rw [U128.toString_eq]; exact ⟨rfl, decVal_natDigits _⟩

/-- … and of an `Int128` the digit string of its exact value with a leading `-` for negative values; the integer the
    text denotes (`signedDecVal`: decimal value of the digits, negated after a leading `-`) is the exact value -/
theorem toString_denotes_i (i : I128) : i.toString = intDigits i.toInt ∧ signedDecVal i.toString = i.toInt := by
  rw [I128.toString_eq]; exact ⟨rfl, signedDecVal_intDigits _⟩

/-- `string_parse_roundtrip` (Uint128): parsing the rendered text yields the identical value -/
theorem string_parse_roundtrip_u (u : U128) : U128.fromString u.toString = some u := by
  have h := parseToBigInt_intDigits (u.toNat : Int)
  have e : intDigits (u.toNat : Int) = natDigits u.toNat := by
    unfold intDigits; rw [if_neg (by omega)]; simp
  rw [e] at h
  unfold U128.fromString
  rw [U128.toString_eq, h]
  show some (U128.fromBigInt u.asBigInt) = some u
  rw [U128.fromBigInt_asBigInt]

/-- `string_parse_roundtrip` (Int128) -/
theorem string_parse_roundtrip_i (i : I128) : I128.fromString i.toString = some i := by
  unfold I128.fromString
  rw [I128.toString_eq, parseToBigInt_intDigits]
  show some (I128.fromBigInt i.toInt) = some i
  rw [← I128.asBigInt_eq, I128.fromBigInt_asBigInt]

/-- `UnmarshalText` / `UnmarshalJSON` / `UnmarshalYAML` of the rendered text overwrite any receiver with the value -/
theorem unmarshal_roundtrip (u r : U128) (i q : I128) :
    U128.unmarshal r u.toString = (u, true) ∧ I128.unmarshal q i.toString = (i, true) := by
  unfold U128.unmarshal I128.unmarshal
  rw [string_parse_roundtrip_u, string_parse_roundtrip_i]; exact ⟨rfl, rfl⟩

/-- a failed load leaves the receiver untouched, and `FromStringNoCheck` then gives 0 -/
theorem unmarshal_error_keeps_receiver (r : U128) (q : I128) (s : List Char) (h : parseToBigInt s = none) :
    U128.unmarshal r s = (r, false) ∧ I128.unmarshal q s = (q, false) ∧
      U128.fromStringNoCheck s = U128.zero ∧ I128.fromStringNoCheck s = I128.zero := by
  unfold U128.unmarshal I128.unmarshal U128.fromStringNoCheck I128.fromStringNoCheck U128.fromString I128.fromString
  rw [h]; exact ⟨rfl, rfl, rfl, rfl⟩

/-- constructor from string: whenever the text denotes the integer `z` (is accepted), the result is `z` when it lies in
    the type's range and the nearest bound when it does not -/
theorem fromString_exact_or_saturates (s : List Char) (z : Int) (h : parseToBigInt s = some z) :
    (∃ u, U128.fromString s = some u ∧ (u.toNat : Int) = if z < 0 then 0 else if z < 2^128 then z else 2^128 - 1) ∧
    (∃ i, I128.fromString s = some i ∧
      i.toInt = if z < -(2^127) then -(2^127) else if z < 2^127 then z else 2^127 - 1) := by
  unfold U128.fromString I128.fromString
  rw [h]
  exact ⟨⟨_, rfl, U128.fromBigInt_spec z⟩, ⟨_, rfl, I128.fromBigInt_spec z⟩⟩

/-- `fromString_rejects`, texts without `e`/`E` (the `big.Int.SetString(s, 0)` branch), **both directions**: the text
    is accepted with value `z` exactly when it is an integer literal of the grammar denoting `z` —
    `Conv.IsPlainIntLiteral` (`Lemmas/Conv128Grammar.lean`): an optional sign, then `0`, or a decimal literal not
    starting with `0`, or `0b`/`0o`/`0x` (either case) followed by digits of that base, or `0` followed by octal
    digits; single underscores are allowed between digits and directly after a prefix, never leading (without prefix),
    trailing or doubled; the value is the Horner value of the digits.  Everything else is rejected. -/
theorem fromString_rejects_plain (s : List Char) (z : Int) (h : hasExpChar s = false) :
    parseToBigInt s = some z ↔ IsPlainIntLiteral s z := by
  unfold parseToBigInt
  rw [h]
  exact bigIntSetString_iff s z

/-- `fromString_rejects`, texts containing `e`/`E` (the `big.Rat.SetString` branch), **both directions**: the text is
    accepted with value `z` exactly when it contains no `/` and is an exponent-form literal whose exact value is the
    integer `z` — `Conv.IsExpIntLiteral` (`Lemmas/Conv128RatValue.lean`, `Lemmas/Conv128RatGrammar.lean`): an optional
    sign; a mantissa = optional `0b`/`0o`/`0x`, digits of that base with single underscores between digits (or after
    the prefix) and at most one radix point not next to an underscore, at least one digit; an optional exponent =
    `e`/`E` (power of 10, not after a hexadecimal mantissa) or `p`/`P` (power of 2), optional sign, decimal digits with
    single inner underscores, fitting an `int64`; the collected powers of 5 and 2 within `math/big`'s limits
    (10^6 and 10^7); and `z = ± mantissa · base^(−fraction digits) · (10|2)^exponent` as rational numbers.
    So a non-integral value (`1.55e1`), a fraction `a/b`, and any malformed text are rejected. -/
theorem fromString_rejects_exp (s : List Char) (z : Int) (h : hasExpChar s = true) :
    parseToBigInt s = some z ↔ hasSlash s = false ∧ IsExpIntLiteral s z := by
  have := parseToBigInt_iff s z
  unfold IsIntLiteral at this
  rw [h] at this
  simpa using this

/-- **`fromString_rejects`, complete**: for every text, `FromString` (both types) accepts it with the big-integer value
    `z` exactly when the text is an integer literal of the grammar denoting `z` (`Conv.IsIntLiteral`: a plain literal
    when there is no `e`/`E`, an exponent-form literal without `/` otherwise); every other text gives the error -/
theorem fromString_rejects (s : List Char) (z : Int) : parseToBigInt s = some z ↔ IsIntLiteral s z :=
  parseToBigInt_iff s z

/-- constructor from string, complete specification over the grammar: a literal denoting `z` is converted to `z`
    saturated to the type's range (`fromBigInt_exact_or_saturates_*`), and a text that is not a literal is an error
    (`none`), after which `FromStringNoCheck` gives 0 -/
theorem fromString_spec (s : List Char) :
    (∀ z, IsIntLiteral s z →
      U128.fromString s = some (U128.fromBigInt z) ∧ I128.fromString s = some (I128.fromBigInt z)) ∧
    ((¬ ∃ z, IsIntLiteral s z) →
      U128.fromString s = none ∧ I128.fromString s = none ∧
      U128.fromStringNoCheck s = U128.zero ∧ I128.fromStringNoCheck s = I128.zero) := by
  constructor
  · intro z hz
    have := (fromString_rejects s z).mpr hz
    unfold U128.fromString I128.fromString
    rw [this]; exact ⟨rfl, rfl⟩
  · intro hn
    have : parseToBigInt s = none := by
      cases hp : parseToBigInt s with
      | none => rfl
      | some z => exact absurd ⟨z, (fromString_rejects s z).mp hp⟩ hn
    unfold U128.fromStringNoCheck I128.fromStringNoCheck U128.fromString I128.fromString
    rw [this]; exact ⟨rfl, rfl, rfl, rfl⟩

/-- `fromString_rejects`, character-class corollaries: the empty text is rejected; a text with an exponent character
    and a `/` is rejected (the fraction syntax of `big.Rat` is excluded); and a text without `e`/`E` is rejected unless it is an
    optional sign followed by a non-empty run of ASCII letters, digits and underscores — so blanks, quotes (a JSON
    string), radix points, a second sign, control characters and non-ASCII bytes are never accepted there. -/
theorem fromString_rejects_charclass (s : List Char) :
    parseToBigInt [] = none ∧
    (hasExpChar s = true → hasSlash s = true → parseToBigInt s = none) ∧
    (hasExpChar s = false → ∀ z, parseToBigInt s = some z →
      ∃ sg body, s = sg ++ body ∧ (sg = [] ∨ sg = ['-'] ∨ sg = ['+']) ∧ body ≠ [] ∧ ∀ c ∈ body, WordChar c) := by
  refine ⟨rfl, ?_, ?_⟩
  · intro h1 h2; unfold parseToBigInt; rw [h1, h2]; rfl
  · intro h1 z h
    unfold parseToBigInt at h
    rw [h1] at h
    exact bigIntSetString_sound s z h

/-! ## fmt.Scanner: text printed with a base verb reads back with the same verb

`U128.scan tok verb` / `I128.scan tok verb` = `fromString (scanText tok verb)` is what the driver runs against
`Sscanf` / `Fscanf` (area `scan`).  A rendering is `sign ++ zero padding ++ digits of |value| in the base`
(`baseDigits b n`, lower case; `natDigits` for base 10), with the sign `SignFor`: `-` for a negative value, nothing or
`+` otherwise; `zeros k` is any amount of zero padding (flag `0`, or a precision). -/

/-- `scan_reads_back`, decimal: `%d` text with any sign form and zero padding reads back with `%d` (both types) -/
theorem scan_reads_back_dec (u : U128) (i : I128) (k : Nat) (sgu sgi : List Char)
    (hu : SignFor (u.toNat : Int) sgu) (hi : SignFor i.toInt sgi) :
    U128.scan (sgu ++ (zeros k ++ natDigits u.toNat)) 'd' = some u ∧
    I128.scan (sgi ++ (zeros k ++ natDigits i.toInt.natAbs)) 'd' = some i := by
  constructor
  · apply scan_of_parse_u
    have := scan_parse_dec sgu (signFor_isSign hu) k u.toNat
    rw [this]; congr 1; exact signFor_value hu
  · apply scan_of_parse_i
    rw [scan_parse_dec sgi (signFor_isSign hi) k i.toInt.natAbs]; congr 1; exact signFor_value hi

/-- `scan_reads_back`, binary: `%b` text reads back with `%b` -/
theorem scan_reads_back_bin (u : U128) (i : I128) (k : Nat) (sgu sgi : List Char)
    (hu : SignFor (u.toNat : Int) sgu) (hi : SignFor i.toInt sgi) :
    U128.scan (sgu ++ (zeros k ++ baseDigits 2 u.toNat)) 'b' = some u ∧
    I128.scan (sgi ++ (zeros k ++ baseDigits 2 i.toInt.natAbs)) 'b' = some i := by
  constructor
  · apply scan_of_parse_u
    have := scan_parse_bin sgu (signFor_isSign hu) k u.toNat
    rw [this]; congr 1; exact signFor_value hu
  · apply scan_of_parse_i
    rw [scan_parse_bin sgi (signFor_isSign hi) k i.toInt.natAbs]; congr 1; exact signFor_value hi

/-- `scan_reads_back`, octal: `%o` text (no prefix) reads back with `%o` and with `%O` -/
theorem scan_reads_back_oct (verb : Char) (hv : verb = 'o' ∨ verb = 'O') (u : U128) (i : I128) (k : Nat)
    (sgu sgi : List Char) (hu : SignFor (u.toNat : Int) sgu) (hi : SignFor i.toInt sgi) :
    U128.scan (sgu ++ (zeros k ++ baseDigits 8 u.toNat)) verb = some u ∧
    I128.scan (sgi ++ (zeros k ++ baseDigits 8 i.toInt.natAbs)) verb = some i := by
  constructor
  · apply scan_of_parse_u
    have := scan_parse_oct verb hv sgu (signFor_isSign hu) k u.toNat
    rw [this]; congr 1; exact signFor_value hu
  · apply scan_of_parse_i
    rw [scan_parse_oct verb hv sgi (signFor_isSign hi) k i.toInt.natAbs]; congr 1; exact signFor_value hi

/-- `scan_reads_back`, hexadecimal, **every value of both types**: `%x` text (lower-case digits) with any sign form and
    any zero padding — including the single padding zero in front of a leading digit `b` (`%03x` of 177 = `0b1`), which is
    not taken for a binary prefix — reads back with `%x` and with `%X`.  No hypothesis on the digits: a text containing the
    digit `e` takes the `big.Rat` branch of `parseToBigInt`, where `0x…` is a hexadecimal mantissa without radix point and
    without exponent (`e` is a digit of the base) and denotes the fraction value/1 (`Conv.parse_hex_body`). -/
theorem scan_reads_back_hex (verb : Char) (hv : verb = 'x' ∨ verb = 'X') (u : U128) (i : I128) (k : Nat)
    (sgu sgi : List Char) (hu : SignFor (u.toNat : Int) sgu) (hi : SignFor i.toInt sgi) :
    U128.scan (sgu ++ (zeros k ++ baseDigits 16 u.toNat)) verb = some u ∧
    I128.scan (sgi ++ (zeros k ++ baseDigits 16 i.toInt.natAbs)) verb = some i := by
  constructor
  · apply scan_of_parse_u
    rw [scan_parse_hex_all verb hv sgu (signFor_isSign hu) k u.toNat]; congr 1; exact signFor_value hu
  · apply scan_of_parse_i
    rw [scan_parse_hex_all verb hv sgi (signFor_isSign hi) k i.toInt.natAbs]; congr 1; exact signFor_value hi

/-- `scan_reads_back`, hexadecimal, upper case: `%X` text (`baseDigitsU`, digits `A`–`F`) with any sign form and zero
    padding reads back with `%X` and with `%x`, for every value of both types -/
theorem scan_reads_back_hex_upper (verb : Char) (hv : verb = 'x' ∨ verb = 'X') (u : U128) (i : I128) (k : Nat)
    (sgu sgi : List Char) (hu : SignFor (u.toNat : Int) sgu) (hi : SignFor i.toInt sgi) :
    U128.scan (sgu ++ (zeros k ++ baseDigitsU 16 u.toNat)) verb = some u ∧
    I128.scan (sgi ++ (zeros k ++ baseDigitsU 16 i.toInt.natAbs)) verb = some i := by
  constructor
  · apply scan_of_parse_u
    rw [scan_parse_hexU_all verb hv sgu (signFor_isSign hu) k u.toNat]; congr 1; exact signFor_value hu
  · apply scan_of_parse_i
    rw [scan_parse_hexU_all verb hv sgi (signFor_isSign hi) k i.toInt.natAbs]; congr 1; exact signFor_value hi

/-- hexadecimal text of ANY shape of digits (mixed case, any length, any padding) denotes its Horner value under
    `%x` / `%X`, saturated to the type's range like every other constructor from text -/
theorem scan_hex_digits_value (verb : Char) (hv : verb = 'x' ∨ verb = 'X') (body : List Char) (hne : body ≠ [])
    (hall : ∀ c ∈ body, digitVal c < 16) :
    U128.scan body verb = some (U128.fromBigInt (digitsVal 16 body : Int)) ∧
    I128.scan ('-' :: body) verb = some (I128.fromBigInt (-(digitsVal 16 body : Int))) := by
  have h1 := scan_parse_hex_body verb hv [] (Or.inl rfl) body hne hall
  have h2 := scan_parse_hex_body verb hv ['-'] (Or.inr (Or.inr rfl)) body hne hall
  simp only [List.nil_append, List.cons_append, reduceCtorEq, if_false, if_true] at h1 h2
  unfold U128.scan I128.scan U128.fromString I128.fromString
  rw [h1, h2]; exact ⟨rfl, rfl⟩

/-- every verb other than `b o O d x X` leaves the token alone: `Scan` is `FromString` of the token -/
theorem scan_other_verbs (verb : Char) (h : verbPrefix verb = none) (t : List Char) :
    U128.scan t verb = U128.fromString t ∧ I128.scan t verb = I128.fromString t := by
  unfold U128.scan I128.scan scanText
  rw [h]; exact ⟨rfl, rfl⟩

/-- non-vacuity: `0b1` under `%x` is 177, `000123` under `%d` is 123, `10` under `%x` is 16 -/
example : U128.scan ['0', 'b', '1'] 'x' = some ⟨0#64, 177#64⟩ ∧ U128.scan ['0', '0', '0', '1', '2', '3'] 'd' = some ⟨0#64, 123#64⟩ ∧
    U128.scan ['1', '0'] 'x' = some ⟨0#64, 16#64⟩ := by decide

/-- … and the `big.Rat` branch: `1e` under `%x` and `1E` under `%X` are 0x1e = 30; `baseDigitsU 16 0x1ebe` is `1EBE` -/
example : U128.scan ['1', 'e'] 'x' = some ⟨0#64, 30#64⟩ ∧ U128.scan ['1', 'E'] 'X' = some ⟨0#64, 30#64⟩ ∧
    hasExpChar ['0', 'x', '1', 'e'] = true := by decide

/-! ## big.Int -/

/-- `AsBigInt` is the exact value -/
theorem asBigInt_exact (u : U128) (i : I128) : u.asBigInt = (u.toNat : Int) ∧ i.asBigInt = i.toInt :=
  ⟨U128.asBigInt_eq u, I128.asBigInt_eq i⟩

/-- `fromBigInt_exact_or_saturates` (Uint128): exact in `[0, 2^128)`, 0 below, `MaxUint128` above -/
theorem fromBigInt_exact_or_saturates_u (z : Int) :
    ((U128.fromBigInt z).toNat : Int) = if z < 0 then 0 else if z < 2^128 then z else 2^128 - 1 :=
  U128.fromBigInt_spec z

/-- `fromBigInt_exact_or_saturates` (Int128): exact in `[-2^127, 2^127)`, `MinInt128` below, `MaxInt128` above -/
theorem fromBigInt_exact_or_saturates_i (z : Int) :
    (I128.fromBigInt z).toInt = if z < -(2^127) then -(2^127) else if z < 2^127 then z else 2^127 - 1 :=
  I128.fromBigInt_spec z

/-- `asBigInt_fromBigInt`: loading the big.Int rendering back yields the identical value -/
theorem asBigInt_fromBigInt (u : U128) (i : I128) :
    U128.fromBigInt u.asBigInt = u ∧ I128.fromBigInt i.asBigInt = i :=
  ⟨U128.fromBigInt_asBigInt u, I128.fromBigInt_asBigInt i⟩

/-- … and an in-range big.Int survives the round trip through either type -/
theorem fromBigInt_asBigInt (z : Int) :
    (0 ≤ z → z < 2^128 → (U128.fromBigInt z).asBigInt = z) ∧
    (-(2^127) ≤ z → z < 2^127 → (I128.fromBigInt z).asBigInt = z) := by
  constructor
  · intro h1 h2
    rw [U128.asBigInt_eq, U128.fromBigInt_spec, if_neg (by omega), if_pos h2]
  · intro h1 h2
    rw [I128.asBigInt_eq, I128.fromBigInt_spec, if_neg (by omega), if_pos h2]

/-! ## 64-bit constructors -/

/-- `Uint128From64`, `Int128From64`, `Int128FromUint64` are exact -/
theorem from64_exact (v : BitVec 64) :
    (U128.from64 v).toNat = v.toNat ∧ (I128.from64 v).toInt = v.toInt ∧ (I128.fromUint64 v).toInt = (v.toNat : Int) := by
  have hv := v.isLt
  have z0 : (0#64).toNat = 0 := rfl
  have zm : maxU64.toNat = 2^64 - 1 := by decide
  refine ⟨by simp [U128.from64, U128.toNat], ?_, ?_⟩
  · have ht := BitVec.toInt_eq_toNat_cond v
    unfold I128.from64
    by_cases h : 2 * v.toNat < 2^64
    · rw [if_pos h] at ht
      have hc : ¬ v.toInt < 0 := by omega
      rw [if_neg hc]
      unfold I128.toInt
      simp only []
      rw [z0, if_pos (by omega), ht]; omega
    · rw [if_neg h] at ht
      have hc : v.toInt < 0 := by omega
      rw [if_pos hc]
      unfold I128.toInt
      simp only []
      rw [zm, if_neg (by omega), ht]; omega
  · unfold I128.fromUint64 I128.toInt
    simp only []
    rw [z0, if_pos (by omega)]; omega

/-! ## narrowing: `IsX` is true exactly when `AsX` preserves the value -/

theorem isInt128_iff_asInt128_preserves (u : U128) : u.isInt128 = true ↔ u.asInt128.toInt = (u.toNat : Int) :=
  U128.isInt128_iff u
theorem isUint64_iff_asUint64_preserves_u (u : U128) : u.isUint64 = true ↔ u.asUint64.toNat = u.toNat :=
  U128.isUint64_iff u
theorem isUint128_iff_asUint128_preserves (i : I128) : i.isUint128 = true ↔ (i.asUint128.toNat : Int) = i.toInt :=
  I128.isUint128_iff i
theorem isInt64_iff_asInt64_preserves (i : I128) : i.isInt64 = true ↔ i.asInt64.toInt = i.toInt :=
  I128.isInt64_iff i
theorem isUint64_iff_asUint64_preserves_i (i : I128) : i.isUint64 = true ↔ (i.asUint64.toNat : Int) = i.toInt :=
  I128.isUint64_iff i

/-- `Uint128.Int64()` of the `json.Number` interface succeeds exactly when the value is below 2^63 and then returns it -/
theorem int64_spec_u (u : U128) :
    (u.int64 = none ↔ ¬ u.toNat < 2^63) ∧ ∀ v, u.int64 = some v → v.toInt = (u.toNat : Int) :=
  U128.int64_spec u

/-- `Int64()` of the `json.Number` interface succeeds exactly when the value fits and then returns it -/
theorem int64_spec (i : I128) :
    (i.int64 = none ↔ ¬ (-(2^63) ≤ i.toInt ∧ i.toInt < 2^63)) ∧ ∀ v, i.int64 = some v → v.toInt = i.toInt := by
  have h := I128.isInt64_iff i
  have hr := i.asInt64.toInt_lt; have hl := i.asInt64.le_toInt
  unfold I128.int64
  by_cases c : i.isInt64 = true
  · have hv := h.mp c
    rw [c]
    simp only [Bool.not_true, Bool.false_eq_true, if_false]
    constructor
    · constructor
      · intro x; cases x
      · intro x; exact (x ⟨by omega, by omega⟩).elim
    · intro v hv'; injection hv' with hv'; rw [← hv']; exact hv
  · have c' : i.isInt64 = false := by cases hb : i.isInt64 <;> simp_all
    rw [c']
    simp only [Bool.not_false, if_true]
    constructor
    · constructor
      · intro _ hfit
        obtain ⟨h1, h2⟩ := hfit
        apply c
        -- the value fits: the low word read as an int64 is the value
        apply h.mpr
        rw [I128.asInt64_eq_lo i, BitVec.toInt_eq_toNat_cond]
        have hh := i.hi.isLt; have hll := i.lo.isLt
        unfold I128.toInt at h1 h2 ⊢
        split at h1 <;> split <;> omega
      · intro _; trivial
    · intro v hv; cases hv

/-! ## float64 → integer -/

/-- `fromFloat64_spec` (Uint128): for every float64 (every decoded bit pattern) the constructor returns — without ever
    evaluating an out-of-range (implementation-defined) float → integer conversion — 0 for NaN and for values ≤ 0,
    `MaxUint128` for +Inf, and otherwise the value truncated toward zero, saturated to the type's range -/
theorem fromFloat64_spec_u (f : F64) (hf : f.WF) :
    U128.fromFloat64 f = .ok (match f with
      | .nan => U128.zero
      | .inf neg => if neg then U128.zero else U128.max
      | .fin .. => U128.fromBigInt f.truncInt) := by
  cases f with
  | nan => rfl
  | inf neg => cases neg <;> rfl
  | fin s m e => exact U128.fromFloat64_fin s m e hf

/-- `fromFloat64_spec` (Int128): 0 for NaN, the bounds for ±Inf, otherwise the truncated value saturated to
    `[MinInt128, MaxInt128]`; no implementation-defined conversion is evaluated -/
theorem fromFloat64_spec_i (f : F64) (hf : f.WF) :
    I128.fromFloat64 f = .ok (match f with
      | .nan => I128.zero
      | .inf neg => if neg then I128.min else I128.max
      | .fin .. => I128.fromBigInt f.truncInt) := by
  cases f with
  | nan => rfl
  | inf neg => cases neg <;> rfl
  | fin s m e => exact I128.fromFloat64_fin s m e hf

/-- the same for the values the driver actually feeds: every 64-bit pattern -/
theorem fromFloat64_never_implDefined (bits : Nat) :
    U128.fromFloat64 (decode bits) ≠ .implDefined ∧ I128.fromFloat64 (decode bits) ≠ .implDefined := by
  have h := decode_wf bits
  constructor
  · intro c; rw [fromFloat64_spec_u _ h] at c; cases c
  · intro c; rw [fromFloat64_spec_i _ h] at c; cases c

/-- value form of `fromFloat64_spec` for finite input: exact truncation in range, nearest bound out of range -/
theorem fromFloat64_value (s : Bool) (m : Nat) (e : Int) (hf : WF (.fin s m e)) :
    (∃ u, U128.fromFloat64 (.fin s m e) = .ok u ∧
      (u.toNat : Int) = let z := truncInt (.fin s m e); if z < 0 then 0 else if z < 2^128 then z else 2^128 - 1) ∧
    (∃ i, I128.fromFloat64 (.fin s m e) = .ok i ∧
      i.toInt = let z := truncInt (.fin s m e); if z < -(2^127) then -(2^127) else if z < 2^127 then z else 2^127 - 1) :=
  ⟨⟨_, U128.fromFloat64_fin s m e hf, U128.fromBigInt_spec _⟩, ⟨_, I128.fromFloat64_fin s m e hf, I128.fromBigInt_spec _⟩⟩

/-! ## integer → float64 -/

/-- `asFloat64_exact_below_2_53` with the sign clause on that range (Uint128): the result is finite, not negative,
    zero only for 0, and its exact value is the integer -/
theorem asFloat64_exact_below_2_53_u (u : U128) (h : u.toNat < 2^53) :
    ValEq u.asFloat64 (u.toNat : Int) ∧ ∃ m e, u.asFloat64 = .fin false m e ∧ (m = 0 ↔ u.toNat = 0) :=
  U128.asFloat64_exact u h

/-- `asFloat64_exact_below_2_53` with the sign clause on that range (Int128): sign bit set exactly for negative values -/
theorem asFloat64_exact_below_2_53_i (i : I128) (h1 : -(2^53) < i.toInt) (h2 : i.toInt < 2^53) :
    ValEq i.asFloat64 i.toInt ∧ ∃ m e, i.asFloat64 = .fin (decide (i.toInt < 0)) m e ∧ (m = 0 ↔ i.toInt = 0) :=
  I128.asFloat64_exact i h1 h2

/-- `Int128.AsFloat64` is the negation of the magnitude's conversion, so the sign and error clauses for `Int128`
    reduce to those of `Uint128.AsFloat64` applied to `|x|` (`AbsUint128`, proved to be the absolute value) -/
theorem asFloat64_i_reduces (i : I128) :
    (i.toInt < 0 → i.asFloat64 = F64.neg i.absUint128.asFloat64 ∧ (i.absUint128.toNat : Int) = -i.toInt) ∧
    (0 ≤ i.toInt → i.asFloat64 = i.asUint128.asFloat64 ∧ (i.asUint128.toNat : Int) = i.toInt) := by
  have hh := i.hi.isLt; have hl := i.lo.isLt
  have ha := I128.absUint128_toNat i
  unfold I128.asFloat64
  rw [and_signBit_ne]
  constructor
  · intro hneg
    have hs : 2^63 ≤ i.hi.toNat := by
      unfold I128.toInt at hneg; split at hneg <;> omega
    rw [decide_eq_true hs, if_pos rfl, if_pos hneg] at *
    exact ⟨rfl, ha⟩
  · intro hpos
    have hs : ¬ 2^63 ≤ i.hi.toNat := by
      unfold I128.toInt at hpos; split at hpos <;> omega
    rw [decide_eq_false hs, if_neg (by simp)]
    refine ⟨rfl, ?_⟩
    unfold I128.asUint128 U128.toNat I128.toInt; rw [if_pos (by omega)]

/-- `asFloat64_sign` (Uint128), all 2^128 values: the result is finite with a clear sign bit, and it is zero exactly
    for the value 0 (so positive values give positive floats) -/
theorem asFloat64_sign_u (u : U128) : ∃ m e, u.asFloat64 = .fin false m e ∧ (m = 0 ↔ u.toNat = 0) := by
  obtain ⟨m, e, h, _, _, z1, z2, _⟩ := U128.asFloat64_round u
  refine ⟨m, e, h, ?_, z1⟩
  intro hm
  exact Classical.byContradiction fun c => by have := z2 c; omega

/-- `asFloat64_sign` (Int128), all 2^128 values: the sign bit is set exactly for negative values and the result is
    zero (`+0`) exactly for the value 0 -/
theorem asFloat64_sign_i (i : I128) :
    ∃ m e, i.asFloat64 = .fin (decide (i.toInt < 0)) m e ∧ (m = 0 ↔ i.toInt = 0) := by
  obtain ⟨m, e, h, _, _, z1, z2, _⟩ := I128.asFloat64_round i
  refine ⟨m, e, h, ?_, z1⟩
  intro hm
  exact Classical.byContradiction fun c => by have := z2 c; omega

/-- `asFloat64_within_ulp` (Uint128), all 2^128 values, through the three roundings `float64(hi)`, `float64(lo)` and
    the sum (the product by 2^64 is exact): the result `m·2^e` is a well-formed binary64 (`+0`, or normal with
    `2^52 ≤ m < 2^53`, so that `2^e` is exactly its unit in the last place), and `|m·2^e − x| ≤ 2^e`.  The inequality
    is written without fractions for `e ≥ 0`, which holds for every `x ≥ 2^53`; below 2^53 the conversion is exact
    (`asFloat64_exact_below_2_53_u`). -/
theorem asFloat64_within_ulp_u (u : U128) :
    ∃ m e, u.asFloat64 = .fin false m e ∧ -1074 ≤ e ∧ e ≤ 971 ∧ (u.toNat ≠ 0 → 2^52 ≤ m ∧ m < 2^53) ∧
      (2^53 ≤ u.toNat → 0 ≤ e) ∧
      (0 ≤ e → (m : Int) * 2^e.toNat - 2^e.toNat ≤ u.toNat ∧ (u.toNat : Int) ≤ m * 2^e.toNat + 2^e.toNat) := by
  obtain ⟨m, e, h, e1, e2, _, z2, z3, hb⟩ := U128.asFloat64_round u
  refine ⟨m, e, h, e1, e2, z2, z3, ?_⟩
  intro he
  obtain ⟨b1, b2⟩ := hb he
  have c1 := Int.ofNat_le.mpr b1
  have c2 := Int.ofNat_le.mpr b2
  simp only [Int.natCast_add, Int.natCast_mul, Int.natCast_pow, Nat.cast_ofNat] at c1 c2
  omega

/-- `asFloat64_within_ulp` (Int128), all 2^128 values: the result is `±m·2^e` with the sign of the value (the sign is
    handled through `AbsUint128`, also for `MinInt128`), well formed, and `|±m·2^e − x| ≤ 2^e`; `e ≥ 0` whenever
    `|x| ≥ 2^53`, and below that the conversion is exact (`asFloat64_exact_below_2_53_i`). -/
theorem asFloat64_within_ulp_i (i : I128) :
    ∃ m e, i.asFloat64 = .fin (decide (i.toInt < 0)) m e ∧ -1074 ≤ e ∧ e ≤ 971 ∧
      (i.toInt ≠ 0 → 2^52 ≤ m ∧ m < 2^53) ∧ (2^53 ≤ i.toInt ∨ i.toInt ≤ -(2^53) → 0 ≤ e) ∧
      (0 ≤ e → (if i.toInt < 0 then -(m : Int) else m) * 2^e.toNat - 2^e.toNat ≤ i.toInt ∧
        i.toInt ≤ (if i.toInt < 0 then -(m : Int) else m) * 2^e.toNat + 2^e.toNat) := by
  obtain ⟨m, e, h, e1, e2, _, z2, z3, hb⟩ := I128.asFloat64_round i
  refine ⟨m, e, h, e1, e2, z2, fun c => z3 (by omega), ?_⟩
  intro he
  obtain ⟨b1, b2⟩ := hb he
  have c1 := Int.ofNat_le.mpr b1
  have c2 := Int.ofNat_le.mpr b2
  simp only [Int.natCast_add, Int.natCast_mul, Int.natCast_pow, Nat.cast_ofNat] at c1 c2
  by_cases hn : i.toInt < 0
  · rw [if_pos hn, Int.neg_mul]; omega
  · rw [if_neg hn]; omega

/-- `asFloat64_within_ulp`, stricter reading (the unit in the last place *of the exact value*): for `x ≥ 2^53` in the
    binade `2^(52+k) ≤ x < 2^(53+k)`, whose unit is `2^k`, the result `m·2^e` of `Uint128.AsFloat64` satisfies
    `|m·2^e − x| ≤ 2^k`.  (It differs from `asFloat64_within_ulp_u` only when the result is rounded up to a power of
    two, where the result's own unit is `2^(k+1)`.) -/
theorem asFloat64_within_ulp_of_value_u (u : U128) (hbig : 2^53 ≤ u.toNat) :
    ∃ m e k, u.asFloat64 = .fin false m e ∧ 0 ≤ e ∧ 2^(52 + k) ≤ u.toNat ∧ u.toNat < 2^(53 + k) ∧
      m * 2^e.toNat ≤ u.toNat + 2^k ∧ u.toNat ≤ m * 2^e.toNat + 2^k :=
  U128.asFloat64_ulp_of_value u hbig

/-- the same for `Int128.AsFloat64` on magnitudes: `| m·2^e − |x| | ≤ 2^k` for `2^(52+k) ≤ |x| < 2^(53+k)`, the result
    being `±m·2^e` with the sign of `x` -/
theorem asFloat64_within_ulp_of_value_i (i : I128) (hbig : 2^53 ≤ i.toInt.natAbs) :
    ∃ m e k, i.asFloat64 = .fin (decide (i.toInt < 0)) m e ∧ 0 ≤ e ∧
      2^(52 + k) ≤ i.toInt.natAbs ∧ i.toInt.natAbs < 2^(53 + k) ∧
      m * 2^e.toNat ≤ i.toInt.natAbs + 2^k ∧ i.toInt.natAbs ≤ m * 2^e.toNat + 2^k :=
  I128.asFloat64_ulp_of_value i hbig

/-! ## non-vacuity -/

/-- 2^64 (bits 0x43f0…) is a well-formed float that takes the large branch: hi = 1, lo = 0 -/
example : U128.fromFloat64 (decode 0x43f0000000000000) = .ok ⟨1#64, 0#64⟩ := by
  rw [fromFloat64_spec_u _ (decode_wf _)]; decide

example : parseToBigInt ['1', 'e', '2'] = some 100 := by decide

/-- the grammar is inhabited on both sides: `-0x_1f` is a literal denoting −31; `1__0` is not a literal at all -/
example : IsPlainIntLiteral ['-', '0', 'x', '_', '1', 'f'] (-31) :=
  (fromString_rejects_plain _ _ (by decide)).mp (by decide)
example : IsIntLiteral ['1', '.', '5', 'e', '1'] 15 := (fromString_rejects _ _).mp (by decide)
example : ¬ ∃ z, IsPlainIntLiteral ['1', '_', '_', '0'] z := fun ⟨z, h⟩ => by
  have := (fromString_rejects_plain _ z (by decide)).mpr h
  have hn : parseToBigInt ['1', '_', '_', '0'] = none := by decide
  rw [hn] at this; cases this

/-- a value where all three roundings of `AsFloat64` are inexact and the first and the last are ties
    (hi = 2^53 + 1, lo = 2^64 − 1): the result is 2^117, its unit is 2^65, the error is 2^65 − 1 — the bound of
    `asFloat64_within_ulp_u` is attained up to 1 -/
example : (⟨0x20000000000001#64, 0xffffffffffffffff#64⟩ : U128).asFloat64 = .fin false (2^52) 65 := by decide

end C02
